(** C15, part 5: every crash image of the whole writer program, read by [reader_open].
    - an image from before the final write of page 0 is rejected, or yields the empty XML;
    - the final write of page 0 torn at any byte: rejected, or the XML bytes returned are
      [take k xml] for some k (a prefix of the XML of the completed file), and if they are the
      whole XML the image IS the completed file, byte for byte;
    - every later image is the completed file. *)
From E57 Require Import Base.Prelude Model.Crc Model.Device Model.PagedWriter Model.PagedReader
  Spec.PageSpec Spec.PageReadSpec Model.Prog Model.QueueReader Model.PcWriter Model.FileBin Model.ReaderOpen
  Model.CrashImage.
From E57 Require Import Proofs.PageSpecLemmas Proofs.PagedReaderLogical Proofs.PagedReaderCache
  Proofs.ReaderProgSem Proofs.ProgTransfer Proofs.BlobProofs Proofs.PagedWriterProofs
  Proofs.PagedWriterLemmas Proofs.CrashLog Proofs.CrashSafe Proofs.CrashOpen Proofs.CrashTrace.
From Coq Require Import ZifyN ZifyNat ZifyBool.
Ltac Zify.zify_post_hook ::= Z.div_mod_to_equations.

Local Arguments overwrite : simpl never.
Local Arguments take : simpl never.
Local Arguments drop : simpl never.
Local Arguments slice : simpl never.
Local Arguments zeros : simpl never.
Local Arguments len : simpl never.
Local Arguments paginate_n : simpl never.
Local Arguments crc_bytes : simpl never.

Ltac nsimp :=
  repeat first
    [ rewrite nthN_overwrite | rewrite nthN_app | rewrite nthN_take | rewrite nthN_drop
    | rewrite nthN_slice | rewrite nthN_zeros | rewrite nthN_nil
    | rewrite len_overwrite | rewrite len_app | rewrite len_take | rewrite len_drop
    | rewrite len_slice | rewrite len_zeros | rewrite len_sealp | rewrite len_crc_bytes
    | rewrite len_nil ].

Ltac dcmp :=
  repeat match goal with
  | |- context [?a <? ?b] => destruct (N.ltb_spec a b)
  | |- context [?a <=? ?b] => destruct (N.leb_spec a b)
  | |- context [?a =? ?b] => destruct (N.eqb_spec a b)
  end.

(** * Replaying writes *)

Lemma firstn_take {A} (n : nat) (l : list A) : firstn n l = take (N.of_nat n) l.
Proof. unfold take. rewrite Nat2N.id. reflexivity. Qed.

Lemma z2440_nil : z2440 [].
Proof. intros j _ _. apply nthN_nil. Qed.

(** a write, complete or torn, of an entry that is fine leaves the XML fields zero *)
Definition entry_weak (w : N * list N) : Prop :=
  (exists pg, fst w = 1024 * pg) /\ (fst w = 0 -> z2440 (snd w)).

Lemma entry_ok_weak w : entry_ok w -> entry_weak w.
Proof. intros (H1 & _ & H3). split; assumption. Qed.

Lemma entry_weak_torn w cut : entry_weak w -> entry_weak (torn w cut).
Proof.
  intros (H1 & H3). split; [exact H1|]. cbn [torn fst snd]. intros H0 j Hj1 Hj2.
  rewrite firstn_take, nthN_take. destruct (j <? N.of_nat cut); [apply H3; assumption|reflexivity].
Qed.

Lemma z2440_write img w : z2440 img -> entry_weak w -> z2440 (overwrite img (fst w) (snd w)).
Proof.
  intros Hz ((pg & Hp) & H3) j Hj1 Hj2. rewrite nthN_overwrite.
  destruct (N.ltb_spec j (fst w)); [apply Hz; assumption|].
  assert (H0 : fst w = 0) by lia. rewrite H0 in *.
  destruct (N.ltb_spec j (0 + len (snd w))); [|apply Hz; assumption].
  replace (j - 0) with j by lia. apply H3; auto.
Qed.

Lemma z2440_apply ws : Forall entry_weak ws -> z2440 (apply_writes ws).
Proof.
  induction ws as [|w ws IH] using rev_ind; intros H; [exact z2440_nil|].
  apply Forall_app in H as [H1 H2]. rewrite apply_writes_snoc.
  apply z2440_write; [apply IH, H1|]. inversion H2; assumption.
Qed.

(** a crash point inside a sequence of fine entries *)
Lemma crash_image_weak tr n cut : Forall entry_weak tr -> z2440 (crash_image tr n cut).
Proof.
  intros H. unfold crash_image. apply z2440_apply. apply Forall_app. split.
  - apply Forall_forall. intros w Hw. rewrite Forall_forall in H. apply H.
    rewrite <- (firstn_skipn n tr). apply in_or_app. left. exact Hw.
  - destruct (nth_error tr n) as [w|] eqn:E; [|constructor].
    constructor; [|constructor]. apply entry_weak_torn.
    rewrite Forall_forall in H. apply H. eapply nth_error_In, E.
Qed.

(** * Little-endian numbers of byte lists cut short *)

Lemma le_num_app a b : le_num (a ++ b) = le_num a + 256 ^ len a * le_num b.
Proof.
  induction a as [|x a IH]; cbn [app le_num].
  - change (len (@nil N)) with 0. change (256 ^ 0) with 1. lia.
  - rewrite IH, len_cons. rewrite N.pow_add_r. change (256 ^ 1) with 256. lia.
Qed.

Lemma le_num_zeros n : le_num (zeros n) = 0.
Proof. apply le_num_zero_bytes. intros i. apply nthN_zeros. Qed.

Lemma le_num_0_zeros l : le_num l = 0 -> l = zeros (len l).
Proof.
  induction l as [|b r IH]; intros H; [reflexivity|].
  cbn [le_num] in H. assert (Hb : b = 0) by lia. assert (Hr : le_num r = 0) by lia.
  subst b. rewrite len_cons. unfold zeros. replace (N.to_nat (len r + 1)) with (S (N.to_nat (len r))) by lia.
  cbn [repeat]. f_equal. apply IH, Hr.
Qed.

(** a number whose high bytes were not written yet: never larger, and equal only if the bytes are equal *)
Lemma le_num_cut m l :
  le_num (take m l ++ zeros (len l - m)) <= le_num l /\
  (le_num (take m l ++ zeros (len l - m)) = le_num l -> take m l ++ zeros (len l - m) = l).
Proof.
  pose proof (take_drop_id m l) as E.
  assert (Hl : le_num l = le_num (take m l) + 256 ^ len (take m l) * le_num (drop m l)).
  { rewrite <- E at 1. apply le_num_app. }
  rewrite le_num_app, le_num_zeros, N.mul_0_r, N.add_0_r. rewrite Hl.
  split; [lia|]. intros H.
  assert (Hp : 0 < 256 ^ len (take m l)) by (apply N.neq_0_lt_0, N.pow_nonzero; lia).
  assert (Hd : le_num (drop m l) = 0) by nia.
  apply le_num_0_zeros in Hd. rewrite len_drop in Hd. rewrite <- Hd. exact E.
Qed.

Lemma firstn_le_bytes : forall m n v, (m <= n)%nat -> firstn m (le_bytes n v) = le_bytes m v.
Proof.
  induction m as [|m IH]; intros n v H; [reflexivity|].
  destruct n as [|n]; [lia|]. cbn [le_bytes firstn]. f_equal. apply IH. lia.
Qed.

Lemma le_num_take_le_bytes m v : le_num (take m (le_bytes 8 v)) = v mod 256 ^ N.min m 8.
Proof.
  unfold take. destruct (le_lt_dec (N.to_nat m) 8) as [H|H].
  - rewrite firstn_le_bytes by exact H. rewrite BlobProofs.le_num_le_bytes. f_equal. f_equal. lia.
  - rewrite firstn_all2 by (cbn [le_bytes length]; lia). rewrite BlobProofs.le_num_le_bytes.
    f_equal. f_equal. lia.
Qed.

(** a length field of which only the low bytes are written: the whole value, zero, or at least
    256 short of it *)
Lemma mod_pow_gap v j : let k := v mod 256 ^ j in k = v \/ k = 0 \/ k + 256 <= v.
Proof.
  cbv zeta. destruct (N.eq_dec j 0) as [->|Hj].
  - right. left. change (256 ^ 0) with 1. apply N.mod_1_r.
  - assert (Hp : 256 <= 256 ^ j).
    { change 256 with (256 ^ 1) at 1. apply N.pow_le_mono_r; lia. }
    assert (Hnz : 256 ^ j <> 0) by lia.
    pose proof (N.div_mod v (256 ^ j) Hnz) as E. pose proof (N.mod_lt v (256 ^ j) Hnz) as Hlt.
    revert E Hlt. generalize (v / 256 ^ j) (v mod 256 ^ j). generalize dependent (256 ^ j).
    intros P Hp Hnz q r E Hlt. clear j Hj.
    destruct (N.eq_dec q 0) as [Hq|Hq].
    + left. subst q. rewrite N.mul_0_r in E. lia.
    + right. right.
      assert (H2 : P * 1 <= P * q) by (apply N.mul_le_mono_l; destruct q; [congruence|lia]). lia.
Qed.

(** * Programs on the validating reader over a well-formed image *)

Lemma rrun_g_log log : len log mod 1020 = 0 -> forall A (p : rprog A) off,
  rrun_g 1024 (paginate log) p off = rrun_spec log p off.
Proof.
  intros Hmod A p. induction p as [a|e| |o k IH]; intros off; cbn [rrun_g rrun_spec]; try reflexivity.
  rewrite (gr_step_log log Hmod). destruct (lr_step log o off) as [off1 r]. apply IH.
Qed.

Lemma extract_xml_log log xo k off xr :
  snd (rrun_spec log (extract_xml xo k) off) = Ok xr -> xr = slice (log_of_phys xo) k log.
Proof.
  unfold extract_xml. destruct (MAX_XML_SIZE <? k); [discriminate|].
  rewrite rrun_spec_bind. unfold r_seek at 1. cbn [rrun_spec lr_step].
  destruct (len log / PAYLOAD_SZ * PAGE_SZ <=? xo); cbn [rrun_spec]; [discriminate|].
  unfold rd, r_read_exact. cbn [rrun_spec lr_step].
  destruct (N.eqb_spec k 0) as [->|Hk]; cbn [rrun_spec snd].
  - intros H. injection H as <-. reflexivity.
  - destruct (log_of_phys xo + k <=? len log); cbn [rrun_spec snd]; [|discriminate].
    intros H. injection H as <-. reflexivity.
Qed.

(** * The final write of page 0, torn *)

Lemma hdr_tail a b c : drop 40 (hdr a b c) = drop 40 hdr0.
Proof. reflexivity. Qed.

Lemma hdr_xo a b c : slice 24 8 (hdr a b c) = le_bytes 8 b.
Proof. reflexivity. Qed.

Lemma hdr_xl a b c : slice 32 8 (hdr a b c) = le_bytes 8 c.
Proof. reflexivity. Qed.

Section Torn.
  Variables (data4 xml P0 : list N) (x : N).
  Let pl := pages_for (len data4) * 1024.
  Let hdrF := hdr pl (phys_of_log x) (len xml).
  Let data7 := overwrite data4 0 hdrF.
  Let Ipre := paginate data4.
  Let F := overwrite Ipre 0 P0.

  Hypothesis HlP : len P0 = 1024.
  Hypothesis HnP : forall j, j < 1020 -> nthN j P0 = nthN j data7.
  Hypothesis HcP : drop 1020 P0 = crc_bytes (take 1020 P0).
  Hypothesis Hx : 48 <= x.
  Hypothesis Hslice : slice x (len xml) data4 = xml.
  Hypothesis Hxe : xml <> [] -> x + len xml <= len data4.
  Hypothesis Hh0 : forall j, j < 48 -> nthN j data4 = nthN j hdr0.
  Hypothesis Hl4 : 48 <= len data4.
  Hypothesis Hsize : phys_of_log x < 2 ^ 64.

  Definition torn_image (c : N) : list N := overwrite Ipre 0 (take c P0).

  Let np := pages_for (len data4).
  Let dl4 := pad_payload data4.

  Let Hdl : len dl4 = 1020 * np.
  Proof. unfold dl4, np. rewrite len_pad_payload. lia. Qed.

  Let Hnp : 1 <= np.
  Proof. unfold np, pages_for, PAYLOAD_SZ. lia. Qed.

  Let HI : Ipre = paginate_n (N.to_nat np) dl4.
  Proof. reflexivity. Qed.

  Let HlenI : len Ipre = 1024 * np.
  Proof. rewrite HI. apply pag_len, Hdl. Qed.

  Lemma len_torn c : len (torn_image c) = 1024 * np.
  Proof. unfold torn_image. rewrite len_overwrite, len_take, HlenI, HlP. lia. Qed.

  Lemma nth_Ipre i : i < 1020 -> nthN i Ipre = nthN i data4.
  Proof.
    intros Hi.
    assert (H : nthN i (slice (1024 * 0) 1024 Ipre) = nthN i Ipre).
    { rewrite nthN_slice. dcmp; [|lia]. replace (1024 * 0 + i) with i by lia. reflexivity. }
    rewrite <- H, HI, (pag_slice np 0 dl4 Hdl) by lia.
    unfold sealp. rewrite nthN_app, len_slice, nthN_slice, Hdl.
    dcmp; try lia. unfold dl4, pad_payload. rewrite nthN_pad. f_equal; lia.
  Qed.

  Lemma nth_data7 i : nthN i data7 = if i <? 48 then nthN i hdrF else nthN i data4.
  Proof.
    unfold data7. rewrite nthN_overwrite. unfold hdrF at 1. rewrite len_hdr.
    dcmp; try lia; try reflexivity. f_equal; lia.
  Qed.

  Lemma nth_torn c i : i < 1020 ->
    nthN i (torn_image c) = if i <? c then nthN i data7 else nthN i data4.
  Proof.
    intros Hi. unfold torn_image. rewrite nthN_overwrite, len_take, HlP, nthN_take.
    dcmp; try lia; try (apply nth_Ipre, Hi).
    replace (i - 0) with i by lia. apply HnP, Hi.
  Qed.

  (** the header bytes of the torn image: new up to the cut, placeholder behind it *)
  Lemma nth_torn_hdr c i : i < 48 ->
    nthN i (take 48 (torn_image c)) = if i <? c then nthN i hdrF else nthN i hdr0.
  Proof.
    intros Hi. rewrite nthN_take, nth_torn, nth_data7 by lia. dcmp; try lia; try reflexivity.
    apply Hh0, Hi.
  Qed.

  (** the image is the completed file when the whole page was written *)
  Lemma F_is_torn c : 1024 <= c -> torn_image c = F.
  Proof. intros Hc. unfold torn_image, F. rewrite take_all by lia. reflexivity. Qed.

  (** with a valid page 0 the torn image is the pagination of a logical stream *)
  Section Valid.
    Variable c : N.
    Hypothesis Hok : page_ok 1024 (page_at 1024 (torn_image c) 0) = true.

    Let T0 := page_at 1024 (torn_image c) 0.
    Let q := take 1020 T0.
    Let logc := overwrite dl4 0 q.

    Let HlT0 : len T0 = 1024.
    Proof. unfold T0, page_at. rewrite len_slice, len_torn. lia. Qed.

    Let Hq : len q = 1020.
    Proof. unfold q. rewrite len_take, HlT0. lia. Qed.

    Let HT0 : T0 = sealp q.
    Proof.
      unfold page_ok in Hok. fold T0 in Hok. change (1024 - 4) with 1020 in Hok.
      destruct (list_eq_dec N.eq_dec (drop 1020 T0) (crc_bytes (take 1020 T0))) as [E|]; [|discriminate].
      unfold sealp, q. rewrite <- E. symmetry. apply take_drop_id.
    Qed.

    Let nth_T0 i : i < 1024 -> nthN i T0 = nthN i (torn_image c).
    Proof.
      intros Hi. unfold T0, page_at. rewrite nthN_slice. dcmp; [|lia]. replace (0 * 1024 + i) with i by lia. reflexivity.
    Qed.

    Lemma torn_as_overwrite : torn_image c = overwrite Ipre 0 T0.
    Proof.
      apply list_ext.
      - rewrite len_torn, len_overwrite, HlenI, HlT0. lia.
      - intros i Hi. rewrite nthN_overwrite, HlT0. dcmp; try lia.
        + replace (i - 0) with i by lia. symmetry. apply nth_T0. lia.
        + unfold torn_image. rewrite nthN_overwrite, len_take, HlP. dcmp; try lia; reflexivity.
    Qed.

    Lemma torn_paginate : torn_image c = paginate logc /\ len logc = 1020 * np.
    Proof.
      assert (Hl : len logc = 1020 * np) by (unfold logc; rewrite len_overwrite, Hdl, Hq; lia).
      split; [|exact Hl].
      rewrite torn_as_overwrite, HT0, HI.
      change 0 with (1024 * 0) at 1. rewrite (pag_overwrite_in np 0 dl4 Hdl q) by (lia || exact Hq).
      change (1020 * 0) with 0. fold logc.
      unfold paginate. rewrite pad_payload_divisible by (rewrite Hl; lia).
      rewrite pages_for_divisible by (rewrite Hl; lia). rewrite Hl. f_equal; lia.
    Qed.

    Lemma nth_logc i : nthN i logc = if i <? N.min c 48 then nthN i hdrF else nthN i dl4.
    Proof.
      unfold logc. rewrite nthN_overwrite, Hq.
      assert (Hd : forall j, nthN j dl4 = nthN j data4) by (intros j; apply nthN_pad).
      destruct (N.ltb_spec i 0); [lia|].
      destruct (N.ltb_spec i (0 + 1020)).
      - replace (i - 0) with i by lia. unfold q. rewrite nthN_take.
        destruct (N.ltb_spec i 1020); [|lia]. rewrite nth_T0, nth_torn, nth_data7, Hd by lia.
        dcmp; try lia; reflexivity.
      - dcmp; try lia; reflexivity.
    Qed.

    Let Hllog : len logc = 1020 * np.
    Proof. unfold logc. rewrite len_overwrite, Hdl, Hq. lia. Qed.

    (** behind the header the stream of the torn image is the stream of the completed file *)
    Lemma slice_logc k : slice x k logc = slice x k dl4.
    Proof.
      apply list_ext.
      - rewrite !len_slice, Hllog, Hdl. reflexivity.
      - intros i Hi. rewrite !nthN_slice. destruct (i <? k); [|reflexivity].
        rewrite nth_logc. dcmp; try lia; reflexivity.
    Qed.

    (** if the 48 header bytes of the torn image are the final ones, the image is the completed file *)
    Lemma torn_complete :
      (forall i, i < 48 -> nthN i (take 48 (torn_image c)) = nthN i hdrF) -> torn_image c = F.
    Proof.
      intros Hh.
      assert (Eq : q = take 1020 P0).
      { apply list_ext; [rewrite Hq, len_take, HlP; lia|].
        intros i Hi. rewrite Hq in Hi. unfold q. rewrite !nthN_take.
        destruct (N.ltb_spec i 1020); [|lia].
        rewrite nth_T0, nth_torn, HnP, nth_data7 by lia.
        destruct (N.ltb_spec i c); [reflexivity|].
        destruct (N.ltb_spec i 48); [|reflexivity].
        rewrite <- Hh, nth_torn_hdr by assumption.
        destruct (N.ltb_spec i c); [lia|]. apply Hh0. assumption. }
      assert (EP : T0 = P0).
      { rewrite HT0, Eq. unfold sealp. rewrite <- HcP. apply take_drop_id. }
      rewrite torn_as_overwrite, EP. reflexivity.
    Qed.
  End Valid.

  Lemma slice_dl4_xml k : k <= len xml -> slice x k dl4 = take k xml.
  Proof.
    intros Hk. destruct (N.eq_dec k 0) as [->|Hk0]; [reflexivity|].
    assert (Hne : xml <> []) by (intros ->; rewrite len_nil in Hk; lia).
    specialize (Hxe Hne).
    unfold dl4, pad_payload. rewrite PageSpecLemmas.slice_app_l by lia.
    rewrite <- Hslice at 1. unfold slice. rewrite PageSpecLemmas.take_take. f_equal. lia.
  Qed.

  Let LB := le_bytes 8 (len xml).

  Let HlLB : len LB = 8.
  Proof. reflexivity. Qed.

  (** the XML length field of the torn header: the low bytes written so far *)
  Lemma torn_xl c :
    slice 32 8 (take 48 (torn_image c)) = take (c - 32) LB ++ zeros (len LB - (c - 32)).
  Proof.
    apply list_ext.
    - rewrite len_slice, len_take, len_torn, len_app, len_take, len_zeros, HlLB. lia.
    - intros i Hi. rewrite len_slice, len_take, len_torn in Hi.
      rewrite nthN_slice. destruct (N.ltb_spec i 8); [|lia].
      rewrite nth_torn_hdr by lia.
      rewrite nthN_app, len_take, HlLB, nthN_take, nthN_zeros.
      assert (HF : nthN (32 + i) hdrF = nthN i LB).
      { unfold LB. rewrite <- (hdr_xl pl (phys_of_log x) (len xml)). fold hdrF.
        rewrite nthN_slice. destruct (N.ltb_spec i 8); [reflexivity|lia]. }
      assert (H0 : nthN (32 + i) hdr0 = 0) by (apply z2440_hdr0; lia).
      rewrite HF, H0. dcmp; try lia; reflexivity.
  Qed.

  Lemma torn_xo c : 32 <= c -> slice 24 8 (take 48 (torn_image c)) = le_bytes 8 (phys_of_log x).
  Proof.
    intros Hc. rewrite <- (hdr_xo pl (phys_of_log x) (len xml)). fold hdrF.
    apply list_ext.
    - rewrite !len_slice, len_take, len_torn. unfold hdrF. rewrite len_hdr. lia.
    - intros i Hi. rewrite len_slice, len_take, len_torn in Hi.
      rewrite !nthN_slice. destruct (N.ltb_spec i 8); [|reflexivity].
      rewrite nth_torn_hdr by lia. destruct (N.ltb_spec (24 + i) c); [reflexivity|lia].
  Qed.

  Theorem torn_final c :
    match open_result (torn_image c) with
    | Panic => False
    | Err _ => True
    | Ok (_, _, xr) =>
        (exists k, k <= len xml /\ xr = take k xml /\ (k = len xml \/ k = 0 \/ k + 256 <= len xml)) /\
        (xr = xml -> xml <> [] -> torn_image c = F)
    end.
  Proof.
    destruct (reader_open_cases (torn_image c)) as [[e E]|(s & h & xr & E & Hnz & Hmod & Hok & Hp & Hxr)];
      rewrite E; [exact I|].
    destruct (torn_paginate c Hok) as [Hpag Hllog].
    pose proof (slice_logc c) as Hsl. pose proof (torn_complete c Hok) as Hcomp.
    set (logc := overwrite dl4 0 (take 1020 (page_at 1024 (torn_image c) 0))) in *.
    rewrite Hpag, (rrun_g_log logc) in Hxr by (rewrite Hllog; lia).
    apply extract_xml_log in Hxr.
    destruct (header_parse_fields _ _ Hp) as (Hxo & Hxl & _).
    rewrite torn_xl in Hxl.
    destruct (le_num_cut (c - 32) LB) as [Hle Heq]. rewrite <- Hxl in Hle, Heq.
    assert (HLB : le_num LB <= len xml).
    { unfold LB. rewrite BlobProofs.le_num_le_bytes. apply N.mod_le. discriminate. }
    set (k := h_xml_length h) in *.
    assert (Hk : k <= len xml) by lia.
    destruct (N.eq_dec k 0) as [Hk0|Hk0].
    { rewrite Hk0 in Hxr. change (slice (log_of_phys (h_xml_offset h)) 0 logc) with (@nil N) in Hxr. subst xr.
      split; [exists 0; split; [lia|split; [reflexivity|auto]]|]. intros <- Hne. congruence. }
    assert (Hc : 32 < c).
    { destruct (N.ltb_spec 32 c) as [H|H]; [exact H|exfalso].
      replace (c - 32) with 0 in Hxl by lia. change (take 0 LB) with (@nil N) in Hxl.
      cbn [app] in Hxl. rewrite le_num_zeros in Hxl. lia. }
    rewrite torn_xo in Hxo by lia.
    rewrite BlobProofs.le_num_le_bytes_8 in Hxo by exact Hsize.
    rewrite Hxo, log_phys, Hsl, slice_dl4_xml in Hxr by exact Hk.
    assert (Hgap : k = len xml \/ k = 0 \/ k + 256 <= len xml).
    { rewrite Hxl, le_num_app, le_num_zeros, N.mul_0_r, N.add_0_r. unfold LB.
      rewrite le_num_take_le_bytes. apply mod_pow_gap. }
    split; [exists k; split; [exact Hk|split; [exact Hxr|exact Hgap]]|].
    intros Hall Hne. apply Hcomp.
    assert (Hkl : k = len xml).
    { subst xr. apply (f_equal len) in Hall. rewrite len_take in Hall. lia. }
    assert (HML : take (c - 32) LB ++ zeros (len LB - (c - 32)) = LB).
    { apply Heq. lia. }
    intros i Hi. rewrite nth_torn_hdr by exact Hi.
    destruct (N.ltb_spec i c) as [|Hic]; [reflexivity|].
    destruct (N.ltb_spec i 40) as [Hi40|Hi40].
    - (* a length byte behind the cut: zero in both *)
      assert (H0 : nthN i hdr0 = 0) by (apply z2440_hdr0; lia).
      assert (HF : nthN i hdrF = nthN (i - 32) LB).
      { unfold LB. rewrite <- (hdr_xl pl (phys_of_log x) (len xml)). fold hdrF.
        rewrite nthN_slice. destruct (N.ltb_spec (i - 32) 8); [f_equal; lia|lia]. }
      rewrite H0, HF, <- HML, nthN_app, len_take, HlLB, nthN_zeros.
      destruct (N.ltb_spec (i - 32) (N.min (c - 32) 8)); [lia|reflexivity].
    - (* the page size field: the same in the placeholder *)
      replace i with (40 + (i - 40)) by lia. rewrite <- !nthN_drop.
      unfold hdrF. rewrite hdr_tail. reflexivity.
  Qed.
End Torn.

(** * The theorems *)

Lemma overwrite_prefix_idem I P c : len P <= len I ->
  overwrite (overwrite I 0 P) 0 (take c P) = overwrite I 0 P.
Proof.
  intros Hl. apply list_ext.
  - rewrite !len_overwrite, len_take. lia.
  - intros i Hi. rewrite !nthN_overwrite, len_take, nthN_take. dcmp; try lia; reflexivity.
Qed.

Lemma crash_image_app_lt pre post n cut : (n < length pre)%nat ->
  crash_image (pre ++ post) n cut = crash_image pre n cut.
Proof.
  intros H. unfold crash_image. rewrite firstn_app, nth_error_app1 by exact H.
  replace (n - length pre)%nat with 0%nat by lia. cbn [firstn]. rewrite app_nil_r. reflexivity.
Qed.

Lemma crash_image_all tr n cut : (length tr <= n)%nat -> crash_image tr n cut = apply_writes tr.
Proof.
  intros H. unfold crash_image. rewrite firstn_all2 by exact H.
  replace (nth_error tr n) with (@None (N * list N)) by (symmetry; apply nth_error_None; exact H).
  rewrite app_nil_r. reflexivity.
Qed.

Lemma crash_image_at l w post cut :
  crash_image (l ++ w :: post) (length l) cut = apply_writes (l ++ [torn w cut]).
Proof.
  unfold crash_image. rewrite firstn_app, Nat.sub_diag, firstn_all. cbn [firstn].
  rewrite app_nil_r, nth_error_app2, Nat.sub_diag by lia. reflexivity.
Qed.

Definition rejected_or_empty (img : list N) : Prop :=
  match open_result img with
  | Ok (_, _, x) => x = []
  | Err _ => True
  | Panic => False
  end.

Lemma weak_rejected tr n cut : Forall entry_ok tr -> rejected_or_empty (crash_image tr n cut).
Proof.
  intros H. apply open_zero_fields, crash_image_weak.
  eapply Forall_impl; [|exact H]. apply entry_ok_weak.
Qed.

Section Generic.
  Variables (A : Type) (p : wprog A) (xml : list N) (Done : Prop).
  Hypothesis Hshape : Forall entry_ok (trace_of p) \/ (Done /\ gshape p xml).
  Let tr := trace_of p.
  Let F := final_image p.

  (** images from before the final write of page 0 (the header patch): rejected, or an empty XML *)
  Theorem g_before_final_write n cut : (n + 2 < length tr)%nat -> rejected_or_empty (crash_image tr n cut).
  Proof.
    intros Hn.
    destruct Hshape as [Hall|[_ (pre & P0 & data4 & x & Hsh)]]; [apply weak_rejected, Hall|].
    cbv zeta in Hsh. destruct Hsh as (Htr & Hpre & _).
    fold tr in Htr. rewrite Htr in Hn |- *. rewrite app_length in Hn. cbn [length] in Hn.
    rewrite crash_image_app_lt by lia. apply weak_rejected, Hpre.
  Qed.

  (** the packaged statement: for EVERY crash image, [reader_open] fails, or returns a prefix of the
      XML; and when it returns the whole XML the image is the completed file *)
  Theorem g_accepted_is_complete : xml <> [] -> len F < 2 ^ 64 -> forall n cut,
    match open_result (crash_image tr n cut) with
    | Panic => False
    | Err _ => True
    | Ok (_, _, xr) =>
        (exists k, k <= len xml /\ xr = take k xml /\ (k = len xml \/ k = 0 \/ k + 256 <= len xml)) /\
        (xr = xml -> crash_image tr n cut = F /\ Done)
    end.
  Proof.
    intros Hne Hsize n cut.
    assert (Hweak : forall img, rejected_or_empty img ->
      match open_result img with
      | Panic => False | Err _ => True
      | Ok (_, _, xr) => (exists k, k <= len xml /\ xr = take k xml /\ (k = len xml \/ k = 0 \/ k + 256 <= len xml)) /\
                         (xr = xml -> img = F /\ Done)
      end).
    { intros img H. unfold rejected_or_empty in H. remember (open_result img) as r eqn:Er. clear Er.
      destruct r as [[[s h] xr]|e|]; [|exact I|exact H].
      subst xr. split; [exists 0; split; [lia|split; [reflexivity|auto]]|]. intros E. symmetry in E. contradiction. }
    destruct Hshape as [Hall|[Hok (pre & P0 & data4 & x & Hsh)]];
      [apply Hweak, weak_rejected, Hall|].
    cbv zeta in Hsh.
    destruct Hsh as (Htr & Hpre & HI & HF & HlP & HnP & HcP & Hx & Hsl & Hxe & Hh0 & Hl4 & Hz4).
    fold tr in Htr. fold F in HF.
    assert (HlI : len (paginate data4) = pages_for (len data4) * 1024) by apply len_paginate.
    assert (Hpg : 1 <= pages_for (len data4)) by (unfold pages_for, PAYLOAD_SZ; lia).
    (* the completed file is the replay of the whole trace *)
    assert (HFr : F = overwrite (paginate data4) 0 P0).
    { unfold F. rewrite final_image_replay. fold tr. rewrite Htr.
      change (pre ++ [(0, P0); (0, P0)]) with (pre ++ [(0, P0)] ++ [(0, P0)]).
      rewrite app_assoc, !apply_writes_snoc, HI. cbn [fst snd].
      rewrite <- (take_all 1024 P0) at 2 by lia. apply overwrite_prefix_idem. lia. }
    (* the size hypothesis bounds the XML offset *)
    assert (Hxo : phys_of_log x < 2 ^ 64).
    { specialize (Hxe Hne). rewrite HF, len_paginate, len_overwrite, len_hdr in Hsize.
      unfold phys_of_log, pages_for, PAYLOAD_SZ in *. lia. }
    pose proof (torn_final data4 xml P0 x HlP HnP HcP Hx Hsl Hxe Hh0 Hl4 Hxo) as HT.
    assert (HatF : match open_result F with
                   | Panic => False | Err _ => True
                   | Ok (_, _, xr) => (exists k, k <= len xml /\ xr = take k xml /\ (k = len xml \/ k = 0 \/ k + 256 <= len xml)) /\
                                      (xr = xml -> F = F /\ Done)
                   end).
    { specialize (HT 1024). unfold torn_image in HT. rewrite take_all in HT by lia. rewrite <- HFr in HT.
      remember (open_result F) as r eqn:Er. clear Er.
      destruct r as [[[s h] xr]|e|]; [|exact I|exact HT]. destruct HT as [H1 _]. split; [exact H1|].
      intros _. split; [reflexivity|exact Hok]. }
    rewrite Htr.
    destruct (Nat.lt_ge_cases n (length pre)) as [Hlt|Hge].
    { rewrite crash_image_app_lt by exact Hlt. apply Hweak, weak_rejected, Hpre. }
    destruct (Nat.eq_dec n (length pre)) as [->|Hn1].
    { (* the final write of page 0, torn *)
      assert (Himg : crash_image (pre ++ [(0, P0); (0, P0)]) (length pre) cut
                     = torn_image data4 P0 (N.of_nat cut)).
      { rewrite crash_image_at, apply_writes_snoc, HI. unfold torn, torn_image. cbn [fst snd].
        rewrite firstn_take. reflexivity. }
      rewrite Himg. specialize (HT (N.of_nat cut)). clear HatF Himg.
      remember (open_result (torn_image data4 P0 (N.of_nat cut))) as r eqn:Er. clear Er.
      destruct r as [[[s h] xr]|e|]; [|exact I|exact HT].
      destruct HT as [H1 H2]. split; [exact H1|]. intros E. split; [|exact Hok].
      rewrite HFr. apply H2; assumption. }
    destruct (Nat.eq_dec n (S (length pre))) as [->|Hn2].
    { (* the identical rewrite in Drop, torn: already the completed file *)
      assert (Himg : crash_image (pre ++ [(0, P0); (0, P0)]) (S (length pre)) cut = F).
      { change (pre ++ [(0, P0); (0, P0)]) with (pre ++ [(0, P0)] ++ [(0, P0)]). rewrite app_assoc.
        replace (S (length pre)) with (length (pre ++ [(0, P0)])) by (rewrite app_length; cbn [length]; lia).
        rewrite crash_image_at, !apply_writes_snoc, HI. unfold torn. cbn [fst snd]. rewrite firstn_take, HFr.
        apply overwrite_prefix_idem. lia. }
      rewrite Himg. exact HatF. }
    (* behind the last write *)
    rewrite crash_image_all by (rewrite app_length; cbn [length]; lia).
    rewrite <- Htr. unfold tr. rewrite <- final_image_replay. fold F. exact HatF.
  Qed.


  (** the final write of page 0 (write number [length tr - 2]) torn at any byte *)
  Corollary g_torn_final_write : xml <> [] -> len F < 2 ^ 64 -> forall cut,
    match open_result (crash_image tr (length tr - 2) cut) with
    | Panic => False
    | Err _ => True
    | Ok (_, _, xr) =>
        (exists k, k <= len xml /\ xr = take k xml /\ (k = len xml \/ k = 0 \/ k + 256 <= len xml)) /\
        (xr = xml -> crash_image tr (length tr - 2) cut = F /\ Done)
    end.
  Proof. intros Hne Hsize cut. apply g_accepted_is_complete; assumption. Qed.

  (** all writes after the header patch (the rewrite in Drop) rewrite what is there *)
  Theorem g_after_final_write n cut :
    gshape p xml -> (length tr <= n + 1)%nat -> crash_image tr n cut = F.
  Proof.
    intros (pre & P0 & data4 & x & Hsh) Hn.
    cbv zeta in Hsh. destruct Hsh as (Htr & Hpre & HI & HF & HlP & _ & _ & _ & _ & _ & _ & Hl4 & _).
    fold tr in Htr.
    assert (HlI : len (paginate data4) = pages_for (len data4) * 1024) by apply len_paginate.
    assert (Hpg : 1 <= pages_for (len data4)) by (unfold pages_for, PAYLOAD_SZ; lia).
    assert (HFr : F = overwrite (paginate data4) 0 P0).
    { unfold F. rewrite final_image_replay. fold tr. rewrite Htr.
      change (pre ++ [(0, P0); (0, P0)]) with (pre ++ [(0, P0)] ++ [(0, P0)]).
      rewrite app_assoc, !apply_writes_snoc, HI. cbn [fst snd].
      rewrite <- (take_all 1024 P0) at 2 by lia. apply overwrite_prefix_idem. lia. }
    rewrite Htr in Hn |- *. rewrite app_length in Hn. cbn [length] in Hn.
    destruct (Nat.eq_dec n (S (length pre))) as [->|Hn2].
    - change (pre ++ [(0, P0); (0, P0)]) with (pre ++ [(0, P0)] ++ [(0, P0)]). rewrite app_assoc.
      replace (S (length pre)) with (length (pre ++ [(0, P0)])) by (rewrite app_length; cbn [length]; lia).
      rewrite crash_image_at, !apply_writes_snoc, HI. unfold torn. cbn [fst snd]. rewrite firstn_take, HFr.
      apply overwrite_prefix_idem. lia.
    - rewrite crash_image_all by (rewrite app_length; cbn [length]; lia).
      rewrite <- Htr. unfold tr. rewrite <- final_image_replay. reflexivity.
  Qed.
End Generic.

Section Whole.
  Variables (is : list item) (xml : list N).
  Let p := crash_prog is xml.
  Let tr := trace_of p.
  Let F := final_image p.

  Let Hsh : Forall entry_ok (trace_of p) \/ (snd (wrun p pw_fresh) = Ok tt /\ gshape p xml).
  Proof. destruct (crash_trace_shape is xml) as [[_ H]|H]; [left; exact H|right; exact H]. Qed.

  (** images from before the final write of page 0 (the header patch): rejected, or an empty XML *)
  Theorem before_final_write n cut : (n + 2 < length tr)%nat -> rejected_or_empty (crash_image tr n cut).
  Proof. exact (g_before_final_write _ p xml _ Hsh n cut). Qed.

  (** if the program did not complete, every image is rejected or has an empty XML *)
  Theorem failed_run_rejected n cut : snd (wrun p pw_fresh) <> Ok tt -> rejected_or_empty (crash_image tr n cut).
  Proof.
    intros Hf. destruct (crash_trace_shape is xml) as [[_ Hall]|[Hok _]]; [apply weak_rejected, Hall|].
    contradiction.
  Qed.

  (** the packaged statement: for EVERY crash image, [reader_open] fails, or returns a prefix of the
      XML; and when it returns the whole XML the image is the completed file *)
  Theorem accepted_is_complete : xml <> [] -> len F < 2 ^ 64 -> forall n cut,
    match open_result (crash_image tr n cut) with
    | Panic => False
    | Err _ => True
    | Ok (_, _, xr) =>
        (exists k, k <= len xml /\ xr = take k xml /\ (k = len xml \/ k = 0 \/ k + 256 <= len xml)) /\
        (xr = xml -> crash_image tr n cut = F /\ snd (wrun p pw_fresh) = Ok tt)
    end.
  Proof. exact (g_accepted_is_complete _ p xml _ Hsh). Qed.

  Corollary torn_final_write : xml <> [] -> len F < 2 ^ 64 -> forall cut,
    match open_result (crash_image tr (length tr - 2) cut) with
    | Panic => False
    | Err _ => True
    | Ok (_, _, xr) =>
        (exists k, k <= len xml /\ xr = take k xml /\ (k = len xml \/ k = 0 \/ k + 256 <= len xml)) /\
        (xr = xml -> crash_image tr (length tr - 2) cut = F /\ snd (wrun p pw_fresh) = Ok tt)
    end.
  Proof. exact (g_torn_final_write _ p xml _ Hsh). Qed.

  Theorem after_final_write n cut :
    snd (wrun p pw_fresh) = Ok tt -> (length tr <= n + 1)%nat -> crash_image tr n cut = F.
  Proof.
    intros Hok. destruct (crash_trace_shape is xml) as [[Hf _]|[_ Hg]]; [contradiction|].
    exact (g_after_final_write _ p xml n cut Hg).
  Qed.
End Whole.

(** the writer dropped without the top-level [finalize]: every image, including what is left on the
    device at the end, is rejected or yields an empty XML *)
Theorem unfinalized_rejected is n cut :
  rejected_or_empty (crash_image (trace_of (unfinalized_prog is)) n cut).
Proof. apply weak_rejected, unfinalized_trace_ok. Qed.

Print Assumptions accepted_is_complete.
Print Assumptions before_final_write.
Print Assumptions after_final_write.
Print Assumptions unfinalized_rejected.
