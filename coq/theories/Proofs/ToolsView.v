(** C20: the stand-in [Tools.xyz_view] IS the documented view of the simple
    iterator ([Spec/SimpleSpec.view], proved equal to the iterator by
    C05_simple_is_view) specialised to the descriptor e57-from-xyz writes and
    the options e57-to-xyz sets; and the end-to-end chain
      XYZ text -> from_xyz -> add_point -> [file round trip, C01] -> raw
      iteration -> simple iteration (C05) -> to_xyz -> canonical lines. *)
From Coq Require Import ZArith NArith Bool List Lia ZifyN ZifyNat ZifyBool.
From Flocq Require Import Binary Bits.
From E57 Require Import Base.Prelude Base.Floats Model.PagedReader Model.Record Model.Meta Model.Prog
  Model.PcWriter Model.QueueReader Model.Normalize Model.SimpleIter Spec.SimpleSpec Model.Tools
  Proofs.SimpleTheorems Proofs.ToolsColor Proofs.ToolsXyz.

(** * The descriptor e57-from-xyz writes (what matters of it for the view):
    prototype CARTESIAN_{X,Y,Z}_F32 + COLOR_{RED,GREEN,BLUE}_U8, no pose, the
    colour limits [ColorLimits::from_record_types] derives (Integer 0 / 255),
    no intensity limits (there is no intensity record). *)
Definition xyz_proto : list record :=
  [mkRecord CartesianX (DSingle None None); mkRecord CartesianY (DSingle None None);
   mkRecord CartesianZ (DSingle None None);
   mkRecord ColorRed (DInteger 0 255); mkRecord ColorGreen (DInteger 0 255);
   mkRecord ColorBlue (DInteger 0 255)].
Definition u8_limits : color_limits :=
  mkCl (Some (LInteger 0)) (Some (LInteger 255)) (Some (LInteger 0)) (Some (LInteger 255))
       (Some (LInteger 0)) (Some (LInteger 255)).
Definition xyz_descr (pc : pointcloud) : Prop :=
  pc_prototype pc = xyz_proto /\ pc_transform pc = None /\
  pc_color_limits pc = Some u8_limits /\ pc_intensity_limits pc = None.

(** e57-to-xyz: spherical_to_cartesian(true), cartesian_to_spherical(false),
    intensity_to_color(true), apply_pose(true); both normalisations at their default (on) *)
Definition xyz_opts : opts := mkOpts true false true true true true.

(** the codec-level prototype of Model/Tools.v is this prototype *)
Lemma proto6_is_xyz_proto : map (fun r => dtype_of (r_type r)) xyz_proto = proto6.
Proof. reflexivity. Qed.

(** * [add_point] accepts what from-xyz hands over *)
Lemma raw_point6_accepted : forall p, p_r p < 256 -> p_g p < 256 -> p_b p < 256 ->
  values_ok proto6 (raw_of_point6 p) = true.
Proof.
  intros p Hr Hg Hb. unfold proto6, raw_of_point6. cbn [values_ok andb].
  repeat (apply andb_true_iff; split); try reflexivity; lia.
Qed.

(** * A simple point as e57-to-xyz sees it, and back *)
Definition cart_of (c : cartesian) : cart :=
  match c with
  | SimpleIter.CValid x y z => Tools.CValid x y z
  | SimpleIter.CDirection x y z => Tools.CDirection x y z
  | SimpleIter.CInvalid => Tools.CInvalid
  end.
Definition spoint_of_point (p : point) : spoint :=
  mkSp (cart_of (p_cartesian p))
       (option_map (fun c => (c_red c, c_green c, c_blue c)) (p_color p)).
Definition point_of_spoint (sp : spoint) : point :=
  mkPoint (match sp_cart sp with
           | Tools.CValid x y z => SimpleIter.CValid x y z
           | Tools.CDirection x y z => SimpleIter.CDirection x y z
           | Tools.CInvalid => SimpleIter.CInvalid
           end)
          SInvalid
          (option_map (fun c => mkColor (fst (fst c)) (snd (fst c)) (snd c)) (sp_color sp))
          None (-1) (-1).

Lemma spoint_point_spoint : forall sp, spoint_of_point (point_of_spoint sp) = sp.
Proof. intros [[x y z|x y z|] [[[r g] b]|]]; reflexivity. Qed.

Section View.
Variables (fcos fsin fasin : binary64 -> binary64) (fatan2 : binary64 -> binary64 -> binary64).
Variable pc : pointcloud.
Hypothesis Hpc : xyz_descr pc.

Local Notation view := (view fcos fsin fasin fatan2 pc xyz_opts).

Lemma xyz_channel : forall c, c <> ChIntensity -> channel_of pc c = u8_channel.
Proof.
  destruct Hpc as (Hp & _ & Hc & _). intros c Hne. unfold channel_of, chan_limits, find_record.
  rewrite Hp, Hc. destruct c; try congruence; reflexivity.
Qed.

Lemma xyz_field : forall x y z r g b,
  let raw := [VSingle x; VSingle y; VSingle z; VInteger r; VInteger g; VInteger b] in
  field pc raw CartesianX = Some (DSingle None None, VSingle x) /\
  field pc raw CartesianY = Some (DSingle None None, VSingle y) /\
  field pc raw CartesianZ = Some (DSingle None None, VSingle z) /\
  field pc raw ColorRed = Some (DInteger 0 255, VInteger r) /\
  field pc raw ColorGreen = Some (DInteger 0 255, VInteger g) /\
  field pc raw ColorBlue = Some (DInteger 0 255, VInteger b) /\
  (forall nm, In nm [CartesianInvalidState; SphericalRange; SphericalAzimuth; SphericalElevation;
                     SphericalInvalidState; Intensity; IsIntensityInvalid; IsColorInvalid;
                     RowIndex; ColumnIndex] -> field pc raw nm = None).
Proof.
  destruct Hpc as (Hp & _). intros x y z r g b raw. unfold field, raw. rewrite Hp.
  repeat split; try reflexivity.
  intros nm Hin. cbn [In] in Hin.
  repeat (destruct Hin as [<-|Hin]; [reflexivity|]). destruct Hin.
Qed.

(** ** The stand-in is the specification's view *)
Theorem xyz_view_is_view : forall p : point6,
  view (raw_of_point6 p) = res_map point_of_spoint (xyz_view p).
Proof.
  intros [x y z r g b]. unfold raw_of_point6. cbn [p_x p_y p_z p_r p_g p_b].
  destruct (xyz_field x y z (Z.of_N r) (Z.of_N g) (Z.of_N b))
    as (Fx & Fy & Fz & Fr & Fg & Fb & Fnone). cbv zeta in *.
  assert (Nn : forall nm, In nm [CartesianInvalidState; SphericalRange; SphericalAzimuth; SphericalElevation;
                     SphericalInvalidState; Intensity; IsIntensityInvalid; IsColorInvalid;
                     RowIndex; ColumnIndex] ->
           field pc [VSingle x; VSingle y; VSingle z; VInteger (Z.of_N r); VInteger (Z.of_N g); VInteger (Z.of_N b)] nm = None)
    by exact Fnone.
  unfold SimpleSpec.view, stored_cartesian, stored_spherical, view_color_stored, view_intensity, view_index.
  rewrite Fx, Fy, Fz, Fr, Fg, Fb.
  rewrite !Nn by (cbn [In]; tauto).
  cbn [opt_integer validity3 validity2 res_bind number fst snd o_nc o_ni xyz_opts].
  unfold channel_number. cbn [number snd res_bind].
  rewrite !xyz_channel by discriminate.
  unfold xyz_view, color_value. cbn [p_x p_y p_z p_r p_g p_b].
  destruct (channel_value u8_channel true (f64_of_Z (Z.of_N r))) as [cr|e|]; cbn [res_bind res_map]; try reflexivity.
  destruct (channel_value u8_channel true (f64_of_Z (Z.of_N g))) as [cg|e|]; cbn [res_bind res_map]; try reflexivity.
  destruct (channel_value u8_channel true (f64_of_Z (Z.of_N b))) as [cb|e|]; cbn [res_bind res_map]; try reflexivity.
  unfold point_of_spoint, view_cartesian, view_spherical, view_color, converted_color, converted_cartesian.
  cbn [o_s2c o_c2s o_i2c o_pose xyz_opts sp_cart sp_color option_map fst snd].
  f_equal. f_equal.
  unfold posed, pose_rotation, pose_translation. destruct Hpc as (_ & Ht & _). rewrite Ht.
  reflexivity.
Qed.

Corollary xyz_view_of_view : forall p : point6,
  res_map spoint_of_point (view (raw_of_point6 p)) = xyz_view p.
Proof.
  intros p. rewrite xyz_view_is_view. destruct (xyz_view p); cbn [res_map]; try reflexivity.
  rewrite spoint_point_spoint. reflexivity.
Qed.

(** ** The constructor accepts the descriptor; the side conditions of C05 hold *)
Lemma xyz_ranges : exists rgs, prepare_ranges pc = Ok rgs.
Proof.
  unfold prepare_ranges. rewrite (xyz_channel ChRed), (xyz_channel ChGreen), (xyz_channel ChBlue) by discriminate.
  destruct Hpc as (Hp & _ & _ & Hi). unfold channel_of, chan_limits, find_record. rewrite Hp, Hi.
  cbn [find xyz_proto name_eqb r_name chan_name option_map fst snd].
  change (range_of_channel (mkChannel None None None)) with (@Ok (option range) None).
  cbn [res_bind].
  assert (Hok : is_ok (range_of_channel u8_channel) = true) by (vm_compute; reflexivity).
  destruct (range_of_channel u8_channel) as [rg|e|]; try discriminate Hok.
  cbn [res_bind]. eexists. reflexivity.
Qed.

Lemma xyz_index_records : index_records_are_integers pc = true.
Proof.
  destruct Hpc as (Hp & _). unfold index_records_are_integers, integer_record, find_record. rewrite Hp. reflexivity.
Qed.

Lemma xyz_states : forall p, invalid_states_in_set pc (raw_of_point6 p) = true.
Proof.
  intros [x y z r g b]. unfold raw_of_point6. cbn [p_x p_y p_z p_r p_g p_b].
  destruct (xyz_field x y z (Z.of_N r) (Z.of_N g) (Z.of_N b)) as (_ & _ & _ & _ & _ & _ & Fnone).
  cbv zeta in Fnone. unfold invalid_states_in_set, state_in.
  rewrite !Fnone by (cbn [In]; tauto). reflexivity.
Qed.

(** [res_all view] over the raw points of from-xyz = [map_res xyz_view] *)
Lemma res_all_view : forall pts sps,
  map_res xyz_view pts = Ok sps ->
  res_all view (map raw_of_point6 pts) = Ok (map point_of_spoint sps).
Proof.
  induction pts as [|p r IH]; intros sps H; cbn [map_res map res_all] in *.
  - injection H as <-. reflexivity.
  - rewrite xyz_view_is_view. destruct (xyz_view p) as [sp|e|]; cbn [res_bind res_map] in *; try discriminate.
    destruct (map_res xyz_view r) as [sr|e|]; cbn [res_map] in H; try discriminate.
    injection H as <-. rewrite (IH sr eq_refl). reflexivity.
Qed.

Section EndToEnd.
Variable parse_f32 : list N -> option N.
Variable fmt_f64_ryu : N -> list N.

(** ** End to end.
    [raw_roundtrip] is the file round trip: the raw iterator over the file
    e57-from-xyz wrote returns the points that were added, in order - that is
    Props/C01.v [C01_file_roundtrip] (writer -> file -> raw reader) for the
    item [IPc proto6 (map raw_of_point6 pts)], whose premise [item_wf]
    (every value of the declared type and in range) is [raw_point6_accepted];
    [Hpc] is the descriptor round trip of C04.  The conclusion: e57-to-xyz's
    simple iteration succeeds and what it prints is one canonical line per
    six-column input line, in input order, which is also what the text-to-text
    model [xyz_roundtrip] computes. *)
Theorem xyz_end_to_end : forall input pts fuel log_size (s s' : pr),
  from_xyz parse_f32 (xyz_lines input) = Ok pts ->
  Forall finite_pt pts ->
  forall raw_roundtrip :
    rrun (raw_read_all fuel log_size pc) s = (s', Ok (map raw_of_point6 pts)),
  Forall (fun p => values_ok proto6 (raw_of_point6 p) = true) pts /\
  exists spts,
    rrun (simple_read_all fcos fsin fasin fatan2 fuel log_size pc xyz_opts) s = (s', Ok spts) /\
    to_xyz fmt_f64_ryu (map spoint_of_point spts) = flat_map (canonical_line fmt_f64_ryu) pts /\
    xyz_roundtrip parse_f32 fmt_f64_ryu input = Ok (to_xyz fmt_f64_ryu (map spoint_of_point spts)).
Proof.
  intros input pts fuel log_size s s' Hfrom Hfin Hraw.
  pose proof (from_xyz_colors parse_f32 _ _ Hfrom) as Hcol.
  split.
  { rewrite Forall_forall in *. intros p Hp. destruct (Hcol p Hp) as (Hr & Hg & Hb).
    apply raw_point6_accepted; assumption. }
  destruct (view_all fmt_f64_ryu pts Hfin Hcol) as (sps & E1 & E2).
  destruct xyz_ranges as (rgs & Hrg).
  destruct (simple_is_view_rrun fcos fsin fasin fatan2 pc xyz_opts log_size fuel s s'
              (map raw_of_point6 pts) rgs Hraw Hrg xyz_index_records) as (spts & Hrun & Hall).
  { rewrite Forall_forall. intros raw Hin. apply in_map_iff in Hin. destruct Hin as (p & <- & _). apply xyz_states. }
  rewrite (res_all_view pts sps E1) in Hall. injection Hall as <-.
  exists (map point_of_spoint sps). split; [exact Hrun|].
  rewrite map_map. rewrite (map_ext _ (fun sp => sp) spoint_point_spoint), map_id.
  split; [exact E2|].
  rewrite (xyz_roundtrip_file parse_f32 fmt_f64_ryu input pts Hfrom Hfin). rewrite E2. reflexivity.
Qed.

End EndToEnd.
End View.
