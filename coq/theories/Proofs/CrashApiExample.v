(** C15 / C16 at the API level: the hypotheses are satisfiable and the conclusions are what one
    expects, on a small call sequence (by computation). *)
From E57 Require Import Base.Prelude Model.Device Model.PagedWriter Model.Prog Model.FileBin Model.Meta Model.MetaFile
  Model.XmlGen Model.WriterApi Model.WriterFull Model.CrashImage.
From E57 Require Import Proofs.PagedWriterProofs Proofs.FaultWriter Proofs.CrashOpen Proofs.CrashMain
  Proofs.CrashApiSteps Proofs.CrashApi Proofs.FaultApi.

Definition ax_fmt : N -> xstring := fun _ => [48].                         (* "0": no float is written here *)
Definition ax_calls : list wcall := [NewWriter [103]; AddBlob [1; 2; 3; 4; 5]; AddImage [105]; ImDrop; Finalize].
Definition ax_prog := writer_run ax_fmt ax_fmt [49] ax_calls.

(** the run: every call succeeds, the last one is the top-level finalize *)
Example ax_run :
  match snd (wrun ax_prog pw_fresh) with
  | Ok (st, rs) => (ws_finalized st, rs)
  | _ => (false, [])
  end = (true, [CrOk; CrBlob 48 5; CrOk; CrOk; CrOk]) /\
  len (final_image ax_prog) = 1024 /\
  length (trace_of ax_prog) = 6%nat.
Proof. vm_compute. repeat split; reflexivity. Qed.

(** a fault in the middle of [add_blob] (operation 5): that call returns an error, the calls
    before it are unaffected; the writer goes on and the later finalize succeeds - on a file
    that is NOT the fault-free one (nothing is claimed after a failed call) *)
Example ax_fault :
  api_results ax_fmt ax_fmt [49] ax_calls (pw0f 5) = [CrOk; CrErr EWrite; CrOk; CrOk; CrOk] /\
  api_results ax_fmt ax_fmt [49] ax_calls pw0 = [CrOk; CrBlob 48 5; CrOk; CrOk; CrOk].
Proof. vm_compute. split; reflexivity. Qed.

(** a fault inside Drop (after the last operation of finalize): every call succeeds, the file is
    the fault-free one *)
Example ax_fault_in_drop :
  let n := d_ops (pw_dev (fst (wrun ax_prog pw0))) in
  api_results ax_fmt ax_fmt [49] ax_calls (pw0f n) = [CrOk; CrBlob 48 5; CrOk; CrOk; CrOk] /\
  d_bytes (pw_dev (fst (pw_drop (fst (wrun ax_prog (pw0f n)))))) = final_image ax_prog.
Proof. vm_compute. split; reflexivity. Qed.

(** without the finalize: the device content after Drop is rejected *)
Example ax_unfinalized :
  let p := writer_run ax_fmt ax_fmt [49] [NewWriter [103]; AddBlob [1; 2; 3; 4; 5]; AddPointcloud [112] []] in
  match open_result (final_image p) with Ok (_, _, x) => x | Err _ => [] | Panic => [1] end = [].
Proof. vm_compute. reflexivity. Qed.
