(** C16, part A: fault simulation.

    The device model makes operation number [k] fail when [d_fault = Some k].
    A computation is a *fault simulation* when, started in a fault-free state
    and in its twin that only differs by a fault plan [Some i] not yet reached,
    it either behaves identically on both (same result, twin states again), or
    operation [i] has been issued on the faulty side and the computation
    returned [Err].  Every function of the device, paged-writer and paged-reader
    models is a fault simulation, except [ignore_err] ([pw_drop]): the one
    documented place where an error is swallowed. *)
From E57 Require Import Base.Prelude Model.Crc Model.Device Model.PagedWriter Model.PagedReader.
From Coq Require Import ZArith Lia ZifyN ZifyNat ZifyBool.
Local Open Scope monad_scope.

Local Arguments overwrite : simpl never.
Local Arguments seal : simpl never.
Local Arguments take : simpl never.
Local Arguments drop : simpl never.
Local Arguments slice : simpl never.
Local Arguments zeros : simpl never.
Local Arguments len : simpl never.
Local Arguments crc_bytes : simpl never.

(** * Generic closure lemmas *)

Section Gsim.
  Context {S : Type} (tw : N -> S -> S -> Prop) (ops : S -> N).

  Definition gsim {A} (m : M S A) : Prop := forall i s s', tw i s s' ->
    (tw i (fst (m s)) (fst (m s')) /\ snd (m s') = snd (m s)) \/
    (i < ops (fst (m s')) /\ exists e, snd (m s') = Err e).

  Lemma gsim_ret A (a : A) : gsim (ret a).
  Proof. intros i s s' H. left. split; [exact H|reflexivity]. Qed.

  Lemma gsim_fail A k : gsim (@fail S A k).
  Proof. intros i s s' H. left. split; [exact H|reflexivity]. Qed.

  Lemma gsim_panic A : gsim (@panic S A).
  Proof. intros i s s' H. left. split; [exact H|reflexivity]. Qed.

  Lemma gsim_lift_res A (r : res A) : gsim (@lift_res S A r).
  Proof. intros i s s' H. left. split; [exact H|reflexivity]. Qed.

  Lemma gsim_bind A B (m : M S A) (k : A -> M S B) :
    gsim m -> (forall a, gsim (k a)) -> gsim (bind m k).
  Proof.
    intros Hm Hk i s s' H. unfold bind.
    destruct (Hm i s s' H) as [[Ht Hr]|[Hlt [e He]]].
    - destruct (m s) as [s1 r]. destruct (m s') as [s1' r']. cbn [fst snd] in Ht, Hr. subst r'.
      destruct r as [a|e|].
      + apply Hk. exact Ht.
      + left. split; [exact Ht|reflexivity].
      + left. split; [exact Ht|reflexivity].
    - destruct (m s') as [s1' r']. cbn [fst snd] in Hlt, He. subst r'.
      right. cbn [fst snd]. split; [exact Hlt|]. exists e. reflexivity.
  Qed.

  Lemma gsim_relabel A k (m : M S A) : gsim m -> gsim (relabel k m).
  Proof.
    intros Hm i s s' H. unfold relabel.
    destruct (Hm i s s' H) as [[Ht Hr]|[Hlt [e He]]].
    - destruct (m s) as [s1 r]. destruct (m s') as [s1' r']. cbn [fst snd] in *. subst r'.
      left. split; [exact Ht|reflexivity].
    - destruct (m s') as [s1' r']. cbn [fst snd] in *. subst r'.
      right. split; [exact Hlt|]. exists k. reflexivity.
  Qed.

  (* reading a component that twins share *)
  Lemma gsim_read A (f : S -> A) :
    (forall i s s', tw i s s' -> f s' = f s) -> gsim (fun s => (s, Ok (f s))).
  Proof.
    intros Hf i s s' H. left. cbn [fst snd]. split; [exact H|]. rewrite (Hf i s s' H). reflexivity.
  Qed.
End Gsim.

(** * The device *)

(* [d] fault-free, [d'] the same device with fault plan [Some i], fault not yet reached *)
Definition dtwin (i : N) (d d' : dev) : Prop :=
  d_bytes d' = d_bytes d /\ d_cur d' = d_cur d /\ d_ops d' = d_ops d /\ d_log d' = d_log d /\
  d_fault d = None /\ d_fault d' = Some i /\ d_ops d <= i.

Definition dsim {A} (m : M dev A) : Prop := forall i d d', dtwin i d d' ->
  (dtwin i (fst (m d)) (fst (m d')) /\ snd (m d') = snd (m d)) \/
  (i < d_ops (fst (m d')) /\ exists e, snd (m d') = Err e).

Lemma dsim_gsim A (m : M dev A) : dsim m = gsim dtwin d_ops m.
Proof. reflexivity. Qed.

Lemma dsim_ret A (a : A) : dsim (ret a).
Proof. apply (gsim_ret dtwin d_ops). Qed.
Lemma dsim_fail A k : dsim (@fail dev A k).
Proof. apply (gsim_fail dtwin d_ops). Qed.
Lemma dsim_panic A : dsim (@panic dev A).
Proof. apply (gsim_panic dtwin d_ops). Qed.
Lemma dsim_lift_res A (r : res A) : dsim (@lift_res dev A r).
Proof. apply (gsim_lift_res dtwin d_ops). Qed.
Lemma dsim_bind A B (m : M dev A) (k : A -> M dev B) :
  dsim m -> (forall a, dsim (k a)) -> dsim (bind m k).
Proof. apply (gsim_bind dtwin d_ops). Qed.
Lemma dsim_relabel A k (m : M dev A) : dsim m -> dsim (relabel k m).
Proof. apply (gsim_relabel dtwin d_ops). Qed.

Lemma dtwin_mk i b c o lg : o <= i -> dtwin i (mkDev b c o None lg) (mkDev b c o (Some i) lg).
Proof. intros H. unfold dtwin. cbn. repeat split; try reflexivity. exact H. Qed.

Lemma dtwin_inv i d d' : dtwin i d d' ->
  exists b c o lg, d = mkDev b c o None lg /\ d' = mkDev b c o (Some i) lg /\ o <= i.
Proof.
  destruct d as [b c o f lg]. destruct d' as [b' c' o' f' lg'].
  intros (Hb & Hc & Ho & Hl & Hf & Hf' & Hle).
  cbn [d_bytes d_cur d_ops d_fault d_log] in *. subst.
  exists b, c, o, lg. auto.
Qed.

Ltac dtwin_elim H :=
  let b := fresh "b" in let c := fresh "c" in let o := fresh "o" in let lg := fresh "lg" in
  let E := fresh "E" in let E' := fresh "E'" in let Hle := fresh "Hle" in
  destruct (dtwin_inv _ _ _ H) as (b & c & o & lg & E & E' & Hle); subst; clear H.

Lemma dtwin_ops_le i d d' : dtwin i d d' -> d_ops d' <= i.
Proof. intros H. dtwin_elim H. exact Hle. Qed.

Lemma dsim_tick : dsim tick.
Proof.
  intros i d d' H. dtwin_elim H. unfold tick. cbn [d_bytes d_cur d_ops d_fault d_log].
  destruct (N.eqb_spec i o) as [->|Hne].
  - right. cbn [fst snd d_ops]. split; [lia|]. exists EIo. reflexivity.
  - left. cbn [fst snd]. split; [|reflexivity]. apply dtwin_mk. lia.
Qed.

(* a step that does not count as an operation and does not look at the fault plan *)
Lemma dsim_upd A (f : list N -> N -> list (N * list N) -> list N * N * list (N * list N) * res A) :
  dsim (fun d => let '(b, c, lg, r) := f (d_bytes d) (d_cur d) (d_log d) in
                 (mkDev b c (d_ops d) (d_fault d) lg, r)).
Proof.
  intros i d d' H. dtwin_elim H. cbn [d_bytes d_cur d_ops d_fault d_log].
  destruct (f b c lg) as [[[b1 c1] lg1] r]. left. cbn [fst snd].
  split; [apply dtwin_mk; exact Hle|reflexivity].
Qed.

Lemma dsim_seek_end : dsim d_seek_end.
Proof.
  unfold d_seek_end. apply dsim_bind; [exact dsim_tick|intros _].
  exact (dsim_upd N (fun b c lg => (b, len b, lg, Ok (len b)))).
Qed.

Lemma dsim_seek_start p : dsim (d_seek_start p).
Proof.
  unfold d_seek_start. apply dsim_bind; [exact dsim_tick|intros _].
  exact (dsim_upd N (fun b c lg => (b, p, lg, Ok p))).
Qed.

Lemma dsim_pos : dsim d_pos.
Proof.
  unfold d_pos. apply dsim_bind; [exact dsim_tick|intros _].
  intros i d d' H. dtwin_elim H. left. cbn [fst snd d_cur]. split; [apply dtwin_mk; exact Hle|reflexivity].
Qed.

Lemma dsim_read n : dsim (d_read n).
Proof.
  unfold d_read. apply dsim_bind; [exact dsim_tick|intros _].
  exact (dsim_upd (list N) (fun b c lg => (b, c + len (slice c n b), lg, Ok (slice c n b)))).
Qed.

Lemma dsim_write_all bs : dsim (d_write_all bs).
Proof.
  destruct bs as [|x bs]; [apply dsim_ret|].
  unfold d_write_all. apply dsim_bind; [exact dsim_tick|intros _].
  exact (dsim_upd unit (fun b c lg =>
    (overwrite b c (x :: bs), c + len (x :: bs), (c, x :: bs) :: lg, Ok tt))).
Qed.

Lemma dsim_flush : dsim d_flush.
Proof. exact dsim_tick. Qed.

Lemma dsim_read_fill : forall fuel want acc, dsim (d_read_fill fuel want acc).
Proof.
  induction fuel as [|f IH]; intros want acc; cbn [d_read_fill]; [apply dsim_ret|].
  destruct (want =? 0); [apply dsim_ret|].
  apply dsim_bind; [apply dsim_read|]. intros [|x got]; [apply dsim_ret|apply IH].
Qed.

Lemma dsim_read_exact_loop : forall fuel want acc, dsim (d_read_exact_loop fuel want acc).
Proof.
  induction fuel as [|f IH]; intros want acc; cbn [d_read_exact_loop]; [apply dsim_ret|].
  destruct (want =? 0); [apply dsim_ret|].
  apply dsim_bind; [apply dsim_read|]. intros [|x got]; [apply dsim_fail|apply IH].
Qed.

Lemma dsim_read_exact n : dsim (d_read_exact n).
Proof. apply dsim_read_exact_loop. Qed.

(** [ignore_err] is not a simulation: a fault on the only operation of
    [ignore_err tick] is swallowed. *)
Lemma ignore_err_not_sim : ~ dsim (ignore_err tick).
Proof.
  intros H.
  destruct (H 0 (mkDev [] 0 0 None []) (mkDev [] 0 0 (Some 0) []) (dtwin_mk 0 [] 0 0 [] ltac:(lia)))
    as [[Ht _]|[_ [e He]]].
  - apply dtwin_ops_le in Ht. vm_compute in Ht. apply Ht. reflexivity.
  - vm_compute in He. discriminate.
Qed.

(** * The paged writer *)

Definition ptwin (i : N) (s s' : pw) : Prop :=
  dtwin i (pw_dev s) (pw_dev s') /\ pw_off s' = pw_off s /\ pw_buf s' = pw_buf s.

Definition pw_ops (s : pw) : N := d_ops (pw_dev s).

Definition pwsim {A} (m : M pw A) : Prop := forall i s s', ptwin i s s' ->
  (ptwin i (fst (m s)) (fst (m s')) /\ snd (m s') = snd (m s)) \/
  (i < d_ops (pw_dev (fst (m s'))) /\ exists e, snd (m s') = Err e).

Lemma pwsim_ret A (a : A) : pwsim (ret a).
Proof. apply (gsim_ret ptwin pw_ops). Qed.
Lemma pwsim_fail A k : pwsim (@fail pw A k).
Proof. apply (gsim_fail ptwin pw_ops). Qed.
Lemma pwsim_panic A : pwsim (@panic pw A).
Proof. apply (gsim_panic ptwin pw_ops). Qed.
Lemma pwsim_lift_res A (r : res A) : pwsim (@lift_res pw A r).
Proof. apply (gsim_lift_res ptwin pw_ops). Qed.
Lemma pwsim_bind A B (m : M pw A) (k : A -> M pw B) :
  pwsim m -> (forall a, pwsim (k a)) -> pwsim (bind m k).
Proof. apply (gsim_bind ptwin pw_ops). Qed.
Lemma pwsim_relabel A k (m : M pw A) : pwsim m -> pwsim (relabel k m).
Proof. apply (gsim_relabel ptwin pw_ops). Qed.

Lemma ptwin_mk i d d' off buf : dtwin i d d' -> ptwin i (mkPw d off buf) (mkPw d' off buf).
Proof. intros H. unfold ptwin. cbn. auto. Qed.

Lemma ptwin_inv i s s' : ptwin i s s' ->
  exists d d' off buf, s = mkPw d off buf /\ s' = mkPw d' off buf /\ dtwin i d d'.
Proof.
  destruct s as [d off buf]. destruct s' as [d' off' buf']. intros (Hd & Ho & Hb).
  cbn [pw_dev pw_off pw_buf] in *. subst. exists d, d', off, buf. auto.
Qed.

Ltac ptwin_elim H :=
  let d := fresh "d" in let d' := fresh "d'" in let off := fresh "off" in let buf := fresh "buf" in
  let E := fresh "E" in let E' := fresh "E'" in let Hd := fresh "Hd" in
  destruct (ptwin_inv _ _ _ H) as (d & d' & off & buf & E & E' & Hd); subst; clear H.

Lemma ptwin_ops_le i s s' : ptwin i s s' -> d_ops (pw_dev s') <= i.
Proof. intros (H & _). apply (dtwin_ops_le _ _ _ H). Qed.

Lemma pwsim_lift A (m : M dev A) : dsim m -> pwsim (pw_lift m).
Proof.
  intros Hm i s s' H. ptwin_elim H. unfold pw_lift. cbn [pw_dev pw_off pw_buf].
  destruct (Hm i d d' Hd) as [[Ht Hr]|[Hlt [e He]]].
  - destruct (m d) as [d1 r]. destruct (m d') as [d1' r']. cbn [fst snd] in *. subst r'.
    left. split; [apply ptwin_mk; exact Ht|reflexivity].
  - destruct (m d') as [d1' r']. cbn [fst snd] in *. subst r'.
    right. cbn [pw_dev]. split; [exact Hlt|]. exists e. reflexivity.
Qed.

Lemma pwsim_get_off : pwsim pw_get_off.
Proof. intros i s s' H. left. cbn [pw_get_off fst snd]. split; [exact H|]. destruct H as (_ & -> & _). reflexivity. Qed.
Lemma pwsim_get_buf : pwsim pw_get_buf.
Proof. intros i s s' H. left. cbn [pw_get_buf fst snd]. split; [exact H|]. destruct H as (_ & _ & ->). reflexivity. Qed.
Lemma pwsim_set_off o : pwsim (pw_set_off o).
Proof. intros i s s' H. ptwin_elim H. left. cbn. split; [apply ptwin_mk; exact Hd|reflexivity]. Qed.
Lemma pwsim_set_buf b : pwsim (pw_set_buf b).
Proof. intros i s s' H. ptwin_elim H. left. cbn. split; [apply ptwin_mk; exact Hd|reflexivity]. Qed.

Create HintDb pwsim_db.
#[export] Hint Resolve pwsim_ret pwsim_fail pwsim_panic pwsim_lift_res pwsim_get_off pwsim_get_buf
  pwsim_set_off pwsim_set_buf
  dsim_tick dsim_seek_end dsim_seek_start dsim_pos dsim_read dsim_write_all dsim_flush
  dsim_read_fill dsim_read_exact : pwsim_db.

Ltac pwsim_step :=
  first
  [ solve [auto 1 with pwsim_db nocore]
  | apply pwsim_bind; [|intros; cbv zeta]
  | apply pwsim_relabel
  | apply pwsim_lift
  | match goal with
    | |- pwsim (if ?c then _ else _) => destruct c
    | |- pwsim (match ?x with _ => _ end) => destruct x
    end ].
Ltac pwsim_tac := cbv zeta; repeat pwsim_step.

Lemma pwsim_read_current_page : pwsim pw_read_current_page.
Proof. unfold pw_read_current_page. pwsim_tac. Qed.
#[export] Hint Resolve pwsim_read_current_page : pwsim_db.

Lemma pwsim_write data : pwsim (pw_write data).
Proof. unfold pw_write. pwsim_tac. Qed.
#[export] Hint Resolve pwsim_write : pwsim_db.

Lemma pwsim_write_all_loop : forall fuel data, pwsim (pw_write_all_loop fuel data).
Proof.
  induction fuel as [|f IH]; intros data; cbn [pw_write_all_loop]; [apply pwsim_ret|].
  destruct data as [|x data]; [apply pwsim_ret|].
  pwsim_tac.
Qed.

Lemma pwsim_write_all data : pwsim (pw_write_all data).
Proof. apply pwsim_write_all_loop. Qed.
#[export] Hint Resolve pwsim_write_all : pwsim_db.

Lemma pwsim_flush : pwsim pw_flush.
Proof. unfold pw_flush. pwsim_tac. Qed.
#[export] Hint Resolve pwsim_flush : pwsim_db.

Lemma pwsim_physical_position : pwsim pw_physical_position.
Proof. unfold pw_physical_position. pwsim_tac. Qed.

Lemma pwsim_physical_size : pwsim pw_physical_size.
Proof. unfold pw_physical_size. pwsim_tac. Qed.
#[export] Hint Resolve pwsim_physical_position pwsim_physical_size : pwsim_db.

Lemma pwsim_physical_seek p : pwsim (pw_physical_seek p).
Proof. unfold pw_physical_seek. pwsim_tac. Qed.

Lemma pwsim_align : pwsim pw_align.
Proof. unfold pw_align. pwsim_tac. Qed.
#[export] Hint Resolve pwsim_physical_seek pwsim_align : pwsim_db.

Lemma pwsim_step_op o : pwsim (pw_step o).
Proof. destruct o; cbn [pw_step]; pwsim_tac. Qed.

(** [pw_drop] swallows the error: not a simulation. *)
Lemma pw_drop_not_sim : ~ pwsim pw_drop.
Proof.
  intros H.
  pose (d := mkDev [] 0 0 None []). pose (d' := mkDev [] 0 0 (Some 0) []).
  destruct (H 0 (mkPw d 0 (zeros PAGE)) (mkPw d' 0 (zeros PAGE))
              (ptwin_mk 0 d d' 0 _ (dtwin_mk 0 [] 0 0 [] ltac:(lia)))) as [[Ht _]|[_ [e He]]].
  - apply ptwin_ops_le in Ht. vm_compute in Ht. apply Ht. reflexivity.
  - vm_compute in He. discriminate.
Qed.

(** * The paged reader *)

Definition rtwin (i : N) (s s' : pr) : Prop :=
  dtwin i (pr_dev s) (pr_dev s') /\
  pr_page_size s' = pr_page_size s /\ pr_phy_size s' = pr_phy_size s /\
  pr_log_size s' = pr_log_size s /\ pr_pages s' = pr_pages s /\ pr_off s' = pr_off s /\
  pr_page_num s' = pr_page_num s /\ pr_buf s' = pr_buf s.

Definition pr_ops (s : pr) : N := d_ops (pr_dev s).

Definition prsim {A} (m : M pr A) : Prop := forall i s s', rtwin i s s' ->
  (rtwin i (fst (m s)) (fst (m s')) /\ snd (m s') = snd (m s)) \/
  (i < d_ops (pr_dev (fst (m s'))) /\ exists e, snd (m s') = Err e).

Lemma prsim_ret A (a : A) : prsim (ret a).
Proof. apply (gsim_ret rtwin pr_ops). Qed.
Lemma prsim_fail A k : prsim (@fail pr A k).
Proof. apply (gsim_fail rtwin pr_ops). Qed.
Lemma prsim_panic A : prsim (@panic pr A).
Proof. apply (gsim_panic rtwin pr_ops). Qed.
Lemma prsim_lift_res A (r : res A) : prsim (@lift_res pr A r).
Proof. apply (gsim_lift_res rtwin pr_ops). Qed.
Lemma prsim_bind A B (m : M pr A) (k : A -> M pr B) :
  prsim m -> (forall a, prsim (k a)) -> prsim (bind m k).
Proof. apply (gsim_bind rtwin pr_ops). Qed.
Lemma prsim_relabel A k (m : M pr A) : prsim m -> prsim (relabel k m).
Proof. apply (gsim_relabel rtwin pr_ops). Qed.

Lemma rtwin_mk i d d' ps phy lsz pgs off pn buf : dtwin i d d' ->
  rtwin i (mkPr d ps phy lsz pgs off pn buf) (mkPr d' ps phy lsz pgs off pn buf).
Proof. intros H. unfold rtwin. cbn. split; [exact H|]. repeat split; reflexivity. Qed.

Lemma rtwin_inv i s s' : rtwin i s s' ->
  exists d d' ps phy lsz pgs off pn buf,
    s = mkPr d ps phy lsz pgs off pn buf /\ s' = mkPr d' ps phy lsz pgs off pn buf /\ dtwin i d d'.
Proof.
  destruct s as [d ps phy lsz pgs off pn buf]. destruct s' as [d' ps' phy' lsz' pgs' off' pn' buf'].
  intros (Hd & H1 & H2 & H3 & H4 & H5 & H6 & H7).
  cbn [pr_dev pr_page_size pr_phy_size pr_log_size pr_pages pr_off pr_page_num pr_buf] in *. subst.
  exists d, d', ps, phy, lsz, pgs, off, pn, buf. auto.
Qed.

Ltac rtwin_elim H :=
  let d := fresh "d" in let d' := fresh "d'" in let ps := fresh "ps" in let phy := fresh "phy" in
  let lsz := fresh "lsz" in let pgs := fresh "pgs" in let off := fresh "off" in
  let pn := fresh "pn" in let buf := fresh "buf" in
  let E := fresh "E" in let E' := fresh "E'" in let Hd := fresh "Hd" in
  destruct (rtwin_inv _ _ _ H) as (d & d' & ps & phy & lsz & pgs & off & pn & buf & E & E' & Hd);
  subst; clear H.

Lemma rtwin_ops_le i s s' : rtwin i s s' -> d_ops (pr_dev s') <= i.
Proof. intros (H & _). apply (dtwin_ops_le _ _ _ H). Qed.

Ltac pr_proj := cbn [pr_dev pr_page_size pr_phy_size pr_log_size pr_pages pr_off pr_page_num pr_buf].

Lemma prsim_lift A (m : M dev A) : dsim m -> prsim (pr_lift m).
Proof.
  intros Hm i s s' H. rtwin_elim H. unfold pr_lift. pr_proj.
  destruct (Hm i d d' Hd) as [[Ht Hr]|[Hlt [e He]]].
  - destruct (m d) as [d1 r]. destruct (m d') as [d1' r']. cbn [fst snd] in *. subst r'.
    left. split; [apply rtwin_mk; exact Ht|reflexivity].
  - destruct (m d') as [d1' r']. cbn [fst snd] in *. subst r'.
    right. pr_proj. split; [exact Hlt|]. exists e. reflexivity.
Qed.

Lemma prsim_set_off o : prsim (pr_set_off o).
Proof. intros i s s' H. rtwin_elim H. left. cbn. split; [apply rtwin_mk; exact Hd|reflexivity]. Qed.
Lemma prsim_set_page_num p : prsim (pr_set_page_num p).
Proof. intros i s s' H. rtwin_elim H. left. cbn. split; [apply rtwin_mk; exact Hd|reflexivity]. Qed.
Lemma prsim_set_buf b : prsim (pr_set_buf b).
Proof. intros i s s' H. rtwin_elim H. left. cbn. split; [apply rtwin_mk; exact Hd|reflexivity]. Qed.

(* a computation that first looks at the non-device part of the state *)
Lemma prsim_rest A (F : N -> N -> N -> N -> N -> option N -> list N -> M pr A) :
  (forall ps phy lsz pgs off pn buf, prsim (F ps phy lsz pgs off pn buf)) ->
  prsim (fun s => F (pr_page_size s) (pr_phy_size s) (pr_log_size s) (pr_pages s) (pr_off s)
                    (pr_page_num s) (pr_buf s) s).
Proof.
  intros HF i s s' H. pose proof H as H0. rtwin_elim H. pr_proj.
  apply HF. exact H0.
Qed.

Create HintDb prsim_db.
#[export] Hint Resolve prsim_ret prsim_fail prsim_panic prsim_lift_res prsim_set_off prsim_set_page_num
  prsim_set_buf
  dsim_tick dsim_seek_end dsim_seek_start dsim_pos dsim_read dsim_write_all dsim_flush
  dsim_read_fill dsim_read_exact : prsim_db.

Ltac prsim_step :=
  first
  [ solve [auto 1 with prsim_db nocore]
  | apply prsim_bind; [|intros; cbv zeta]
  | apply prsim_relabel
  | apply prsim_lift
  | match goal with
    | |- prsim (if ?c then _ else _) => destruct c
    | |- prsim (match ?x with _ => _ end) => destruct x
    end ].
Ltac prsim_tac := cbv zeta; repeat prsim_step.

Lemma prsim_seek_physical offset : prsim (pr_seek_physical offset).
Proof.
  unfold pr_seek_physical.
  apply (prsim_rest _ (fun ps phy lsz pgs off pn buf s =>
    if phy <=? offset then (s, Err EIo) else
    bind (pr_set_off (offset - offset / ps * CHECKSUM_SIZE))
         (fun _ => ret (offset - offset / ps * CHECKSUM_SIZE)) s)).
  intros ps phy lsz pgs off pn buf.
  destruct (phy <=? offset); [apply prsim_fail|]. prsim_tac.
Qed.

Lemma prsim_fill_loop : forall fuel done want, prsim (pr_fill_loop fuel done want).
Proof.
  induction fuel as [|f IH]; intros done want; cbn [pr_fill_loop]; [apply prsim_ret|].
  destruct (want =? 0); [apply prsim_ret|].
  apply prsim_bind; [apply prsim_lift, dsim_read|]. intros [|x got]; [apply prsim_fail|].
  apply prsim_bind; [|intros _; apply IH].
  apply (prsim_rest _ (fun ps phy lsz pgs off pn buf =>
    pr_set_buf (take done buf ++ (x :: got) ++ drop (done + len (x :: got)) buf))).
  intros. apply prsim_set_buf.
Qed.

Lemma prsim_check_page page :
  prsim (fun s1 =>
      let data_size := pr_page_size s1 - CHECKSUM_SIZE in
      let expected := drop data_size (pr_buf s1) in
      let calculated := crc_bytes (take data_size (pr_buf s1)) in
      if list_eq_dec N.eq_dec expected calculated
      then pr_set_page_num (Some page) s1
      else (pr_set_page_num None ;;; fail EIo) s1).
Proof.
  apply (prsim_rest _ (fun ps phy lsz pgs off pn buf s1 =>
    if list_eq_dec N.eq_dec (drop (ps - CHECKSUM_SIZE) buf) (crc_bytes (take (ps - CHECKSUM_SIZE) buf))
    then pr_set_page_num (Some page) s1 else (pr_set_page_num None ;;; fail EIo) s1)).
  intros ps phy lsz pgs off pn buf.
  destruct (list_eq_dec N.eq_dec _ _).
  - apply (prsim_set_page_num (Some page)).
  - change (prsim (pr_set_page_num None ;;; @fail pr unit EIo)). prsim_tac.
Qed.

Lemma prsim_read_page page : prsim (pr_read_page page).
Proof.
  unfold pr_read_page.
  apply (prsim_rest _ (fun ps phy lsz pgs off pn buf s =>
    if pgs <=? page then (if pgs =? 0 then (s, Panic) else (s, Err EIo)) else
    (pr_lift (d_seek_start (page * ps)) ;;;
     pr_fill_loop (S (N.to_nat ps)) 0 ps ;;;
     (fun s1 =>
      let data_size := pr_page_size s1 - CHECKSUM_SIZE in
      let expected := drop data_size (pr_buf s1) in
      let calculated := crc_bytes (take data_size (pr_buf s1)) in
      if list_eq_dec N.eq_dec expected calculated
      then pr_set_page_num (Some page) s1
      else (pr_set_page_num None ;;; fail EIo) s1)) s)).
  intros ps phy lsz pgs off pn buf.
  destruct (pgs <=? page).
  - destruct (pgs =? 0); [apply prsim_panic|apply prsim_fail].
  - apply prsim_bind; [apply prsim_lift, dsim_seek_start|intros _].
    apply prsim_bind; [apply prsim_fill_loop|intros _]. apply prsim_check_page.
Qed.
#[export] Hint Resolve prsim_seek_physical prsim_fill_loop prsim_read_page : prsim_db.

Lemma prsim_align : prsim pr_align.
Proof.
  unfold pr_align.
  apply (prsim_rest _ (fun ps phy lsz pgs off pn buf s =>
    if off mod 4 =? 0 then (s, Ok tt) else
    if lsz <? off + (4 - off mod 4) then (s, Err EIo)
    else pr_set_off (off + (4 - off mod 4)) s)).
  intros ps phy lsz pgs off pn buf.
  destruct (off mod 4 =? 0); [apply (prsim_ret _ tt)|].
  destruct (lsz <? _); [apply prsim_fail|apply prsim_set_off].
Qed.

Lemma prsim_read n : prsim (pr_read n).
Proof.
  unfold pr_read.
  apply (prsim_rest _ (fun ps phy lsz pgs off pn buf s =>
    if pgs <=? off / (ps - CHECKSUM_SIZE) then (s, Ok []) else
    ((match pn with
      | Some p => if p =? off / (ps - CHECKSUM_SIZE) then ret tt else pr_read_page (off / (ps - CHECKSUM_SIZE))
      | None => pr_read_page (off / (ps - CHECKSUM_SIZE))
      end) ;;;
     (fun s1 =>
      let page_offset := pr_off s1 mod (ps - CHECKSUM_SIZE) in
      let page_readable := (ps - CHECKSUM_SIZE) - page_offset in
      let read_size := N.min n page_readable in
      bind (pr_set_off (pr_off s1 + read_size))
           (fun _ => ret (slice page_offset read_size (pr_buf s1))) s1)) s)).
  intros ps phy lsz pgs off pn buf.
  destruct (pgs <=? _); [apply (prsim_ret _ [])|].
  apply prsim_bind.
  - destruct pn as [p|]; [destruct (p =? _)|]; prsim_tac.
  - intros _.
    apply (prsim_rest _ (fun ps' phy lsz pgs off pn buf =>
      bind (pr_set_off (off + N.min n (ps - CHECKSUM_SIZE - off mod (ps - CHECKSUM_SIZE))))
           (fun _ => ret (slice (off mod (ps - CHECKSUM_SIZE))
                                (N.min n (ps - CHECKSUM_SIZE - off mod (ps - CHECKSUM_SIZE))) buf)))).
    intros. prsim_tac.
Qed.
#[export] Hint Resolve prsim_align prsim_read : prsim_db.

Lemma prsim_read_exact_loop : forall fuel want acc, prsim (pr_read_exact_loop fuel want acc).
Proof.
  induction fuel as [|f IH]; intros want acc; cbn [pr_read_exact_loop]; [apply prsim_ret|].
  destruct (want =? 0); [apply prsim_ret|].
  apply prsim_bind; [apply prsim_read|]. intros [|x got]; [apply prsim_fail|apply IH].
Qed.

Lemma prsim_read_exact n : prsim (pr_read_exact n).
Proof.
  unfold pr_read_exact.
  apply (prsim_rest _ (fun ps phy lsz pgs off pn buf =>
    pr_read_exact_loop (S (N.to_nat (N.min n lsz))) n [])).
  intros. apply prsim_read_exact_loop.
Qed.
#[export] Hint Resolve prsim_read_exact : prsim_db.

Lemma prsim_step_op o : prsim (pr_step o).
Proof. destruct o; cbn [pr_step]; prsim_tac. Qed.

Print Assumptions pwsim_step_op.
Print Assumptions prsim_step_op.
