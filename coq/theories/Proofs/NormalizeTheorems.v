(** The theorems of C13 about [Range::normalize], [normalize_value] and the
    range selection (Model/Normalize.v). *)
From Coq Require Import ZArith NArith Bool Reals Lra Lia List.
From Flocq Require Import Core Binary Bits.
From E57 Require Import Base.Prelude Base.Floats Model.Normalize
  Proofs.FltLemmas Proofs.NormalizeCore Proofs.NormalizeHalved Proofs.NormalizeProofs.
Local Open Scope R_scope.

(** Real-number semantics of [normalize] on the range [L,H] (binary64 numbers) *)
Definition normR (L H V : R) : R :=
  if Req_EM_T L H then 0 else
  if Rlt_dec (Rabs (R64 (H - L))) (bpow radix2 1024) then coreR L H (clampR L H V)
  else coreR (R64 (L * / 2)) (R64 (H * / 2)) (R64 (clampR L H V * / 2)).

Lemma B2R_f32_zero : B2R32 f32_zero = 0.
Proof. rewrite f32_zero_eq. reflexivity. Qed.
Lemma fin_f32_zero : fin32 f32_zero = true.
Proof. reflexivity. Qed.

Section Sem.
Variables lo hi : binary64.
Hypothesis Hlo : fin64 lo = true.
Hypothesis Hhi : fin64 hi = true.
Hypothesis Hle : B2R64 lo <= B2R64 hi.
Let rg := mkRange lo hi (f64_sub hi lo).
Let L := B2R64 lo.
Let H := B2R64 hi.

Lemma normalize_sem : forall v, fin64 v = true ->
  exists y, normalize rg v = Ok y /\ fin32 y = true /\ B2R32 y = normR L H (B2R64 v) /\
    (L < H -> B2R64 v = L -> Bsign 53 1024 v = Bsign 53 1024 lo -> Bsign 24 128 y = false).
Proof.
  intros v Hv. unfold normR.
  destruct (Req_EM_T L H) as [E|NE].
  - exists f32_zero. split; [apply normalize_degenerate; assumption|]. split; [reflexivity|].
    split; [apply B2R_f32_zero|]. intros; lra.
  - assert (Hlt : L < H) by (unfold L, H in *; lra).
    destruct (Rlt_dec (Rabs (R64 (H - L))) (bpow radix2 1024)) as [A|B].
    + destruct (normalize_A lo hi Hlo Hhi Hle Hlt A v Hv) as (y & Y1 & Y2 & Y3 & Y4).
      exists y. auto.
    + destruct (normalize_B lo hi Hlo Hhi Hle Hlt B v Hv) as (y & Y1 & Y2 & Y3 & Y4).
      exists y. auto.
Qed.

(** The halved limits, as a core instance *)
Lemma halved_core : L < H -> ~ Rabs (R64 (H - L)) < bpow radix2 1024 ->
  R64 (L * / 2) < R64 (H * / 2).
Proof.
  intros Hlt B. apply halved_distinct; try apply B2R64_abs_le_max.
  intros X. apply B. rewrite Rabs_pos_eq; [exact X|]. rewrite <- R64_0. apply R64_le. lra.
Qed.

Lemma normR_unit : forall V, 0 <= normR L H V <= 1.
Proof.
  intros V. unfold normR. destruct (Req_EM_T L H) as [E|NE]; [lra|].
  assert (Hlt : L < H) by (unfold L, H in *; lra).
  pose proof (clampR_bounds L H V Hle) as Cb.
  destruct (Rlt_dec _ _) as [A|B].
  - apply core_unit; auto; try apply fmt64_B2R.
  - apply core_unit; try apply fmt64_R64.
    + apply halved_core; assumption.
    + split; apply R64_half_mono; lra.
Qed.

Lemma normR_mono : forall V1 V2, V1 <= V2 -> normR L H V1 <= normR L H V2.
Proof.
  intros V1 V2 HV. unfold normR. destruct (Req_EM_T L H) as [E|NE]; [lra|].
  assert (Hlt : L < H) by (unfold L, H in *; lra).
  pose proof (clampR_mono L H V1 V2 HV) as Cm.
  destruct (Rlt_dec _ _) as [A|B].
  - apply core_mono; auto; try apply fmt64_B2R.
  - apply core_mono; try apply fmt64_R64.
    + apply halved_core; assumption.
    + apply R64_half_mono. exact Cm.
Qed.

Lemma normR_at_min : forall V, V <= L -> normR L H V = 0.
Proof.
  intros V HV. unfold normR. destruct (Req_EM_T L H) as [E|NE]; [reflexivity|].
  assert (Hlt : L < H) by (unfold L, H in *; lra).
  assert (C : clampR L H V = L).
  { unfold clampR, Rmin, Rmax. destruct (Rle_dec L V); destruct (Rle_dec H _); lra. }
  rewrite C. destruct (Rlt_dec _ _); apply core_at_min.
Qed.

Lemma normR_at_max : forall V, L < H -> H <= V -> normR L H V = 1.
Proof.
  intros V Hlt HV. unfold normR. destruct (Req_EM_T L H) as [E|NE]; [lra|].
  assert (C : clampR L H V = H).
  { unfold clampR, Rmin, Rmax. destruct (Rle_dec L V); destruct (Rle_dec H _); lra. }
  rewrite C. destruct (Rlt_dec _ _) as [A|B].
  - apply core_at_max; auto; apply fmt64_B2R.
  - apply core_at_max; try apply fmt64_R64. apply halved_core; assumption.
Qed.

Lemma normR_close : forall v : binary64, L < H -> Rabs (R64 (H - L)) < bpow radix2 1024 ->
  Rabs (normR L H (B2R64 v) - clampR 0 1 ((B2R64 v - L) / (H - L))) <= bpow radix2 (-24).
Proof.
  intros v Hlt A. unfold normR. destruct (Req_EM_T L H) as [E|NE]; [lra|].
  destruct (Rlt_dec _ _) as [A'|B]; [|contradiction].
  rewrite clampR_quot by exact Hlt.
  apply core_close; try apply fmt64_B2R; auto.
  - unfold clampR, Rmin, Rmax. destruct (Rle_dec L (B2R64 v)); destruct (Rle_dec H _); apply fmt64_B2R.
  - apply clampR_bounds. exact Hle.
Qed.

End Sem.

(** * The theorems, for every accepted range *)

Theorem normalize_no_panic : forall rg v, accepted rg -> exists y, normalize rg v = Ok y.
Proof.
  intros rg v (lo & hi & Hacc). destruct (from_min_max_ok lo hi rg Hacc) as (Hlo & Hhi & Hle & ->).
  apply normalize_total; assumption.
Qed.

Theorem normalize_unit_interval : forall rg v, accepted rg -> fin64 v = true ->
  exists y, normalize rg v = Ok y /\ is_nan 24 128 y = false /\ fin32 y = true /\ 0 <= B2R32 y <= 1.
Proof.
  intros rg v (lo & hi & Hacc) Hv. destruct (from_min_max_ok lo hi rg Hacc) as (Hlo & Hhi & Hle & ->).
  destruct (normalize_sem lo hi Hlo Hhi Hle v Hv) as (y & Y1 & Y2 & Y3 & _).
  exists y. split; [exact Y1|]. split; [apply is_nan_fin32; exact Y2|]. split; [exact Y2|].
  rewrite Y3. apply normR_unit. exact Hle.
Qed.

Theorem normalize_monotone : forall rg v1 v2 y1 y2, accepted rg -> fin64 v1 = true -> fin64 v2 = true ->
  B2R64 v1 <= B2R64 v2 -> normalize rg v1 = Ok y1 -> normalize rg v2 = Ok y2 ->
  B2R32 y1 <= B2R32 y2.
Proof.
  intros rg v1 v2 y1 y2 (lo & hi & Hacc) Hv1 Hv2 HV N1 N2.
  destruct (from_min_max_ok lo hi rg Hacc) as (Hlo & Hhi & Hle & ->).
  destruct (normalize_sem lo hi Hlo Hhi Hle v1 Hv1) as (z1 & Z1 & _ & R1 & _).
  destruct (normalize_sem lo hi Hlo Hhi Hle v2 Hv2) as (z2 & Z2 & _ & R2 & _).
  rewrite N1 in Z1. rewrite N2 in Z2. inversion Z1; inversion Z2; subst z1 z2.
  rewrite R1, R2. apply normR_mono; assumption.
Qed.

(** Exactly +0.0 at the minimum and exactly 1.0 at the maximum (and beyond) *)
Theorem normalize_endpoints : forall lo hi rg, from_min_max lo hi = Ok rg -> B2R64 lo < B2R64 hi ->
  normalize rg lo = Ok f32_zero /\ normalize rg hi = Ok f32_one.
Proof.
  intros lo hi rg Hacc Hlt. destruct (from_min_max_ok lo hi rg Hacc) as (Hlo & Hhi & Hle & ->).
  split.
  - destruct (normalize_sem lo hi Hlo Hhi Hle lo Hlo) as (y & Y1 & Y2 & Y3 & Y4).
    rewrite Y1. f_equal. apply f32_is_zero; auto.
    rewrite Y3. apply normR_at_min; auto. lra.
  - destruct (normalize_sem lo hi Hlo Hhi Hle hi Hhi) as (y & Y1 & Y2 & Y3 & _).
    rewrite Y1. f_equal. apply f32_is_one; auto.
    rewrite Y3. apply normR_at_max; auto. lra.
Qed.

Theorem normalize_saturates : forall lo hi rg v y, from_min_max lo hi = Ok rg -> B2R64 lo < B2R64 hi ->
  fin64 v = true -> normalize rg v = Ok y ->
  (B2R64 v <= B2R64 lo -> B2R32 y = 0) /\ (B2R64 hi <= B2R64 v -> y = f32_one).
Proof.
  intros lo hi rg v y Hacc Hlt Hv N. destruct (from_min_max_ok lo hi rg Hacc) as (Hlo & Hhi & Hle & ->).
  destruct (normalize_sem lo hi Hlo Hhi Hle v Hv) as (z & Z1 & Z2 & Z3 & _).
  rewrite N in Z1. inversion Z1; subst z. split; intros HV.
  - rewrite Z3. apply normR_at_min; auto.
  - apply f32_is_one; auto. rewrite Z3. apply normR_at_max; auto.
Qed.

Theorem normalize_degenerate_range : forall lo hi rg v, from_min_max lo hi = Ok rg -> B2R64 lo = B2R64 hi ->
  normalize rg v = Ok f32_zero.
Proof.
  intros lo hi rg v Hacc E. destruct (from_min_max_ok lo hi rg Hacc) as (Hlo & Hhi & Hle & ->).
  apply normalize_degenerate; assumption.
Qed.

Theorem normalize_close : forall lo hi rg v y, from_min_max lo hi = Ok rg -> B2R64 lo < B2R64 hi ->
  Rabs (R64 (B2R64 hi - B2R64 lo)) < bpow radix2 1024 ->
  fin64 v = true -> normalize rg v = Ok y ->
  Rabs (B2R32 y - clampR 0 1 ((B2R64 v - B2R64 lo) / (B2R64 hi - B2R64 lo))) <= bpow radix2 (-24).
Proof.
  intros lo hi rg v y Hacc Hlt Hw Hv N. destruct (from_min_max_ok lo hi rg Hacc) as (Hlo & Hhi & Hle & ->).
  destruct (normalize_sem lo hi Hlo Hhi Hle v Hv) as (z & Z1 & Z2 & Z3 & _).
  rewrite N in Z1. inversion Z1; subst z. rewrite Z3. apply normR_close; assumption.
Qed.
