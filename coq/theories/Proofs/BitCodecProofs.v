(** B4: round trip, for every width, every phase and every way of cutting the
    byte stream into chunks. *)
From E57 Require Import Base.Prelude Model.BsWrite Model.BsRead Model.Record Spec.BitSpec.
From E57 Require Import Proofs.BitLemmas Proofs.BitWidthProofs Proofs.BitWriteProofs Proofs.BitReadProofs.
From Coq Require Import ZifyN ZifyNat ZifyBool.
Ltac Zify.zify_post_hook ::= Z.div_mod_to_equations.
Open Scope N_scope.

(** * Stored numbers *)

Lemma stored_lt t v u : type_ok t = true -> stored t v = Some u -> u < 2 ^ spec_bit_size t.
Proof.
  intros Ht Hs.
  destruct t as [| |mn mx|mn mx], v as [x|x|i|i]; cbn [stored spec_bit_size type_ok] in *;
    try discriminate.
  - destruct (x <? 2 ^ 32) eqn:E; [|discriminate]. injection Hs as <-. lia.
  - destruct (x <? 2 ^ 64) eqn:E; [|discriminate]. injection Hs as <-. lia.
  - apply type_ok_int in Ht as (H1 & H2 & H3).
    destruct ((mn <=? i)%Z && (i <=? mx)%Z) eqn:E; [|discriminate]. injection Hs as <-.
    destruct (spec_width_exact mn mx H1 H2 H3) as (Ha & _).
    apply N2Z.inj_lt. rewrite N2Z.inj_pow, Z2N.id by lia. change (Z.of_N 2) with 2%Z. lia.
  - apply type_ok_int in Ht as (H1 & H2 & H3).
    destruct ((mn <=? i)%Z && (i <=? mx)%Z) eqn:E; [|discriminate]. injection Hs as <-.
    destruct (spec_width_exact mn mx H1 H2 H3) as (Ha & _).
    apply N2Z.inj_lt. rewrite N2Z.inj_pow, Z2N.id by lia. change (Z.of_N 2) with 2%Z. lia.
Qed.

Lemma stored_mk_value t v u : stored t v = Some u -> mk_value t u = v.
Proof.
  intros Hs.
  destruct t as [| |mn mx|mn mx], v as [x|x|i|i]; cbn [stored mk_value] in *; try discriminate.
  - destruct (x <? 2 ^ 32); [|discriminate]. injection Hs as <-. reflexivity.
  - destruct (x <? 2 ^ 64); [|discriminate]. injection Hs as <-. reflexivity.
  - destruct ((mn <=? i)%Z && (i <=? mx)%Z) eqn:E; [|discriminate]. injection Hs as <-.
    f_equal. lia.
  - destruct ((mn <=? i)%Z && (i <=? mx)%Z) eqn:E; [|discriminate]. injection Hs as <-.
    f_equal. lia.
Qed.

Lemma in_range_stored t v : in_range t v = true -> exists u, stored t v = Some u.
Proof. unfold in_range. destruct (stored t v) as [u|]; [eauto|discriminate]. Qed.

Lemma in_range_i64 t v : type_ok t = true -> in_range t v = true -> value_i64 v.
Proof.
  intros Ht Hv. unfold in_range in Hv.
  destruct t as [| |mn mx|mn mx], v as [x|x|i|i]; cbn [stored type_ok value_i64] in *;
    try discriminate; try exact I.
  all: apply type_ok_int in Ht as (H1 & H2 & H3);
    destruct ((mn <=? i)%Z && (i <=? mx)%Z) eqn:E; [|discriminate];
    apply in_i64_bounds in H1; apply in_i64_bounds in H2;
    unfold in_i64, I64_MIN, I64_MAX; change (2 ^ 63)%Z with 9223372036854775808%Z; lia.
Qed.

Lemma value_bits_length t v : in_range t v = true ->
  length (value_bits t v) = N.to_nat (spec_bit_size t).
Proof.
  intros Hv. destruct (in_range_stored t v Hv) as [u Hu].
  unfold value_bits. rewrite Hu. apply bits_lsb_length.
Qed.

Lemma value_bits_num t v : type_ok t = true -> in_range t v = true ->
  mk_value t (num_of_bits (value_bits t v)) = v.
Proof.
  intros Ht Hv. destruct (in_range_stored t v Hv) as [u Hu].
  unfold value_bits. rewrite Hu, num_of_bits_bits_lsb.
  rewrite (N.mod_small u _ (stored_lt t v u Ht Hu)). apply stored_mk_value. exact Hu.
Qed.

Lemma stream_bits_cons t v vs : stream_bits t (v :: vs) = value_bits t v ++ stream_bits t vs.
Proof. reflexivity. Qed.

Lemma stream_bits_length t vs : Forall (fun v => in_range t v = true) vs ->
  length (stream_bits t vs) = (length vs * N.to_nat (spec_bit_size t))%nat.
Proof.
  induction 1 as [|v vs Hv Hvs IH]; [reflexivity|].
  rewrite stream_bits_cons, app_length, IH, value_bits_length by assumption.
  cbn [length]. lia.
Qed.

(** * Decoding: fuel, concatenation *)

Lemma decode_fuel f1 f2 t w l : (0 < w)%nat -> (length l <= f1)%nat -> (length l <= f2)%nat ->
  decode_bits_fuel f1 t w l = decode_bits_fuel f2 t w l.
Proof.
  intros Hw H1 H2. rewrite !decode_group_nums. f_equal. apply group_nums_fuel; assumption.
Qed.

Lemma decode_stream_bits_gen t : type_ok t = true -> 0 < spec_bit_size t ->
  forall vs fuel pad,
  Forall (fun v => in_range t v = true) vs ->
  (length pad < N.to_nat (spec_bit_size t))%nat ->
  (length (stream_bits t vs ++ pad) <= fuel)%nat ->
  decode_bits_fuel fuel t (N.to_nat (spec_bit_size t)) (stream_bits t vs ++ pad) = vs.
Proof.
  intros Ht Hw0. set (w := N.to_nat (spec_bit_size t)).
  induction vs as [|v vs IH]; intros fuel pad Hvs Hpad Hf.
  - cbn [stream_bits map concat app] in *.
    destruct fuel; cbn [decode_bits_fuel]; [reflexivity|].
    destruct (length pad <? w)%nat eqn:E; [reflexivity|lia].
  - inversion Hvs as [|? ? Hv Hvs']; subst.
    rewrite stream_bits_cons, <- app_assoc in *.
    pose proof (value_bits_length t v Hv) as Hlen. fold w in Hlen.
    rewrite app_length in Hf.
    destruct fuel as [|f]; [lia|]. cbn [decode_bits_fuel].
    rewrite app_length.
    destruct (length (value_bits t v) + length (stream_bits t vs ++ pad) <? w)%nat eqn:E; [lia|].
    rewrite (firstn_app_exact _ _ _ Hlen), (skipn_app_exact _ _ _ Hlen).
    rewrite value_bits_num by assumption. f_equal.
    apply IH; [assumption|assumption|lia].
Qed.

Theorem decode_stream_bits : forall t vs pad,
  type_ok t = true -> 0 < spec_bit_size t -> Forall (fun v => in_range t v = true) vs ->
  (length pad < N.to_nat (spec_bit_size t))%nat ->
  let w := N.to_nat (spec_bit_size t) in
  decode_bits_fuel (length (stream_bits t vs ++ pad)) t w (stream_bits t vs ++ pad) = vs.
Proof.
  intros t vs pad Ht Hw0 Hvs Hpad w. apply decode_stream_bits_gen; auto.
Qed.

Lemma mod_rest_lt (n w : nat) : (0 < w)%nat -> (n - n / w * w < w)%nat.
Proof.
  intros Hw. pose proof (Nat.div_mod n w ltac:(lia)) as H1.
  pose proof (Nat.mod_upper_bound n w ltac:(lia)) as H2.
  set (q := (n / w)%nat) in *. set (r := (n mod w)%nat) in *. lia.
Qed.

Lemma group_nums_app_bound w : (0 < w)%nat -> forall n A B, (length A <= n)%nat ->
  group_nums (length (A ++ B)) w (A ++ B) =
  group_nums (length A) w A ++
  group_nums (length (skipn (length A / w * w) A ++ B)) w (skipn (length A / w * w) A ++ B).
Proof.
  intros Hw. induction n; intros A B Hn.
  - destruct A; [|cbn [length] in Hn; lia]. cbn [length]. rewrite Nat.div_0_l by lia. reflexivity.
  - destruct (le_lt_dec w (length A)) as [Hge|Hlt].
    + rewrite (group_nums_step w (A ++ B)) by (try rewrite app_length; lia).
      rewrite (group_nums_step w A) by lia.
      rewrite firstn_app, skipn_app.
      replace (w - length A)%nat with 0%nat by lia.
      rewrite firstn_O, skipn_O, app_nil_r. cbn [app]. f_equal.
      rewrite (IHn (skipn w A) B) by (rewrite skipn_length; lia).
      rewrite skipn_skipn_, skipn_length.
      rewrite (div_step (length A) w) by lia.
      replace (S ((length A - w) / w) * w)%nat with (w + (length A - w) / w * w)%nat by lia.
      reflexivity.
    + rewrite (group_nums_short _ w A) by lia.
      rewrite Nat.div_small by lia. reflexivity.
Qed.

Lemma decode_app t w A B : (0 < w)%nat ->
  decode_bits_fuel (length (A ++ B)) t w (A ++ B) =
  decode_bits_fuel (length A) t w A ++
  decode_bits_fuel (length (skipn (length A / w * w) A ++ B)) t w (skipn (length A / w * w) A ++ B).
Proof.
  intros Hw. rewrite !decode_group_nums, <- map_app. f_equal.
  apply (group_nums_app_bound w Hw (length A)). lia.
Qed.

(** * Zero padding decodes to values made of zeros *)

Definition allfalse (l : list bool) : Prop := forall i, nth i l false = false.

Lemma allfalse_num l : allfalse l -> num_of_bits l = 0.
Proof. intros H. apply N.bits_inj_0. intro i. rewrite num_of_bits_testbit. apply H. Qed.

Lemma allfalse_firstn k l : allfalse l -> allfalse (firstn k l).
Proof. intros H i. rewrite nth_firstn_. destruct (i <? k)%nat; [apply H|reflexivity]. Qed.

Lemma allfalse_skipn k l : allfalse l -> allfalse (skipn k l).
Proof. intros H i. rewrite nth_skipn_. apply H. Qed.

Lemma allfalse_repeat p : allfalse (repeat false p).
Proof. intros i. apply nth_repeat. Qed.

Lemma group_nums_allfalse : forall f w l, allfalse l -> Forall (fun u => u = 0) (group_nums f w l).
Proof.
  induction f; intros w l H; cbn [group_nums]; [constructor|].
  destruct (length l <? w)%nat; constructor.
  - apply allfalse_num, allfalse_firstn, H.
  - apply IHf, allfalse_skipn, H.
Qed.

Lemma mk_value_0_i64 t : type_ok t = true -> value_i64 (mk_value t 0).
Proof.
  destruct t as [| |mn mx|mn mx]; cbn [type_ok mk_value value_i64]; intros Ht; try exact I.
  all: apply type_ok_int in Ht as (H1 & _ & _); change (Z.of_N 0) with 0%Z; rewrite Z.add_0_l; exact H1.
Qed.

(** * Feeding chunks *)

Lemma bob_ok l : bytes_ok (bytes_of_bits l).
Proof. rewrite bob_num. apply le_bytes_ok. Qed.

Lemma bytes_ok_concat cs : bytes_ok (concat cs) -> Forall bytes_ok cs.
Proof.
  induction cs as [|c r IH]; intros H; [constructor|].
  cbn [concat] in H. apply Forall_app in H as [H1 H2]. constructor; auto.
Qed.

Lemma feed_chunks_gen t : type_ok t = true -> 0 < spec_bit_size t ->
  let w := N.to_nat (spec_bit_size t) in
  forall cs s rest acc,
  bsr_holds s rest -> (length rest < w)%nat -> Forall bytes_ok cs ->
  let L := rest ++ bits_of_bytes (concat cs) in
  Forall value_i64 (decode_bits_fuel (length L) t w L) ->
  exists s' rest', feed_chunks t cs s acc = Ok (s', acc ++ decode_bits_fuel (length L) t w L) /\
                   bsr_holds s' rest' /\ (length rest' < w)%nat.
Proof.
  intros Ht Hw0 w. assert (Hw : (0 < w)%nat) by (subst w; lia).
  induction cs as [|c r IH]; intros s rest acc Hh Hrest Hcs L Hall.
  - subst L. cbn [concat bits_of_bytes flat_map feed_chunks] in *. rewrite app_nil_r in *.
    exists s, rest. rewrite decode_group_nums, group_nums_short by lia. cbn [map].
    rewrite app_nil_r. auto.
  - inversion Hcs as [|? ? Hc Hr]; subst.
    cbn [feed_chunks].
    destruct (bsr_append_holds s rest c Hh Hc) as (s1 & Ha & Hh1). rewrite Ha.
    set (A := rest ++ bits_of_bytes c) in *.
    set (B := bits_of_bytes (concat r)).
    assert (HL : L = A ++ B).
    { subst L A B. cbn [concat]. rewrite bits_of_bytes_app, app_assoc. reflexivity. }
    rewrite HL in *. rewrite (decode_app t w A B Hw) in *.
    apply Forall_app in Hall as [HallA HallB].
    destruct (unpack_type_holds_i64 t s1 A Ht Hw0 Hh1 HallA) as (s2 & Hu & Hh2).
    fold w in Hu, Hh2. rewrite Hu.
    set (R := skipn (length A / w * w) A) in *.
    assert (HR : (length R < w)%nat).
    { subst R. rewrite skipn_length. apply mod_rest_lt. exact Hw. }
    destruct (IH s2 R (acc ++ decode_bits_fuel (length A) t w A) Hh2 HR Hr HallB)
      as (s' & rest' & Hf & Hh' & Hlt).
    exists s', rest'. rewrite Hf, <- app_assoc. auto.
Qed.

Theorem decode_any_cut : forall t vs (cs : list (list N)),
  type_ok t = true -> 0 < spec_bit_size t -> Forall (fun v => in_range t v = true) vs ->
  concat cs = spec_stream_bytes t vs ->
  exists s out, feed_chunks t cs bsr_new [] = Ok (s, out) /\ firstn (length vs) out = vs.
Proof.
  intros t vs cs Ht Hw0 Hvs Hcat.
  set (w := N.to_nat (spec_bit_size t)).
  assert (Hw : (0 < w)%nat) by (subst w; lia).
  assert (Hcs : Forall bytes_ok cs).
  { apply bytes_ok_concat. rewrite Hcat. apply bob_ok. }
  destruct (bits_of_bytes_bob (stream_bits t vs)) as [p Hp].
  pose proof (stream_bits_length t vs Hvs) as Hlen. fold w in Hlen.
  (* what the whole stream decodes to *)
  assert (Hdec : exists extra,
            decode_bits_fuel (length (bits_of_bytes (concat cs))) t w (bits_of_bytes (concat cs))
            = vs ++ extra /\ Forall value_i64 extra).
  { rewrite Hcat. unfold spec_stream_bytes. rewrite Hp.
    rewrite (decode_app t w _ _ Hw).
    rewrite Hlen, Nat.div_mul by lia. rewrite <- Hlen, skipn_all. cbn [app].
    pose proof (decode_stream_bits t vs [] Ht Hw0 Hvs ltac:(cbn [length]; lia)) as Hd.
    cbv zeta in Hd. rewrite app_nil_r in Hd. fold w in Hd. rewrite Hd.
    eexists; split; [reflexivity|].
    rewrite decode_group_nums. apply Forall_map.
    pose proof (group_nums_allfalse (length (repeat false p)) w _ (allfalse_repeat p)) as H0.
    revert H0. apply Forall_impl. intros u ->. apply mk_value_0_i64. exact Ht. }
  destruct Hdec as (extra & Hdec & Hextra).
  destruct (feed_chunks_gen t Ht Hw0 cs bsr_new [] [] bsr_new_holds ltac:(cbn [length]; lia) Hcs)
    as (s' & rest' & Hf & _).
  - cbn [app]. fold w. rewrite Hdec. apply Forall_app. split; [|exact Hextra].
    revert Hvs. apply Forall_impl. intros v Hv. apply (in_range_i64 t v Ht Hv).
  - cbn [app] in Hf. fold w in Hf. rewrite Hdec in Hf.
    exists s', (vs ++ extra). split; [exact Hf|].
    apply firstn_app_exact. reflexivity.
Qed.

(** The bytes the writer produces, cut arbitrarily, decode to what was written. *)
Corollary write_then_read_any_cut : forall t vs (cs : list (list N)) b,
  type_ok t = true -> 0 < spec_bit_size t -> Forall (fun v => in_range t v = true) vs ->
  write_values t vs bsw_new = Ok b -> concat cs = bsw_buffer b ->
  exists s out, feed_chunks t cs bsr_new [] = Ok (s, out) /\ firstn (length vs) out = vs.
Proof.
  intros t vs cs b Ht Hw0 Hvs Hw Hcat.
  destruct (writer_stream t vs Ht Hvs) as (b' & Hw' & _ & Hbuf).
  rewrite Hw in Hw'. injection Hw' as <-.
  apply decode_any_cut; try assumption. rewrite Hcat. exact Hbuf.
Qed.

Print Assumptions integer_bits_spec.
Print Assumptions spec_width_exact.
Print Assumptions bit_size_spec.
Print Assumptions bsw_new_holds.
Print Assumptions dtype_write_holds.
Print Assumptions get_full_bytes_holds.
Print Assumptions get_all_bytes_holds.
Print Assumptions writer_stream.
Print Assumptions bsr_new_holds.
Print Assumptions bsr_append_holds.
Print Assumptions bsr_extract_holds.
Print Assumptions unpack_type_total.
Print Assumptions unpack_type_holds_i64.
Print Assumptions unpack_type_holds_fits.
Print Assumptions unpack_type_holds_counterexample.
Print Assumptions decode_stream_bits.
Print Assumptions decode_any_cut.
Print Assumptions write_then_read_any_cut.
