(** C17 for the simple iterator: opening a simple iterator, setting its options
    and iterating (to the end, or stopping after a number of points) is a reader
    program that begins with an absolute seek and stops at the first failing
    page operation; hence, for any device contents and after any earlier program
    on the same reader, it returns what it returns on a freshly opened reader. *)
From Coq Require Import ZArith NArith Bool List.
From Flocq Require Import Binary Bits.
From E57 Require Import Base.Prelude Base.Floats Model.Device Model.PagedReader Spec.PageReadSpec Model.Prog
  Model.Record Model.Meta Model.QueueReader Model.FileBin Model.ReaderOpen Model.SimpleIter
  Proofs.PagedReaderCache Proofs.ReaderProgSem Proofs.ReaderProgStrict Proofs.ReaderProgAlter Proofs.ReaderSessions.

Section Simple.
  Variables (fcos fsin fasin : binary64 -> binary64) (fatan2 : binary64 -> binary64 -> binary64).

  (** a client that stops after at most [n] points *)
  Fixpoint simple_take (n : nat) (log_size : N) (it : simple_iter) (acc : list point) : rprog (list point) :=
    match n with
    | O => RRet acc
    | S k =>
        rbind (simple_next fcos fsin fasin fatan2 log_size it) (fun r =>
          match snd r with
          | Done => RRet acc
          | Item p => simple_take k log_size (fst r) (acc ++ [p])
          end)
    end.

  (** [pointcloud_simple], the six setters, then iterate: to the end, or at most [n] points *)
  Definition op_simple_all (fuel : nat) (log_size : N) (pc : pointcloud) (o : opts) : rprog (list point) :=
    simple_read_all fcos fsin fasin fatan2 fuel log_size pc o.
  Definition op_simple_take (n : nat) (log_size : N) (pc : pointcloud) (o : opts) : rprog (list point) :=
    rbind (simple_open pc o) (fun it => simple_take n log_size it []).

  Lemma strict_simple_new pc : strict (simple_new pc).
  Proof. unfold simple_new. destruct (prepare_transform (pc_transform pc)) as [rot tr]. strict_tac. Qed.

  Lemma strict_simple_open pc o : strict (simple_open pc o).
  Proof. unfold simple_open. apply strict_bind; [apply strict_simple_new|intros; constructor]. Qed.

  Lemma strict_simple_next log_size it : strict (simple_next fcos fsin fasin fatan2 log_size it).
  Proof. unfold simple_next. strict_tac. Qed.

  Lemma strict_simple_collect : forall fuel log_size it acc,
    strict (simple_collect fcos fsin fasin fatan2 fuel log_size it acc).
  Proof.
    induction fuel as [|f IH]; intros log_size it acc; cbn [simple_collect]; [constructor|].
    apply strict_bind; [apply strict_simple_next|]. intros [it' [|p]]; [constructor|apply IH].
  Qed.

  Lemma strict_simple_take : forall n log_size it acc, strict (simple_take n log_size it acc).
  Proof.
    induction n as [|n IH]; intros log_size it acc; cbn [simple_take]; [constructor|].
    apply strict_bind; [apply strict_simple_next|]. intros [it' [|p]]; cbn [fst snd]; [constructor|apply IH].
  Qed.

  Lemma strict_op_simple_all fuel ls pc o : strict (op_simple_all fuel ls pc o).
  Proof.
    unfold op_simple_all, simple_read_all. apply strict_bind; [apply strict_simple_open|intros; apply strict_simple_collect].
  Qed.

  Lemma strict_op_simple_take n ls pc o : strict (op_simple_take n ls pc o).
  Proof. unfold op_simple_take. apply strict_bind; [apply strict_simple_open|intros; apply strict_simple_take]. Qed.

  Lemma simple_open_seeks pc o : exists k, simple_open pc o = ROp (PrSeek (pc_file_offset pc)) k.
  Proof.
    unfold simple_open, simple_new. destruct (prepare_transform (pc_transform pc)) as [rot tr].
    unfold qr_new, r_seek. cbn [rbind]. eexists. reflexivity.
  Qed.

  Lemma op_simple_all_seeks fuel ls pc o : exists k, op_simple_all fuel ls pc o = ROp (PrSeek (pc_file_offset pc)) k.
  Proof.
    unfold op_simple_all, simple_read_all. destruct (simple_open_seeks pc o) as [k ->]. cbn [rbind]. eexists. reflexivity.
  Qed.

  Lemma op_simple_take_seeks n ls pc o : exists k, op_simple_take n ls pc o = ROp (PrSeek (pc_file_offset pc)) k.
  Proof.
    unfold op_simple_take. destruct (simple_open_seeks pc o) as [k ->]. cbn [rbind]. eexists. reflexivity.
  Qed.

  (** Simple iteration to the end, after ANY earlier program [q] on the same reader
      (complete, abandoned half-way or failed; any device contents). *)
  Theorem simple_history_independent :
    forall ps phys d1 s0 (Q : Type) (q : rprog Q) fuel ls pc o,
    pr_new ps (dev_init phys None) = (d1, Ok s0) ->
    snd (rrun (op_simple_all fuel ls pc o) (fst (rrun q s0))) = snd (rrun (op_simple_all fuel ls pc o) s0).
  Proof.
    intros. destruct (op_simple_all_seeks fuel ls pc o) as [k Hk].
    pose proof (strict_op_simple_all fuel ls pc o) as Hs. rewrite Hk in *.
    eapply history_independent_reachable; eassumption.
  Qed.

  (** ... and simple iteration abandoned after at most [n] points. *)
  Theorem simple_take_history_independent :
    forall ps phys d1 s0 (Q : Type) (q : rprog Q) n ls pc o,
    pr_new ps (dev_init phys None) = (d1, Ok s0) ->
    snd (rrun (op_simple_take n ls pc o) (fst (rrun q s0))) = snd (rrun (op_simple_take n ls pc o) s0).
  Proof.
    intros. destruct (op_simple_take_seeks n ls pc o) as [k Hk].
    pose proof (strict_op_simple_take n ls pc o) as Hs. rewrite Hk in *.
    eapply history_independent_reachable; eassumption.
  Qed.

  (** A partly consumed simple iterator followed by another operation: the
      earlier program is a simple iteration under any options abandoned after [n]
      points (possibly failed), the later one a raw iteration, a blob
      extraction or another simple iteration. *)
  Theorem after_partial_simple :
    forall ps phys d1 s0 n ls pc o fuel fo recs proto off ln pc' o',
    pr_new ps (dev_init phys None) = (d1, Ok s0) ->
    let s := fst (rrun (op_simple_take n ls pc o) s0) in
    snd (rrun (op_raw_all fuel ls fo recs proto) s) = snd (rrun (op_raw_all fuel ls fo recs proto) s0) /\
    snd (rrun (op_blob ls off ln) s) = snd (rrun (op_blob ls off ln) s0) /\
    snd (rrun (op_simple_all fuel ls pc' o') s) = snd (rrun (op_simple_all fuel ls pc' o') s0).
  Proof.
    intros ps phys d1 s0 n ls pc o fuel fo recs proto off ln pc' o' Hnew s. unfold s.
    split; [eapply raw_all_history_independent; exact Hnew|].
    split; [eapply blob_history_independent; exact Hnew|].
    eapply simple_history_independent; exact Hnew.
  Qed.
End Simple.

Print Assumptions simple_history_independent.
Print Assumptions after_partial_simple.
