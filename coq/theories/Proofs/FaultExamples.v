(** C16: the hypotheses of the fault theorems are satisfiable on a concrete
    non-trivial input (a file with one blob and a small XML text), and what the
    theorems promise is what happens there. *)
From E57 Require Import Base.Prelude Model.Crc Model.Device Model.PagedWriter Model.PagedReader Model.Prog
  Model.Record Model.PcWriter Model.QueueReader Model.FileBin Model.ReaderOpen.
From E57 Require Import Proofs.PagedWriterProofs Proofs.ReaderProgStrict Proofs.FaultSim Proofs.FaultWriter
  Proofs.FaultReader.

Definition ex_items : list item := [IBlob [1; 2; 3; 4; 5]].
Definition ex_xml : list N := [60; 97; 47; 62].

(* the fault-free file *)
Definition ex_file : list N :=
  d_bytes (pw_dev (fst (pw_drop (fst (wrun (fault_prog ex_items ex_xml) pw0))))).

Definition nrange (a n : nat) : list N := map N.of_nat (seq a n).

(* the writer program issues operations 1 .. 44; a fault at each of them makes it return Err;
   a fault at operation 45 fires inside Drop: the program returned Ok and the file is complete *)
Example writer_faults_surface :
  d_ops (pw_dev (fst (wrun (fault_prog ex_items ex_xml) pw0))) = 45 /\
  forallb (fun i => is_err (snd (wrun (fault_prog ex_items ex_xml) (pw0f i)))) (nrange 1 44) = true /\
  snd (wrun (fault_prog ex_items ex_xml) (pw0f 45)) = Ok tt /\
  d_bytes (pw_dev (fst (pw_drop (fst (wrun (fault_prog ex_items ex_xml) (pw0f 45)))))) = ex_file.
Proof. vm_compute. repeat split. Qed.

(* the reader entry points on that file: every operation index they issue *)
Example reader_faults_surface :
  len ex_file = 1024 /\
  d_ops (fst (ReaderOpen.reader_open (dev_init ex_file None))) = 4 /\
  is_ok (snd (ReaderOpen.reader_open (dev_init ex_file None))) = true /\
  map (fun i => class_of (snd (ReaderOpen.reader_open (dev_init ex_file (Some i))))) (nrange 0 5)
  = repeat (CErr ERead) 4 ++ [COk] /\
  d_ops (fst (validate_crc (dev_init ex_file None))) = 5 /\
  snd (validate_crc (dev_init ex_file None)) = Ok 1024 /\
  map (fun i => class_of (snd (validate_crc (dev_init ex_file (Some i))))) (nrange 0 6)
  = repeat (CErr ERead) 5 ++ [COk] /\
  d_ops (fst (ReaderOpen.raw_xml (dev_init ex_file None))) = 5 /\
  snd (ReaderOpen.raw_xml (dev_init ex_file None)) = Ok ex_xml /\
  map (fun i => class_of (snd (ReaderOpen.raw_xml (dev_init ex_file (Some i))))) (nrange 0 6)
  = repeat (CErr ERead) 5 ++ [COk].
Proof. vm_compute. repeat split. Qed.

(* a program on the opened reader: the open reads page 0 into the cache; a second file of two
   pages makes a later blob read touch the device again *)
Definition ex_items2 : list item := [IBlob (repeat 7 1500)].
Definition ex_file2 : list N :=
  d_bytes (pw_dev (fst (pw_drop (fst (wrun (fault_prog ex_items2 ex_xml) pw0))))).

(* the fault-free open issues operations 0 .. 5; operation 7 is issued by the blob read *)
Example rrun_fault_surfaces :
  let p := blob_read 2040 48 1500 in
  strict p /\
  match snd (ReaderOpen.reader_open (dev_init ex_file2 None)),
        snd (ReaderOpen.reader_open (dev_init ex_file2 (Some 7))) with
  | Ok (s, _, _), Ok (s', _, _) =>
      Some (d_ops (pr_dev s), d_ops (pr_dev (fst (rrun p s))), snd (rrun p s), snd (rrun p s'))
  | _, _ => None
  end = Some (6, 10, Ok (repeat 7 1500), Err ERead).
Proof.
  split; [apply strict_blob_read|]. vm_compute. reflexivity.
Qed.
