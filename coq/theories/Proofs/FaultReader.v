(** C16, part A, reader side: a strict reader program run on twin states, and
    the device-level entry points [reader_open], [validate_crc], [raw_xml]:
    a device fault at an operation issued during the call makes it return
    [Err]. *)
From E57 Require Import Base.Prelude Model.Crc Model.Device Model.PagedReader Model.Prog
  Model.Record Model.QueueReader Model.FileBin Model.ReaderOpen.
From E57 Require Import Proofs.ReaderProgStrict Proofs.FaultSim.
From Coq Require Import ZArith Lia ZifyN ZifyNat ZifyBool.
Local Open Scope monad_scope.

Local Arguments take : simpl never.
Local Arguments drop : simpl never.
Local Arguments slice : simpl never.
Local Arguments zeros : simpl never.
Local Arguments len : simpl never.

(** * Strict reader programs on twin states *)

Theorem rrun_sim : forall A (p : rprog A), strict p -> forall i s s', rtwin i s s' ->
  (rtwin i (fst (rrun p s)) (fst (rrun p s')) /\ snd (rrun p s') = snd (rrun p s)) \/
  (i < d_ops (pr_dev (fst (rrun p s'))) /\ exists e, snd (rrun p s') = Err e).
Proof.
  intros A p Hp. induction Hp as [a|e| |o k He _ Hk IH]; intros i s s' H; cbn [rrun].
  - left. split; [exact H|reflexivity].
  - left. split; [exact H|reflexivity].
  - left. split; [exact H|reflexivity].
  - destruct (prsim_step_op o i s s' H) as [[Ht Hr]|[Hlt [e E]]].
    + destruct (pr_step o s) as [s1 r]. destruct (pr_step o s') as [s1' r']. cbn [fst snd] in Ht, Hr.
      subst r'. apply IH. exact Ht.
    + destruct (pr_step o s') as [s1' r']. cbn [fst snd] in Hlt, E. subst r'.
      destruct (He e) as [e' E']. rewrite E'. cbn [rrun fst snd].
      right. split; [exact Hlt|]. exists e'. reflexivity.
Qed.

(** * Device-level functions: [dev -> dev * res X] *)

(* results equal up to a relation on the success values *)
Definition res_rel {X} (P : X -> X -> Prop) (r r' : res X) : Prop :=
  match r, r' with
  | Ok a, Ok a' => P a a'
  | Err e, Err e' => e = e'
  | Panic, Panic => True
  | _, _ => False
  end.

Definition fsim {X} (P : N -> X -> X -> Prop) (f : dev -> dev * res X) : Prop :=
  forall i d d', dtwin i d d' ->
  (dtwin i (fst (f d)) (fst (f d')) /\ res_rel (P i) (snd (f d)) (snd (f d'))) \/
  (i < d_ops (fst (f d')) /\ exists e, snd (f d') = Err e).

Lemma dsim_fsim A (m : M dev A) : dsim m -> fsim (fun _ => eq) m.
Proof.
  intros Hm i d d' H. destruct (Hm i d d' H) as [[Ht Hr]|Hf]; [left|right; exact Hf].
  split; [exact Ht|]. rewrite Hr. destruct (snd (m d)); cbn; auto.
Qed.

(* [PagedReader::new]: the new state contains the device it leaves *)
Definition new_rel (i : N) (s s' : pr) : Prop := rtwin i s s'.

Lemma pr_new_sim ps : fsim new_rel (pr_new ps).
Proof.
  intros i d d' H. unfold pr_new.
  destruct (MAX_PAGE_SIZE <? ps); [left; split; [exact H|reflexivity]|].
  destruct (ps <=? CHECKSUM_SIZE); [left; split; [exact H|reflexivity]|].
  destruct (dsim_seek_end i d d' H) as [[Ht Hr]|[Hlt [e E]]].
  - destruct (d_seek_end d) as [d1 r]. destruct (d_seek_end d') as [d1' r']. cbn [fst snd] in Ht, Hr. subst r'.
    destruct r as [phy|e|]; [|left; split; [exact Ht|reflexivity] ..].
    destruct (phy =? 0); [left; split; [exact Ht|reflexivity]|].
    destruct (negb _); [left; split; [exact Ht|reflexivity]|].
    left. cbn [fst snd res_rel]. split; [exact Ht|]. apply rtwin_mk. exact Ht.
  - destruct (d_seek_end d') as [d1' r']. cbn [fst snd] in Hlt, E. subst r'.
    right. cbn [fst snd]. split; [exact Hlt|]. exists e. reflexivity.
Qed.

(* the device a successful [pr_new] returns is the device inside the state *)
Lemma pr_new_dev ps d s : snd (pr_new ps d) = Ok s -> fst (pr_new ps d) = pr_dev s.
Proof.
  unfold pr_new.
  destruct (MAX_PAGE_SIZE <? ps); [discriminate|].
  destruct (ps <=? CHECKSUM_SIZE); [discriminate|].
  destruct (d_seek_end d) as [d1 [phy|e|]]; cbn [fst snd]; try discriminate.
  destruct (phy =? 0); [discriminate|]. destruct (negb _); [discriminate|].
  cbn [fst snd]. intros E. injection E as <-. reflexivity.
Qed.

(** the shape shared by the three entry points: a raw-device prefix, [pr_new]
    with the error relabelled, then a strict program on the new state *)
Definition open_shape {A B C} (pre : M dev A) (psz : A -> N) (p : A -> rprog B)
    (fin : pr -> res B -> res C) (d : dev) : dev * res C :=
  let '(d1, r) := pre d in
  match r with
  | Ok a =>
      let '(d2, r2) := pr_new (psz a) d1 in
      match res_relabel ERead r2 with
      | Ok s => let '(s1, r3) := rrun (p a) s in (pr_dev s1, fin s1 r3)
      | Err k => (d2, Err k)
      | Panic => (d2, Panic)
      end
  | Err k => (d1, Err k)
  | Panic => (d1, Panic)
  end.

Lemma open_shape_sim A B C (pre : M dev A) psz (p : A -> rprog B) (fin : pr -> res B -> res C)
    (P : N -> C -> C -> Prop) :
  dsim pre -> (forall a, strict (p a)) ->
  (forall s e, fin s (Err e) = Err e) ->
  (forall i s s' r, rtwin i s s' -> res_rel (P i) (fin s r) (fin s' r)) ->
  fsim P (open_shape pre psz p fin).
Proof.
  intros Hpre Hp Hfe Hfin i d d' H. unfold open_shape.
  destruct (Hpre i d d' H) as [[Ht Hr]|[Hlt [e E]]].
  - destruct (pre d) as [d1 r]. destruct (pre d') as [d1' r']. cbn [fst snd] in Ht, Hr. subst r'.
    destruct r as [a|e|]; [|left; split; [exact Ht|reflexivity] ..].
    destruct (pr_new_sim (psz a) i d1 d1' Ht) as [[Ht2 Hr2]|[Hlt2 [e2 E2]]].
    + destruct (pr_new (psz a) d1) as [d2 r2]. destruct (pr_new (psz a) d1') as [d2' r2'].
      cbn [fst snd] in Ht2, Hr2.
      destruct r2 as [s|e|]; destruct r2' as [s'|e'|]; cbn [res_rel] in Hr2; try contradiction;
        cbn [res_relabel]; [|left; split; [exact Ht2|reflexivity] ..].
      destruct (rrun_sim _ (p a) (Hp a) i s s' Hr2) as [[Ht3 Hr3]|[Hlt3 [e3 E3]]].
      * destruct (rrun (p a) s) as [s1 r3]. destruct (rrun (p a) s') as [s1' r3'].
        cbn [fst snd] in Ht3, Hr3. subst r3'. left. cbn [fst snd].
        split; [exact (proj1 Ht3)|apply Hfin; exact Ht3].
      * destruct (rrun (p a) s') as [s1' r3']. cbn [fst snd] in Hlt3, E3. subst r3'.
        right. cbn [fst snd]. split; [exact Hlt3|]. exists e3. apply Hfe.
    + destruct (pr_new (psz a) d1') as [d2' r2']. cbn [fst snd] in Hlt2, E2. subst r2'.
      cbn [res_relabel]. right. cbn [fst snd]. split; [exact Hlt2|]. exists ERead. reflexivity.
  - destruct (pre d') as [d1' r']. cbn [fst snd] in Hlt, E. subst r'.
    right. cbn [fst snd]. split; [exact Hlt|]. exists e. reflexivity.
Qed.

(** ** The raw-device prefixes *)

Lemma dsim_header_read : dsim header_read.
Proof.
  unfold header_read. apply dsim_bind; [apply dsim_relabel, dsim_read_exact|]. intros data. cbv zeta.
  repeat match goal with |- dsim (if ?c then _ else _) => destruct c end;
    first [apply dsim_fail|apply dsim_ret].
Qed.

Lemma dsim_get_u64 off : dsim (get_u64 off).
Proof.
  unfold get_u64. apply dsim_bind; [apply dsim_relabel, dsim_seek_start|intros _].
  apply dsim_bind; [apply dsim_relabel, dsim_read_exact|intros b]. apply dsim_ret.
Qed.

(** ** [reader_open] *)

(* results of [reader_open] equal up to the twin relation on the reader state inside *)
Definition open_rel (i : N) (x x' : pr * header * list N) : Prop :=
  rtwin i (fst (fst x)) (fst (fst x')) /\ snd (fst x') = snd (fst x) /\ snd x' = snd x.

Definition open_fin (s : pr) (r : res (header * list N)) : res (pr * header * list N) :=
  match r with Ok (h, xml) => Ok (s, h, xml) | Err k => Err k | Panic => Panic end.

Lemma reader_open_shape d :
  ReaderOpen.reader_open d = open_shape header_read h_page_size (fun _ => open_paged) open_fin d.
Proof.
  unfold ReaderOpen.reader_open, open_shape, open_fin.
  destruct (header_read d) as [d1 [h0|e|]]; try reflexivity.
  destruct (pr_new (h_page_size h0) d1) as [d2 r2].
  destruct (res_relabel ERead r2) as [s|e|]; try reflexivity.
  destruct (rrun open_paged s) as [s1 [[h xml]|e|]]; reflexivity.
Qed.

Theorem reader_open_sim : fsim open_rel ReaderOpen.reader_open.
Proof.
  intros i d d' H. rewrite !reader_open_shape. revert i d d' H.
  apply open_shape_sim.
  - exact dsim_header_read.
  - intros _. exact strict_open_paged.
  - reflexivity.
  - intros i s s' [[h xml]|e|] Ht; cbn [open_fin res_rel]; auto.
    unfold open_rel. cbn [fst snd]. auto.
Qed.

(** ** [validate_crc] *)

(* the loop length of [validate_crc] depends on the state [pr_new] returns, which twins share *)
Theorem validate_crc_sim : fsim (fun _ => eq) validate_crc.
Proof.
  intros i d d' H. unfold validate_crc.
  destruct (dsim_get_u64 40 i d d' H) as [[Ht Hr]|[Hlt [e E]]].
  - destruct (get_u64 40 d) as [d1 r]. destruct (get_u64 40 d') as [d1' r']. cbn [fst snd] in Ht, Hr. subst r'.
    destruct r as [ps|e|]; [|left; split; [exact Ht|reflexivity] ..].
    destruct (pr_new_sim ps i d1 d1' Ht) as [[Ht2 Hr2]|[Hlt2 [e2 E2]]].
    + destruct (pr_new ps d1) as [d2 r2]. destruct (pr_new ps d1') as [d2' r2'].
      cbn [fst snd] in Ht2, Hr2.
      destruct r2 as [s|e|]; destruct r2' as [s'|e'|]; cbn [res_rel] in Hr2; try contradiction;
        cbn [res_relabel]; [|left; split; [exact Ht2|cbn; auto] ..].
      assert (Epg : pr_pages s' = pr_pages s) by (destruct Hr2 as (_ & _ & _ & _ & Hpg & _); exact Hpg).
      rewrite Epg.
      set (p := validate_loop (S (S (N.to_nat (pr_pages s)))) ps).
      destruct (rrun_sim _ p (strict_validate_loop _ _) i s s' Hr2) as [[Ht3 Hr3]|[Hlt3 [e3 E3]]].
      * destruct (rrun p s) as [s1 r3]. destruct (rrun p s') as [s1' r3'].
        cbn [fst snd] in Ht3, Hr3. subst r3'. left. cbn [fst snd].
        split; [exact (proj1 Ht3)|]. destruct r3; cbn; auto.
      * destruct (rrun p s') as [s1' r3']. cbn [fst snd] in Hlt3, E3. subst r3'.
        right. cbn [fst snd res_map]. split; [exact Hlt3|]. exists e3. reflexivity.
    + destruct (pr_new ps d1') as [d2' r2']. cbn [fst snd] in Hlt2, E2. subst r2'.
      cbn [res_relabel]. right. cbn [fst snd]. split; [exact Hlt2|]. exists ERead. reflexivity.
  - destruct (get_u64 40 d') as [d1' r']. cbn [fst snd] in Hlt, E. subst r'.
    right. cbn [fst snd]. split; [exact Hlt|]. exists e. reflexivity.
Qed.

(** ** [raw_xml] *)

Lemma raw_xml_shape d :
  ReaderOpen.raw_xml d = open_shape (get_u64 40) (fun ps => ps) (fun _ => raw_xml_paged) (fun _ r => r) d.
Proof.
  unfold ReaderOpen.raw_xml, open_shape.
  destruct (get_u64 40 d) as [d1 [ps|e|]]; try reflexivity.
Qed.

Theorem raw_xml_sim : fsim (fun _ => eq) ReaderOpen.raw_xml.
Proof.
  intros i d d' H. rewrite !raw_xml_shape. revert i d d' H.
  apply open_shape_sim.
  - apply dsim_get_u64.
  - intros _. exact strict_raw_xml_paged.
  - reflexivity.
  - intros i s s' r _. destruct r; cbn; auto.
Qed.

(** * The fault surfaces *)

Lemma dtwin_init f i : dtwin i (dev_init f None) (dev_init f (Some i)).
Proof. apply dtwin_mk. lia. Qed.

Lemma fsim_surfaces X (P : N -> X -> X -> Prop) (g : dev -> dev * res X) : fsim P g ->
  forall f i, i < d_ops (fst (g (dev_init f None))) -> exists e, snd (g (dev_init f (Some i))) = Err e.
Proof.
  intros Hg f i Hlt. destruct (Hg i _ _ (dtwin_init f i)) as [[Ht _]|[_ He]]; [|exact He].
  pose proof (dtwin_ops_le _ _ _ Ht) as Hle. destruct Ht as (_ & _ & Ho & _). lia.
Qed.

(* a fault at an operation that [reader_open] issues makes it return Err *)
Theorem C16_fault_surfaces_open : forall f i,
  i < d_ops (fst (ReaderOpen.reader_open (dev_init f None))) ->
  exists e, snd (ReaderOpen.reader_open (dev_init f (Some i))) = Err e.
Proof. exact (fsim_surfaces _ _ _ reader_open_sim). Qed.

Theorem C16_fault_surfaces_validate_crc : forall f i,
  i < d_ops (fst (validate_crc (dev_init f None))) ->
  exists e, snd (validate_crc (dev_init f (Some i))) = Err e.
Proof. exact (fsim_surfaces _ _ _ validate_crc_sim). Qed.

Theorem C16_fault_surfaces_raw_xml : forall f i,
  i < d_ops (fst (ReaderOpen.raw_xml (dev_init f None))) ->
  exists e, snd (ReaderOpen.raw_xml (dev_init f (Some i))) = Err e.
Proof. exact (fsim_surfaces _ _ _ raw_xml_sim). Qed.

(* when both runs of [reader_open] succeed (the fault lies beyond it), they return the same header
   and XML and twin reader states *)
Lemma reader_open_ok_twin f i s h x s' h' x' :
  snd (ReaderOpen.reader_open (dev_init f None)) = Ok (s, h, x) ->
  snd (ReaderOpen.reader_open (dev_init f (Some i))) = Ok (s', h', x') ->
  rtwin i s s' /\ h' = h /\ x' = x.
Proof.
  intros E E'. destruct (reader_open_sim i _ _ (dtwin_init f i)) as [[_ Hr]|[_ [e He]]]; [|congruence].
  rewrite E, E' in Hr. exact Hr.
Qed.

(* a strict reader program on the state returned by a successful [reader_open]: a fault at an
   operation issued during the program makes it return Err *)
Theorem C16_fault_surfaces_rrun : forall f i A (p : rprog A) s h x s' h' x',
  strict p ->
  snd (ReaderOpen.reader_open (dev_init f None)) = Ok (s, h, x) ->
  snd (ReaderOpen.reader_open (dev_init f (Some i))) = Ok (s', h', x') ->
  i < d_ops (pr_dev (fst (rrun p s))) ->
  exists e, snd (rrun p s') = Err e.
Proof.
  intros f i A p s h x s' h' x' Hp E E' Hlt.
  destruct (reader_open_ok_twin f i s h x s' h' x' E E') as (Ht & _ & _).
  destruct (rrun_sim A p Hp i s s' Ht) as [[Ht2 _]|[_ He]]; [|exact He].
  pose proof (rtwin_ops_le _ _ _ Ht2) as Hle. destruct Ht2 as ((_ & _ & Ho & _) & _). lia.
Qed.

Print Assumptions rrun_sim.
Print Assumptions C16_fault_surfaces_open.
Print Assumptions C16_fault_surfaces_validate_crc.
Print Assumptions C16_fault_surfaces_raw_xml.
Print Assumptions C16_fault_surfaces_rrun.
