(** Writer API, part 9 (C19): copying a file through the library.
    A client reads what the reader reports for a file written by an accepted
    complete program P - the metadata [reader_view (fill_meta (ws_meta st))], the
    points of every point cloud, the bytes of the blobs of every image - and issues
    the calls [copy_calls] (harness/src/ext_copy.rs): new with the same GUID,
    coordinate metadata, creation time, every extension; per point cloud
    [add_pointcloud] with the reported GUID and prototype, every setter with the
    reported value, [add_point] for every raw point, finalize; per image [add_image],
    a setter for every field present, visual reference and projection with their
    bytes and masks, finalize.
    Shown here: the copy is again a complete program of acceptable calls, hence every
    call returns Ok (Proofs/WapiAccept.v); its final metadata equals the original's
    except for the file offsets of point clouds and image blobs; its point cloud items
    and image bytes are the original's; and the calls a client issues from the copy are
    the SAME calls: copying the copy is the identity.  The image bytes are those of the
    pure metadata semantics of Proofs/WapiAccept.v ([program_image_bytes]); that the
    reader returns exactly them for the image's blob descriptors is not proved here. *)
From Coq Require Import ZArith Lia Bool.
From Flocq Require Import Binary Bits.
From E57 Require Import Base.Prelude Base.Floats Spec.PageSpec Model.Device Model.PagedWriter Model.Prog Model.BsWrite
  Model.Record Model.PcWriter Model.FileBin Spec.BitSpec Model.Meta Model.MetaFile Model.XmlGen Model.WriterApi Model.WriterFull.
From E57 Require Import Proofs.PagedWriterLemmas Proofs.PagedWriterProofs Proofs.ProgTransfer Proofs.PcWriterLemmas
  Proofs.PcWriterProofs Proofs.WapiProg Proofs.WapiPc Proofs.WapiRules Proofs.WapiInv Proofs.WapiMain Proofs.WapiFullProg
  Proofs.WapiFullMeta Proofs.WapiAccept.
From Coq Require Import ZifyN ZifyNat ZifyBool.
Open Scope N_scope.

(** * 1. Acceptability on the abstract state *)

Definition aacc (a : astate) (c : wcall) : Prop :=
  match c with
  | NewWriter g => g <> []
  | RegisterExtension ns url =>
      name_wf ns /\ name_start_ok ns /\ url <> URL_XML /\ url <> URL_XMLNS /\ url <> [] /\ url <> URL_E57 /\
      ~ registered (a_exts a) ns /\ ~ (exists ns', In (mkExtension ns' url) (a_exts a))
  | AddBlob _ | AddImage _ | Finalize => a_fin a = false
  | AddPointcloud _ proto => a_fin a = false /\ representable_prototype (a_exts a) proto /\ packet_margin proto
  | PcAddPoint vs =>
      match a_sub a with APc p => ap_fin p = false /\ representable_point (ap_proto p) vs | _ => True end
  | PcFinalize =>
      match a_sub a with
      | APc p => ap_fin p = false /\ custom_limits_ok (ap_cil p) (ap_ccl p) (ap_desc p) = true
      | _ => True
      end
  | ImAddVisualReference _ _ _ _ _ => match a_sub a with AIm im fin g => fin = false | _ => True end
  | ImAddPinhole _ _ _ _ | ImAddSpherical _ _ _ _ | ImAddCylindrical _ _ _ _ =>
      match a_sub a with AIm im fin g => fin = false /\ im_projection im = None | _ => True end
  | ImFinalize =>
      match a_sub a with
      | AIm im fin g => fin = false /\ (im_visual_reference im <> None \/ im_projection im <> None)
      | _ => True
      end
  | _ => True
  end.

Definition not_im (c : wcall) : Prop :=
  match c with
  | AddImage _ | ImSet _ | ImAddVisualReference _ _ _ _ _ | ImAddPinhole _ _ _ _ | ImAddSpherical _ _ _ _
  | ImAddCylindrical _ _ _ _ | ImFinalize | ImDrop => False
  | _ => True
  end.

Lemma acc_abs st a c k : absr st a -> bnext (bstate_of st) c = Some k -> acceptable_call st c -> aacc a c.
Proof.
  intros (Ar & Ae & Ap & Ai & Af & Asub) Hb [Hrep Hx]. unfold bstate_of in Hb. unfold representable_call in Hrep.
  destruct (ws_open st).
  - destruct (ws_sub st) as [|ps|im fin], (a_sub a) as [|p|aim afin ag] eqn:Ea; try contradiction;
      destruct c; try discriminate Hb; cbn [aacc]; rewrite <- ?Ae, <- ?Af; try exact I; try exact Hrep; try exact Hx.
    + destruct Hrep as [H1 H2]. auto.
    + rewrite Ea. destruct Asub as (Bp & _ & _ & Bf & _). rewrite <- Bp, <- Bf. exact Hrep.
    + rewrite Ea. destruct Asub as (_ & _ & Bd & Bf & Bi & Bc & _). rewrite <- Bd, <- Bf, <- Bi, <- Bc. exact Hrep.
    + rewrite Ea. destruct Asub as [_ <-]. exact Hrep.
    + rewrite Ea. destruct Asub as [<- <-]. destruct Hrep as [H1 H2]. split; [exact H1|apply im_no_off_proj_none; exact H2].
    + rewrite Ea. destruct Asub as [<- <-]. destruct Hrep as [H1 H2]. split; [exact H1|apply im_no_off_proj_none; exact H2].
    + rewrite Ea. destruct Asub as [<- <-]. destruct Hrep as [H1 H2]. split; [exact H1|apply im_no_off_proj_none; exact H2].
    + rewrite Ea. destruct Asub as [<- <-]. destruct Hrep as [H1 H2]. split; [exact H1|].
      rewrite im_no_off_vis_none, im_no_off_proj_none. exact H2.
  - destruct c; try discriminate Hb. exact Hx.
Qed.

Lemma abs_acc st a c k : absr st a -> bnext (bstate_of st) c = Some k -> aacc a c -> acceptable_call st c.
Proof.
  intros (Ar & Ae & Ap & Ai & Af & Asub) Hb Ha. unfold bstate_of in Hb. unfold acceptable_call, representable_call.
  destruct (ws_open st).
  - destruct (ws_sub st) as [|ps|im fin], (a_sub a) as [|p|aim afin ag] eqn:Ea; try contradiction;
      destruct c; try discriminate Hb; cbn [aacc] in Ha; rewrite ?Ae, ?Af; try (split; [exact I|exact I]);
      try (split; [exact Ha|exact I]).
    + destruct Ha as (H1 & H2 & H3). auto.
    + rewrite Ea in Ha. destruct Asub as (Bp & _ & _ & Bf & _). rewrite Bp, Bf. split; [exact Ha|exact I].
    + rewrite Ea in Ha. destruct Asub as (_ & _ & Bd & Bf & Bi & Bc & _). rewrite Bd, Bf, Bi, Bc. split; [exact Ha|exact I].
    + rewrite Ea in Ha. destruct Asub as [_ ->]. split; [exact Ha|exact I].
    + rewrite Ea in Ha. destruct Asub as [<- ->]. destruct Ha as [H1 H2]. split; [|exact I].
      split; [exact H1|apply im_no_off_proj_none; exact H2].
    + rewrite Ea in Ha. destruct Asub as [<- ->]. destruct Ha as [H1 H2]. split; [|exact I].
      split; [exact H1|apply im_no_off_proj_none; exact H2].
    + rewrite Ea in Ha. destruct Asub as [<- ->]. destruct Ha as [H1 H2]. split; [|exact I].
      split; [exact H1|apply im_no_off_proj_none; exact H2].
    + rewrite Ea in Ha. destruct Asub as [<- ->]. destruct Ha as [H1 H2]. split; [|exact I]. split; [exact H1|].
      rewrite im_no_off_vis_none, im_no_off_proj_none in H2. exact H2.
  - destruct c; try discriminate Hb. destruct (ws_sub st); split; try exact I; exact Ha.
Qed.

(** * 2. What holds of the abstract state after accepted calls *)

Definition checks (exts : list extension) (proto : list record) : Prop :=
  validate_prototype proto = Ok tt /\ ext_validate_prototype proto exts = Ok tt /\
  (exists mpp, get_max_packet_points (proto_dtypes proto) = Ok mpp) /\ proto_i64 proto.
Definition pt_ok (proto : list record) (vs : list rvalue) : Prop :=
  values_ok (proto_dtypes proto) vs = true /\ Forall value_wf vs.
Definition fold_bounds (proto : list record) (pts : list (list rvalue)) (b : run_bounds) : run_bounds :=
  fold_left (fun b vs => fst (update_bounds proto vs b)) pts b.
(** the bounds, the record count of a finished descriptor are those of its points *)
Definition consistent (pc : pointcloud) (pts : list (list rvalue)) : Prop :=
  let bb := fold_bounds (pc_prototype pc) pts (bounds_new (pc_prototype pc)) in
  pc_cartesian_bounds pc = option_map cart_bounds_of (rb_cart bb) /\
  pc_spherical_bounds pc = option_map sph_bounds_of (rb_sph bb) /\
  pc_index_bounds pc = option_map idx_bounds_of (rb_idx bb) /\
  pc_records pc = len pts /\ pc_file_offset pc = 0 /\ exists g, pc_guid pc = Some g.
Definition pc_src_ok (exts : list extension) (x : pointcloud * list (list rvalue)) : Prop :=
  checks exts (pc_prototype (fst x)) /\ Forall (pt_ok (pc_prototype (fst x))) (snd x) /\ consistent (fst x) (snd x).
Definition ext_rep (e : extension) : Prop :=
  name_wf (e_namespace e) /\ name_start_ok (e_namespace e) /\
  e_url e <> URL_XML /\ e_url e <> URL_XMLNS /\ e_url e <> [] /\ e_url e <> URL_E57.
Definition exts_rep (exts : list extension) : Prop :=
  Forall ext_rep exts /\ NoDup (map e_namespace exts) /\ NoDup (map e_url exts).
Definition root_shape (lv : xstring) (r : root) : Prop :=
  rt_format r = rt_format root_default /\ rt_major_version r = 1%Z /\ rt_minor_version r = 0%Z /\
  rt_library_version r = Some lv /\ rt_guid r <> [].
Definition sub_ok (exts : list extension) (p : apc) : Prop :=
  checks exts (ap_proto p) /\ Forall (pt_ok (ap_proto p)) (ap_pts p) /\
  ap_bounds p = fold_bounds (ap_proto p) (ap_pts p) (bounds_new (ap_proto p)) /\
  pc_prototype (ap_desc p) = ap_proto p /\ exists g, pc_guid (ap_desc p) = Some g.
Definition good_pc (lv : xstring) (a : astate) : Prop :=
  root_shape lv (a_root a) /\ exts_rep (a_exts a) /\ Forall (pc_src_ok (a_exts a)) (a_pcs a) /\
  match a_sub a with APc p => ap_fin p = false -> sub_ok (a_exts a) p | _ => True end.

Lemma checks_mono exts e proto : checks exts proto -> checks (exts ++ [e]) proto.
Proof. intros (H1 & H2 & H3 & H4). split; [exact H1|]. split; [apply ext_validate_mono; exact H2|]. auto. Qed.

Lemma registered_in exts ns : registered exts ns <-> In ns (map e_namespace exts).
Proof.
  unfold registered. rewrite in_map_iff. split.
  - intros (u & Hin). exists (mkExtension ns u). auto.
  - intros ([n u] & He & Hin). cbn in He. subst n. eauto.
Qed.
Lemma url_in exts url : (exists ns, In (mkExtension ns url) exts) <-> In url (map e_url exts).
Proof.
  rewrite in_map_iff. split.
  - intros (n & Hin). exists (mkExtension n url). auto.
  - intros ([n u] & He & Hin). cbn in He. subst u. eauto.
Qed.

Lemma desc_finish_head d b off n :
  pc_guid (desc_finish d b off n) = pc_guid d /\ pc_file_offset (desc_finish d b off n) = off.
Proof. destruct d. split; reflexivity. Qed.

Lemma fold_bounds_snoc proto pts vs b :
  fold_bounds proto (pts ++ [vs]) b = fst (update_bounds proto vs (fold_bounds proto pts b)).
Proof. unfold fold_bounds. rewrite fold_left_app. reflexivity. Qed.

Lemma checks_of_rep exts proto : representable_prototype exts proto -> packet_margin proto -> proto_i64 proto ->
  checks exts proto.
Proof.
  intros Hr Hm Hi. split; [apply (validate_prototype_complete exts); exact Hr|]. split.
  - apply ext_validate_prototype_complete.
    destruct Hr as (_ & _ & _ & _ & _ & _ & _ & _ & _ & _ & _ & _ & _ & _ & _ & _ & _ & _ & H & _). exact H.
  - split; [apply packet_margin_iff; exact Hm|exact Hi].
Qed.

Lemma rep_of_checks exts proto : checks exts proto -> representable_prototype exts proto /\ packet_margin proto.
Proof.
  intros (H1 & H2 & (mpp & H3) & _). split; [|apply packet_margin_iff; eauto].
  pose proof (validate_prototype_ok proto H1) as R. unfold rules_part in R.
  destruct R as (R1 & R2 & R3 & R4 & R5 & R6 & R7 & R8 & R9 & R10 & R11 & R12 & R13 & R14 & R15 & R16 & R17 & R18 & _ & R19).
  unfold representable_prototype. repeat (split; [assumption|]).
  split; [apply (ext_validate_prototype_ok proto exts H2)|split; [apply (capacity_fits proto mpp H3)|exact R19]].
Qed.

Theorem good_pc_step lv a c : good_pc lv a -> aacc a c -> call_wf c -> good_pc lv (astep lv a c).
Proof.
  intros (Hr & He & Hp & Hs) Ha Hwf. destruct c; cbn [astep aacc call_wf] in *;
    try (split; [exact Hr|split; [exact He|split; [exact Hp|exact Hs]]]);
    unfold good_pc, set_asub; cbn [a_root a_exts a_pcs a_sub].
  - (* NewWriter *) split; [repeat split; try reflexivity; exact Ha|]. split; [repeat constructor|]. split; [constructor|exact I].
  - (* SetCoordinateMetadata *) destruct (a_root a). cbn in *. split; [exact Hr|]. auto.
  - (* SetCreation *) destruct (a_root a). cbn in *. split; [exact Hr|]. auto.
  - (* RegisterExtension *)
    destruct Ha as (N1 & N2 & U1 & U2 & U3 & U4 & Hn & Hu). cbn [a_root a_exts a_pcs a_sub]. split; [exact Hr|].
    destruct He as (F & Nn & Nu). split.
    { split; [apply Forall_app; split; [exact F|constructor; [exact (conj N1 (conj N2 (conj U1 (conj U2 (conj U3 U4)))))|constructor]]|].
      rewrite !map_app. cbn [map e_namespace e_url].
      split; apply NoDup_app_snoc; try assumption; [rewrite <- registered_in; exact Hn|rewrite <- url_in; exact Hu]. }
    split.
    { rewrite Forall_forall in *. intros x Hx. destruct (Hp x Hx) as (C1 & C2 & C3).
      split; [apply checks_mono; exact C1|auto]. }
    destruct (a_sub a) as [|p|]; try exact I. intros Hf. destruct (Hs Hf) as (C1 & C2). split; [apply checks_mono; exact C1|exact C2].
  - (* AddPointcloud *)
    destruct Ha as (_ & Hrp & Hm). cbn [set_asub a_root a_exts a_pcs a_sub]. split; [exact Hr|]. split; [exact He|].
    split; [exact Hp|]. intros _. cbn [ap_proto ap_pts ap_bounds ap_desc].
    split; [apply checks_of_rep; assumption|]. split; [constructor|]. split; [reflexivity|]. split; [reflexivity|].
    exists guid. reflexivity.
  - (* PcSet *)
    destruct (a_sub a) as [|p|] eqn:Ea; try (split; [exact Hr|split; [exact He|split; [exact Hp|rewrite Ea; exact I]]]).
    cbn [set_asub a_root a_exts a_pcs a_sub]. split; [exact Hr|]. split; [exact He|]. split; [exact Hp|].
    cbn [ap_fin ap_proto ap_pts ap_bounds ap_desc]. intros Hf. destruct (Hs Hf) as (C1 & C2 & C3 & C4 & g & C5).
    destruct (pc_set_keeps f (ap_desc p)) as [K1 K2]. unfold sub_ok. cbn [ap_fin ap_proto ap_pts ap_bounds ap_desc].
    rewrite K1, K2. eauto 8.
  - (* PcAddPoint *)
    destruct (a_sub a) as [|p|] eqn:Ea; try (split; [exact Hr|split; [exact He|split; [exact Hp|rewrite Ea; exact I]]]).
    destruct Ha as [Hf Hrp]. cbn [set_asub a_root a_exts a_pcs a_sub]. split; [exact Hr|]. split; [exact He|].
    split; [exact Hp|]. intros _. destruct (Hs Hf) as (C1 & C2 & C3 & C4 & C5). unfold sub_ok.
    cbn [ap_fin ap_proto ap_pts ap_bounds ap_desc]. split; [exact C1|].
    split; [apply Forall_app; split; [exact C2|constructor; [split; [apply representable_values_ok; exact Hrp|exact Hwf]|constructor]]|].
    split; [rewrite fold_bounds_snoc, <- C3; reflexivity|]. auto.
  - (* PcFinalize *)
    destruct (a_sub a) as [|p|] eqn:Ea; try (split; [exact Hr|split; [exact He|split; [exact Hp|rewrite Ea; exact I]]]).
    destruct Ha as [Hf _]. destruct (Hs Hf) as (C1 & C2 & C3 & C4 & g & C5).
    cbn [a_root a_exts a_pcs a_sub]. split; [exact Hr|]. split; [exact He|]. split; [|intros H; discriminate H].
    apply Forall_app. split; [exact Hp|]. constructor; [|constructor]. unfold pc_src_ok. cbn [fst snd].
    destruct (desc_finish_bounds (ap_desc p) (ap_bounds p) 0 (len (ap_pts p))) as (D1 & D2 & D3 & D4 & _ & _ & D7).
    destruct (desc_finish_head (ap_desc p) (ap_bounds p) 0 (len (ap_pts p))) as (D8 & D9).
    rewrite D7, C4. split; [exact C1|]. split; [exact C2|]. unfold consistent. cbv zeta. rewrite D7, C4, <- C3, D1, D2, D3, D4, D8, D9.
    repeat (split; [reflexivity|]). eauto.
  - (* PcDrop *) auto.
  - (* AddImage *) auto.
  - destruct (a_sub a) eqn:Ea; cbn [a_root a_exts a_pcs a_sub]; rewrite ?Ea; auto.
  - destruct (a_sub a) eqn:Ea; cbn [a_root a_exts a_pcs a_sub]; rewrite ?Ea; auto.
  - destruct (a_sub a) eqn:Ea; cbn [aproj a_root a_exts a_pcs a_sub]; rewrite ?Ea; auto.
  - destruct (a_sub a) eqn:Ea; cbn [aproj a_root a_exts a_pcs a_sub]; rewrite ?Ea; auto.
  - destruct (a_sub a) eqn:Ea; cbn [aproj a_root a_exts a_pcs a_sub]; rewrite ?Ea; auto.
  - destruct (a_sub a) eqn:Ea; cbn [a_root a_exts a_pcs a_sub]; rewrite ?Ea; auto.
  - (* ImDrop *) auto.
Qed.

(** ** images: the blobs of a representation are those of the bytes handed over *)
Definition rep_blobs_vr (v : visual_reference) : blob * option blob := (ib_data (vr_blob v), vr_mask v).
Definition rep_blobs_proj (p : projection) : blob * option blob :=
  match p with
  | PPinhole x => (ib_data (ph_blob x), ph_mask x)
  | PSpherical x => (ib_data (si_blob x), si_mask x)
  | PCylindrical x => (ib_data (ci_blob x), ci_mask x)
  end.
Definition rep_ok (bs : option (blob * option blob)) (g : option rep_bytes) : Prop :=
  match bs, g with
  | Some (b, m), Some (d, mk) => b = ablob d /\ m = option_map ablob mk
  | None, None => True
  | _, _ => False
  end.
Definition ghost_ok (im : image) (g : im_ghost) : Prop :=
  rep_ok (option_map rep_blobs_vr (im_visual_reference im)) (fst g) /\
  rep_ok (option_map rep_blobs_proj (im_projection im)) (snd g) /\ exists gu, im_guid im = Some gu.
Definition im_src_ok (x : image * im_ghost) : Prop :=
  ghost_ok (fst x) (snd x) /\ (im_visual_reference (fst x) <> None \/ im_projection (fst x) <> None).
Definition good_im (a : astate) : Prop :=
  Forall im_src_ok (a_imgs a) /\
  match a_sub a with AIm im fin g => fin = false -> ghost_ok im g | _ => True end.

Lemma good_im_step lv a c : good_im a -> aacc a c -> good_im (astep lv a c).
Proof.
  intros (Hi & Hs) Ha. unfold good_im.
  destruct (a_sub a) as [|p|im fin g] eqn:Ea; destruct c; cbn [astep aacc aproj] in *; rewrite ?Ea in *; unfold set_asub;
    try destruct (a_root a); cbn [a_imgs a_sub]; rewrite ?Ea;
    try (split; [assumption|first [exact I|assumption]]);
    try (split; [constructor|exact I]);
    try (split; [exact Hi|intros _; split; [exact I|split; [exact I|eexists; reflexivity]]]).
  - (* ImSet *) split; [exact Hi|]. intros Hf. destruct (Hs Hf) as (G1 & G2 & gu & G3).
    destruct im, f; cbn in *; repeat split; eauto.
  - (* visual *) split; [exact Hi|]. intros _. destruct (Hs Ha) as (G1 & G2 & gu & G3). destruct im; cbn in *. repeat split; eauto.
  - split; [exact Hi|]. intros _. destruct Ha as [Hf Hp]. destruct (Hs Hf) as (G1 & G2 & gu & G3).
    destruct im; cbn in *. repeat split; eauto.
  - split; [exact Hi|]. intros _. destruct Ha as [Hf Hp]. destruct (Hs Hf) as (G1 & G2 & gu & G3).
    destruct im; cbn in *. repeat split; eauto.
  - split; [exact Hi|]. intros _. destruct Ha as [Hf Hp]. destruct (Hs Hf) as (G1 & G2 & gu & G3).
    destruct im; cbn in *. repeat split; eauto.
  - (* ImFinalize *) destruct Ha as [Hf Hany].
    split; [|intros H; discriminate H]. apply Forall_app. split; [exact Hi|]. constructor; [|constructor].
    split; [exact (Hs Hf)|exact Hany].
Qed.

Definition good (lv : xstring) (a : astate) : Prop := good_pc lv a /\ good_im a.
Theorem good_step lv a c : good lv a -> aacc a c -> call_wf c -> good lv (astep lv a c).
Proof. intros [H1 H2] Ha Hwf. split; [apply good_pc_step; assumption|apply good_im_step; assumption]. Qed.

(** * 3. Real runs and abstract runs *)

Fixpoint aacc_calls (lv : xstring) (a : astate) (calls : list wcall) : Prop :=
  match calls with
  | [] => True
  | c :: r => aacc a c /\ aacc_calls lv (astep lv a c) r
  end.

Section Runs.
Variable gen_xml : file_meta -> res (list N).
Variable lib_version : xstring.
Hypothesis gen_xml_ok : forall m, rt_guid (fm_root m) <> [] -> exists xml, gen_xml m = Ok xml.
Notation step := (wapi_step gen_xml lib_version).
Notation run := (wapi_run gen_xml lib_version).
Notation ACC := (acceptable_calls gen_xml lib_version).

(** the abstract state after real, acceptable calls is [good] *)
Lemma follow_run : forall calls st l a, ws_inv st l -> guid_inv st -> Forall call_wf calls ->
  borrow_ok (bstate_of st) calls -> ACC st l calls -> absr st a -> good lib_version a ->
  good lib_version (arun lib_version a calls).
Proof.
  induction calls as [|c r IH]; intros st l a Hinv Hg Hwf Hb Ha Habs Hgood; [exact Hgood|].
  inversion Hwf as [|? ? Hc Hr]; subst. cbn [borrow_ok] in Hb.
  destruct (bnext (bstate_of st) c) as [k'|] eqn:Ek; [|destruct Hb].
  cbn [acceptable_calls] in Ha. destruct Ha as [Ha1 Ha2].
  destruct (accept_step_abs gen_xml lib_version gen_xml_ok st l c k' a Hinv Hg Hc Ek Ha1 Habs)
    as (l1 & st1 & x & Hrun1 & Hx & Hinv1 & Hle1 & Hg1 & Hk1 & Habs1).
  rewrite Hrun1 in Ha2. rewrite <- Hk1 in Hb. cbn [arun].
  apply (IH st1 l1 _ Hinv1 Hg1 Hr Hb Ha2 Habs1).
  apply good_step; [exact Hgood|apply (acc_abs st a c k' Habs Ek Ha1)|exact Hc].
Qed.

(** calls that are acceptable on the abstract state are acceptable on the real one *)
Lemma lift_acc : forall calls st l a, ws_inv st l -> guid_inv st -> Forall call_wf calls ->
  borrow_ok (bstate_of st) calls -> absr st a -> aacc_calls lib_version a calls ->
  ACC st l calls.
Proof.
  induction calls as [|c r IH]; intros st l a Hinv Hg Hwf Hb Habs Ha; [exact I|].
  inversion Hwf as [|? ? Hc Hr]; subst. cbn [borrow_ok] in Hb.
  destruct (bnext (bstate_of st) c) as [k'|] eqn:Ek; [|destruct Hb].
  cbn [aacc_calls] in Ha. destruct Ha as [Ha1 Ha2].
  pose proof (abs_acc st a c k' Habs Ek Ha1) as Hacc.
  destruct (accept_step_abs gen_xml lib_version gen_xml_ok st l c k' a Hinv Hg Hc Ek Hacc Habs)
    as (l1 & st1 & x & Hrun1 & Hx & Hinv1 & Hle1 & Hg1 & Hk1 & Habs1).
  cbn [acceptable_calls]. split; [exact Hacc|]. rewrite Hrun1. rewrite <- Hk1 in Hb.
  apply (IH st1 l1 _ Hinv1 Hg1 Hr Hb Habs1 Ha2).
Qed.

End Runs.

Lemma arun_app lv a c1 c2 : arun lv a (c1 ++ c2) = arun lv (arun lv a c1) c2.
Proof. revert a. induction c1 as [|c r IH]; intros a; [reflexivity|]. cbn [app arun]. apply IH. Qed.
Lemma aacc_calls_app lv a c1 c2 : aacc_calls lv a (c1 ++ c2) <-> aacc_calls lv a c1 /\ aacc_calls lv (arun lv a c1) c2.
Proof.
  revert a. induction c1 as [|c r IH]; intros a; cbn [app aacc_calls arun]; [tauto|]. rewrite IH. tauto.
Qed.

(** * 4. Filling in the float texts twice; the validators under [fill_rec] *)

Lemma canon64_idem b : canon64 (canon64 b) = canon64 b.
Proof.
  unfold canon64.
  destruct ((N.land b 9218868437227405312 =? 9218868437227405312) && negb (N.land b 4503599627370495 =? 0)) eqn:E;
    [reflexivity|rewrite E; reflexivity].
Qed.
Lemma canon32_idem b : canon32 (canon32 b) = canon32 b.
Proof.
  unfold canon32.
  destruct ((N.land b 2139095040 =? 2139095040) && negb (N.land b 8388607 =? 0)) eqn:E;
    [reflexivity|rewrite E; reflexivity].
Qed.

Section Fill2.
Variables fmt64 fmt32 : N -> xstring.
(** Rust's Display prints every NaN as "NaN", whatever sign and payload *)
Hypothesis nan_text64 : forall b, fmt64 (canon64 b) = fmt64 b.
Hypothesis nan_text32 : forall b, fmt32 (canon32 b) = fmt32 b.

Notation f64 := (fill64 fmt64).
Notation f32 := (fill32 fmt32).

Lemma fill64_idem f : f64 (f64 f) = f64 f.
Proof. unfold fill64. cbn [f64_bits]. rewrite canon64_idem, nan_text64. reflexivity. Qed.
Lemma fill32_idem f : f32 (f32 f) = f32 f.
Proof. unfold fill32. cbn [f32_bits]. rewrite canon32_idem, nan_text32. reflexivity. Qed.
Lemma omap_idem {A} (g : A -> A) (o : option A) : (forall x, g (g x) = g x) -> option_map g (option_map g o) = option_map g o.
Proof. intros H. destruct o; cbn; [rewrite H|]; reflexivity. Qed.
Lemma fill_dt_idem d : fill_dt fmt64 (fill_dt fmt64 d) = fill_dt fmt64 d.
Proof. unfold fill_dt. cbn. rewrite fill64_idem. reflexivity. Qed.
Lemma fill_tr_idem t : fill_tr fmt64 (fill_tr fmt64 t) = fill_tr fmt64 t.
Proof. unfold fill_tr. cbn. rewrite !fill64_idem. reflexivity. Qed.
Lemma fill_lv_idem v : fill_lv fmt64 fmt32 (fill_lv fmt64 fmt32 v) = fill_lv fmt64 fmt32 v.
Proof. destruct v; cbn; rewrite ?fill64_idem, ?fill32_idem; reflexivity. Qed.
Lemma fill_il_idem l : fill_il fmt64 fmt32 (fill_il fmt64 fmt32 l) = fill_il fmt64 fmt32 l.
Proof. unfold fill_il. cbn. rewrite !(omap_idem _ _ fill_lv_idem). reflexivity. Qed.
Lemma fill_cl_idem l : fill_cl fmt64 fmt32 (fill_cl fmt64 fmt32 l) = fill_cl fmt64 fmt32 l.
Proof. unfold fill_cl. cbn. rewrite !(omap_idem _ _ fill_lv_idem). reflexivity. Qed.
Lemma fill_cb_idem l : fill_cb fmt64 (fill_cb fmt64 l) = fill_cb fmt64 l.
Proof. unfold fill_cb. cbn. rewrite !(omap_idem _ _ fill64_idem). reflexivity. Qed.
Lemma fill_sb_idem l : fill_sb fmt64 (fill_sb fmt64 l) = fill_sb fmt64 l.
Proof. unfold fill_sb. cbn. rewrite !(omap_idem _ _ fill64_idem). reflexivity. Qed.
Lemma fill_type_idem t : fill_type fmt64 fmt32 (fill_type fmt64 fmt32 t) = fill_type fmt64 fmt32 t.
Proof.
  destruct t; cbn; rewrite ?(omap_idem _ _ fill64_idem), ?(omap_idem _ _ fill32_idem), ?fill64_idem; reflexivity.
Qed.
Lemma fill_rec_idem r : fill_rec fmt64 fmt32 (fill_rec fmt64 fmt32 r) = fill_rec fmt64 fmt32 r.
Proof. unfold fill_rec. cbn. rewrite fill_type_idem. reflexivity. Qed.
Lemma fill_proto_idem p : map (fill_rec fmt64 fmt32) (map (fill_rec fmt64 fmt32) p) = map (fill_rec fmt64 fmt32) p.
Proof. rewrite map_map. apply map_ext. apply fill_rec_idem. Qed.

Notation FR := (fill_rec fmt64 fmt32).
Notation FT := (fill_type fmt64 fmt32).

Lemma contains_fill p n : contains (map FR p) n = contains p n.
Proof. unfold contains. induction p as [|r p IH]; [reflexivity|]. cbn [map existsb]. rewrite IH. reflexivity. Qed.
Lemma get_rec_fill p n : get_rec (map FR p) n = option_map FR (get_rec p n).
Proof.
  unfold get_rec. induction p as [|r p IH]; [reflexivity|]. cbn [map find]. change (r_name (FR r)) with (r_name r).
  destruct (name_eqb (r_name r) n); [reflexivity|exact IH].
Qed.
Lemma int_type_fill t : is_integer_type (FT t) = is_integer_type t.
Proof. destruct t; reflexivity. Qed.
Lemma int_range_fill t lo hi : is_integer_range (FT t) lo hi = is_integer_range t lo hi.
Proof. destruct t; reflexivity. Qed.
Lemma validate_flag_fill p f c h : validate_flag (map FR p) f c h = validate_flag p f c h.
Proof.
  unfold validate_flag. rewrite get_rec_fill, contains_fill. destruct (get_rec p f) as [r|]; [|reflexivity].
  cbn [option_map]. change (r_type (FR r)) with (FT (r_type r)). rewrite int_range_fill. reflexivity.
Qed.
Lemma int_present_fill p n : integer_if_present (map FR p) n = integer_if_present p n.
Proof.
  unfold integer_if_present. rewrite get_rec_fill. destruct (get_rec p n) as [r|]; [|reflexivity].
  cbn [option_map]. change (r_type (FR r)) with (FT (r_type r)). rewrite int_type_fill. reflexivity.
Qed.
Lemma not_int_present_fill p n : not_integer_if_present (map FR p) n = not_integer_if_present p n.
Proof.
  unfold not_integer_if_present. rewrite get_rec_fill. destruct (get_rec p n) as [r|]; [|reflexivity].
  cbn [option_map]. change (r_type (FR r)) with (FT (r_type r)). rewrite int_type_fill. reflexivity.
Qed.
Lemma nodup_fill p : nodup_names (map FR p) = nodup_names p.
Proof. induction p as [|r p IH]; [reflexivity|]. cbn [map nodup_names]. rewrite contains_fill, IH. reflexivity. Qed.
Lemma range_fill p : forallb (fun r => range_nonempty (r_type r)) (map FR p) = forallb (fun r => range_nonempty (r_type r)) p.
Proof.
  induction p as [|r p IH]; [reflexivity|]. cbn [map forallb]. rewrite IH. f_equal. destruct r as [n t]. destruct t; reflexivity.
Qed.
(** scale and offset of scaled integers (they enter the bounds) and the limits of float records
    (they are compared by the prototype check; an accepted prototype has no NaN there at all) are
    not NaNs with a payload *)
Definition proto_canonical (p : list record) : Prop :=
  forall r, In r p ->
    match r_type r with
    | DScaledInteger _ _ s o => canon64 (f64_bits s) = f64_bits s /\ canon64 (f64_bits o) = f64_bits o
    | DSingle mn mx => (forall x, mn = Some x -> canon32 (f32_bits x) = f32_bits x) /\
                       (forall x, mx = Some x -> canon32 (f32_bits x) = f32_bits x)
    | DDouble mn mx => (forall x, mn = Some x -> canon64 (f64_bits x) = f64_bits x) /\
                       (forall x, mx = Some x -> canon64 (f64_bits x) = f64_bits x)
    | _ => True
    end.

Lemma flimits_fill p : proto_canonical p ->
  forallb (fun r => float_limits_ok (r_type r)) (map FR p) = forallb (fun r => float_limits_ok (r_type r)) p.
Proof.
  induction p as [|r p IH]; intros Hc; [reflexivity|]. cbn [map forallb].
  rewrite IH by (intros q Hq; apply Hc; right; exact Hq). f_equal.
  specialize (Hc r (or_introl eq_refl)). destruct r as [n t]. cbn [r_type fill_rec] in *.
  destruct t as [mn mx|mn mx| |]; try reflexivity; destruct Hc as [C1 C2]; cbn [fill_type float_limits_ok]; f_equal.
  - destruct mn as [x|]; [|reflexivity]. cbn. unfold f64_of_t32, fill32. cbn. rewrite (C1 x eq_refl). reflexivity.
  - destruct mx as [x|]; [|reflexivity]. cbn. unfold f64_of_t32, fill32. cbn. rewrite (C2 x eq_refl). reflexivity.
  - destruct mn as [x|]; [|reflexivity]. cbn. unfold f64_of_t64, fill64. cbn. rewrite (C1 x eq_refl). reflexivity.
  - destruct mx as [x|]; [|reflexivity]. cbn. unfold f64_of_t64, fill64. cbn. rewrite (C2 x eq_refl). reflexivity.
Qed.

Lemma validate_prototype_fill p : proto_canonical p -> validate_prototype (map FR p) = validate_prototype p.
Proof.
  intros Hcan.
  unfold validate_prototype, validate_cartesian, validate_spherical, validate_color, validate_return, count3.
  rewrite !validate_flag_fill, !int_present_fill, !not_int_present_fill, !contains_fill, nodup_fill, range_fill, (flimits_fill p Hcan). reflexivity.
Qed.
Lemma ext_validate_fill exts : forall p, ext_validate_prototype (map FR p) exts = ext_validate_prototype p exts.
Proof.
  induction p as [|r p IH]; [reflexivity|]. cbn [map ext_validate_prototype]. change (r_name (FR r)) with (r_name r).
  rewrite IH. reflexivity.
Qed.
Lemma dtypes_fill p : proto_dtypes (map FR p) = proto_dtypes p.
Proof.
  unfold proto_dtypes. rewrite map_map. apply map_ext. intros r. unfold rec_dtype. destruct r as [n t]. destruct t; reflexivity.
Qed.
Lemma i64_fill p : proto_i64 p -> proto_i64 (map FR p).
Proof.
  intros H q Hq. apply in_map_iff in Hq as (r & <- & Hr). specialize (H r Hr). destruct r as [n t]. destruct t; exact H.
Qed.
Lemma checks_fill exts p : proto_canonical p -> checks exts p -> checks exts (map FR p).
Proof.
  intros Hcan (H1 & H2 & H3 & H4). unfold checks. rewrite (validate_prototype_fill p Hcan), ext_validate_fill, dtypes_fill.
  auto using i64_fill.
Qed.
Lemma bounds_new_fill p : bounds_new (map FR p) = bounds_new p.
Proof. unfold bounds_new. rewrite !contains_fill. reflexivity. Qed.

Lemma update_bounds_fill : forall p vs b, proto_canonical p -> update_bounds (map FR p) vs b = update_bounds p vs b.
Proof.
  induction p as [|r p IH]; intros vs b Hc; [reflexivity|]. cbn [map update_bounds]. destruct vs as [|v vr]; [reflexivity|].
  assert (H1 : update_one (FR r) v b = update_one r v b).
  { unfold update_one. change (r_name (FR r)) with (r_name r). change (r_type (FR r)) with (FT (r_type r)).
    specialize (Hc r (or_introl eq_refl)).
    assert (Hf : to_f64 v (FT (r_type r)) = to_f64 v (r_type r)).
    { destruct v; try reflexivity. destruct (r_type r); try reflexivity. destruct Hc as [C1 C2].
      cbn [fill_type to_f64]. unfold f64_of_t, fill64. cbn [f64_bits]. rewrite C1, C2. reflexivity. }
    assert (Hi : to_i64 v (FT (r_type r)) = to_i64 v (r_type r)) by (destruct v, (r_type r); reflexivity).
    rewrite Hf, Hi. reflexivity. }
  rewrite H1. destruct (update_one r v b) as [b1 [[]|k|]]; try reflexivity.
  apply IH. intros q Hq. apply Hc. right. exact Hq.
Qed.
Lemma fold_bounds_fill p pts b : proto_canonical p -> fold_bounds (map FR p) pts b = fold_bounds p pts b.
Proof.
  intros Hc. unfold fold_bounds. revert b. induction pts as [|vs pts IH]; intros b; [reflexivity|].
  cbn [fold_left]. rewrite update_bounds_fill by exact Hc. apply IH.
Qed.

End Fill2.

(** * 5. The copying client *)

Definition guid_of (pc : pointcloud) : xstring := match pc_guid pc with Some g => g | None => [] end.
(** every setter of the point cloud writer, with the value the reader reports *)
Definition pc_fields (pc : pointcloud) : list pc_field :=
  [PfName (pc_name pc); PfDescription (pc_description pc); PfOriginalGuids (pc_original_guids pc);
   PfTransform (pc_transform pc); PfAcquisitionStart (pc_acquisition_start pc); PfAcquisitionEnd (pc_acquisition_end pc);
   PfSensorVendor (pc_sensor_vendor pc); PfSensorModel (pc_sensor_model pc); PfSensorSerial (pc_sensor_serial pc);
   PfSensorHwVersion (pc_sensor_hw_version pc); PfSensorSwVersion (pc_sensor_sw_version pc);
   PfSensorFwVersion (pc_sensor_fw_version pc); PfTemperature (pc_temperature pc); PfHumidity (pc_humidity pc);
   PfAtmosphericPressure (pc_atmospheric_pressure pc);
   PfIntensityLimits (pc_intensity_limits pc); PfColorLimits (pc_color_limits pc)].
Definition pc_body (pc : pointcloud) (pts : list (list rvalue)) : list wcall :=
  map PcSet (pc_fields pc) ++ map PcAddPoint pts.
Fixpoint pcs_copy (pcs : list pointcloud) (pts : list (list (list rvalue))) : list wcall :=
  match pcs, pts with
  | pc :: r, p :: q =>
      AddPointcloud (guid_of pc) (pc_prototype pc) :: pc_body pc p ++ [PcFinalize; PcDrop] ++ pcs_copy r q
  | _, _ => []
  end.
Definition guid_of_im (im : image) : xstring := match im_guid im with Some g => g | None => [] end.
Definition opt_set {A} (mk : A -> im_field) (o : option A) : list wcall :=
  match o with Some v => [ImSet (mk v)] | None => [] end.
(** a setter for every field that is present *)
Definition im_setters (im : image) : list wcall :=
  opt_set IfName (im_name im) ++ opt_set IfDescription (im_description im) ++
  opt_set IfPointcloudGuid (im_pointcloud_guid im) ++ opt_set IfTransform (im_transform im) ++
  opt_set IfAcquisition (im_acquisition im) ++ opt_set IfSensorVendor (im_sensor_vendor im) ++
  opt_set IfSensorModel (im_sensor_model im) ++ opt_set IfSensorSerial (im_sensor_serial im).
(** the representations, visual reference first, with the bytes the reader returned for their blobs *)
Definition vis_call (v : option visual_reference) (gv : option rep_bytes) : list wcall :=
  match v, gv with
  | Some v, Some (d, mk) => [ImAddVisualReference (ib_format (vr_blob v)) d (vr_width v) (vr_height v) mk]
  | _, _ => []
  end.
Definition proj_call (pj : option projection) (gp : option rep_bytes) : list wcall :=
  match pj, gp with
  | Some (PPinhole x), Some (d, mk) =>
      [ImAddPinhole (ib_format (ph_blob x)) d
         (mkPhp (ph_width x) (ph_height x) (ph_focal_length x) (ph_pixel_width x) (ph_pixel_height x)
                (ph_principal_x x) (ph_principal_y x)) mk]
  | Some (PSpherical x), Some (d, mk) =>
      [ImAddSpherical (ib_format (si_blob x)) d
         (mkSpp (si_width x) (si_height x) (si_pixel_width x) (si_pixel_height x)) mk]
  | Some (PCylindrical x), Some (d, mk) =>
      [ImAddCylindrical (ib_format (ci_blob x)) d
         (mkCyp (ci_width x) (ci_height x) (ci_radius x) (ci_principal_y x) (ci_pixel_width x) (ci_pixel_height x)) mk]
  | _, _ => []
  end.
Definition im_body (im : image) (g : im_ghost) : list wcall :=
  im_setters im ++ vis_call (im_visual_reference im) (fst g) ++ proj_call (im_projection im) (snd g).
Fixpoint ims_copy (ims : list image) (gs : list im_ghost) : list wcall :=
  match ims, gs with
  | im :: r, g :: q => AddImage (guid_of_im im) :: im_body im g ++ [ImFinalize; ImDrop] ++ ims_copy r q
  | _, _ => []
  end.

Lemma opt_set_body {A} (mk : A -> im_field) o : Forall is_im_body (opt_set mk o).
Proof. destruct o; repeat constructor. Qed.
Lemma im_body_is_body im g : Forall is_im_body (im_body im g).
Proof.
  unfold im_body, im_setters. repeat (apply Forall_app; split); try apply opt_set_body.
  - unfold vis_call. destruct (im_visual_reference im), (fst g) as [[d k]|]; repeat constructor.
  - unfold proj_call. destruct (im_projection im) as [[x|x|x]|], (snd g) as [[d k]|]; repeat constructor.
Qed.
Lemma ims_copy_units : forall ims gs rest, units rest -> units (ims_copy ims gs ++ rest).
Proof.
  induction ims as [|im r IH]; intros [|g q] rest Hr; cbn [ims_copy app]; try exact Hr.
  rewrite <- !app_assoc. apply un_im; [apply im_body_is_body|]. cbn [app]. apply IH. exact Hr.
Qed.

Definition copy_tops (m : file_meta) (pts : list (list (list rvalue))) (gs : list im_ghost) : list wcall :=
  SetCoordinateMetadata (rt_coordinate_metadata (fm_root m)) :: SetCreation (rt_creation (fm_root m)) ::
  map (fun e => RegisterExtension (e_namespace e) (e_url e)) (fm_extensions m) ++
  pcs_copy (fm_pointclouds m) pts ++ ims_copy (fm_images m) gs.
Definition copy_calls (m : file_meta) (pts : list (list (list rvalue))) (gs : list im_ghost) : list wcall :=
  NewWriter (rt_guid (fm_root m)) :: copy_tops m pts gs ++ [Finalize].

(** the descriptor the copy's [finalize] pushes (file offset 0) *)
Definition set_all (pc d : pointcloud) : pointcloud := fold_left (fun d f => pc_set f d) (pc_fields pc) d.
Definition copied (pc : pointcloud) (pts : list (list rvalue)) : pointcloud :=
  let proto := pc_prototype pc in
  desc_finish (set_all pc (desc_new (guid_of pc) proto (default_intensity_limits proto) (cl_of proto)))
              (fold_bounds proto pts (bounds_new proto)) 0 (len pts).

Lemma pcs_copy_units : forall pcs pts rest, units rest -> units (pcs_copy pcs pts ++ rest).
Proof.
  induction pcs as [|pc r IH]; intros [|p q] rest Hr; cbn [pcs_copy app]; try exact Hr.
  rewrite <- !app_assoc. apply un_pc.
  - unfold pc_body. apply Forall_app. split; apply Forall_forall; intros c Hc; apply in_map_iff in Hc as (x & <- & _); exact I.
  - split; left; unfold pc_body, has_ilim, has_clim; rewrite existsb_app; apply orb_true_intro; left; reflexivity.
  - cbn [app]. apply IH. exact Hr.
Qed.
Lemma copy_tops_units m pts gs : units (copy_tops m pts gs).
Proof.
  unfold copy_tops. apply un_setter; [exact I|]. apply un_setter; [exact I|].
  induction (fm_extensions m) as [|e r IH]; cbn [map app].
  - apply pcs_copy_units. rewrite <- (app_nil_r (ims_copy _ _)). apply ims_copy_units. constructor.
  - apply un_setter; [exact I|exact IH].
Qed.
(** ** the abstract run of one copied point cloud *)
Lemma arun_sets lv : forall fs a p, a_sub a = APc p ->
  arun lv a (map PcSet fs) =
  set_asub a (APc (mkApc (ap_proto p) (ap_bounds p) (fold_left (fun d f => pc_set f d) fs (ap_desc p)) (ap_fin p)
                     (ap_cil p || existsb (fun f => match f with PfIntensityLimits _ => true | _ => false end) fs)
                     (ap_ccl p || existsb (fun f => match f with PfColorLimits _ => true | _ => false end) fs)
                     (ap_pts p))).
Proof.
  induction fs as [|f fs IH]; intros a p Ha.
  - cbn [map arun fold_left existsb]. rewrite !orb_false_r. destruct a, p. cbn in *. subst. reflexivity.
  - cbn [map arun astep]. rewrite Ha. erewrite IH by reflexivity. unfold set_asub. cbn. f_equal. f_equal. f_equal.
    + destruct f; cbn; rewrite ?orb_true_r, ?orb_false_r; try reflexivity; destruct (ap_cil p); reflexivity.
    + destruct f; cbn; rewrite ?orb_true_r, ?orb_false_r; try reflexivity; destruct (ap_ccl p); reflexivity.
Qed.

Lemma arun_points lv : forall pts a p, a_sub a = APc p ->
  arun lv a (map PcAddPoint pts) =
  set_asub a (APc (mkApc (ap_proto p) (fold_bounds (ap_proto p) pts (ap_bounds p)) (ap_desc p) (ap_fin p)
                     (ap_cil p) (ap_ccl p) (ap_pts p ++ pts))).
Proof.
  induction pts as [|vs pts IH]; intros a p Ha.
  - cbn [map arun fold_bounds fold_left]. rewrite app_nil_r. destruct a, p. cbn in *. subst. reflexivity.
  - cbn [map arun astep]. rewrite Ha. erewrite IH by reflexivity. unfold set_asub. cbn. rewrite <- app_assoc. reflexivity.
Qed.

Lemma aacc_sets lv : forall fs a, aacc_calls lv a (map PcSet fs).
Proof. induction fs as [|f fs IH]; intros a; cbn [map aacc_calls aacc]; auto. Qed.

Lemma aacc_points lv : forall pts a p, a_sub a = APc p -> ap_fin p = false ->
  Forall (representable_point (ap_proto p)) pts -> aacc_calls lv a (map PcAddPoint pts).
Proof.
  induction pts as [|vs pts IH]; intros a p Ha Hf Hr; [exact I|]. inversion Hr as [|? ? H1 H2]; subst.
  cbn [map aacc_calls aacc]. rewrite Ha. split; [auto|]. cbn [astep]. rewrite Ha.
  eapply IH; [reflexivity|exact Hf|exact H2].
Qed.

Definition push (a : astate) (x : pointcloud * list (list rvalue)) : astate :=
  mkAs (a_root a) (a_exts a) (a_pcs a ++ [x]) (a_imgs a) ANone (a_fin a).

Lemma arun_pc_copy lv a pc pts rest :
  arun lv a (AddPointcloud (guid_of pc) (pc_prototype pc) :: pc_body pc pts ++ [PcFinalize; PcDrop] ++ rest) =
  arun lv (push a (copied pc pts, pts)) rest.
Proof.
  cbn [arun astep]. unfold pc_body. rewrite <- app_assoc, arun_app.
  erewrite arun_sets by reflexivity. rewrite arun_app. erewrite arun_points by reflexivity.
  cbn [app arun astep set_asub a_sub a_root a_exts a_pcs a_fin ap_proto ap_bounds ap_desc ap_fin ap_cil ap_ccl ap_pts].
  reflexivity.
Qed.

Lemma set_all_limits pc d :
  pc_intensity_limits (set_all pc d) = pc_intensity_limits pc /\ pc_color_limits (set_all pc d) = pc_color_limits pc /\
  pc_prototype (set_all pc d) = pc_prototype d /\ pc_guid (set_all pc d) = pc_guid d.
Proof. destruct d, pc. cbn. auto. Qed.

(** * 6. The copied descriptor is the original one *)
Section CopyPc.
Variables fmt64 fmt32 : N -> xstring.
Hypothesis nan_text64 : forall b, fmt64 (canon64 b) = fmt64 b.
Hypothesis nan_text32 : forall b, fmt32 (canon32 b) = fmt32 b.
Notation FP := (fill_pc fmt64 fmt32).
Notation FR := (fill_rec fmt64 fmt32).

Lemma copied_fill_eq pc pts : consistent pc pts -> proto_canonical (pc_prototype pc) ->
  FP (copied (FP pc) pts) = FP pc.
Proof.
  intros (C1 & C2 & C3 & C4 & C5 & g & C6) Hc. unfold copied.
  change (pc_prototype (FP pc)) with (map FR (pc_prototype pc)).
  rewrite (fold_bounds_fill fmt64 fmt32 _ _ _ Hc), bounds_new_fill.
  destruct pc. cbn in C1, C2, C3, C4, C5, C6, Hc |- *.
  subst. unfold fill_pc, set_all, pc_fields, guid_of, desc_new, desc_finish. cbn.
  rewrite (fill_proto_idem fmt64 fmt32 nan_text64 nan_text32).
  rewrite !(omap_idem _ _ (fill_il_idem fmt64 fmt32 nan_text64 nan_text32)),
    !(omap_idem _ _ (fill_cl_idem fmt64 fmt32 nan_text64 nan_text32)),
    !(omap_idem _ _ (fill_tr_idem fmt64 nan_text64)), !(omap_idem _ _ (fill_dt_idem fmt64 nan_text64)),
    !(omap_idem _ _ (fill64_idem fmt64 nan_text64)).
  reflexivity.
Qed.
End CopyPc.

(** * 6b. Copying an image: the calls of harness/src/ext_copy.rs *)
Definition pushi (a : astate) (x : image * im_ghost) : astate :=
  mkAs (a_root a) (a_exts a) (a_pcs a) (a_imgs a ++ [x]) ANone (a_fin a).
Definition oset {A} (mk : A -> im_field) (o : option A) (im : image) : image :=
  match o with Some v => im_set (mk v) im | None => im end.

Lemma arun_opt_set lv {A} (mk : A -> im_field) (o : option A) r e p i im fin g f rest :
  arun lv (mkAs r e p i (AIm im fin g) f) (opt_set mk o ++ rest) =
  arun lv (mkAs r e p i (AIm (oset mk o im) fin g) f) rest.
Proof. destruct o; reflexivity. Qed.
Lemma aacc_opt_set lv {A} (mk : A -> im_field) (o : option A) r e p i im fin g f rest :
  aacc_calls lv (mkAs r e p i (AIm (oset mk o im) fin g) f) rest ->
  aacc_calls lv (mkAs r e p i (AIm im fin g) f) (opt_set mk o ++ rest).
Proof. destruct o; cbn [opt_set app aacc_calls aacc astep a_sub set_asub oset]; auto. Qed.

Definition vset (v : option visual_reference) (im : image) : image :=
  match v with Some v0 => im_set_visual v0 im | None => im end.
Definition pset (pj : option projection) (im : image) : image :=
  match pj with Some p0 => im_set_projection p0 im | None => im end.

Lemma arun_vis lv v gv r e p i im gp f rest : rep_ok (option_map rep_blobs_vr v) gv ->
  arun lv (mkAs r e p i (AIm im false (None, gp)) f) (vis_call v gv ++ rest) =
  arun lv (mkAs r e p i (AIm (vset v im) false (gv, gp)) f) rest.
Proof.
  destruct v as [[[vb vf] vm vw vh]|], gv as [[d k]|]; cbn; intros H; try contradiction; [|reflexivity].
  destruct H as [-> ->]. reflexivity.
Qed.
Lemma aacc_vis lv v gv r e p i im gp f rest : rep_ok (option_map rep_blobs_vr v) gv ->
  aacc_calls lv (mkAs r e p i (AIm (vset v im) false (gv, gp)) f) rest ->
  aacc_calls lv (mkAs r e p i (AIm im false (None, gp)) f) (vis_call v gv ++ rest).
Proof.
  destruct v as [[[vb vf] vm vw vh]|], gv as [[d k]|]; cbn; intros H; try contradiction; [|auto].
  destruct H as [-> ->]. auto.
Qed.
Lemma arun_proj lv pj gp r e p i im gv f rest : rep_ok (option_map rep_blobs_proj pj) gp ->
  arun lv (mkAs r e p i (AIm im false (gv, None)) f) (proj_call pj gp ++ rest) =
  arun lv (mkAs r e p i (AIm (pset pj im) false (gv, gp)) f) rest.
Proof.
  destruct pj as [[[[pb pf] pm pw ph f1 f2 f3 f4 f5]|[[pb pf] pm pw ph f1 f2]|[[pb pf] pm pw ph f1 f2 f3 f4]]|], gp as [[d k]|];
    cbn; intros H; try contradiction; try reflexivity; destruct H as [-> ->]; reflexivity.
Qed.
Lemma aacc_proj lv pj gp r e p i im gv f rest : rep_ok (option_map rep_blobs_proj pj) gp -> im_projection im = None ->
  aacc_calls lv (mkAs r e p i (AIm (pset pj im) false (gv, gp)) f) rest ->
  aacc_calls lv (mkAs r e p i (AIm im false (gv, None)) f) (proj_call pj gp ++ rest).
Proof.
  destruct pj as [[[[pb pf] pm pw ph f1 f2 f3 f4 f5]|[[pb pf] pm pw ph f1 f2]|[[pb pf] pm pw ph f1 f2 f3 f4]]|], gp as [[d k]|];
    cbn; intros H Hn; try contradiction; auto; destruct H as [-> ->]; auto.
Qed.

Lemma setters_result gu tr pg nm ds aq sv sm ss :
  oset IfSensorSerial ss (oset IfSensorModel sm (oset IfSensorVendor sv (oset IfAcquisition aq (oset IfTransform tr
    (oset IfPointcloudGuid pg (oset IfDescription ds (oset IfName nm (image_new gu)))))))) =
  mkImage (Some gu) None None tr pg nm ds aq sv sm ss.
Proof. destruct tr, pg, nm, ds, aq, sv, sm, ss; reflexivity. Qed.

(** the abstract run of one copied image: the image itself is pushed *)
Lemma im_copy_run lv a im g rest : a_fin a = false -> im_src_ok (im, g) ->
  let cs := AddImage (guid_of_im im) :: im_body im g ++ [ImFinalize; ImDrop] ++ rest in
  (aacc_calls lv (pushi a (im, g)) rest -> aacc_calls lv a cs) /\
  arun lv a cs = arun lv (pushi a (im, g)) rest.
Proof.
  intros Hf ((G1 & G2 & gu & G3) & Hany). cbv zeta. cbn [fst snd] in *.
  destruct a as [r e p i sb f]. cbn [a_fin] in Hf. subst f.
  destruct im as [gd vr pr tr pg nm ds aq sv sm ss]. cbn in G1, G2, G3, Hany. subst gd. destruct g as [gv gp]. cbn [fst snd] in *.
  unfold im_body, im_setters, guid_of_im. cbn.
  rewrite <- !app_assoc.
  assert (Efin : vset vr (pset pr (mkImage (Some gu) None None tr pg nm ds aq sv sm ss)) = mkImage (Some gu) vr pr tr pg nm ds aq sv sm ss)
    by (destruct vr, pr; reflexivity).
  assert (Efin2 : pset pr (vset vr (mkImage (Some gu) None None tr pg nm ds aq sv sm ss)) = mkImage (Some gu) vr pr tr pg nm ds aq sv sm ss)
    by (destruct vr, pr; reflexivity).
  split.
  - intros Hrest. split; [reflexivity|]. unfold set_asub. cbn [a_root a_exts a_pcs a_imgs a_fin].
    do 8 apply aacc_opt_set. rewrite setters_result.
    apply aacc_vis; [exact G1|]. apply aacc_proj; [exact G2|destruct vr; reflexivity|]. rewrite Efin2.
    cbn [app aacc_calls aacc astep a_sub a_root a_exts a_pcs a_imgs a_fin set_asub im_visual_reference im_projection].
    split; [split; [reflexivity|exact Hany]|]. split; [exact I|exact Hrest].
  - unfold set_asub. cbn [a_root a_exts a_pcs a_imgs a_fin]. rewrite !arun_opt_set, setters_result.
    rewrite (arun_vis lv vr gv _ _ _ _ _ None _ _ G1), (arun_proj lv pr gp _ _ _ _ _ gv _ _ G2), Efin2.
    reflexivity.
Qed.

Lemma ims_copy_run lv : forall xs a, a_fin a = false -> Forall im_src_ok xs ->
  let cs := ims_copy (map fst xs) (map snd xs) in
  aacc_calls lv a cs /\
  (xs <> [] \/ a_sub a = ANone -> arun lv a cs = mkAs (a_root a) (a_exts a) (a_pcs a) (a_imgs a ++ xs) ANone (a_fin a)).
Proof.
  induction xs as [|[im g] xs IH]; intros a Hf Hok; cbv zeta.
  - cbn [map ims_copy aacc_calls arun]. split; [exact I|]. intros [H|H]; [contradiction|]. rewrite app_nil_r.
    destruct a; cbn in *; subst; reflexivity.
  - inversion Hok as [|? ? Hx Hok']; subst. cbn [map ims_copy fst snd].
    destruct (im_copy_run lv a im g (ims_copy (map fst xs) (map snd xs)) Hf Hx) as [A1 A2]. cbv zeta in A1, A2.
    destruct (IH (pushi a (im, g)) Hf Hok') as [I1 I2]. cbv zeta in I1, I2.
    split; [apply A1; exact I1|]. intros _. rewrite A2, I2 by (right; reflexivity).
    cbn [pushi a_root a_exts a_pcs a_imgs a_fin]. rewrite <- app_assoc. reflexivity.
Qed.

(** * 7. The abstract run of the whole copy *)
Definition reg_calls (exts : list extension) : list wcall :=
  map (fun e => RegisterExtension (e_namespace e) (e_url e)) exts.

Lemma reg_run lv : forall exts a, exts_rep (a_exts a ++ exts) ->
  aacc_calls lv a (reg_calls exts) /\
  arun lv a (reg_calls exts) = mkAs (a_root a) (a_exts a ++ exts) (a_pcs a) (a_imgs a) (a_sub a) (a_fin a).
Proof.
  induction exts as [|e r IH]; intros a Hr.
  - cbn [reg_calls map aacc_calls arun]. rewrite app_nil_r. split; [exact I|]. destruct a; reflexivity.
  - cbn [reg_calls map aacc_calls arun aacc astep]. fold (reg_calls r).
    assert (Hr' : exts_rep ((a_exts a ++ [mkExtension (e_namespace e) (e_url e)]) ++ r)).
    { rewrite <- app_assoc. cbn [app]. destruct e; exact Hr. }
    destruct (IH (mkAs (a_root a) (a_exts a ++ [mkExtension (e_namespace e) (e_url e)]) (a_pcs a) (a_imgs a) (a_sub a) (a_fin a)) Hr')
      as [I1 I2].
    split; [split; [|exact I1]|].
    + destruct Hr as (F & Nn & Nu). apply Forall_app in F as [_ F]. apply Forall_inv in F.
      destruct F as (E1 & E2 & E3 & E4 & E5 & E6). repeat (split; [assumption|]). split.
      * rewrite registered_in. rewrite map_app in Nn. cbn [map] in Nn. apply NoDup_remove_2 in Nn.
        intros Hin. apply Nn. apply in_or_app. left. exact Hin.
      * rewrite url_in. rewrite map_app in Nu. cbn [map] in Nu. apply NoDup_remove_2 in Nu.
        intros Hin. apply Nu. apply in_or_app. left. exact Hin.
    + rewrite I2. cbn [a_root a_exts a_pcs a_sub a_fin]. rewrite <- app_assoc. destruct e; reflexivity.
Qed.

Section CopyRun.
Variables fmt64 fmt32 : N -> xstring.
Variable lv : xstring.
Notation FP := (fill_pc fmt64 fmt32).
Notation FR := (fill_rec fmt64 fmt32).

Lemma limits_fill pc : custom_limits_ok true true (FP pc) = custom_limits_ok true true pc.
Proof.
  unfold custom_limits_ok. destruct pc. cbn. f_equal.
  - destruct pc_intensity_limits as [[a b]|]; [|reflexivity]. cbn. unfold il_complete. cbn. destruct a, b; reflexivity.
  - destruct pc_color_limits as [[a b c d e f]|]; [|reflexivity]. cbn. unfold cl_complete. cbn.
    destruct a, b, c, d, e, f; reflexivity.
Qed.

Definition copied_pair (x : pointcloud * list (list rvalue)) := (copied (FP (fst x)) (snd x), snd x).

Lemma copy_pcs_run : forall xs a, a_fin a = false -> a_sub a = ANone ->
  Forall (pc_src_ok (a_exts a)) xs -> Forall (fun x => custom_limits_ok true true (fst x) = true) xs ->
  Forall (fun x => proto_canonical (pc_prototype (fst x))) xs ->
  let cs := pcs_copy (map (fun x => FP (fst x)) xs) (map snd xs) in
  aacc_calls lv a cs /\
  arun lv a cs = mkAs (a_root a) (a_exts a) (a_pcs a ++ map copied_pair xs) (a_imgs a) ANone (a_fin a).
Proof.
  induction xs as [|[pc pts] xs IH]; intros a Hf Hs Hok Hlim Hcn; cbv zeta.
  - cbn [map pcs_copy aacc_calls arun]. rewrite app_nil_r. split; [exact I|]. destruct a; cbn in *; subst; reflexivity.
  - inversion Hok as [|? ? Hx Hok']; subst. inversion Hlim as [|? ? Hl Hlim']; subst.
    inversion Hcn as [|? ? Hc1 Hcn']; subst. cbn [fst snd] in *.
    destruct Hx as (Hc & Hp & _). cbn [fst snd] in Hc, Hp.
    cbn [map pcs_copy fst snd]. rewrite arun_pc_copy.
    destruct (IH (push a (copied (FP pc) pts, pts)) Hf eq_refl Hok' Hlim' Hcn') as [I1 I2]. cbv zeta in I1, I2.
    split.
    + cbn [aacc_calls aacc]. change (pc_prototype (FP pc)) with (map FR (pc_prototype pc)).
      destruct (rep_of_checks _ _ (checks_fill fmt64 fmt32 _ _ Hc1 Hc)) as [R1 R2].
      split; [auto|]. unfold pc_body. rewrite <- app_assoc. apply aacc_calls_app. split; [apply aacc_sets|].
      cbn [astep]. erewrite arun_sets by reflexivity. apply aacc_calls_app.
      split.
      { eapply aacc_points; [reflexivity|reflexivity|]. cbn [ap_proto]. rewrite Forall_forall in *. intros vs Hvs.
        destruct (Hp vs Hvs) as [V1 _]. apply values_ok_representable. rewrite dtypes_fill. exact V1. }
      erewrite arun_points by reflexivity. cbn [app aacc_calls aacc astep set_asub a_sub ap_fin ap_cil ap_ccl ap_desc].
      split.
      { split; [reflexivity|]. cbn [orb existsb pc_fields].
        destruct (set_all_limits (FP pc) (desc_new (guid_of (FP pc)) (map FR (pc_prototype pc))
                     (default_intensity_limits (map FR (pc_prototype pc))) (cl_of (map FR (pc_prototype pc))))) as (L1 & L2 & _).
        unfold custom_limits_ok. unfold set_all in L1, L2. rewrite L1, L2.
        change (custom_limits_ok true true (FP pc) = true). rewrite limits_fill. exact Hl. }
      split; [exact I|].
      match goal with |- aacc_calls lv ?s _ => replace s with (push a (copied (FP pc) pts, pts)) end; [exact I1|].
      reflexivity.
    + rewrite I2. cbn [push a_root a_exts a_pcs a_fin map]. rewrite <- app_assoc. reflexivity.
Qed.

End CopyRun.

(** * 8. The whole copy on the abstract state *)
Lemma good_new lv a g : g <> [] -> good lv (astep lv a (NewWriter g)).
Proof.
  intros H. cbn [astep]. split.
  - split; [repeat split; try reflexivity; exact H|]. split; [repeat constructor|]. split; [constructor|exact I].
  - split; [constructor|exact I].
Qed.

Section CopyAbs.
Variables fmt64 fmt32 : N -> xstring.
Variable lv : xstring.
Notation FP := (fill_pc fmt64 fmt32).
Notation FI := (fill_im fmt64).

(** the metadata a reader reports for the abstract state [a] (offsets are not used by the copy) *)
Definition abs_view (a : astate) : file_meta :=
  mkFileMeta (Spec.XeMetaOk.reader_root (fill_root fmt64 (a_root a))) (a_exts a) (map (fun x => FP (fst x)) (a_pcs a))
             (map (fun x => FI (fst x)) (a_imgs a)).

Definition copied_root (r : root) : root :=
  mkRoot (rt_format r) (rt_guid r) (rt_major_version r) (rt_minor_version r) (rt_library_version r)
         (option_map (fill_dt fmt64) (rt_creation r)) (rt_coordinate_metadata r).
Definition filled_im (x : image * im_ghost) : image * im_ghost := (FI (fst x), snd x).

Lemma im_src_ok_fill x : im_src_ok x -> im_src_ok (filled_im x).
Proof.
  destruct x as [im g]. unfold im_src_ok, filled_im, ghost_ok. cbn [fst snd].
  destruct im as [gd vr pr tr pg nm ds aq sv sm ss]. cbn.
  intros ((G1 & G2 & G3) & Hany). split; [split; [exact G1|split; [|exact G3]]|].
  - destruct pr as [[x|x|x]|]; exact G2.
  - destruct Hany as [H|H]; [left; exact H|right]. destruct pr; [discriminate|contradiction].
Qed.

Theorem copy_abs : forall aP, good lv aP ->
  Forall (fun x => custom_limits_ok true true (fst x) = true) (a_pcs aP) ->
  Forall (fun x => proto_canonical (pc_prototype (fst x))) (a_pcs aP) ->
  let P2 := copy_calls (abs_view aP) (map snd (a_pcs aP)) (map snd (a_imgs aP)) in
  aacc_calls lv a_init P2 /\
  arun lv a_init P2 = mkAs (copied_root (a_root aP)) (a_exts aP) (map (copied_pair fmt64 fmt32) (a_pcs aP))
                           (map filled_im (a_imgs aP)) ANone true.
Proof.
  intros aP ((Hr & He & Hp & _) & (Him & _)) Hlim Hcn P2. subst P2. unfold copy_calls, copy_tops, abs_view.
  destruct Hr as (R1 & R2 & R3 & R4 & R5).
  destruct (a_root aP) as [f g ma mi l cr cm] eqn:Er. cbn in R1, R2, R3, R4, R5. subst.
  cbn [fm_root fm_extensions fm_pointclouds fm_images Spec.XeMetaOk.reader_root fill_root rt_guid rt_coordinate_metadata rt_creation
       rt_format rt_major_version rt_library_version].
  cbn [app aacc_calls arun aacc astep a_init a_root a_exts a_pcs a_imgs a_sub a_fin root_default rt_format].
  fold (reg_calls (a_exts aP)). rewrite <- !app_assoc.
  set (a3 := mkAs _ [] [] [] ANone false).
  destruct (reg_run lv (a_exts aP) a3 He) as [G1 G2]. cbn [a3 a_root a_exts a_pcs a_imgs a_sub a_fin app] in G2.
  rewrite aacc_calls_app, arun_app, G2.
  set (a4 := mkAs _ (a_exts aP) [] [] ANone false).
  destruct (copy_pcs_run fmt64 fmt32 lv (a_pcs aP) a4 eq_refl eq_refl Hp Hlim Hcn) as [G3 G4]. cbv zeta in G3, G4.
  rewrite aacc_calls_app, arun_app, G4. cbn [a4 a_root a_exts a_pcs a_imgs a_sub a_fin app].
  set (a5 := mkAs _ (a_exts aP) _ [] ANone false).
  assert (Hsrc : Forall im_src_ok (map filled_im (a_imgs aP))).
  { rewrite Forall_forall in *. intros x Hx. apply in_map_iff in Hx as (y & <- & Hy). apply im_src_ok_fill. apply Him. exact Hy. }
  destruct (ims_copy_run lv (map filled_im (a_imgs aP)) a5 eq_refl Hsrc) as [G5 G6]. cbv zeta in G5, G6.
  rewrite !map_map in G5, G6. cbn [filled_im fst snd] in G5, G6.
  change (map (fun x : image * im_ghost => snd x) (a_imgs aP)) with (map snd (a_imgs aP)) in G5, G6.
  rewrite aacc_calls_app, arun_app, G6 by (right; reflexivity).
  cbn [a5 a_root a_exts a_pcs a_imgs a_sub a_fin app aacc_calls arun aacc astep].
  split; [auto 10|]. unfold copied_root. cbn. reflexivity.
Qed.

End CopyAbs.

(** * 9. From [explains] to the abstract run: the points and types of the point cloud items *)
Definition item_pcs (is : list FileBin.item) : list (list dtype * list (list rvalue)) :=
  flat_map (fun i => match i with IPc dt pts => [(dt, pts)] | _ => [] end) is.
Definition item_points (is : list FileBin.item) : list (list (list rvalue)) := map snd (item_pcs is).
Definition pair_item (x : pointcloud * list (list rvalue)) := (proto_dtypes (pc_prototype (fst x)), snd x).

Lemma item_pcs_app a b : item_pcs (a ++ b) = item_pcs a ++ item_pcs b.
Proof. unfold item_pcs. apply flat_map_app. Qed.
Lemma item_pcs_im : forall ibody, item_pcs (flat_map im_call_items ibody) = [].
Proof.
  induction ibody as [|c r IH]; [reflexivity|]. cbn [flat_map]. rewrite item_pcs_app, IH, app_nil_r.
  destruct c; try reflexivity; cbn [im_call_items]; destruct mask; reflexivity.
Qed.

Lemma arun_body lv : forall body a p, a_sub a = APc p -> Forall is_pc_body body ->
  exists p', arun lv a body = set_asub a (APc p') /\ ap_pts p' = ap_pts p ++ body_points body /\
    pc_prototype (ap_desc p') = pc_prototype (ap_desc p).
Proof.
  induction body as [|c body IH]; intros a p Ha Hb.
  - exists p. cbn [arun body_points]. rewrite app_nil_r. split; [destruct a; cbn in *; subst; reflexivity|auto].
  - inversion Hb as [|? ? Hc Hb']; subst. destruct c; try (destruct Hc; fail); cbn [arun astep]; rewrite Ha.
    + match goal with |- context [arun lv ?s body] => destruct (IH s _ eq_refl Hb') as (p' & E1 & E2 & E3) end.
      exists p'. rewrite E1. split; [reflexivity|].
      cbn [body_points]. split; [exact E2|]. rewrite E3. cbn [ap_desc]. apply pc_set_keeps.
    + match goal with |- context [arun lv ?s body] => destruct (IH s _ eq_refl Hb') as (p' & E1 & E2 & E3) end.
      exists p'. rewrite E1. split; [reflexivity|].
      cbn [body_points]. cbn [ap_pts ap_desc] in E2, E3. rewrite E2, <- app_assoc. auto.
Qed.

Lemma arun_im_keep lv : forall ibody a im fin g, Forall is_im_body ibody -> a_sub a = AIm im fin g ->
  exists im' fin' g', arun lv a ibody = mkAs (a_root a) (a_exts a) (a_pcs a) (a_imgs a) (AIm im' fin' g') (a_fin a).
Proof.
  induction ibody as [|c r IH]; intros a im fin g Hb Ha.
  - exists im, fin, g. destruct a; cbn in *; subst; reflexivity.
  - inversion Hb as [|? ? Hc Hb']; subst.
    assert (E : exists im1 fin1 g1, astep lv a c = mkAs (a_root a) (a_exts a) (a_pcs a) (a_imgs a) (AIm im1 fin1 g1) (a_fin a)).
    { destruct c; try (destruct Hc; fail); cbn [astep aproj]; rewrite Ha; unfold set_asub; eauto. }
    destruct E as (im1 & fin1 & g1 & E). cbn [arun]. rewrite E.
    destruct (IH (mkAs (a_root a) (a_exts a) (a_pcs a) (a_imgs a) (AIm im1 fin1 g1) (a_fin a)) im1 fin1 g1 Hb' eq_refl)
      as (im2 & fin2 & g2 & E2). rewrite E2. cbn [a_root a_exts a_pcs a_imgs a_fin]. eauto.
Qed.

Lemma explains_abs lv : forall tops is os pcs ims bl, explains tops is os pcs ims bl ->
  forall a, a_sub a = ANone ->
  let a' := arun lv a tops in
  a_sub a' = ANone /\ a_fin a' = a_fin a /\
  exists new, a_pcs a' = a_pcs a ++ new /\ map pair_item new = item_pcs is.
Proof.
  induction 1 as [|c r is os pcs ims bl Hs _ IH|data off ln r is os pcs ims bl _ IH
                 |guid proto body off n pc r is os pcs ims bl Hb _ _ _ _ _ _ _ IH
                 |guid ibody iouts r is os pcs ims bl Hb _ _ IH]; intros a Ha; cbv zeta.
  - cbn [arun]. split; [exact Ha|]. split; [reflexivity|]. exists []. rewrite app_nil_r. auto.
  - cbn [arun]. assert (E : a_sub (astep lv a c) = ANone /\ a_fin (astep lv a c) = a_fin a /\ a_pcs (astep lv a c) = a_pcs a).
    { destruct c; try (destruct Hs; fail); cbn [astep]; try destruct (a_root a); cbn; auto. }
    destruct E as (E1 & E2 & E3). destruct (IH _ E1) as (I1 & I2 & new & I3 & I4). cbv zeta in *.
    split; [exact I1|]. split; [congruence|]. exists new. rewrite I3, E3. auto.
  - cbn [arun astep]. destruct (IH _ Ha) as (I1 & I2 & new & I3 & I4). split; [exact I1|]. split; [exact I2|].
    exists new. auto.
  - cbn [arun astep]. rewrite arun_app.
    match goal with |- context [arun lv ?s body] => destruct (arun_body lv body s _ eq_refl Hb) as (p' & E1 & E2 & E3) end.
    rewrite E1. unfold set_asub.
    cbn [app arun astep a_sub a_root a_exts a_pcs a_fin]. unfold set_asub. cbn [a_sub a_root a_exts a_pcs a_fin].
    match goal with |- context [arun lv ?s r] => destruct (IH s eq_refl) as (I1 & I2 & new & I3 & I4) end.
    cbv zeta in *. cbn [a_pcs a_fin] in I2, I3. split; [exact I1|]. split; [exact I2|].
    eexists (_ :: new). rewrite I3, <- app_assoc. split; [reflexivity|].
    cbn [map item_pcs flat_map app]. fold (item_pcs is). rewrite I4. f_equal. unfold pair_item. cbn [fst snd ap_pts] in *.
    destruct (desc_finish_bounds (ap_desc p') (ap_bounds p') 0 (len (ap_pts p'))) as (_ & _ & _ & _ & _ & _ & D7).
    rewrite D7, E3, E2. reflexivity.
  - cbn [arun astep]. rewrite arun_app.
    match goal with |- context [arun lv ?s ibody] => destruct (arun_im_keep lv ibody s _ _ _ Hb eq_refl) as (im2 & fin2 & g2 & E2) end.
    rewrite E2. unfold set_asub. cbn [app arun astep a_sub a_root a_exts a_pcs a_imgs a_fin]. unfold set_asub. cbn [a_sub a_root a_exts a_pcs a_imgs a_fin].
    match goal with |- context [arun lv ?s r] => destruct (IH s eq_refl) as (I1 & I2 & new & I3 & I4) end.
    cbv zeta in *. cbn [a_pcs a_fin] in I2, I3. split; [exact I1|]. split; [exact I2|].
    exists new. split; [exact I3|]. rewrite item_pcs_app, item_pcs_im. exact I4.
Qed.

Lemma explains_no_img : forall tops is os pcs ims bl, explains tops is os pcs ims bl -> Forall not_im tops -> ims = [].
Proof.
  induction 1 as [|c r is os pcs ims bl _ _ IH|data off ln r is os pcs ims bl _ IH
                 |guid proto body off n pc r is os pcs ims bl _ _ _ _ _ _ _ _ IH
                 |guid ibody iouts r is os pcs ims bl _ _ _ IH]; intros Hn.
  - reflexivity.
  - apply IH. apply (Forall_inv_tail Hn).
  - apply IH. apply (Forall_inv_tail Hn).
  - apply IH. apply Forall_inv_tail in Hn. apply Forall_app in Hn as [_ Hn]. apply Forall_app in Hn as [_ Hn]. exact Hn.
  - exfalso. apply (Forall_inv Hn).
Qed.

Lemma explains_protos : forall tops is os pcs ims bl, explains tops is os pcs ims bl ->
  Forall (fun pc => exists guid, In (AddPointcloud guid (pc_prototype pc)) tops) pcs.
Proof.
  induction 1 as [|c r is os pcs ims bl _ _ IH|data off ln r is os pcs ims bl _ IH
                 |guid proto body off n pc r is os pcs ims bl _ _ _ _ Hpr _ _ _ IH
                 |guid ibody iouts r is os pcs ims bl _ _ _ IH].
  - constructor.
  - eapply Forall_impl; [|exact IH]. intros pc (g & Hin). exists g. right. exact Hin.
  - eapply Forall_impl; [|exact IH]. intros pc (g & Hin). exists g. right. exact Hin.
  - constructor; [exists guid; left; rewrite Hpr; reflexivity|].
    eapply Forall_impl; [|exact IH]. intros q (g & Hin). exists g. right. apply in_or_app. right. apply in_or_app. right. exact Hin.
  - eapply Forall_impl; [|exact IH]. intros q (g & Hin). exists g. right. apply in_or_app. right. apply in_or_app. right. exact Hin.
Qed.

(** * 10. The theorem on the real writer *)
From E57 Require Import Spec.XeMetaOk.

Lemma no_off_fields pc :
  guid_of (pc_no_off pc) = guid_of pc /\ pc_prototype (pc_no_off pc) = pc_prototype pc /\
  pc_fields (pc_no_off pc) = pc_fields pc /\
  custom_limits_ok true true (pc_no_off pc) = custom_limits_ok true true pc.
Proof. destruct pc. repeat split; reflexivity. Qed.

Lemma pcs_copy_no_off : forall l pts, pcs_copy (map pc_no_off l) pts = pcs_copy l pts.
Proof.
  induction l as [|pc r IH]; intros [|p q]; cbn [map pcs_copy]; try reflexivity.
  destruct (no_off_fields pc) as (E1 & E2 & E3 & _). unfold pc_body. rewrite E1, E2, E3, IH. reflexivity.
Qed.

Lemma limits_complete_custom pc : pc_limits_complete pc = custom_limits_ok true true pc.
Proof. reflexivity. Qed.

Lemma copied_proto pc pts : pc_prototype (copied pc pts) = pc_prototype pc.
Proof.
  unfold copied. destruct (desc_finish_bounds (set_all pc (desc_new (guid_of pc) (pc_prototype pc)
    (default_intensity_limits (pc_prototype pc)) (cl_of (pc_prototype pc))))
    (fold_bounds (pc_prototype pc) pts (bounds_new (pc_prototype pc))) 0 (len pts)) as (_ & _ & _ & _ & _ & _ & D7).
  rewrite D7. destruct (set_all_limits pc (desc_new (guid_of pc) (pc_prototype pc)
    (default_intensity_limits (pc_prototype pc)) (cl_of (pc_prototype pc)))) as (_ & _ & S3 & _). rewrite S3. reflexivity.
Qed.

(** the float-limit part of [proto_canonical] follows from acceptance (no NaN limits since /repo
    eaf8fc6); what remains to be assumed is the part about scale and offset of scaled integers,
    which the writer does not check: a NaN scale or offset is accepted and written *)
From E57 Require Import Proofs.WapiFloatOrder Proofs.WapiFloatLimits.
Definition scaled_canonical (p : list record) : Prop :=
  forall r, In r p ->
    match r_type r with
    | DScaledInteger _ _ s o => canon64 (f64_bits s) = f64_bits s /\ canon64 (f64_bits o) = f64_bits o
    | _ => True
    end.
Lemma canonical_of_valid p : validate_prototype p = Ok tt -> scaled_canonical p -> proto_canonical p.
Proof.
  intros Hv Hs r Hr. specialize (Hs r Hr). apply validate_prototype_ok in Hv.
  destruct Hv as (_ & _ & _ & _ & _ & _ & _ & _ & _ & _ & _ & _ & _ & _ & _ & _ & _ & _ & _ & Hf).
  specialize (Hf r Hr). destruct (r_type r) as [mn mx|mn mx| |]; try exact Hs; try exact I;
    cbn [float_range_ok] in Hf; destruct Hf as (N1 & N2 & _); split; intros x ->.
  - apply number_canon32_any. apply conv_nan. apply (N1 _ eq_refl).
  - apply number_canon32_any. apply conv_nan. apply (N2 _ eq_refl).
  - apply number_canon64_any. apply (N1 _ eq_refl).
  - apply number_canon64_any. apply (N2 _ eq_refl).
Qed.

Section Copy.
Variables fmt64 fmt32 : N -> xstring.
Variable version : xstring.
Hypothesis nan_text64 : forall b, fmt64 (canon64 b) = fmt64 b.
Hypothesis nan_text32 : forall b, fmt32 (canon32 b) = fmt32 b.
Notation G := (gen_xml_full fmt64 fmt32).
Notation L := (lib_version_text version).
Notation FP := (fill_pc fmt64 fmt32).
Notation FR := (fill_rec fmt64 fmt32).

Lemma fill_no_off pc : FP (pc_no_off pc) = pc_no_off (FP pc).
Proof. destruct pc. reflexivity. Qed.

Lemma map_no_off_fill l : map (fun pc => pc_no_off (FP pc)) l = map FP (map pc_no_off l).
Proof. rewrite map_map. apply map_ext. intros pc. symmetry. apply fill_no_off. Qed.

Notation FI := (fill_im fmt64).
Lemma fill_im_no_off im : FI (im_no_off im) = im_no_off (FI im).
Proof. destruct im as [g v [[x|x|x]|]]; reflexivity. Qed.
Lemma map_im_no_off_fill l : map (fun im => im_no_off (FI im)) l = map FI (map im_no_off l).
Proof. rewrite map_map. apply map_ext. intros im. symmetry. apply fill_im_no_off. Qed.
Lemma ims_copy_no_off : forall l gs, ims_copy (map im_no_off l) gs = ims_copy l gs.
Proof.
  induction l as [|im r IH]; intros [|g q]; cbn [map ims_copy]; try reflexivity. rewrite IH. f_equal. f_equal.
  destruct im as [gd [[[vb vf] vm vw vh]|] [[x|x|x]|]]; reflexivity.
Qed.
Lemma fill_proj_idem p : fill_proj fmt64 (fill_proj fmt64 p) = fill_proj fmt64 p.
Proof. destruct p as [x|x|x]; cbn; rewrite !(fill64_idem fmt64 nan_text64); reflexivity. Qed.
Lemma fill_im_idem im : FI (FI im) = FI im.
Proof.
  destruct im. unfold fill_im. cbn.
  rewrite (omap_idem _ _ fill_proj_idem), (omap_idem _ _ (fill_tr_idem fmt64 nan_text64)),
    (omap_idem _ _ (fill_dt_idem fmt64 nan_text64)). reflexivity.
Qed.

(** the metadata as written, the file offsets of the point clouds and of the image blobs erased *)
Definition content_view (st : wstate) : file_meta :=
  mkFileMeta (fill_root fmt64 (ws_root st)) (ws_exts st) (map (fun pc => pc_no_off (FP pc)) (ws_pcs st))
             (map (fun im => im_no_off (FI im)) (ws_imgs st)).

(** the bytes handed to the image writer for the final representations of every finished image,
    in order: a function of the program (the ghost of the abstract run) *)
Definition program_image_bytes (lv : xstring) (calls : list wcall) : list im_ghost :=
  map snd (a_imgs (arun lv a_init calls)).

Lemma copy_calls_abs st a pts gs : absr st a ->
  copy_calls (reader_view (fill_meta fmt64 fmt32 (ws_meta st))) pts gs = copy_calls (abs_view fmt64 fmt32 a) pts gs.
Proof.
  intros (Ar & Ae & Ap & Ai & _). unfold copy_calls, copy_tops, reader_view, fill_meta, abs_view, ws_meta.
  cbn [fm_root fm_extensions fm_pointclouds fm_images]. rewrite Ar, Ae. f_equal. f_equal. f_equal. f_equal. f_equal. f_equal.
  - rewrite <- (pcs_copy_no_off (map FP (ws_pcs st))). rewrite map_map.
    rewrite (map_ext _ (fun pc => FP (pc_no_off pc))) by (intros; symmetry; apply fill_no_off).
    rewrite <- (map_map pc_no_off FP), Ap, map_map. reflexivity.
  - rewrite <- (ims_copy_no_off (map FI (ws_imgs st))). rewrite map_map.
    rewrite (map_ext _ (fun im => FI (im_no_off im))) by (intros; symmetry; apply fill_im_no_off).
    rewrite <- (map_map im_no_off FI), Ai, map_map. reflexivity.
Qed.

Lemma ims_copy_wf : forall ims gs, Forall call_wf (ims_copy ims gs).
Proof.
  induction ims as [|im r IH]; intros [|g q]; cbn [ims_copy]; try constructor; [exact I|].
  apply Forall_app. split.
  - eapply Forall_impl; [|apply im_body_is_body]. intros c Hc. destruct c; try (destruct Hc; fail); exact I.
  - constructor; [exact I|]. constructor; [exact I|apply IH].
Qed.

Lemma copied_pairs_fill xs :
  Forall (fun x => consistent (fst x) (snd x) /\ proto_canonical (pc_prototype (fst x))) xs ->
  map (fun x => FP (fst x)) (map (copied_pair fmt64 fmt32) xs) = map (fun x => FP (fst x)) xs.
Proof.
  intros H. rewrite map_map. apply map_ext_in. intros x Hx. rewrite Forall_forall in H. destruct (H x Hx) as [C1 C2].
  unfold copied_pair. cbn [fst]. apply (copied_fill_eq fmt64 fmt32 nan_text64 nan_text32); assumption.
Qed.

Lemma copy_pcs_wf exts : forall xs, Forall (pc_src_ok exts) xs ->
  Forall call_wf (pcs_copy (map (fun x => FP (fst x)) xs) (map snd xs)).
Proof.
  induction xs as [|[pc pts] xs IH]; intros H; [constructor|]. inversion H as [|? ? Hx H']; subst.
  destruct Hx as ((_ & _ & _ & Hi) & Hp & _). cbn [fst snd] in Hi, Hp. cbn [map pcs_copy fst snd].
  constructor; [cbn [call_wf]; apply (i64_fill fmt64 fmt32); exact Hi|].
  unfold pc_body. rewrite <- app_assoc. apply Forall_app. split.
  { apply Forall_forall. intros c Hc. apply in_map_iff in Hc as (x & <- & _). exact I. }
  apply Forall_app. split.
  { apply Forall_forall. intros c Hc. apply in_map_iff in Hc as (vs & <- & Hvs). cbn [call_wf].
    rewrite Forall_forall in Hp. apply (Hp vs Hvs). }
  constructor; [exact I|]. constructor; [exact I|]. apply IH. exact H'.
Qed.

Theorem copy_idempotent : forall guid tops s st rs,
  units tops -> Forall call_wf tops ->
  (forall g proto, In (AddPointcloud g proto) tops -> scaled_canonical proto) ->
  acceptable_calls G L ws_init ls_init (NewWriter guid :: tops ++ [Finalize]) ->
  wrun (writer_run fmt64 fmt32 version (NewWriter guid :: tops ++ [Finalize])) pw0 = (s, Ok (st, rs)) ->
  forall is os bl, explains tops is os (ws_pcs st) (ws_imgs st) bl ->
  let m' := reader_view (fill_meta fmt64 fmt32 (ws_meta st)) in
  let gs := program_image_bytes L (NewWriter guid :: tops ++ [Finalize]) in
  let tops2 := copy_tops m' (item_points is) gs in
  let P2 := copy_calls m' (item_points is) gs in
  P2 = NewWriter (rt_guid (ws_root st)) :: tops2 ++ [Finalize] /\
  units tops2 /\ Forall call_wf tops2 /\
  Forall2 (fun im g => ghost_ok (im_no_off im) g) (ws_imgs st) gs /\
  acceptable_calls G L ws_init ls_init P2 /\
  exists s2 st2 rs2,
    wrun (writer_run fmt64 fmt32 version P2) pw0 = (s2, Ok (st2, rs2)) /\ Forall res_ok rs2 /\
    content_view st2 = content_view st /\
    forall is2 os2 bl2, explains tops2 is2 os2 (ws_pcs st2) (ws_imgs st2) bl2 ->
      item_pcs is2 = item_pcs is /\ program_image_bytes L P2 = gs /\
      copy_calls (reader_view (fill_meta fmt64 fmt32 (ws_meta st2))) (item_points is2) (program_image_bytes L P2) = P2.
Proof.
  intros guid tops s st rs Hu Hwf Hcan Hacc Hrun is os bl Hex m' gs tops2 P2.
  set (P := NewWriter guid :: tops ++ [Finalize]) in *.
  assert (HwfP : Forall call_wf P).
  { constructor; [exact I|]. apply Forall_app. split; [exact Hwf|]. constructor; [exact I|constructor]. }
  (* the original program on the abstract state *)
  destruct (api_accepts_abs fmt64 fmt32 version P HwfP (complete_borrow guid tops Hu) Hacc)
    as (s' & st' & rs' & l & Hrun' & Hspec & Hok & Hinv & Habs).
  rewrite Hrun in Hrun'. inversion Hrun'; subst s' st' rs'. clear Hrun'.
  set (a1 := astep L a_init (NewWriter guid)).
  set (aT := arun L a1 tops).
  assert (EaP : arun L a_init P = astep L aT Finalize).
  { unfold P. cbn [arun]. fold a1. rewrite arun_app. reflexivity. }
  assert (Hguid : guid <> []) by (cbn [acceptable_calls] in Hacc; destruct Hacc as [[_ H] _]; exact H).
  assert (Hgood : good L (arun L a_init P)).
  { unfold P in Hacc |- *. cbn [acceptable_calls] in Hacc. destruct Hacc as [Ha1 Ha2].
    destruct (accept_step_abs G L (gen_full_ok fmt64 fmt32) ws_init ls_init (NewWriter guid) BTop a_init ws_inv_init)
      as (l1 & st1 & x & Hrun1 & _ & Hinv1 & _ & Hg1 & Hk1 & Habs1);
      [intros H; discriminate H|exact I|reflexivity|exact Ha1|exact absr_init|].
    rewrite Hrun1 in Ha2. cbn [arun].
    apply (follow_run G L (gen_full_ok fmt64 fmt32) (tops ++ [Finalize]) st1 l1 _ Hinv1 Hg1); try assumption.
    - apply Forall_app. split; [exact Hwf|constructor; [exact I|constructor]].
    - rewrite Hk1. apply units_borrow; [exact Hu|exact I].
    - apply good_new. exact Hguid. }
  destruct (explains_abs L tops is os _ _ bl Hex a1 eq_refl) as (Hs1 & Hf1 & new & Hn1 & Hn2). cbv zeta in Hs1, Hf1, Hn1.
  fold aT in Hs1, Hf1, Hn1. cbn [a1 astep a_pcs app] in Hn1.
  set (aP := arun L a_init P) in *.
  assert (Epcs : a_pcs aP = new) by (rewrite EaP; cbn [astep a_pcs]; exact Hn1).
  assert (Epts : map snd (a_pcs aP) = item_points is).
  { rewrite Epcs. unfold item_points. rewrite <- Hn2, map_map. reflexivity. }
  pose proof Habs as (Ar & Ae & Ap & Ai & Af & _).
  assert (Egs : gs = map snd (a_imgs aP)) by reflexivity.
  (* limits, canonical prototypes *)
  assert (Hlim : Forall (fun x => custom_limits_ok true true (fst x) = true) (a_pcs aP)).
  { pose proof (explains_limits_complete _ _ _ _ _ _ Hex) as Hl. rewrite forallb_forall in Hl.
    apply Forall_forall. intros x Hx.
    assert (Hin : In (fst x) (map pc_no_off (ws_pcs st))) by (rewrite Ap; apply in_map; exact Hx).
    apply in_map_iff in Hin as (pc & Hpc & Hin). rewrite <- Hpc.
    destruct (no_off_fields pc) as (_ & _ & _ & E). rewrite E, <- limits_complete_custom. apply Hl. exact Hin. }
  assert (Hcanon : Forall (fun x => consistent (fst x) (snd x) /\ proto_canonical (pc_prototype (fst x))) (a_pcs aP)).
  { destruct Hgood as ((_ & _ & Hp & _) & _). pose proof (explains_protos _ _ _ _ _ _ Hex) as Hpr.
    rewrite Forall_forall in *. intros x Hx. destruct (Hp x Hx) as ((Hvp & _) & _ & Hc). split; [exact Hc|].
    apply canonical_of_valid; [exact Hvp|].
    assert (Hin : In (fst x) (map pc_no_off (ws_pcs st))) by (rewrite Ap; apply in_map; exact Hx).
    apply in_map_iff in Hin as (pc & Hpc & Hin). rewrite <- Hpc.
    destruct (no_off_fields pc) as (_ & E & _). rewrite E. destruct (Hpr pc Hin) as (g & Hg). apply (Hcan g _ Hg). }
  (* the copy, on the abstract state *)
  assert (EP2 : P2 = copy_calls (abs_view fmt64 fmt32 aP) (map snd (a_pcs aP)) (map snd (a_imgs aP))).
  { unfold P2, m'. rewrite Epts, <- Egs. apply copy_calls_abs. exact Habs. }
  assert (Hcn : Forall (fun x => proto_canonical (pc_prototype (fst x))) (a_pcs aP)).
  { eapply Forall_impl; [|exact Hcanon]. intros x [_ H]. exact H. }
  destruct (copy_abs fmt64 fmt32 L aP Hgood Hlim Hcn) as [Hacc2 Hrun2]. cbv zeta in Hacc2, Hrun2.
  rewrite <- EP2 in Hacc2, Hrun2.
  assert (Hu2 : units tops2) by apply copy_tops_units.
  assert (Hwf2 : Forall call_wf tops2).
  { unfold tops2, copy_tops, m'. constructor; [exact I|]. constructor; [exact I|]. apply Forall_app. split.
    { apply Forall_forall. intros c Hc. apply in_map_iff in Hc as (x & <- & _). exact I. }
    cbn [reader_view fill_meta fm_pointclouds ws_meta].
    rewrite <- (pcs_copy_no_off (map FP (ws_pcs st))), map_map.
    rewrite (map_ext _ (fun pc => FP (pc_no_off pc))) by (intros; symmetry; apply fill_no_off).
    rewrite <- (map_map pc_no_off FP), Ap, map_map, <- Epts.
    apply Forall_app. split; [|apply ims_copy_wf].
    destruct Hgood as ((_ & _ & Hp & _) & _). apply (copy_pcs_wf _ _ Hp). }
  assert (Hghost : Forall2 (fun im g => ghost_ok (im_no_off im) g) (ws_imgs st) gs).
  { rewrite Egs. destruct Hgood as (_ & (Him & _)). clear - Ai Him. revert Ai Him.
    generalize (a_imgs aP). induction (ws_imgs st) as [|im r IH]; intros [|[x g] q] Ai Him; try discriminate Ai; cbn [map]; constructor.
    - cbn [map fst] in Ai. inversion Ai as [[E1 E2]]. rewrite E1. apply Forall_inv in Him. destruct Him as [H _]. exact H.
    - cbn [map] in Ai. inversion Ai. apply IH; [assumption|]. apply (Forall_inv_tail Him). }
  assert (HP2 : P2 = NewWriter (rt_guid (ws_root st)) :: tops2 ++ [Finalize]).
  { unfold P2, copy_calls, tops2, m'. cbn. destruct (ws_root st). reflexivity. }
  assert (HwfP2 : Forall call_wf P2).
  { rewrite HP2. constructor; [exact I|]. apply Forall_app. split; [exact Hwf2|constructor; [exact I|constructor]]. }
  assert (Hb2 : borrow_ok BClosed P2) by (rewrite HP2; apply complete_borrow; exact Hu2).
  assert (HACC2 : acceptable_calls G L ws_init ls_init P2).
  { apply (lift_acc G L (gen_full_ok fmt64 fmt32) P2 ws_init ls_init a_init ws_inv_init); try assumption.
    - intros H; discriminate H.
    - exact absr_init. }
  split; [exact HP2|]. split; [exact Hu2|]. split; [exact Hwf2|]. split; [exact Hghost|]. split; [exact HACC2|].
  destruct (api_accepts_abs fmt64 fmt32 version P2 HwfP2 Hb2 HACC2) as (s2 & st2 & rs2 & l2 & Hr2 & Hspec2 & Hok2 & Hinv2 & Habs2).
  exists s2, st2, rs2. split; [exact Hr2|]. split; [exact Hok2|].
  pose proof Hrun2 as Hrun2'. rewrite Hrun2 in Habs2. pose proof Habs2 as (Ar2 & Ae2 & Ap2 & Ai2 & _).
  cbn [a_root a_exts a_pcs a_imgs] in Ar2, Ae2, Ap2, Ai2.
  (* the images of the copy *)
  assert (Eimg : map (fun im => im_no_off (FI im)) (ws_imgs st2) = map (fun im => im_no_off (FI im)) (ws_imgs st)).
  { rewrite !map_im_no_off_fill, Ai2, Ai, !map_map. apply map_ext. intros x. cbn [filled_im fst]. apply fill_im_idem. }
  assert (Efill : map (fun pc => pc_no_off (FP pc)) (ws_pcs st2) = map (fun pc => pc_no_off (FP pc)) (ws_pcs st)).
  { rewrite !map_no_off_fill, Ap2, Ap, !map_map.
    pose proof (copied_pairs_fill _ Hcanon) as H. rewrite map_map in H. exact H. }
  split.
  { unfold content_view. rewrite Efill, Eimg, Ae2, Ae, Ar2, <- Ar. f_equal.
    destruct (ws_root st). unfold copied_root, fill_root. cbn.
    rewrite (omap_idem _ _ (fill_dt_idem fmt64 nan_text64)). reflexivity. }
  intros is2 os2 bl2 Hex2.
  set (a1' := astep L a_init (NewWriter (rt_guid (ws_root st)))).
  destruct (explains_abs L tops2 is2 os2 _ _ bl2 Hex2 a1' eq_refl) as (_ & _ & new2 & Hm1 & Hm2). cbv zeta in Hm1.
  cbn [a1' astep a_pcs app] in Hm1.
  assert (Enew2 : new2 = map (copied_pair fmt64 fmt32) (a_pcs aP)).
  { rewrite <- Hm1. pose proof Hrun2 as H. rewrite HP2 in H. cbn [arun] in H. fold a1' in H. rewrite arun_app in H.
    cbn [arun astep] in H. inversion H. reflexivity. }
  assert (Eitems : item_pcs is2 = item_pcs is).
  { rewrite <- Hm2, Enew2, <- Hn2, <- Epcs, map_map. apply map_ext. intros x. unfold pair_item, copied_pair. cbn [fst snd].
    rewrite copied_proto. change (pc_prototype (FP (fst x))) with (map FR (pc_prototype (fst x))). rewrite dtypes_fill. reflexivity. }
  split; [exact Eitems|].
  assert (Egs2 : program_image_bytes L P2 = gs).
  { unfold program_image_bytes. rewrite Hrun2'. cbn [a_imgs]. rewrite map_map. rewrite Egs. reflexivity. }
  split; [exact Egs2|]. rewrite Egs2.
  rewrite (copy_calls_abs st2 _ _ _ Habs2), EP2. unfold item_points. rewrite Eitems. fold (item_points is). rewrite <- Epts, <- Egs.
  unfold copy_calls, copy_tops, abs_view. cbn [fm_root fm_extensions fm_pointclouds fm_images a_root a_exts a_pcs a_imgs].
  rewrite (copied_pairs_fill _ Hcanon).
  replace (map (fun x => FI (fst x)) (map (filled_im fmt64) (a_imgs aP))) with (map (fun x => FI (fst x)) (a_imgs aP))
    by (rewrite map_map; apply map_ext; intros x; cbn [filled_im fst]; symmetry; apply fill_im_idem).
  destruct (a_root aP). unfold copied_root, reader_root, fill_root. cbn.
  rewrite (omap_idem _ _ (fill_dt_idem fmt64 nan_text64)). reflexivity.
Qed.

End Copy.

Print Assumptions copy_idempotent.

(** * 11. The calls of the copy are inside the quantifier of the read-back theorem
    ([call_ok] of Proofs/WapiFullInv.v: strings of XML characters, limits that are i64 values),
    so [C10_accepted_reads_back] / [api_roundtrip] apply to the copy. *)
From E57 Require Import Spec.XmlRender Spec.XgWriterOk Proofs.WapiFullInv.

Section CopyOk.
Variables fmt64 fmt32 : N -> xstring.
Notation FP := (fill_pc fmt64 fmt32).

Definition call_extra (c : wcall) : Prop :=
  match c with
  | NewWriter guid => string_ok guid = true
  | SetCoordinateMetadata v => opt_string_ok v = true
  | RegisterExtension ns url => chars_ok url = true
  | AddPointcloud guid proto => string_ok guid = true /\ forallb (fun r => float_bits_ok (r_type r)) proto = true
  | PcSet f => pc_field_ok f
  | AddImage guid => string_ok guid = true
  | ImSet f => im_field_ok f
  | _ => True
  end.
Lemma call_ok_split c : call_ok c <-> call_wf c /\ call_extra c.
Proof. unfold call_ok, call_extra. destruct c; tauto. Qed.

Lemma lv_ok_fill v : lv_ok (fill_lv fmt64 fmt32 v) = lv_ok v.
Proof. destruct v; reflexivity. Qed.
Lemma il_ok_fill l : ofo il_ok (option_map (fill_il fmt64 fmt32) l) = ofo il_ok l.
Proof.
  destruct l as [[a b]|]; [|reflexivity]. cbn. unfold il_ok. cbn. destruct a, b; cbn; rewrite ?lv_ok_fill; reflexivity.
Qed.
Lemma cl_ok_fill l : ofo cl_ok (option_map (fill_cl fmt64 fmt32) l) = ofo cl_ok l.
Proof.
  destruct l as [[a b c d e f]|]; [|reflexivity]. cbn. unfold cl_ok. cbn.
  destruct a, b, c, d, e, f; cbn; rewrite ?lv_ok_fill; reflexivity.
Qed.

Lemma canon64_lt b : b < 2 ^ 64 -> canon64 b < 2 ^ 64.
Proof. intros H. unfold canon64. destruct (_ && _); [reflexivity|exact H]. Qed.
Lemma canon32_lt b : b < 2 ^ 32 -> canon32 b < 2 ^ 32.
Proof. intros H. unfold canon32. destruct (_ && _); [reflexivity|exact H]. Qed.
Lemma float_bits_fill t : float_bits_ok t = true -> float_bits_ok (fill_type fmt64 fmt32 t) = true.
Proof.
  destruct t as [mn mx|mn mx| |]; try (intros; reflexivity); cbn [float_bits_ok fill_type]; intros H;
    apply andb_prop in H as [H1 H2]; apply andb_true_intro; split.
  - destruct mn; [|reflexivity]. cbn in *. apply N.ltb_lt. apply canon32_lt. apply N.ltb_lt. exact H1.
  - destruct mx; [|reflexivity]. cbn in *. apply N.ltb_lt. apply canon32_lt. apply N.ltb_lt. exact H2.
  - destruct mn; [|reflexivity]. cbn in *. apply N.ltb_lt. apply canon64_lt. apply N.ltb_lt. exact H1.
  - destruct mx; [|reflexivity]. cbn in *. apply N.ltb_lt. apply canon64_lt. apply N.ltb_lt. exact H2.
Qed.

Lemma pc_copy_extra exts : forall pcs pts, Forall (pc_good exts) pcs -> Forall call_extra (pcs_copy (map FP pcs) pts).
Proof.
  induction pcs as [|pc r IH]; intros [|p q] H; cbn [map pcs_copy]; try constructor.
  - inversion H as [|? ? (_ & _ & Hs & _ & _ & _ & Hlg) _]; subst. cbn [call_extra]. split.
    + unfold pc_strings in Hs. repeat (apply andb_prop in Hs as [Hs ?]). destruct pc. cbn in *. unfold guid_of. cbn.
      destruct pc_guid; [assumption|reflexivity].
    + change (pc_prototype (FP pc)) with (map (fill_rec fmt64 fmt32) (pc_prototype pc)).
      unfold proto_limits_good in Hlg. rewrite forallb_forall in *. intros rc Hr. apply in_map_iff in Hr as (r0 & <- & Hr0).
      cbn [fill_rec r_type]. apply float_bits_fill. specialize (Hlg r0 Hr0). unfold limits_good in Hlg.
      apply andb_prop in Hlg as [_ Hlg]. exact Hlg.
  - inversion H as [|? ? (_ & _ & Hs & _ & Hil & Hcl & _) H']; subst. unfold pc_body. rewrite <- app_assoc. apply Forall_app. split.
    { unfold pc_strings in Hs. repeat (apply andb_prop in Hs as [Hs ?]).
      destruct pc. cbn in *. repeat constructor; cbn [call_extra pc_field_ok]; try assumption; try exact I.
      - rewrite il_ok_fill. exact Hil.
      - rewrite cl_ok_fill. exact Hcl. }
    apply Forall_app. split.
    { apply Forall_forall. intros c Hc. apply in_map_iff in Hc as (x & <- & _). exact I. }
    constructor; [exact I|]. constructor; [exact I|]. apply IH. exact H'.
Qed.

Lemma opt_set_extra {A} (mk : A -> im_field) (o : option A) :
  (forall v, o = Some v -> im_field_ok (mk v)) -> Forall call_extra (opt_set mk o).
Proof. intros H. destruct o; repeat constructor. cbn [call_extra]. apply H. reflexivity. Qed.

Lemma im_copy_extra : forall ims gs, forallb image_xml_ok ims = true ->
  Forall call_extra (ims_copy (map (fill_im fmt64) ims) gs).
Proof.
  induction ims as [|im r IH]; intros [|g q] H; cbn [map ims_copy]; try constructor.
  - cbn [forallb] in H. apply andb_prop in H as [H _]. unfold image_xml_ok in H. repeat (apply andb_prop in H as [H ?]).
    destruct im as [[gd|]]; cbn in *; [assumption|reflexivity].
  - cbn [forallb] in H. apply andb_prop in H as [H H']. unfold image_xml_ok in H. repeat (apply andb_prop in H as [H ?]).
    apply Forall_app. split.
    + destruct im as [gd vr pr tr pg nm ds aq sv sm ss]. unfold im_body, im_setters. cbn in *.
      repeat (apply Forall_app; split); try (apply opt_set_extra; intros v ->; cbn; try exact I; assumption).
      * apply opt_set_extra. intros; exact I.
      * apply opt_set_extra. intros; exact I.
      * unfold vis_call. destruct vr, (fst g) as [[d k]|]; repeat constructor.
      * unfold proj_call. destruct pr as [[x|x|x]|], (snd g) as [[d k]|]; cbn; repeat constructor.
    + constructor; [exact I|]. constructor; [exact I|]. apply IH. exact H'.
Qed.

Theorem copy_calls_ok : forall st pts gs, meta_inv st ->
  Forall call_wf (copy_calls (reader_view (fill_meta fmt64 fmt32 (ws_meta st))) pts gs) ->
  Forall call_ok (copy_calls (reader_view (fill_meta fmt64 fmt32 (ws_meta st))) pts gs).
Proof.
  intros st pts gs (He & Hr & Hp & Hi & _) Hwf.
  assert (Hx : Forall call_extra (copy_calls (reader_view (fill_meta fmt64 fmt32 (ws_meta st))) pts gs)).
  { unfold copy_calls, copy_tops, reader_view, fill_meta, ws_meta. cbn [fm_root fm_extensions fm_pointclouds fm_images app].
    destruct Hr as (_ & _ & R3 & _ & R5). destruct (ws_root st). cbn in R3, R5 |- *.
    constructor; [exact R3|]. constructor; [exact R5|]. constructor; [exact I|].
    rewrite <- app_assoc. apply Forall_app. split.
    { destruct He as (F & _). apply Forall_forall. intros c Hc. apply in_map_iff in Hc as (e & <- & Hin).
      rewrite Forall_forall in F. destruct (F e Hin) as (_ & _ & _ & H). exact H. }
    rewrite <- app_assoc. apply Forall_app. split; [apply (pc_copy_extra (ws_exts st)); exact Hp|].
    apply Forall_app. split; [apply im_copy_extra; exact Hi|constructor; [exact I|constructor]]. }
  rewrite Forall_forall in *. intros c Hc. apply call_ok_split. split; [apply Hwf|apply Hx]; exact Hc.
Qed.

End CopyOk.

(** * 12. Reading the copy *)
From E57 Require Import Model.PagedReader Model.QueueReader Model.ReaderOpen Model.XmlTree Model.XmlParse Model.XmlExtract
  Proofs.C04Compose Proofs.WapiFull.

Section CopyRead.
Variables fmt64 fmt32 : N -> xstring.
Variables pf64 pf32 : xstr -> option N.
Variable fdiv : N -> Z -> N.
Variable version : xstring.
Hypothesis plain64 : forall b, plain_text (fmt64 b) = true.
Hypothesis plain32 : forall b, plain_text (fmt32 b) = true.
Hypothesis back64 : forall b, pf64 (fmt64 b) = Some (canon64 b).
Hypothesis back32 : forall b, pf32 (fmt32 b) = Some (canon32 b).
Hypothesis version_ok : string_ok (lib_version_text version) = true.
Hypothesis nan_text64 : forall b, fmt64 (canon64 b) = fmt64 b.
Hypothesis nan_text32 : forall b, fmt32 (canon32 b) = fmt32 b.
Notation G := (gen_xml_full fmt64 fmt32).
Notation L := (lib_version_text version).

Theorem copy_reads_back : forall guid tops s st rs,
  units tops ->
  Forall call_ok (NewWriter guid :: tops ++ [Finalize]) ->
  (forall g proto, In (AddPointcloud g proto) tops -> scaled_canonical proto) ->
  acceptable_calls G L ws_init ls_init (NewWriter guid :: tops ++ [Finalize]) ->
  wrun (writer_run fmt64 fmt32 version (NewWriter guid :: tops ++ [Finalize])) pw0 = (s, Ok (st, rs)) ->
  forall is os bl, explains tops is os (ws_pcs st) (ws_imgs st) bl ->
  let m' := reader_view (fill_meta fmt64 fmt32 (ws_meta st)) in
  let gs := program_image_bytes L (NewWriter guid :: tops ++ [Finalize]) in
  let tops2 := copy_tops m' (item_points is) gs in
  let P2 := copy_calls m' (item_points is) gs in
  exists s2 st2 rs2,
    wrun (writer_run fmt64 fmt32 version P2) pw0 = (s2, Ok (st2, rs2)) /\ Forall res_ok rs2 /\
    content_view fmt64 fmt32 st2 = content_view fmt64 fmt32 st /\
    (forallb pc_u64 (ws_pcs st2) = true -> forallb im_ok (ws_imgs st2) = true -> len (ws_exts st2) < 65535 ->
     (forall xml, gen_root (fill_meta fmt64 fmt32 (ws_meta st2)) = Ok xml -> len xml <= MAX_XML_SIZE) ->
     len (d_bytes (pw_dev (fst (pw_flush s2)))) < 2 ^ 64 ->
     exists is2 os2 xml2 bl2,
       explains tops2 is2 os2 (ws_pcs st2) (ws_imgs st2) bl2 /\
       item_pcs is2 = item_pcs is /\ program_image_bytes L P2 = gs /\
       copy_calls (reader_view (fill_meta fmt64 fmt32 (ws_meta st2))) (item_points is2) (program_image_bytes L P2) = P2 /\
       let f := d_bytes (pw_dev (fst (pw_flush s2))) in
       all_pages_valid f = true /\
       exists rs0 h d',
         reader_open (dev_init f None) = (d', Ok (rs0, h, xml2)) /\
         read_meta pf64 pf32 fdiv xml2 = Ok (reader_view (fill_meta fmt64 fmt32 (ws_meta st2))) /\
         Forall2 (reads_back rs0) is2 os2).
Proof.
  intros guid tops s st rs Hu Hcalls Hcan Hacc Hrun is os bl Hex m' gs tops2 P2.
  assert (Hwft : Forall call_wf tops).
  { apply Forall_inv_tail in Hcalls. apply Forall_app in Hcalls as [H _]. rewrite Forall_forall in *.
    intros c Hc. apply (H c Hc). }
  destruct (copy_idempotent fmt64 fmt32 version nan_text64 nan_text32 guid tops s st rs Hu Hwft Hcan Hacc Hrun
              is os bl Hex) as (HP2 & Hu2 & Hwf2 & _ & Hacc2 & s2 & st2 & rs2 & Hr2 & Hok2 & Hcv & Hrest).
  fold m' in HP2, Hu2, Hwf2, Hacc2, Hr2, Hrest. fold gs in HP2, Hu2, Hwf2, Hacc2, Hr2, Hrest.
  fold tops2 in HP2, Hu2, Hwf2, Hrest. fold P2 in HP2, Hacc2, Hr2, Hrest.
  exists s2, st2, rs2. split; [exact Hr2|]. split; [exact Hok2|]. split; [exact Hcv|].
  intros Hu64 Him Hext Hxml Hsz.
  (* the metadata invariant of the original's final state *)
  destruct (wrun_image _ (writer_run fmt64 fmt32 version (NewWriter guid :: tops ++ [Finalize]))) as (Hres & _ & _).
  rewrite Hrun in Hres. cbn [snd] in Hres.
  destruct (wrun_spec (writer_run fmt64 fmt32 version (NewWriter guid :: tops ++ [Finalize])) ls_init) as [l r] eqn:Espec.
  cbn [snd] in Hres. subst r.
  pose proof (meta_run G L (gen_full_total fmt64 fmt32) version_ok _ ws_init ls_init l st rs ws_inv_init meta_inv_init Hcalls Espec)
    as Hmeta.
  assert (Hok2' : Forall call_ok P2).
  { apply (copy_calls_ok fmt64 fmt32 st (item_points is) gs Hmeta). fold m'. fold P2. rewrite HP2.
    constructor; [exact I|]. apply Forall_app. split; [exact Hwf2|constructor; [exact I|constructor]]. }
  rewrite HP2 in Hok2', Hr2.
  destruct (accepted_reads_back fmt64 fmt32 pf64 pf32 fdiv version plain64 plain32 back64 back32 version_ok
              _ tops2 s2 st2 rs2 Hu2 Hok2' Hr2 Hok2 Hu64 Him Hext Hxml Hsz)
    as (is2 & os2 & xml2 & bl2 & Hex2 & _ & _ & Hfile).
  destruct (Hrest is2 os2 bl2 Hex2) as (E1 & E2 & E3).
  exists is2, os2, xml2, bl2. split; [exact Hex2|]. split; [exact E1|]. split; [exact E2|]. split; [exact E3|]. exact Hfile.
Qed.

End CopyRead.

Print Assumptions copy_reads_back.
