(** Writer API, part 9 (C19): copying a file through the library.
    A client reads what the reader reports for a file written by an accepted
    complete program P - the metadata [reader_view (fill_meta (ws_meta st))] and the
    points of every point cloud - and issues the calls [copy_calls]: new with the
    same GUID, coordinate metadata, creation time, every extension, and per point
    cloud: [add_pointcloud] with the reported GUID and prototype, every setter with
    the reported value, [add_point] for every raw point, finalize.
    Shown here, for programs WITHOUT IMAGES ([_partial]: the image blobs' bytes are
    not tracked by the abstraction of Proofs/WapiAccept.v): the copy is again a complete
    program of acceptable calls, hence every call returns Ok (Proofs/WapiAccept.v);
    its final metadata equals the original's except for the file offsets; its items
    are the original's point cloud items; and the calls a client issues from the
    copy are the SAME calls: copying the copy is the identity. *)
From Coq Require Import ZArith Lia Bool.
From Flocq Require Import Binary Bits.
From E57 Require Import Base.Prelude Base.Floats Spec.PageSpec Model.Device Model.PagedWriter Model.Prog Model.BsWrite
  Model.Record Model.PcWriter Model.FileBin Spec.BitSpec Model.Meta Model.MetaFile Model.XmlGen Model.WriterApi Model.WriterFull.
From E57 Require Import Proofs.PagedWriterLemmas Proofs.PagedWriterProofs Proofs.ProgTransfer Proofs.PcWriterLemmas
  Proofs.PcWriterProofs Proofs.WapiProg Proofs.WapiPc Proofs.WapiRules Proofs.WapiInv Proofs.WapiMain Proofs.WapiFullProg
  Proofs.WapiFullMeta Proofs.WapiAccept.
From Coq Require Import ZifyN ZifyNat ZifyBool.
Open Scope N_scope.

(** * 1. Acceptability on the abstract state *)

Definition aacc (a : astate) (c : wcall) : Prop :=
  match c with
  | NewWriter g => g <> []
  | RegisterExtension ns url =>
      name_wf ns /\ name_start_ok ns /\ url <> URL_XML /\ url <> URL_XMLNS /\ url <> [] /\ url <> URL_E57 /\
      ~ registered (a_exts a) ns /\ ~ (exists ns', In (mkExtension ns' url) (a_exts a))
  | AddBlob _ | AddImage _ | Finalize => a_fin a = false
  | AddPointcloud _ proto => a_fin a = false /\ representable_prototype (a_exts a) proto /\ packet_margin proto
  | PcAddPoint vs =>
      match a_sub a with APc p => ap_fin p = false /\ representable_point (ap_proto p) vs | _ => True end
  | PcFinalize =>
      match a_sub a with
      | APc p => ap_fin p = false /\ custom_limits_ok (ap_cil p) (ap_ccl p) (ap_desc p) = true
      | _ => True
      end
  | _ => True
  end.

Definition not_im (c : wcall) : Prop :=
  match c with
  | AddImage _ | ImSet _ | ImAddVisualReference _ _ _ _ _ | ImAddPinhole _ _ _ _ | ImAddSpherical _ _ _ _
  | ImAddCylindrical _ _ _ _ | ImFinalize | ImDrop => False
  | _ => True
  end.

Lemma acc_abs st a c k : absr st a -> bnext (bstate_of st) c = Some k -> acceptable_call st c -> aacc a c.
Proof.
  intros (Ar & Ae & Ap & Af & Asub) Hb [Hrep Hx]. unfold bstate_of in Hb. unfold representable_call in Hrep.
  destruct (ws_open st).
  - destruct (ws_sub st) as [|ps|im fin], (a_sub a) as [|p|] eqn:Ea; try contradiction;
      destruct c; try discriminate Hb; cbn [aacc]; rewrite <- ?Ae, <- ?Af; try exact I; try exact Hrep; try exact Hx.
    + destruct Hrep as [H1 H2]. auto.
    + rewrite Ea. destruct Asub as (Bp & _ & _ & Bf & _). rewrite <- Bp, <- Bf. exact Hrep.
    + rewrite Ea. destruct Asub as (_ & _ & Bd & Bf & Bi & Bc & _). rewrite <- Bd, <- Bf, <- Bi, <- Bc. exact Hrep.
  - destruct c; try discriminate Hb. exact Hx.
Qed.

Lemma abs_acc st a c k : absr st a -> bnext (bstate_of st) c = Some k -> not_im c -> aacc a c -> acceptable_call st c.
Proof.
  intros (Ar & Ae & Ap & Af & Asub) Hb Hn Ha. unfold bstate_of in Hb. unfold acceptable_call, representable_call.
  destruct (ws_open st).
  - destruct (ws_sub st) as [|ps|im fin], (a_sub a) as [|p|] eqn:Ea; try contradiction;
      destruct c; try discriminate Hb; try (destruct Hn; fail); cbn [aacc] in Ha; rewrite ?Ae, ?Af; try (split; [exact I|exact I]);
      try (split; [exact Ha|exact I]).
    + destruct Ha as (H1 & H2 & H3). auto.
    + rewrite Ea in Ha. destruct Asub as (Bp & _ & _ & Bf & _). rewrite Bp, Bf. split; [exact Ha|exact I].
    + rewrite Ea in Ha. destruct Asub as (_ & _ & Bd & Bf & Bi & Bc & _). rewrite Bd, Bf, Bi, Bc. split; [exact Ha|exact I].
  - destruct c; try discriminate Hb. destruct (ws_sub st); split; try exact I; exact Ha.
Qed.

(** * 2. What holds of the abstract state after accepted calls *)

Definition checks (exts : list extension) (proto : list record) : Prop :=
  validate_prototype proto = Ok tt /\ ext_validate_prototype proto exts = Ok tt /\
  (exists mpp, get_max_packet_points (proto_dtypes proto) = Ok mpp) /\ proto_i64 proto.
Definition pt_ok (proto : list record) (vs : list rvalue) : Prop :=
  values_ok (proto_dtypes proto) vs = true /\ Forall value_wf vs.
Definition fold_bounds (proto : list record) (pts : list (list rvalue)) (b : run_bounds) : run_bounds :=
  fold_left (fun b vs => fst (update_bounds proto vs b)) pts b.
(** the bounds, the record count of a finished descriptor are those of its points *)
Definition consistent (pc : pointcloud) (pts : list (list rvalue)) : Prop :=
  let bb := fold_bounds (pc_prototype pc) pts (bounds_new (pc_prototype pc)) in
  pc_cartesian_bounds pc = option_map cart_bounds_of (rb_cart bb) /\
  pc_spherical_bounds pc = option_map sph_bounds_of (rb_sph bb) /\
  pc_index_bounds pc = option_map idx_bounds_of (rb_idx bb) /\
  pc_records pc = len pts /\ pc_file_offset pc = 0 /\ exists g, pc_guid pc = Some g.
Definition pc_src_ok (exts : list extension) (x : pointcloud * list (list rvalue)) : Prop :=
  checks exts (pc_prototype (fst x)) /\ Forall (pt_ok (pc_prototype (fst x))) (snd x) /\ consistent (fst x) (snd x).
Definition ext_rep (e : extension) : Prop :=
  name_wf (e_namespace e) /\ name_start_ok (e_namespace e) /\
  e_url e <> URL_XML /\ e_url e <> URL_XMLNS /\ e_url e <> [] /\ e_url e <> URL_E57.
Definition exts_rep (exts : list extension) : Prop :=
  Forall ext_rep exts /\ NoDup (map e_namespace exts) /\ NoDup (map e_url exts).
Definition root_shape (lv : xstring) (r : root) : Prop :=
  rt_format r = rt_format root_default /\ rt_major_version r = 1%Z /\ rt_minor_version r = 0%Z /\
  rt_library_version r = Some lv /\ rt_guid r <> [].
Definition sub_ok (exts : list extension) (p : apc) : Prop :=
  checks exts (ap_proto p) /\ Forall (pt_ok (ap_proto p)) (ap_pts p) /\
  ap_bounds p = fold_bounds (ap_proto p) (ap_pts p) (bounds_new (ap_proto p)) /\
  pc_prototype (ap_desc p) = ap_proto p /\ exists g, pc_guid (ap_desc p) = Some g.
Definition good (lv : xstring) (a : astate) : Prop :=
  root_shape lv (a_root a) /\ exts_rep (a_exts a) /\ Forall (pc_src_ok (a_exts a)) (a_pcs a) /\
  match a_sub a with APc p => ap_fin p = false -> sub_ok (a_exts a) p | _ => True end.

Lemma checks_mono exts e proto : checks exts proto -> checks (exts ++ [e]) proto.
Proof. intros (H1 & H2 & H3 & H4). split; [exact H1|]. split; [apply ext_validate_mono; exact H2|]. auto. Qed.

Lemma registered_in exts ns : registered exts ns <-> In ns (map e_namespace exts).
Proof.
  unfold registered. rewrite in_map_iff. split.
  - intros (u & Hin). exists (mkExtension ns u). auto.
  - intros ([n u] & He & Hin). cbn in He. subst n. eauto.
Qed.
Lemma url_in exts url : (exists ns, In (mkExtension ns url) exts) <-> In url (map e_url exts).
Proof.
  rewrite in_map_iff. split.
  - intros (n & Hin). exists (mkExtension n url). auto.
  - intros ([n u] & He & Hin). cbn in He. subst u. eauto.
Qed.

Lemma desc_finish_head d b off n :
  pc_guid (desc_finish d b off n) = pc_guid d /\ pc_file_offset (desc_finish d b off n) = off.
Proof. destruct d. split; reflexivity. Qed.

Lemma fold_bounds_snoc proto pts vs b :
  fold_bounds proto (pts ++ [vs]) b = fst (update_bounds proto vs (fold_bounds proto pts b)).
Proof. unfold fold_bounds. rewrite fold_left_app. reflexivity. Qed.

Lemma checks_of_rep exts proto : representable_prototype exts proto -> packet_margin proto -> proto_i64 proto ->
  checks exts proto.
Proof.
  intros Hr Hm Hi. split; [apply (validate_prototype_complete exts); exact Hr|]. split.
  - apply ext_validate_prototype_complete.
    destruct Hr as (_ & _ & _ & _ & _ & _ & _ & _ & _ & _ & _ & _ & _ & _ & _ & _ & _ & _ & H & _). exact H.
  - split; [apply packet_margin_iff; exact Hm|exact Hi].
Qed.

Lemma rep_of_checks exts proto : checks exts proto -> representable_prototype exts proto /\ packet_margin proto.
Proof.
  intros (H1 & H2 & (mpp & H3) & _). split; [|apply packet_margin_iff; eauto].
  pose proof (validate_prototype_ok proto H1) as R. unfold rules_part in R.
  destruct R as (R1 & R2 & R3 & R4 & R5 & R6 & R7 & R8 & R9 & R10 & R11 & R12 & R13 & R14 & R15 & R16 & R17 & R18 & _).
  unfold representable_prototype. repeat (split; [assumption|]).
  split; [apply (ext_validate_prototype_ok proto exts H2)|apply (capacity_fits proto mpp H3)].
Qed.

Theorem good_step lv a c : good lv a -> aacc a c -> call_wf c -> good lv (astep lv a c).
Proof.
  intros (Hr & He & Hp & Hs) Ha Hwf. destruct c; cbn [astep aacc call_wf] in *;
    try (split; [exact Hr|split; [exact He|split; [exact Hp|exact Hs]]]);
    unfold good, set_asub; cbn [a_root a_exts a_pcs a_sub].
  - (* NewWriter *) split; [repeat split; try reflexivity; exact Ha|]. split; [repeat constructor|]. split; [constructor|exact I].
  - (* SetCoordinateMetadata *) destruct (a_root a). cbn in *. split; [exact Hr|]. auto.
  - (* SetCreation *) destruct (a_root a). cbn in *. split; [exact Hr|]. auto.
  - (* RegisterExtension *)
    destruct Ha as (N1 & N2 & U1 & U2 & U3 & U4 & Hn & Hu). cbn [a_root a_exts a_pcs a_sub]. split; [exact Hr|].
    destruct He as (F & Nn & Nu). split.
    { split; [apply Forall_app; split; [exact F|constructor; [exact (conj N1 (conj N2 (conj U1 (conj U2 (conj U3 U4)))))|constructor]]|].
      rewrite !map_app. cbn [map e_namespace e_url].
      split; apply NoDup_app_snoc; try assumption; [rewrite <- registered_in; exact Hn|rewrite <- url_in; exact Hu]. }
    split.
    { rewrite Forall_forall in *. intros x Hx. destruct (Hp x Hx) as (C1 & C2 & C3).
      split; [apply checks_mono; exact C1|auto]. }
    destruct (a_sub a) as [|p|]; try exact I. intros Hf. destruct (Hs Hf) as (C1 & C2). split; [apply checks_mono; exact C1|exact C2].
  - (* AddPointcloud *)
    destruct Ha as (_ & Hrp & Hm). cbn [set_asub a_root a_exts a_pcs a_sub]. split; [exact Hr|]. split; [exact He|].
    split; [exact Hp|]. intros _. cbn [ap_proto ap_pts ap_bounds ap_desc].
    split; [apply checks_of_rep; assumption|]. split; [constructor|]. split; [reflexivity|]. split; [reflexivity|].
    exists guid. reflexivity.
  - (* PcSet *)
    destruct (a_sub a) as [|p|] eqn:Ea; try (split; [exact Hr|split; [exact He|split; [exact Hp|rewrite Ea; exact I]]]).
    cbn [set_asub a_root a_exts a_pcs a_sub]. split; [exact Hr|]. split; [exact He|]. split; [exact Hp|].
    cbn [ap_fin ap_proto ap_pts ap_bounds ap_desc]. intros Hf. destruct (Hs Hf) as (C1 & C2 & C3 & C4 & g & C5).
    destruct (pc_set_keeps f (ap_desc p)) as [K1 K2]. unfold sub_ok. cbn [ap_fin ap_proto ap_pts ap_bounds ap_desc].
    rewrite K1, K2. eauto 8.
  - (* PcAddPoint *)
    destruct (a_sub a) as [|p|] eqn:Ea; try (split; [exact Hr|split; [exact He|split; [exact Hp|rewrite Ea; exact I]]]).
    destruct Ha as [Hf Hrp]. cbn [set_asub a_root a_exts a_pcs a_sub]. split; [exact Hr|]. split; [exact He|].
    split; [exact Hp|]. intros _. destruct (Hs Hf) as (C1 & C2 & C3 & C4 & C5). unfold sub_ok.
    cbn [ap_fin ap_proto ap_pts ap_bounds ap_desc]. split; [exact C1|].
    split; [apply Forall_app; split; [exact C2|constructor; [split; [apply representable_values_ok; exact Hrp|exact Hwf]|constructor]]|].
    split; [rewrite fold_bounds_snoc, <- C3; reflexivity|]. auto.
  - (* PcFinalize *)
    destruct (a_sub a) as [|p|] eqn:Ea; try (split; [exact Hr|split; [exact He|split; [exact Hp|rewrite Ea; exact I]]]).
    destruct Ha as [Hf _]. destruct (Hs Hf) as (C1 & C2 & C3 & C4 & g & C5).
    cbn [a_root a_exts a_pcs a_sub]. split; [exact Hr|]. split; [exact He|]. split; [|intros H; discriminate H].
    apply Forall_app. split; [exact Hp|]. constructor; [|constructor]. unfold pc_src_ok. cbn [fst snd].
    destruct (desc_finish_bounds (ap_desc p) (ap_bounds p) 0 (len (ap_pts p))) as (D1 & D2 & D3 & D4 & _ & _ & D7).
    destruct (desc_finish_head (ap_desc p) (ap_bounds p) 0 (len (ap_pts p))) as (D8 & D9).
    rewrite D7, C4. split; [exact C1|]. split; [exact C2|]. unfold consistent. cbv zeta. rewrite D7, C4, <- C3, D1, D2, D3, D4, D8, D9.
    repeat (split; [reflexivity|]). eauto.
  - (* PcDrop *) auto.
  - (* AddImage *) auto.
  - (* ImDrop *) auto.
Qed.

(** * 3. Real runs and abstract runs *)

Fixpoint aacc_calls (lv : xstring) (a : astate) (calls : list wcall) : Prop :=
  match calls with
  | [] => True
  | c :: r => aacc a c /\ aacc_calls lv (astep lv a c) r
  end.

Section Runs.
Variable gen_xml : file_meta -> res (list N).
Variable lib_version : xstring.
Hypothesis gen_xml_ok : forall m, rt_guid (fm_root m) <> [] -> exists xml, gen_xml m = Ok xml.
Notation step := (wapi_step gen_xml lib_version).
Notation run := (wapi_run gen_xml lib_version).
Notation ACC := (acceptable_calls gen_xml lib_version).

(** the abstract state after real, acceptable calls is [good] *)
Lemma follow_run : forall calls st l a, ws_inv st l -> guid_inv st -> Forall call_wf calls ->
  borrow_ok (bstate_of st) calls -> ACC st l calls -> absr st a -> good lib_version a ->
  good lib_version (arun lib_version a calls).
Proof.
  induction calls as [|c r IH]; intros st l a Hinv Hg Hwf Hb Ha Habs Hgood; [exact Hgood|].
  inversion Hwf as [|? ? Hc Hr]; subst. cbn [borrow_ok] in Hb.
  destruct (bnext (bstate_of st) c) as [k'|] eqn:Ek; [|destruct Hb].
  cbn [acceptable_calls] in Ha. destruct Ha as [Ha1 Ha2].
  destruct (accept_step_abs gen_xml lib_version gen_xml_ok st l c k' a Hinv Hg Hc Ek Ha1 Habs)
    as (l1 & st1 & x & Hrun1 & Hx & Hinv1 & Hle1 & Hg1 & Hk1 & Habs1).
  rewrite Hrun1 in Ha2. rewrite <- Hk1 in Hb. cbn [arun].
  apply (IH st1 l1 _ Hinv1 Hg1 Hr Hb Ha2 Habs1).
  apply good_step; [exact Hgood|apply (acc_abs st a c k' Habs Ek Ha1)|exact Hc].
Qed.

(** calls that are acceptable on the abstract state are acceptable on the real one *)
Lemma lift_acc : forall calls st l a, ws_inv st l -> guid_inv st -> Forall call_wf calls ->
  borrow_ok (bstate_of st) calls -> Forall not_im calls -> absr st a -> aacc_calls lib_version a calls ->
  ACC st l calls.
Proof.
  induction calls as [|c r IH]; intros st l a Hinv Hg Hwf Hb Hn Habs Ha; [exact I|].
  inversion Hwf as [|? ? Hc Hr]; subst. inversion Hn as [|? ? Hn1 Hn2]; subst. cbn [borrow_ok] in Hb.
  destruct (bnext (bstate_of st) c) as [k'|] eqn:Ek; [|destruct Hb].
  cbn [aacc_calls] in Ha. destruct Ha as [Ha1 Ha2].
  pose proof (abs_acc st a c k' Habs Ek Hn1 Ha1) as Hacc.
  destruct (accept_step_abs gen_xml lib_version gen_xml_ok st l c k' a Hinv Hg Hc Ek Hacc Habs)
    as (l1 & st1 & x & Hrun1 & Hx & Hinv1 & Hle1 & Hg1 & Hk1 & Habs1).
  cbn [acceptable_calls]. split; [exact Hacc|]. rewrite Hrun1. rewrite <- Hk1 in Hb.
  apply (IH st1 l1 _ Hinv1 Hg1 Hr Hb Hn2 Habs1 Ha2).
Qed.

End Runs.

Lemma arun_app lv a c1 c2 : arun lv a (c1 ++ c2) = arun lv (arun lv a c1) c2.
Proof. revert a. induction c1 as [|c r IH]; intros a; [reflexivity|]. cbn [app arun]. apply IH. Qed.
Lemma aacc_calls_app lv a c1 c2 : aacc_calls lv a (c1 ++ c2) <-> aacc_calls lv a c1 /\ aacc_calls lv (arun lv a c1) c2.
Proof.
  revert a. induction c1 as [|c r IH]; intros a; cbn [app aacc_calls arun]; [tauto|]. rewrite IH. tauto.
Qed.
