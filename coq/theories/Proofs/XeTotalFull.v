(** C08 for everything [E57Reader::new] does with the XML section, for ALL byte strings and all
    device contents: the parser only produces documents with a root element, the extractors never
    panic (Proofs/XeTotal.v), the file layer never panics (slice tot, Proofs/TotSafeProg.v). *)
From Coq Require Import List Bool NArith ZArith.
From E57 Require Import Base.Prelude Model.Device Model.PagedReader Model.FileBin Model.ReaderOpen
  Model.Meta Model.MetaFile Model.XmlTree Model.XmlParse Model.XmlDepth Model.XmlExtract Model.ReaderFull
  Proofs.XeTotal Proofs.TotSafeProg Proofs.C04Compose.
Import ListNotations.

(** * The parser only returns documents with a root element *)
Ltac pinv H :=
  repeat match type of H with
         | pbind ?r _ = POk _ => let E := fresh "E" in destruct r as [?| |] eqn:E; cbn [pbind] in H; try discriminate H
         | (let '(_, _) := ?x in _) = POk _ => destruct x
         | (if ?c then _ else _) = POk _ => destruct c; try discriminate H
         | match ?e with TEmpty => _ | TOpen => _ end = POk _ => destruct e
         | match ?x with (_, _) => _ end = POk _ => destruct x
         end.

Lemma parse_element_with_elem fa content pscope s n c r :
  parse_element_with fa content pscope s = POk (n, c, r) -> is_element n = true.
Proof.
  unfold parse_element_with. intros H. pinv H; inversion H; reflexivity.
Qed.

Lemma find_elem_app pre root post : is_element root = true -> find is_element (pre ++ root :: post) <> None.
Proof.
  intros H. induction pre as [|x l IH]; cbn [app find]; [rewrite H; discriminate|].
  destruct (is_element x); [discriminate|exact IH].
Qed.

Lemma parse_document_root fuel bs d cnt : parse_document fuel bs = POk (d, cnt) -> root_element d <> None.
Proof.
  unfold parse_document. intros H.
  pinv H.
  repeat match type of H with
         | match ?l with [] => _ | _ :: _ => _ end = POk _ => destruct l as [|? ?]; try discriminate H
         | (if ?c then _ else _) = POk _ => destruct c eqn:?; try discriminate H
         | pbind ?r _ = POk _ => let E := fresh "E" in destruct r as [[[? ?] ?]| |] eqn:E; cbn [pbind] in H; try discriminate H
         end.
  match type of H with match ?n with _ => _ end = _ =>
    assert (n = 60) as -> by (destruct n as [|p]; [discriminate H|];
                              do 7 (try destruct p as [p|p|]; try discriminate H); reflexivity) end.
  pinv H.
  match goal with E : parse_element _ _ _ = POk (?n, _, _) |- _ => pose proof (parse_element_with_elem _ _ _ _ _ _ _ E) as Hn end.
  inversion H; subst. unfold root_element. cbn [xd_children]. apply find_elem_app. exact Hn.
Qed.

Theorem xml_parse_root bs d : xml_parse bs = ParseOk d -> root_element d <> None.
Proof.
  unfold xml_parse. intros H.
  destruct (parse_document (S (length bs)) bs) as [[d' cnt]| |] eqn:E; try discriminate.
  destruct (cnt <=? NS_LIMIT); [|discriminate]. inversion H; subst.
  eapply parse_document_root. exact E.
Qed.

Section Full.
Variables pf64 pf32 : xstr -> option N.
Variable fdiv : N -> Z -> N.

Theorem read_meta_no_panic_proof bs : read_meta pf64 pf32 fdiv bs <> Panic.
Proof.
  unfold read_meta. destruct (xml_parse bs) as [d| |] eqn:E; try discriminate.
  apply extract_all_no_panic_proof. eapply xml_parse_root. exact E.
Qed.

Lemma xml_meta_no_panic xml : xml_meta pf64 pf32 fdiv xml <> Panic.
Proof.
  unfold xml_meta.
  destruct (negb (forallb _ xml && utf8_valid xml)); [discriminate|].
  destruct (negb (xml_depth_ok xml)); [discriminate|].
  destruct (xml_parse xml) as [d| |] eqn:E; try discriminate.
  apply extract_all_no_panic_proof. eapply xml_parse_root. exact E.
Qed.

(** [xml_meta] is [read_meta] behind the UTF-8 check and the depth check *)
Lemma xml_meta_read_meta xml :
  xml_meta pf64 pf32 fdiv xml =
  if negb (forallb (fun b => b <? 256) xml && utf8_valid xml) then Err ERead
  else if negb (xml_depth_ok xml) then Err EInvalid else read_meta pf64 pf32 fdiv xml.
Proof.
  unfold xml_meta, read_meta. destruct (negb (forallb _ xml && utf8_valid xml)); [reflexivity|].
  destruct (negb (xml_depth_ok xml)); [reflexivity|].
  destruct (xml_parse xml); reflexivity.
Qed.

(** what an accepted XML section satisfies (for the proofs of other slices) *)
Lemma xml_meta_ok_inv xml m :
  xml_meta pf64 pf32 fdiv xml = Ok m ->
  (forallb (fun b => b <? 256) xml && utf8_valid xml) = true /\ xml_depth_ok xml = true /\
  exists d, xml_parse xml = ParseOk d /\ extract_all pf64 pf32 fdiv d = Ok m.
Proof.
  unfold xml_meta. intros H.
  destruct (forallb _ xml && utf8_valid xml); cbn [negb] in H; [|discriminate H].
  destruct (xml_depth_ok xml); cbn [negb] in H; [|discriminate H].
  destruct (xml_parse xml) as [d| |]; try discriminate H. repeat split. exists d. split; [reflexivity|exact H].
Qed.

Theorem reader_new_no_panic_proof (d : dev) : snd (reader_new pf64 pf32 fdiv d) <> Panic.
Proof.
  unfold reader_new. pose proof (no_panic_open d) as H.
  destruct (reader_open d) as [d1 r]. cbn [snd] in H.
  destruct r as [[[s h] xml]|k|]; cbn [snd]; [|discriminate|contradiction].
  pose proof (xml_meta_no_panic xml) as Hx.
  destruct (xml_meta pf64 pf32 fdiv xml); cbn [snd]; [discriminate|discriminate|contradiction].
Qed.
End Full.

Theorem extract_all_no_panic :
  forall (pf64 pf32 : xstr -> option N) (fdiv : N -> Z -> N) (d : xdoc),
    root_element d <> None -> extract_all pf64 pf32 fdiv d <> Panic.
Proof. exact extract_all_no_panic_proof. Qed.

Theorem read_meta_no_panic :
  forall (pf64 pf32 : xstr -> option N) (fdiv : N -> Z -> N) (bs : list N), read_meta pf64 pf32 fdiv bs <> Panic.
Proof. exact read_meta_no_panic_proof. Qed.

Theorem reader_new_no_panic :
  forall (pf64 pf32 : xstr -> option N) (fdiv : N -> Z -> N) (d : dev), snd (reader_new pf64 pf32 fdiv d) <> Panic.
Proof. exact reader_new_no_panic_proof. Qed.
