(** [extract_tree_of] on a rich concrete metadata value, by computation; and two values on which a
    conjunct of [meta_ok] fails and extraction indeed does NOT give the metadata back (both are
    accepted by the writer API: candidate C04 findings). *)
From Coq Require Import Strings.String.
From Coq Require Import List Bool NArith ZArith.
From E57 Require Import Base.Prelude Model.Meta Model.MetaFile Model.XmlTree Model.XmlExtract
  Spec.MetaTree Spec.XeMetaOk Proofs.XeTreeMain.
Import ListNotations.

Local Notation "'B' s" := (ltac:(let v := eval vm_compute in (bytes_of_string s%string) in exact v))
  (at level 0, s at level 0, only parsing).

(** a finite float oracle (text -> bits), the same table for f64 and f32 entries *)
Definition table64 : list (xstr * N) :=
  [(B"0", 0); (B"1", 0x3ff0000000000000); (B"1.5", 0x3ff8000000000000); (B"-2.5", 0xc004000000000000);
   (B"0.001", 0x3f50624dd2f1a9fc); (B"NaN", 0x7ff8000000000000); (B"inf", 0x7ff0000000000000); (B"20.25", 0x4034400000000000)].
Definition table32 : list (xstr * N) := [(B"0.5", 0x3f000000); (B"-1", 0xbf800000); (B"255", 0x437f0000)].
Definition lookup (t : list (xstr * N)) (s : xstr) : option N :=
  match find (fun p => xstr_eqb (fst p) s) t with Some p => Some (snd p) | None => None end.
Definition ex_pf64 := lookup table64.
Definition ex_pf32 := lookup table32.
Definition ex_fdiv (c : N) (v : Z) : N := 0.

Definition F (s : xstr) : f64t := mkF64 (match ex_pf64 s with Some b => b | None => 0 end) s.
Definition G (s : xstr) : f32t := mkF32 (match ex_pf32 s with Some b => b | None => 0 end) s.

Definition ex_transform := mkTransform (F (B"1")) (F (B"0")) (F (B"0")) (F (B"NaN")) (F (B"1.5")) (F (B"-2.5")) (F (B"inf")).
Definition ex_pc : pointcloud :=
  mkPointCloud (Some (B"pc-guid")) 1072 12345
    [ mkRecord CartesianX (DDouble None None);
      mkRecord CartesianY (DDouble (Some (F (B"-2.5"))) (Some (F (B"20.25"))));
      mkRecord Intensity (DSingle (Some (G (B"0.5"))) (Some (G (B"255"))));
      mkRecord ColorRed (DInteger 0 255);
      mkRecord RowIndex (DInteger (- 2 ^ 63) (2 ^ 63 - 1));
      mkRecord SphericalRange (DScaledInteger (-1000) 1000 (F (B"0.001")) (F (B"0")));
      mkRecord (Unknown (B"ext") (B"quality")) (DInteger (-5) 5);
      mkRecord (Unknown (B"ext") (B"cartesianX")) (DDouble None None) ]
    (Some [B"og1"; []; B"a<b]]>"])
    (Some (B"scan & name")) (Some [])
    (Some (mkCb (Some (F (B"-2.5"))) (Some (F (B"1.5"))) None (Some (F (B"0"))) (Some (F (B"NaN"))) None))
    (Some (mkSb (Some (F (B"0"))) (Some (F (B"20.25"))) None None (Some (F (B"-2.5"))) (Some (F (B"1.5")))))
    (Some (mkIb (Some 0%Z) (Some 99%Z) (Some (-1)%Z) None None (Some (2 ^ 63 - 1)%Z)))
    (Some (mkIl (Some (LSingle (G (B"0.5")))) (Some (LSingle (G (B"255"))))))
    (Some (mkCl (Some (LInteger 0)) (Some (LInteger 255)) (Some (LScaledInteger (-7))) None (Some (LDouble (F (B"0")))) (Some (LDouble (F (B"1"))))))
    (Some ex_transform)
    (Some (mkDateTime (F (B"1.5")) true)) (Some (mkDateTime (F (B"20.25")) false))
    (Some (B"vendor")) (Some (B"model")) None (Some (B"hw")) None (Some (B"fw"))
    (Some (F (B"20.25"))) None (Some (F (B"inf"))).

Definition ex_blob := mkImageBlob (mkBlob 48 1000) Jpeg.
Definition ex_images : list image :=
  [ mkImage (Some (B"img1"))
      (Some (mkVisRef (mkImageBlob (mkBlob 2096 77) Png) (Some (mkBlob 3000 5)) 640 480))
      (Some (PPinhole (mkPinhole ex_blob (Some (mkBlob 4000 16)) 4294967295 0 (F (B"1.5")) (F (B"0.001")) (F (B"0.001")) (F (B"20.25")) (F (B"-2.5")))))
      (Some ex_transform) (Some (B"pc-guid")) (Some (B"n")) None (Some (mkDateTime (F (B"0")) true)) (Some (B"v")) None (Some (B"s"));
    mkImage None None (Some (PSpherical (mkSphImg ex_blob None 100 50 (F (B"0.001")) (F (B"1")))))
      None None None None None None None None;
    mkImage (Some []) None (Some (PCylindrical (mkCylImg (mkImageBlob (mkBlob 0 0) Png) None 1 1 (F (B"1.5")) (F (B"0")) (F (B"1")) (F (B"1")))))
      None None None None None None None None ].

Definition ex_meta : file_meta :=
  mkFileMeta
    (mkRoot STD_FORMAT_NAME (B"{file-guid}") 1 0 (Some (B"e57 v0.11.7")) (Some (mkDateTime (F (B"1.5")) false)) (Some (B"EPSG:4326")))
    [mkExtension (B"ext") (B"urn:example:ext"); mkExtension (B"nor") (B"http://www.libe57.org/E57_NOR_surface_normals.txt")]
    [ex_pc; mkPointCloud None 0 0 [] None None None None None None None None None None None None None None None None None None None None]
    ex_images.

Example extract_tree_of_instance :
  meta_ok ex_meta = true /\ float_oracle_ok ex_pf64 ex_pf32 ex_meta = true /\
  extract_all ex_pf64 ex_pf32 ex_fdiv (tree_of ex_meta) = Ok (reader_view ex_meta).
Proof. split; [|split]; vm_compute; reflexivity. Qed.

(** the instance through the theorem *)
Example extract_tree_of_instance_by_theorem :
  extract_all ex_pf64 ex_pf32 ex_fdiv (tree_of ex_meta) = Ok (reader_view ex_meta).
Proof. apply extract_tree_of_proof; vm_compute; reflexivity. Qed.

(** * Extension attribute names *)
Definition small_pc (records : list record) : pointcloud :=
  mkPointCloud (Some (B"pc")) 48 0 records None None None None None None None None None None None None None None None None None None None None.

(** an extension attribute named "images2D" no longer hides the images (repaired in /repo by cec9560) *)
Definition ext_images2d : file_meta :=
  mkFileMeta (mkRoot STD_FORMAT_NAME (B"g") 1 0 None None None)
    [mkExtension (B"ext") (B"urn:example:ext")]
    [small_pc [mkRecord (Unknown (B"ext") (B"images2D")) (DInteger 0 1)]]
    [mkImage (Some (B"img")) None None None None None None None None None None].

Example images2d_record_keeps_images :
  meta_ok ext_images2d = true /\
  forall pf64 pf32 fdiv, extract_all pf64 pf32 fdiv (tree_of ext_images2d) = Ok (reader_view ext_images2d).
Proof. split; [reflexivity|]. intros. apply extract_tree_of_proof; reflexivity. Qed.

(** the conjunct on the URL is needed: an extension with the URL of the E57 namespace (rejected by
    the writer since e021335) would have <ext:cartesianX> read back as the standard attribute *)
Definition bad_e57_url : file_meta :=
  mkFileMeta (mkRoot STD_FORMAT_NAME (B"g") 1 0 None None None)
    [mkExtension (B"ext") E57_URI]
    [small_pc [mkRecord (Unknown (B"ext") (B"cartesianX")) (DInteger 0 1)]] [].

Example e57_url_extension_loses_namespace :
  meta_ok bad_e57_url = false /\
  forall pf64 pf32 fdiv, exists m',
    extract_all pf64 pf32 fdiv (tree_of bad_e57_url) = Ok m' /\
    fm_pointclouds m' = [small_pc [mkRecord CartesianX (DInteger 0 1)]].
Proof. split; [reflexivity|]. intros. eexists. split; vm_compute; reflexivity. Qed.
