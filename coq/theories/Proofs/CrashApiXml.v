(** C15 at the API level with the XML layer: a crash image of a call sequence ending in a
    successful top-level finalize that the FULL reader accepts ([reader_open], then the XML
    parser model) is the completed file, and the document parsed is the writer's tree of the
    final metadata. *)
From E57 Require Import Base.Prelude Model.Device Model.PagedWriter Model.PagedReader Model.Prog
  Model.FileBin Model.ReaderOpen Model.CrashImage Model.Meta Model.MetaFile Model.XmlTree Model.XmlParse
  Model.XmlGen Model.WriterApi Model.WriterFull Spec.XmlRender Spec.MetaTree Spec.XgWriterOk.
From E57 Require Import Proofs.PagedWriterLemmas Proofs.CrashOpen Proofs.CrashMain Proofs.CrashApiSteps Proofs.CrashApi
  Proofs.CrashXml Proofs.XgRender Proofs.XgWf Proofs.XmlpPrefixBase Proofs.XmlpPrefix Proofs.XmlpRoundtripDoc.
From Coq Require Import Lia ZifyN ZifyNat ZifyBool.

Theorem writer_accepted_is_complete_xml : forall fmt64 fmt32 version cs stf rs,
  let p := writer_run fmt64 fmt32 version (cs ++ [Finalize]) in
  let m := fill_meta fmt64 fmt32 (ws_meta stf) in
  snd (wrun p pw_fresh) = Ok (stf, rs ++ [CrOk]) ->
  writer_meta_ok m = true -> meta_xml_ok m = true ->
  len (final_image p) < 2 ^ 64 ->
  forall (n cut : nat) s h x d',
  open_result (crash_image (trace_of p) n cut) = Ok (s, h, x) -> xml_parse x = ParseOk d' ->
  gen_root m = Ok x /\ d' = tree_of m /\ crash_image (trace_of p) n cut = final_image p.
Proof.
  intros fmt64 fmt32 version cs stf rs p m Hrun Hw Hx Hsize n cut s h x d' Hopen Hparse.
  destruct (writer_finalize_last fmt64 fmt32 version cs stf rs Hrun) as (xml & Hgen & _ & _).
  fold m in Hgen.
  pose proof (gen_is_render m xml Hw Hgen) as Hr.
  pose proof (tree_of_wf m Hw Hx) as Hwf.
  pose proof (parse_render writer_choices (tree_of m) Hwf) as Hrt. rewrite <- Hr in Hrt.
  assert (Hne : xml <> []).
  { intros E. rewrite E, xml_parse_empty in Hrt. discriminate. }
  pose proof (writer_accepted_is_complete fmt64 fmt32 version cs stf rs xml Hrun Hgen Hne Hsize n cut) as H.
  fold p in H. revert Hopen H. generalize (crash_image (trace_of p) n cut) (final_image p). intros img F Hopen H.
  rewrite Hopen in H. destruct H as [(k & Hk & Hxk & Hcases) Hfull].
  assert (Hxx : x = xml).
  { destruct Hcases as [Hk1|[Hk0|Hgap]].
    - rewrite Hxk, Hk1. apply take_all. apply N.le_refl.
    - exfalso. rewrite Hxk, Hk0 in Hparse. change (take 0 xml) with (@nil N) in Hparse.
      rewrite xml_parse_empty in Hparse. discriminate.
    - exfalso. apply (writer_prefix_fails (tree_of m) x d' Hwf (tree_of_root_last m)); [| |exact Hparse].
      + exists (drop k xml). rewrite <- Hr, Hxk. symmetry. apply take_drop_id.
      + rewrite <- Hr.
        assert (Hl : len x = k) by (rewrite Hxk, len_take; lia).
        rewrite !len_length in *. lia. }
  pose proof (Hfull Hxx) as Himg.
  rewrite Hxx, Hrt in Hparse. injection Hparse as <-.
  split; [rewrite Hxx; exact Hgen|]. split; [reflexivity|exact Himg].
Qed.

Print Assumptions writer_accepted_is_complete_xml.
