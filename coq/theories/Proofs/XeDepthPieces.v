(** What the depth scanner does on the pieces of a rendering (Spec/XmlRender.v): comments,
    processing instructions, CDATA sections, escaped character data, attribute lists. *)
From Coq Require Import List Bool NArith Lia ZArith ZifyN ZifyBool.
From E57 Require Import Base.Prelude Model.XmlTree Model.XmlDepth Spec.XmlRender Proofs.XeDepth.
Import ListNotations.
Ltac Zify.zify_post_hook ::= Z.div_mod_to_equations.

(** * One step on the fixed openings *)
Lemma step_comment d x : depth_step d (COMMENT_OPEN ++ x) = Next d (skip_past S_COMMENT_END x).
Proof. reflexivity. Qed.
Lemma step_pi d x : depth_step d (PI_OPEN ++ x) = Next d (skip_past S_PI_END x).
Proof. reflexivity. Qed.
Lemma step_cdata d x : depth_step d (CDATA_OPEN ++ x) = Next d (skip_past S_CDATA_END x).
Proof. reflexivity. Qed.
Lemma step_close d x : depth_step d (60 :: 47 :: x) = Next (d - 1) (skip_past S_GT x).
Proof. reflexivity. Qed.

(** * Comments *)
Definition ends45 (t : xstr) : bool := match rev t with 45 :: _ => true | _ => false end.

Lemma ends45_cons b c t : ends45 (b :: c :: t) = ends45 (c :: t).
Proof.
  unfold ends45. change (rev (b :: c :: t)) with (rev (c :: t) ++ [b]).
  destruct (rev (c :: t)) as [|x l] eqn:E.
  - apply (f_equal (@length N)) in E. rewrite rev_length in E. discriminate.
  - reflexivity.
Qed.

Lemma skip_comment t rest :
  has_sub [45; 45] t = false -> ends45 t = false ->
  skip_past S_COMMENT_END (t ++ S_COMMENT_END ++ rest) = rest.
Proof.
  induction t as [|b t IH]; intros Hs He.
  - apply (skip_past_here S_COMMENT_END rest).
  - cbn [has_sub] in Hs. apply orb_false_iff in Hs. destruct Hs as [Hs1 Hs2].
    cbn [app]. rewrite skip_past_cons.
    + apply IH; [exact Hs2|]. destruct t as [|c t]; [reflexivity|]. rewrite ends45_cons in He. exact He.
    + unfold S_COMMENT_END. cbn [starts]. destruct (45 =? b) eqn:Eb; [|reflexivity].
      apply N.eqb_eq in Eb. subst b. destruct t as [|c t].
      * cbv in He. discriminate.
      * cbn [app]. cbn [sub_at] in Hs1. rewrite N.eqb_refl in Hs1. cbn [andb] in Hs1.
        rewrite andb_true_r in Hs1. rewrite Hs1. reflexivity.
Qed.

Lemma scan_comment d t rest :
  has_sub [45; 45] t = false -> ends45 t = false ->
  scan d (COMMENT_OPEN ++ t ++ COMMENT_CLOSE ++ rest) = scan d rest.
Proof.
  intros Hs He. rewrite scan_step, step_comment. change COMMENT_CLOSE with S_COMMENT_END.
  rewrite skip_comment by assumption. reflexivity.
Qed.

(** * Processing instructions *)
Lemma skip_pi x rest :
  has_sub [63; 62] x = false -> skip_past S_PI_END (x ++ S_PI_END ++ rest) = rest.
Proof.
  induction x as [|b x IH]; intros Hs.
  - apply (skip_past_here S_PI_END rest).
  - cbn [has_sub] in Hs. apply orb_false_iff in Hs. destruct Hs as [Hs1 Hs2].
    cbn [app]. rewrite skip_past_cons; [apply IH; exact Hs2|].
    unfold S_PI_END. cbn [starts]. destruct (63 =? b) eqn:Eb; [|reflexivity].
    apply N.eqb_eq in Eb. subst b. destruct x as [|c x].
    + reflexivity.
    + cbn [app]. cbn [sub_at] in Hs1. rewrite N.eqb_refl in Hs1. cbn [andb] in Hs1.
      rewrite andb_true_r in Hs1. rewrite Hs1. reflexivity.
Qed.

Lemma has_sub_app_clean p0 p a b :
  forallb (fun x => negb (x =? p0)) a = true -> has_sub (p0 :: p) (a ++ b) = has_sub (p0 :: p) b.
Proof.
  induction a as [|x a IH]; intros H; [reflexivity|]. cbn [forallb] in H. apply andb_true_iff in H.
  destruct H as [Hx Ha]. apply negb_true_iff in Hx. cbn [app has_sub sub_at].
  rewrite N.eqb_sym, Hx. cbn [andb orb]. apply IH. exact Ha.
Qed.

Lemma scan_pi d x rest :
  has_sub [63; 62] x = false -> scan d (PI_OPEN ++ x ++ PI_CLOSE ++ rest) = scan d rest.
Proof.
  intros Hs. rewrite scan_step, step_pi. change PI_CLOSE with S_PI_END.
  rewrite skip_pi by assumption. reflexivity.
Qed.

(** * CDATA sections: "]]>" inside the text is written "]]]]><![CDATA[>" *)
Definition cd_tail (t rest : xstr) : xstr := cdata_body t ++ CDATA_CLOSE ++ rest.

Definition splits (t : xstr) : bool :=
  match t with b1 :: b2 :: b3 :: _ => (b1 =? 93) && (b2 =? 93) && (b3 =? 62) | _ => false end.

Lemma cdata_body_split b1 b2 b3 r :
  splits (b1 :: b2 :: b3 :: r) = true -> cdata_body (b1 :: b2 :: b3 :: r) = CDATA_SPLIT ++ cdata_body r.
Proof. unfold splits. intros H. cbn [cdata_body]. rewrite H. reflexivity. Qed.

Lemma cdata_body_keep b1 r1 :
  splits (b1 :: r1) = false -> cdata_body (b1 :: r1) = b1 :: cdata_body r1.
Proof.
  unfold splits. intros H. destruct r1 as [|b2 [|b3 r3]]; try reflexivity.
  cbn [cdata_body]. rewrite H. reflexivity.
Qed.

Lemma cd_tail_head b r rest : exists y, cd_tail (b :: r) rest = b :: y.
Proof.
  unfold cd_tail. destruct (splits (b :: r)) eqn:E.
  - destruct r as [|b2 [|b3 r3]]; try discriminate E. rewrite cdata_body_split by exact E.
    unfold splits in E. apply andb_true_iff in E. destruct E as [E _]. apply andb_true_iff in E.
    destruct E as [E _]. apply N.eqb_eq in E. subst b. eexists. reflexivity.
  - rewrite cdata_body_keep by exact E. eexists. reflexivity.
Qed.

(** the two bytes behind a kept byte never complete "]]>" unless the text itself has it there *)
Lemma cd_tail_starts2 r rest :
  starts [93; 62] (cd_tail r rest) = match r with b2 :: b3 :: _ => (93 =? b2) && (62 =? b3) | _ => false end.
Proof.
  destruct r as [|b2 r].
  - reflexivity.
  - destruct (splits (b2 :: r)) eqn:E.
    + destruct r as [|b3 [|b4 r4]]; try discriminate E. unfold cd_tail. rewrite cdata_body_split by exact E.
      unfold splits in E. apply andb_true_iff in E. destruct E as [E E3]. apply andb_true_iff in E.
      destruct E as [E1 E2]. apply N.eqb_eq in E1, E2. subst b2 b3. reflexivity.
    + unfold cd_tail. rewrite cdata_body_keep by exact E. destruct r as [|b3 r3].
      * cbn [cdata_body app starts CDATA_CLOSE]. destruct (93 =? b2); reflexivity.
      * destruct (cd_tail_head b3 r3 rest) as [y Hy]. unfold cd_tail in Hy. cbn [app]. rewrite Hy.
        cbn [starts]. rewrite andb_true_r. reflexivity.
Qed.

Lemma scan_cd_tail d n : forall t rest, (length t <= n)%nat ->
  scan d (skip_past S_CDATA_END (cd_tail t rest)) = scan d rest.
Proof.
  induction n as [|n IH]; intros t rest Hl.
  - destruct t; [|cbn in Hl; lia]. change (cd_tail [] rest) with (S_CDATA_END ++ rest).
    rewrite (skip_past_here S_CDATA_END rest). reflexivity.
  - destruct t as [|b1 r1].
    + change (cd_tail [] rest) with (S_CDATA_END ++ rest).
      rewrite (skip_past_here S_CDATA_END rest). reflexivity.
    + destruct (splits (b1 :: r1)) eqn:E.
      * destruct r1 as [|b2 [|b3 r3]]; try discriminate E.
        unfold cd_tail. rewrite cdata_body_split by exact E.
        change (CDATA_SPLIT ++ cdata_body r3) with ([93; 93] ++ S_CDATA_END ++ CDATA_OPEN ++ [62] ++ cdata_body r3).
        rewrite <- !app_assoc.
        assert (Hs : forall y, skip_past S_CDATA_END ([93; 93] ++ S_CDATA_END ++ y) = y) by (intros y; reflexivity).
        rewrite Hs. rewrite scan_step, step_cdata.
        assert (Hg : forall y, skip_past S_CDATA_END ([62] ++ y) = skip_past S_CDATA_END y) by (intros y; reflexivity).
        rewrite Hg. apply (IH r3 rest). cbn [length] in Hl. lia.
      * unfold cd_tail. rewrite cdata_body_keep by exact E. cbn [app].
        rewrite skip_past_cons.
        -- apply (IH r1 rest). cbn [length] in Hl. lia.
        -- change (starts S_CDATA_END (b1 :: cdata_body r1 ++ CDATA_CLOSE ++ rest))
             with ((93 =? b1) && starts [93; 62] (cd_tail r1 rest)).
           rewrite cd_tail_starts2. unfold splits in E. destruct r1 as [|b2 [|b3 r3]].
           ++ apply andb_false_r.
           ++ apply andb_false_r.
           ++ rewrite (N.eqb_sym 93 b1), (N.eqb_sym 93 b2), (N.eqb_sym 62 b3), andb_assoc. exact E.
Qed.

Lemma scan_cdata d t rest : scan d (render_cdata t ++ rest) = scan d rest.
Proof.
  unfold render_cdata. rewrite <- !app_assoc. rewrite scan_step, step_cdata.
  apply (scan_cd_tail d (length t) t rest). lia.
Qed.

(** * Character references and escaped bytes never contain the byte they protect against *)
Definition ref_free (c : N) : bool :=
  (c <? 128) && negb (c =? 35) && negb (c =? 38) && negb (c =? 59) && negb ((48 <=? c) && (c <=? 57)) &&
  negb ((97 <=? c) && (c <=? 122)).

Lemma dec_digits_free c b : ref_free c = true -> b < 128 -> forallb (fun x => negb (x =? c)) (dec_digits b) = true.
Proof.
  unfold ref_free, dec_digits. intros H Hb.
  destruct (b <? 10) eqn:E1; [|destruct (b <? 100) eqn:E2]; cbn [forallb]; repeat (apply andb_true_iff; split); try reflexivity;
    apply negb_true_iff; apply N.eqb_neq; intros <-; lia.
Qed.

Lemma hex_digits_free c b : ref_free c = true -> b < 128 -> forallb (fun x => negb (x =? c)) (hex_digits b) = true.
Proof.
  unfold ref_free, hex_digits, hex_digit. intros H Hb.
  destruct (b <? 16) eqn:E1; cbn [forallb]; repeat (apply andb_true_iff; split); try reflexivity;
    apply negb_true_iff; apply N.eqb_neq; intros <-;
    repeat match goal with H : context[if ?c then _ else _] |- _ => destruct c eqn:? end; lia.
Qed.

Lemma forallb_app' {A} (p : A -> bool) a b : forallb p a = true -> forallb p b = true -> forallb p (a ++ b) = true.
Proof. intros. rewrite forallb_app. apply andb_true_iff. split; assumption. Qed.

Lemma render_byte_free c st must b :
  ref_free c = true -> (must = false -> (b =? c) = false) ->
  forallb (fun x => negb (x =? c)) (render_byte st must b) = true.
Proof.
  intros Hc Hm. unfold render_byte.
  destruct (128 <=? b) eqn:Eb.
  { cbn [forallb]. rewrite andb_true_r. apply negb_true_iff. apply N.eqb_neq. intros <-. unfold ref_free in Hc. lia. }
  assert (Hb : b < 128) by lia.
  assert (Hdec : forallb (fun x => negb (x =? c)) (dec_ref b) = true).
  { unfold dec_ref. apply forallb_app'; [|apply forallb_app'; [apply dec_digits_free; assumption|]];
      cbn [forallb]; unfold ref_free in Hc; repeat (apply andb_true_iff; split); try reflexivity; apply negb_true_iff; apply N.eqb_neq; intros <-; lia. }
  assert (Hhex : forallb (fun x => negb (x =? c)) (hex_ref b) = true).
  { unfold hex_ref. apply forallb_app'; [|apply forallb_app'; [apply hex_digits_free; assumption|]];
      cbn [forallb]; unfold ref_free in Hc; repeat (apply andb_true_iff; split); try reflexivity; apply negb_true_iff; apply N.eqb_neq; intros <-; lia. }
  assert (Hnamed : forall r, named_ref b = Some r -> forallb (fun x => negb (x =? c)) r = true).
  { intros r Hr. unfold named_ref in Hr.
    repeat match type of Hr with (if ?t then _ else _) = _ => destruct t end; try discriminate Hr; inversion Hr; subst r;
      cbn [forallb]; unfold ref_free in Hc; repeat (apply andb_true_iff; split); try reflexivity; apply negb_true_iff; apply N.eqb_neq; intros <-; lia. }
  assert (Hraw : must = false -> forallb (fun x => negb (x =? c)) [b] = true).
  { intros Hf. cbn [forallb]. rewrite (Hm Hf). reflexivity. }
  destruct st; auto; destruct must; destruct (named_ref b) as [r|] eqn:En; eauto.
Qed.

Lemma esc_bytes_free c must st i t :
  ref_free c = true -> (forall b, must b = false -> (b =? c) = false) ->
  forallb (fun x => negb (x =? c)) (esc_bytes must st i t) = true.
Proof.
  intros Hc Hm. revert i. induction t as [|b t IH]; intros i; [reflexivity|]. cbn [esc_bytes].
  apply forallb_app'; [apply render_byte_free; auto|apply IH].
Qed.

Lemma text_no_lt st t : forallb (fun x => negb (x =? 60)) (esc_bytes text_must st 0%nat t) = true.
Proof.
  apply esc_bytes_free; [reflexivity|]. intros b H. unfold text_must in H.
  destruct (b =? 60); [discriminate H|reflexivity].
Qed.

Lemma attr_no_quote q st i v :
  q = 34 \/ q = 39 -> forallb (fun x => negb (x =? q)) (esc_bytes (attr_must q) st i v) = true.
Proof.
  intros Hq. apply esc_bytes_free; [destruct Hq; subst; reflexivity|]. intros b H. unfold attr_must in H.
  destruct (b =? q); [|reflexivity]. destruct (b =? 60), (b =? 38); discriminate H.
Qed.

Lemma scan_text d tc t rest : scan d (render_text tc t ++ rest) = scan d rest.
Proof.
  unfold render_text. destruct t as [|b t]; [apply scan_cdata|].
  destruct tc as [st|]; [|apply scan_cdata].
  apply scan_no_lt. apply text_no_lt.
Qed.
