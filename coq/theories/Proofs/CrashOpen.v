(** C15, part 3: [reader_open] on an ARBITRARY device image (fault-free device): it never
    panics; when it succeeds, the image is a non-zero whole number of pages, page 0 carries a
    valid checksum, the header returned is the parse of the first 48 bytes and the XML bytes are
    what [extract_xml] reads through the validating page reader.  An image whose bytes 24..40
    (XML offset and XML length of the header) are zero is rejected or yields the empty XML. *)
From E57 Require Import Base.Prelude Model.Crc Model.Device Model.PagedReader Spec.PageSpec Spec.PageReadSpec
  Model.Prog Model.QueueReader Model.FileBin Model.ReaderOpen.
From E57 Require Import Proofs.PageSpecLemmas Proofs.PagedWriterLemmas Proofs.PagedReaderCache
  Proofs.ReaderProgSem Proofs.CrashLog.
From Coq Require Import ZifyN ZifyNat ZifyBool.
Ltac Zify.zify_post_hook ::= Z.div_mod_to_equations.
Local Open Scope monad_scope.

(** * The raw header read *)

Lemma d_read_view n b c o lg :
  d_read n (mkDev b c o None lg) =
  (mkDev b (c + len (slice c n b)) (o + 1) None lg, Ok (slice c n b)).
Proof. reflexivity. Qed.

Lemma read_exact_step f want acc d : want <> 0 ->
  d_read_exact_loop (S f) want acc d =
  (let '(d1, r) := d_read want d in
   match r with
   | Ok [] => (d1, Err EIo)
   | Ok got => d_read_exact_loop f (want - len got) (acc ++ got) d1
   | Err e => (d1, Err e)
   | Panic => (d1, Panic)
   end).
Proof.
  intros H. cbn [d_read_exact_loop]. destruct (N.eqb_spec want 0) as [E|_]; [lia|].
  unfold bind. destruct (d_read want d) as [d1 [[|x g]|e|]]; reflexivity.
Qed.

(** [read_exact] on a fault-free raw device: all the bytes, or an error; the bytes stay *)
Lemma d_read_exact_cases n d :
  d_fault d = None -> n <> 0 ->
  d_bytes (fst (d_read_exact n d)) = d_bytes d /\ d_fault (fst (d_read_exact n d)) = None /\
  ((exists e, snd (d_read_exact n d) = Err e) \/
   (snd (d_read_exact n d) = Ok (slice (d_cur d) n (d_bytes d)) /\ d_cur d + n <= len (d_bytes d))).
Proof.
  destruct d as [b c o f lg]. cbn [d_fault d_bytes d_cur]. intros -> Hn.
  unfold d_read_exact.
  destruct (N.to_nat n) as [|f1] eqn:Ef; [lia|].
  rewrite read_exact_step by exact Hn. rewrite d_read_view.
  pose proof (PageSpecLemmas.len_slice c n b) as Hl.
  destruct (slice c n b) as [|x got] eqn:Eg.
  { cbn [fst snd d_bytes d_fault]. split; [reflexivity|]. split; [reflexivity|]. left. eauto. }
  rewrite <- Eg in *.
  assert (Hpos : 0 < len (slice c n b)) by (rewrite Eg, PagedWriterLemmas.len_cons; lia).
  rewrite Eg at 1. rewrite <- Eg.
  destruct (N.eq_dec (len (slice c n b)) n) as [Hfull|Hshort].
  - rewrite Hfull. replace (n - n) with 0 by lia. cbn [d_read_exact_loop].
    change (0 =? 0) with true. cbv iota. cbn [ret fst snd d_bytes d_fault app].
    split; [reflexivity|]. split; [reflexivity|]. right. split; [reflexivity|lia].
  - (* short read: the next read is at the end of the device *)
    rewrite read_exact_step by lia. rewrite d_read_view.
    assert (Hl2 : len (slice (c + len (slice c n b)) (n - len (slice c n b)) b) = 0).
    { rewrite PageSpecLemmas.len_slice. lia. }
    rewrite (PageSpecLemmas.len_0_nil _ Hl2).
    cbn [fst snd d_bytes d_fault]. split; [reflexivity|]. split; [reflexivity|]. left. eauto.
Qed.

Lemma header_read_parse d d1 data :
  relabel ERead (d_read_exact 48) d = (d1, Ok data) -> header_read d = (d1, header_parse data).
Proof.
  intros H. unfold header_read, bind. rewrite H. unfold header_parse. cbv zeta.
  cbn [h_major h_minor h_page_size].
  destruct (list_eq_dec N.eq_dec (take 8 data) SIGNATURE); cbn [negb]; [|reflexivity].
  destruct (le_num (slice 8 4 data) =? 1); cbn [negb h_major]; [|reflexivity].
  destruct (le_num (slice 12 4 data) =? 0); cbn [negb h_minor]; [|reflexivity].
  destruct (le_num (slice 40 8 data) =? 1024); cbn [negb h_page_size]; reflexivity.
Qed.

Lemma header_parse_page_size data h : header_parse data = Ok h -> h_page_size h = 1024.
Proof.
  unfold header_parse. cbv zeta. cbn [h_major h_minor h_page_size].
  destruct (list_eq_dec N.eq_dec (take 8 data) SIGNATURE); cbn [negb]; [|discriminate].
  destruct (le_num (slice 8 4 data) =? 1); cbn [negb]; [|discriminate].
  destruct (le_num (slice 12 4 data) =? 0); cbn [negb]; [|discriminate].
  destruct (N.eqb_spec (le_num (slice 40 8 data)) 1024) as [E|E]; cbn [negb]; [|discriminate].
  intros H. injection H as <-. exact E.
Qed.

Lemma header_parse_fields data h : header_parse data = Ok h ->
  h_xml_offset h = le_num (slice 24 8 data) /\ h_xml_length h = le_num (slice 32 8 data) /\
  h_phys_length h = le_num (slice 16 8 data).
Proof.
  unfold header_parse. cbv zeta. cbn [h_major h_minor h_page_size].
  destruct (list_eq_dec N.eq_dec (take 8 data) SIGNATURE); cbn [negb]; [|discriminate].
  destruct (le_num (slice 8 4 data) =? 1); cbn [negb]; [|discriminate].
  destruct (le_num (slice 12 4 data) =? 0); cbn [negb]; [|discriminate].
  destruct (le_num (slice 40 8 data) =? 1024); cbn [negb]; [|discriminate].
  intros H. injection H as <-. cbn. auto.
Qed.

(** the raw header read of a fault-free device *)
Lemma header_read_cases img :
  let r := header_read (dev_init img None) in
  d_bytes (fst r) = img /\ d_fault (fst r) = None /\
  ((exists e, snd r = Err e) \/
   (exists h, snd r = Ok h /\ header_parse (take 48 img) = Ok h /\ 48 <= len img)).
Proof.
  cbv zeta.
  destruct (d_read_exact_cases 48 (dev_init img None) eq_refl ltac:(lia)) as (Hb & Hf & Hc).
  cbn [dev_init d_cur d_bytes] in Hb, Hc.
  destruct (d_read_exact 48 (dev_init img None)) as [d1 r] eqn:E. cbn [fst snd] in *.
  destruct Hc as [[e He]|[Hr Hlen]].
  - subst r. unfold header_read, bind, relabel. rewrite E. cbn [res_relabel fst snd].
    split; [exact Hb|]. split; [exact Hf|]. left. eauto.
  - subst r. rewrite (header_read_parse _ d1 (slice 0 48 img)) by (unfold relabel; rewrite E; reflexivity).
    cbn [fst snd]. split; [exact Hb|]. split; [exact Hf|].
    rewrite PageSpecLemmas.slice_0.
    destruct (header_parse (take 48 img)) as [h|e|] eqn:Eh.
    + right. exists h. auto.
    + left. eauto.
    + exfalso. revert Eh. unfold header_parse. cbv zeta.
      repeat match goal with |- context [if ?x then _ else _] => destruct x end; discriminate.
Qed.

(** * [PagedReader::new] on any fault-free device *)

Lemma pr_new_cases d :
  d_fault d = None ->
  (exists d1 e, pr_new 1024 d = (d1, Err e)) \/
  (exists d1 s0, pr_new 1024 d = (d1, Ok s0) /\ pr_inv 1024 (d_bytes d) s0 /\ pr_off s0 = 0 /\
                 len (d_bytes d) <> 0 /\ len (d_bytes d) mod 1024 = 0).
Proof.
  destruct d as [bytes cur ops fault lg]. cbn [d_fault d_bytes]. intros ->.
  unfold pr_new, MAX_PAGE_SIZE, CHECKSUM_SIZE.
  change (1024 * 1024 <? 1024) with false. change (1024 <=? 4) with false. cbv iota.
  unfold d_seek_end, bind, tick, set_cur. cbn [d_fault d_bytes d_cur d_ops d_log].
  destruct (N.eqb_spec (len bytes) 0) as [E3|E3]; [left; eexists _, _; reflexivity|].
  destruct (N.eqb_spec (len bytes mod 1024) 0) as [E4|E4]; cbn [negb]; [|left; eexists _, _; reflexivity].
  right. eexists _, _. split; [reflexivity|]. split; [|auto].
  constructor; cbn [pr_dev pr_page_size pr_phy_size pr_log_size pr_pages pr_buf pr_page_num
                    d_fault d_bytes]; try reflexivity; try lia.
  discriminate.
Qed.

(** * Programs on the validating reader *)

Lemma rrun_g_bind ps phys A B (p : rprog A) (f : A -> rprog B) : forall off,
  rrun_g ps phys (rbind p f) off =
  match snd (rrun_g ps phys p off) with
  | Ok a => rrun_g ps phys (f a) (fst (rrun_g ps phys p off))
  | Err e => (fst (rrun_g ps phys p off), Err e)
  | Panic => (fst (rrun_g ps phys p off), Panic)
  end.
Proof.
  induction p as [a|e| |o k IH]; intros off; cbn [rbind rrun_g fst snd]; try reflexivity.
  destruct (gr_step ps phys o off) as [off1 r]. apply IH.
Qed.

(** reading the 48 header bytes at offset 0 through the validating reader *)
Lemma gr_rd48 img :
  len img <> 0 -> len img mod 1024 = 0 ->
  rrun_g 1024 img (rd 48) 0 =
  if page_ok 1024 (page_at 1024 img 0) then (48, Ok (take 48 img)) else (0, Err ERead).
Proof.
  intros Hnz Hmod. unfold rd, r_read_exact. cbn [rrun_g gr_step]. cbv zeta.
  replace (1024 - 4) with 1020 by reflexivity.
  assert (Hpg : 1 <= len img / 1024) by lia.
  replace (N.to_nat (N.min 48 (len img / 1024 * 1020))) with 48%nat by lia.
  cbn [gr_read_exact_loop]. change (48 =? 0) with false. cbv iota.
  unfold gr_read. cbv zeta. replace (1024 - 4) with 1020 by reflexivity.
  change (0 / 1020) with 0. change (0 mod 1020) with 0.
  destruct (N.leb_spec (len img / 1024) 0) as [H|_]; [lia|].
  destruct (page_ok 1024 (page_at 1024 img 0)); [|reflexivity].
  change (N.min 48 (1020 - 0)) with 48. change (0 + 48) with 48.
  assert (Hs : slice 0 48 (page_at 1024 img 0) = take 48 img).
  { unfold page_at. change (0 * 1024) with 0. rewrite !PageSpecLemmas.slice_0, PageSpecLemmas.take_take.
    reflexivity. }
  rewrite Hs.
  assert (Hl : len (take 48 img) = 48) by (rewrite PageSpecLemmas.len_take; lia).
  destruct (take 48 img) as [|x r] eqn:Et; [rewrite PageSpecLemmas.len_nil in Hl; lia|].
  rewrite <- Et in *. rewrite Hl. change (48 - 48) with 0. cbn [gr_read_exact_loop].
  change (0 =? 0) with true. cbv iota. cbn [res_map app]. reflexivity.
Qed.

Lemma gr_loop_no_panic ps phys : forall fuel w acc off,
  snd (gr_read_exact_loop ps phys fuel w acc off) <> Panic.
Proof.
  induction fuel as [|f IH]; intros w acc off; cbn [gr_read_exact_loop]; [discriminate|].
  destruct (w =? 0); [discriminate|].
  unfold gr_read. cbv zeta.
  repeat match goal with |- context [if ?x then _ else _] => destruct x end; try discriminate.
  all: try apply IH.
  all: match goal with |- context [match ?l with [] => _ | _ :: _ => _ end] => destruct l end;
    [discriminate|apply IH].
Qed.

Lemma extract_xml_no_panic img xo xl off :
  snd (rrun_g 1024 img (extract_xml xo xl) off) <> Panic.
Proof.
  unfold extract_xml.
  destruct (MAX_XML_SIZE <? xl); [discriminate|].
  rewrite rrun_g_bind. unfold r_seek at 1. cbn [rrun_g gr_step].
  destruct (len img <=? xo); cbn [fst snd]; [discriminate|].
  unfold rd, r_read_exact. cbn [rrun_g gr_step]. cbv zeta.
  match goal with |- context [gr_read_exact_loop ?a1 ?a2 ?a3 ?a4 ?a5 ?a6] =>
    pose proof (gr_loop_no_panic a1 a2 a3 a4 a5 a6) as Hn;
    destruct (gr_read_exact_loop a1 a2 a3 a4 a5 a6) as [o3 [y|e3|]] end; cbn [res_map snd rrun_g] in *;
    try discriminate. congruence.
Qed.

(** * [reader_open] on an arbitrary image *)

Definition open_result (img : list N) : res (pr * header * list N) :=
  snd (reader_open (dev_init img None)).

Theorem reader_open_cases img :
  (exists e, open_result img = Err e) \/
  (exists s h x, open_result img = Ok (s, h, x) /\
     len img <> 0 /\ len img mod 1024 = 0 /\
     page_ok 1024 (page_at 1024 img 0) = true /\
     header_parse (take 48 img) = Ok h /\
     snd (rrun_g 1024 img (extract_xml (h_xml_offset h) (h_xml_length h)) 48) = Ok x).
Proof.
  unfold open_result, reader_open.
  destruct (header_read_cases img) as (Hb & Hf & Hc). cbv zeta in *.
  destruct (header_read (dev_init img None)) as [d1 r] eqn:E. cbn [fst snd] in *.
  destruct Hc as [[e He]|(h0 & Hr & Hp0 & Hlen)]; subst r; [left; eexists; reflexivity|].
  rewrite (header_parse_page_size _ _ Hp0).
  destruct (pr_new_cases d1 Hf) as [(d2 & e & En)|(d2 & s0 & En & I0 & Ho0 & Hnz & Hmod)];
    rewrite En; cbn [res_relabel]; [left; eexists; reflexivity|].
  rewrite Hb in *.
  destruct (rrun_g_equiv 1024 img _ open_paged s0 I0) as (Hres & _ & _).
  rewrite Ho0 in Hres.
  destruct (rrun open_paged s0) as [s1 r3]. cbn [snd] in Hres. subst r3.
  (* [open_paged] on the validating reader *)
  unfold open_paged. rewrite rrun_g_bind.
  assert (Hseek : rrun_g 1024 img (r_seek 0) 0 = (0, Ok tt)).
  { unfold r_seek. cbn [rrun_g gr_step]. destruct (N.leb_spec (len img) 0); [lia|]. reflexivity. }
  rewrite Hseek. cbn [fst snd].
  assert (Hh : rrun_g 1024 img header_read_paged 0 =
               if page_ok 1024 (page_at 1024 img 0) then (48, header_parse (take 48 img)) else (0, Err ERead)).
  { unfold header_read_paged. rewrite rrun_g_bind, (gr_rd48 img Hnz Hmod).
    destruct (page_ok 1024 (page_at 1024 img 0)); cbn [fst snd]; [|reflexivity].
    destruct (header_parse (take 48 img)); reflexivity. }
  rewrite rrun_g_bind, Hh.
  destruct (page_ok 1024 (page_at 1024 img 0)) eqn:Eok; cbn [fst snd]; [|left; eexists; reflexivity].
  destruct (header_parse (take 48 img)) as [h|e|] eqn:Eh; cbn [fst snd];
    [|left; eexists; reflexivity|discriminate].
  rewrite rrun_g_bind.
  destruct (rrun_g 1024 img (extract_xml (h_xml_offset h) (h_xml_length h)) 48) as [off2 [x|e|]] eqn:Ex;
    cbn [fst snd rret rrun_g].
  - right. exists s1, h, x. repeat split; auto. rewrite Ex. reflexivity.
  - left. eauto.
  - exfalso. apply (extract_xml_no_panic img (h_xml_offset h) (h_xml_length h) 48). rewrite Ex. reflexivity.
Qed.

(** never a panic *)
Corollary reader_open_no_panic img : open_result img <> Panic.
Proof.
  destruct (reader_open_cases img) as [[e E]|(s & h & x & E & _)]; rewrite E; discriminate.
Qed.

(** * Images with a zero XML offset / length *)

Lemma le_num_zero_bytes l : (forall i, nthN i l = 0) -> le_num l = 0.
Proof.
  induction l as [|b r IH]; intros H; cbn [le_num]; [reflexivity|].
  pose proof (H 0) as H0. unfold nthN in H0. change (N.to_nat 0) with 0%nat in H0. cbn [nth] in H0. subst b.
  rewrite IH; [reflexivity|]. intros i. specialize (H (i + 1)). unfold nthN in *.
  replace (N.to_nat (i + 1)) with (S (N.to_nat i)) in H by lia. cbn [nth] in H. exact H.
Qed.

Lemma z2440_xml_length img : z2440 img -> le_num (slice 32 8 (take 48 img)) = 0.
Proof.
  intros Hz. apply le_num_zero_bytes. intros i.
  rewrite nthN_slice, nthN_take.
  destruct (N.ltb_spec i 8); [|reflexivity].
  destruct (N.ltb_spec (32 + i) 48); [|reflexivity]. apply Hz; lia.
Qed.

(** reading zero bytes of XML *)
Lemma extract_xml_empty img xo off x :
  snd (rrun_g 1024 img (extract_xml xo 0) off) = Ok x -> x = [].
Proof.
  unfold extract_xml. change (MAX_XML_SIZE <? 0) with false. cbv iota.
  rewrite rrun_g_bind. unfold r_seek at 1. cbn [rrun_g gr_step].
  destruct (len img <=? xo); cbn [fst snd]; [discriminate|].
  unfold rd, r_read_exact. cbn [rrun_g gr_step]. cbv zeta.
  rewrite N.min_0_l. change (N.to_nat 0) with 0%nat. cbn [gr_read_exact_loop]. change (0 =? 0) with true.
  cbv iota. cbn [res_map rrun_g snd]. intros H. injection H as <-. reflexivity.
Qed.

Theorem open_zero_fields img :
  z2440 img ->
  match open_result img with
  | Ok (_, _, x) => x = []
  | Err _ => True
  | Panic => False
  end.
Proof.
  intros Hz.
  destruct (reader_open_cases img) as [[e E]|(s & h & x & E & _ & _ & _ & Hp & Hx)]; rewrite E; [exact I|].
  destruct (header_parse_fields _ _ Hp) as (_ & Hl & _).
  rewrite Hl, (z2440_xml_length img Hz) in Hx.
  eapply extract_xml_empty. exact Hx.
Qed.

Print Assumptions reader_open_cases.
Print Assumptions open_zero_fields.
