(** Transfer of the page-layer refinement theorems to program trees: every
    [wprog] / [rprog] behaves on the paged writer / paged reader model as it
    does on the logical stream; plus the monad laws of the tree semantics. *)
From E57 Require Import Base.Prelude Model.Device Model.PagedWriter Model.PagedReader Spec.PageSpec Model.Prog
  Proofs.PagedWriterProofs Proofs.PagedReaderProofs.
From E57 Require Import Spec.PageReadSpec Proofs.PagedReaderCache Proofs.PagedReaderLogical.

(** * Histories: the run of an appended history *)

Lemma pw_run_app : forall a b s,
  pw_run (a ++ b) s =
  let '(s1, xs) := pw_run a s in let '(s2, ys) := pw_run b s1 in (s2, xs ++ ys).
Proof.
  induction a as [|o a IH]; intros b s.
  - cbn [app pw_run]. destruct (pw_run b s); reflexivity.
  - cbn [app pw_run]. destruct (pw_step o s) as [s1 x]. rewrite IH.
    destruct (pw_run a s1) as [s2 xs]. destruct (pw_run b s2) as [s3 ys]. reflexivity.
Qed.

Lemma ls_run_app : forall a b l,
  ls_run (a ++ b) l =
  let '(l1, xs) := ls_run a l in let '(l2, ys) := ls_run b l1 in (l2, xs ++ ys).
Proof.
  induction a as [|o a IH]; intros b l.
  - cbn [app ls_run]. destruct (ls_run b l); reflexivity.
  - cbn [app ls_run]. destruct (ls_step o l) as [l1 x]. rewrite IH.
    destruct (ls_run a l1) as [l2 xs]. destruct (ls_run b l2) as [l3 ys]. reflexivity.
Qed.

Lemma pw_run_app_fst : forall a b s,
  fst (pw_run (a ++ b) s) = fst (pw_run b (fst (pw_run a s))).
Proof.
  intros a b s. rewrite pw_run_app.
  destruct (pw_run a s) as [s1 xs]. cbn [fst].
  destruct (pw_run b s1) as [s2 ys]. reflexivity.
Qed.

Lemma ls_run_app_fst : forall a b l,
  fst (ls_run (a ++ b) l) = fst (ls_run b (fst (ls_run a l))).
Proof.
  intros a b l. rewrite ls_run_app.
  destruct (ls_run a l) as [l1 xs]. cbn [fst].
  destruct (ls_run b l1) as [l2 ys]. reflexivity.
Qed.

(** * Writer programs *)

(** A program started in related states returns the same result, and what it
    does to the two states is what some history does to them. *)
Lemma wrun_R : forall (A : Type) (p : wprog A) (s : pw) (l : lstream),
  R s l ->
  snd (wrun p s) = snd (wrun_spec p l) /\
  exists ops' : list pw_op,
    fst (wrun p s) = fst (pw_run ops' s) /\
    fst (wrun_spec p l) = fst (ls_run ops' l).
Proof.
  intros A p.
  induction p as [a|k| |o k IH]; intros s l HR;
    try (split; [reflexivity|exists []; split; reflexivity]).
  cbn [wrun wrun_spec].
  destruct (R_step o s l HR) as (s1 & V & HR1). rewrite V.
  destruct (ls_step o l) as [l1 x] eqn:E. cbn [fst snd] in *.
  destruct (IH x s1 l1 HR1) as (Hres & ops' & H1 & H2).
  split; [exact Hres|].
  exists (o :: ops'). cbn [pw_run ls_run]. rewrite V, E.
  destruct (pw_run ops' s1) as [s2 xs]. destruct (ls_run ops' l1) as [l2 ys].
  cbn [fst snd] in *. split; assumption.
Qed.

(* W: a writer program started after any history behaves as on the logical stream, and the state it
   leaves is again the state after some history (so the theorem composes). *)
Theorem wrun_refines : forall (A : Type) (p : wprog A) (ops : list pw_op),
  snd (wrun p (fst (pw_run ops pw0))) = snd (wrun_spec p (fst (ls_run ops ls_init))) /\
  exists ops' : list pw_op,
    fst (wrun p (fst (pw_run ops pw0))) = fst (pw_run (ops ++ ops') pw0) /\
    fst (wrun_spec p (fst (ls_run ops ls_init))) = fst (ls_run (ops ++ ops') ls_init).
Proof.
  intros A p ops.
  destruct (R_run ops pw0 ls_init R_init) as (_ & HR).
  destruct (wrun_R A p _ _ HR) as (Hres & ops' & H1 & H2).
  split; [exact Hres|].
  exists ops'. rewrite pw_run_app_fst, ls_run_app_fst. split; assumption.
Qed.

(* W': the device image after a program and a flush *)
Theorem wrun_image : forall (A : Type) (p : wprog A),
  let s := fst (wrun p pw0) in
  let l := fst (wrun_spec p ls_init) in
  snd (wrun p pw0) = snd (wrun_spec p ls_init) /\
  snd (pw_flush s) = Ok tt /\
  d_bytes (pw_dev (fst (pw_flush s))) = paginate (ls_data l).
Proof.
  intros A p s l. subst s l.
  destruct (wrun_refines A p []) as (Hres & ops' & H1 & H2).
  cbn [pw_run ls_run fst app] in Hres, H1, H2.
  split; [exact Hres|].
  rewrite H1, H2.
  destruct (pw_run_refines ops') as (_ & Hf & Hb). split; assumption.
Qed.

(** * Reader programs *)

(* the logical offset after a history of the logical reader *)
Fixpoint lr_off (log : list N) (ops : list pr_op) (off : N) : N :=
  match ops with [] => off | o :: r => lr_off log r (fst (lr_step log o off)) end.

Lemma rrun_inv : forall (log : list N), len log mod 1020 = 0 ->
  forall (A : Type) (p : rprog A) (s : pr),
  pr_inv 1024 (paginate log) s ->
  snd (rrun p s) = snd (rrun_spec log p (pr_off s)).
Proof.
  intros log Hmod A p.
  induction p as [a|k| |o k IH]; intros s I; try reflexivity.
  cbn [rrun rrun_spec].
  destruct (pr_step_spec 1024 (paginate log) s o I) as (s1 & H1 & I1 & Ho1).
  rewrite (gr_step_log log Hmod) in H1, Ho1.
  rewrite H1.
  destruct (lr_step log o (pr_off s)) as [off1 x]. cbn [fst snd] in *.
  rewrite <- Ho1. apply IH. exact I1.
Qed.

Lemma pr_run_inv : forall (log : list N), len log mod 1020 = 0 ->
  forall (ops : list pr_op) (s : pr),
  pr_inv 1024 (paginate log) s ->
  pr_inv 1024 (paginate log) (fst (pr_run ops s)) /\
  pr_off (fst (pr_run ops s)) = lr_off log ops (pr_off s).
Proof.
  intros log Hmod.
  induction ops as [|o ops IH]; intros s I.
  - split; [exact I|reflexivity].
  - cbn [pr_run lr_off].
    destruct (pr_step_spec 1024 (paginate log) s o I) as (s1 & H1 & I1 & Ho1).
    rewrite (gr_step_log log Hmod) in H1, Ho1.
    rewrite H1, <- Ho1.
    destruct (IH s1 I1) as (I2 & Ho2).
    destruct (pr_run ops s1) as [s2 xs]. cbn [fst] in *. split; assumption.
Qed.

(* R: a reader program started after any history on a well-formed image behaves as on the logical stream *)
Theorem rrun_logical : forall (A : Type) (p : rprog A) (log : list N) (d1 : dev) (s0 : pr) (ops : list pr_op),
  log <> [] -> len log mod 1020 = 0 ->
  pr_new 1024 (dev_init (paginate log) None) = (d1, Ok s0) ->
  snd (rrun p (fst (pr_run ops s0))) = snd (rrun_spec log p (lr_off log ops 0)).
Proof.
  intros A p log d1 s0 ops _ Hmod Hnew.
  destruct (pr_new_inv 1024 (paginate log) d1 s0 Hnew) as (I0 & Ho0).
  destruct (pr_run_inv log Hmod ops s0 I0) as (I & Ho).
  rewrite Ho0 in Ho. rewrite <- Ho.
  apply rrun_inv; assumption.
Qed.

(** * Monad laws used by later proofs *)

Lemma wrun_spec_bind : forall A B (p : wprog A) (f : A -> wprog B) l,
  wrun_spec (wbind p f) l =
  let '(l1, r) := wrun_spec p l in
  match r with Ok a => wrun_spec (f a) l1 | Err k => (l1, Err k) | Panic => (l1, Panic) end.
Proof.
  intros A B p f.
  induction p as [a|k| |o k IH]; intros l; try reflexivity.
  cbn [wbind wrun_spec]. destruct (ls_step o l) as [l1 x]. apply IH.
Qed.

Lemma rrun_spec_bind : forall A B log (p : rprog A) (f : A -> rprog B) off,
  rrun_spec log (rbind p f) off =
  let '(off1, r) := rrun_spec log p off in
  match r with Ok a => rrun_spec log (f a) off1 | Err k => (off1, Err k) | Panic => (off1, Panic) end.
Proof.
  intros A B log p f.
  induction p as [a|k| |o k IH]; intros off; try reflexivity.
  cbn [rbind rrun_spec]. destruct (lr_step log o off) as [off1 x]. apply IH.
Qed.

Lemma wrun_bind : forall A B (p : wprog A) (f : A -> wprog B) s,
  wrun (wbind p f) s =
  let '(s1, r) := wrun p s in
  match r with Ok a => wrun (f a) s1 | Err k => (s1, Err k) | Panic => (s1, Panic) end.
Proof.
  intros A B p f.
  induction p as [a|k| |o k IH]; intros s; try reflexivity.
  cbn [wbind wrun]. destruct (pw_step o s) as [s1 x]. apply IH.
Qed.

Lemma rrun_bind : forall A B (p : rprog A) (f : A -> rprog B) s,
  rrun (rbind p f) s =
  let '(s1, r) := rrun p s in
  match r with Ok a => rrun (f a) s1 | Err k => (s1, Err k) | Panic => (s1, Panic) end.
Proof.
  intros A B p f.
  induction p as [a|k| |o k IH]; intros s; try reflexivity.
  cbn [rbind rrun]. destruct (pr_step o s) as [s1 x]. apply IH.
Qed.

Lemma wrun_spec_relabel : forall A e (p : wprog A) l,
  wrun_spec (wrelabel e p) l = let '(l1, r) := wrun_spec p l in (l1, res_relabel e r).
Proof.
  intros A e p.
  induction p as [a|k| |o k IH]; intros l; try reflexivity.
  cbn [wrelabel wrun_spec]. destruct (ls_step o l) as [l1 x]. apply IH.
Qed.

Print Assumptions wrun_refines.
Print Assumptions wrun_image.
Print Assumptions rrun_logical.
