(** C09, quantitative half: the walk through [qr_new] and [qr_advance] in the
    partial weakest-precondition calculus of TotWp.v under [gspec ps ls], with a
    postcondition combining progress (>= 4 bytes, end <= logical size) and the
    preservation of the queue bound [qbound]; transfer to [rrun]. *)
From E57 Require Import Base.Prelude Model.Crc Model.Device Model.PagedReader Spec.PageReadSpec Model.Prog
  Model.BsRead Model.Record Model.QueueReader.
From E57 Require Import Proofs.PageSpecLemmas Proofs.PagedReaderCache Proofs.ReaderProgSem Proofs.TotWp
  Proofs.TotQueueBits.
From Coq Require Import ZifyN ZifyNat ZifyBool.
Ltac Zify.zify_post_hook ::= Z.div_mod_to_equations.
Open Scope N_scope.

(** from a successful run to the postcondition *)
Lemma wpp_rrun_ok {A} ps phys (p : rprog A) (Q : A -> N -> Prop) s s' a :
  pr_inv ps phys s -> wpp (gspec ps (pr_log_size s)) p Q (pr_off s) ->
  rrun p s = (s', Ok a) -> Q a (pr_off s').
Proof.
  intros I H E. pose proof (wpp_sound_rrun ps phys p Q s I H) as P.
  rewrite E in P. exact P.
Qed.

Section Walk.
  Variables ps ls : N.
  Let spec := gspec ps ls.

  (** the primitives, in continuation form *)
  Lemma wpp_rd_then {B} n (f : list N -> rprog B) Q off :
    (forall l off', len l = n -> off' = off + n -> (n <> 0 -> off' <= ls) -> wpp spec (f l) Q off') ->
    wpp spec (rbind (rd n) f) Q off.
  Proof.
    intros H. unfold rd, r_read_exact. cbn [rbind wpp]. intros r off' Hs.
    destruct r as [[x|l|]|k|]; cbn [rbind wpp]; try exact I.
    destruct Hs as (H1 & H2 & H3). apply H; assumption.
  Qed.

  Lemma wpp_seek_then {B} p (f : unit -> rprog B) Q off :
    (forall off', off' <= ls + 3 -> wpp spec (f tt) Q off') -> wpp spec (rbind (r_seek p) f) Q off.
  Proof.
    intros H. unfold r_seek. cbn [rbind wpp]. intros r off' Hs.
    destruct r as [[x|l|]|k|]; cbn [rbind wpp]; try exact I; try (cbn in Hs; contradiction).
    destruct Hs as (H1 & H2). apply H. lia.
  Qed.

  Lemma wpp_align_then {B} (f : unit -> rprog B) Q off :
    (forall off', off <= off' -> off' < off + 4 -> off' mod 4 = 0 -> (off' <> off -> off' <= ls) ->
                  wpp spec (f tt) Q off') ->
    wpp spec (rbind r_align f) Q off.
  Proof.
    intros H. unfold r_align. cbn [rbind wpp]. intros r off' Hs.
    destruct r as [[x|l|]|k|]; cbn [rbind wpp]; try exact I; try (cbn in Hs; contradiction).
    destruct Hs as (H1 & H2 & H3 & H4). apply H; assumption.
  Qed.

  Lemma wpp_rd n (Q : list N -> N -> Prop) off :
    (forall l off', len l = n -> off' = off + n -> (n <> 0 -> off' <= ls) -> Q l off') -> wpp spec (rd n) Q off.
  Proof.
    intros H. unfold rd, r_read_exact. cbn [wpp]. intros r off' Hs.
    destruct r as [[x|l|]|k|]; cbn [wpp]; try exact I.
    destruct Hs as (H1 & H2 & H3). apply H; assumption.
  Qed.

  Lemma wpp_true {A} (p : rprog A) : forall off, wpp spec p (fun _ _ => True) off.
  Proof. induction p as [a|e| |o k IH]; cbn [wpp]; intros off; auto. Qed.

  Ltac ifs :=
    cbv zeta;
    repeat match goal with |- wpp _ (if ?c then _ else _) _ _ => destruct c end;
    cbn [wpp rfail rret].

  (** * [qr_new] *)
  Lemma wpp_qr_new fo recs proto off :
    wpp spec (qr_new fo recs proto)
        (fun q _ => q = mkQr proto (map (fun _ => bsr_new) proto) (map (fun _ => []) proto)) off.
  Proof.
    unfold qr_new. apply wpp_seek_then. intros o1 _.
    eapply wpp_bind_with; [apply wpp_true|]. intros h o2 _.
    destruct (0 <? recs).
    - apply wpp_seek_then. intros o3 _. cbn [wpp rret]. reflexivity.
    - cbn [rret rbind wpp]. reflexivity.
  Qed.

  (** * Packet headers: at least four bytes, ending inside the file *)
  Lemma wpp_packet_header_read off :
    wpp spec packet_header_read (fun _ o => off + 4 <= o /\ o <= ls) off.
  Proof.
    unfold packet_header_read. apply wpp_rd_then. intros b o1 _ -> Hls.
    specialize (Hls ltac:(lia)). cbv zeta.
    destruct (byte_at b 0 =? 0); [|destruct (byte_at b 0 =? 1); [|destruct (byte_at b 0 =? 2)]].
    - unfold index_header_read. apply wpp_rd_then. intros b2 o2 _ -> Hls2.
      specialize (Hls2 ltac:(lia)). ifs; try exact I. lia.
    - unfold data_header_read. apply wpp_rd_then. intros b2 o2 _ -> Hls2.
      specialize (Hls2 ltac:(lia)). ifs; try exact I. lia.
    - unfold ignored_header_read. apply wpp_rd_then. intros b2 o2 _ -> Hls2.
      specialize (Hls2 ltac:(lia)). ifs; try exact I. lia.
    - exact I.
  Qed.

  Lemma wpp_read_sizes : forall n off, off <= ls ->
    wpp spec (read_sizes n) (fun sizes o => off <= o /\ o <= ls /\ length sizes = n) off.
  Proof.
    induction n as [|k IH]; intros off Hoff; cbn [read_sizes].
    - cbn [wpp rret]. repeat split; lia.
    - apply wpp_rd_then. intros b o1 _ -> Hls. specialize (Hls ltac:(lia)).
      eapply wpp_bind_with; [apply IH; exact Hls|].
      intros r o2 (A1 & A2 & A3). cbn [wpp rret length]. repeat split; lia.
  Qed.

  Lemma wpp_read_streams : forall rproto sizes streams off, off <= ls ->
    wpp spec (read_streams rproto sizes streams)
        (fun ss o => off <= o /\ o <= ls /\
                     ((length streams <= length sizes)%nat -> (length streams <= length rproto)%nat ->
                      length ss = length streams) /\
                     forall proto queues,
                       sized_pot proto ss queues <= sized_pot proto streams queues + 8 * (o - off)) off.
  Proof.
    induction rproto as [|t0 pr0 IH]; intros sizes streams off Hoff.
    { cbn [read_streams wpp rret]. split; [lia|]. split; [exact Hoff|]. split.
      - destruct streams; cbn [length]; [reflexivity|lia].
      - intros proto queues. rewrite sized_pot_nil_streams. lia. }
    destruct sizes as [|sz sr].
    { cbn [read_streams wpp rret]. split; [lia|]. split; [exact Hoff|]. split.
      - destruct streams; cbn [length]; [reflexivity|lia].
      - intros proto queues. rewrite sized_pot_nil_streams. lia. }
    destruct streams as [|st tr].
    { cbn [read_streams wpp rret]. split; [lia|]. split; [exact Hoff|]. split; [reflexivity|].
      intros proto queues. lia. }
    cbn [read_streams]. apply wpp_rd_then. intros data o1 Hl Ho Hls.
    assert (Ho1 : o1 <= ls).
    { destruct (N.eq_dec sz 0) as [E|E]; [lia|exact (Hls E)]. }
    assert (Htail : forall st', pending st' <= pending st + 8 * sz ->
      wpp spec (rbind (read_streams pr0 sr tr) (fun r => rret (st' :: r)))
        (fun ss o => off <= o /\ o <= ls /\
                     ((length (st :: tr) <= length (sz :: sr))%nat ->
                      (length (st :: tr) <= length (t0 :: pr0))%nat ->
                      length ss = length (st :: tr)) /\
                     forall proto queues,
                       sized_pot proto ss queues <= sized_pot proto (st :: tr) queues + 8 * (o - off)) o1).
    { intros st' Ea.
      eapply wpp_bind_with; [apply IH; exact Ho1|].
      intros r o2 (A1 & A2 & A3 & A4). cbn [wpp rret].
      split; [lia|]. split; [exact A2|]. split.
      - cbn [length]. intros Hlen Hlen2. rewrite A3; [reflexivity|lia|lia].
      - intros [|t pr] queues; [cbn [sized_pot]; lia|].
        destruct queues as [|q qr]; [cbn [sized_pot]; lia|].
        cbn [sized_pot]. specialize (A4 pr qr).
        set (SP := sized_pot pr r qr) in *. set (SP0 := sized_pot pr tr qr) in *.
        set (P' := pending st') in *. set (P := pending st) in *. clearbody SP SP0 P' P.
        destruct (bit_size t =? 0); [lia|].
        set (X := len q * bit_size t). clearbody X. lia. }
    destruct (bit_size t0 =? 0).
    - cbn [rret rbind]. apply Htail. lia.
    - destruct (bsr_append st data) as [st'|k|] eqn:Ea; cbn [rlift rbind]; [|exact I|exact I].
      apply pending_append in Ea. rewrite Hl in Ea. apply Htail. exact Ea.
  Qed.

  (** * [qr_advance] *)
  Definition adv_post (q : qr) (off : N) (q' : qr) (off' : N) : Prop :=
    off + 4 <= off' /\ off' <= ls /\
    (qshape q -> qshape q' /\ q_proto q' = q_proto q /\
                 forall off0, qbound off0 q off -> qbound off0 q' off').

  Lemma wpp_qr_advance q off : wpp spec (qr_advance q) (adv_post q off) off.
  Proof.
    unfold qr_advance. eapply wpp_bind_with; [apply wpp_packet_header_read|].
    intros h o1 [H1 H2].
    eapply wpp_bind_with with (R := fun q1 o2 =>
      o1 <= o2 /\ o2 <= ls /\
      (qshape q -> qshape q1 /\ q_proto q1 = q_proto q /\
                   forall off0, qbound off0 q off -> qbound off0 q1 o2)).
    2: { intros q1 o2 (A1 & A2 & A3). apply wpp_align_then. intros o3 B1 B2 B3 B4.
         cbn [wpp rret]. unfold adv_post. split; [lia|]. split.
         - destruct (N.eq_dec o3 o2) as [E|E]; [lia|exact (B4 E)].
         - intros Hs. destruct (A3 Hs) as (C1 & C2 & C3).
           split; [exact C1|]. split; [exact C2|].
           intros off0 Hb. eapply qbound_mono; [|apply C3; exact Hb]. lia. }
    destruct h as [pl|flag pl count|pl].
    - destruct (pl <? INDEX_HEADER_SIZE); [exact I|].
      set (n := pl - INDEX_HEADER_SIZE). clearbody n.
      apply wpp_rd_then. intros l o2 _ Ho Hls. cbn [wpp rret].
      assert (Ho2 : o2 <= ls) by (destruct (N.eq_dec n 0) as [E|E]; [lia|exact (Hls E)]).
      split; [lia|]. split; [exact Ho2|].
      intros Hs. split; [exact Hs|]. split; [reflexivity|].
      intros off0 Hb. eapply qbound_mono; [|exact Hb]. lia.
    - destruct (negb (count =? len (q_streams q))); [exact I|].
      eapply wpp_bind_with; [apply wpp_read_sizes; exact H2|].
      intros sizes o2 (S1 & S2 & S3).
      eapply wpp_bind_with; [apply wpp_read_streams; exact S2|].
      intros streams o3 (T1 & T2 & T3 & T4).
      destruct (negb (has_sized (q_proto q))); [exact I|].
      destruct (parse_streams (q_proto q) streams (q_queues q)) as [[ss qs]|k|] eqn:Ep;
        cbn [rlift rbind wpp rret]; try exact I.
      split; [lia|]. split; [exact T2|].
      intros [L1 L2].
      apply parse_streams_pot in Ep. destruct Ep as (P1 & P2 & P3).
      assert (L3 : length streams = length (q_proto q)) by (rewrite T3; lia).
      unfold qshape. cbn [q_proto q_streams q_queues].
      split; [apply P3; assumption|]. split; [reflexivity|].
      intros off0 (B1 & B2 & B3). unfold qbound. cbn [q_proto q_streams q_queues].
      specialize (T4 (q_proto q) (q_queues q)).
      set (SPn := sized_pot (q_proto q) ss qs) in *.
      set (SPm := sized_pot (q_proto q) streams (q_queues q)) in *.
      set (SP0 := sized_pot (q_proto q) (q_streams q) (q_queues q)) in *.
      clearbody SPn SPm SP0.
      split; [lia|]. split; [lia|].
      apply P2. exact B3.
    - destruct (pl <? IGNORED_HEADER_SIZE); [exact I|].
      set (n := pl - IGNORED_HEADER_SIZE). clearbody n.
      apply wpp_rd_then. intros l o2 _ Ho Hls. cbn [wpp rret].
      assert (Ho2 : o2 <= ls) by (destruct (N.eq_dec n 0) as [E|E]; [lia|exact (Hls E)]).
      split; [lia|]. split; [exact Ho2|].
      intros Hs. split; [exact Hs|]. split; [reflexivity|].
      intros off0 Hb. eapply qbound_mono; [|exact Hb]. lia.
  Qed.
End Walk.
