(** Preparation for the prefix theorem (Proofs/XmlpPrefix.v): the steps the parser model takes
    on a complete rendering, exposed as a lemma; what follows the root element in a rendering;
    prefixes of the prolog. *)
From Coq Require Import Lia ZifyN ZifyNat ZifyBool.
From E57 Require Import Base.Prelude Model.XmlTree Model.XmlParse Spec.XmlRender
  Proofs.XmlpLex Proofs.XmlpEsc Proofs.XmlpFuel Proofs.XmlpNs Proofs.XmlpTag Proofs.XmlpContent
  Proofs.XmlpRoundtrip Proofs.XmlpRoundtripDoc.

Local Open Scope N_scope.

Definition is_prefix (p s : list N) : Prop := exists x, s = p ++ x.

(** what a rendering has after the end tag of the root element *)
Fixpoint doc_tail_from (c : render_choices) (i : nat) (l : list xnode) : xstr :=
  match l with
  | [] => []
  | x :: r => if is_element x then render_doc_nodes c (S i) r else doc_tail_from c (S i) r
  end.
Definition doc_tail (c : render_choices) (d : xdoc) : xstr := doc_tail_from c 0%nat (xd_children d).

(** the prefix ends before the final '>' of the root element's end tag *)
Definition cuts_root_element (c : render_choices) (d : xdoc) (p : list N) : Prop :=
  (length p + length (doc_tail c d) < length (render c d))%nat.

Lemma misc_not_element : forall n, is_misc n = true -> is_element n = false.
Proof. intros [| | |] H; try discriminate; reflexivity. Qed.

Lemma doc_tail_split : forall c pre root post i, forallb is_misc pre = true -> is_element root = true ->
  doc_tail_from c i (pre ++ root :: post) = render_doc_nodes c (S (i + length pre)) post.
Proof.
  intros c pre. induction pre as [|x pre IH]; intros root post i Hp Hr; cbn [app doc_tail_from length].
  - rewrite Hr, Nat.add_0_r. reflexivity.
  - cbn [forallb] in Hp. apply andb_true_iff in Hp. destruct Hp as [Hx Hp].
    rewrite (misc_not_element x Hx). rewrite (IH root post (S i) Hp Hr). f_equal. lia.
Qed.

(** the steps of [parse_document] on a rendering (the first half of the proof of [parse_render]) *)
Lemma doc_steps : forall c d, wf_doc d = true ->
  exists pre root post b r fe,
    xd_children d = pre ++ root :: post /\ forallb is_misc pre = true /\ forallb is_misc post = true
    /\ is_element root = true
    /\ let NODES := render_doc_nodes c 0%nat (xd_children d) in
       let S3 := render_doc_nodes c (S (length pre)) post in
       render c d = (if rc_bom c then BOM else []) ++ render_decl (rc_decl c) ++ NODES
       /\ starts_with s_decl_open NODES = false
       /\ (exists b0 r0, NODES = b0 :: r0 /\ b0 <> 239)
       /\ parse_misc (length pre + 1) NODES = POk (pre, 60 :: b :: r ++ S3)
       /\ b <> 33 /\ b <> 63
       /\ parse_element fe None ((b :: r) ++ S3) = POk (root, decl_count None root, S3)
       /\ doc_tail c d = S3.
Proof.
  intros c [l] Hwf. unfold wf_doc in Hwf. cbn [xd_children] in *.
  apply andb_true_iff in Hwf. destruct Hwf as [Hwf Hcnt]. apply andb_true_iff in Hwf. destruct Hwf as [Hwf Hone].
  apply andb_true_iff in Hwf. destruct Hwf as [Hw Hnt]. apply Nat.eqb_eq in Hone.
  destruct (doc_split l Hnt Hone) as (pre & root & post & El & Hroot & Hpre & Hpost).
  assert (Hw' : forallb (wf_node None) pre = true /\ wf_node None root = true /\ forallb (wf_node None) post = true).
  { rewrite El in Hw. rewrite forallb_app in Hw. cbn [forallb] in Hw. rewrite !andb_true_iff in Hw. tauto. }
  destruct Hw' as (Hwpre & Hwroot & Hwpost).
  set (k := length pre).
  destruct (root_render c [k] root Hroot Hwroot) as (b & r & Er & H33 & H63 & H47).
  set (NODES := render_doc_nodes c 0%nat l).
  set (S3 := render_doc_nodes c (S k) post).
  assert (ENODES : NODES = render_doc_prefix c 0%nat pre ++ blanks (rc_doc_ws c k) ++ 60 :: b :: r ++ S3).
  { unfold NODES. rewrite El, render_doc_nodes_app. cbn [Nat.add render_doc_nodes]. fold k. rewrite Er. cbn [app].
    unfold S3. reflexivity. }
  assert (Hel := element_ok root c [k] None no_name [] S3 Hwroot I).
  assert (Hl_ne : l <> []) by (rewrite El; destruct pre; discriminate).
  destruct (doc_nodes_head c 0%nat l Hl_ne Hw Hnt) as (Hnd & Hhead). fold NODES in Hnd, Hhead.
  destruct root as [nm attrs sc ch| | |]; try discriminate. destruct Hel as [fe Hel].
  rewrite Er in Hel. cbn [tl] in Hel.
  exists pre, (XElem nm attrs sc ch), post, b, r, fe.
  split; [exact El|]. split; [exact Hpre|]. split; [exact Hpost|]. split; [reflexivity|].
  cbv zeta. fold k. fold S3. fold NODES.
  split; [reflexivity|]. split; [exact Hnd|]. split; [exact Hhead|].
  split.
  { rewrite ENODES.
    assert (Q := parse_misc_prefix c pre 0%nat _ [] _ 1%nat Hpre Hwpre (parse_misc_at_root (rc_doc_ws c k) b (r ++ S3) H33 H63)).
    rewrite app_nil_r in Q. exact Q. }
  split; [exact H33|]. split; [exact H63|]. split; [exact Hel|].
  unfold doc_tail. cbn [xd_children]. rewrite El. rewrite (doc_tail_split c pre (XElem nm attrs sc ch) post 0%nat Hpre eq_refl). reflexivity.
Qed.

(** * Prefixes *)
Lemma is_prefix_firstn : forall p s, is_prefix p s -> p = firstn (length p) s.
Proof.
  intros p s [x E]. subst s. rewrite firstn_app, Nat.sub_diag, firstn_all. cbn [firstn]. rewrite app_nil_r. reflexivity.
Qed.

Lemma is_prefix_app_cases : forall p a b, is_prefix p (a ++ b) ->
  (exists q, p = a ++ q /\ is_prefix q b) \/ (is_prefix p a /\ (length p < length a)%nat).
Proof.
  intros p a. revert p. induction a as [|y a IH]; intros p b [x E].
  - left. exists p. split; [reflexivity | exists x; exact E].
  - destruct p as [|z p].
    + right. split; [exists (y :: a); reflexivity | cbn; lia].
    + cbn [app] in E. injection E as Ez E'. subst z.
      assert (Hp' : is_prefix p (a ++ b)) by (exists x; exact E').
      destruct (IH p b Hp') as [(q & Eq & Hq) | (Hp & Hl)].
      * left. exists q. split; [rewrite Eq; reflexivity | exact Hq].
      * right. split; [destruct Hp as [x' Ex']; exists x'; rewrite Ex'; reflexivity | cbn; lia].
Qed.

Lemma starts_with_is_prefix : forall a q s, starts_with a q = true -> is_prefix q s -> starts_with a s = true.
Proof.
  intros a q s H [x E]. subst s. unfold starts_with in *.
  destruct (strip_prefix a q) as [r|] eqn:F; [|discriminate].
  apply strip_prefix_sound in F. subst q. rewrite <- app_assoc. rewrite strip_prefix_app. reflexivity.
Qed.

Definition not_ok (r : parse_result) : bool := match r with ParseOk _ => false | _ => true end.

(** no proper prefix of a prolog (byte order mark and/or declaration) is a document *)
Lemma prolog_prefixes : forall (bom : bool) (dc : decl_choice) (k : nat),
  (k < length ((if bom then BOM else []) ++ render_decl dc))%nat ->
  not_ok (xml_parse (firstn k ((if bom then BOM else []) ++ render_decl dc))) = true.
Proof.
  intros bom dc k Hk.
  assert (G : forall pro, forallb (fun j => not_ok (xml_parse (firstn j pro))) (seq 0 (length pro)) = true ->
                          (k < length pro)%nat -> not_ok (xml_parse (firstn k pro)) = true).
  { intros pro H Hlt. rewrite forallb_forall in H. apply H. apply in_seq. lia. }
  destruct bom, dc; cbn [render_decl app] in *; try (cbn in Hk; lia); apply G; try exact Hk; vm_compute; reflexivity.
Qed.

Lemma xml_parse_empty : xml_parse [] = ParseErr.
Proof. vm_compute. reflexivity. Qed.

Lemma xml_read_empty : xml_read [] = XmlErrParse.
Proof. vm_compute. reflexivity. Qed.
