(** Facts about the tree interface that the property checks rely on, and concrete instances
    of the round-trip theorem (evaluated with vm_compute, independently of its proof). *)
From E57 Require Import Base.Prelude Model.XmlTree Model.XmlParse Spec.XmlRender Proofs.XmlpRoundtripDoc.

Local Open Scope N_scope.

(** (i) [Node::text()] of an element is its FIRST child when that is a text node: a comment or a
    processing instruction placed before the text of a leaf element hides the text. *)
Lemma node_text_comment_first : forall nm attrs sc c rest, node_text (XElem nm attrs sc (XComment c :: rest)) = None.
Proof. reflexivity. Qed.
Lemma node_text_pi_first : forall nm attrs sc t v rest, node_text (XElem nm attrs sc (XPI t v :: rest)) = None.
Proof. reflexivity. Qed.
Lemma node_text_text_first : forall nm attrs sc t rest, node_text (XElem nm attrs sc (XText t :: rest)) = Some t.
Proof. reflexivity. Qed.

Definition root_text (bytes : list N) : option (option xstr) :=
  match xml_parse bytes with
  | ParseOk d => match root_element d with Some r => Some (node_text r) | None => None end
  | _ => None
  end.

(* <a><!--c-->t</a> *)
Example text_hidden_by_comment : root_text [60;97;62;60;33;45;45;99;45;45;62;116;60;47;97;62] = Some None.
Proof. vm_compute. reflexivity. Qed.
(* <a><?p?>t</a> *)
Example text_hidden_by_pi : root_text [60;97;62;60;63;112;63;62;116;60;47;97;62] = Some None.
Proof. vm_compute. reflexivity. Qed.
(* <a>t<!--c--></a> *)
Example text_before_comment : root_text [60;97;62;116;60;33;45;45;99;45;45;62;60;47;97;62] = Some (Some [116]).
Proof. vm_compute. reflexivity. Qed.
(* <a>t<![CDATA[u]]>v</a> : one text node *)
Example text_and_cdata_merge : root_text [60;97;62;116;60;33;91;67;68;65;84;65;91;117;93;93;62;118;60;47;97;62] = Some (Some [116; 117; 118]).
Proof. vm_compute. reflexivity. Qed.

(** (ii) [has_tag_name("local")] ignores the namespace. *)
Lemma has_tag_name_ignores_ns : forall ns1 ns2 local l a1 s1 c1 a2 s2 c2,
  has_tag_name l (XElem (mkXName ns1 local) a1 s1 c1) = has_tag_name l (XElem (mkXName ns2 local) a2 s2 c2).
Proof. reflexivity. Qed.

Definition root_has_tag (bytes : list N) (local : xstr) : option (bool * option xstr) :=
  match xml_parse bytes with
  | ParseOk d => match root_element d with
                 | Some (XElem nm _ _ _ as r) => Some (has_tag_name local r, xn_ns nm)
                 | _ => None
                 end
  | _ => None
  end.

(* <p:guid xmlns:p="u"/> has tag name "guid" although it is in namespace "u" *)
Example has_tag_name_foreign_ns : root_has_tag [60;112;58;103;117;105;100;32;120;109;108;110;115;58;112;61;34;117;34;47;62] [103;117;105;100] = Some (true, Some [117]).
Proof. vm_compute. reflexivity. Qed.
(* <guid/> *)
Example has_tag_name_no_ns : root_has_tag [60;103;117;105;100;47;62] [103;117;105;100] = Some (true, None).
Proof. vm_compute. reflexivity. Qed.

(** * A concrete instance of [parse_render] *)
Definition ex_bytes : list N := [60;63;120;109;108;32;118;101;114;115;105;111;110;61;34;49;46;48;34;32;101;110;99;111;100;105;110;103;61;34;85;84;70;45;56;34;63;62;10;60;101;53;55;82;111;111;116;32;116;121;112;101;61;34;83;116;114;117;99;116;117;114;101;34;32;120;109;108;110;115;58;110;111;114;61;34;104;116;116;112;58;47;47;110;47;63;97;61;49;38;97;109;112;59;98;61;50;34;32;120;109;108;110;115;61;34;104;116;116;112;58;47;47;119;119;119;46;97;115;116;109;46;111;114;103;47;67;79;77;77;73;84;47;69;53;55;47;50;48;49;48;45;101;53;55;45;118;49;46;48;34;62;10;60;103;117;105;100;32;116;121;112;101;61;34;83;116;114;105;110;103;34;62;60;33;91;67;68;65;84;65;91;97;93;93;93;93;62;60;33;91;67;68;65;84;65;91;62;98;32;195;169;93;93;62;60;47;103;117;105;100;62;10;60;110;111;114;58;120;32;116;121;112;101;61;34;73;110;116;101;103;101;114;34;32;110;111;114;58;107;61;34;49;38;35;49;48;59;50;34;62;45;53;60;47;110;111;114;58;120;62;10;60;101;32;116;121;112;101;61;34;83;116;114;105;110;103;34;62;60;33;91;67;68;65;84;65;91;93;93;62;60;47;101;62;10;60;98;108;111;98;32;116;121;112;101;61;34;66;108;111;98;34;32;102;105;108;101;79;102;102;115;101;116;61;34;52;56;34;32;108;101;110;103;116;104;61;34;50;34;47;62;10;60;33;45;45;99;45;45;62;60;63;112;32;118;63;62;60;47;101;53;55;82;111;111;116;62;10].
Definition ex_doc : xdoc := match xml_parse ex_bytes with ParseOk d => d | _ => mkXDoc [] end.

Example ex_doc_nontrivial : length (doc_descendants ex_doc) = 15%nat.
Proof. vm_compute. reflexivity. Qed.
Example ex_doc_wf : wf_doc ex_doc = true.
Proof. vm_compute. reflexivity. Qed.
(** the writer's style is one value of [render_choices], and it reproduces these bytes *)
Example ex_writer_style : render writer_choices ex_doc = ex_bytes.
Proof. vm_compute. reflexivity. Qed.
Example ex_roundtrip_computed : xml_parse (render writer_choices ex_doc) = ParseOk ex_doc.
Proof. vm_compute. reflexivity. Qed.
Example ex_roundtrip_by_theorem : forall c, xml_parse (render c ex_doc) = ParseOk ex_doc.
Proof. intros c. apply parse_render. exact ex_doc_wf. Qed.
