(** Closeness of the result on the halved path (the width max - min overflows
    binary64, e.g. f64::MIN..f64::MAX, the default range of a Double attribute):
    within 2^-23 of (v - min) / (max - min). *)
From Coq Require Import ZArith Reals Lra Lia Psatz.
From Flocq Require Import Core Mult_error Binary Bits.
From E57 Require Import Base.Prelude Base.Floats Model.Normalize
  Proofs.FltLemmas Proofs.NormalizeCore Proofs.NormalizeHalved Proofs.NormalizeProofs Proofs.NormalizeTheorems.
Local Open Scope R_scope.

Lemma bpow_m1 : bpow radix2 (-1) = / 2.
Proof. reflexivity. Qed.

(** Halving a binary64 number is exact unless the result is subnormal; then the
    error is at most half of the smallest subnormal. *)
Lemma half_err : forall x, fmt64 x -> Rabs (R64 (x * / 2) - x * / 2) <= bpow radix2 (-1075).
Proof.
  intros x Fx. destruct (Rle_or_lt (bpow radix2 (-1021)) (Rabs x)) as [A|A].
  - rewrite R64_id.
    + replace (x * / 2 - x * / 2) with 0 by ring. rewrite Rabs_R0. apply bpow_ge_0.
    + rewrite <- bpow_m1. apply mult_bpow_exact_FLT; [exact Fx|].
      assert ((-1020 <= mag radix2 x)%Z) by (apply mag_ge_bpow; exact A). lia.
  - unfold R64. eapply Rle_trans. apply error_le_half_ulp; auto with typeclass_instances.
    rewrite ulp_FLT_small.
    + change (-1075)%Z with (-1 + -1074)%Z. rewrite bpow_plus, bpow_m1. lra.
    + auto with typeclass_instances.
    + rewrite Rabs_mult, (Rabs_pos_eq (/ 2)) by lra.
      change (-1074 + 53)%Z with (-1021)%Z.
      assert (0 <= Rabs x) by apply Rabs_pos. lra.
Qed.

(** Perturbing numerator and denominator of a quotient in [0,1] by at most [e]
    each, with a denominator of at least 1, moves it by at most [2 e]. *)
Lemma quot_perturb : forall a b a' b' e, 0 <= a <= b -> 1 <= b -> 1 <= b' -> 0 <= e ->
  Rabs (a' - a) <= e -> Rabs (b' - b) <= e ->
  Rabs (a' / b' - a / b) <= 2 * e.
Proof.
  intros a b a' b' e [A0 A1] B B' E Da Db.
  apply Rabs_le_inv in Da. apply Rabs_le_inv in Db.
  assert (Q : a' / b' - a / b = ((a' - a) * b - a * (b' - b)) / (b * b') * 1) by (field; lra).
  rewrite Q.
  assert (P : 0 < b * b') by nra.
  set (da := a' - a) in *. set (db := b' - b) in *.
  assert (X1 : - (e * b) <= da * b <= e * b) by nra.
  assert (X2 : - (e * b) <= a * db <= e * b) by nra.
  assert (X3 : e * b <= e * (b * b')) by nra.
  unfold Rdiv. rewrite Rmult_1_r.
  apply Rabs_le. split.
  - apply Rmult_le_reg_r with (b * b'); [exact P|]. rewrite Rmult_assoc, Rinv_l by (apply Rgt_not_eq; exact P). lra.
  - apply Rmult_le_reg_r with (b * b'); [exact P|]. rewrite Rmult_assoc, Rinv_l by (apply Rgt_not_eq; exact P). lra.
Qed.

Lemma bpow_m1073_le : 2 * (2 * bpow radix2 (-1075)) <= bpow radix2 (-25).
Proof.
  replace (2 * (2 * bpow radix2 (-1075))) with (bpow radix2 (-1073)).
  - apply bpow_le. lia.
  - change (-1073)%Z with (2 + -1075)%Z. rewrite bpow_plus. simpl (bpow radix2 2). lra.
Qed.

Section HalvedClose.
Variables lo hi : binary64.
Hypothesis Hlo : fin64 lo = true.
Hypothesis Hhi : fin64 hi = true.
Let L := B2R64 lo.
Let H := B2R64 hi.
Hypothesis Hlt : L < H.
Hypothesis Hovf : ~ Rabs (R64 (H - L)) < bpow radix2 1024.

Lemma normR_close_halved : forall v : binary64,
  Rabs (normR L H (B2R64 v) - clampR 0 1 ((B2R64 v - L) / (H - L))) <= bpow radix2 (-23).
Proof.
  intros v. unfold normR. destruct (Req_EM_T L H) as [E|NE]; [lra|].
  destruct (Rlt_dec _ _) as [A|B]; [contradiction|].
  assert (Hle : L <= H) by lra.
  rewrite clampR_quot by exact Hlt.
  pose proof (clampR_bounds L H (B2R64 v) Hle) as Cb.
  set (C := clampR L H (B2R64 v)) in *.
  assert (FC : fmt64 C).
  { unfold C, clampR, Rmin, Rmax. destruct (Rle_dec L (B2R64 v)); destruct (Rle_dec H _); apply fmt64_B2R. }
  assert (Hov' : ~ R64 (H - L) < bpow radix2 1024).
  { intros X. apply Hovf. rewrite Rabs_pos_eq; [exact X|]. rewrite <- R64_0. apply R64_le. lra. }
  pose proof (halved_distinct L H (B2R64_abs_le_max lo) (B2R64_abs_le_max hi) Hov') as Dist.
  pose proof (halved_wide L H Hov') as Wide.
  set (ml := R64 (L * / 2)) in *. set (mh := R64 (H * / 2)) in *. set (mc := R64 (C * / 2)).
  assert (Mb : ml <= mc <= mh) by (split; apply R64_half_mono; lra).
  pose proof (core_close ml mh (fmt64_R64 _) (fmt64_R64 _) Dist mc (fmt64_R64 _) Mb) as K.
  pose proof (half_err L (fmt64_B2R lo)) as EL. pose proof (half_err H (fmt64_B2R hi)) as EH.
  pose proof (half_err C FC) as EC. fold ml in EL. fold mh in EH. fold mc in EC.
  assert (Four : 4 <= bpow radix2 1023).
  { apply Rle_trans with (bpow radix2 2); [simpl; lra|apply bpow_le; lia]. }
  assert (Tiny : 0 <= bpow radix2 (-1075)) by apply bpow_ge_0.
  assert (Tiny2 : bpow radix2 (-1075) <= / 4).
  { apply Rle_trans with (bpow radix2 (-2)); [apply bpow_le; lia|]. simpl. lra. }
  apply Rabs_le_inv in EH. apply Rabs_le_inv in EL. apply Rabs_le_inv in EC.
  assert (P : Rabs ((mc - ml) / (mh - ml) - (C * / 2 - L * / 2) / (H * / 2 - L * / 2)) <= 2 * (2 * bpow radix2 (-1075))).
  { apply quot_perturb.
    - lra.
    - lra.
    - lra.
    - lra.
    - apply Rabs_le. lra.
    - apply Rabs_le. lra. }
  replace ((C - L) / (H - L)) with ((C * / 2 - L * / 2) / (H * / 2 - L * / 2)) by (field; lra).
  set (t := (C * / 2 - L * / 2) / (H * / 2 - L * / 2)) in *.
  replace (coreR ml mh mc - t) with ((coreR ml mh mc - (mc - ml) / (mh - ml)) + ((mc - ml) / (mh - ml) - t)) by ring.
  eapply Rle_trans. apply Rabs_triang.
  pose proof bpow_m1073_le as T.
  replace (bpow radix2 (-23)) with (bpow radix2 (-24) + bpow radix2 (-24)).
  - apply Rplus_le_compat; [exact K|]. eapply Rle_trans. exact P. eapply Rle_trans. exact T. apply bpow_le. lia.
  - change (-23)%Z with (1 + -24)%Z. rewrite bpow_plus. simpl (bpow radix2 1). lra.
Qed.

End HalvedClose.

(** Unconditional closeness: within 2^-23 for every accepted range with min < max. *)
Theorem normalize_close_any : forall lo hi rg v y, from_min_max lo hi = Ok rg -> B2R64 lo < B2R64 hi ->
  fin64 v = true -> normalize rg v = Ok y ->
  Rabs (B2R32 y - clampR 0 1 ((B2R64 v - B2R64 lo) / (B2R64 hi - B2R64 lo))) <= bpow radix2 (-23).
Proof.
  intros lo hi rg v y Hacc Hlt Hv N. destruct (from_min_max_ok lo hi rg Hacc) as (Hlo & Hhi & Hle & ->).
  destruct (normalize_sem lo hi Hlo Hhi Hle v Hv) as (z & Z1 & Z2 & Z3 & _).
  rewrite N in Z1. inversion Z1; subst z. rewrite Z3.
  destruct (Rlt_dec (Rabs (R64 (B2R64 hi - B2R64 lo))) (bpow radix2 1024)) as [A|B].
  - eapply Rle_trans. apply normR_close; assumption. apply bpow_le. lia.
  - apply normR_close_halved; assumption.
Qed.
