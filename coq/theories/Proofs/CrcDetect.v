(** G2: any alteration of one, two or three bits of a valid page (payload
    and/or checksum bits, either bit order) is detected.

    All 8192 unit syndromes have odd parity, so the xor of one or three of
    them has odd parity and is not zero; they are pairwise distinct, so the
    xor of two of them is not zero. *)
From Coq Require Import ZifyN ZifyNat ZifyBool.
From E57 Require Import Base.Prelude Model.Crc Spec.CrcSpec.
From E57 Require Import Proofs.CrcLinear Proofs.CrcSyndrome Proofs.CrcSynTable.
Ltac Zify.zify_post_hook ::= Z.div_mod_to_equations.

Theorem crc_detects_3_bits : forall (msb : bool) (page l : list N),
  is_page page -> crc_ok page = true -> pattern l -> (1 <= length l <= 3)%nat ->
  crc_ok (flip_bits msb page l) = false.
Proof.
  intros msb page l Hp Hok [Hnd Hl] Hlen.
  apply crc_flip_detected; try assumption.
  destruct l as [ | i [ | j [ | k [ | ? ? ]]]]; cbn [length] in Hlen; try lia;
    cbn [map xors fold_right].
  - (* one bit *)
    inversion_clear Hl as [ | ? ? Hi _].
    apply parity_nonzero. rewrite N.lxor_0_r. apply synd_odd, Hi.
  - (* two bits *)
    inversion_clear Hl as [ | ? ? Hi Hl']. inversion_clear Hl' as [ | ? ? Hj _].
    rewrite N.lxor_0_r. intro E. apply N.lxor_eq in E.
    apply synd_inj in E; [ | assumption | assumption ]. subst j.
    inversion_clear Hnd as [ | ? ? Hn _]. apply Hn. left. reflexivity.
  - (* three bits *)
    inversion_clear Hl as [ | ? ? Hi Hl']. inversion_clear Hl' as [ | ? ? Hj Hl''].
    inversion_clear Hl'' as [ | ? ? Hk _].
    apply parity_nonzero. rewrite !parity_lxor, !synd_odd by assumption. reflexivity.
Qed.

Print Assumptions crc_detects_3_bits.
