(** C13: which range is used ([from_limits], [from_record_data_type],
    [range_of_channel]), the disabled path, totality of the whole model, the
    8-bit colours of the bundled tools, witnesses, examples. *)
From Coq Require Import ZArith NArith Bool Reals Lra Lia List.
From Flocq Require Import Core Binary Bits.
From E57 Require Import Base.Prelude Base.Floats Model.Normalize
  Proofs.FltLemmas Proofs.NormalizeCore Proofs.NormalizeHalved Proofs.NormalizeProofs Proofs.NormalizeTheorems.
Local Open Scope R_scope.

(** * Range choice *)

(** The limits of the channel, when both are given and of one kind the crate
    knows how to read (ScaledInteger limits are raw values and need the scale
    and offset of a ScaledInteger attribute). *)
Definition limits_range (ch : channel) : option (res range) :=
  match ch_lmin ch, ch_lmax ch with
  | Some (NDouble a), Some (NDouble b) => Some (from_min_max a b)
  | Some (NSingle a), Some (NSingle b) => Some (from_min_max (f64_of_f32 a) (f64_of_f32 b))
  | Some (NInteger a), Some (NInteger b) => Some (from_min_max (f64_of_Z a) (f64_of_Z b))
  | Some (NScaled a), Some (NScaled b) =>
      match ch_type ch with
      | Some (NTScaled _ _ scale offset) => Some (from_scaled a b scale offset)
      | _ => None
      end
  | _, _ => None
  end.

(** The declared range of the attribute's data type, with the defaults
    f32::MIN..f32::MAX and f64::MIN..f64::MAX for undeclared float limits. *)
Definition type_range (dt : ntype) : res range :=
  match dt with
  | NTSingle mn mx => from_min_max (f64_of_f32 (match mn with Some x => x | None => f32_MIN end))
                                   (f64_of_f32 (match mx with Some x => x | None => f32_MAX end))
  | NTDouble mn mx => from_min_max (match mn with Some x => x | None => f64_MIN end)
                                   (match mx with Some x => x | None => f64_MAX end)
  | NTScaled mn mx scale offset => from_scaled mn mx scale offset
  | NTInteger mn mx => from_min_max (f64_of_Z mn) (f64_of_Z mx)
  end.

Theorem range_choice : forall ch,
  range_of_channel ch =
    match limits_range ch with
    | Some r => res_map Some r
    | None => match ch_type ch with
              | Some dt => res_map Some (type_range dt)
              | None => Ok None
              end
    end.
Proof.
  intros [ty mn mx]. unfold range_of_channel, limits_range, from_limits. cbn [ch_type ch_lmin ch_lmax].
  destruct mn as [[a|a|a|a]|]; destruct mx as [[b|b|b|b]|]; destruct ty as [[? ?|? ?|? ? s o|? ?]|];
    cbn [res_bind res_map]; try reflexivity;
    try (match goal with |- context [res_bind (res_map Some ?r) _] => destruct r end; reflexivity).
Qed.

Lemma from_scaled_accepted : forall a b s o rg, from_scaled a b s o = Ok rg -> accepted rg.
Proof. intros a b s o rg Hr. unfold from_scaled in Hr. eexists; eexists; exact Hr. Qed.

Lemma type_range_accepted : forall dt rg, type_range dt = Ok rg -> accepted rg.
Proof.
  intros [mn mx|mn mx|mn mx s o|mn mx] rg Hr; cbn [type_range] in Hr;
    eexists; eexists; exact Hr.
Qed.

Lemma limits_range_accepted : forall ch r rg, limits_range ch = Some r -> r = Ok rg -> accepted rg.
Proof.
  intros [ty mn mx] r rg. unfold limits_range. cbn [ch_type ch_lmin ch_lmax].
  destruct mn as [[a|a|a|a]|]; destruct mx as [[b|b|b|b]|]; try discriminate;
    try (destruct ty as [[? ?|? ?|? ? s o|? ?]|]; try discriminate);
    intros E1 E2; inversion E1 as [E3]; rewrite E2 in E3; eexists; eexists; exact E3.
Qed.

Theorem range_of_channel_accepted : forall ch rg, range_of_channel ch = Ok (Some rg) -> accepted rg.
Proof.
  intros ch rg. rewrite range_choice.
  destruct (limits_range ch) as [r|] eqn:El.
  - destruct r as [rg'| |] eqn:Er; cbn [res_map]; try discriminate.
    intros E; inversion E; subst rg'. eapply limits_range_accepted; eauto.
  - destruct (ch_type ch) as [dt|]; [|discriminate].
    destruct (type_range dt) as [rg'| |] eqn:Er; cbn [res_map]; try discriminate.
    intros E; inversion E; subst rg'. eapply type_range_accepted; eauto.
Qed.

Lemma from_scaled_no_panic : forall a b s o, from_scaled a b s o <> Panic.
Proof. intros. apply from_min_max_err. Qed.

Theorem range_of_channel_no_panic : forall ch, range_of_channel ch <> Panic.
Proof.
  intros ch. rewrite range_choice.
  destruct (limits_range ch) as [r|] eqn:El.
  - assert (r <> Panic).
    { revert El. destruct ch as [ty mn mx]. unfold limits_range. cbn [ch_type ch_lmin ch_lmax].
      destruct mn as [[a|a|a|a]|]; destruct mx as [[b|b|b|b]|]; try discriminate;
        try (destruct ty as [[? ?|? ?|? ? s o|? ?]|]; try discriminate);
        intros E; inversion E; apply from_min_max_err. }
    destruct r; cbn [res_map]; congruence.
  - destruct (ch_type ch) as [dt|]; [|discriminate].
    assert (type_range dt <> Panic).
    { destruct dt; cbn [type_range]; apply from_min_max_err. }
    destruct (type_range dt); cbn [res_map]; congruence.
Qed.

(** * No input makes the model panic *)
Theorem channel_value_no_panic : forall ch enabled v, channel_value ch enabled v <> Panic.
Proof.
  intros ch enabled v. unfold channel_value.
  destruct (range_of_channel ch) as [[rg|]| |] eqn:E; cbn [res_bind]; try discriminate.
  - unfold normalize_value. destruct enabled; [|discriminate].
    destruct (normalize_no_panic rg v (range_of_channel_accepted ch rg E)) as [y Hy]. rewrite Hy. discriminate.
  - unfold normalize_value. destruct enabled; discriminate.
  - exfalso. eapply range_of_channel_no_panic; exact E.
Qed.

Theorem normalize_hook_no_panic : forall ch v, normalize_hook ch v <> Panic.
Proof.
  intros ch v. unfold normalize_hook.
  destruct (range_of_channel ch) as [[rg|]| |] eqn:E; cbn [res_bind]; try discriminate.
  - destruct (normalize_no_panic rg v (range_of_channel_accepted ch rg E)) as [y Hy]. rewrite Hy. discriminate.
  - exfalso. eapply range_of_channel_no_panic; exact E.
Qed.

(** * What the simple iterator delivers, for every channel description *)
Theorem channel_value_enabled : forall ch v r, fin64 v = true -> channel_value ch true v = Ok r ->
  is_nan 24 128 r = false /\ fin32 r = true /\ 0 <= B2R32 r <= 1.
Proof.
  intros ch v r Hv. unfold channel_value.
  destruct (range_of_channel ch) as [[rg|]| |] eqn:E; cbn [res_bind normalize_value]; try discriminate.
  - destruct (normalize_unit_interval rg v (range_of_channel_accepted ch rg E) Hv) as (y & Y1 & Y2 & Y3 & Y4).
    rewrite Y1. intros X; inversion X; subst r. auto.
  - intros X; inversion X; subst r. rewrite B2R_f32_zero. split; [reflexivity|]. split; [reflexivity|]. lra.
Qed.

(** * Normalisation switched off: the value is delivered as [value as f32] *)
Theorem normalize_value_disabled : forall v rg, normalize_value false v rg = Ok (f32_of_f64 v).
Proof. reflexivity. Qed.

Theorem channel_value_disabled : forall ch v r, channel_value ch false v = Ok r -> r = f32_of_f64 v.
Proof.
  intros ch v r. unfold channel_value. destruct (range_of_channel ch); cbn [res_bind normalize_value]; try discriminate.
  intros E; inversion E; reflexivity.
Qed.

(** * The width is finite iff the stored width is *)
Lemma width_finite_iff : forall lo hi, fin64 lo = true -> fin64 hi = true ->
  fin64 (f64_sub hi lo) = true -> Rabs (R64 (B2R64 hi - B2R64 lo)) < bpow radix2 1024.
Proof.
  intros lo hi Hlo Hhi Hf.
  destruct (Rlt_dec (Rabs (R64 (B2R64 hi - B2R64 lo))) (bpow radix2 1024)) as [A|B]; [exact A|].
  destruct (f64_sub_ovf hi lo Hhi Hlo B) as (E & _). rewrite E in Hf. discriminate.
Qed.

Theorem normalize_close_stored : forall lo hi rg v y, from_min_max lo hi = Ok rg -> B2R64 lo < B2R64 hi ->
  f64_is_finite (rg_range rg) = true ->
  fin64 v = true -> normalize rg v = Ok y ->
  Rabs (B2R32 y - clampR 0 1 ((B2R64 v - B2R64 lo) / (B2R64 hi - B2R64 lo))) <= bpow radix2 (-24).
Proof.
  intros lo hi rg v y Hacc Hlt Hf Hv N.
  destruct (from_min_max_ok lo hi rg Hacc) as (Hlo & Hhi & Hle & Erg).
  eapply normalize_close; eauto. apply width_finite_iff; auto. subst rg. exact Hf.
Qed.

(** * Booleans to reals, for the examples *)
Lemma f64_lt_true : forall a b, fin64 a = true -> fin64 b = true -> f64_lt a b = true -> B2R64 a < B2R64 b.
Proof.
  intros a b Ha Hb. rewrite f64_lt_fin by assumption.
  destruct (Rlt_bool_spec (B2R64 a) (B2R64 b)); [auto|discriminate].
Qed.

(** * 8-bit colours: the tools compute [(c * 255.0) as u8] *)
Definition u8_channel : channel := mkChannel (Some (NTInteger 0 255)) None None.
Definition u8_roundtrip (v : Z) : bool :=
  match channel_value u8_channel true (f64_of_Z v) with
  | Ok y => Z.eqb (to_u8_color y) v
  | _ => false
  end.
Theorem u8_exact : forallb u8_roundtrip (map Z.of_nat (seq 0 256)) = true.
Proof. vm_compute. reflexivity. Qed.

Theorem u8_exact_forall : forall v : Z, (0 <= v < 256)%Z ->
  exists y, channel_value u8_channel true (f64_of_Z v) = Ok y /\ to_u8_color y = v.
Proof.
  intros v Hv. pose proof u8_exact as U. rewrite forallb_forall in U.
  specialize (U v). unfold u8_roundtrip in U.
  destruct (channel_value u8_channel true (f64_of_Z v)) as [y| |].
  - exists y. split; [reflexivity|]. apply Z.eqb_eq. apply U.
    apply in_map_iff. exists (Z.to_nat v). split; [lia|]. apply in_seq. lia.
  - exfalso. assert (false = true); [|discriminate]. apply U.
    apply in_map_iff. exists (Z.to_nat v). split; [lia|]. apply in_seq. lia.
  - exfalso. assert (false = true); [|discriminate]. apply U.
    apply in_map_iff. exists (Z.to_nat v). split; [lia|]. apply in_seq. lia.
Qed.

(** * Results as bit patterns, for witnesses and examples *)
Definition norm_bits (lo hi v : binary64) : option N :=
  match from_min_max lo hi with
  | Ok rg => match normalize rg v with Ok y => Some (bits_of_f32 y) | _ => None end
  | _ => None
  end.
Definition hook_bits (ch : channel) (v : binary64) : option N :=
  match normalize_hook ch v with Ok (Some y) => Some (bits_of_f32 y) | _ => None end.

(** Statements that are false for the code as it is. *)

(** "Bit pattern +0.0 whenever the value equals the minimum": the value -0.0
    against the minimum +0.0 is delivered as -0.0 (numerically still 0). *)
Theorem zero_bits_at_min_refuted :
  ~ (forall lo hi v y rg, from_min_max lo hi = Ok rg -> B2R64 lo < B2R64 hi -> fin64 v = true ->
       B2R64 v = B2R64 lo -> normalize rg v = Ok y -> bits_of_f32 y = 0%N).
Proof.
  intros X.
  set (lo := f64_zero). set (hi := f64_one). set (v := f64_of_bits 0x8000000000000000).
  destruct (from_min_max lo hi) as [rg| |] eqn:E; try (vm_compute in E; discriminate).
  destruct (normalize rg v) as [y| |] eqn:N.
  2,3: (assert (Hn : norm_bits lo hi v = None) by (unfold norm_bits; rewrite E, N; reflexivity); vm_compute in Hn; discriminate).
  assert (Hb : norm_bits lo hi v = Some (bits_of_f32 y)) by (unfold norm_bits; rewrite E, N; reflexivity).
  specialize (X lo hi v y rg E).
  rewrite X in Hb.
  - vm_compute in Hb. discriminate.
  - apply f64_lt_true; reflexivity.
  - reflexivity.
  - unfold v, lo. rewrite f64_zero_eq. reflexivity.
  - exact N.
Qed.

(** "1 at the maximum" for Integer limits: two distinct i64 limits above 2^53
    can become the same binary64 number; the range is then degenerate and
    everything, the maximum included, is delivered as 0. *)
Definition collapse_channel : channel :=
  mkChannel (Some (NTInteger (2 ^ 63 - 2) (2 ^ 63 - 1))) None None.
Theorem integer_max_gives_one_refuted :
  ~ (forall mn mx y, (mn < mx)%Z ->
       channel_value (mkChannel (Some (NTInteger mn mx)) None None) true (f64_of_Z mx) = Ok y ->
       bits_of_f32 y = f32_one_bits).
Proof.
  intros X. specialize (X (2 ^ 63 - 2)%Z (2 ^ 63 - 1)%Z).
  destruct (channel_value (mkChannel (Some (NTInteger (2 ^ 63 - 2) (2 ^ 63 - 1))) None None) true (f64_of_Z (2 ^ 63 - 1))) as [y| |] eqn:E.
  - specialize (X y ltac:(lia) eq_refl).
    assert (Hb : match channel_value collapse_channel true (f64_of_Z (2 ^ 63 - 1)) with Ok y => Some (bits_of_f32 y) | _ => None end = Some (bits_of_f32 y)).
    { unfold collapse_channel. rewrite E. reflexivity. }
    rewrite X in Hb. vm_compute in Hb. discriminate.
  - vm_compute in E. discriminate.
  - vm_compute in E. discriminate.
Qed.

(** "The limits are used whenever both are given": limits of two different
    kinds (here Integer minimum, Double maximum) are ignored and the declared
    range of the attribute type is used. *)
Definition mixed_channel : channel :=
  mkChannel (Some (NTInteger 0 255)) (Some (NInteger 0)) (Some (NDouble f64_one)).
Theorem limits_whenever_both_given_refuted :
  ~ (forall ch a b, ch_lmin ch = Some a -> ch_lmax ch = Some b -> limits_range ch <> None).
Proof.
  intros X. apply (X mixed_channel (NInteger 0) (NDouble f64_one)); reflexivity.
Qed.
Example mixed_channel_uses_type_range :
  hook_bits mixed_channel f64_one = Some 0x3b808081%N (* 1/255, not 1 *).
Proof. vm_compute. reflexivity. Qed.

(** * Examples: the hypotheses are satisfiable *)
Definition d (n : N) := f64_of_bits n.
Example ex_0_255 : norm_bits (f64_of_Z 0) (f64_of_Z 255) (f64_of_Z 128) = Some 0x3f008081%N.
Proof. vm_compute. reflexivity. Qed.
Example ex_0_65535 : norm_bits (f64_of_Z 0) (f64_of_Z 65535) (f64_of_Z 65535) = Some f32_one_bits.
Proof. vm_compute. reflexivity. Qed.
Example ex_m1_1 : norm_bits (f64_neg f64_one) f64_one f64_zero = Some 0x3f000000%N.
Proof. vm_compute. reflexivity. Qed.
(** f64::MIN..f64::MAX: the width overflows, the halved path is taken *)
Example ex_full_range : norm_bits f64_MIN f64_MAX f64_zero = Some 0x3f000000%N
  /\ norm_bits f64_MIN f64_MAX f64_MAX = Some f32_one_bits
  /\ norm_bits f64_MIN f64_MAX f64_MIN = Some 0%N
  /\ f64_is_finite (f64_sub f64_MAX f64_MIN) = false.
Proof. vm_compute. repeat split; reflexivity. Qed.
(** subnormal width: 0 .. 3 * 2^-1074 *)
Example ex_subnormal : norm_bits (d 0) (d 3) (d 1) = Some 0x3eaaaaab%N
  /\ norm_bits (d 0) (d 3) (d 3) = Some f32_one_bits.
Proof. vm_compute. repeat split; reflexivity. Qed.
Example ex_degenerate : norm_bits (f64_of_Z 7) (f64_of_Z 7) (f64_of_Z 7) = Some 0%N.
Proof. vm_compute. reflexivity. Qed.
Example ex_accepted_reals : exists rg, from_min_max (f64_of_Z 0) (f64_of_Z 255) = Ok rg
  /\ B2R64 (f64_of_Z 0) < B2R64 (f64_of_Z 255) /\ f64_is_finite (rg_range rg) = true /\ accepted rg.
Proof.
  assert (F0 : fin64 (f64_of_Z 0) = true) by (vm_compute; reflexivity).
  assert (F1 : fin64 (f64_of_Z 255) = true) by (vm_compute; reflexivity).
  assert (Lt : B2R64 (f64_of_Z 0) < B2R64 (f64_of_Z 255)).
  { apply f64_lt_true; [exact F0|exact F1|vm_compute; reflexivity]. }
  pose proof (from_min_max_intro _ _ F0 F1 (Rlt_le _ _ Lt)) as E.
  eexists. split; [exact E|]. split; [exact Lt|]. split.
  - cbn [rg_range]. vm_compute. reflexivity.
  - eexists; eexists; exact E.
Qed.
(** rejected ranges *)
Example ex_rejected : from_min_max f64_one f64_zero = Err EInvalid
  /\ from_min_max f64_nan f64_one = Err EInvalid /\ from_min_max f64_zero f64_inf = Err EInvalid.
Proof. vm_compute. repeat split; reflexivity. Qed.
(** ScaledInteger limits on a ScaledInteger attribute, negative scale: raw 0..10, scale -0.5, offset 3: range -2..3 *)
Example ex_scaled_negative :
  hook_bits (mkChannel (Some (NTScaled (-100) 100 (d 0xbfe0000000000000) (d 0x4008000000000000)))
                       (Some (NScaled 0)) (Some (NScaled 10))) (d 0x4008000000000000) = Some f32_one_bits
  /\ hook_bits (mkChannel (Some (NTScaled (-100) 100 (d 0xbfe0000000000000) (d 0x4008000000000000)))
                       (Some (NScaled 0)) (Some (NScaled 10))) (d 0xc000000000000000) = Some 0%N.
Proof. vm_compute. split; reflexivity. Qed.

Lemma endpoint_bits : bits_of_f32 f32_zero = 0%N /\ bits_of_f32 f32_one = 0x3f800000%N.
Proof. vm_compute. split; reflexivity. Qed.

(** The float layer on two classic cases (also used to cross-check the extraction):
    0.1 + 0.2 and (1/3) as f32 *)
Example ex_float_layer :
  bits_of_f64 (f64_add (d 0x3fb999999999999a) (d 0x3fc999999999999a)) = 0x3fd3333333333334%N
  /\ bits_of_f32 (f32_of_f64 (f64_div f64_one (f64_of_Z 3))) = 0x3eaaaaab%N
  /\ bits_of_f64 (f64_of_Z (2 ^ 53 + 1)) = 0x4340000000000000%N
  /\ f64_clamp f64_one f64_nan f64_one = Panic.
Proof. vm_compute. repeat split; reflexivity. Qed.
