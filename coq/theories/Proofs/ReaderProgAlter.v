(** Alteration detection (G2) and history independence (G3) for strict reader programs. *)
From E57 Require Import Base.Prelude Model.Crc Model.Device Model.PagedReader Spec.PageReadSpec Model.Prog
  Model.Record Model.QueueReader Model.FileBin Model.ReaderOpen Proofs.PagedReaderCache.
From E57 Require Import Proofs.ReaderProgSem Proofs.ReaderProgStrict.

(* an altered image in which every altered page fails its checksum (no collision) *)
Definition no_collision (ps : N) (phys phys' : list N) : Prop :=
  len phys' = len phys /\
  forall p, p < len phys / ps -> page_ok ps (page_at ps phys' p) = true -> page_at ps phys' p = page_at ps phys p.

(** one [read] call on the altered image: fails, or is the call on the unaltered image *)
Lemma gr_read_alter ps phys phys' n off :
  no_collision ps phys phys' ->
  (exists e, snd (gr_read ps phys' n off) = Err e) \/
  gr_read ps phys' n off = gr_read ps phys n off.
Proof.
  intros [Hl Hp]. unfold gr_read. cbv zeta. rewrite Hl.
  destruct (len phys / ps <=? off / (ps - 4)) eqn:E1; [right; reflexivity|].
  apply N.leb_gt in E1.
  destruct (page_ok ps (page_at ps phys' (off / (ps - 4)))) eqn:E2.
  - right. pose proof (Hp _ E1 E2) as Heq. rewrite <- Heq. rewrite E2. reflexivity.
  - left. exists EIo. reflexivity.
Qed.

Lemma gr_read_exact_loop_alter ps phys phys' :
  no_collision ps phys phys' ->
  forall fuel want acc off,
  (exists e, snd (gr_read_exact_loop ps phys' fuel want acc off) = Err e) \/
  gr_read_exact_loop ps phys' fuel want acc off = gr_read_exact_loop ps phys fuel want acc off.
Proof.
  intros NC. induction fuel as [|f IH]; intros want acc off; cbn [gr_read_exact_loop].
  - right; reflexivity.
  - destruct (want =? 0); [right; reflexivity|].
    destruct (gr_read_alter ps phys phys' want off NC) as [[e He]|Heq].
    + left. destruct (gr_read ps phys' want off) as [off1 r]. cbn [snd] in He. subst r.
      exists e. reflexivity.
    + rewrite Heq. destruct (gr_read ps phys want off) as [off1 r].
      destruct r as [[|b got]|k|]; try (right; reflexivity).
      apply IH.
Qed.

(** one page-layer operation on the altered image *)
Lemma gr_step_alter ps phys phys' o off :
  no_collision ps phys phys' ->
  (exists e, snd (gr_step ps phys' o off) = Err e) \/
  gr_step ps phys' o off = gr_step ps phys o off.
Proof.
  intros NC. pose proof NC as [Hl Hp].
  destruct o as [p|n|n|]; unfold gr_step; cbv zeta.
  - rewrite Hl. right; reflexivity.
  - destruct (gr_read_alter ps phys phys' n off NC) as [[e He]|Heq].
    + left. destruct (gr_read ps phys' n off) as [off1 r]. cbn [snd] in He. subst r.
      exists e. reflexivity.
    + rewrite Heq. right; reflexivity.
  - rewrite Hl.
    destruct (gr_read_exact_loop_alter ps phys phys' NC
                (S (N.to_nat (N.min n (len phys / ps * (ps - 4))))) n [] off) as [[e He]|Heq].
    + left.
      destruct (gr_read_exact_loop ps phys' (S (N.to_nat (N.min n (len phys / ps * (ps - 4))))) n [] off)
        as [off1 r].
      cbn [snd] in He. subst r. exists e. reflexivity.
    + rewrite Heq. right; reflexivity.
  - rewrite Hl. right; reflexivity.
Qed.

(* G2: on an altered image every strict program either fails or returns exactly what it returns on the unaltered image *)
Theorem alteration_detected : forall ps phys phys' A (p : rprog A) off,
  4 < ps -> strict p -> no_collision ps phys phys' ->
  (exists e, snd (rrun_g ps phys' p off) = Err e) \/
  (snd (rrun_g ps phys' p off) = snd (rrun_g ps phys p off) /\ fst (rrun_g ps phys' p off) = fst (rrun_g ps phys p off)).
Proof.
  intros ps phys phys' A p off _ Hs NC. revert off.
  induction Hs as [a|e| |o k He Hpn Hk IH]; intros off; cbn [rrun_g]; try (right; split; reflexivity).
  destruct (gr_step_alter ps phys phys' o off NC) as [[e E]|Heq].
  - left. destruct (gr_step ps phys' o off) as [off1 r]. cbn [snd] in E. subst r.
    destruct (He e) as [e' E']. rewrite E'. exists e'. reflexivity.
  - rewrite Heq. destruct (gr_step ps phys o off) as [off1 r]. apply IH.
Qed.

(* G3: history independence *)
Theorem history_independent : forall ps phys A (x : N) (k : res pr_out -> rprog A) (s s' : pr),
  pr_inv ps phys s -> pr_inv ps phys s' -> strict (ROp (PrSeek x) k) ->
  snd (rrun (ROp (PrSeek x) k) s) = snd (rrun (ROp (PrSeek x) k) s').
Proof.
  intros ps phys A x k s s' I I' Hs.
  destruct (rrun_g_equiv ps phys A (ROp (PrSeek x) k) s I) as (-> & _ & _).
  destruct (rrun_g_equiv ps phys A (ROp (PrSeek x) k) s' I') as (-> & _ & _).
  cbn [rrun_g]. unfold gr_step. cbv zeta.
  destruct (len phys <=? x); [|reflexivity].
  inversion Hs as [| | |o k0 He Hpn Hk Ho]. subst.
  destruct (He EIo) as [e' E']. rewrite E'. reflexivity.
Qed.

Print Assumptions rrun_g_equiv.
Print Assumptions alteration_detected.
Print Assumptions history_independent.
Print Assumptions gr_read_serves_valid.
