(** Slice "xg": the writer half of C04 composed with the parser model (slice
    xmlp) and the extractors (slice xe): the XML the writer generates for a
    metadata value parses to the abstract tree of that value, and the reader's
    extraction of that tree gives the value back.

    [gen_root_parses]        gen_root m = Ok bs -> xml_parse bs = ParseOk (tree_of m)
    [metadata_xml_roundtrip] ... -> extract_all .. (parsed document) = Ok (reader_view m)
    [gen_int_parse_*]        Rust's integer parsing (model of slice xe) inverts the decimal printing *)
From Coq Require Import ZArith Lia.
From E57 Require Import Base.Prelude Model.Meta Model.MetaFile Model.XmlTree Model.XmlGen Model.XmlParse
  Model.XmlExtract Spec.XmlRender Spec.MetaTree Spec.XgWriterOk Spec.XeMetaOk
  Proofs.XgLemmas Proofs.XgRender Proofs.XgWf Proofs.XmlpRoundtripDoc Proofs.XeTreeDec Proofs.XeTreeMain.
Local Open Scope N_scope.

Theorem gen_root_parses : forall m bs,
  writer_meta_ok m = true -> meta_xml_ok m = true -> gen_root m = Ok bs ->
  xml_parse bs = ParseOk (tree_of m).
Proof.
  intros m bs Hw Hx Hg. rewrite (gen_is_render m bs Hw Hg).
  apply parse_render. apply tree_of_wf; assumption.
Qed.

(** the XML-level round trip of property C04: what the writer generates, parsed and extracted,
    is the metadata (as the reader reports it: [reader_view]) *)
Theorem metadata_xml_roundtrip :
  forall (pf64 pf32 : xstr -> option N) (fdiv : N -> Z -> N) (m : file_meta) (bs : list N),
    writer_meta_ok m = true -> meta_xml_ok m = true ->
    XeMetaOk.meta_ok m = true -> float_oracle_ok pf64 pf32 m = true ->
    gen_root m = Ok bs ->
    exists d, xml_parse bs = ParseOk d /\ extract_all pf64 pf32 fdiv d = Ok (reader_view m).
Proof.
  intros pf64 pf32 fdiv m bs Hw Hx Hm Hf Hg. exists (tree_of m). split.
  - apply gen_root_parses; assumption.
  - apply extract_tree_of; assumption.
Qed.

(** ** integers: printing then parsing *)
Theorem gen_int_parse_i64 : forall z, (- 2 ^ 63 <= z <= 2 ^ 63 - 1)%Z -> parse_i64 (display_i z) = Some z.
Proof. intros z H. rewrite <- dec_z_display. apply parse_i64_dec_z. exact H. Qed.

Theorem gen_int_parse_u64 : forall n, n < 2 ^ 64 -> parse_u64 (display_u n) = Some (Z.of_N n).
Proof. intros n H. rewrite <- dec_n_display. apply parse_u64_dec_n. exact H. Qed.

Theorem gen_int_parse_u32 : forall n, n < 2 ^ 32 -> parse_u32 (display_u n) = Some (Z.of_N n).
Proof. intros n H. rewrite <- dec_n_display. apply parse_u32_dec_n. exact H. Qed.

Example gen_int_parse_extremes :
  parse_i64 (display_i (- 2 ^ 63)) = Some (- 2 ^ 63)%Z /\ parse_u64 (display_u (2 ^ 64 - 1)) = Some (2 ^ 64 - 1)%Z /\
  parse_i64 (display_i (2 ^ 63)) = None.
Proof. vm_compute. repeat split. Qed.

(** the example of Proofs/XgRender.v goes all the way through the parser *)
Example xg_example_parses :
  meta_xml_ok xg_example = true /\ exists bs, gen_root xg_example = Ok bs /\ xml_parse bs = ParseOk (tree_of xg_example).
Proof.
  split; [vm_compute; reflexivity|].
  destruct (gen_root xg_example) as [bs| |] eqn:E; try (vm_compute in E; discriminate).
  exists bs. split; [reflexivity|]. apply gen_root_parses; [vm_compute; reflexivity|vm_compute; reflexivity|exact E].
Qed.

Print Assumptions gen_root_parses.
Print Assumptions metadata_xml_roundtrip.
Print Assumptions gen_int_parse_i64.
