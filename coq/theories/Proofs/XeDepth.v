(** The depth scanner of Model/XmlDepth.v: the fuel suffices, and what it does on the pieces a
    rendering is made of (bytes other than '<', comments, processing instructions, CDATA sections,
    end tags, start tags with quoted attribute values). *)
From Coq Require Import List Bool NArith Lia.
From E57 Require Import Base.Prelude Model.XmlDepth.
Import ListNotations.

(** * The fuel suffices *)
Lemma skipn_len {A} k (s : list A) : (length (skipn k s) <= length s)%nat.
Proof. rewrite skipn_length. lia. Qed.

Lemma skip_past_len p s : (length (skip_past p s) <= length s)%nat.
Proof.
  induction s as [|b r IH]; cbn [skip_past].
  - destruct (starts p []); [apply skipn_len|reflexivity].
  - destruct (starts p (b :: r)); [apply skipn_len|]. cbn [length]. lia.
Qed.

Lemma scan_tag_len q prev s pv r : scan_tag q prev s = Some (pv, r) -> (length r < length s)%nat.
Proof.
  revert q prev. induction s as [|b s IH]; intros q prev H; cbn [scan_tag] in H; [discriminate|].
  cbn [length]. destruct q as [qq|].
  - destruct (b =? qq); apply IH in H; lia.
  - destruct ((b =? 34) || (b =? 39)); [apply IH in H; lia|].
    destruct (b =? 62); [inversion H; subst; lia|apply IH in H; lia].
Qed.

Lemma depth_step_shrinks d s d' r : depth_step d s = Next d' r -> (length r < length s)%nat.
Proof.
  unfold depth_step. destruct s as [|b s]; [discriminate|].
  assert (Hk : forall k p, (1 <= k)%nat -> (length (skip_past p (skipn k (b :: s))) < length (b :: s))%nat).
  { intros k p Hk. pose proof (skip_past_len p (skipn k (b :: s))). rewrite skipn_length in H. cbn [length] in *. lia. }
  destruct (negb (b =? 60)); [intros H; inversion H; subst; cbn; lia|].
  destruct (starts S_COMMENT (b :: s)); [intros H; injection H as _ Hr; rewrite <- Hr; exact (Hk 4%nat S_COMMENT_END ltac:(lia))|].
  destruct (starts S_CDATA (b :: s)); [intros H; injection H as _ Hr; rewrite <- Hr; exact (Hk 9%nat S_CDATA_END ltac:(lia))|].
  destruct (starts S_PI (b :: s)); [intros H; injection H as _ Hr; rewrite <- Hr; exact (Hk 2%nat S_PI_END ltac:(lia))|].
  destruct (starts S_BANG (b :: s)); [intros H; injection H as _ Hr; rewrite <- Hr; exact (Hk 2%nat S_GT ltac:(lia))|].
  destruct (starts S_CLOSE (b :: s)); [intros H; injection H as _ Hr; rewrite <- Hr; exact (Hk 2%nat S_GT ltac:(lia))|].
  destruct (scan_tag None b s) as [[pv rest]|] eqn:E.
  - apply scan_tag_len in E. destruct (pv =? 47); [intros H; inversion H; subst; cbn [length]; lia|].
    destruct (MAX_XML_DEPTH <? d + 1); [discriminate|intros H; inversion H; subst; cbn [length]; lia].
  - destruct (MAX_XML_DEPTH <? d + 1); [discriminate|intros H; inversion H; subst; cbn [length]; lia].
Qed.

Lemma depth_loop_fuel f1 f2 d s :
  (length s < f1)%nat -> (length s < f2)%nat -> depth_loop f1 d s = depth_loop f2 d s.
Proof.
  revert f2 d s. induction f1 as [|f1 IH]; intros f2 d s H1 H2; [lia|].
  destruct f2 as [|f2]; [lia|]. cbn [depth_loop].
  destruct (depth_step d s) as [ok|d' r] eqn:E; [reflexivity|].
  apply depth_step_shrinks in E. apply IH; lia.
Qed.

(** the scanner without fuel *)
Definition scan (d : N) (s : list N) : bool := depth_loop (S (length s)) d s.

Lemma xml_depth_ok_scan xml : xml_depth_ok xml = scan 0 xml.
Proof. reflexivity. Qed.

Lemma scan_step d s :
  scan d s = match depth_step d s with Stop ok => ok | Next d' r => scan d' r end.
Proof.
  unfold scan at 1. cbn [depth_loop]. destruct (depth_step d s) as [ok|d' r] eqn:E; [reflexivity|].
  apply depth_step_shrinks in E. unfold scan. apply depth_loop_fuel; lia.
Qed.

Lemma scan_nil d : scan d [] = true.
Proof. reflexivity. Qed.

(** * Bytes other than '<' *)
Lemma scan_other d b r : (b =? 60) = false -> scan d (b :: r) = scan d r.
Proof. intros H. rewrite scan_step. unfold depth_step. rewrite H. reflexivity. Qed.

Lemma scan_no_lt d x rest : forallb (fun b => negb (b =? 60)) x = true -> scan d (x ++ rest) = scan d rest.
Proof.
  induction x as [|b x IH]; intros H; [reflexivity|]. cbn [forallb] in H. apply andb_true_iff in H.
  destruct H as [Hb Hx]. apply negb_true_iff in Hb. cbn [app]. rewrite scan_other by exact Hb. auto.
Qed.

(** * Skipping to the first occurrence of a pattern *)
Lemma starts_app p rest : starts p (p ++ rest) = true.
Proof. induction p as [|x p IH]; cbn [starts app]; [reflexivity|]. rewrite N.eqb_refl. exact IH. Qed.

Lemma skipn_app_len {A} (p rest : list A) : skipn (length p) (p ++ rest) = rest.
Proof. induction p; cbn; auto. Qed.

Lemma skip_past_here p rest : skip_past p (p ++ rest) = rest.
Proof.
  destruct (p ++ rest) as [|b r] eqn:E; cbn [skip_past]; rewrite <- E, starts_app, skipn_app_len; reflexivity.
Qed.

Lemma skip_past_cons p b r : starts p (b :: r) = false -> skip_past p (b :: r) = skip_past p r.
Proof. intros H. cbn [skip_past]. rewrite H. reflexivity. Qed.

(** one-byte pattern *)
Lemma skip_past_byte c x rest :
  forallb (fun b => negb (b =? c)) x = true -> skip_past [c] (x ++ c :: rest) = rest.
Proof.
  induction x as [|b x IH]; intros H.
  - apply (skip_past_here [c] rest).
  - cbn [forallb] in H. apply andb_true_iff in H. destruct H as [Hb Hx]. apply negb_true_iff in Hb.
    cbn [app]. rewrite skip_past_cons; [auto|]. cbn [starts]. rewrite N.eqb_sym, Hb. reflexivity.
Qed.
