(** The round trip: the parser model reads every rendering of a well-formed tree back as
    that tree.  Induction over the tree with the namespace scope as invariant, then the
    document level. *)
From Coq Require Import Lia ZifyN ZifyNat ZifyBool.
From E57 Require Import Base.Prelude Model.XmlTree Model.XmlParse Spec.XmlRender
  Proofs.XmlpLex Proofs.XmlpEsc Proofs.XmlpFuel Proofs.XmlpNs Proofs.XmlpTag Proofs.XmlpContent.

Local Open Scope N_scope.

(** * The nested recursions of the renderer, named *)
Fixpoint render_children (c : render_choices) (path : list nat) (sc : list xnsdecl) (nm : xname)
    (attrs : list xattr) (i : nat) (l : list xnode) : xstr :=
  match l with
  | [] => []
  | x :: r => render_node c (path ++ [i]) (Some sc) nm attrs x ++ render_children c path sc nm attrs (S i) r
  end.

Fixpoint wf_children (P : option (list xnsdecl)) (l : list xnode) : bool :=
  match l with [] => true | x :: r => wf_node P x && wf_children P r end.

Fixpoint count_children (P : option (list xnsdecl)) (l : list xnode) : N :=
  match l with [] => 0 | x :: r => decl_count P x + count_children P r end.

Definition close_tag (tag w : xstr) : xstr := 60 :: 47 :: tag ++ blanks w ++ [62].

Lemma render_children_fix : forall c path sc nm attrs l i,
  (fix go (i : nat) (l : list xnode) {struct l} : xstr :=
     match l with
     | [] => []
     | x :: r => render_node c (path ++ [i]) (Some sc) nm attrs x ++ go (S i) r
     end) i l = render_children c path sc nm attrs i l.
Proof. induction l as [|y l IH]; intros i; [reflexivity|]. cbn [render_children]. rewrite <- IH. reflexivity. Qed.

Lemma render_elem_eq : forall c path P pn pa nm attrs sc ch,
  render_node c path P pn pa (XElem nm attrs sc ch) =
    let ec := rc_elem c path (XElem nm attrs sc ch) in
    let tag := qname (or_default (elem_prefix sc (xn_ns nm)) None) (xn_local nm) in
    let own := or_default (own_decls P sc) [] in
    60 :: tag ++ render_items ec sc 0%nat (merge_items (ec_merge ec) attrs own) ++
    (match ch with
     | [] => if ec_self_close ec then [47; 62] else 62 :: close_tag tag (ec_ws_close ec)
     | _ => 62 :: render_children c path sc nm attrs 0%nat ch ++ close_tag tag (ec_ws_close ec)
     end).
Proof.
  intros. cbn [render_node]. cbv zeta. rewrite render_children_fix.
  destruct ch as [|x ch]; reflexivity.
Qed.

Lemma wf_elem_eq : forall P nm attrs sc ch,
  wf_node P (XElem nm attrs sc ch) =
    ncname (xn_local nm) && scope_ok P sc
    && match elem_prefix sc (xn_ns nm) with Some _ => true | None => false end
    && forallb (attr_ok sc) attrs && distinct_attrs attrs && no_adjacent_text ch && wf_children (Some sc) ch.
Proof.
  intros. cbn [wf_node]. f_equal. induction ch as [|x ch IH]; [reflexivity|]. cbn [wf_children]. rewrite IH. reflexivity.
Qed.

Lemma decl_count_elem_eq : forall P nm attrs sc ch,
  decl_count P (XElem nm attrs sc ch) = len (or_default (own_decls P sc) []) + count_children (Some sc) ch.
Proof.
  intros. cbn [decl_count]. f_equal. induction ch as [|x ch IH]; [reflexivity|]. cbn [count_children]. rewrite IH. reflexivity.
Qed.

(** induction over trees *)
Lemma xnode_ind2 (Q : xnode -> Prop) :
  (forall t, Q (XText t)) -> (forall t, Q (XComment t)) -> (forall t v, Q (XPI t v)) ->
  (forall nm attrs sc ch, Forall Q ch -> Q (XElem nm attrs sc ch)) -> forall n, Q n.
Proof.
  intros HT HC HP HE. fix IH 1. intros [nm attrs sc ch | t | t | t v].
  - apply HE. induction ch as [|x ch IHc]; constructor; [apply IH | exact IHc].
  - apply HT.
  - apply HC.
  - apply HP.
Qed.

(** * Scopes are well formed below a well-formed element *)
Definition scope_good (sc : list xnsdecl) : Prop := forallb decl_ok sc = true /\ distinct_prefixes sc = true.
Definition pscope_good (P : option (list xnsdecl)) : Prop := match P with Some p => scope_good p | None => True end.

Lemma In_firstn : forall {A} k (l : list A) x, In x (firstn k l) -> In x l.
Proof.
  induction k as [|k IH]; intros [|y l] x H; cbn [firstn] in H; try contradiction.
  destruct H as [H|H]; [left; exact H | right; apply IH; exact H].
Qed.

Lemma distinct_prefixes_firstn : forall k sc, distinct_prefixes sc = true -> distinct_prefixes (firstn k sc) = true.
Proof.
  induction k as [|k IH]; intros [|d sc] H; try reflexivity.
  cbn [firstn distinct_prefixes] in *. apply andb_true_iff in H. destruct H as [Hd Hs].
  rewrite (IH sc Hs). rewrite andb_true_r. apply negb_true_iff in Hd. apply negb_true_iff.
  unfold has_prefix in *. destruct (existsb _ (firstn k sc)) eqn:E; [|reflexivity].
  apply existsb_exists in E. destruct E as (x & Hx & Ex).
  assert (existsb (fun d0 => opt_str_eqb (xns_prefix d0) (xns_prefix d)) sc = true).
  { apply existsb_exists. exists x. split; [|exact Ex]. apply (In_firstn k sc). exact Hx. }
  congruence.
Qed.

Lemma forallb_firstn : forall {A} (f : A -> bool) k l, forallb f l = true -> forallb f (firstn k l) = true.
Proof.
  intros A f k l H. rewrite forallb_forall in *. intros x Hx. apply H. apply (In_firstn k l). exact Hx.
Qed.

Lemma own_good : forall P sc own, scope_good sc -> own_decls P sc = Some own -> scope_good own.
Proof.
  intros P sc own [H1 H2] H. destruct P as [p|]; cbn [own_decls] in H.
  - destruct (scope_eqb sc p); [inversion H; split; reflexivity|].
    destruct (find_own_spec _ _ _ _ _ H) as (k & _ & E & _). subst own.
    split; [apply forallb_firstn; exact H1 | apply distinct_prefixes_firstn; exact H2].
  - inversion H; subst. split; assumption.
Qed.

(** * Closing an element *)
Lemma content_close : forall f sc pre local w rest,
  match pre with Some p => ncname p = true | None => True end -> ncname local = true ->
  parse_content (S f) sc (prefix_str pre) local (close_tag (qname pre local) w ++ rest) = POk ([], 0, rest).
Proof.
  intros f sc pre local w rest Hp Hl. rewrite parse_content_S. unfold close_tag. cbn [app].
  change (60 =? 60) with true. change (47 =? 33) with false. change (47 =? 63) with false. change (47 =? 47) with true. cbv iota.
  rewrite <- !app_assoc. cbn [app]. rewrite (scan_qname_render pre local _ Hp Hl).
  2:{ apply stops_name_blanks; reflexivity. }
  cbn [of_opt pbind]. rewrite skip_spaces_blanks. cbn [skip_spaces]. change (is_space 62) with false. cbv iota.
  rewrite !xstr_eqb_refl. reflexivity.
Qed.

Lemma content_element : forall f sc pp pl b r n c1 rest1 ch c2 rest,
  b <> 33 -> b <> 63 -> b <> 47 ->
  parse_element_with f (parse_content f) (Some sc) (b :: r) = POk (n, c1, rest1) ->
  parse_content f sc pp pl rest1 = POk (ch, c2, rest) ->
  parse_content (S f) sc pp pl (60 :: b :: r) = POk (n :: ch, c1 + c2, rest).
Proof.
  intros f sc pp pl b r n c1 rest1 ch c2 rest H1 H2 H3 He Hc. rewrite parse_content_S.
  change (60 =? 60) with true. cbv iota. apply N.eqb_neq in H1, H2, H3. rewrite H1, H2, H3.
  rewrite He. cbn [pbind]. rewrite Hc. reflexivity.
Qed.

(** what follows a text node starts with '<' *)
Lemma render_node_head : forall c path P pn pa n, is_text n = false ->
  match n with XElem nm _ sc _ => ncname (xn_local nm) = true /\ (match elem_prefix sc (xn_ns nm) with Some (Some p) => ncname p = true | _ => True end) | _ => True end ->
  exists r, render_node c path P pn pa n = 60 :: r.
Proof.
  intros c path P pn pa [nm attrs sc ch | t | t | t v] H Hn; try discriminate.
  - rewrite render_elem_eq. cbv zeta. eexists. reflexivity.
  - cbn [render_node]. eexists. reflexivity.
  - cbn [render_node]. eexists. reflexivity.
Qed.

(** * Elements and their children *)
Definition elem_statement (n : xnode) : Prop :=
  forall c path P pn pa rest, wf_node P n = true -> pscope_good P ->
  match n with
  | XElem _ _ _ _ =>
    exists f, parse_element_with f (parse_content f) P (tl (render_node c path P pn pa n) ++ rest)
              = POk (n, decl_count P n, rest)
  | _ => True
  end.

Lemma no_adjacent_tail : forall x l, no_adjacent_text (x :: l) = true -> no_adjacent_text l = true.
Proof.
  intros x [|y l] H; [reflexivity|]. cbn [no_adjacent_text] in H. apply andb_true_iff in H. tauto.
Qed.

Lemma wf_elem_parts : forall P nm attrs sc ch, wf_node P (XElem nm attrs sc ch) = true ->
  ncname (xn_local nm) = true /\ scope_ok P sc = true
  /\ (match elem_prefix sc (xn_ns nm) with Some _ => true | None => false end) = true
  /\ forallb (attr_ok sc) attrs = true /\ distinct_attrs attrs = true /\ no_adjacent_text ch = true
  /\ wf_children (Some sc) ch = true.
Proof. intros P nm attrs sc ch H. rewrite wf_elem_eq in H. rewrite !andb_true_iff in H. tauto. Qed.

Lemma wf_elem_names : forall P nm attrs sc ch, wf_node P (XElem nm attrs sc ch) = true -> pscope_good P ->
  scope_good sc /\ ncname (xn_local nm) = true /\
  exists pre, elem_prefix sc (xn_ns nm) = Some pre /\ match pre with Some p => ncname p = true | None => True end
    /\ ns_by_prefix (prefix_str pre) sc = Some (xn_ns nm) /\ xstr_eqb (prefix_str pre) s_xmlns = false.
Proof.
  intros P nm attrs sc ch H HP. destruct (wf_elem_parts _ _ _ _ _ H) as (H1 & H2 & H3 & _).
  unfold scope_ok in H2. rewrite !andb_true_iff in H2. destruct H2 as [[Hk Hd] Ho].
  split; [split; assumption|]. split; [exact H1|].
  destruct (elem_prefix sc (xn_ns nm)) as [pre|] eqn:E; [|discriminate].
  exists pre. destruct (elem_name_resolves sc (xn_ns nm) pre Hk Hd E) as (A & B & C). repeat split; assumption.
Qed.

Lemma children_ok : forall ch, Forall elem_statement ch ->
  forall c path sc nm attrs pre local w rest i,
  scope_good sc -> wf_children (Some sc) ch = true -> no_adjacent_text ch = true ->
  match pre with Some p => ncname p = true | None => True end -> ncname local = true ->
  exists f, parse_content f sc (prefix_str pre) local
              (render_children c path sc nm attrs i ch ++ close_tag (qname pre local) w ++ rest)
            = POk (ch, count_children (Some sc) ch, rest).
Proof.
  intros ch Hall c path sc nm attrs pre local w rest.
  induction Hall as [|x ch Hx Hall IH]; intros i Hsc Hwf Hadj Hp Hl.
  - exists 1%nat. cbn [render_children app count_children]. apply content_close; assumption.
  - cbn [wf_children] in Hwf. apply andb_true_iff in Hwf. destruct Hwf as [Hwx Hwc].
    destruct (IH (S i) Hsc Hwc (no_adjacent_tail _ _ Hadj) Hp Hl) as [f1 H1].
    cbn [render_children count_children]. rewrite <- app_assoc.
    set (TAIL := render_children c path sc nm attrs (S i) ch ++ close_tag (qname pre local) w ++ rest) in *.
    destruct x as [xnm xattrs xsc xch | t | t | tg v].
    + (* element *)
      specialize (Hx c (path ++ [i]) (Some sc) nm attrs TAIL Hwx Hsc). cbv beta iota in Hx. destruct Hx as [f2 H2].
      destruct (wf_elem_names _ _ _ _ _ Hwx Hsc) as (_ & Nl & xpre & Ep & Np & _).
      rewrite render_elem_eq in *. cbv zeta in *. cbn [tl] in H2. rewrite Ep in *. cbn [or_default] in *.
      destruct (qname_head xpre (xn_local xnm) Np Nl) as (b & r & Eq & _ & H47 & _ & _ & H33 & H63).
      rewrite Eq in *. cbn [app] in *.
      exists (S (Nat.max f1 f2)).
      apply (content_element _ sc _ _ b _ _ _ TAIL ch _ rest H33 H63 H47).
      * apply (parse_element_ok_mono f2 _ (Some sc) _ _ H2). lia.
      * apply (parse_content_ok_mono f1 _ _ _ _ _ _ H1). lia.
    + (* text *)
      assert (Hnt : not_text_head ch).
      { destruct ch as [|[| | |] ch]; cbn; try exact I. cbn in Hadj. discriminate. }
      assert (H60 : exists tl', TAIL = 60 :: tl').
      { unfold TAIL. destruct ch as [|y ch]; [cbn [render_children app]; unfold close_tag; eexists; reflexivity|].
        cbn [render_children]. cbn [wf_children] in Hwc. apply andb_true_iff in Hwc. destruct Hwc as [Hwy _].
        destruct (render_node_head c (path ++ [S i]) (Some sc) nm attrs y) as [r Er].
        - destruct y; try reflexivity. cbn in Hadj. discriminate.
        - destruct y; try exact I. destruct (wf_elem_names _ _ _ _ _ Hwy Hsc) as (_ & A & xpre & Ep & Np & _).
          split; [exact A|]. rewrite Ep. destruct xpre; [exact Np | exact I].
        - rewrite Er. eexists. reflexivity. }
      cbn [wf_node] in Hwx. cbn [decl_count]. rewrite N.add_0_l.
      assert (Hc : chars_ok t = true /\ existsb (N.eqb 13) t = false).
      { unfold text_ok in Hwx. apply andb_true_iff in Hwx. destruct Hwx as [A B]. apply negb_true_iff in B. tauto. }
      destruct Hc as [Hc H13].
      cbn [render_node]. unfold render_text.
      assert (CD : exists f, parse_content f sc (prefix_str pre) local (render_cdata t ++ TAIL) = POk (XText t :: ch, count_children (Some sc) ch, rest)).
      { destruct (content_cdata_sections (length t) t [] sc (prefix_str pre) local TAIL f1 ch (count_children (Some sc) ch) rest (le_n _) (or_introl eq_refl) Hc H13 H1) as [f' H'].
        exists f'. unfold render_cdata. cbn [app] in H'. rewrite <- !app_assoc. rewrite H'.
        rewrite cons_text_plain by exact Hnt. reflexivity. }
      destruct t as [|b0 t0]; [exact CD|].
      destruct (rc_text c (path ++ [i]) nm attrs (b0 :: t0)) as [st|]; [|exact CD].
      destruct H60 as [tl' E60]. exists (S f1). rewrite E60.
      rewrite (content_text f1 sc _ _ (b0 :: t0) st tl' ch (count_children (Some sc) ch) rest); [| discriminate | exact Hwx | rewrite <- E60; exact H1].
      rewrite cons_text_plain by exact Hnt. reflexivity.
    + (* comment *)
      exists (S f1). cbn [render_node decl_count]. rewrite N.add_0_l. rewrite <- !app_assoc.
      apply content_comment; [exact Hwx | exact H1].
    + (* processing instruction *)
      exists (S f1). cbn [render_node decl_count]. rewrite N.add_0_l. rewrite <- !app_assoc.
      change (match v with Some v0 => 32 :: v0 | None => [] end) with (pi_body v).
      apply content_pi; [exact Hwx | exact H1].
Qed.

Lemma element_ok : forall n, elem_statement n.
Proof.
  apply xnode_ind2; try (intros; unfold elem_statement; intros; exact I).
  intros nm attrs sc ch Hall. unfold elem_statement. intros c path P pn pa rest Hwf HP.
  destruct (wf_elem_names _ _ _ _ _ Hwf HP) as (Hsc & Nl & pre & Ep & Np & Hns & Hnx).
  destruct Hsc as [Hk Hd].
  destruct (wf_elem_parts _ _ _ _ _ Hwf) as (_ & Hso & _ & Hao & Hda & Hadj & Hwc).
  unfold scope_ok in Hso. apply andb_true_iff in Hso. destruct Hso as [_ Ho].
  destruct (own_decls P sc) as [own|] eqn:Eo; [|discriminate].
  destruct (own_good P sc own (conj Hk Hd) Eo) as [Ok Od].
  rewrite render_elem_eq. cbv zeta. cbn [tl]. rewrite Ep, Eo. cbn [or_default].
  set (ec := rc_elem c path (XElem nm attrs sc ch)).
  set (items := merge_items (ec_merge ec) attrs own).
  destruct (merge_items_split (ec_merge ec) attrs own) as [MA MD]. fold items in MA, MD.
  assert (Hitems : Forall (item_ok sc) items).
  { assert (G : forall l, forallb (attr_ok sc) (item_attrs l) = true -> forallb decl_ok (item_decls l) = true -> Forall (item_ok sc) l).
    { induction l as [|[a|d] l IHl]; intros A B; constructor; cbn [item_attrs item_decls forallb] in *;
        try (apply andb_true_iff in A; destruct A as [A1 A2]); try (apply andb_true_iff in B; destruct B as [B1 B2]);
        try assumption; try (apply IHl; assumption). }
    apply G; [rewrite MA; exact Hao | rewrite MD; exact Ok]. }
  (* the tail after the start tag *)
  set (e := match ch with [] => if ec_self_close ec then TEmpty else TOpen | _ => TOpen end).
  set (more := match ch with
               | [] => if ec_self_close ec then [] else close_tag (qname pre (xn_local nm)) (ec_ws_close ec)
               | _ => render_children c path sc nm attrs 0%nat ch ++ close_tag (qname pre (xn_local nm)) (ec_ws_close ec)
               end).
  assert (Eshape : (qname pre (xn_local nm) ++ render_items ec sc 0%nat items ++
                    match ch with
                    | [] => if ec_self_close ec then [47; 62] else 62 :: close_tag (qname pre (xn_local nm)) (ec_ws_close ec)
                    | _ :: _ => 62 :: render_children c path sc nm attrs 0%nat ch ++ close_tag (qname pre (xn_local nm)) (ec_ws_close ec)
                    end) ++ rest
                   = qname pre (xn_local nm) ++ (render_items ec sc 0%nat items ++ tag_end_bytes e ++ more ++ rest)).
  { unfold e, more. rewrite <- !app_assoc. f_equal. f_equal.
    destruct ch as [|x ch']; [destruct (ec_self_close ec)|]; cbn [tag_end_bytes app]; rewrite <- ?app_assoc; reflexivity. }
  rewrite Eshape. clear Eshape.
  (* the children, if the tag is open *)
  assert (Hcontent : e = TOpen -> exists f, parse_content f sc (prefix_str pre) (xn_local nm) (more ++ rest)
                                            = POk (ch, count_children (Some sc) ch, rest)).
  { intros He. unfold more, e in *. clear Hitems MA MD.
    destruct ch as [|x ch'].
    - destruct (ec_self_close ec); [discriminate|]. exists 1%nat. apply content_close; assumption.
    - cbv iota. rewrite <- app_assoc. apply (children_ok (x :: ch') Hall); try assumption. split; assumption. }
  assert (Hempty : e = TEmpty -> ch = []).
  { unfold e. destruct ch; [reflexivity|discriminate]. }
  assert (Hmore : e = TEmpty -> more = []).
  { unfold e, more. destruct ch; [destruct (ec_self_close ec)|]; intros; try reflexivity; discriminate. }
  assert (Hfuel : exists f, e = TOpen -> parse_content f sc (prefix_str pre) (xn_local nm) (more ++ rest)
                                           = POk (ch, count_children (Some sc) ch, rest)).
  { destruct e; [exists 0%nat; discriminate|]. destruct (Hcontent eq_refl) as [f Hf]. exists f. intros _. exact Hf. }
  destruct Hfuel as [f0 Hf0].
  set (f := Nat.max f0 (S (length items))).
  assert (Hf : e = TOpen -> parse_content f sc (prefix_str pre) (xn_local nm) (more ++ rest)
                            = POk (ch, count_children (Some sc) ch, rest)).
  { intros He. apply (parse_content_ok_mono f0 f _ _ _ _ _ (Hf0 He)). unfold f. lia. }
  exists f.
  unfold parse_element_with.
  rewrite (scan_qname_render pre (xn_local nm) _ Np Nl).
  2:{ destruct items as [|it items']; cbn [render_items].
      - destruct e; cbn [tag_end_bytes app]; apply stops_name_blanks; reflexivity.
      - rewrite <- ?app_assoc. apply stops_name_blanks1. }
  cbn [of_opt pbind]. rewrite Hnx.
  rewrite (parse_attrs_ok_mono _ f _ _ (parse_attrs_items sc ec e (more ++ rest) items 0%nat Hk Hd Hitems)) by (unfold f; lia).
  cbn [pbind].
  rewrite (split_attrs_items sc items [] [] Hk Hd); cbn [app]; [| rewrite MA; exact Hao | rewrite MD; exact Ok | rewrite MD; exact Od].
  cbn [of_opt pbind]. rewrite MA, MD.
  rewrite (resolve_scope_own P sc own); [| destruct P as [p|]; [destruct HP; assumption | exact I] | exact Eo].
  rewrite (resolve_attrs_ok sc attrs [] Hk Hd Hao Hda). cbn [of_opt pbind app].
  rewrite Hns. cbn [of_opt pbind].
  replace (mkXName (xn_ns nm) (xn_local nm)) with nm by (destruct nm; reflexivity).
  rewrite decl_count_elem_eq, Eo. cbn [or_default].
  destruct e eqn:Ee.
  - rewrite (Hempty eq_refl), (Hmore eq_refl). cbn [count_children app]. rewrite N.add_0_r. reflexivity.
  - rewrite (Hf eq_refl). cbn [pbind]. reflexivity.
Qed.
