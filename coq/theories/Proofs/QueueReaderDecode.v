(** The decoding state of the queue reader: a forward-looking invariant per
    record of non-zero width (what is queued, followed by what the unread bits
    and the bytes still to come decode to, is the rest of the column) and its
    lifting to the parallel lists of the model.  Records of zero width are not
    queued: their values are synthesised when a point is popped, and their
    queues are not constrained. *)
From E57 Require Import Base.Prelude Model.BsRead Model.Record Model.Prog Model.QueueReader
  Spec.BitSpec Spec.FormatSpec.
From E57 Require Import Proofs.BitLemmas Proofs.BitWidthProofs Proofs.BitReadProofs
  Proofs.BitCodecProofs Proofs.QueueReaderLemmas Proofs.QueueReaderPacket.
From Coq Require Import ZifyN ZifyNat ZifyBool.
Ltac Zify.zify_post_hook ::= Z.div_mod_to_equations.
Open Scope N_scope.

(** * Per-record notions *)

Definition sized (t : dtype) : bool := 0 <? spec_bit_size t.
Definition wof (t : dtype) : nat := N.to_nat (spec_bit_size t).
Definition dec (t : dtype) (l : list bool) : list rvalue := decode_bits_fuel (length l) t (wof t) l.
Definition zval (t : dtype) : rvalue :=
  match t with
  | TScaled mn _ => VScaled mn
  | TInteger mn _ => VInteger mn
  | _ => VInteger 0
  end.

Lemma sized_wof t : sized t = true -> (0 < wof t)%nat.
Proof. unfold sized, wof. lia. Qed.

Lemma sized_pos t : sized t = true -> 0 < spec_bit_size t.
Proof. unfold sized. lia. Qed.

Lemma dec_app t A B : (0 < wof t)%nat ->
  dec t (A ++ B) = dec t A ++ dec t (skipn (length A / wof t * wof t) A ++ B).
Proof. intros H. unfold dec. apply decode_app. exact H. Qed.

Lemma dec_short t R : (length R < wof t)%nat -> dec t R = [].
Proof. intros H. unfold dec. rewrite decode_group_nums, group_nums_short by exact H. reflexivity. Qed.

Lemma dec_length t A : (0 < wof t)%nat -> length (dec t A) = (length A / wof t)%nat.
Proof.
  intros H. unfold dec. rewrite decode_group_nums, map_length.
  apply group_nums_length; [exact H|lia].
Qed.

(** The whole byte stream of a column decodes to the column followed by
    values made of padding zeros. *)
Lemma full_decode t col : type_ok t = true -> sized t = true ->
  Forall (fun v => in_range t v = true) col ->
  exists extra, Forall value_i64 extra /\
    dec t (bits_of_bytes (spec_stream_bytes t col)) = col ++ extra.
Proof.
  intros Ht Hs Hcol. pose proof (sized_wof t Hs) as Hw. pose proof (sized_pos t Hs) as Hw0.
  destruct (bits_of_bytes_bob (stream_bits t col)) as [p Hp].
  pose proof (stream_bits_length t col Hcol) as Hlen. fold (wof t) in Hlen.
  unfold spec_stream_bytes. rewrite Hp, (dec_app t _ _ Hw).
  rewrite Hlen, Nat.div_mul by lia. rewrite <- Hlen, skipn_all. cbn [app].
  pose proof (decode_stream_bits t col [] Ht Hw0 Hcol ltac:(cbn [length]; lia)) as Hd.
  cbv zeta in Hd. rewrite app_nil_r in Hd. fold (wof t) in Hd. fold (dec t (stream_bits t col)) in Hd.
  rewrite Hd. eexists; split; [|reflexivity].
  unfold dec. rewrite decode_group_nums. apply Forall_map.
  pose proof (group_nums_allfalse (length (repeat false p)) (wof t) _ (allfalse_repeat p)) as H0.
  revert H0. apply Forall_impl. intros u ->. apply mk_value_0_i64. exact Ht.
Qed.

Lemma zero_width_value t v : type_ok t = true -> sized t = false -> in_range t v = true ->
  v = zval t.
Proof.
  intros Ht Hs Hv. unfold sized in Hs. unfold in_range in Hv.
  destruct t as [| |mn mx|mn mx]; cbn [spec_bit_size] in Hs; try lia;
    cbn [type_ok] in Ht; apply type_ok_int in Ht as (H1 & H2 & H3);
    destruct (spec_width_exact mn mx H1 H2 H3) as (_ & _ & _ & Hd);
    assert (Hz : spec_width mn mx = 0) by lia; apply Hd in Hz;
    destruct v as [x|x|i|i]; cbn [stored] in Hv; try discriminate;
    destruct ((mn <=? i)%Z && (i <=? mx)%Z) eqn:E; try discriminate;
    cbn [zval]; f_equal; lia.
Qed.

(** The model's test for zero width against the specification's. *)
Lemma bit_size_zero t : type_ok t = true -> (bit_size t =? 0) = negb (sized t).
Proof. intros Ht. rewrite (bit_size_spec t Ht). unfold sized. lia. Qed.

(** * The invariant of one record

    [sh] says whether the unread bits are fewer than one value (true between
    packets, false after the chunk of a packet has been appended).  Nothing is
    said about the queue of a record of zero width. *)
Definition rec_inv (sh : bool) (k : nat) (t : dtype) (col : list rvalue) (fut : list N)
  (s : bsr) (q : list rvalue) : Prop :=
  type_ok t = true /\ Forall (fun v => in_range t v = true) col /\
  exists R, bsr_holds s R /\
    if sized t then
      (sh = true -> (length R < wof t)%nat) /\
      exists extra, Forall value_i64 extra /\
        q ++ dec t (R ++ bits_of_bytes fut) = skipn k (col ++ extra)
    else True.

Lemma rec_inv_init t col : type_ok t = true -> Forall (fun v => in_range t v = true) col ->
  rec_inv true 0 t col (spec_stream_bytes t col) bsr_new [].
Proof.
  intros Ht Hcol. split; [exact Ht|]. split; [exact Hcol|].
  exists []. split; [apply bsr_new_holds|].
  destruct (sized t) eqn:Hs; [|exact I].
  split; [intros _; cbn [length]; apply sized_wof; exact Hs|].
  destruct (full_decode t col Ht Hs Hcol) as (extra & He & Hd).
  exists extra. split; [exact He|]. cbn [app skipn]. exact Hd.
Qed.

Lemma rec_append sh k t col c f s q :
  rec_inv sh k t col (c ++ f) s q -> bytes_ok c ->
  exists s1, keep_append t s c = Ok s1 /\ rec_inv false k t col f s1 q.
Proof.
  intros (Ht & Hcol & R & Hh & Hi) Hc. unfold keep_append. rewrite (bit_size_zero t Ht).
  destruct (sized t) eqn:Hs; cbn [negb].
  - destruct (bsr_append_holds s R c Hh Hc) as (s1 & Ha & Hh1).
    exists s1. split; [exact Ha|]. split; [exact Ht|]. split; [exact Hcol|].
    exists (R ++ bits_of_bytes c). split; [exact Hh1|]. rewrite Hs.
    destruct Hi as (_ & extra & He & Heq).
    split; [discriminate|]. exists extra. split; [exact He|].
    rewrite bits_of_bytes_app, app_assoc in Heq. exact Heq.
  - exists s. split; [reflexivity|]. split; [exact Ht|]. split; [exact Hcol|].
    exists R. split; [exact Hh|]. rewrite Hs. exact I.
Qed.

Lemma col_i64 t col : type_ok t = true -> Forall (fun v => in_range t v = true) col ->
  Forall value_i64 col.
Proof. intros Ht. apply Forall_impl. intros v Hv. apply (in_range_i64 t v Ht Hv). Qed.

Lemma rec_unpack k t col f s1 q :
  rec_inv false k t col f s1 q -> sized t = true ->
  exists s2 vs av, bsr_available s1 = Ok av /\ av / bit_size t = len vs /\
    unpack_type t s1 = Ok (s2, vs) /\ rec_inv true k t col f s2 (q ++ vs).
Proof.
  intros (Ht & Hcol & R & Hh & Hi) Hs. rewrite Hs in Hi.
  destruct Hi as (_ & extra & He & Heq).
  pose proof (sized_wof t Hs) as Hw. pose proof (sized_pos t Hs) as Hw0.
  rewrite (dec_app t _ _ Hw) in Heq.
  assert (Hall : Forall value_i64 (dec t R)).
  { assert (H1 : Forall value_i64 (skipn k (col ++ extra))).
    { apply Forall_skipn_. apply Forall_app. split; [apply (col_i64 t); assumption|exact He]. }
    rewrite <- Heq in H1. apply Forall_app in H1 as [_ H1]. apply Forall_app in H1 as [H1 _]. exact H1. }
  destruct (unpack_type_holds_i64 t s1 R Ht Hw0 Hh Hall) as (s2 & Hu & Hh2).
  fold (wof t) in Hu, Hh2. fold (dec t R) in Hu.
  pose proof (bsr_holds_length _ _ Hh) as Hl. destruct Hh as (Hok & Hoff & Hbits).
  exists s2, (dec t R), (N.of_nat (length R)). split; [|split; [|split]].
  - unfold bsr_available. destruct (len (br_buf s1) * 8 <? br_off s1) eqn:E; [lia|].
    f_equal. lia.
  - rewrite (bit_size_spec t Ht). unfold len. rewrite (dec_length t R Hw). unfold wof. lia.
  - exact Hu.
  - split; [exact Ht|]. split; [exact Hcol|].
    exists (skipn (length R / wof t * wof t) R). split; [exact Hh2|]. rewrite Hs.
    split; [intros _; rewrite skipn_length; apply mod_rest_lt; exact Hw|].
    exists extra. split; [exact He|]. rewrite <- app_assoc. exact Heq.
Qed.

(** A record of zero width keeps its stream and its queue. *)
Lemma rec_skip sh k t col f s q : rec_inv sh k t col f s q -> sized t = false ->
  rec_inv true k t col f s q.
Proof.
  intros (Ht & Hcol & R & Hh & Hi) Hs.
  split; [exact Ht|]. split; [exact Hcol|]. exists R. split; [exact Hh|]. rewrite Hs. exact I.
Qed.

Lemma skipn_cons_nth {A} (d : A) : forall k l, (k < length l)%nat ->
  skipn k l = nth k l d :: skipn (S k) l.
Proof.
  induction k; intros l H; destruct l as [|x l]; cbn [length] in H; try lia.
  - reflexivity.
  - cbn [skipn nth]. rewrite IHk by lia. reflexivity.
Qed.

(** Popping a record of non-zero width: the front of its queue is the next value of the column. *)
Lemma rec_pop sh k t col f s v q d : rec_inv sh k t col f s (v :: q) -> sized t = true ->
  (k < length col)%nat ->
  v = nth k col d /\ rec_inv sh (S k) t col f s q.
Proof.
  intros (Ht & Hcol & R & Hh & Hi) Hs Hk. rewrite Hs in Hi.
  destruct Hi as (Hsh & extra & He & Heq).
  rewrite (skipn_cons_nth d k (col ++ extra)) in Heq by (rewrite app_length; lia).
  rewrite app_nth1 in Heq by exact Hk. cbn [app] in Heq. injection Heq as Hv Hq.
  split; [exact Hv|]. split; [exact Ht|]. split; [exact Hcol|]. exists R. split; [exact Hh|].
  rewrite Hs. split; [exact Hsh|]. exists extra. split; [exact He|exact Hq].
Qed.

(** Popping a record of zero width: the synthesised minimum is the next value of the column. *)
Lemma rec_pop_zero sh k t col f s q d : rec_inv sh k t col f s q -> sized t = false ->
  (k < length col)%nat ->
  zval t = nth k col d /\ rec_inv sh (S k) t col f s q.
Proof.
  intros (Ht & Hcol & R & Hh & Hi) Hs Hk. split.
  - rewrite Forall_forall in Hcol. symmetry. apply (zero_width_value t _ Ht Hs).
    apply Hcol. apply nth_In. exact Hk.
  - split; [exact Ht|]. split; [exact Hcol|]. exists R. split; [exact Hh|]. rewrite Hs. exact I.
Qed.

Lemma rec_progress k t col s : rec_inv true k t col [] s [] -> sized t = true ->
  (length col <= k)%nat.
Proof.
  intros (Ht & Hcol & R & Hh & Hi) Hs. rewrite Hs in Hi.
  destruct Hi as (Hsh & extra & He & Heq). specialize (Hsh eq_refl).
  cbn [bits_of_bytes flat_map app] in Heq. rewrite app_nil_r, (dec_short t R Hsh) in Heq.
  assert (Hl : length (skipn k (col ++ extra)) = 0%nat) by (rewrite <- Heq; reflexivity).
  rewrite skipn_length, app_length in Hl. lia.
Qed.

(** * The model's test for zero width against the specification's *)

Lemma has_sized_sized : forall ts, Forall (fun t => type_ok t = true) ts ->
  has_sized ts = existsb sized ts.
Proof.
  unfold has_sized. induction 1 as [|t ts Ht HF IH]; [reflexivity|].
  cbn [existsb]. rewrite IH, (bit_size_zero t Ht), Bool.negb_involutive. reflexivity.
Qed.

(** * The model's per-record parsing step *)

Definition one_rec (t : dtype) (s : bsr) (q : list rvalue) : res (bsr * list rvalue) :=
  if bit_size t =? 0 then Ok (s, q)
  else res_map (fun '(s', vs) => (s', q ++ vs)) (unpack_type t s).

Lemma parse_streams_cons t ts s ss q qs :
  parse_streams (t :: ts) (s :: ss) (q :: qs) =
  match one_rec t s q with
  | Ok (s', q') =>
      match parse_streams ts ss qs with
      | Ok (ss', qs') => Ok (s' :: ss', q' :: qs')
      | Err k => Err k
      | Panic => Panic
      end
  | Err k => Err k
  | Panic => Panic
  end.
Proof. reflexivity. Qed.

Lemma one_rec_sized t s q s2 vs : type_ok t = true -> sized t = true ->
  unpack_type t s = Ok (s2, vs) -> one_rec t s q = Ok (s2, q ++ vs).
Proof.
  intros Ht Hs Hu. unfold one_rec. rewrite (bit_size_zero t Ht), Hs. cbn [negb].
  rewrite Hu. reflexivity.
Qed.

Lemma one_rec_zero t s q : type_ok t = true -> sized t = false -> one_rec t s q = Ok (s, q).
Proof.
  intros Ht Hs. unfold one_rec. rewrite (bit_size_zero t Ht), Hs. reflexivity.
Qed.

(** * The model's per-record popping step *)

Definition pop_one (t : dtype) (q : list rvalue) : res (rvalue * list rvalue) :=
  match t, bit_size t =? 0 with
  | TInteger mn _, true => Ok (VInteger mn, q)
  | TScaled mn _, true => Ok (VScaled mn, q)
  | _, _ => match q with
            | [] => Err EInternal
            | v :: q' => Ok (v, q')
            end
  end.

Lemma pop_fronts_cons t ts q qs :
  pop_fronts (t :: ts) (q :: qs) =
  match pop_one t q with
  | Ok (v, q') =>
      match pop_fronts ts qs with
      | Ok (vs, r') => Ok (v :: vs, q' :: r')
      | Err k => Err k
      | Panic => Panic
      end
  | Err k => Err k
  | Panic => Panic
  end.
Proof. reflexivity. Qed.

Lemma pop_one_sized t v q : type_ok t = true -> sized t = true -> pop_one t (v :: q) = Ok (v, q).
Proof.
  intros Ht Hs. pose proof (bit_size_zero t Ht) as Hb. rewrite Hs in Hb. cbn [negb] in Hb.
  unfold pop_one. destruct t; try reflexivity; rewrite Hb; reflexivity.
Qed.

Lemma pop_one_zero t q : type_ok t = true -> sized t = false -> pop_one t q = Ok (zval t, q).
Proof.
  intros Ht Hs. pose proof (bit_size_zero t Ht) as Hb. rewrite Hs in Hb. cbn [negb] in Hb.
  unfold pop_one. destruct t as [| |mn mx|mn mx]; try (rewrite Hb; reflexivity);
    unfold sized in Hs; cbn [spec_bit_size] in Hs; lia.
Qed.

(** * The invariant over the parallel lists *)

Inductive inv5 (sh : bool) (k : nat) :
  list dtype -> list (list rvalue) -> list (list N) -> list bsr -> list (list rvalue) -> Prop :=
| inv5_nil : inv5 sh k [] [] [] [] []
| inv5_cons t c f s q ts cs fs ss qs :
    rec_inv sh k t c f s q -> inv5 sh k ts cs fs ss qs ->
    inv5 sh k (t :: ts) (c :: cs) (f :: fs) (s :: ss) (q :: qs).

Lemma inv5_length sh k ts cs fs ss qs : inv5 sh k ts cs fs ss qs ->
  length cs = length ts /\ length fs = length ts /\ length ss = length ts /\ length qs = length ts.
Proof. induction 1; cbn [length]; lia. Qed.

Lemma inv5_type_ok sh k ts cs fs ss qs : inv5 sh k ts cs fs ss qs ->
  Forall (fun t => type_ok t = true) ts.
Proof. induction 1 as [|t c f s q ts cs fs ss qs (Ht & _) Hi IH]; constructor; assumption. Qed.

Lemma inv5_init : forall ts cs fs,
  Forall3 (fun t c f => type_ok t = true /\ Forall (fun v => in_range t v = true) c /\
                        f = spec_stream_bytes t c) ts cs fs ->
  inv5 true 0 ts cs fs (map (fun _ => bsr_new) ts) (map (fun _ => []) ts).
Proof.
  induction 1 as [|t c f ts cs fs (Ht & Hc & ->) HF IH]; cbn [map]; constructor.
  - apply rec_inv_init; assumption.
  - exact IH.
Qed.

Lemma inv5_append sh k : forall ts cs fs ss qs, inv5 sh k ts cs fs ss qs ->
  forall chunks fs', Forall3 (fun f c f' => f = c ++ f') fs chunks fs' ->
  Forall bytes_ok chunks ->
  exists ss1, Forall4 (fun t s c s1 => keep_append t s c = Ok s1) ts ss chunks ss1 /\
              inv5 false k ts cs fs' ss1 qs.
Proof.
  induction 1 as [|t c f s q ts cs fs ss qs Hr Hi IH]; intros chunks fs' HF Hok.
  - inversion HF; subst. exists []. split; constructor.
  - inversion HF as [|? ch f' ? chs fs'' Hf HF']; subst.
    inversion Hok as [|? ? Hc Hok']; subst.
    destruct (rec_append _ _ _ _ _ _ _ _ Hr Hc) as (s1 & Ha & Hr1).
    destruct (IH _ _ HF' Hok') as (ss1 & HF1 & Hi1).
    exists (s1 :: ss1). split; constructor; assumption.
Qed.

(** Parsing the streams after the chunks of a packet have been appended:
    every record of non-zero width decodes all whole values of its unread bits
    into its queue, the records of zero width are skipped. *)
Lemma inv5_parse k : forall ts cs fs ss1 qs, inv5 false k ts cs fs ss1 qs ->
  exists ss2 qs2, parse_streams ts ss1 qs = Ok (ss2, qs2) /\ inv5 true k ts cs fs ss2 qs2.
Proof.
  induction 1 as [|t c f s q ts cs fs ss qs Hr Hi IH].
  - exists [], []. split; [reflexivity|constructor].
  - pose proof Hr as (Ht & _). destruct IH as (ss2 & qs2 & Hp2 & Hi2).
    rewrite parse_streams_cons. destruct (sized t) eqn:Hs.
    + destruct (rec_unpack _ _ _ _ _ _ Hr Hs) as (s2 & vs & av & _ & _ & Hu & Hr2).
      exists (s2 :: ss2), ((q ++ vs) :: qs2).
      rewrite (one_rec_sized t s q s2 vs Ht Hs Hu), Hp2.
      split; [reflexivity|constructor; assumption].
    + exists (s :: ss2), (q :: qs2). rewrite (one_rec_zero t s q Ht Hs), Hp2.
      split; [reflexivity|]. constructor; [apply (rec_skip false); assumption|exact Hi2].
Qed.

(** * [qr_available]: the minimum over the queues of the records of non-zero width *)

Definition sized_ge (a : N) (ts : list dtype) (qs : list (list rvalue)) : Prop :=
  Forall2 (fun t q => sized t = true -> a <= len q) ts qs.
Fixpoint attained (m : N) (ts : list dtype) (qs : list (list rvalue)) : Prop :=
  match ts, qs with
  | t :: ts', q :: qs' => (sized t = true /\ len q = m) \/ attained m ts' qs'
  | _, _ => False
  end.

Lemma Forall2_impl_ {A B} (R1 R2 : A -> B -> Prop) : (forall a b, R1 a b -> R2 a b) ->
  forall la lb, Forall2 R1 la lb -> Forall2 R2 la lb.
Proof. intros H la lb HF. induction HF; constructor; auto. Qed.

Lemma sized_ge_le a b ts qs : b <= a -> sized_ge a ts qs -> sized_ge b ts qs.
Proof.
  intros Hab. unfold sized_ge. apply Forall2_impl_. intros t q H Hs. specialize (H Hs). lia.
Qed.

Lemma avail_sized_spec : forall ts qs acc,
  Forall (fun t => type_ok t = true) ts -> length qs = length ts ->
  match avail_sized ts qs acc with
  | None => acc = None /\ Forall (fun t => sized t = false) ts
  | Some m => sized_ge m ts qs /\ (forall a, acc = Some a -> m <= a) /\
              (acc = Some m \/ attained m ts qs)
  end.
Proof.
  induction ts as [|t ts IH]; intros qs acc Hok Hlen;
    destruct qs as [|q qs]; cbn [length] in Hlen; try discriminate.
  - cbn [avail_sized]. destruct acc as [a|].
    + split; [constructor|]. split; [intros a' [= <-]; lia|left; reflexivity].
    + split; [reflexivity|constructor].
  - inversion Hok as [|? ? Ht Hok']; subst. injection Hlen as Hlen.
    cbn [avail_sized]. rewrite (bit_size_zero t Ht). destruct (sized t) eqn:Hs; cbn [negb].
    + set (acc1 := Some (match acc with None => len q | Some m => N.min m (len q) end)).
      specialize (IH qs acc1 Hok' Hlen).
      destruct (avail_sized ts qs acc1) as [m|]; [|destruct IH as [IH _]; discriminate].
      destruct IH as (Hge & Hle & Hor).
      assert (Hx : m <= len q /\ (forall a, acc = Some a -> m <= a)).
      { specialize (Hle _ eq_refl). destruct acc as [a0|]; split; try lia.
        - intros a [= <-]. lia.
        - intros a [=]. }
      destruct Hx as [Hmq Hma].
      split; [constructor; [intros _; exact Hmq|exact Hge]|]. split; [exact Hma|].
      cbn [attained]. destruct Hor as [Hor|Hor]; [|right; right; exact Hor].
      subst acc1. injection Hor as Hor. destruct acc as [a0|].
      * destruct (N.le_ge_cases a0 (len q)) as [Hc|Hc].
        -- left. f_equal. lia.
        -- right. left. split; [exact Hs|lia].
      * right. left. split; [exact Hs|lia].
    + specialize (IH qs acc Hok' Hlen).
      destruct (avail_sized ts qs acc) as [m|].
      * destruct IH as (Hge & Hle & Hor).
        split; [constructor; [intros Hc; congruence|exact Hge]|]. split; [exact Hle|].
        cbn [attained]. destruct Hor as [Hor|Hor]; [left; exact Hor|right; right; exact Hor].
      * destruct IH as [Hacc HF]. split; [exact Hacc|constructor; assumption].
Qed.

(** With a record of non-zero width, [qr_available] is a lower bound of the
    queues of such records, attained by one of them. *)
Lemma avail_spec ts ss qs :
  Forall (fun t => type_ok t = true) ts -> length qs = length ts -> existsb sized ts = true ->
  sized_ge (qr_available (mkQr ts ss qs)) ts qs /\ attained (qr_available (mkQr ts ss qs)) ts qs.
Proof.
  intros Hok Hlen Hex. unfold qr_available. cbn [q_proto q_queues].
  pose proof (avail_sized_spec ts qs None Hok Hlen) as H.
  destruct (avail_sized ts qs None) as [m|].
  - destruct H as (Hge & _ & [Hor|Hor]); [discriminate|]. split; assumption.
  - exfalso. destruct H as [_ HF]. clear - Hex HF.
    induction HF as [|t ts Ht HF IH]; cbn [existsb] in Hex; [discriminate|].
    rewrite Ht in Hex. apply IH. exact Hex.
Qed.

(** * Popping one point *)

Lemma inv5_pop sh k : forall ts cs fs ss qs, inv5 sh k ts cs fs ss qs ->
  Forall (fun c => (k < length c)%nat) cs ->
  Forall2 (fun t q => sized t = true -> q <> []) ts qs ->
  exists vs qs', pop_fronts ts qs = Ok (vs, qs') /\ inv5 sh (S k) ts cs fs ss qs' /\
    Forall2 (fun c v => v = nth k c (VInteger 0)) cs vs.
Proof.
  induction 1 as [|t c f s q ts cs fs ss qs Hr Hi IH]; intros Hk Hne.
  - exists [], []. split; [reflexivity|]. split; constructor.
  - inversion Hk as [|? ? Hk0 Hk']; subst. inversion Hne as [|? ? ? ? Hq0 Hne']; subst.
    pose proof Hr as (Ht & _).
    destruct (IH Hk' Hne') as (vs & qs' & Hp & Hi' & HF1).
    rewrite pop_fronts_cons. destruct (sized t) eqn:Hs.
    + destruct q as [|v q]; [specialize (Hq0 eq_refl); congruence|].
      destruct (rec_pop _ _ _ _ _ _ _ _ (VInteger 0) Hr Hs Hk0) as [Hv Hr'].
      exists (v :: vs), (q :: qs'). rewrite (pop_one_sized t v q Ht Hs), Hp.
      split; [reflexivity|]. split; constructor; assumption.
    + destruct (rec_pop_zero _ _ _ _ _ _ _ (VInteger 0) Hr Hs Hk0) as [Hv Hr'].
      exists (zval t :: vs), (q :: qs'). rewrite (pop_one_zero t q Ht Hs), Hp.
      split; [reflexivity|]. split; constructor; assumption.
Qed.

(** * Progress: with nothing more to come, the sized queues still hold the
    remaining values of their columns *)
Lemma inv5_progress k : forall ts cs fs ss qs, inv5 true k ts cs fs ss qs ->
  Forall (fun f => f = []) fs -> Forall (fun c => (k < length c)%nat) cs ->
  Forall2 (fun t q => sized t = true -> q <> []) ts qs.
Proof.
  induction 1 as [|t c f s q ts cs fs ss qs Hr Hi IH]; intros Hf Hk; [constructor|].
  inversion Hf as [|? ? Hf0 Hf']; subst. inversion Hk as [|? ? Hk0 Hk']; subst.
  constructor; [|apply IH; assumption].
  intros Hs ->. pose proof (rec_progress _ _ _ _ Hr Hs). lia.
Qed.

Lemma attained_nonzero m : forall ts qs, attained m ts qs ->
  Forall2 (fun t q => sized t = true -> q <> []) ts qs -> m <> 0.
Proof.
  induction ts as [|t ts IH]; intros qs H HF; [destruct H|].
  destruct qs as [|q qs]; [destruct H|]. inversion HF as [|? ? ? ? Hq HF']; subst.
  cbn [attained] in H. destruct H as [[H1 H2]|H]; [|apply (IH _ H HF')].
  specialize (Hq H1). intros ->. apply qlen_0_nil in H2. congruence.
Qed.

(** [1 <= available]: every queue of a record of non-zero width is non-empty. *)
Lemma sized_ge_nonempty ts qs : sized_ge 1 ts qs ->
  Forall2 (fun t q => sized t = true -> q <> []) ts qs.
Proof.
  unfold sized_ge. apply Forall2_impl_. intros t q H Hs ->. specialize (H Hs).
  rewrite qlen_nil in H. lia.
Qed.
