(** The decoding state of the queue reader: a forward-looking invariant per
    record (what is queued, followed by what the unread bits and the bytes
    still to come decode to, is the rest of the column) and its lifting to
    the parallel lists of the model. *)
From E57 Require Import Base.Prelude Model.BsRead Model.Record Model.Prog Model.QueueReader
  Spec.BitSpec Spec.FormatSpec.
From E57 Require Import Proofs.BitLemmas Proofs.BitWidthProofs Proofs.BitReadProofs
  Proofs.BitCodecProofs Proofs.QueueReaderLemmas.
From Coq Require Import ZifyN ZifyNat ZifyBool.
Ltac Zify.zify_post_hook ::= Z.div_mod_to_equations.
Open Scope N_scope.

(** * Per-record notions *)

Definition sized (t : dtype) : bool := 0 <? spec_bit_size t.
Definition wof (t : dtype) : nat := N.to_nat (spec_bit_size t).
Definition dec (t : dtype) (l : list bool) : list rvalue := decode_bits_fuel (length l) t (wof t) l.
Definition zval (t : dtype) : rvalue :=
  match t with
  | TScaled mn _ => VScaled mn
  | TInteger mn _ => VInteger mn
  | _ => VInteger 0
  end.

Lemma sized_wof t : sized t = true -> (0 < wof t)%nat.
Proof. unfold sized, wof. lia. Qed.

Lemma sized_pos t : sized t = true -> 0 < spec_bit_size t.
Proof. unfold sized. lia. Qed.

Lemma dec_app t A B : (0 < wof t)%nat ->
  dec t (A ++ B) = dec t A ++ dec t (skipn (length A / wof t * wof t) A ++ B).
Proof. intros H. unfold dec. apply decode_app. exact H. Qed.

Lemma dec_short t R : (length R < wof t)%nat -> dec t R = [].
Proof. intros H. unfold dec. rewrite decode_group_nums, group_nums_short by exact H. reflexivity. Qed.

Lemma dec_length t A : (0 < wof t)%nat -> length (dec t A) = (length A / wof t)%nat.
Proof.
  intros H. unfold dec. rewrite decode_group_nums, map_length.
  apply group_nums_length; [exact H|lia].
Qed.

(** The whole byte stream of a column decodes to the column followed by
    values made of padding zeros. *)
Lemma full_decode t col : type_ok t = true -> sized t = true ->
  Forall (fun v => in_range t v = true) col ->
  exists extra, Forall value_i64 extra /\
    dec t (bits_of_bytes (spec_stream_bytes t col)) = col ++ extra.
Proof.
  intros Ht Hs Hcol. pose proof (sized_wof t Hs) as Hw. pose proof (sized_pos t Hs) as Hw0.
  destruct (bits_of_bytes_bob (stream_bits t col)) as [p Hp].
  pose proof (stream_bits_length t col Hcol) as Hlen. fold (wof t) in Hlen.
  unfold spec_stream_bytes. rewrite Hp, (dec_app t _ _ Hw).
  rewrite Hlen, Nat.div_mul by lia. rewrite <- Hlen, skipn_all. cbn [app].
  pose proof (decode_stream_bits t col [] Ht Hw0 Hcol ltac:(cbn [length]; lia)) as Hd.
  cbv zeta in Hd. rewrite app_nil_r in Hd. fold (wof t) in Hd. fold (dec t (stream_bits t col)) in Hd.
  rewrite Hd. eexists; split; [|reflexivity].
  unfold dec. rewrite decode_group_nums. apply Forall_map.
  pose proof (group_nums_allfalse (length (repeat false p)) (wof t) _ (allfalse_repeat p)) as H0.
  revert H0. apply Forall_impl. intros u ->. apply mk_value_0_i64. exact Ht.
Qed.

Lemma zero_width_value t v : type_ok t = true -> sized t = false -> in_range t v = true ->
  v = zval t.
Proof.
  intros Ht Hs Hv. unfold sized in Hs. unfold in_range in Hv.
  destruct t as [| |mn mx|mn mx]; cbn [spec_bit_size] in Hs; try lia;
    cbn [type_ok] in Ht; apply type_ok_int in Ht as (H1 & H2 & H3);
    destruct (spec_width_exact mn mx H1 H2 H3) as (_ & _ & _ & Hd);
    assert (Hz : spec_width mn mx = 0) by lia; apply Hd in Hz;
    destruct v as [x|x|i|i]; cbn [stored] in Hv; try discriminate;
    destruct ((mn <=? i)%Z && (i <=? mx)%Z) eqn:E; try discriminate;
    cbn [zval]; f_equal; lia.
Qed.

(** * The invariant of one record

    [sh] says whether the unread bits are fewer than one value (true between
    packets, false after the chunk of a packet has been appended). *)
Definition rec_inv (sh : bool) (k : nat) (t : dtype) (col : list rvalue) (fut : list N)
  (s : bsr) (q : list rvalue) : Prop :=
  type_ok t = true /\ Forall (fun v => in_range t v = true) col /\
  exists R, bsr_holds s R /\
    if sized t then
      (sh = true -> (length R < wof t)%nat) /\
      exists extra, Forall value_i64 extra /\
        q ++ dec t (R ++ bits_of_bytes fut) = skipn k (col ++ extra)
    else Forall (fun v => v = zval t) q.

Lemma rec_inv_init t col : type_ok t = true -> Forall (fun v => in_range t v = true) col ->
  rec_inv true 0 t col (spec_stream_bytes t col) bsr_new [].
Proof.
  intros Ht Hcol. split; [exact Ht|]. split; [exact Hcol|].
  exists []. split; [apply bsr_new_holds|].
  destruct (sized t) eqn:Hs; [|constructor].
  split; [intros _; cbn [length]; apply sized_wof; exact Hs|].
  destruct (full_decode t col Ht Hs Hcol) as (extra & He & Hd).
  exists extra. split; [exact He|]. cbn [app skipn]. exact Hd.
Qed.

Lemma rec_append sh k t col c f s q :
  rec_inv sh k t col (c ++ f) s q -> bytes_ok c ->
  exists s1, bsr_append s c = Ok s1 /\ rec_inv false k t col f s1 q.
Proof.
  intros (Ht & Hcol & R & Hh & Hi) Hc.
  destruct (bsr_append_holds s R c Hh Hc) as (s1 & Ha & Hh1).
  exists s1. split; [exact Ha|]. split; [exact Ht|]. split; [exact Hcol|].
  exists (R ++ bits_of_bytes c). split; [exact Hh1|].
  destruct (sized t); [|exact Hi].
  destruct Hi as (_ & extra & He & Heq).
  split; [discriminate|]. exists extra. split; [exact He|].
  rewrite bits_of_bytes_app, app_assoc in Heq. exact Heq.
Qed.

Lemma col_i64 t col : type_ok t = true -> Forall (fun v => in_range t v = true) col ->
  Forall value_i64 col.
Proof. intros Ht. apply Forall_impl. intros v Hv. apply (in_range_i64 t v Ht Hv). Qed.

Lemma rec_unpack k t col f s1 q :
  rec_inv false k t col f s1 q -> sized t = true ->
  exists s2 vs av, bsr_available s1 = Ok av /\ av / bit_size t = len vs /\
    unpack_type t s1 = Ok (s2, vs) /\ rec_inv true k t col f s2 (q ++ vs).
Proof.
  intros (Ht & Hcol & R & Hh & Hi) Hs. rewrite Hs in Hi.
  destruct Hi as (_ & extra & He & Heq).
  pose proof (sized_wof t Hs) as Hw. pose proof (sized_pos t Hs) as Hw0.
  rewrite (dec_app t _ _ Hw) in Heq.
  assert (Hall : Forall value_i64 (dec t R)).
  { assert (H1 : Forall value_i64 (skipn k (col ++ extra))).
    { apply Forall_skipn_. apply Forall_app. split; [apply (col_i64 t); assumption|exact He]. }
    rewrite <- Heq in H1. apply Forall_app in H1 as [_ H1]. apply Forall_app in H1 as [H1 _]. exact H1. }
  destruct (unpack_type_holds_i64 t s1 R Ht Hw0 Hh Hall) as (s2 & Hu & Hh2).
  fold (wof t) in Hu, Hh2. fold (dec t R) in Hu.
  pose proof (bsr_holds_length _ _ Hh) as Hl. destruct Hh as (Hok & Hoff & Hbits).
  exists s2, (dec t R), (N.of_nat (length R)). split; [|split; [|split]].
  - unfold bsr_available. destruct (len (br_buf s1) * 8 <? br_off s1) eqn:E; [lia|].
    f_equal. lia.
  - rewrite (bit_size_spec t Ht). unfold len. rewrite (dec_length t R Hw). unfold wof. lia.
  - exact Hu.
  - split; [exact Ht|]. split; [exact Hcol|].
    exists (skipn (length R / wof t * wof t) R). split; [exact Hh2|]. rewrite Hs.
    split; [intros _; rewrite skipn_length; apply mod_rest_lt; exact Hw|].
    exists extra. split; [exact He|]. rewrite <- app_assoc. exact Heq.
Qed.

Lemma rec_fill sh k t col f s q m : rec_inv sh k t col f s q -> sized t = false ->
  rec_inv true k t col f s (q ++ repeat (zval t) m).
Proof.
  intros (Ht & Hcol & R & Hh & Hi) Hs. rewrite Hs in Hi.
  split; [exact Ht|]. split; [exact Hcol|]. exists R. split; [exact Hh|]. rewrite Hs.
  apply Forall_app. split; [exact Hi|]. apply Forall_forall. intros x Hx.
  apply repeat_spec in Hx. exact Hx.
Qed.

Lemma skipn_cons_nth {A} (d : A) : forall k l, (k < length l)%nat ->
  skipn k l = nth k l d :: skipn (S k) l.
Proof.
  induction k; intros l H; destruct l as [|x l]; cbn [length] in H; try lia.
  - reflexivity.
  - cbn [skipn nth]. rewrite IHk by lia. reflexivity.
Qed.

Lemma rec_pop sh k t col f s v q d : rec_inv sh k t col f s (v :: q) -> (k < length col)%nat ->
  v = nth k col d /\ rec_inv sh (S k) t col f s q.
Proof.
  intros (Ht & Hcol & R & Hh & Hi) Hk.
  destruct (sized t) eqn:Hs.
  - destruct Hi as (Hsh & extra & He & Heq).
    rewrite (skipn_cons_nth d k (col ++ extra)) in Heq by (rewrite app_length; lia).
    rewrite app_nth1 in Heq by exact Hk. cbn [app] in Heq. injection Heq as Hv Hq.
    split; [exact Hv|]. split; [exact Ht|]. split; [exact Hcol|]. exists R. split; [exact Hh|].
    rewrite Hs. split; [exact Hsh|]. exists extra. split; [exact He|exact Hq].
  - inversion Hi as [|? ? Hv Hq]; subst. split.
    + rewrite Forall_forall in Hcol. symmetry. apply (zero_width_value t _ Ht Hs).
      apply Hcol. apply nth_In. exact Hk.
    + split; [exact Ht|]. split; [exact Hcol|]. exists R. split; [exact Hh|]. rewrite Hs. exact Hq.
Qed.

Lemma rec_progress k t col s : rec_inv true k t col [] s [] -> sized t = true ->
  (length col <= k)%nat.
Proof.
  intros (Ht & Hcol & R & Hh & Hi) Hs. rewrite Hs in Hi.
  destruct Hi as (Hsh & extra & He & Heq). specialize (Hsh eq_refl).
  cbn [bits_of_bytes flat_map app] in Heq. rewrite app_nil_r, (dec_short t R Hsh) in Heq.
  assert (Hl : length (skipn k (col ++ extra)) = 0%nat) by (rewrite <- Heq; reflexivity).
  rewrite skipn_length, app_length in Hl. lia.
Qed.

(** * The model's per-record parsing step *)

Definition one_rec (t : dtype) (s : bsr) (q : list rvalue) (mqs : N) : res (bsr * list rvalue) :=
  match t with
  | TSingle | TDouble => res_map (fun '(s', vs) => (s', q ++ vs)) (unpack_type t s)
  | TScaled mn mx =>
      if bit_size t =? 0 then Ok (s, q ++ repeat (VScaled mn) (N.to_nat (mqs - len q)))
      else res_map (fun '(s', vs) => (s', q ++ vs)) (unpack_type t s)
  | TInteger mn mx =>
      if bit_size t =? 0 then Ok (s, q ++ repeat (VInteger mn) (N.to_nat (mqs - len q)))
      else res_map (fun '(s', vs) => (s', q ++ vs)) (unpack_type t s)
  end.

Lemma parse_streams_cons t ts s ss q qs m :
  parse_streams (t :: ts) (s :: ss) (q :: qs) m =
  match one_rec t s q m with
  | Ok (s', q') =>
      match parse_streams ts ss qs m with
      | Ok (ss', qs') => Ok (s' :: ss', q' :: qs')
      | Err k => Err k
      | Panic => Panic
      end
  | Err k => Err k
  | Panic => Panic
  end.
Proof. reflexivity. Qed.

Lemma one_rec_sized t s q m s2 vs : type_ok t = true -> sized t = true ->
  unpack_type t s = Ok (s2, vs) -> one_rec t s q m = Ok (s2, q ++ vs).
Proof.
  intros Ht Hs Hu. pose proof (bit_size_spec t Ht) as Hb. pose proof (sized_pos t Hs) as Hp.
  unfold one_rec. destruct t as [| |mn mx|mn mx]; try (rewrite Hu; reflexivity).
  - destruct (bit_size (TScaled mn mx) =? 0) eqn:E; [lia|]. rewrite Hu. reflexivity.
  - destruct (bit_size (TInteger mn mx) =? 0) eqn:E; [lia|]. rewrite Hu. reflexivity.
Qed.

Lemma one_rec_zero t s q m : type_ok t = true -> sized t = false ->
  one_rec t s q m = Ok (s, q ++ repeat (zval t) (N.to_nat (m - len q))).
Proof.
  intros Ht Hs. pose proof (bit_size_spec t Ht) as Hb. unfold sized in Hs.
  unfold one_rec. destruct t as [| |mn mx|mn mx]; cbn [spec_bit_size] in Hs, Hb; try lia.
  - destruct (bit_size (TScaled mn mx) =? 0) eqn:E; [reflexivity|lia].
  - destruct (bit_size (TInteger mn mx) =? 0) eqn:E; [reflexivity|lia].
Qed.

Lemma min_queue_size_cons t ts s ss q qs acc :
  min_queue_size (t :: ts) (s :: ss) (q :: qs) acc =
  if bit_size t =? 0 then min_queue_size ts ss qs acc else
  match bsr_available s with
  | Ok av =>
      let items := av / bit_size t + len q in
      min_queue_size ts ss qs
        (match acc with None => Some items | Some m => Some (if items <? m then items else m) end)
  | Err k => Err k
  | Panic => Panic
  end.
Proof. reflexivity. Qed.

(** * The invariant over the parallel lists *)

Inductive inv5 (sh : bool) (k : nat) :
  list dtype -> list (list rvalue) -> list (list N) -> list bsr -> list (list rvalue) -> Prop :=
| inv5_nil : inv5 sh k [] [] [] [] []
| inv5_cons t c f s q ts cs fs ss qs :
    rec_inv sh k t c f s q -> inv5 sh k ts cs fs ss qs ->
    inv5 sh k (t :: ts) (c :: cs) (f :: fs) (s :: ss) (q :: qs).

Lemma inv5_length sh k ts cs fs ss qs : inv5 sh k ts cs fs ss qs ->
  length cs = length ts /\ length fs = length ts /\ length ss = length ts /\ length qs = length ts.
Proof. induction 1; cbn [length]; lia. Qed.

Lemma inv5_init : forall ts cs fs,
  Forall3 (fun t c f => type_ok t = true /\ Forall (fun v => in_range t v = true) c /\
                        f = spec_stream_bytes t c) ts cs fs ->
  inv5 true 0 ts cs fs (map (fun _ => bsr_new) ts) (map (fun _ => []) ts).
Proof.
  induction 1 as [|t c f ts cs fs (Ht & Hc & ->) HF IH]; cbn [map]; constructor.
  - apply rec_inv_init; assumption.
  - exact IH.
Qed.

Lemma inv5_append sh k : forall ts cs fs ss qs, inv5 sh k ts cs fs ss qs ->
  forall chunks fs', Forall3 (fun f c f' => f = c ++ f') fs chunks fs' ->
  Forall bytes_ok chunks ->
  exists ss1, Forall3 (fun s c s1 => bsr_append s c = Ok s1) ss chunks ss1 /\
              inv5 false k ts cs fs' ss1 qs.
Proof.
  induction 1 as [|t c f s q ts cs fs ss qs Hr Hi IH]; intros chunks fs' HF Hok.
  - inversion HF; subst. exists []. split; constructor.
  - inversion HF as [|? ch f' ? chs fs'' Hf HF']; subst.
    inversion Hok as [|? ? Hc Hok']; subst.
    destruct (rec_append _ _ _ _ _ _ _ _ Hr Hc) as (s1 & Ha & Hr1).
    destruct (IH _ _ HF' Hok') as (ss1 & HF1 & Hi1).
    exists (s1 :: ss1). split; constructor; assumption.
Qed.

(** which queue lengths the minimum ranges over *)
Definition sized_ge (a : N) (ts : list dtype) (qs : list (list rvalue)) : Prop :=
  Forall2 (fun t q => sized t = true -> a <= len q) ts qs.
Definition zero_ge (m : N) (ts : list dtype) (qs : list (list rvalue)) : Prop :=
  Forall2 (fun t q => sized t = false -> m <= len q) ts qs.
Fixpoint attained (m : N) (ts : list dtype) (qs : list (list rvalue)) : Prop :=
  match ts, qs with
  | t :: ts', q :: qs' => (sized t = true /\ len q = m) \/ attained m ts' qs'
  | _, _ => False
  end.

Lemma inv5_parse k : forall ts cs fs ss1 qs, inv5 false k ts cs fs ss1 qs -> forall acc,
  exists acc', min_queue_size ts ss1 qs acc = Ok acc' /\
    (acc' = None -> acc = None /\ Forall (fun t => sized t = false) ts) /\
    (forall a, acc = Some a -> exists a', acc' = Some a' /\ a' <= a) /\
    forall m, exists ss2 qs2, parse_streams ts ss1 qs m = Ok (ss2, qs2) /\
      inv5 true k ts cs fs ss2 qs2 /\ zero_ge m ts qs2 /\
      forall a', acc' = Some a' -> sized_ge a' ts qs2 /\ (acc = Some a' \/ attained a' ts qs2).
Proof.
  induction 1 as [|t c f s q ts cs fs ss qs Hr Hi IH]; intros acc.
  - exists acc. split; [reflexivity|]. split; [intros ->; split; [reflexivity|constructor]|].
    split; [intros a ->; exists a; split; [reflexivity|lia]|].
    intros m. exists [], []. split; [reflexivity|]. split; [constructor|]. split; [constructor|].
    intros a' ->. split; [constructor|left; reflexivity].
  - pose proof Hr as (Ht & _). pose proof (bit_size_spec t Ht) as Hb.
    rewrite min_queue_size_cons. destruct (sized t) eqn:Hs.
    + pose proof (sized_pos t Hs) as Hp.
      destruct (bit_size t =? 0) eqn:E0; [lia|].
      destruct (rec_unpack _ _ _ _ _ _ Hr Hs) as (s2 & vs & av & Hav & Hit & Hu & Hr2).
      rewrite Hav. cbv zeta. rewrite Hit.
      replace (len vs + len q) with (len (q ++ vs)) by (rewrite qlen_app; lia).
      set (it := len (q ++ vs)).
      set (acc1 := match acc with None => Some it | Some m => Some (if it <? m then it else m) end).
      destruct (IH acc1) as (acc' & Hm & Hnone & Hsome & Hparse).
      assert (Hacc1 : exists x, acc1 = Some x /\ x <= it /\ (x = it \/ acc = Some x) /\
                                forall a, acc = Some a -> x <= a).
      { subst acc1. destruct acc as [a0|].
        - destruct (it <? a0) eqn:E.
          + exists it. split; [reflexivity|]. split; [lia|]. split; [left; reflexivity|].
            intros a [= <-]. lia.
          + exists a0. split; [reflexivity|]. split; [lia|]. split; [right; reflexivity|].
            intros a [= <-]. lia.
        - exists it. split; [reflexivity|]. split; [lia|]. split; [left; reflexivity|].
          intros a [=]. }
      destruct Hacc1 as (x & Hx & Hxit & Hxor & Hxle).
      destruct (Hsome x Hx) as (a1 & Ha1 & Ha1x).
      exists acc'. split; [exact Hm|]. split; [|split].
      * intros Hn. destruct (Hnone Hn) as [Hn1 _]. congruence.
      * intros a Ha. exists a1. split; [exact Ha1|]. specialize (Hxle a Ha). lia.
      * intros m. destruct (Hparse m) as (ss2 & qs2 & Hp2 & Hi2 & Hz2 & Hatt).
        exists (s2 :: ss2), ((q ++ vs) :: qs2). split; [|split; [|split]].
        -- rewrite parse_streams_cons, (one_rec_sized t s q m s2 vs Ht Hs Hu), Hp2. reflexivity.
        -- constructor; assumption.
        -- constructor; [intros Hc; congruence|exact Hz2].
        -- intros a' Ha'. rewrite Ha1 in Ha'. injection Ha' as <-.
           destruct (Hatt a1 Ha1) as [Hsg Hor]. split.
           ++ constructor; [intros _; fold it; lia|exact Hsg].
           ++ cbn [attained]. destruct Hor as [Hor|Hor]; [|right; right; exact Hor].
              rewrite Hx in Hor. injection Hor as <-.
              destruct Hxor as [->|Hxor]; [right; left; split; [exact Hs|reflexivity]|left; exact Hxor].
    + assert (E0 : (bit_size t =? 0) = true) by (unfold sized in Hs; lia). rewrite E0.
      destruct (IH acc) as (acc' & Hm & Hnone & Hsome & Hparse).
      exists acc'. split; [exact Hm|]. split; [|split].
      * intros Hn. destruct (Hnone Hn) as [Hn1 Hn2]. split; [exact Hn1|constructor; assumption].
      * exact Hsome.
      * intros m. destruct (Hparse m) as (ss2 & qs2 & Hp2 & Hi2 & Hz2 & Hatt).
        exists (s :: ss2), ((q ++ repeat (zval t) (N.to_nat (m - len q))) :: qs2).
        split; [|split; [|split]].
        -- rewrite parse_streams_cons, (one_rec_zero t s q m Ht Hs), Hp2. reflexivity.
        -- constructor; [apply (rec_fill false); assumption|exact Hi2].
        -- constructor; [|exact Hz2]. intros _. rewrite qlen_app, qlen_repeat. lia.
        -- intros a' Ha'. destruct (Hatt a' Ha') as [Hsg Hor]. split.
           ++ constructor; [intros Hc; congruence|exact Hsg].
           ++ cbn [attained]. destruct Hor as [Hor|Hor]; [left; exact Hor|right; right; exact Hor].
Qed.

(** * [qr_available] *)

Definition fmin (r : list (list rvalue)) (a : N) : N := fold_left (fun m y => N.min m (len y)) r a.

Lemma fmin_le : forall r a, fmin r a <= a /\ forall y, In y r -> fmin r a <= len y.
Proof.
  induction r as [|x r IH]; intros a; cbn [fmin fold_left].
  - split; [lia|intros y []].
  - fold (fmin r (N.min a (len x))). destruct (IH (N.min a (len x))) as [H1 H2].
    split; [lia|]. intros y [<-|Hy]; [lia|apply H2; exact Hy].
Qed.

Lemma fmin_ge m : forall r a, m <= a -> (forall y, In y r -> m <= len y) -> m <= fmin r a.
Proof.
  induction r as [|x r IH]; intros a Ha Hr; cbn [fmin fold_left]; [exact Ha|].
  fold (fmin r (N.min a (len x))). apply IH.
  - specialize (Hr x (or_introl eq_refl)). lia.
  - intros y Hy. apply Hr. right. exact Hy.
Qed.

Lemma avail_le q y : In y (q_queues q) -> qr_available q <= len y.
Proof.
  unfold qr_available. destruct (q_queues q) as [|x r]; [intros []|].
  fold (fmin r (len x)). destruct (fmin_le r (len x)) as [H1 H2].
  intros [<-|Hy]; [exact H1|apply H2; exact Hy].
Qed.

Lemma avail_ge q m : q_queues q <> [] -> (forall y, In y (q_queues q) -> m <= len y) ->
  m <= qr_available q.
Proof.
  unfold qr_available. destruct (q_queues q) as [|x r]; [congruence|]. intros _ H.
  fold (fmin r (len x)). apply fmin_ge.
  - apply H. left. reflexivity.
  - intros y Hy. apply H. right. exact Hy.
Qed.

Lemma attained_In m : forall ts qs, attained m ts qs -> exists q, In q qs /\ len q = m.
Proof.
  induction ts as [|t ts IH]; intros qs H; [destruct H|].
  destruct qs as [|q qs]; [destruct H|]. cbn [attained] in H.
  destruct H as [[_ H]|H].
  - exists q. split; [left; reflexivity|exact H].
  - destruct (IH _ H) as (y & Hy & Hl). exists y. split; [right; exact Hy|exact Hl].
Qed.

Lemma avail_char ts ss qs m : Forall (fun q => m <= len q) qs -> attained m ts qs ->
  qr_available (mkQr ts ss qs) = m.
Proof.
  intros Hall Hatt. destruct (attained_In _ _ _ Hatt) as (y & Hy & Hl).
  pose proof (avail_le (mkQr ts ss qs) y Hy) as H1.
  assert (H2 : m <= qr_available (mkQr ts ss qs)).
  { apply avail_ge; cbn [q_queues].
    - intros ->. destruct Hy.
    - rewrite Forall_forall in Hall. exact Hall. }
  lia.
Qed.

Lemma ge_all a ts qs : sized_ge a ts qs -> zero_ge a ts qs -> Forall (fun q => a <= len q) qs.
Proof.
  unfold sized_ge, zero_ge. intros H1. induction H1 as [|t q ts qs Hs H1 IH]; intros H2; [constructor|].
  inversion H2 as [|? ? ? ? Hz H2']; subst. constructor; [|apply IH; exact H2'].
  destruct (sized t); auto.
Qed.

(** * Popping one point *)

Lemma inv5_pop sh k : forall ts cs fs ss qs, inv5 sh k ts cs fs ss qs ->
  Forall (fun c => (k < length c)%nat) cs -> Forall (fun q => q <> []) qs ->
  exists vs qs', pop_fronts qs = Ok (vs, qs') /\ inv5 sh (S k) ts cs fs ss qs' /\
    Forall2 (fun c v => v = nth k c (VInteger 0)) cs vs /\
    Forall2 (fun q q' => len q = 1 + len q') qs qs'.
Proof.
  induction 1 as [|t c f s q ts cs fs ss qs Hr Hi IH]; intros Hk Hne.
  - exists [], []. split; [reflexivity|]. split; [constructor|]. split; constructor.
  - inversion Hk as [|? ? Hk0 Hk']; subst. inversion Hne as [|? ? Hq0 Hne']; subst.
    destruct q as [|v q]; [congruence|].
    destruct (rec_pop _ _ _ _ _ _ _ _ (VInteger 0) Hr Hk0) as [Hv Hr'].
    destruct (IH Hk' Hne') as (vs & qs' & Hp & Hi' & HF1 & HF2).
    exists (v :: vs), (q :: qs'). cbn [pop_fronts]. rewrite Hp.
    split; [reflexivity|]. split; [constructor; assumption|].
    split; constructor; try assumption. apply qlen_cons.
Qed.

Lemma attained_pop m : forall ts qs qs', attained m ts qs ->
  Forall2 (fun q q' => len q = 1 + len q') qs qs' -> attained (m - 1) ts qs'.
Proof.
  induction ts as [|t ts IH]; intros qs qs' H HF; [destruct H|].
  destruct qs as [|q qs]; [destruct H|]. inversion HF as [|? q' ? qs'' Hq HF']; subst.
  cbn [attained] in *. destruct H as [[H1 H2]|H].
  - left. split; [exact H1|lia].
  - right. apply (IH _ _ H HF').
Qed.

(** * Progress: with nothing more to come, the sized queues still hold the
    remaining values of their columns *)
Lemma inv5_progress k : forall ts cs fs ss qs, inv5 true k ts cs fs ss qs ->
  Forall (fun f => f = []) fs -> Forall (fun c => (k < length c)%nat) cs ->
  Forall2 (fun t q => sized t = true -> q <> []) ts qs.
Proof.
  induction 1 as [|t c f s q ts cs fs ss qs Hr Hi IH]; intros Hf Hk; [constructor|].
  inversion Hf as [|? ? Hf0 Hf']; subst. inversion Hk as [|? ? Hk0 Hk']; subst.
  constructor; [|apply IH; assumption].
  intros Hs ->. pose proof (rec_progress _ _ _ _ Hr Hs). lia.
Qed.

Lemma attained_nonzero m : forall ts qs, attained m ts qs ->
  Forall2 (fun t q => sized t = true -> q <> []) ts qs -> m <> 0.
Proof.
  induction ts as [|t ts IH]; intros qs H HF; [destruct H|].
  destruct qs as [|q qs]; [destruct H|]. inversion HF as [|? ? ? ? Hq HF']; subst.
  cbn [attained] in H. destruct H as [[H1 H2]|H]; [|apply (IH _ H HF')].
  specialize (Hq H1). intros ->. apply qlen_0_nil in H2. congruence.
Qed.
