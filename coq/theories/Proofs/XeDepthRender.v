(** [xml::check_depth] accepts every rendering (any lexical choices) of a well-formed tree whose
    elements are nested at most 256 deep. *)
From Coq Require Import List Bool NArith Lia ZArith ZifyN ZifyBool.
From E57 Require Import Base.Prelude Model.XmlTree Model.XmlDepth Spec.XmlRender Spec.XeTreeDepth
  Proofs.XeDepth Proofs.XeDepthPieces Proofs.XeDepthTags.
Import ListNotations.

(** * Induction over trees *)
Fixpoint xnode_ind2 (P : xnode -> Prop)
    (Ht : forall t, P (XText t)) (Hc : forall t, P (XComment t)) (Hp : forall t v, P (XPI t v))
    (He : forall nm a sc ch, Forall P ch -> P (XElem nm a sc ch)) (n : xnode) : P n :=
  match n with
  | XText t => Ht t
  | XComment t => Hc t
  | XPI t v => Hp t v
  | XElem nm a sc ch =>
      He nm a sc ch ((fix go (l : list xnode) : Forall P l :=
                        match l with
                        | [] => Forall_nil P
                        | x :: r => Forall_cons x (xnode_ind2 P Ht Hc Hp He x) (go r)
                        end) ch)
  end.

Lemma node_depth_elem nm a sc ch : node_depth (XElem nm a sc ch) = 1 + max_depth ch.
Proof. reflexivity. Qed.

(** * The children of an element, as a function *)
Fixpoint render_children (c : render_choices) (path : list nat) (sc : list xnsdecl) (nm : xname) (attrs : list xattr)
    (i : nat) (l : list xnode) : xstr :=
  match l with
  | [] => []
  | x :: r => render_node c (path ++ [i]) (Some sc) nm attrs x ++ render_children c path sc nm attrs (S i) r
  end.

Definition elem_tag (nm : xname) (sc : list xnsdecl) : xstr :=
  qname (or_default (elem_prefix sc (xn_ns nm)) None) (xn_local nm).

Lemma render_node_elem c path P pn pa nm attrs sc ch :
  render_node c path P pn pa (XElem nm attrs sc ch) =
  let ec := rc_elem c path (XElem nm attrs sc ch) in
  let tag := elem_tag nm sc in
  60 :: tag ++ render_items ec sc 0%nat (merge_items (ec_merge ec) attrs (or_default (own_decls P sc) [])) ++
  match ch with
  | [] => if ec_self_close ec then [47; 62] else 62 :: 60 :: 47 :: tag ++ blanks (ec_ws_close ec) ++ [62]
  | _ => 62 :: render_children c path sc nm attrs 0%nat ch ++ 60 :: 47 :: tag ++ blanks (ec_ws_close ec) ++ [62]
  end.
Proof.
  cbn [render_node]. cbv zeta. unfold elem_tag. f_equal. f_equal. f_equal.
  destruct ch as [|x r]; [reflexivity|]. f_equal. f_equal.
  cbn [render_children]. f_equal.
  match goal with |- ?f 1%nat r = _ =>
    assert (G : forall l i, f i l = render_children c path sc nm attrs i l) end.
  { intros l. induction l as [|y l IH]; intros i; [reflexivity|]. cbn [render_children]. rewrite <- IH. reflexivity. }
  apply G.
Qed.

(** * Well-formedness, taken apart *)
Lemma wf_elem P nm attrs sc ch :
  wf_node P (XElem nm attrs sc ch) = true ->
  ncname (xn_local nm) = true /\ scope_ok P sc = true /\
  (exists p, elem_prefix sc (xn_ns nm) = Some p) /\
  forallb (attr_ok sc) attrs = true /\ forallb (wf_node (Some sc)) ch = true.
Proof.
  cbn [wf_node]. intros H.
  repeat (apply andb_true_iff in H; destruct H as [H ?]).
  repeat split; try assumption.
  destruct (elem_prefix sc (xn_ns nm)); [eauto|discriminate].
Qed.

Lemma decl_prefix_ok d : decl_ok d = true -> prefix_ok (xns_prefix d) = true.
Proof.
  unfold decl_ok, prefix_ok. destruct (xns_prefix d) as [p|]; [|reflexivity]. intros H.
  repeat (apply andb_true_iff in H; destruct H as [H ?]). exact H.
Qed.

Lemma elem_prefix_ok sc ns p : forallb decl_ok sc = true -> elem_prefix sc ns = Some p -> prefix_ok p = true.
Proof.
  intros Hs. unfold elem_prefix. destruct ns as [u|].
  - destruct (find _ sc) as [d|] eqn:E; [|discriminate]. intros H. inversion H; subst.
    apply find_some in E. destruct E as [Hin _]. rewrite forallb_forall in Hs. apply decl_prefix_ok. auto.
  - destruct (has_prefix None sc); [discriminate|]. intros H. inversion H. reflexivity.
Qed.

Lemma attr_prefix_ok sc ns p : forallb decl_ok sc = true -> attr_prefix sc ns = Some p -> prefix_ok p = true.
Proof.
  intros Hs. unfold attr_prefix. destruct ns as [u|]; [|intros H; inversion H; reflexivity].
  destruct (xstr_eqb u NS_XML_URI); [intros H; inversion H; reflexivity|].
  destruct (find _ sc) as [d|] eqn:E; [|discriminate]. intros H. inversion H; subst.
  apply find_some in E. destruct E as [Hin _]. rewrite forallb_forall in Hs. apply decl_prefix_ok. auto.
Qed.

Lemma firstn_incl {A} k (l : list A) : incl (firstn k l) l.
Proof.
  revert k. induction l as [|x l IH]; intros [|k]; cbn [firstn]; intros y Hy; try contradiction.
  destruct Hy as [->|Hy]; [left; reflexivity|right; apply (IH k); exact Hy].
Qed.

Lemma find_own_incl fuel : forall k P sc own, find_own k fuel P sc = Some own -> incl own sc.
Proof.
  induction fuel as [|f IH]; intros k P sc own H; cbn [find_own] in H; [discriminate|].
  destruct (scope_eqb _ sc); [|eapply IH; exact H]. inversion H; subst.
  apply firstn_incl.
Qed.

Lemma own_decls_incl P sc own : own_decls P sc = Some own -> incl own sc.
Proof.
  unfold own_decls. destruct P as [Pp|].
  - destruct (scope_eqb sc Pp); [intros H; inversion H; intros x []|apply find_own_incl].
  - intros H. inversion H. apply incl_refl.
Qed.

Lemma merge_items_forall (p : item -> bool) m : forall attrs decls,
  forallb p (map ItAttr attrs) = true -> forallb p (map ItDecl decls) = true ->
  forallb p (merge_items m attrs decls) = true.
Proof.
  induction m as [|b m IH]; intros attrs decls Ha Hd; cbn [merge_items].
  - apply forallb_app'; assumption.
  - destruct b.
    + destruct attrs as [|a ar]; [apply IH; assumption|]. cbn [map forallb] in *.
      apply andb_true_iff in Ha. destruct Ha as [Ha1 Ha2]. rewrite Ha1. apply IH; assumption.
    + destruct decls as [|d dr]; [apply IH; assumption|]. cbn [map forallb] in *.
      apply andb_true_iff in Hd. destruct Hd as [Hd1 Hd2]. rewrite Hd1. apply IH; assumption.
Qed.

Lemma items_ok_of_wf P sc attrs m :
  scope_ok P sc = true -> forallb (attr_ok sc) attrs = true ->
  forallb (item_ok sc) (merge_items m attrs (or_default (own_decls P sc) [])) = true.
Proof.
  intros Hs Ha. unfold scope_ok in Hs. apply andb_true_iff in Hs. destruct Hs as [Hs Ho].
  apply andb_true_iff in Hs. destruct Hs as [Hd _].
  apply merge_items_forall.
  - rewrite forallb_forall in *. intros it Hit. apply in_map_iff in Hit. destruct Hit as (a & <- & Hin).
    specialize (Ha a Hin). unfold attr_ok in Ha.
    repeat (apply andb_true_iff in Ha; destruct Ha as [Ha ?]).
    unfold item_ok, item_name. destruct (attr_prefix sc (xn_ns (xa_name a))) as [p|] eqn:Ep; [|discriminate].
    cbn [or_default]. apply qname_tb; [|exact Ha].
    eapply attr_prefix_ok; [|exact Ep]. apply forallb_forall. exact Hd.
  - destruct (own_decls P sc) as [own|] eqn:Eo; [|reflexivity]. cbn [or_default].
    pose proof (own_decls_incl _ _ _ Eo) as Hi.
    rewrite forallb_forall in *. intros it Hit. apply in_map_iff in Hit. destruct Hit as (d & <- & Hin).
    pose proof (decl_prefix_ok d (Hd d (Hi d Hin))) as Hp.
    unfold item_ok, item_name. destruct (xns_prefix d) as [p|]; [|reflexivity].
    apply forallb_app'; [reflexivity|]. cbn [forallb]. cbn [prefix_ok] in Hp. rewrite (ncname_tb p Hp). reflexivity.
Qed.

(** * One step on a start tag *)
Lemma starts_snd a c p t0 x : (c =? t0) = false -> starts (a :: c :: p) (a :: t0 :: x) = false.
Proof. intros H. cbn [starts]. rewrite N.eqb_refl, H. reflexivity. Qed.

Lemma step_start d t0 x :
  name_start_byte t0 = true ->
  depth_step d (60 :: t0 :: x) =
  match scan_tag None 60 (t0 :: x) with
  | Some (prev, rest) =>
      if prev =? 47 then Next d rest else if MAX_XML_DEPTH <? d + 1 then Stop false else Next (d + 1) rest
  | None => if MAX_XML_DEPTH <? d + 1 then Stop false else Next (d + 1) []
  end.
Proof.
  intros Hn. unfold depth_step. change (negb (60 =? 60)) with false. cbv iota.
  assert (H33 : (33 =? t0) = false) by (unfold name_start_byte, in_rng in Hn; lia).
  assert (H63 : (63 =? t0) = false) by (unfold name_start_byte, in_rng in Hn; lia).
  assert (H47 : (47 =? t0) = false) by (unfold name_start_byte, in_rng in Hn; lia).
  unfold S_COMMENT, S_CDATA, S_PI, S_BANG, S_CLOSE.
  rewrite !(starts_snd 60 33) by exact H33. rewrite (starts_snd 60 63) by exact H63. rewrite (starts_snd 60 47) by exact H47.
  destruct (scan_tag None 60 (t0 :: x)) as [[prev rest]|]; reflexivity.
Qed.

Lemma step_start_tag d tag y t0 tag' :
  tag = t0 :: tag' -> name_start_byte t0 = true ->
  depth_step d (60 :: tag ++ y) =
  match scan_tag None 60 (tag ++ y) with
  | Some (prev, rest) =>
      if prev =? 47 then Next d rest else if MAX_XML_DEPTH <? d + 1 then Stop false else Next (d + 1) rest
  | None => if MAX_XML_DEPTH <? d + 1 then Stop false else Next (d + 1) []
  end.
Proof. intros -> H. apply step_start. exact H. Qed.

Lemma gt_false d : d + 1 <= 256 -> (MAX_XML_DEPTH <? d + 1) = false.
Proof. unfold MAX_XML_DEPTH. lia. Qed.

(** the end tag *)
Lemma scan_end_tag d tag w rest :
  forallb tb tag = true -> scan (d + 1) (60 :: 47 :: tag ++ blanks w ++ [62] ++ rest) = scan d rest.
Proof.
  intros Ht. rewrite scan_step, step_close.
  replace (tag ++ blanks w ++ [62] ++ rest) with ((tag ++ blanks w) ++ 62 :: rest) by (rewrite <- app_assoc; reflexivity).
  unfold S_GT. rewrite skip_past_byte.
  - f_equal. lia.
  - apply forallb_app'; [apply tb_no_gt; exact Ht|apply blanks_no_gt].
Qed.

(** * The main induction *)
Definition scan_inert (n : xnode) : Prop :=
  forall c path P pn pa d rest,
    wf_node P n = true -> d + node_depth n <= 256 ->
    scan d (render_node c path P pn pa n ++ rest) = scan d rest.

Lemma scan_children c path sc nm attrs ch :
  Forall scan_inert ch -> forall i d rest,
  forallb (wf_node (Some sc)) ch = true -> d + max_depth ch <= 256 ->
  scan d (render_children c path sc nm attrs i ch ++ rest) = scan d rest.
Proof.
  induction 1 as [|x r Hx Hr IH]; intros i d rest Hw Hd; [reflexivity|].
  cbn [forallb] in Hw. apply andb_true_iff in Hw. destruct Hw as [Hwx Hwr].
  cbn [max_depth fold_right] in Hd. fold (max_depth r) in Hd.
  cbn [render_children]. rewrite <- app_assoc. rewrite Hx; [|exact Hwx|lia]. apply IH; [exact Hwr|lia].
Qed.

Lemma comment_ok_parts t : comment_ok t = true -> has_sub [45; 45] t = false /\ ends45 t = false.
Proof.
  unfold comment_ok, ends45. intros H. apply andb_true_iff in H. destruct H as [H He].
  apply andb_true_iff in H. destruct H as [_ Hs]. apply negb_true_iff in Hs. apply negb_true_iff in He. tauto.
Qed.

Lemma ncname_no p0 s : (forall b, name_byte b = true -> (b =? p0) = false) -> ncname s = true ->
  forallb (fun x => negb (x =? p0)) s = true.
Proof.
  intros Hp H. destruct s as [|b r]; [discriminate|]. cbn [ncname] in H. apply andb_true_iff in H. destruct H as [Hb Hr].
  cbn [forallb]. apply andb_true_iff. split.
  - apply negb_true_iff. apply Hp. unfold name_byte. rewrite Hb. reflexivity.
  - rewrite forallb_forall in *. intros x Hx. apply negb_true_iff. apply Hp. auto.
Qed.

Lemma pi_content_ok tg v : pi_ok tg v = true ->
  has_sub [63; 62] (tg ++ match v with Some v => 32 :: v | None => [] end) = false.
Proof.
  unfold pi_ok. intros H. apply andb_true_iff in H. destruct H as [H Hv]. apply andb_true_iff in H. destruct H as [Hn _].
  rewrite has_sub_app_clean.
  - destruct v as [v|]; [|reflexivity]. apply andb_true_iff in Hv. destruct Hv as [Hv _].
    apply andb_true_iff in Hv. destruct Hv as [_ Hs]. apply negb_true_iff in Hs.
    cbn [has_sub sub_at]. change (63 =? 32) with false. cbn [andb orb]. exact Hs.
  - apply ncname_no; [|exact Hn]. intros b Hb. unfold name_byte, name_start_byte, in_rng in Hb. lia.
Qed.

Theorem scan_node n : scan_inert n.
Proof.
  induction n as [t|t|tg v|nm attrs sc ch IH] using xnode_ind2; intros c path P pn pa d rest Hw Hd.
  - cbn [render_node]. apply scan_text.
  - cbn [render_node wf_node] in *. rewrite <- !app_assoc.
    destruct (comment_ok_parts t Hw). apply scan_comment; assumption.
  - cbn [render_node wf_node] in *. rewrite <- !app_assoc.
    rewrite (app_assoc tg _ (PI_CLOSE ++ rest)).
    apply scan_pi. apply pi_content_ok. exact Hw.
  - destruct (wf_elem _ _ _ _ _ Hw) as (Hn & Hs & (pfx & Hpfx) & Ha & Hch).
    rewrite node_depth_elem in Hd.
    assert (Hdecl : forallb decl_ok sc = true).
    { unfold scope_ok in Hs. apply andb_true_iff in Hs. destruct Hs as [Hs _]. apply andb_true_iff in Hs. tauto. }
    pose proof (elem_prefix_ok sc _ _ Hdecl Hpfx) as Hp.
    rewrite render_node_elem. cbv zeta.
    set (ec := rc_elem c path (XElem nm attrs sc ch)).
    assert (Htag : elem_tag nm sc = qname pfx (xn_local nm)) by (unfold elem_tag; rewrite Hpfx; reflexivity).
    pose proof (qname_tb pfx _ Hp Hn) as Htb. rewrite <- Htag in Htb.
    destruct (qname_head pfx _ Hp Hn) as (t0 & tag' & Et & Ht0). rewrite <- Htag in Et.
    pose proof (items_ok_of_wf P sc attrs (ec_merge ec) Hs Ha) as Hitems.
    set (items := merge_items (ec_merge ec) attrs (or_default (own_decls P sc) [])) in *.
    (* the start tag as the scanner sees it *)
    assert (Hscan : forall tail, exists prev', prev' <> 47 /\
              scan_tag None 60 (elem_tag nm sc ++ render_items ec sc 0%nat items ++ tail) = scan_tag None prev' tail).
    { intros tail. rewrite scan_tag_plain by exact Htb.
      apply scan_items; [|exact Hitems]. apply lastb_ok; [lia|exact Htb]. }
    cbn [app]. rewrite <- !app_assoc.
    rewrite scan_step. rewrite (step_start_tag d _ _ t0 tag' Et Ht0).
    destruct ch as [|x r].
    + destruct (ec_self_close ec).
      * destruct (Hscan ([47; 62] ++ rest)) as (prev' & Hp' & E). rewrite E.
        change (scan_tag None prev' ([47; 62] ++ rest)) with (Some (47, rest)). reflexivity.
      * destruct (Hscan ((62 :: 60 :: 47 :: elem_tag nm sc ++ blanks (ec_ws_close ec) ++ [62]) ++ rest)) as (prev' & Hp' & E).
        rewrite E. cbn [app].
        change (scan_tag None prev' (62 :: 60 :: 47 :: (elem_tag nm sc ++ blanks (ec_ws_close ec) ++ [62]) ++ rest))
          with (Some (prev', 60 :: 47 :: (elem_tag nm sc ++ blanks (ec_ws_close ec) ++ [62]) ++ rest)).
        cbv beta iota. apply N.eqb_neq in Hp'. rewrite Hp'. cbn [max_depth fold_right] in Hd. rewrite gt_false by lia.
        rewrite <- !app_assoc. apply scan_end_tag. exact Htb.
    + set (chl := x :: r) in *.
      destruct (Hscan ((62 :: render_children c path sc nm attrs 0%nat chl ++ 60 :: 47 :: elem_tag nm sc ++ blanks (ec_ws_close ec) ++ [62]) ++ rest))
        as (prev' & Hp' & E).
      rewrite E. cbn [app].
      match goal with |- context[scan_tag None prev' (62 :: ?y)] => change (scan_tag None prev' (62 :: y)) with (Some (prev', y)) end.
      cbv beta iota. apply N.eqb_neq in Hp'. rewrite Hp'. rewrite gt_false by lia.
      rewrite <- !app_assoc. rewrite (scan_children c path sc nm attrs chl IH); [|exact Hch|lia].
      cbn [app]. rewrite <- !app_assoc. apply scan_end_tag. exact Htb.
Qed.

(** * Documents *)
Lemma blanks_no_lt w : forallb (fun b => negb (b =? 60)) (blanks w) = true.
Proof.
  unfold blanks. induction w as [|b w IH]; [reflexivity|]. cbn [filter]. destruct (is_blank b) eqn:E; [|exact IH].
  cbn [forallb]. rewrite IH, andb_true_r. unfold is_blank in *. lia.
Qed.

Lemma scan_doc_nodes c l : forall i d rest,
  forallb (wf_node None) l = true -> d + max_depth l <= 256 ->
  scan d (render_doc_nodes c i l ++ rest) = scan d rest.
Proof.
  induction l as [|x r IH]; intros i d rest Hw Hd; cbn [render_doc_nodes].
  - apply scan_no_lt. apply blanks_no_lt.
  - cbn [forallb] in Hw. apply andb_true_iff in Hw. destruct Hw as [Hx Hr].
    cbn [max_depth fold_right] in Hd. fold (max_depth r) in Hd.
    rewrite <- !app_assoc. rewrite scan_no_lt by apply blanks_no_lt.
    rewrite (scan_node x); [|exact Hx|lia]. apply IH; [exact Hr|lia].
Qed.

Definition DECL_BODY : xstr :=
  [120;109;108;32;118;101;114;115;105;111;110;61;34;49;46;48;34;32;101;110;99;111;100;105;110;103;61;34;85;84;70;45;56;34].

Lemma scan_decl d dc rest : scan d (render_decl dc ++ rest) = scan d rest.
Proof.
  destruct dc; [reflexivity|]. cbn [render_decl].
  change DECL_STD with (PI_OPEN ++ DECL_BODY ++ PI_CLOSE). rewrite <- !app_assoc.
  apply scan_pi. reflexivity.
Qed.

Theorem xml_depth_ok_render_proof c d :
  wf_doc d = true -> tree_depth d <= 256 -> xml_depth_ok (render c d) = true.
Proof.
  intros Hw Hd. rewrite xml_depth_ok_scan. unfold render.
  unfold wf_doc in Hw. repeat (apply andb_true_iff in Hw; destruct Hw as [Hw ?]).
  rewrite <- (app_nil_r (render_doc_nodes c 0%nat (xd_children d))). rewrite <- ?app_assoc.
  assert (Hb : scan 0 ((if rc_bom c then BOM else []) ++ render_decl (rc_decl c) ++ render_doc_nodes c 0%nat (xd_children d) ++ []) =
               scan 0 (render_decl (rc_decl c) ++ render_doc_nodes c 0%nat (xd_children d) ++ [])).
  { destruct (rc_bom c); [|reflexivity]. apply scan_no_lt. reflexivity. }
  rewrite Hb, scan_decl. rewrite scan_doc_nodes; [reflexivity|exact Hw|]. unfold tree_depth in Hd. lia.
Qed.
