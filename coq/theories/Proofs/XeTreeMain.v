(** Reader half of the metadata round trip (C04):
      meta_ok m -> float_oracle_ok pf64 pf32 m -> extract_all pf64 pf32 fdiv (tree_of m) = Ok (reader_view m)
    e57Root is the root element; data3D and images2D are looked up among its children. *)
From Coq Require Import Strings.String.
From Coq Require Import List Bool NArith ZArith Lia.
From E57 Require Import Base.Prelude Model.Meta Model.MetaFile Model.XmlTree Model.XmlExtract
  Spec.MetaTree Spec.XeMetaOk Proofs.XeLemmas Proofs.XeTreeDec Proofs.XeTreeFind Proofs.XeTreeStruct
  Proofs.XeTreePc Proofs.XeTreeImg.
Import ListNotations.

Local Notation "'B' s" := (ltac:(let v := eval vm_compute in (bytes_of_string s%string) in exact v))
  (at level 0, s at level 0, only parsing).

Lemma Forall_opt1 {A} (P : xnode -> Prop) (f : A -> xnode) o : (forall v, P (f v)) -> Forall P (opt1 f o).
Proof. intros H. destruct o; cbn; constructor; auto. Qed.

Lemma Forall_map_nf {A} (P : xnode -> Prop) (f : A -> xnode) l : (forall v, In v l -> P (f v)) -> Forall P (map f l).
Proof. intros H. apply Forall_forall. intros x Hx. apply in_map_iff in Hx. destruct Hx as (v & <- & Hv). auto. Qed.

Lemma extensions_of_scope_of exts : extensions_of_scope (scope_of exts) = exts.
Proof.
  unfold scope_of, extensions_of_scope. rewrite flat_map_app. cbn [flat_map xns_prefix app].
  rewrite app_nil_r. induction exts as [|e l IH]; [reflexivity|]. cbn [map flat_map xns_prefix xns_uri app].
  rewrite IH. destruct e; reflexivity.
Qed.

Section Main.
Variables pf64 pf32 : xstr -> option N.
Variable fdiv : N -> Z -> N.

Lemma pointclouds_of_list exts l :
  forallb (pc_ok exts) l = true -> forallb (pc_fo pf64 pf32) l = true ->
  map_res (pointcloud_from_node pf64 pf32) (map (t_pointcloud (scope_of exts) exts) l) = Ok l.
Proof.
  induction l as [|pc l IH]; cbn [forallb map map_res]; intros Hk Hf; [reflexivity|].
  apply andb_true_iff in Hk. destruct Hk as [Hk1 Hk2]. apply andb_true_iff in Hf. destruct Hf as [Hf1 Hf2].
  rewrite (pointcloud_of pf64 pf32 exts pc Hk1 Hf1), (IH Hk2 Hf2). reflexivity.
Qed.

Lemma images_of_list sc l :
  forallb im_ok l = true -> forallb (im_fo pf64) l = true ->
  map_res (image_from_node pf64 fdiv) (map (t_image sc) l) = Ok l.
Proof.
  induction l as [|i l IH]; cbn [forallb map map_res]; intros Hk Hf; [reflexivity|].
  apply andb_true_iff in Hk. destruct Hk as [Hk1 Hk2]. apply andb_true_iff in Hf. destruct Hf as [Hf1 Hf2].
  rewrite (image_of sc pf64 fdiv i Hk1 Hf1), (IH Hk2 Hf2). reflexivity.
Qed.

Lemma vector_children sc name {A} (g : A -> xnode) (l : list A) :
  (forall v, is_vector_child (B"Structure") (g v) = true) ->
  filter (is_vector_child (B"Structure")) (children (t_vector sc name true (map g l))) = map g l.
Proof.
  intros H. unfold t_vector, el. cbn [children]. apply filter_lines_all; [reflexivity|].
  intros x Hx. apply in_map_iff in Hx. destruct Hx as (v & <- & _). apply H.
Qed.

Theorem extract_tree_of_proof m :
  meta_ok m = true -> float_oracle_ok pf64 pf32 m = true ->
  extract_all pf64 pf32 fdiv (tree_of m) = Ok (reader_view m).
Proof.
  intros Hk Hf. unfold meta_ok in Hk. unfold float_oracle_ok in Hf. split_and.
  destruct m as [r exts pcs ims]. cbn [fm_root fm_extensions fm_pointclouds fm_images] in *.
  set (sc := scope_of exts).
  set (root := t_root sc exts (mkFileMeta r exts pcs ims)).
  assert (Hroot : e57_root (tree_of (mkFileMeta r exts pcs ims)) = Ok (Some root)) by reflexivity.
  assert (Hd3 : find_child (B"data3D") root = Some (t_vector sc (B"data3D") true (map (t_pointcloud sc exts) pcs)))
    by (unfold root, t_root, t_struct; cbn [fm_root fm_pointclouds fm_images]; fc).
  assert (Hi2 : find_child (B"images2D") root = Some (t_vector sc (B"images2D") true (map (t_image sc) ims)))
    by (unfold root, t_root, t_struct; cbn [fm_root fm_pointclouds fm_images]; fc).
  unfold extract_all.
  (* root *)
  assert (Er : root_from_document pf64 (tree_of (mkFileMeta r exts pcs ims)) = Ok (reader_root r)).
  { unfold root_from_document, req_node. rewrite Hroot. cbn [res_bind opt_case]. unfold root, t_root, t_struct.
    cbn [fm_root fm_pointclouds fm_images].
    match goal with |- context[req_string ?n (B"formatName")] =>
      let E := fresh in eassert (E : find_child (B"formatName") n = _) by fc; rewrite (req_string_of sc _ _ _ _ E); clear E end.
    match goal with |- context[req_string ?n (B"guid")] =>
      let E := fresh in eassert (E : find_child (B"guid") n = _) by fc; rewrite (req_string_of sc _ _ _ _ E); clear E end.
    repeat match goal with |- context[req_int parse_i64 ?n ?nm] =>
      let E := fresh in eassert (E : find_child nm n = _) by fc; rewrite (req_i64_of sc _ _ _ _ E) by assumption; clear E end.
    repeat step_string sc. repeat step_date_time sc pf64. reflexivity. }
  rewrite Er. cbn [res_bind].
  unfold pointclouds_from_document, images_from_document, vec_from_document. rewrite Hroot. cbn [res_bind opt_case].
  rewrite Hd3, Hi2. cbn [opt_case].
  subst root sc. rewrite !vector_children by (intro; reflexivity).
  rewrite pointclouds_of_list, images_of_list by assumption. cbn [res_bind].
  unfold extensions_from_document, tree_of. cbn [root_element xd_children find is_element fm_extensions].
  unfold t_root, t_struct, el. cbn [is_element].
  rewrite extensions_of_scope_of. reflexivity.
Qed.

End Main.

(** the reader half of the metadata round trip *)
Theorem extract_tree_of :
  forall (pf64 pf32 : xstr -> option N) (fdiv : N -> Z -> N) (m : file_meta),
    meta_ok m = true -> float_oracle_ok pf64 pf32 m = true ->
    extract_all pf64 pf32 fdiv (tree_of m) = Ok (reader_view m).
Proof. exact extract_tree_of_proof. Qed.
