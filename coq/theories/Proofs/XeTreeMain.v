(** Reader half of the metadata round trip (C04):
      meta_ok m -> float_oracle_ok pf64 pf32 m -> extract_all pf64 pf32 fdiv (tree_of m) = Ok (reader_view m)
    The lookup of data3D goes through [descendants()], so the proof shows that nothing in front of
    it in document order carries that name; images2D is looked up among the children of e57Root. *)
From Coq Require Import Strings.String.
From Coq Require Import List Bool NArith ZArith Lia.
From E57 Require Import Base.Prelude Model.Meta Model.MetaFile Model.XmlTree Model.XmlExtract
  Spec.MetaTree Spec.XeMetaOk Proofs.XeLemmas Proofs.XeTreeDec Proofs.XeTreeFind Proofs.XeTreeStruct
  Proofs.XeTreePc Proofs.XeTreeImg.
Import ListNotations.

Local Notation "'B' s" := (ltac:(let v := eval vm_compute in (bytes_of_string s%string) in exact v))
  (at level 0, s at level 0, only parsing).

(** * No element named [nm] in a subtree *)
Definition nf (nm : xstr) (n : xnode) : Prop := find (has_tag_name nm) (descendants n) = None.

Lemma find_flat_none nm l : Forall (nf nm) l -> find (has_tag_name nm) (flat_map descendants l) = None.
Proof. induction 1 as [|x l Hx Hl IH]; cbn [flat_map]; [reflexivity|]. rewrite find_app, Hx. exact IH. Qed.

Lemma nf_text nm t : nf nm (XText t).
Proof. reflexivity. Qed.

Lemma nf_elem nm xn attrs sc ch :
  xstr_eqb (xn_local xn) nm = false -> Forall (nf nm) ch -> nf nm (XElem xn attrs sc ch).
Proof.
  intros Hn Hc. unfold nf. rewrite descendants_elem. cbn [find has_tag_name]. rewrite Hn.
  apply find_flat_none. exact Hc.
Qed.

Lemma nf_lines nm l : Forall (nf nm) l -> Forall (nf nm) (lines l).
Proof.
  intros H. unfold lines. constructor; [apply nf_text|].
  induction H as [|x l Hx Hl IH]; cbn [flat_map app]; [constructor|].
  constructor; [exact Hx|]. constructor; [apply nf_text|exact IH].
Qed.

Lemma nf_el nm sc name attrs ch :
  xstr_eqb name nm = false -> Forall (nf nm) ch -> nf nm (el sc name attrs (lines ch)).
Proof. intros Hn Hc. apply nf_elem; [exact Hn|apply nf_lines; exact Hc]. Qed.

Lemma nf_leaf nm sc name attrs t : xstr_eqb name nm = false -> nf nm (el sc name attrs [XText t]).
Proof. intros Hn. apply nf_elem; [exact Hn|]. constructor; [apply nf_text|constructor]. Qed.

Lemma nf_empty nm sc name attrs : xstr_eqb name nm = false -> nf nm (el sc name attrs []).
Proof. intros Hn. apply nf_elem; [exact Hn|constructor]. Qed.

Lemma Forall_opt1 {A} (P : xnode -> Prop) (f : A -> xnode) o : (forall v, P (f v)) -> Forall P (opt1 f o).
Proof. intros H. destruct o; cbn; constructor; auto. Qed.

Lemma Forall_map_nf {A} (P : xnode -> Prop) (f : A -> xnode) l : (forall v, In v l -> P (f v)) -> Forall P (map f l).
Proof. intros H. apply Forall_forall. intros x Hx. apply in_map_iff in Hx. destruct Hx as (v & <- & Hv). auto. Qed.

(** structural decomposition; leaves are closed by computation on the literal names *)
Ltac nf_tac :=
  repeat first
    [ apply nf_text
    | apply Forall_nil
    | apply Forall_cons
    | apply Forall_app; split
    | apply Forall_opt1; intro
    | apply nf_leaf; reflexivity
    | apply nf_empty; reflexivity
    | apply nf_el; [reflexivity|] ].

Section Names.
Variable sc : list xnsdecl.
Variable nm : xstr.

Lemma nf_string name s : xstr_eqb name nm = false -> nf nm (t_string sc name s).
Proof. intros H. apply nf_leaf. exact H. Qed.
Lemma nf_float name f : xstr_eqb name nm = false -> nf nm (t_float sc name f).
Proof. intros H. apply nf_leaf. exact H. Qed.
Lemma nf_int name z : xstr_eqb name nm = false -> nf nm (t_int sc name z).
Proof. intros H. apply nf_leaf. exact H. Qed.
End Names.

(** nothing inside a date is called data3D *)
Section NoImages2D.
Variable exts : list extension.
Let sc := scope_of exts.

Lemma nf_date_time nm name d :
  xstr_eqb name nm = false -> xstr_eqb (B"dateTimeValue") nm = false -> xstr_eqb (B"isAtomicClockReferenced") nm = false ->
  nf nm (t_date_time sc name d).
Proof.
  intros H1 H2 H3. unfold t_date_time, t_struct, t_float. apply nf_el; [exact H1|].
  repeat constructor; apply nf_leaf; assumption.
Qed.

End NoImages2D.

(** * Document level *)
Lemma dffind_cons_hit p x r : p x = true -> dffind p (x :: r) = Some x.
Proof.
  intros H. unfold dffind. cbn [flat_map app]. rewrite find_app.
  destruct x; cbn [descendants find] in *; rewrite ?H; reflexivity.
Qed.

Lemma dffind_cons_skip nm x r : nf nm x -> dffind (has_tag_name nm) (x :: r) = dffind (has_tag_name nm) r.
Proof.
  intros H. unfold dffind. cbn [flat_map app]. rewrite !find_app. rewrite H. reflexivity.
Qed.

Lemma dffind_opt1_skip nm {A} (f : A -> xnode) o :
  (forall v, nf nm (f v)) -> dffind (has_tag_name nm) (opt1 f o) = None.
Proof. intros H. destruct o; cbn [opt1]; [rewrite dffind_cons_skip by apply H|]; reflexivity. Qed.

Lemma extensions_of_scope_of exts : extensions_of_scope (scope_of exts) = exts.
Proof.
  unfold scope_of, extensions_of_scope. rewrite flat_map_app. cbn [flat_map xns_prefix app].
  rewrite app_nil_r. induction exts as [|e l IH]; [reflexivity|]. cbn [map flat_map xns_prefix xns_uri app].
  rewrite IH. destruct e; reflexivity.
Qed.

Lemma find_descendants_struct sc nm name ch :
  find (has_tag_name nm) (descendants (t_struct sc name ch)) =
  if xstr_eqb name nm then Some (t_struct sc name ch) else dffind (has_tag_name nm) ch.
Proof. exact (find_desc_struct sc nm name ch). Qed.

Section Main.
Variables pf64 pf32 : xstr -> option N.
Variable fdiv : N -> Z -> N.

Lemma pointclouds_of_list exts l :
  forallb (pc_ok exts) l = true -> forallb (pc_fo pf64 pf32) l = true ->
  map_res (pointcloud_from_node pf64 pf32) (map (t_pointcloud (scope_of exts) exts) l) = Ok l.
Proof.
  induction l as [|pc l IH]; cbn [forallb map map_res]; intros Hk Hf; [reflexivity|].
  apply andb_true_iff in Hk. destruct Hk as [Hk1 Hk2]. apply andb_true_iff in Hf. destruct Hf as [Hf1 Hf2].
  rewrite (pointcloud_of pf64 pf32 exts pc Hk1 Hf1), (IH Hk2 Hf2). reflexivity.
Qed.

Lemma images_of_list sc l :
  forallb im_ok l = true -> forallb (im_fo pf64) l = true ->
  map_res (image_from_node pf64 fdiv) (map (t_image sc) l) = Ok l.
Proof.
  induction l as [|i l IH]; cbn [forallb map map_res]; intros Hk Hf; [reflexivity|].
  apply andb_true_iff in Hk. destruct Hk as [Hk1 Hk2]. apply andb_true_iff in Hf. destruct Hf as [Hf1 Hf2].
  rewrite (image_of sc pf64 fdiv i Hk1 Hf1), (IH Hk2 Hf2). reflexivity.
Qed.

Lemma vector_children sc name {A} (g : A -> xnode) (l : list A) :
  (forall v, is_vector_child (B"Structure") (g v) = true) ->
  filter (is_vector_child (B"Structure")) (children (t_vector sc name true (map g l))) = map g l.
Proof.
  intros H. unfold t_vector, el. cbn [children]. apply filter_lines_all; [reflexivity|].
  intros x Hx. apply in_map_iff in Hx. destruct Hx as (v & <- & _). apply H.
Qed.

Theorem extract_tree_of_proof m :
  meta_ok m = true -> float_oracle_ok pf64 pf32 m = true ->
  extract_all pf64 pf32 fdiv (tree_of m) = Ok (reader_view m).
Proof.
  intros Hk Hf. unfold meta_ok in Hk. unfold float_oracle_ok in Hf. split_and.
  destruct m as [r exts pcs ims]. cbn [fm_root fm_extensions fm_pointclouds fm_images] in *.
  set (sc := scope_of exts).
  set (root := t_root sc exts (mkFileMeta r exts pcs ims)).
  assert (Hroot : find_doc_desc (B"e57Root") (tree_of (mkFileMeta r exts pcs ims)) = Some root) by reflexivity.
  assert (Hd3 : find_doc_desc (B"data3D") (tree_of (mkFileMeta r exts pcs ims)) =
                Some (t_vector sc (B"data3D") true (map (t_pointcloud sc exts) pcs))).
  { unfold find_doc_desc, doc_descendants, tree_of. cbn [xd_children flat_map fm_extensions]. rewrite app_nil_r.
    unfold t_root. cbn [fm_root fm_pointclouds fm_images]. rewrite find_descendants_struct. eval_ifs.
    rewrite !dffind_app.
    do 4 (rewrite dffind_cons_skip by (apply nf_leaf; reflexivity)).
    change (dffind (has_tag_name (B"data3D")) []) with (@None xnode). cbv beta iota.
    rewrite !dffind_opt1_skip by (intro; first [apply nf_leaf; reflexivity | apply nf_date_time; reflexivity]).
    rewrite dffind_cons_hit by reflexivity. reflexivity. }
  assert (Hi2 : images2d_node (tree_of (mkFileMeta r exts pcs ims)) =
                Some (t_vector sc (B"images2D") true (map (t_image sc) ims))).
  { unfold images2d_node. rewrite Hroot. cbn [opt_case]. unfold root, t_root, t_struct.
    cbn [fm_root fm_pointclouds fm_images]. fc. }
  unfold extract_all.
  (* root *)
  assert (Er : root_from_document pf64 (tree_of (mkFileMeta r exts pcs ims)) = Ok (reader_root r)).
  { unfold root_from_document, req_node. rewrite Hroot. cbn [opt_case]. unfold root, t_root, t_struct.
    cbn [fm_root fm_pointclouds fm_images].
    match goal with |- context[req_string ?n (B"formatName")] =>
      let E := fresh in eassert (E : find_child (B"formatName") n = _) by fc; rewrite (req_string_of sc _ _ _ _ E); clear E end.
    match goal with |- context[req_string ?n (B"guid")] =>
      let E := fresh in eassert (E : find_child (B"guid") n = _) by fc; rewrite (req_string_of sc _ _ _ _ E); clear E end.
    repeat match goal with |- context[req_int parse_i64 ?n ?nm] =>
      let E := fresh in eassert (E : find_child nm n = _) by fc; rewrite (req_i64_of sc _ _ _ _ E) by assumption; clear E end.
    repeat step_string sc. repeat step_date_time sc pf64. reflexivity. }
  rewrite Er. cbn [res_bind].
  unfold pointclouds_from_document, images_from_document, vec_from_document. rewrite Hd3, Hi2. cbn [opt_case].
  subst root sc. rewrite !vector_children by (intro; reflexivity).
  rewrite pointclouds_of_list, images_of_list by assumption. cbn [res_bind].
  unfold extensions_from_document, tree_of. cbn [root_element xd_children find is_element fm_extensions].
  unfold t_root, t_struct, el. cbn [is_element].
  rewrite extensions_of_scope_of. reflexivity.
Qed.

End Main.

(** the reader half of the metadata round trip *)
Theorem extract_tree_of :
  forall (pf64 pf32 : xstr -> option N) (fdiv : N -> Z -> N) (m : file_meta),
    meta_ok m = true -> float_oracle_ok pf64 pf32 m = true ->
    extract_all pf64 pf32 fdiv (tree_of m) = Ok (reader_view m).
Proof. exact extract_tree_of_proof. Qed.
