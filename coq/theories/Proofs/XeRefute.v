(** The witnesses that refuted property C18 before the three repairs of the crate (same local
    name, first child of a leaf, capture through descendants()), now positive examples: on each of
    them the extraction result is what it is without the inserted content.  The XML text of every
    witness is in corpus/XE/ (w_*.xml) and is replayed on the real reader by tools/props/xe.py. *)
From Coq Require Import Strings.String.
From Coq Require Import List Bool NArith ZArith.
From E57 Require Import Base.Prelude Model.Meta Model.MetaFile Model.XmlTree Model.XmlExtract
  Spec.XeForeign Proofs.XeLemmas.
Import ListNotations.

Local Notation "'B' s" := (ltac:(let v := eval vm_compute in (bytes_of_string s%string) in exact v))
  (at level 0, s at level 0, only parsing).

(** * Building small documents *)
Definition EXT_NS : xstr := B"urn:ext".
Definition sc_std : list xnsdecl := [mkXNs None E57_NS].
Definition sc_ext : list xnsdecl := [mkXNs (Some (B"ext")) EXT_NS; mkXNs None E57_NS].
Definition tattr (v : xstr) : xattr := mkXAttr (mkXName None (B"type")) v.
Definition pattr (k v : xstr) : xattr := mkXAttr (mkXName None k) v.
Definition std (local : xstr) (attrs : list xattr) (ch : list xnode) : xnode :=
  XElem (mkXName (Some E57_NS) local) attrs sc_std ch.
(** [<ext:local xmlns:ext="urn:ext" ...>] *)
Definition ext (local : xstr) (attrs : list xattr) (ch : list xnode) : xnode :=
  XElem (mkXName (Some EXT_NS) local) attrs sc_ext ch.
Definition sstr (local v : xstr) : xnode := std local [tattr (B"String")] [XText v].
Definition sint (local v : xstr) : xnode := std local [tattr (B"Integer")] [XText v].

Definition root_of (ch : list xnode) : xdoc :=
  mkXDoc [std (B"e57Root") [tattr (B"Structure")] ch].

Definition fmt_node := sstr (B"formatName") (B"ASTM E57 3D Imaging Data File").
Definition guid_node := sstr (B"guid") (B"real").
Definition ver_node := sint (B"versionMajor") (B"1").
Definition data3d_empty := std (B"data3D") [tattr (B"Vector")] [].

(** * Tactics that build derivations of [fins_doc] *)
Ltac ae_tac := repeat first [apply ae_nil | apply ae_keep | apply ae_ins; [reflexivity|]].
Ltac flag_tac :=
  match goal with
  | |- ins_list _ ?b _ _ => let v := eval vm_compute in b in change b with v
  end.
Ltac node_tac :=
  first [ apply ig_text | apply ig_comment | apply ig_pi
        | apply ig_elem; [ae_tac | flag_tac; list_tac] ]
with list_tac :=
  first [ apply il_nil
        | apply il_keep; [solve [node_tac] | list_tac]
        | apply il_ins; [reflexivity | reflexivity | first [left; reflexivity | right; reflexivity] | list_tac] ].
Ltac doc_tac := unfold fins_doc, ins_doc_gen; cbn [xd_children]; list_tac.

(** * 1. a foreign element with the local name [guid] in front of the real [guid] *)
Definition d_base : xdoc := root_of [fmt_node; guid_node; ver_node].
Definition d_same_name : xdoc :=
  root_of [fmt_node; ext (B"guid") [tattr (B"String")] [XText (B"fake")]; guid_node; ver_node].

Example same_local_name_witness :
  fins_doc d_base d_same_name /\
  forall pf64 pf32 fdiv, exists m,
    extract_all pf64 pf32 fdiv d_base = Ok m /\ extract_all pf64 pf32 fdiv d_same_name = Ok m /\
    rt_guid (fm_root m) = B"real".
Proof.
  split; [doc_tac|]. intros pf64 pf32 fdiv. eexists.
  split; [vm_compute; reflexivity|]. split; [vm_compute; reflexivity|reflexivity].
Qed.

(** * 2. a foreign element (or a comment) as first child of a leaf: its text reads as absent *)
Definition d_before_text : xdoc :=
  root_of [fmt_node;
           std (B"guid") [tattr (B"String")] [ext (B"note") [] []; XText (B"real")];
           ver_node].
Definition d_comment_before_text : xdoc :=
  root_of [fmt_node;
           std (B"guid") [tattr (B"String")] [XComment (B"c"); XText (B"real")];
           ver_node].
(** a number: the text is replaced by the default "0" - here a version that does not even parse is accepted *)
Definition d_bad_number : xdoc := root_of [fmt_node; guid_node; sint (B"versionMajor") (B"x")].
Definition d_bad_number_hidden : xdoc :=
  root_of [fmt_node; guid_node;
           std (B"versionMajor") [tattr (B"Integer")] [ext (B"note") [] []; XText (B"x")]].

Example before_text_witness :
  fins_doc d_base d_before_text /\ fins_doc d_base d_comment_before_text /\
  forall pf64 pf32 fdiv, exists m,
    extract_all pf64 pf32 fdiv d_base = Ok m /\ extract_all pf64 pf32 fdiv d_before_text = Ok m /\
    extract_all pf64 pf32 fdiv d_comment_before_text = Ok m /\ rt_guid (fm_root m) = B"real".
Proof.
  split; [doc_tac|]. split; [doc_tac|]. intros pf64 pf32 fdiv. eexists.
  split; [vm_compute; reflexivity|]. split; [vm_compute; reflexivity|]. split; [vm_compute; reflexivity|reflexivity].
Qed.

(** the malformed number stays malformed: the text behind the foreign element is read, the file is rejected *)
Example before_text_number_witness :
  fins_doc d_bad_number d_bad_number_hidden /\
  forall pf64 pf32 fdiv,
    extract_all pf64 pf32 fdiv d_bad_number = Err EInvalid /\
    extract_all pf64 pf32 fdiv d_bad_number_hidden = Err EInvalid.
Proof. split; [doc_tac|]. intros pf64 pf32 fdiv. split; vm_compute; reflexivity. Qed.

(** * 3. lookups by [descendants()] are captured by a foreign subtree earlier in document order *)
Definition fake_pointcloud : xnode :=
  ext (B"vectorChild") [tattr (B"Structure")]
    [ext (B"points") [tattr (B"CompressedVector"); pattr (B"fileOffset") (B"0"); pattr (B"recordCount") (B"0")]
       [ext (B"prototype") [tattr (B"Structure")] []]].
Definition d_data3d : xdoc := root_of [fmt_node; guid_node; ver_node; data3d_empty].
Definition d_data3d_captured : xdoc :=
  root_of [fmt_node; guid_node; ver_node;
           ext (B"meta") [] [ext (B"data3D") [] [fake_pointcloud]];
           data3d_empty].

Example descendant_lookup_witness :
  fins_doc d_data3d d_data3d_captured /\
  forall pf64 pf32 fdiv, exists m,
    extract_all pf64 pf32 fdiv d_data3d = Ok m /\ extract_all pf64 pf32 fdiv d_data3d_captured = Ok m /\
    length (fm_pointclouds m) = 0%nat.
Proof.
  split; [doc_tac|]. intros pf64 pf32 fdiv. eexists.
  split; [vm_compute; reflexivity|]. split; [vm_compute; reflexivity|reflexivity].
Qed.

(** the same inside a limits structure ([extract_limit]) *)
Definition limit_node (local v : xstr) : xnode := sint local v.
Definition pc_with_limits (limits_children : list xnode) : xnode :=
  std (B"vectorChild") [tattr (B"Structure")]
    [std (B"intensityLimits") [tattr (B"Structure")] limits_children;
     std (B"points") [tattr (B"CompressedVector"); pattr (B"fileOffset") (B"0"); pattr (B"recordCount") (B"0")]
       [std (B"prototype") [tattr (B"Structure")] []]].
Definition d_limits : xdoc :=
  root_of [fmt_node; guid_node; ver_node;
           std (B"data3D") [tattr (B"Vector")]
             [pc_with_limits [limit_node (B"intensityMinimum") (B"1"); limit_node (B"intensityMaximum") (B"2")]]].
Definition d_limits_captured : xdoc :=
  root_of [fmt_node; guid_node; ver_node;
           std (B"data3D") [tattr (B"Vector")]
             [pc_with_limits [ext (B"wrap") [] [ext (B"intensityMinimum") [tattr (B"Integer")] [XText (B"7")]];
                              limit_node (B"intensityMinimum") (B"1"); limit_node (B"intensityMaximum") (B"2")]]].

Definition first_intensity_min (m : file_meta) : option limit_value :=
  match fm_pointclouds m with
  | pc :: _ => match pc_intensity_limits pc with Some l => il_min l | None => None end
  | [] => None
  end.

Example descendant_lookup_limits_witness :
  fins_doc d_limits d_limits_captured /\
  forall pf64 pf32 fdiv, exists m,
    extract_all pf64 pf32 fdiv d_limits = Ok m /\ extract_all pf64 pf32 fdiv d_limits_captured = Ok m /\
    first_intensity_min m = Some (LInteger 1).
Proof.
  split; [doc_tac|]. intros pf64 pf32 fdiv. eexists.
  split; [vm_compute; reflexivity|]. split; [vm_compute; reflexivity|reflexivity].
Qed.

(** * The hypotheses of the positive theorem are satisfiable on a non-trivial input
    (a document that declares the prefix [ext] at its root, so that a namespaced attribute can be
    added without changing any scope) *)
Definition sc_reg : list xnsdecl := [mkXNs (Some (B"ext")) EXT_NS; mkXNs None E57_NS].
Definition stdr (local : xstr) (attrs : list xattr) (ch : list xnode) : xnode :=
  XElem (mkXName (Some E57_NS) local) attrs sc_reg ch.
Definition extr (local : xstr) (attrs : list xattr) (ch : list xnode) : xnode :=
  XElem (mkXName (Some EXT_NS) local) attrs sc_reg ch.
Definition root_reg (ch : list xnode) : xdoc := mkXDoc [stdr (B"e57Root") [tattr (B"Structure")] ch].
Definition fmt_reg := stdr (B"formatName") [tattr (B"String")] [XText (B"ASTM E57 3D Imaging Data File")].
Definition ver_reg := stdr (B"versionMajor") [tattr (B"Integer")] [XText (B"1")].

Definition d_base_reg : xdoc :=
  root_reg [fmt_reg; stdr (B"guid") [tattr (B"String")] [XText (B"real")]; ver_reg].
Definition d_inert : xdoc :=
  root_reg [fmt_reg;
            extr (B"note") [pattr (B"kind") (B"x")] [extr (B"inner") [] [XText (B"guid")]];
            stdr (B"guid") [tattr (B"String"); mkXAttr (mkXName (Some EXT_NS) (B"type")) (B"Integer")]
              [XText (B"real"); extr (B"versionMinor") [] []];
            ver_reg;
            extr (B"versionMinor") [] []].

Example inert_insertion_example :
  fins_doc d_base_reg d_inert /\
  forall pf64 pf32 fdiv, extract_all pf64 pf32 fdiv d_inert = extract_all pf64 pf32 fdiv d_base_reg.
Proof. split; [doc_tac|]. intros pf64 pf32 fdiv. vm_compute. reflexivity. Qed.
