(** Point-cloud writer, part 3: one call of [write_buffer_to_disk] appends
    nothing or exactly one data packet as the format specification encodes
    it, and keeps the writer invariant. *)
From E57 Require Import Base.Prelude Spec.PageSpec Model.Prog Model.BsWrite Model.Record
  Model.PcWriter Model.FileBin Spec.BitSpec Spec.FormatSpec.
From E57 Require Import Proofs.BitLemmas Proofs.BitWidthProofs Proofs.BitWriteProofs.
From E57 Require Import Proofs.PcWriterLemmas Proofs.PcWriterStreams.
From Coq Require Import ZifyN ZifyNat ZifyBool.
Ltac Zify.zify_post_hook ::= Z.div_mod_to_equations.
Open Scope N_scope.

(** * The program, cut into its pure prefix and its writing tail *)

Definition packet_len (n sum : N) : N :=
  let pl0 := DATA_HEADER_SIZE + n * 2 + sum in
  if pl0 mod 4 =? 0 then pl0 else pl0 + (4 - pl0 mod 4).

Definition wbtd_tail (last : bool) (w : pcw) (buffer : list (list rvalue)) (streams : list bsw)
    (sizes : list N) : wprog pcw :=
  (w1 <- (if 0 <? fold_left N.add sizes 0 then
            let pl := packet_len (len (w_proto w)) (fold_left N.add sizes 0) in
            if U16_MAX <? pl then wfail EInternal else
            wr (data_header_bytes pl (len (w_proto w))) ;;;
            wr_all (map (fun sz => le_bytes 2 (sz mod 65536)) sizes) ;;;
            '(streams', datas) <- wlift (drain_streams last streams) ;;
            wr_all datas ;;;
            wret (mkPcw (w_proto w) (w_section_offset w) (w_section_length w + pl) (w_data_offset w)
                       (w_point_count w) buffer (w_max_ppp w) streams')
          else
            wret (mkPcw (w_proto w) (w_section_offset w) (w_section_length w) (w_data_offset w)
                       (w_point_count w) buffer (w_max_ppp w) streams)) ;;
   w_align ;;;
   wret w1)%wprog.

Lemma wbtd_unfold last w :
  write_buffer_to_disk last w =
  wbind (wlift (write_points (N.to_nat (N.min (w_max_ppp w) (len (w_buffer w))))
                  (w_proto w) (w_buffer w) (w_streams w)))
    (fun x => match x with
              | (buffer, streams) =>
                  wbind (wlift (stream_sizes last streams))
                        (fun sizes => wbtd_tail last w buffer streams sizes)
              end).
Proof. reflexivity. Qed.

Lemma wbtd_run last w l buffer' streams1 sizes :
  write_points (N.to_nat (N.min (w_max_ppp w) (len (w_buffer w))))
     (w_proto w) (w_buffer w) (w_streams w) = Ok (buffer', streams1) ->
  stream_sizes last streams1 = Ok sizes ->
  wrun_spec (write_buffer_to_disk last w) l = wrun_spec (wbtd_tail last w buffer' streams1 sizes) l.
Proof.
  intros H1 H2. rewrite wbtd_unfold, H1.
  rewrite (run_bind_ok _ _ _ _ _ (run_lift_ok _ _)). cbv beta iota.
  rewrite H2, (run_bind_ok _ _ _ _ _ (run_lift_ok _ _)). reflexivity.
Qed.

Lemma wbtd_tail_packet last w d buffer streams sizes streams2 datas :
  0 < fold_left N.add sizes 0 ->
  packet_len (len (w_proto w)) (fold_left N.add sizes 0) <= 65535 ->
  drain_streams last streams = Ok (streams2, datas) ->
  wrun_spec (wbtd_tail last w buffer streams sizes) (lend d) =
  (let pl := packet_len (len (w_proto w)) (fold_left N.add sizes 0) in
   let x := ((d ++ data_header_bytes pl (len (w_proto w)))
               ++ concat (map (fun sz => le_bytes 2 (sz mod 65536)) sizes)) ++ concat datas in
   (lend (x ++ zeros ((4 - len x mod 4) mod 4)),
    Ok (mkPcw (w_proto w) (w_section_offset w) (w_section_length w + pl) (w_data_offset w)
              (w_point_count w) buffer (w_max_ppp w) streams2))).
Proof.
  intros Hsum Hpl Hdr. unfold wbtd_tail.
  destruct (0 <? fold_left N.add sizes 0) eqn:E0; [|lia].
  cbv zeta.
  destruct (U16_MAX <? packet_len (len (w_proto w)) (fold_left N.add sizes 0)) eqn:E1;
    [unfold U16_MAX in E1; lia|].
  set (pl := packet_len (len (w_proto w)) (fold_left N.add sizes 0)).
  match goal with |- wrun_spec (wbind ?inner _) _ = _ =>
    assert (Hin : wrun_spec inner (lend d) =
      (lend (((d ++ data_header_bytes pl (len (w_proto w)))
               ++ concat (map (fun sz => le_bytes 2 (sz mod 65536)) sizes)) ++ concat datas),
       Ok (mkPcw (w_proto w) (w_section_offset w) (w_section_length w + pl) (w_data_offset w)
              (w_point_count w) buffer (w_max_ppp w) streams2)))
  end.
  { rewrite (run_bind_ok _ _ _ _ _ (run_wr _ _)).
    rewrite (run_bind_ok _ _ _ _ _ (run_wr_all _ _)).
    rewrite Hdr, (run_bind_ok _ _ _ _ _ (run_lift_ok _ _)). cbv beta iota.
    rewrite (run_bind_ok _ _ _ _ _ (run_wr_all _ _)). reflexivity. }
  rewrite (run_bind_ok _ _ _ _ _ Hin).
  rewrite (run_bind_ok _ _ _ _ _ (run_w_align _)). reflexivity.
Qed.

Lemma wbtd_tail_nopacket last w d buffer streams sizes :
  fold_left N.add sizes 0 = 0 -> len d mod 4 = 0 ->
  wrun_spec (wbtd_tail last w buffer streams sizes) (lend d) =
  (lend d,
   Ok (mkPcw (w_proto w) (w_section_offset w) (w_section_length w) (w_data_offset w)
             (w_point_count w) buffer (w_max_ppp w) streams)).
Proof.
  intros Hsum Hal. unfold wbtd_tail.
  destruct (0 <? fold_left N.add sizes 0) eqn:E0; [lia|].
  rewrite (run_bind_ok _ _ _ _ _ (run_wret _ _)).
  rewrite (run_bind_ok _ _ _ _ _ (run_w_align_aligned _ Hal)). reflexivity.
Qed.

(** * The bytes of a data packet *)

Lemma packet_len_dpl datas : packet_len (len datas) (len (concat datas)) = data_packet_len datas.
Proof.
  unfold packet_len, data_packet_len, DATA_HEADER_SIZE. cbv zeta.
  destruct ((6 + len datas * 2 + len (concat datas)) mod 4 =? 0) eqn:E; lia.
Qed.

Lemma packet_len_bound n sum : packet_len n sum <= 6 + 2 * n + sum + 3.
Proof.
  unfold packet_len, DATA_HEADER_SIZE. cbv zeta.
  destruct ((6 + n * 2 + sum) mod 4 =? 0) eqn:E; lia.
Qed.

Lemma dpl_mod4 datas : data_packet_len datas mod 4 = 0.
Proof. unfold data_packet_len. cbv zeta. lia. Qed.

Lemma len_in_concat {A} (c : list A) : forall l, In c l -> len c <= len (concat l).
Proof.
  induction l as [|x l IH]; intros H; [destruct H|].
  cbn [concat]. rewrite pc_len_app. destruct H as [->|H]; [lia|]. specialize (IH H). lia.
Qed.

Lemma len_sizes_bytes : forall datas : list (list N),
  len (concat (map (fun c => le_bytes 2 (len c)) datas)) = 2 * len datas.
Proof.
  induction datas as [|c r IH]; [reflexivity|].
  cbn [map concat]. rewrite pc_len_app, pc_len_le_bytes, IH, pc_len_cons. lia.
Qed.

Definition packet_raw (datas : list (list N)) : list N :=
  [1; 0] ++ le_bytes 2 (data_packet_len datas - 1) ++ le_bytes 2 (len datas)
    ++ concat (map (fun c => le_bytes 2 (len c)) datas) ++ concat datas.

Lemma encode_packet_raw datas : encode_packet (SData datas) = pad4 (packet_raw datas).
Proof. reflexivity. Qed.

Lemma len_packet_raw datas : len (packet_raw datas) = 6 + 2 * len datas + len (concat datas).
Proof.
  unfold packet_raw. rewrite !pc_len_app, !pc_len_le_bytes, len_sizes_bytes.
  change (len [1; 0]) with 2. lia.
Qed.

Lemma len_encode_packet datas : len (encode_packet (SData datas)) = data_packet_len datas.
Proof.
  rewrite encode_packet_raw. unfold pad4. rewrite pc_len_app, pc_len_zeros, len_packet_raw.
  unfold data_packet_len. reflexivity.
Qed.

Lemma sizes_bytes_small (datas : list (list N)) : len (concat datas) < 65536 ->
  map (fun sz => le_bytes 2 (sz mod 65536)) (map len datas) = map (fun c => le_bytes 2 (len c)) datas.
Proof.
  intros H. rewrite map_map. apply map_ext_in. intros c Hc.
  pose proof (len_in_concat c datas Hc). rewrite N.mod_small by lia. reflexivity.
Qed.

Lemma model_packet_bytes d (datas : list (list N)) :
  len d mod 4 = 0 -> data_packet_len datas <= 65535 ->
  (((d ++ data_header_bytes (data_packet_len datas) (len datas))
      ++ concat (map (fun sz => le_bytes 2 (sz mod 65536)) (map len datas))) ++ concat datas)
  ++ zeros ((4 - len (((d ++ data_header_bytes (data_packet_len datas) (len datas))
      ++ concat (map (fun sz => le_bytes 2 (sz mod 65536)) (map len datas))) ++ concat datas) mod 4) mod 4)
  = d ++ encode_packet (SData datas).
Proof.
  intros Hal Hpl.
  assert (Hraw : 6 + 2 * len datas + len (concat datas) <= data_packet_len datas).
  { unfold data_packet_len. cbv zeta. lia. }
  assert (Hx : ((d ++ data_header_bytes (data_packet_len datas) (len datas))
              ++ concat (map (fun sz => le_bytes 2 (sz mod 65536)) (map len datas))) ++ concat datas
             = d ++ packet_raw datas).
  { rewrite sizes_bytes_small by lia. unfold data_header_bytes, packet_raw.
    rewrite (N.mod_small (data_packet_len datas - 1)) by lia.
    rewrite (N.mod_small (len datas)) by lia.
    rewrite <- !app_assoc. reflexivity. }
  rewrite Hx, encode_packet_raw. unfold pad4.
  rewrite <- app_assoc. do 3 f_equal. rewrite pc_len_app.
  generalize (len (packet_raw datas)). intros m. lia.
Qed.

(** * The writer invariant *)

Record winv (proto : list dtype) (mpp : N) (d0 : list N) (pts : list (list rvalue))
    (lay : layout) (w : pcw) (d : list N) : Prop := mkWinv {
  wi_proto : w_proto w = proto;
  wi_mpp : w_max_ppp w = mpp;
  wi_so : w_section_offset w = phys_of_log (len d0);
  wi_do : w_data_offset w = phys_of_log (len d0 + 32);
  wi_sl : w_section_length w = 32 + len (section_body lay);
  wi_cnt : w_point_count w = len pts + len (w_buffer w);
  wi_d : d = d0 ++ cv_header_bytes 32 0 0 ++ section_body lay;
  wi_al : len d mod 4 = 0;
  wi_pk : forallb (packet_ok (length proto)) lay = true;
  wi_buf : Forall (fun p => point_ok proto p = true) (w_buffer w);
  wi_len : length (w_streams w) = length proto;
  wi_s : exists E P, sinv proto pts lay (w_streams w) 0 E P
}.

Lemma section_body_app a b : section_body (a ++ b) = section_body a ++ section_body b.
Proof. unfold section_body. rewrite map_app, concat_app. reflexivity. Qed.

Lemma section_body_one p : section_body [p] = encode_packet p.
Proof. unfold section_body. cbn [map concat]. apply app_nil_r. Qed.

Lemma record_chunks_app i a b : record_chunks i (a ++ b) = record_chunks i a ++ record_chunks i b.
Proof. unfold record_chunks. apply flat_map_app. Qed.

Lemma record_chunks_one i datas : record_chunks i [SData datas] = [nth i datas []].
Proof. reflexivity. Qed.

Lemma bob_nil_inv l : bytes_of_bits l = [] -> l = [].
Proof.
  intros H. pose proof (bob_length l) as Hl. rewrite H in Hl. cbn [length] in Hl.
  destruct l; [reflexivity|]. cbn [length] in Hl. lia.
Qed.

(** * The core: the tail of a flush on buffers that satisfy the stream invariant *)

Lemma sumN_scaled_le (c g : nat -> N) n :
  (forall i, (i < n)%nat -> 8 * c i <= g i) -> 8 * sumN c n <= sumN g n.
Proof.
  induction n; intros H; cbn [sumN]; [lia|].
  specialize (IHn ltac:(intros; apply H; lia)). specialize (H n ltac:(lia)). lia.
Qed.

Lemma sumN_const c n : sumN (fun _ => c) n = c * N.of_nat n.
Proof. induction n; cbn [sumN]; lia. Qed.

Lemma chunk_nil_rest last p : chunk last p = [] -> rest last p = p.
Proof.
  intros H. unfold chunk in H. apply bob_nil_inv in H.
  rewrite <- (chunk_rest last p) at 2. rewrite H. reflexivity.
Qed.

Lemma flush_core (last : bool) proto mpp w d pts lay k E P buffer' streams1 :
  get_max_packet_points proto = Ok mpp ->
  w_proto w = proto ->
  len d mod 4 = 0 ->
  length streams1 = length proto ->
  sinv proto pts lay streams1 k E P ->
  (if last then k = 0 else k <= mpp) ->
  exists sizes pk streams2,
    stream_sizes last streams1 = Ok sizes /\
    wrun_spec (wbtd_tail last w buffer' streams1 sizes) (lend d) =
      (lend (d ++ section_body pk),
       Ok (mkPcw (w_proto w) (w_section_offset w) (w_section_length w + len (section_body pk))
                 (w_data_offset w) (w_point_count w) buffer' (w_max_ppp w) streams2)) /\
    forallb (packet_ok (length proto)) pk = true /\
    len (d ++ section_body pk) mod 4 = 0 /\
    length streams2 = length proto /\
    forall i, (i < length proto)%nat ->
      bsw_holds (nth i streams2 bsw_new) (rest last (P i)) /\
      concat (record_chunks i (lay ++ pk)) = bytes_of_bits (E i) ++ chunk last (P i).
Proof.
  intros Hmpp Hproto Hal Hls Hinv Hk.
  pose proof (packet_capacity proto mpp Hmpp) as (Hc1 & _ & Hc2 & Hc3).
  fold (point_bits proto) in Hc2.
  pose proof (proto_nonempty proto mpp Hmpp) as Hne.
  assert (Hn0 : (0 < length proto)%nat) by (destruct proto; [congruence|cbn [length]; lia]).
  assert (Hholds : forall i, (i < length streams1)%nat -> bsw_holds (nth i streams1 bsw_new) (P i)).
  { intros i Hi. rewrite Hls in Hi. apply (Hinv i Hi). }
  pose proof (stream_sizes_spec last streams1 P Hholds) as Hsz.
  destruct (drain_streams_spec last streams1 P Hholds) as (ss & Hdr & Hlss & Hss).
  rewrite Hls in Hsz, Hdr, Hlss, Hss.
  set (n := length proto) in *.
  set (datas := map (fun i => chunk last (P i)) (seq 0 n)) in *.
  assert (Hsizes : map (fun i => len (chunk last (P i))) (seq 0 n) = map len datas).
  { subst datas. rewrite map_map. reflexivity. }
  rewrite Hsizes in Hsz.
  assert (Hlend : len datas = len proto).
  { subst datas. unfold len. rewrite map_length, seq_length. reflexivity. }
  assert (Hlend' : length datas = n).
  { subst datas. rewrite map_length, seq_length. reflexivity. }
  assert (Hsum : fold_left N.add (map len datas) 0 = len (concat datas)).
  { rewrite <- Hsizes, fold_add_map_seq. subst datas. rewrite len_concat_map_seq. reflexivity. }
  assert (Hnth : forall i, (i < n)%nat -> nth i datas [] = chunk last (P i)).
  { intros i Hi. subst datas. apply (nth_map_seq_lt (fun i => chunk last (P i)) [] n i Hi). }
  assert (Hcsum : len (concat datas) = sumN (fun i => len (chunk last (P i))) n).
  { subst datas. apply len_concat_map_seq. }
  (* the size of the packet *)
  assert (Hbound : 6 + 2 * len proto + len (concat datas) + 3 <= 65535).
  { rewrite Hcsum. destruct last.
    - subst k.
      assert (Hs : sumN (fun i => len (chunk true (P i))) n <= sumN (fun _ => 1) n).
      { apply sumN_le. intros i Hi. destruct (Hinv i Hi) as (_ & _ & _ & _ & Hb).
        rewrite chunk_true, len_bob. lia. }
      rewrite sumN_const in Hs. change (len proto) with (N.of_nat n) in *. lia.
    - assert (Hs : 8 * sumN (fun i => len (chunk false (P i))) n
                   <= sumN (fun i => 7 + k * bit_size (nth i proto TSingle)) n).
      { apply sumN_scaled_le. intros i Hi. destruct (Hinv i Hi) as (_ & _ & _ & _ & Hb).
        rewrite len_chunk_false. lia. }
      rewrite sumN_affine in Hs. rewrite point_bits_sumN in Hc2. fold n in Hc2.
      change (len proto) with (N.of_nat n) in *.
      set (B := sumN (fun i => bit_size (nth i proto TSingle)) n) in *.
      assert (k * B <= mpp * B) by (apply N.mul_le_mono_r; exact Hk).
      lia. }
  destruct (N.eq_dec (len (concat datas)) 0) as [Hz|Hnz].
  - (* no full byte anywhere: no packet *)
    exists (map len datas), [], streams1. split; [exact Hsz|].
    assert (Hnil : forall i, (i < n)%nat -> chunk last (P i) = []).
    { intros i Hi. apply pc_len_0.
      pose proof (sumN_term_le (fun i => len (chunk last (P i))) n i Hi) as Hle.
      cbv beta in Hle. lia. }
    split; [|split; [reflexivity|split; [|split; [exact Hls|]]]].
    + rewrite wbtd_tail_nopacket by (rewrite ?Hsum; assumption).
      change (section_body []) with (@nil N). rewrite app_nil_r, pc_len_nil, N.add_0_r. reflexivity.
    + change (section_body []) with (@nil N). rewrite app_nil_r. exact Hal.
    + intros i Hi. rewrite (chunk_nil_rest _ _ (Hnil i Hi)), (Hnil i Hi), !app_nil_r.
      destruct (Hinv i Hi) as (Hh & _ & _ & Hc & _). split; assumption.
  - (* one data packet *)
    assert (Hdpl : packet_len (len (w_proto w)) (fold_left N.add (map len datas) 0)
                   = data_packet_len datas).
    { rewrite Hsum, Hproto, <- Hlend. apply packet_len_dpl. }
    assert (Hdpl_le : data_packet_len datas <= 65535).
    { rewrite <- packet_len_dpl, Hlend.
      pose proof (packet_len_bound (len proto) (len (concat datas))). lia. }
    exists (map len datas), [SData datas], ss. split; [exact Hsz|].
    split; [|split; [|split; [|split; [exact Hlss|]]]].
    + rewrite (wbtd_tail_packet last w d buffer' streams1 (map len datas) ss datas);
        [|rewrite Hsum; lia|rewrite Hdpl; exact Hdpl_le|exact Hdr].
      cbv zeta. rewrite Hdpl, Hproto, <- Hlend.
      rewrite model_packet_bytes by assumption.
      rewrite section_body_one, len_encode_packet. reflexivity.
    + cbn [forallb]. rewrite andb_true_r. unfold packet_ok.
      rewrite Hlend', Nat.eqb_refl. cbn [andb].
      apply andb_true_intro. split; [apply andb_true_intro; split;
        [apply andb_true_intro; split|]|].
      * unfold len. rewrite Hlend'. lia.
      * lia.
      * apply forallb_forall. intros c Hc. pose proof (len_in_concat c datas Hc).
        assert (6 + 2 * len datas + len (concat datas) <= data_packet_len datas)
          by (unfold data_packet_len; cbv zeta; lia).
        lia.
      * apply forallb_forall. intros c Hc. subst datas. apply in_map_iff in Hc as (i & <- & _).
        apply bob_bytes_okb.
    + rewrite section_body_one, pc_len_app, len_encode_packet.
      pose proof (dpl_mod4 datas). lia.
    + intros i Hi. split; [apply Hss; exact Hi|].
      rewrite record_chunks_app, record_chunks_one, concat_app. cbn [concat].
      rewrite app_nil_r, (Hnth i Hi). destruct (Hinv i Hi) as (_ & _ & _ & Hc & _).
      rewrite Hc. reflexivity.
Qed.
