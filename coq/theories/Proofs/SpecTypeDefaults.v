(** C03, clause "omitted optional type attributes take their defaults".

    A prototype element whose [minimum] / [maximum] / [scale] / [offset] /
    [precision] attribute is omitted extracts ([data_type_from_node],
    [record_from_node] of Model/XmlExtract.v, the mirrors of
    RecordDataType::from_node and of one iteration of the prototype loop) to the
    same type as the element with the default value written out.

    "Written out" is [add_attr a v n]: the element [n] with one more attribute
    [a="v"] (no namespace) appended.  "Omitted" is [attribute a n = None].
    Everything is stated over arbitrary float-parsing oracles [pf64] / [pf32];
    where a written-out float text has to parse, exactly that is a hypothesis of
    the lemma ([pf64 "1" = Some b]), and where the value matters too
    ([b = f64_one_bits]) that is a second, separate hypothesis.

    Findings (all proved below):
    - [attribute_add_attr_same] as first stated (for any node) is FALSE: a text /
      comment / PI node has no attributes and [add_attr] leaves it alone
      ([attribute_add_attr_same_any_node_refuted]).  The corrected statement has
      the hypothesis [is_element n = true]; in the type lemmas it follows from
      [attribute TYPE n = Some _].
    - [attribute] returns the FIRST match and [add_attr] appends, so when the
      attribute is already there the added one is shadowed and nothing changes at
      all ([add_attr_shadowed], [data_type_add_attr_shadowed]); "omitted" is the
      only interesting case, and it is the hypothesis of the lemmas.
    - [default_scale] / [default_offset] without "the written-out text parses"
      are false: with an oracle rejecting "1" the written-out element is an
      Invalid error while the omitted one is fine ([default_scale_unparsed_refuted]).
    - With the right bits the written-out and the defaulted ScaledInteger still
      differ in the stored SOURCE TEXT of the float ("1" versus [[]]), so exact
      equality is false ([default_scale_exact_refuted]); equality holds after
      [erase_text] (and a fortiori after [dtype_of]). *)
From Coq Require Import ZArith Lia ZifyN ZifyNat ZifyBool.
From Coq Require Import Strings.String.
From Coq Require Import List.
From E57 Require Import Base.Prelude Base.Floats Model.Record Model.Meta Model.XmlTree Model.XmlExtract.
Import ListNotations.
Open Scope N_scope.

(** * Names (the same byte lists XmlExtract.v writes with its local [B"..."]) *)
Definition s_Float : xstr := Eval vm_compute in bytes_of_string "Float".
Definition s_Integer : xstr := Eval vm_compute in bytes_of_string "Integer".
Definition s_ScaledInteger : xstr := Eval vm_compute in bytes_of_string "ScaledInteger".
Definition s_minimum : xstr := Eval vm_compute in bytes_of_string "minimum".
Definition s_maximum : xstr := Eval vm_compute in bytes_of_string "maximum".
Definition s_scale : xstr := Eval vm_compute in bytes_of_string "scale".
Definition s_offset : xstr := Eval vm_compute in bytes_of_string "offset".
Definition s_precision : xstr := Eval vm_compute in bytes_of_string "precision".
Definition s_double : xstr := Eval vm_compute in bytes_of_string "double".
Definition s_single : xstr := Eval vm_compute in bytes_of_string "single".
(** the default values, written out *)
Definition s_i64_min : xstr := Eval vm_compute in bytes_of_string "-9223372036854775808".
Definition s_i64_max : xstr := Eval vm_compute in bytes_of_string "9223372036854775807".
Definition s_one : xstr := Eval vm_compute in bytes_of_string "1".
Definition s_zero : xstr := Eval vm_compute in bytes_of_string "0".

(** * [xstr_eqb] is a decidable equality *)
Lemma sd_xstr_eqb_eq : forall a b, xstr_eqb a b = true <-> a = b.
Proof.
  induction a as [|x a IH]; intros [|y b]; cbn [xstr_eqb]; split; intros H;
    try reflexivity; try discriminate.
  - apply andb_true_iff in H. destruct H as [Hxy Hab].
    apply N.eqb_eq in Hxy. apply IH in Hab. subst. reflexivity.
  - injection H as Hxy Hab. subst. apply andb_true_iff. split.
    + apply N.eqb_refl.
    + apply IH. reflexivity.
Qed.

Lemma sd_xstr_eqb_refl : forall a, xstr_eqb a a = true.
Proof. intros a. apply sd_xstr_eqb_eq. reflexivity. Qed.

Lemma sd_xstr_eqb_sym : forall a b, xstr_eqb a b = xstr_eqb b a.
Proof.
  intros a b. destruct (xstr_eqb a b) eqn:E1; destruct (xstr_eqb b a) eqn:E2; try reflexivity.
  - apply sd_xstr_eqb_eq in E1. subst. rewrite sd_xstr_eqb_refl in E2. discriminate.
  - apply sd_xstr_eqb_eq in E2. subst. rewrite sd_xstr_eqb_refl in E1. discriminate.
Qed.

(** * Adding an attribute *)
Definition plain_attr (a v : xstr) : xattr := mkXAttr (mkXName None a) v.
Definition add_attr (a v : xstr) (n : xnode) : xnode :=
  match n with
  | XElem nm attrs sc ch => XElem nm (attrs ++ [plain_attr a v]) sc ch
  | x => x
  end.

Lemma find_app_one {A} (f : A -> bool) (l : list A) (x : A) :
  find f (l ++ [x]) =
  match find f l with Some y => Some y | None => if f x then Some x else None end.
Proof.
  induction l as [|y l IH]; cbn [find app].
  - reflexivity.
  - destruct (f y); [reflexivity | exact IH].
Qed.

(** the attribute lookup on the extended element, in one equation *)
Lemma attribute_add_attr (b a v : xstr) (n : xnode) :
  attribute b (add_attr a v n) =
  match attribute b n with
  | Some x => Some x
  | None => if is_element n && xstr_eqb a b then Some v else None
  end.
Proof.
  destruct n as [nm attrs sc ch|t|t|t o]; cbn [add_attr attribute is_element andb]; try reflexivity.
  rewrite find_app_one. destruct (find _ attrs) as [y|]; [reflexivity|].
  cbn [plain_attr xa_name xn_ns xn_local xa_value]. destruct (xstr_eqb a b); reflexivity.
Qed.

Lemma attribute_some_is_element (a x : xstr) (n : xnode) :
  attribute a n = Some x -> is_element n = true.
Proof. destruct n; cbn [attribute is_element]; intros H; try discriminate; reflexivity. Qed.

Lemma is_element_add_attr (a v : xstr) (n : xnode) : is_element (add_attr a v n) = is_element n.
Proof. destruct n; reflexivity. Qed.

(** ** Item 1 *)
Lemma attribute_add_attr_same (a v : xstr) (n : xnode) :
  is_element n = true ->
  attribute a n = None -> attribute a (add_attr a v n) = Some v.
Proof.
  intros He Hn. rewrite attribute_add_attr, Hn, He, sd_xstr_eqb_refl. reflexivity.
Qed.

(** without [is_element n = true] the statement is false: a text node has no attributes and
    [add_attr] does not touch it *)
Lemma attribute_add_attr_same_any_node_refuted :
  ~ (forall (a v : xstr) (n : xnode), attribute a n = None -> attribute a (add_attr a v n) = Some v).
Proof.
  intros H. specialize (H s_minimum s_zero (XText []) eq_refl). vm_compute in H. discriminate.
Qed.

Lemma attribute_add_attr_other (b a v : xstr) (n : xnode) :
  xstr_eqb b a = false -> attribute b (add_attr a v n) = attribute b n.
Proof.
  intros Hne. rewrite attribute_add_attr, (sd_xstr_eqb_sym a b), Hne, andb_false_r.
  destruct (attribute b n); reflexivity.
Qed.

(** [attribute] takes the first match and [add_attr] appends: an attribute that is already there
    shadows the added one, for every lookup *)
Lemma add_attr_shadowed (a v x : xstr) (n : xnode) :
  attribute a n = Some x -> forall b, attribute b (add_attr a v n) = attribute b n.
Proof.
  intros Ha b. rewrite attribute_add_attr. destruct (attribute b n) as [y|] eqn:Hb; [reflexivity|].
  destruct (xstr_eqb a b) eqn:E.
  - apply sd_xstr_eqb_eq in E. subst b. rewrite Ha in Hb. discriminate.
  - rewrite andb_false_r. reflexivity.
Qed.

(** * [optional_attribute] on the extended element *)
Lemma optional_attribute_add_other {T} (p : xstr -> option T) (b a v : xstr) (n : xnode) :
  xstr_eqb b a = false ->
  optional_attribute p (add_attr a v n) b = optional_attribute p n b.
Proof. intros Hne. unfold optional_attribute. rewrite attribute_add_attr_other by exact Hne. reflexivity. Qed.

Lemma optional_attribute_add_same {T} (p : xstr -> option T) (a v : xstr) (n : xnode) :
  is_element n = true -> attribute a n = None ->
  optional_attribute p (add_attr a v n) a =
  match p v with Some x => Ok (Some x) | None => Err EInvalid end.
Proof.
  intros He Hn. unfold optional_attribute. rewrite attribute_add_attr_same by assumption.
  destruct (p v); reflexivity.
Qed.

Lemma optional_attribute_omitted {T} (p : xstr -> option T) (a : xstr) (n : xnode) :
  attribute a n = None -> optional_attribute p n a = Ok None.
Proof. intros Hn. unfold optional_attribute. rewrite Hn. reflexivity. Qed.

(** * Erasing what [dtype_of] keeps too little of: only the source texts of floats *)
Definition erase_f64 (x : f64t) : f64t := mkF64 (f64_bits x) [].
Definition erase_f32 (x : f32t) : f32t := mkF32 (f32_bits x) [].
Definition erase_text (d : data_type) : data_type :=
  match d with
  | DSingle mn mx => DSingle (option_map erase_f32 mn) (option_map erase_f32 mx)
  | DDouble mn mx => DDouble (option_map erase_f64 mn) (option_map erase_f64 mx)
  | DScaledInteger mn mx sc off => DScaledInteger mn mx (erase_f64 sc) (erase_f64 off)
  | DInteger mn mx => DInteger mn mx
  end.

Lemma dtype_of_erase_text (d : data_type) : dtype_of (erase_text d) = dtype_of d.
Proof. destruct d; reflexivity. Qed.

Lemma parse_i64_min_text : parse_i64 s_i64_min = Some i64_MIN.
Proof. vm_compute. reflexivity. Qed.
Lemma parse_i64_max_text : parse_i64 s_i64_max = Some i64_MAX.
Proof. vm_compute. reflexivity. Qed.

Section Defaults.
Variable pf64 : xstr -> option N.
Variable pf32 : xstr -> option N.

Local Notation dtfn := (data_type_from_node pf64 pf32).
Local Notation rfn := (record_from_node pf64 pf32).

(** * [data_type_from_node] only looks at attributes *)
Lemma data_type_from_node_ext (n n' : xnode) :
  (forall b, attribute b n = attribute b n') -> dtfn n = dtfn n'.
Proof.
  intros H. unfold data_type_from_node, optional_attribute. rewrite !H. reflexivity.
Qed.

Lemma data_type_add_attr_shadowed (a v x : xstr) (n : xnode) :
  attribute a n = Some x -> dtfn (add_attr a v n) = dtfn n.
Proof. intros Ha. apply data_type_from_node_ext. apply (add_attr_shadowed a v x n Ha). Qed.

(** * The three branches of [data_type_from_node], by type attribute *)
Definition float_precision (n : xnode) : xstr := dflt (attribute s_precision n) s_double.

Lemma data_type_float (n : xnode) :
  attribute TYPE n = Some s_Float ->
  dtfn n =
  if xstr_eqb (float_precision n) s_double then
    res_bind (optional_attribute (f64_parsed pf64) n s_minimum) (fun mn =>
    res_bind (optional_attribute (f64_parsed pf64) n s_maximum) (fun mx =>
    Ok (DDouble mn mx)))
  else if xstr_eqb (float_precision n) s_single then
    res_bind (optional_attribute (f32_parsed pf32) n s_minimum) (fun mn =>
    res_bind (optional_attribute (f32_parsed pf32) n s_maximum) (fun mx =>
    Ok (DSingle mn mx)))
  else Err EInvalid.
Proof. intros H. unfold data_type_from_node. rewrite H. reflexivity. Qed.

Lemma data_type_integer (n : xnode) :
  attribute TYPE n = Some s_Integer ->
  dtfn n =
  res_bind (optional_attribute parse_i64 n s_minimum) (fun mn =>
  res_bind (optional_attribute parse_i64 n s_maximum) (fun mx =>
  if (dflt mx i64_MAX <? dflt mn i64_MIN)%Z then Err EInvalid
  else Ok (DInteger (dflt mn i64_MIN) (dflt mx i64_MAX)))).
Proof. intros H. unfold data_type_from_node. rewrite H. reflexivity. Qed.

Lemma data_type_scaled (n : xnode) :
  attribute TYPE n = Some s_ScaledInteger ->
  dtfn n =
  res_bind (optional_attribute parse_i64 n s_minimum) (fun mn =>
  res_bind (optional_attribute parse_i64 n s_maximum) (fun mx =>
  if (dflt mx i64_MAX <? dflt mn i64_MIN)%Z then Err EInvalid else
  res_bind (optional_attribute (f64_parsed pf64) n s_scale) (fun sc =>
  res_bind (optional_attribute (f64_parsed pf64) n s_offset) (fun off =>
  Ok (DScaledInteger (dflt mn i64_MIN) (dflt mx i64_MAX)
        (dflt sc (f64_const f64_one_bits)) (dflt off (f64_const 0))))))).
Proof. intros H. unfold data_type_from_node. rewrite H. reflexivity. Qed.

(** the type attribute of the extended element (for an attribute other than [type]) *)
Lemma type_add_attr (a v ty : xstr) (n : xnode) :
  xstr_eqb TYPE a = false -> attribute TYPE n = Some ty -> attribute TYPE (add_attr a v n) = Some ty.
Proof. intros Hne H. rewrite attribute_add_attr_other by exact Hne. exact H. Qed.

(** * Item 2: minimum / maximum of Integer and ScaledInteger default to the i64 range *)
Lemma default_minimum_integer (n : xnode) :
  attribute TYPE n = Some s_Integer ->
  attribute s_minimum n = None ->
  dtfn (add_attr s_minimum s_i64_min n) = dtfn n.
Proof.
  intros Hty Hom. pose proof (attribute_some_is_element _ _ _ Hty) as He.
  rewrite (data_type_integer n Hty).
  rewrite (data_type_integer _ (type_add_attr s_minimum s_i64_min _ n eq_refl Hty)).
  rewrite (optional_attribute_add_same parse_i64 _ _ n He Hom), parse_i64_min_text.
  rewrite (optional_attribute_add_other parse_i64 s_maximum s_minimum) by reflexivity.
  rewrite (optional_attribute_omitted parse_i64 _ n Hom).
  reflexivity.
Qed.

Lemma default_maximum_integer (n : xnode) :
  attribute TYPE n = Some s_Integer ->
  attribute s_maximum n = None ->
  dtfn (add_attr s_maximum s_i64_max n) = dtfn n.
Proof.
  intros Hty Hom. pose proof (attribute_some_is_element _ _ _ Hty) as He.
  rewrite (data_type_integer n Hty).
  rewrite (data_type_integer _ (type_add_attr s_maximum s_i64_max _ n eq_refl Hty)).
  rewrite (optional_attribute_add_same parse_i64 _ _ n He Hom), parse_i64_max_text.
  rewrite (optional_attribute_add_other parse_i64 s_minimum s_maximum) by reflexivity.
  rewrite (optional_attribute_omitted parse_i64 _ n Hom).
  reflexivity.
Qed.

Lemma default_minimum_scaled (n : xnode) :
  attribute TYPE n = Some s_ScaledInteger ->
  attribute s_minimum n = None ->
  dtfn (add_attr s_minimum s_i64_min n) = dtfn n.
Proof.
  intros Hty Hom. pose proof (attribute_some_is_element _ _ _ Hty) as He.
  rewrite (data_type_scaled n Hty).
  rewrite (data_type_scaled _ (type_add_attr s_minimum s_i64_min _ n eq_refl Hty)).
  rewrite (optional_attribute_add_same parse_i64 _ _ n He Hom), parse_i64_min_text.
  rewrite (optional_attribute_add_other parse_i64 s_maximum s_minimum) by reflexivity.
  rewrite (optional_attribute_add_other (f64_parsed pf64) s_scale s_minimum) by reflexivity.
  rewrite (optional_attribute_add_other (f64_parsed pf64) s_offset s_minimum) by reflexivity.
  rewrite (optional_attribute_omitted parse_i64 _ n Hom).
  reflexivity.
Qed.

Lemma default_maximum_scaled (n : xnode) :
  attribute TYPE n = Some s_ScaledInteger ->
  attribute s_maximum n = None ->
  dtfn (add_attr s_maximum s_i64_max n) = dtfn n.
Proof.
  intros Hty Hom. pose proof (attribute_some_is_element _ _ _ Hty) as He.
  rewrite (data_type_scaled n Hty).
  rewrite (data_type_scaled _ (type_add_attr s_maximum s_i64_max _ n eq_refl Hty)).
  rewrite (optional_attribute_add_same parse_i64 _ _ n He Hom), parse_i64_max_text.
  rewrite (optional_attribute_add_other parse_i64 s_minimum s_maximum) by reflexivity.
  rewrite (optional_attribute_add_other (f64_parsed pf64) s_scale s_maximum) by reflexivity.
  rewrite (optional_attribute_add_other (f64_parsed pf64) s_offset s_maximum) by reflexivity.
  rewrite (optional_attribute_omitted parse_i64 _ n Hom).
  reflexivity.
Qed.

(** * Item 3: scale defaults to 1.0, offset to 0.0 *)

(** what the two sides of [default_scale] are, exactly: the same ranges and offset; the scale is
    the parsed one with its text on one side and the constant without text on the other *)
Lemma scale_written_vs_default (n : xnode) (b : N) :
  attribute TYPE n = Some s_ScaledInteger ->
  attribute s_scale n = None ->
  pf64 s_one = Some b ->
  forall (T : Type) (f : data_type -> T),
  (forall mn mx off, f (DScaledInteger mn mx (mkF64 b s_one) off)
                   = f (DScaledInteger mn mx (f64_const f64_one_bits) off)) ->
  res_map f (dtfn (add_attr s_scale s_one n)) = res_map f (dtfn n).
Proof.
  intros Hty Hom Hp T f Hf. pose proof (attribute_some_is_element _ _ _ Hty) as He.
  rewrite (data_type_scaled n Hty).
  rewrite (data_type_scaled _ (type_add_attr s_scale s_one _ n eq_refl Hty)).
  rewrite (optional_attribute_add_same (f64_parsed pf64) _ _ n He Hom).
  unfold f64_parsed at 1. rewrite Hp.
  rewrite (optional_attribute_add_other parse_i64 s_minimum s_scale) by reflexivity.
  rewrite (optional_attribute_add_other parse_i64 s_maximum s_scale) by reflexivity.
  rewrite (optional_attribute_add_other (f64_parsed pf64) s_offset s_scale) by reflexivity.
  rewrite (optional_attribute_omitted (f64_parsed pf64) _ n Hom).
  destruct (optional_attribute parse_i64 n s_minimum) as [mn|k|]; cbn [res_bind res_map]; try reflexivity.
  destruct (optional_attribute parse_i64 n s_maximum) as [mx|k|]; cbn [res_bind res_map]; try reflexivity.
  destruct (dflt mx i64_MAX <? dflt mn i64_MIN)%Z; cbn [res_bind res_map]; try reflexivity.
  destruct (optional_attribute (f64_parsed pf64) n s_offset) as [off|k|]; cbn [res_bind res_map dflt]; try reflexivity.
  rewrite Hf. reflexivity.
Qed.

Lemma offset_written_vs_default (n : xnode) (b : N) :
  attribute TYPE n = Some s_ScaledInteger ->
  attribute s_offset n = None ->
  pf64 s_zero = Some b ->
  forall (T : Type) (f : data_type -> T),
  (forall mn mx sc, f (DScaledInteger mn mx sc (mkF64 b s_zero))
                  = f (DScaledInteger mn mx sc (f64_const 0))) ->
  res_map f (dtfn (add_attr s_offset s_zero n)) = res_map f (dtfn n).
Proof.
  intros Hty Hom Hp T f Hf. pose proof (attribute_some_is_element _ _ _ Hty) as He.
  rewrite (data_type_scaled n Hty).
  rewrite (data_type_scaled _ (type_add_attr s_offset s_zero _ n eq_refl Hty)).
  rewrite (optional_attribute_add_same (f64_parsed pf64) _ _ n He Hom).
  unfold f64_parsed at 2. rewrite Hp.
  rewrite (optional_attribute_add_other parse_i64 s_minimum s_offset) by reflexivity.
  rewrite (optional_attribute_add_other parse_i64 s_maximum s_offset) by reflexivity.
  rewrite (optional_attribute_add_other (f64_parsed pf64) s_scale s_offset) by reflexivity.
  rewrite (optional_attribute_omitted (f64_parsed pf64) _ n Hom).
  destruct (optional_attribute parse_i64 n s_minimum) as [mn|k|]; cbn [res_bind res_map]; try reflexivity.
  destruct (optional_attribute parse_i64 n s_maximum) as [mx|k|]; cbn [res_bind res_map]; try reflexivity.
  destruct (dflt mx i64_MAX <? dflt mn i64_MIN)%Z; cbn [res_bind res_map]; try reflexivity.
  destruct (optional_attribute (f64_parsed pf64) n s_scale) as [sc|k|]; cbn [res_bind res_map dflt]; try reflexivity.
  rewrite Hf. reflexivity.
Qed.


(** up to the binary type ([dtype_of] forgets scale and offset): it is enough that "1" parses *)
Lemma default_scale (n : xnode) (b : N) :
  attribute TYPE n = Some s_ScaledInteger ->
  attribute s_scale n = None ->
  pf64 s_one = Some b ->
  res_map dtype_of (dtfn (add_attr s_scale s_one n)) = res_map dtype_of (dtfn n).
Proof.
  intros Hty Hom Hp. apply (scale_written_vs_default n b Hty Hom Hp). intros mn mx off. reflexivity.
Qed.

(** if "1" parses to the bits of 1.0 the whole type agrees except for the source text of the scale *)
Lemma default_scale_bits (n : xnode) :
  attribute TYPE n = Some s_ScaledInteger ->
  attribute s_scale n = None ->
  pf64 s_one = Some f64_one_bits ->
  res_map erase_text (dtfn (add_attr s_scale s_one n)) = res_map erase_text (dtfn n).
Proof.
  intros Hty Hom Hp. apply (scale_written_vs_default n _ Hty Hom Hp). intros mn mx off. reflexivity.
Qed.

Lemma default_offset (n : xnode) (b : N) :
  attribute TYPE n = Some s_ScaledInteger ->
  attribute s_offset n = None ->
  pf64 s_zero = Some b ->
  res_map dtype_of (dtfn (add_attr s_offset s_zero n)) = res_map dtype_of (dtfn n).
Proof.
  intros Hty Hom Hp. apply (offset_written_vs_default n b Hty Hom Hp). intros mn mx sc. reflexivity.
Qed.

Lemma default_offset_bits (n : xnode) :
  attribute TYPE n = Some s_ScaledInteger ->
  attribute s_offset n = None ->
  pf64 s_zero = Some 0 ->
  res_map erase_text (dtfn (add_attr s_offset s_zero n)) = res_map erase_text (dtfn n).
Proof.
  intros Hty Hom Hp. apply (offset_written_vs_default n _ Hty Hom Hp). intros mn mx sc. reflexivity.
Qed.

(** * Item 4: precision defaults to "double" (exact equality, no float is parsed for it) *)
Lemma float_precision_add_attr (a v : xstr) (n : xnode) :
  xstr_eqb s_precision a = false -> float_precision (add_attr a v n) = float_precision n.
Proof. intros Hne. unfold float_precision. rewrite attribute_add_attr_other by exact Hne. reflexivity. Qed.

Lemma default_precision (n : xnode) :
  attribute TYPE n = Some s_Float ->
  attribute s_precision n = None ->
  dtfn (add_attr s_precision s_double n) = dtfn n.
Proof.
  intros Hty Hom. pose proof (attribute_some_is_element _ _ _ Hty) as He.
  rewrite (data_type_float n Hty).
  rewrite (data_type_float _ (type_add_attr s_precision s_double _ n eq_refl Hty)).
  unfold float_precision. rewrite (attribute_add_attr_same _ s_double n He Hom), Hom. cbn [dflt].
  rewrite !(optional_attribute_add_other (f64_parsed pf64)) by reflexivity.
  rewrite !(optional_attribute_add_other (f32_parsed pf32)) by reflexivity.
  reflexivity.
Qed.

(** * Item 5: minimum / maximum of a Float do not change the binary type *)
Lemma f64_parsed_some (t : xstr) (b : N) : pf64 t = Some b -> f64_parsed pf64 t = Some (mkF64 b t).
Proof. intros H. unfold f64_parsed. rewrite H. reflexivity. Qed.
Lemma f32_parsed_some (t : xstr) (b : N) : pf32 t = Some b -> f32_parsed pf32 t = Some (mkF32 b t).
Proof. intros H. unfold f32_parsed. rewrite H. reflexivity. Qed.

(** the limit text [t] parses with the parser the element's precision selects *)
Definition limit_parses (n : xnode) (t : xstr) : Prop :=
  if xstr_eqb (float_precision n) s_double then exists b, pf64 t = Some b
  else if xstr_eqb (float_precision n) s_single then exists b, pf32 t = Some b
  else True.

Lemma limit_parses_add_attr (a v t : xstr) (n : xnode) :
  xstr_eqb s_precision a = false -> limit_parses (add_attr a v n) t <-> limit_parses n t.
Proof. intros Hne. unfold limit_parses. rewrite float_precision_add_attr by exact Hne. tauto. Qed.

(** one limit added (no "omitted" hypothesis is needed: an existing attribute shadows the new one) *)
Lemma float_limit_irrelevant (a t : xstr) (n : xnode) :
  a = s_minimum \/ a = s_maximum ->
  attribute TYPE n = Some s_Float ->
  limit_parses n t ->
  res_map dtype_of (dtfn (add_attr a t n)) = res_map dtype_of (dtfn n).
Proof.
  intros Ha Hty Hp.
  destruct (attribute a n) as [x|] eqn:Hom.
  { rewrite (data_type_add_attr_shadowed a t x n Hom). reflexivity. }
  pose proof (attribute_some_is_element _ _ _ Hty) as He.
  assert (Hna : xstr_eqb TYPE a = false) by (destruct Ha; subst a; reflexivity).
  assert (Hpa : xstr_eqb s_precision a = false) by (destruct Ha; subst a; reflexivity).
  rewrite (data_type_float n Hty), (data_type_float _ (type_add_attr a t _ n Hna Hty)).
  rewrite (float_precision_add_attr a t n Hpa).
  unfold limit_parses in Hp.
  destruct (xstr_eqb (float_precision n) s_double).
  - destruct Hp as [b Hb]. destruct Ha; subst a.
    + rewrite (optional_attribute_add_same (f64_parsed pf64) _ _ n He Hom), (f64_parsed_some t b Hb).
      rewrite (optional_attribute_add_other (f64_parsed pf64) s_maximum s_minimum) by reflexivity.
      rewrite (optional_attribute_omitted (f64_parsed pf64) _ n Hom).
      cbn [res_bind]. destruct (optional_attribute (f64_parsed pf64) n s_maximum); reflexivity.
    + rewrite (optional_attribute_add_same (f64_parsed pf64) _ _ n He Hom), (f64_parsed_some t b Hb).
      rewrite (optional_attribute_add_other (f64_parsed pf64) s_minimum s_maximum) by reflexivity.
      rewrite (optional_attribute_omitted (f64_parsed pf64) _ n Hom).
      destruct (optional_attribute (f64_parsed pf64) n s_minimum); reflexivity.
  - destruct (xstr_eqb (float_precision n) s_single); [|reflexivity].
    destruct Hp as [b Hb]. destruct Ha; subst a.
    + rewrite (optional_attribute_add_same (f32_parsed pf32) _ _ n He Hom), (f32_parsed_some t b Hb).
      rewrite (optional_attribute_add_other (f32_parsed pf32) s_maximum s_minimum) by reflexivity.
      rewrite (optional_attribute_omitted (f32_parsed pf32) _ n Hom).
      cbn [res_bind]. destruct (optional_attribute (f32_parsed pf32) n s_maximum); reflexivity.
    + rewrite (optional_attribute_add_same (f32_parsed pf32) _ _ n He Hom), (f32_parsed_some t b Hb).
      rewrite (optional_attribute_add_other (f32_parsed pf32) s_minimum s_maximum) by reflexivity.
      rewrite (optional_attribute_omitted (f32_parsed pf32) _ n Hom).
      destruct (optional_attribute (f32_parsed pf32) n s_minimum); reflexivity.
Qed.

(** both limits added *)
Lemma float_limits_irrelevant (n : xnode) (tmin tmax : xstr) :
  attribute TYPE n = Some s_Float ->
  limit_parses n tmin -> limit_parses n tmax ->
  res_map dtype_of (dtfn (add_attr s_maximum tmax (add_attr s_minimum tmin n)))
  = res_map dtype_of (dtfn n).
Proof.
  intros Hty Hmin Hmax.
  rewrite (float_limit_irrelevant s_maximum tmax (add_attr s_minimum tmin n)).
  - apply (float_limit_irrelevant s_minimum tmin n); [left; reflexivity | exact Hty | exact Hmin].
  - right. reflexivity.
  - apply type_add_attr; [reflexivity | exact Hty].
  - apply limit_parses_add_attr; [reflexivity | exact Hmax].
Qed.

(** the two readable instances: precision omitted (= double) and precision "single" *)
Lemma float_limits_irrelevant_double (n : xnode) (tmin tmax : xstr) (bmin bmax : N) :
  attribute TYPE n = Some s_Float ->
  attribute s_precision n = None ->
  pf64 tmin = Some bmin -> pf64 tmax = Some bmax ->
  res_map dtype_of (dtfn (add_attr s_maximum tmax (add_attr s_minimum tmin n)))
  = res_map dtype_of (dtfn n).
Proof.
  intros Hty Hpr Hmin Hmax. apply float_limits_irrelevant; [exact Hty | |];
    unfold limit_parses, float_precision; rewrite Hpr; cbn [dflt];
    change (xstr_eqb s_double s_double) with true; cbv iota; eauto.
Qed.

Lemma float_limits_irrelevant_single (n : xnode) (tmin tmax : xstr) (bmin bmax : N) :
  attribute TYPE n = Some s_Float ->
  attribute s_precision n = Some s_single ->
  pf32 tmin = Some bmin -> pf32 tmax = Some bmax ->
  res_map dtype_of (dtfn (add_attr s_maximum tmax (add_attr s_minimum tmin n)))
  = res_map dtype_of (dtfn n).
Proof.
  intros Hty Hpr Hmin Hmax. apply float_limits_irrelevant; [exact Hty | |];
    unfold limit_parses, float_precision; rewrite Hpr; cbn [dflt];
    change (xstr_eqb s_single s_double) with false;
    change (xstr_eqb s_single s_single) with true; cbv iota; eauto.
Qed.

(** * Item 6: the same for [record_from_node] *)
Definition node_record_name (n : xnode) : record_name :=
  match n with
  | XElem nm _ _ _ =>
      let uri := match xn_ns nm with Some u => u | None => [] end in
      let prefix := lookup_prefix uri n in
      if is_empty uri || xstr_eqb uri E57_NAMESPACE
      then record_name_of prefix (xn_local nm)
      else Unknown (match prefix with Some p => p | None => [] end) (xn_local nm)
  | _ => Unknown [] []
  end.

Lemma record_from_node_eq (n : xnode) :
  is_element n = true -> rfn n = res_map (mkRecord (node_record_name n)) (dtfn n).
Proof.
  destruct n as [nm attrs sc ch|t|t|t o]; cbn [is_element]; intros He; try discriminate.
  unfold record_from_node, node_record_name.
  destruct (dtfn (XElem nm attrs sc ch)); reflexivity.
Qed.

(** [add_attr] changes neither the name nor the namespaces in scope *)
Lemma node_record_name_add_attr (a v : xstr) (n : xnode) :
  node_record_name (add_attr a v n) = node_record_name n.
Proof. destruct n; reflexivity. Qed.

Lemma record_add_attr_exact (a v : xstr) (n : xnode) :
  dtfn (add_attr a v n) = dtfn n -> rfn (add_attr a v n) = rfn n.
Proof.
  intros H. destruct (is_element n) eqn:He.
  - rewrite (record_from_node_eq n He).
    rewrite (record_from_node_eq (add_attr a v n)) by (rewrite is_element_add_attr; exact He).
    rewrite node_record_name_add_attr, H. reflexivity.
  - destruct n; try reflexivity. discriminate.
Qed.

(** agreement of the types up to [f] gives agreement of the records up to [f] on the type *)
Lemma record_add_attr_upto {T : Type} (f : data_type -> T) (a v : xstr) (n : xnode) :
  res_map f (dtfn (add_attr a v n)) = res_map f (dtfn n) ->
  res_map (fun r => (r_name r, f (r_type r))) (rfn (add_attr a v n))
  = res_map (fun r => (r_name r, f (r_type r))) (rfn n).
Proof.
  intros H. destruct (is_element n) eqn:He.
  - rewrite (record_from_node_eq n He).
    rewrite (record_from_node_eq (add_attr a v n)) by (rewrite is_element_add_attr; exact He).
    rewrite node_record_name_add_attr.
    destruct (dtfn (add_attr a v n)) as [d1|k1|], (dtfn n) as [d2|k2|]; cbn [res_map] in *;
      try discriminate; try reflexivity.
    + injection H as H. cbn [r_name r_type]. rewrite H. reflexivity.
    + injection H as H. rewrite H. reflexivity.
  - destruct n; try reflexivity. discriminate.
Qed.

Lemma default_minimum_integer_record (n : xnode) :
  attribute TYPE n = Some s_Integer -> attribute s_minimum n = None ->
  rfn (add_attr s_minimum s_i64_min n) = rfn n.
Proof. intros Hty Hom. apply record_add_attr_exact, default_minimum_integer; assumption. Qed.

Lemma default_maximum_integer_record (n : xnode) :
  attribute TYPE n = Some s_Integer -> attribute s_maximum n = None ->
  rfn (add_attr s_maximum s_i64_max n) = rfn n.
Proof. intros Hty Hom. apply record_add_attr_exact, default_maximum_integer; assumption. Qed.

Lemma default_minimum_scaled_record (n : xnode) :
  attribute TYPE n = Some s_ScaledInteger -> attribute s_minimum n = None ->
  rfn (add_attr s_minimum s_i64_min n) = rfn n.
Proof. intros Hty Hom. apply record_add_attr_exact, default_minimum_scaled; assumption. Qed.

Lemma default_maximum_scaled_record (n : xnode) :
  attribute TYPE n = Some s_ScaledInteger -> attribute s_maximum n = None ->
  rfn (add_attr s_maximum s_i64_max n) = rfn n.
Proof. intros Hty Hom. apply record_add_attr_exact, default_maximum_scaled; assumption. Qed.

Lemma default_precision_record (n : xnode) :
  attribute TYPE n = Some s_Float -> attribute s_precision n = None ->
  rfn (add_attr s_precision s_double n) = rfn n.
Proof. intros Hty Hom. apply record_add_attr_exact, default_precision; assumption. Qed.

Definition record_dtype (r : record) : record_name * dtype := (r_name r, dtype_of (r_type r)).
Definition record_erased (r : record) : record_name * data_type := (r_name r, erase_text (r_type r)).

Lemma default_scale_record (n : xnode) (b : N) :
  attribute TYPE n = Some s_ScaledInteger -> attribute s_scale n = None -> pf64 s_one = Some b ->
  res_map record_dtype (rfn (add_attr s_scale s_one n)) = res_map record_dtype (rfn n).
Proof. intros Hty Hom Hp. apply (record_add_attr_upto dtype_of), (default_scale n b); assumption. Qed.

Lemma default_scale_bits_record (n : xnode) :
  attribute TYPE n = Some s_ScaledInteger -> attribute s_scale n = None ->
  pf64 s_one = Some f64_one_bits ->
  res_map record_erased (rfn (add_attr s_scale s_one n)) = res_map record_erased (rfn n).
Proof. intros Hty Hom Hp. apply (record_add_attr_upto erase_text), default_scale_bits; assumption. Qed.

Lemma default_offset_record (n : xnode) (b : N) :
  attribute TYPE n = Some s_ScaledInteger -> attribute s_offset n = None -> pf64 s_zero = Some b ->
  res_map record_dtype (rfn (add_attr s_offset s_zero n)) = res_map record_dtype (rfn n).
Proof. intros Hty Hom Hp. apply (record_add_attr_upto dtype_of), (default_offset n b); assumption. Qed.

Lemma default_offset_bits_record (n : xnode) :
  attribute TYPE n = Some s_ScaledInteger -> attribute s_offset n = None ->
  pf64 s_zero = Some 0 ->
  res_map record_erased (rfn (add_attr s_offset s_zero n)) = res_map record_erased (rfn n).
Proof. intros Hty Hom Hp. apply (record_add_attr_upto erase_text), default_offset_bits; assumption. Qed.

Lemma float_limits_irrelevant_record (n : xnode) (tmin tmax : xstr) :
  attribute TYPE n = Some s_Float ->
  limit_parses n tmin -> limit_parses n tmax ->
  res_map record_dtype (rfn (add_attr s_maximum tmax (add_attr s_minimum tmin n)))
  = res_map record_dtype (rfn n).
Proof.
  intros Hty Hmin Hmax.
  transitivity (res_map record_dtype (rfn (add_attr s_minimum tmin n))).
  - apply (record_add_attr_upto dtype_of), float_limit_irrelevant.
    + right. reflexivity.
    + apply type_add_attr; [reflexivity | exact Hty].
    + apply limit_parses_add_attr; [reflexivity | exact Hmax].
  - apply (record_add_attr_upto dtype_of), float_limit_irrelevant;
      [left; reflexivity | exact Hty | exact Hmin].
Qed.

End Defaults.

(** * Examples and counterexamples on concrete elements *)
Definition no_float : xstr -> option N := fun _ => None.
(** a tiny float parser: "1" -> 1.0, "0" -> 0.0, "2.5" -> 2.5 (f64) *)
Definition s_2_5 : xstr := Eval vm_compute in bytes_of_string "2.5".
Definition tiny_f64 : xstr -> option N := fun t =>
  if xstr_eqb t s_one then Some f64_one_bits
  else if xstr_eqb t s_zero then Some 0
  else if xstr_eqb t s_2_5 then Some 0x4004000000000000
  else None.
Definition tiny_f32 : xstr -> option N := fun t =>
  if xstr_eqb t s_one then Some 0x3f800000
  else if xstr_eqb t s_zero then Some 0
  else None.

Definition s_cartesianX : xstr := Eval vm_compute in bytes_of_string "cartesianX".
Definition s_7 : xstr := Eval vm_compute in bytes_of_string "7".
Definition s_m5 : xstr := Eval vm_compute in bytes_of_string "-5".
Definition elem (attrs : list (xstr * xstr)) : xnode :=
  XElem (mkXName None s_cartesianX) (map (fun p => plain_attr (fst p) (snd p)) attrs) [] [].

(** <cartesianX type="Integer" maximum="7"/> versus the same with minimum written out *)
Example ex_default_minimum :
  let n := elem [(TYPE, s_Integer); (s_maximum, s_7)] in
  attribute TYPE n = Some s_Integer /\ attribute s_minimum n = None /\
  record_from_node no_float no_float (add_attr s_minimum s_i64_min n)
  = Ok (mkRecord CartesianX (DInteger i64_MIN 7)) /\
  record_from_node no_float no_float n = Ok (mkRecord CartesianX (DInteger i64_MIN 7)).
Proof. vm_compute. repeat split. Qed.

(** <cartesianX type="ScaledInteger" minimum="-5" scale="2.5"/> versus maximum written out *)
Example ex_default_maximum :
  let n := elem [(TYPE, s_ScaledInteger); (s_minimum, s_m5); (s_scale, s_2_5)] in
  attribute TYPE n = Some s_ScaledInteger /\ attribute s_maximum n = None /\
  data_type_from_node tiny_f64 tiny_f32 (add_attr s_maximum s_i64_max n)
  = Ok (DScaledInteger (-5) i64_MAX (mkF64 0x4004000000000000 s_2_5) (mkF64 0 [])) /\
  data_type_from_node tiny_f64 tiny_f32 n
  = Ok (DScaledInteger (-5) i64_MAX (mkF64 0x4004000000000000 s_2_5) (mkF64 0 [])).
Proof. vm_compute. repeat split. Qed.

(** <cartesianX type="ScaledInteger" minimum="-5" maximum="7"/> versus scale="1" written out:
    same bits, different source text *)
Example ex_default_scale :
  let n := elem [(TYPE, s_ScaledInteger); (s_minimum, s_m5); (s_maximum, s_7)] in
  attribute TYPE n = Some s_ScaledInteger /\ attribute s_scale n = None /\
  tiny_f64 s_one = Some f64_one_bits /\
  data_type_from_node tiny_f64 tiny_f32 (add_attr s_scale s_one n)
  = Ok (DScaledInteger (-5) 7 (mkF64 f64_one_bits s_one) (mkF64 0 [])) /\
  data_type_from_node tiny_f64 tiny_f32 n
  = Ok (DScaledInteger (-5) 7 (mkF64 f64_one_bits []) (mkF64 0 [])).
Proof. vm_compute. repeat split. Qed.

Example ex_default_offset :
  let n := elem [(TYPE, s_ScaledInteger); (s_minimum, s_m5); (s_maximum, s_7); (s_scale, s_2_5)] in
  attribute TYPE n = Some s_ScaledInteger /\ attribute s_offset n = None /\
  tiny_f64 s_zero = Some 0 /\
  data_type_from_node tiny_f64 tiny_f32 (add_attr s_offset s_zero n)
  = Ok (DScaledInteger (-5) 7 (mkF64 0x4004000000000000 s_2_5) (mkF64 0 s_zero)) /\
  data_type_from_node tiny_f64 tiny_f32 n
  = Ok (DScaledInteger (-5) 7 (mkF64 0x4004000000000000 s_2_5) (mkF64 0 [])).
Proof. vm_compute. repeat split. Qed.

(** <cartesianX type="Float" minimum="0"/> versus precision="double" written out *)
Example ex_default_precision :
  let n := elem [(TYPE, s_Float); (s_minimum, s_zero)] in
  attribute TYPE n = Some s_Float /\ attribute s_precision n = None /\
  data_type_from_node tiny_f64 tiny_f32 (add_attr s_precision s_double n)
  = Ok (DDouble (Some (mkF64 0 s_zero)) None) /\
  data_type_from_node tiny_f64 tiny_f32 n = Ok (DDouble (Some (mkF64 0 s_zero)) None).
Proof. vm_compute. repeat split. Qed.

(** <cartesianX type="Float" precision="single"/> versus minimum="0" maximum="1" written out *)
Example ex_float_limits :
  let n := elem [(TYPE, s_Float); (s_precision, s_single)] in
  attribute TYPE n = Some s_Float /\
  limit_parses tiny_f64 tiny_f32 n s_zero /\ limit_parses tiny_f64 tiny_f32 n s_one /\
  data_type_from_node tiny_f64 tiny_f32 (add_attr s_maximum s_one (add_attr s_minimum s_zero n))
  = Ok (DSingle (Some (mkF32 0 s_zero)) (Some (mkF32 0x3f800000 s_one))) /\
  data_type_from_node tiny_f64 tiny_f32 n = Ok (DSingle None None).
Proof.
  cbv zeta. split; [reflexivity|]. split; [vm_compute; eauto|]. split; [vm_compute; eauto|].
  vm_compute. split; reflexivity.
Qed.

(** the first-match rule: with minimum="-5" already present, appending minimum="7" changes nothing *)
Example ex_shadowed :
  let n := elem [(TYPE, s_Integer); (s_minimum, s_m5)] in
  data_type_from_node no_float no_float (add_attr s_minimum s_7 n) = Ok (DInteger (-5) i64_MAX).
Proof. vm_compute. reflexivity. Qed.

(** ** What is false *)

(** scale: if the oracle rejects "1", writing the default out turns a valid prototype into an
    Invalid error - so "the written-out text parses" is a necessary hypothesis *)
Lemma default_scale_unparsed_refuted :
  ~ (forall (pf64 pf32 : xstr -> option N) (n : xnode),
       attribute TYPE n = Some s_ScaledInteger -> attribute s_scale n = None ->
       res_map dtype_of (data_type_from_node pf64 pf32 (add_attr s_scale s_one n))
       = res_map dtype_of (data_type_from_node pf64 pf32 n)).
Proof.
  intros H. specialize (H no_float no_float (elem [(TYPE, s_ScaledInteger)]) eq_refl eq_refl).
  vm_compute in H. discriminate.
Qed.

(** scale: even with the right bits the two types are not EQUAL - the model keeps the source text
    of a float read from the document ("1") and the made-up default has none *)
Lemma default_scale_exact_refuted :
  ~ (forall (pf64 pf32 : xstr -> option N) (n : xnode),
       attribute TYPE n = Some s_ScaledInteger -> attribute s_scale n = None ->
       pf64 s_one = Some f64_one_bits ->
       data_type_from_node pf64 pf32 (add_attr s_scale s_one n) = data_type_from_node pf64 pf32 n).
Proof.
  intros H. specialize (H tiny_f64 tiny_f32 (elem [(TYPE, s_ScaledInteger)]) eq_refl eq_refl eq_refl).
  vm_compute in H. discriminate.
Qed.

(** scale: with other bits for "1" the erased types differ (so [b = f64_one_bits] is needed for
    [default_scale_bits]; [default_scale] up to [dtype_of] does not need it) *)
Lemma default_scale_bits_other_value_refuted :
  ~ (forall (pf64 pf32 : xstr -> option N) (n : xnode) (b : N),
       attribute TYPE n = Some s_ScaledInteger -> attribute s_scale n = None ->
       pf64 s_one = Some b ->
       res_map erase_text (data_type_from_node pf64 pf32 (add_attr s_scale s_one n))
       = res_map erase_text (data_type_from_node pf64 pf32 n)).
Proof.
  intros H. specialize (H (fun _ => Some 0) no_float (elem [(TYPE, s_ScaledInteger)]) 0 eq_refl eq_refl eq_refl).
  vm_compute in H. discriminate.
Qed.

(** Float limits: a limit text the oracle rejects makes the element invalid *)
Lemma float_limit_unparsed_refuted :
  ~ (forall (pf64 pf32 : xstr -> option N) (n : xnode) (t : xstr),
       attribute TYPE n = Some s_Float ->
       res_map dtype_of (data_type_from_node pf64 pf32 (add_attr s_minimum t n))
       = res_map dtype_of (data_type_from_node pf64 pf32 n)).
Proof.
  intros H. specialize (H no_float no_float (elem [(TYPE, s_Float)]) s_zero eq_refl).
  vm_compute in H. discriminate.
Qed.

Print Assumptions default_minimum_integer.
Print Assumptions default_maximum_integer.
Print Assumptions default_minimum_scaled.
Print Assumptions default_maximum_scaled.
Print Assumptions default_scale.
Print Assumptions default_scale_bits.
Print Assumptions default_offset.
Print Assumptions default_offset_bits.
Print Assumptions default_precision.
Print Assumptions float_limit_irrelevant.
Print Assumptions float_limits_irrelevant.
Print Assumptions record_add_attr_exact.
Print Assumptions record_add_attr_upto.
Print Assumptions float_limits_irrelevant_record.
