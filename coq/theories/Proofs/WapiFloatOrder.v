(** Writer API, part 5: Rust's comparisons on non-NaN f64 values form a total
    preorder in which -0 and +0 are equivalent.  Proved structurally: Flocq's
    comparison of two floats is the lexicographic comparison of
    (class, exponent, mantissa) with the last two negated for negative
    numbers - no real-number reasoning is involved. *)
From Coq Require Import ZArith Lia Bool.
From Flocq Require Import Binary Bits.
From E57 Require Import Base.Prelude Base.Floats.
Open Scope Z_scope.

Definition ford (x : binary64) : Z * Z * Z :=
  match x with
  | B754_nan _ _ _ _ _ => (0, 0, 0)
  | B754_infinity _ _ true => (-2, 0, 0)
  | B754_infinity _ _ false => (2, 0, 0)
  | B754_zero _ _ _ => (0, 0, 0)
  | B754_finite _ _ true m e _ => (-1, - e, Zneg m)
  | B754_finite _ _ false m e _ => (1, e, Zpos m)
  end.

Definition lex3 (a b : Z * Z * Z) : comparison :=
  let '(a1, a2, a3) := a in
  let '(b1, b2, b3) := b in
  match a1 ?= b1 with
  | Eq => match a2 ?= b2 with Eq => a3 ?= b3 | c => c end
  | c => c
  end.

Definition not_nan (x : binary64) : Prop := f64_is_nan x = false.

Lemma compare_ford x y : not_nan x -> not_nan y -> b64_compare x y = Some (lex3 (ford x) (ford y)).
Proof.
  unfold not_nan, f64_is_nan, b64_compare, Bcompare.
  destruct x as [sx|sx|sx px Hx|sx mx ex Hx], y as [sy|sy|sy py Hy|sy my ey Hy];
    cbn [is_nan]; intros H1 H2; try discriminate;
    try (destruct sx; reflexivity); try (destruct sy; reflexivity);
    try (destruct sx, sy; reflexivity).
  cbn. destruct sx, sy; cbn [ford lex3]; try reflexivity.
  change (-1 ?= -1) with Eq. cbv iota.
  rewrite Z.compare_opp. rewrite (Z.compare_antisym ex ey).
  destruct (ex ?= ey); cbn [CompOpp]; try reflexivity.
Qed.

(** lexicographic order on triples, as propositions *)
Definition lexlt (a b : Z * Z * Z) : Prop :=
  let '(a1, a2, a3) := a in
  let '(b1, b2, b3) := b in
  a1 < b1 \/ (a1 = b1 /\ (a2 < b2 \/ (a2 = b2 /\ a3 < b3))).

Lemma lex3_spec a b :
  match lex3 a b with Lt => lexlt a b | Eq => a = b | Gt => lexlt b a end.
Proof.
  destruct a as [[a1 a2] a3], b as [[b1 b2] b3]. unfold lex3, lexlt.
  destruct (Z.compare_spec a1 b1); [|lia|lia].
  destruct (Z.compare_spec a2 b2); [|lia|lia].
  destruct (Z.compare_spec a3 b3); [subst; reflexivity|lia|lia].
Qed.

Lemma lexlt_irrefl a : ~ lexlt a a.
Proof. destruct a as [[a1 a2] a3]. unfold lexlt. lia. Qed.
Lemma lexlt_trans a b c : lexlt a b -> lexlt b c -> lexlt a c.
Proof. destruct a as [[a1 a2] a3], b as [[b1 b2] b3], c as [[c1 c2] c3]. unfold lexlt. lia. Qed.
Lemma lexlt_total a b : lexlt a b \/ a = b \/ lexlt b a.
Proof.
  destruct a as [[a1 a2] a3], b as [[b1 b2] b3]. unfold lexlt.
  destruct (Z.lt_total a1 b1) as [|[|]]; [lia| |lia].
  destruct (Z.lt_total a2 b2) as [|[|]]; [lia| |lia].
  destruct (Z.lt_total a3 b3) as [|[|]]; [lia| |lia].
  right. left. subst. reflexivity.
Qed.

(** the four comparisons in terms of the key *)
Lemma f64_lt_key x y : not_nan x -> not_nan y -> (f64_lt x y = true <-> lexlt (ford x) (ford y)).
Proof.
  intros Hx Hy. unfold f64_lt. rewrite (compare_ford x y Hx Hy).
  pose proof (lex3_spec (ford x) (ford y)) as H. destruct (lex3 (ford x) (ford y)); split; intros G;
    try discriminate; try reflexivity; try exact H.
  - rewrite H in G. exfalso. apply (lexlt_irrefl _ G).
  - exfalso. apply (lexlt_irrefl (ford x)). apply (lexlt_trans _ _ _ G H).
Qed.

Lemma f64_gt_lt x y : not_nan x -> not_nan y -> f64_gt x y = f64_lt y x.
Proof.
  intros Hx Hy. unfold f64_gt, f64_lt. rewrite (compare_ford x y Hx Hy), (compare_ford y x Hy Hx).
  pose proof (lex3_spec (ford x) (ford y)) as H1. pose proof (lex3_spec (ford y) (ford x)) as H2.
  destruct (lex3 (ford x) (ford y)), (lex3 (ford y) (ford x)); try reflexivity; exfalso.
  - rewrite H1 in H2. apply (lexlt_irrefl _ H2).
  - apply (lexlt_irrefl (ford x)). apply (lexlt_trans _ _ _ H1 H2).
  - rewrite H2 in H1. apply (lexlt_irrefl _ H1).
  - apply (lexlt_irrefl (ford x)). apply (lexlt_trans _ _ _ H2 H1).
Qed.

Lemma f64_le_key x y : not_nan x -> not_nan y -> (f64_le x y = true <-> ~ lexlt (ford y) (ford x)).
Proof.
  intros Hx Hy. unfold f64_le. rewrite (compare_ford x y Hx Hy).
  pose proof (lex3_spec (ford x) (ford y)) as H. destruct (lex3 (ford x) (ford y)); split; intros G;
    try discriminate; try reflexivity.
  - rewrite H. apply lexlt_irrefl.
  - intros G'. apply (lexlt_irrefl (ford x)). apply (lexlt_trans _ _ _ H G').
  - exfalso. apply G. exact H.
Qed.

(** the order facts the bounds proofs use *)
Lemma f64_le_refl x : not_nan x -> f64_le x x = true.
Proof. intros H. apply (f64_le_key x x H H). apply lexlt_irrefl. Qed.

Lemma f64_not_lt_le x y : not_nan x -> not_nan y -> f64_lt x y = false -> f64_le y x = true.
Proof.
  intros Hx Hy H. apply (f64_le_key y x Hy Hx). intros G.
  apply (f64_lt_key x y Hx Hy) in G. congruence.
Qed.

Lemma f64_lt_le x y : not_nan x -> not_nan y -> f64_lt x y = true -> f64_le x y = true.
Proof.
  intros Hx Hy H. apply (f64_le_key x y Hx Hy). apply (f64_lt_key x y Hx Hy) in H.
  intros G. apply (lexlt_irrefl (ford x)). apply (lexlt_trans _ _ _ H G).
Qed.

Lemma f64_lt_le_trans x y z : not_nan x -> not_nan y -> not_nan z ->
  f64_lt x y = true -> f64_le y z = true -> f64_lt x z = true.
Proof.
  intros Hx Hy Hz H1 H2. apply (f64_lt_key x z Hx Hz).
  apply (f64_lt_key x y Hx Hy) in H1. apply (f64_le_key y z Hy Hz) in H2.
  destruct (lexlt_total (ford y) (ford z)) as [G|[G|G]].
  - apply (lexlt_trans _ _ _ H1 G).
  - rewrite <- G. exact H1.
  - contradiction.
Qed.

Lemma f64_le_lt_trans x y z : not_nan x -> not_nan y -> not_nan z ->
  f64_le x y = true -> f64_lt y z = true -> f64_lt x z = true.
Proof.
  intros Hx Hy Hz H1 H2. apply (f64_lt_key x z Hx Hz).
  apply (f64_lt_key y z Hy Hz) in H2. apply (f64_le_key x y Hx Hy) in H1.
  destruct (lexlt_total (ford x) (ford y)) as [G|[G|G]].
  - apply (lexlt_trans _ _ _ G H2).
  - rewrite G. exact H2.
  - contradiction.
Qed.

Lemma f64_le_trans x y z : not_nan x -> not_nan y -> not_nan z ->
  f64_le x y = true -> f64_le y z = true -> f64_le x z = true.
Proof.
  intros Hx Hy Hz H1 H2. apply (f64_le_key x z Hx Hz).
  apply (f64_le_key x y Hx Hy) in H1. apply (f64_le_key y z Hy Hz) in H2. intros G.
  destruct (lexlt_total (ford y) (ford z)) as [G'|[G'|G']].
  - apply H1. apply (lexlt_trans _ _ _ G' G).
  - apply H1. rewrite G'. exact G.
  - contradiction.
Qed.

(** comparisons with a NaN are false: Rust's [PartialOrd] *)
Lemma f64_lt_nan_l x y : f64_is_nan x = true -> f64_lt x y = false.
Proof. destruct x; try discriminate. intros _. destruct y; reflexivity. Qed.
Lemma f64_lt_nan_r x y : f64_is_nan y = true -> f64_lt x y = false.
Proof. destruct y; try discriminate. intros _. destruct x; reflexivity. Qed.
Lemma f64_gt_nan_l x y : f64_is_nan x = true -> f64_gt x y = false.
Proof. destruct x; try discriminate. intros _. destruct y; reflexivity. Qed.
Lemma f64_gt_nan_r x y : f64_is_nan y = true -> f64_gt x y = false.
Proof. destruct y; try discriminate. intros _. destruct x; reflexivity. Qed.

(** -0 and +0 are not distinguished *)
Lemma f64_zero_equiv s s' :
  f64_lt (B754_zero 53 1024 s) (B754_zero 53 1024 s') = false /\
  f64_gt (B754_zero 53 1024 s) (B754_zero 53 1024 s') = false.
Proof. split; reflexivity. Qed.
