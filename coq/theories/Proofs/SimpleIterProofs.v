(** C05, the iteration: the simple iterator and the raw iterator drive the same
    sequence of [advance] calls; the simple iterator's output queue holds the
    [view] of the raw points it has popped ahead of the raw iterator.  Batching
    per packet and the early [None] at [records] change neither count nor order.
    Everything is proved for an arbitrary interpretation of the page-layer
    operations ([grun step]); [rrun] and [rrun_spec] are instances. *)
From Coq Require Import ZArith NArith Bool List Lia ZifyN ZifyNat ZifyBool.
From Flocq Require Import Binary Bits.
From E57 Require Import Base.Prelude Base.Floats Model.PagedReader Model.BsRead Model.Record Model.Meta
  Model.Prog Model.QueueReader Model.Normalize Model.SimpleIter Spec.SimpleSpec
  Proofs.SimpleRun Proofs.SimpleQueues Proofs.SimplePoint Proofs.SimpleDefined.
Open Scope N_scope.

Lemma typed_map pc raw : Forall2 (fun t v => value_matches t v = true) (proto_dtypes pc) raw -> raw_typed pc raw.
Proof.
  unfold raw_typed, proto_dtypes. generalize (pc_prototype pc). intros proto. revert raw.
  induction proto as [|r proto IH]; intros raw H; inversion H; subst; constructor; [assumption|].
  apply IH. assumption.
Qed.

Lemma Forall2_exists {X Y} (R : X -> Y -> Prop) (l : list X) :
  Forall (fun x => exists y, R x y) l -> exists l', Forall2 R l l'.
Proof.
  induction 1 as [|x l [y Hy] _ [l' IH]]; [exists []; constructor|].
  exists (y :: l'). constructor; assumption.
Qed.

Lemma res_all_Forall2 {X Y} (f : X -> res Y) l l' : Forall2 (fun x y => f x = Ok y) l l' -> res_all f l = Ok l'.
Proof. induction 1 as [|x y l l' H _ IH]; cbn [res_all]; [reflexivity|]. rewrite H, IH. reflexivity. Qed.

Lemma res_all_Forall2_inv {X Y} (f : X -> res Y) : forall l l', res_all f l = Ok l' -> Forall2 (fun x y => f x = Ok y) l l'.
Proof.
  induction l as [|x l IH]; intros l' H; cbn [res_all] in H.
  - injection H as <-. constructor.
  - destruct (f x) as [y| |] eqn:E; try discriminate. destruct (res_all f l) as [ys| |]; try discriminate.
    injection H as <-. constructor; [exact E|]. apply IH. reflexivity.
Qed.

Section Sim.
  Variables (fcos fsin fasin : binary64 -> binary64) (fatan2 : binary64 -> binary64 -> binary64).
  Context {S : Type} (step : pr_op -> S -> S * res pr_out).
  Variables (pc : pointcloud) (o : opts) (rgs : ranges) (log_size : N).
  Hypothesis Hrg : prepare_ranges pc = Ok rgs.
  Hypothesis Hint : index_records_are_integers pc = true.

  Local Notation rot := (fst (prepare_transform (pc_transform pc))).
  Local Notation tr := (snd (prepare_transform (pc_transform pc))).
  Local Notation View := (view fcos fsin fasin fatan2 pc o).
  Local Notation post := (postprocess fcos fsin fasin fatan2 o rot tr).
  Local Notation inset := (fun raw => invalid_states_in_set pc raw = true).
  Local Notation viewed := (fun raw p => View raw = Ok p).

  (** the simple iterator of this point cloud and option vector, in a given dynamic state *)
  Definition mk (q : qr) (read : N) (pts : list point) : simple_iter :=
    mkSimple pc q o rot tr (prepare_indices (pc_prototype pc)) read pts rgs.

  (** ** Accumulators *)
  Lemma raw_collect_st_acc : forall f rit acc s,
    grun step (raw_collect_st f log_size rit acc) s =
    let '(s', r) := grun step (raw_collect_st f log_size rit []) s in
    (s', res_map (fun x => (acc ++ fst x, snd x)) r).
  Proof.
    induction f as [|f IH]; intros rit acc s; cbn [raw_collect_st]; [reflexivity|].
    rewrite !grun_bind. destruct (grun step (raw_next log_size rit) s) as [s1 [[rit' o']| |]]; try reflexivity.
    destruct o' as [|p].
    - cbn [grun res_map fst snd]. rewrite app_nil_r. reflexivity.
    - rewrite (IH rit' (acc ++ [p])), (IH rit' ([] ++ [p])).
      destruct (grun step (raw_collect_st f log_size rit' []) s1) as [s2 [[l it2]| |]]; cbn [res_map fst snd]; try reflexivity.
      rewrite <- app_assoc. reflexivity.
  Qed.

  Lemma simple_collect_acc : forall f it acc s,
    grun step (simple_collect fcos fsin fasin fatan2 f log_size it acc) s =
    let '(s', r) := grun step (simple_collect fcos fsin fasin fatan2 f log_size it []) s in
    (s', res_map (app acc) r).
  Proof.
    induction f as [|f IH]; intros it acc s; cbn [simple_collect]; [reflexivity|].
    rewrite !grun_bind.
    destruct (grun step (simple_next fcos fsin fasin fatan2 log_size it) s) as [s1 [[it' o']| |]]; try reflexivity.
    destruct o' as [|p].
    - cbn [grun res_map]. rewrite app_nil_r. reflexivity.
    - rewrite (IH it' (acc ++ [p])), (IH it' ([] ++ [p])).
      destruct (grun step (simple_collect fcos fsin fasin fatan2 f log_size it' []) s1) as [s2 [l| |]];
        cbn [res_map]; try reflexivity.
      rewrite <- app_assoc. reflexivity.
  Qed.

  (** ** The raw iterator with a complete point in its queues does not touch the file *)
  Lemma raw_next_pending q records read v qs1 s :
    read < records -> 1 <= qr_available q -> pop_fronts (q_queues q) = Ok (v, qs1) ->
    grun step (raw_next log_size (mkRaw q records read)) s =
    (s, Ok (mkRaw (mkQr (q_proto q) (q_streams q) qs1) records (read + 1), Item v)).
  Proof.
    intros Hr Hav Hpop. unfold raw_next. cbn [ri_records ri_read ri_q].
    destruct (records <=? read) eqn:E; [lia|]. unfold refill_fuel. cbn [refill].
    destruct (qr_available q <? 1) eqn:E1; [lia|]. cbn [rret rbind]. rewrite Hpop. reflexivity.
  Qed.

  Lemma raw_next_done q records read s : records <= read ->
    grun step (raw_next log_size (mkRaw q records read)) s = (s, Ok (mkRaw q records read, Done)).
  Proof.
    intros H. unfold raw_next. cbn [ri_records ri_read]. destruct (records <=? read) eqn:E; [reflexivity|lia].
  Qed.

  (** one step of the collection that delivers an item *)
  Lemma raw_collect_item f rit s s1 rit' v :
    grun step (raw_next log_size rit) s = (s1, Ok (rit', Item v)) ->
    grun step (raw_collect_st (Datatypes.S f) log_size rit []) s =
    let '(s', r) := grun step (raw_collect_st f log_size rit' []) s1 in
    (s', res_map (fun x => (v :: fst x, snd x)) r).
  Proof.
    intros H. cbn [raw_collect_st]. rewrite grun_bind, H. rewrite raw_collect_st_acc. reflexivity.
  Qed.

  (** ** Complete points pending in the raw iterator's queues are what it
      delivers next or leaves over *)
  Lemma pending_prefix : forall f q records read P qsP s s' raws itf,
    pop_raws (length P) (q_queues q) = Ok (P, qsP) -> N.of_nat (length P) <= qr_available q ->
    grun step (raw_collect_st f log_size (mkRaw q records read) []) s = (s', Ok (raws, itf)) ->
    exists tail, raws ++ leftover itf = P ++ tail.
  Proof.
    induction f as [|f IH]; intros q records read P qsP s s' raws itf HP Hle H; [discriminate|].
    destruct (records <=? read) eqn:E.
    - cbn [raw_collect_st] in H. rewrite grun_bind, raw_next_done in H by lia. cbn [grun] in H.
      injection H as _ <- <-. cbn [app]. eapply pending_leftover; eassumption.
    - destruct P as [|v P'].
      + exists (raws ++ leftover itf). reflexivity.
      + cbn [length pop_raws] in HP.
        destruct (pop_fronts (q_queues q)) as [[vs qs1]| |] eqn:Epop; try discriminate.
        destruct (pop_raws (length P') qs1) as [[P1 q1]| |] eqn:E1; try discriminate.
        injection HP as -> -> ->. cbn [length] in Hle.
        pose proof (avail_pop_fronts _ _ _ ltac:(rewrite <- qr_available_avail; lia) Epop) as Hav.
        rewrite <- qr_available_avail in Hav.
        rewrite (raw_collect_item f _ s s _ v (raw_next_pending q records read v qs1 s ltac:(lia) ltac:(lia) Epop)) in H.
        destruct (grun step (raw_collect_st f log_size _ []) s) as [s2 [[l it2]| |]] eqn:E2; cbn [res_map fst snd] in H;
          try discriminate.
        injection H as _ <- <-.
        destruct (IH _ _ _ P' qsP _ _ _ _ E1 ltac:(cbn [q_queues qr_available]; change (avail qs1) with (avail qs1);
                    rewrite qr_available_avail; cbn [q_queues]; lia) E2) as [tail Ht].
        exists tail. cbn [app]. f_equal. exact Ht.
  Qed.

  (** ** Popping and converting a batch *)
  Lemma pop_points_view : forall n q qa ra pa P qs' ptsn,
    pop_raws n (q_queues q) = Ok (P, qs') ->
    Forall (fun raw => length raw = length (pc_prototype pc)) P ->
    Forall2 viewed P ptsn ->
    exists pts0, pop_points n (mk qa ra pa) q = Ok (pts0, mkQr (q_proto q) (q_streams q) qs') /\
                 map post pts0 = ptsn.
  Proof.
    induction n as [|n IH]; intros q qa ra pa P qs' ptsn HP HL HV; cbn [pop_raws pop_points] in *.
    - injection HP as <- <-. inversion HV; subst. exists []. destruct q; split; reflexivity.
    - destruct (pop_fronts (q_queues q)) as [[vs qs1]| |] eqn:Epop; try discriminate.
      destruct (pop_raws n qs1) as [[P1 q1]| |] eqn:E1; try discriminate. injection HP as <- <-.
      inversion HV as [|? p ? ptsn' Hv HV']; subst. inversion HL as [|? ? Hl HL']; subst.
      pose proof (pop_point_view fcos fsin fasin fatan2 pc qa o ra pa rgs vs Hl Hrg) as Hpv. cbv zeta in Hpv.
      fold (mk qa ra pa) in Hpv. rewrite Hv in Hpv.
      destruct (pop_point_model (mk qa ra pa) vs) as [p0| |]; cbn [res_map] in Hpv; try discriminate.
      injection Hpv as Hp0.
      destruct (IH (mkQr (q_proto q) (q_streams q) qs1) qa ra pa P1 qs' ptsn' E1 HL' HV') as (pts0 & Hpp & Hm).
      rewrite Hpp. cbn [q_proto q_streams]. exists (p0 :: pts0). split; [reflexivity|].
      cbn [map]. rewrite Hp0, Hm. reflexivity.
  Qed.

  (** ** The simulation *)
  Definition related (q_r q_s : qr) (P : list (list rvalue)) (pts : list point) : Prop :=
    q_proto q_s = q_proto q_r /\ q_streams q_s = q_streams q_r /\
    pop_raws (length P) (q_queues q_r) = Ok (P, q_queues q_s) /\
    N.of_nat (length P) <= qr_available q_r /\
    Forall2 viewed P pts /\
    qr_wf q_r /\ q_proto q_r = proto_dtypes pc.

  Lemma batch_views P proto : Forall (fun vs => Forall2 (fun t v => value_matches t v = true) proto vs) P ->
    proto = proto_dtypes pc -> Forall inset P ->
    Forall (fun raw => length raw = length (pc_prototype pc)) P /\ exists ptsn, Forall2 viewed P ptsn.
  Proof.
    intros HT -> HI. split.
    - revert HT. apply Forall_impl. intros raw H. apply raw_typed_length. apply typed_map. exact H.
    - apply Forall2_exists. rewrite Forall_forall in *. intros raw Hin.
      apply (view_defined fcos fsin fasin fatan2 pc o rgs raw); [apply typed_map; apply HT; exact Hin|exact Hrg|exact Hint|].
      apply HI. exact Hin.
  Qed.

  Lemma sim : forall f q_r q_s P pts read s s' raws itf,
    related q_r q_s P pts ->
    grun step (raw_collect_st f log_size (mkRaw q_r (pc_records pc) read) []) s = (s', Ok (raws, itf)) ->
    Forall inset (raws ++ leftover itf) ->
    exists out, grun step (simple_collect fcos fsin fasin fatan2 f log_size (mk q_s read pts) []) s = (s', Ok out) /\
                Forall2 viewed raws out.
  Proof.
    induction f as [|f IH]; intros q_r q_s P pts read s s' raws itf HR H HI; [discriminate|].
    destruct HR as (Hproto & Hstreams & HP & Hle & HV & Hwf & Hpc).
    destruct (pc_records pc <=? read) eqn:E.
    - (* both are done *)
      cbn [raw_collect_st] in H. rewrite grun_bind, raw_next_done in H by lia. cbn [grun] in H.
      injection H as <- <- _. exists []. split; [|constructor].
      cbn [simple_collect]. rewrite grun_bind. unfold simple_next. cbn [mk si_pc si_read]. rewrite E. reflexivity.
    - destruct P as [|v P'].
      + (* output queue empty: both refill from the same state *)
        inversion HV; subst. cbn [length pop_raws] in HP. injection HP as HQ.
        assert (q_s = q_r) as -> by (destruct q_s, q_r; cbn in *; congruence).
        cbn [raw_collect_st] in H. apply grun_bind_ok in H. destruct H as (s1 & [rit' o'] & Hnext & H).
        unfold raw_next in Hnext. cbn [ri_records ri_read ri_q] in Hnext. rewrite E in Hnext.
        apply grun_bind_ok in Hnext. destruct Hnext as (s1' & q1 & Hrefill & Hnext).
        destruct (pop_fronts (q_queues q1)) as [[v qs1]| |] eqn:Epop; try discriminate.
        cbn [rret grun] in Hnext. injection Hnext as <- <- <-.
        rewrite raw_collect_st_acc in H. cbn [app] in H.
        destruct (grun step (raw_collect_st f log_size _ []) s1') as [s2 [[l it2]| |]] eqn:E2; cbn [res_map fst snd] in H;
          try discriminate.
        injection H as <- <- <-. cbn [app] in HI.
        destruct (refill_wf step _ _ _ _ _ Hrefill Hwf) as (Hwf1 & Hp1 & Hav1).
        set (a := qr_available q1) in *.
        destruct (pop_raws_avail (N.to_nat a) (q_queues q1) ltac:(unfold a; rewrite qr_available_avail; lia))
          as (Pn & qsn & HPn & HLn & Havn).
        destruct (N.to_nat a) as [|k] eqn:Ek; [lia|].
        pose proof HPn as HPn0. cbn [pop_raws] in HPn. rewrite Epop in HPn.
        destruct (pop_raws k qs1) as [[Pn' qn']| |] eqn:En'; try discriminate. injection HPn as <- <-.
        cbn [length] in HLn. injection HLn as HLn.
        pose proof (avail_pop_fronts _ _ _ ltac:(rewrite <- qr_available_avail; fold a; lia) Epop) as Hav2.
        rewrite <- qr_available_avail in Hav2. fold a in Hav2.
        assert (Hk : N.of_nat (length Pn') <= qr_available (mkQr (q_proto q1) (q_streams q1) qs1)).
        { rewrite qr_available_avail. cbn [q_queues]. lia. }
        rewrite <- HLn in En'.
        destruct (pending_prefix f _ _ _ Pn' qsn _ _ _ _ En' Hk E2) as [tail Ht].
        assert (HIn : Forall inset (v :: Pn')).
        { inversion HI as [|? ? Hv HI']; subst. constructor; [exact Hv|].
          rewrite Ht in HI'. apply Forall_app in HI'. apply HI'. }
        destruct Hwf1 as [Hlen1 HF1].
        destruct (pop_raws_typed _ _ _ _ _ HF1 HPn0) as [HT _].
        destruct (batch_views (v :: Pn') (q_proto q1) HT ltac:(congruence) HIn) as [HLen [ptsn HVn]].
        destruct (pop_points_view (Datatypes.S k) q1 q_r read [] (v :: Pn') qsn ptsn HPn0 HLen HVn) as (pts0 & Hpp & Hm).
        inversion HVn as [|? p ? rest Hvp HVn']; subst.
        destruct (pop_fronts_typed _ _ _ _ HF1 Epop) as [_ HF2].
        destruct (IH (mkQr (q_proto q1) (q_streams q1) qs1) (mkQr (q_proto q1) (q_streams q1) qsn) Pn' rest (read + 1)
                     s1' s2 l it2) as (out & Hout & HVout).
        { repeat split; try reflexivity; try assumption; cbn [q_proto q_streams q_queues]; congruence. }
        { exact E2. }
        { inversion HI; subst. assumption. }
        exists (p :: out). split; [|constructor; assumption].
        cbn [simple_collect]. rewrite grun_bind. unfold simple_next at 1. cbn [mk si_pc si_read si_points si_q]. rewrite E.
        rewrite (grun_bind_step step _ _ _ _ _ Hrefill). fold a. rewrite Ek.
        rewrite grun_bind, grun_rlift. fold (mk q_r read []). rewrite Hpp.
        cbn [si_opts si_rotation si_translation mk]. rewrite post_buffer_map. rewrite Hm. cbn [grun].
        rewrite simple_collect_acc. unfold with_queue. cbn [si_pc si_opts si_rotation si_translation si_indices si_ranges].
        fold (mk (mkQr (q_proto q1) (q_streams q1) qsn) (read + 1) rest). rewrite Hout. reflexivity.
      + (* a converted point is waiting: no file access on either side *)
        inversion HV as [|? p ? pts' Hvp HV']; subst. cbn [length pop_raws] in HP.
        destruct (pop_fronts (q_queues q_r)) as [[vs qs1]| |] eqn:Epop; try discriminate.
        destruct (pop_raws (length P') qs1) as [[P1 q1]| |] eqn:E1; try discriminate.
        injection HP as -> -> HQ. cbn [length] in Hle.
        pose proof (avail_pop_fronts _ _ _ ltac:(rewrite <- qr_available_avail; lia) Epop) as Hav.
        rewrite <- qr_available_avail in Hav.
        rewrite (raw_collect_item f _ s s _ v (raw_next_pending q_r _ read v qs1 s ltac:(lia) ltac:(lia) Epop)) in H.
        destruct (grun step (raw_collect_st f log_size _ []) s) as [s2 [[l it2]| |]] eqn:E2; cbn [res_map fst snd] in H;
          try discriminate.
        injection H as <- <- <-. cbn [app] in HI. destruct Hwf as [Hlen0 HF0].
        destruct (pop_fronts_typed _ _ _ _ HF0 Epop) as [_ HF2].
        destruct (IH (mkQr (q_proto q_r) (q_streams q_r) qs1) q_s P' pts' (read + 1) s s2 l it2) as (out & Hout & HVout).
        { repeat split; try assumption; cbn [q_proto q_streams q_queues]; try congruence.
          rewrite qr_available_avail. cbn [q_queues]. lia. }
        { exact E2. }
        { inversion HI; subst. assumption. }
        exists (p :: out). split; [|constructor; assumption].
        cbn [simple_collect]. rewrite grun_bind. unfold simple_next at 1. cbn [mk si_pc si_read si_points si_q]. rewrite E.
        cbn [grun]. rewrite simple_collect_acc. unfold with_queue.
        cbn [si_pc si_opts si_rotation si_translation si_indices si_ranges].
        fold (mk q_s (read + 1) pts'). rewrite Hout. reflexivity.
  Qed.
End Sim.
