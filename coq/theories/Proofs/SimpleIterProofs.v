(** C05, the iteration: the simple iterator and the raw iterator drive the same
    sequence of [advance] calls; the simple iterator's output queue holds the
    [view] of the raw points it has popped ahead of the raw iterator.  Batching
    per packet and the early [None] at [records] change neither count nor order.
    Everything is proved for an arbitrary interpretation of the page-layer
    operations ([grun step]); [rrun] and [rrun_spec] are instances. *)
From Coq Require Import ZArith NArith Bool List Lia ZifyN ZifyNat ZifyBool.
From Flocq Require Import Binary Bits.
From E57 Require Import Base.Prelude Base.Floats Model.PagedReader Model.BsRead Model.Record Model.Meta
  Model.Prog Model.QueueReader Model.Normalize Model.SimpleIter Spec.SimpleSpec
  Proofs.SimpleRun Proofs.SimpleQueues Proofs.SimplePoint Proofs.SimpleDefined.
Open Scope N_scope.

Lemma typed_map pc raw : Forall2 (fun t v => value_matches t v = true) (proto_dtypes pc) raw -> raw_typed pc raw.
Proof.
  unfold raw_typed, proto_dtypes. generalize (pc_prototype pc). intros proto. revert raw.
  induction proto as [|r proto IH]; intros raw H; inversion H; subst; constructor; [assumption|].
  apply IH. assumption.
Qed.

Lemma Forall2_exists {X Y} (R : X -> Y -> Prop) (l : list X) :
  Forall (fun x => exists y, R x y) l -> exists l', Forall2 R l l'.
Proof.
  induction 1 as [|x l [y Hy] _ [l' IH]]; [exists []; constructor|].
  exists (y :: l'). constructor; assumption.
Qed.

Lemma Forall2_cons_inv {X Y} (R : X -> Y -> Prop) x l l' : Forall2 R (x :: l) l' ->
  exists y l'', l' = y :: l'' /\ R x y /\ Forall2 R l l''.
Proof. intros H. inversion H; subst. eexists _, _. repeat split; eassumption. Qed.

Lemma res_all_Forall2 {X Y} (f : X -> res Y) l l' : Forall2 (fun x y => f x = Ok y) l l' -> res_all f l = Ok l'.
Proof. induction 1 as [|x y l l' H _ IH]; cbn [res_all]; [reflexivity|]. rewrite H, IH. reflexivity. Qed.

Lemma res_all_Forall2_inv {X Y} (f : X -> res Y) : forall l l', res_all f l = Ok l' -> Forall2 (fun x y => f x = Ok y) l l'.
Proof.
  induction l as [|x l IH]; intros l' H; cbn [res_all] in H.
  - injection H as <-. constructor.
  - destruct (f x) as [y| |] eqn:E; try discriminate. destruct (res_all f l) as [ys| |]; try discriminate.
    injection H as <-. constructor; [exact E|]. apply IH. reflexivity.
Qed.

Section Sim.
  Variables (fcos fsin fasin : binary64 -> binary64) (fatan2 : binary64 -> binary64 -> binary64).
  Context {S : Type} (step : pr_op -> S -> S * res pr_out).
  Variables (pc : pointcloud) (o : opts) (rgs : ranges) (log_size : N).
  Hypothesis Hrg : prepare_ranges pc = Ok rgs.
  Hypothesis Hint : index_records_are_integers pc = true.

  Local Notation rot := (fst (prepare_transform (pc_transform pc))).
  Local Notation tr := (snd (prepare_transform (pc_transform pc))).
  Local Notation View := (view fcos fsin fasin fatan2 pc o).
  Local Notation post := (postprocess fcos fsin fasin fatan2 o rot tr).
  Local Notation inset := (fun raw => invalid_states_in_set pc raw = true).
  Local Notation viewed := (fun raw p => View raw = Ok p).

  (** the simple iterator of this point cloud and option vector, in a given dynamic state *)
  Definition mk (q : qr) (read : N) (pts : list point) : simple_iter :=
    mkSimple pc q o rot tr (prepare_indices (pc_prototype pc)) read pts rgs.

  (** ** Accumulators *)
  Lemma raw_collect_st_acc : forall f rit acc s,
    grun step (raw_collect_st f log_size rit acc) s =
    let '(s', r) := grun step (raw_collect_st f log_size rit []) s in
    (s', res_map (fun x => (acc ++ fst x, snd x)) r).
  Proof.
    induction f as [|f IH]; intros rit acc s; cbn [raw_collect_st]; [reflexivity|].
    rewrite !grun_bind. destruct (grun step (raw_next log_size rit) s) as [s1 [[rit' o']| |]]; try reflexivity.
    destruct o' as [|p].
    - cbn [grun res_map fst snd]. rewrite app_nil_r. reflexivity.
    - rewrite (IH rit' (acc ++ [p])), (IH rit' ([] ++ [p])).
      destruct (grun step (raw_collect_st f log_size rit' []) s1) as [s2 [[l it2]| |]]; cbn [res_map fst snd]; try reflexivity.
      rewrite <- app_assoc. reflexivity.
  Qed.

  Lemma simple_collect_acc : forall f it acc s,
    grun step (simple_collect fcos fsin fasin fatan2 f log_size it acc) s =
    let '(s', r) := grun step (simple_collect fcos fsin fasin fatan2 f log_size it []) s in
    (s', res_map (app acc) r).
  Proof.
    induction f as [|f IH]; intros it acc s; cbn [simple_collect]; [reflexivity|].
    rewrite !grun_bind.
    destruct (grun step (simple_next fcos fsin fasin fatan2 log_size it) s) as [s1 [[it' o']| |]]; try reflexivity.
    destruct o' as [|p].
    - cbn [grun res_map]. rewrite app_nil_r. reflexivity.
    - rewrite (IH it' (acc ++ [p])), (IH it' ([] ++ [p])).
      destruct (grun step (simple_collect fcos fsin fasin fatan2 f log_size it' []) s1) as [s2 [l| |]];
        cbn [res_map]; try reflexivity.
      rewrite <- app_assoc. reflexivity.
  Qed.

  (** ** The raw iterator with a complete point in its queues does not touch the file *)
  Lemma raw_next_pending q records read v qs1 s :
    read < records -> 1 <= qr_available q -> pop_fronts (q_proto q) (q_queues q) = Ok (v, qs1) ->
    grun step (raw_next log_size (mkRaw q records read)) s =
    (s, Ok (mkRaw (mkQr (q_proto q) (q_streams q) qs1) records (read + 1), Item v)).
  Proof.
    intros Hr Hav Hpop. unfold raw_next. cbn [ri_records ri_read ri_q].
    destruct (records <=? read) eqn:E; [lia|]. unfold refill_fuel. cbn [refill].
    destruct (qr_available q <? 1) eqn:E1; [lia|]. cbn [rret rbind]. rewrite Hpop. reflexivity.
  Qed.

  Lemma raw_next_done q records read s : records <= read ->
    grun step (raw_next log_size (mkRaw q records read)) s = (s, Ok (mkRaw q records read, Done)).
  Proof.
    intros H. unfold raw_next. cbn [ri_records ri_read]. destruct (records <=? read) eqn:E; [reflexivity|lia].
  Qed.

  (** one step of the collection that delivers an item *)
  Lemma raw_collect_item f rit s s1 rit' v :
    grun step (raw_next log_size rit) s = (s1, Ok (rit', Item v)) ->
    grun step (raw_collect_st (Datatypes.S f) log_size rit []) s =
    let '(s', r) := grun step (raw_collect_st f log_size rit' []) s1 in
    (s', res_map (fun x => (v :: fst x, snd x)) r).
  Proof.
    intros H. cbn [raw_collect_st]. rewrite grun_bind, H. rewrite raw_collect_st_acc. reflexivity.
  Qed.

  (** ** Complete points pending in the raw iterator's queues, no more than the
      point cloud still has, are what it delivers next *)
  Lemma pending_prefix : forall f q records read P qsP s s' raws itf,
    pop_raws (length P) (q_proto q) (q_queues q) = Ok (P, qsP) -> N.of_nat (length P) <= qr_available q ->
    N.of_nat (length P) <= records - read ->
    grun step (raw_collect_st f log_size (mkRaw q records read) []) s = (s', Ok (raws, itf)) ->
    exists tail, raws = P ++ tail.
  Proof.
    induction f as [|f IH]; intros q records read P qsP s s' raws itf HP Hle Hrem H; [discriminate|].
    destruct (records <=? read) eqn:E.
    - destruct P as [|v P']; [exists raws; reflexivity|]. cbn [length] in Hrem. lia.
    - destruct P as [|v P'].
      + exists raws. reflexivity.
      + cbn [length pop_raws] in HP.
        destruct (pop_fronts (q_proto q) (q_queues q)) as [[vs qs1]| |] eqn:Epop; try discriminate.
        destruct (pop_raws (length P') _ qs1) as [[P1 q1]| |] eqn:E1; try discriminate.
        injection HP as -> -> ->. cbn [length] in Hle, Hrem.
        assert (Hav1 : 1 <= avail (q_proto q) (q_queues q)) by (rewrite <- qr_available_avail; lia).
        pose proof (avail_pop_fronts _ _ _ _ Hav1 Epop) as Hav.
        rewrite <- qr_available_avail in Hav, Hav1.
        assert (Hlt : read < records) by lia.
        rewrite (raw_collect_item f _ s s _ v (raw_next_pending q records read v qs1 s Hlt Hav1 Epop)) in H.
        destruct (grun step (raw_collect_st f log_size _ []) s) as [s2 [[l it2]| |]] eqn:E2; cbn [res_map fst snd] in H;
          try discriminate.
        injection H as _ <- <-.
        assert (Hk : N.of_nat (length P') <= qr_available (mkQr (q_proto q) (q_streams q) qs1)).
        { rewrite qr_available_avail. cbn [q_queues q_proto]. lia. }
        assert (Hr : N.of_nat (length P') <= records - (read + 1)) by lia.
        destruct (IH (mkQr (q_proto q) (q_streams q) qs1) records (read + 1) P' qsP s s2 l it2 E1 Hk Hr E2) as [tail Ht].
        exists tail. cbn [app]. f_equal. exact Ht.
  Qed.

  (** ** Popping and converting a batch *)
  Lemma pop_points_view : forall n q qa ra pa P qs' ptsn,
    pop_raws n (q_proto q) (q_queues q) = Ok (P, qs') ->
    Forall (fun raw => length raw = length (pc_prototype pc)) P ->
    Forall2 viewed P ptsn ->
    exists pts0, pop_points n (mk qa ra pa) q = Ok (pts0, mkQr (q_proto q) (q_streams q) qs') /\
                 map post pts0 = ptsn.
  Proof.
    induction n as [|n IH]; intros q qa ra pa P qs' ptsn HP HL HV; cbn [pop_raws pop_points] in *.
    - injection HP as <- <-. inversion HV; subst. exists []. destruct q; split; reflexivity.
    - destruct (pop_fronts (q_proto q) (q_queues q)) as [[vs qs1]| |] eqn:Epop; try discriminate.
      destruct (pop_raws n _ qs1) as [[P1 q1]| |] eqn:E1; try discriminate. injection HP as <- <-.
      inversion HV as [|? p ? ptsn' Hv HV']; subst. inversion HL as [|? ? Hl HL']; subst.
      pose proof (pop_point_view fcos fsin fasin fatan2 pc qa o ra pa rgs vs Hl Hrg) as Hpv. cbv zeta in Hpv.
      fold (mk qa ra pa) in Hpv. rewrite Hv in Hpv.
      destruct (pop_point_model (mk qa ra pa) vs) as [p0| |]; cbn [res_map] in Hpv; try discriminate.
      injection Hpv as Hp0.
      destruct (IH (mkQr (q_proto q) (q_streams q) qs1) qa ra pa P1 q1 ptsn' E1 HL' HV') as (pts0 & Hpp & Hm).
      rewrite Hpp. cbn [q_proto q_streams]. exists (p0 :: pts0). split; [reflexivity|].
      cbn [map]. rewrite Hp0, Hm. reflexivity.
  Qed.

  (** ** Steps of the simple iterator *)
  Lemma simple_next_done q read pts s : pc_records pc <= read ->
    grun step (simple_next fcos fsin fasin fatan2 log_size (mk q read pts)) s = (s, Ok (mk q read pts, Done)).
  Proof.
    intros H. unfold simple_next. cbn [mk si_pc si_read].
    destruct (pc_records pc <=? read) eqn:E; [reflexivity|lia].
  Qed.

  Lemma simple_next_waiting q read p pts s : read < pc_records pc ->
    grun step (simple_next fcos fsin fasin fatan2 log_size (mk q read (p :: pts))) s =
    (s, Ok (mk q (read + 1) pts, Item p)).
  Proof.
    intros H. unfold simple_next. cbn [mk si_pc si_read si_points].
    destruct (pc_records pc <=? read) eqn:E; [lia|]. reflexivity.
  Qed.

  Lemma simple_next_refill q read s s1 q1 pts0 q' p rest : read < pc_records pc ->
    grun step (refill (refill_fuel log_size) q) s = (s1, Ok q1) ->
    pop_points (N.to_nat (N.min (qr_available q1) (pc_records pc - read))) (mk q read []) q1 = Ok (pts0, q') ->
    map post pts0 = p :: rest ->
    grun step (simple_next fcos fsin fasin fatan2 log_size (mk q read [])) s =
    (s1, Ok (mk q' (read + 1) rest, Item p)).
  Proof.
    intros H Hrefill Hpp Hm. unfold simple_next. cbn [mk si_pc si_read si_points si_q].
    destruct (pc_records pc <=? read) eqn:E; [lia|].
    rewrite (grun_bind_step step _ _ _ _ _ Hrefill).
    rewrite grun_bind, grun_rlift. change (mkSimple pc q o rot tr (prepare_indices (pc_prototype pc)) read [] rgs) with (mk q read []).
    rewrite Hpp. cbn [si_opts si_rotation si_translation mk]. rewrite post_buffer_map, Hm. reflexivity.
  Qed.

  Lemma simple_collect_item f it s s1 it' p :
    grun step (simple_next fcos fsin fasin fatan2 log_size it) s = (s1, Ok (it', Item p)) ->
    grun step (simple_collect fcos fsin fasin fatan2 (Datatypes.S f) log_size it []) s =
    let '(s', r) := grun step (simple_collect fcos fsin fasin fatan2 f log_size it' []) s1 in
    (s', res_map (cons p) r).
  Proof.
    intros H. cbn [simple_collect]. rewrite grun_bind, H. rewrite simple_collect_acc. reflexivity.
  Qed.

  (** ** The simulation *)
  Definition related (q_r q_s : qr) (P : list (list rvalue)) (pts : list point) : Prop :=
    q_proto q_s = q_proto q_r /\ q_streams q_s = q_streams q_r /\
    pop_raws (length P) (q_proto q_r) (q_queues q_r) = Ok (P, q_queues q_s) /\
    N.of_nat (length P) <= qr_available q_r /\
    Forall2 viewed P pts /\
    qr_wf q_r /\ q_proto q_r = proto_dtypes pc.

  Lemma batch_views P proto : Forall (fun vs => Forall2 (fun t v => value_matches t v = true) proto vs) P ->
    proto = proto_dtypes pc -> Forall inset P ->
    Forall (fun raw => length raw = length (pc_prototype pc)) P /\ exists ptsn, Forall2 viewed P ptsn.
  Proof.
    intros HT -> HI. split.
    - revert HT. apply Forall_impl. intros raw H. apply raw_typed_length. apply typed_map. exact H.
    - apply Forall2_exists. rewrite Forall_forall in *. intros raw Hin.
      apply (view_defined fcos fsin fasin fatan2 pc o rgs raw); [apply typed_map; apply HT; exact Hin|exact Hrg|exact Hint|].
      apply HI. exact Hin.
  Qed.

  Lemma sim : forall f q_r q_s P pts read s s' raws itf,
    related q_r q_s P pts ->
    grun step (raw_collect_st f log_size (mkRaw q_r (pc_records pc) read) []) s = (s', Ok (raws, itf)) ->
    Forall inset raws ->
    exists out, grun step (simple_collect fcos fsin fasin fatan2 f log_size (mk q_s read pts) []) s = (s', Ok out) /\
                Forall2 viewed raws out.
  Proof.
    induction f as [|f IH]; intros q_r q_s P pts read s s' raws itf HR H HI; [discriminate|].
    destruct HR as (Hproto & Hstreams & HP & Hle & HV & Hwf & Hpc).
    destruct (pc_records pc <=? read) eqn:E.
    - (* both are done *)
      pose proof E as E'. apply N.leb_le in E'.
      cbn [raw_collect_st] in H. rewrite grun_bind, (raw_next_done _ _ _ _ E') in H. cbn [grun] in H.
      injection H as <- <- _. exists []. split; [|constructor].
      cbn [simple_collect]. rewrite grun_bind, (simple_next_done _ _ _ _ E'). reflexivity.
    - destruct P as [|v P'].
      + (* output queue empty: both refill from the same state *)
        inversion HV; subst. cbn [length pop_raws] in HP. injection HP as HQ.
        assert (q_s = q_r) as -> by (destruct q_s, q_r; cbn in *; congruence).
        cbn [raw_collect_st] in H. apply grun_bind_ok in H. destruct H as (s1 & [rit' o'] & Hnext & H).
        unfold raw_next in Hnext. cbn [ri_records ri_read ri_q] in Hnext. rewrite E in Hnext.
        apply grun_bind_ok in Hnext. destruct Hnext as (s1' & q1 & Hrefill & Hnext).
        destruct (pop_fronts (q_proto q1) (q_queues q1)) as [[v qs1]| |] eqn:Epop; try discriminate.
        cbn [rret grun] in Hnext. injection Hnext as <- <- <-.
        rewrite raw_collect_st_acc in H. cbn [app] in H.
        destruct (grun step (raw_collect_st f log_size _ []) s1') as [s2 [[l it2]| |]] eqn:E2; cbn [res_map fst snd] in H;
          try discriminate.
        injection H as <- <- <-. cbn [app] in HI.
        destruct (refill_wf step _ _ _ _ _ Hrefill Hwf) as (Hwf1 & Hp1 & Hav1).
        set (a := N.min (qr_available q1) (pc_records pc - read)) in *.
        assert (Ha0 : N.of_nat (N.to_nat a) <= avail (q_proto q1) (q_queues q1)) by (unfold a; rewrite <- qr_available_avail; lia).
        destruct (pop_raws_avail (N.to_nat a) (q_proto q1) (q_queues q1) Ha0) as (Pn & qsn & HPn & HLn & Havn).
        destruct (N.to_nat a) as [|k] eqn:Ek; [lia|].
        pose proof HPn as HPn0. cbn [pop_raws] in HPn. rewrite Epop in HPn.
        destruct (pop_raws k _ qs1) as [[Pn' qn']| |] eqn:En'; try discriminate. injection HPn as <- <-.
        cbn [length] in HLn. injection HLn as HLn.
        assert (Ha1 : 1 <= avail (q_proto q1) (q_queues q1)) by (rewrite <- qr_available_avail; lia).
        pose proof (avail_pop_fronts _ _ _ _ Ha1 Epop) as Hav2.
        rewrite <- qr_available_avail in Hav2.
        assert (Hk : N.of_nat (length Pn') <= qr_available (mkQr (q_proto q1) (q_streams q1) qs1)).
        { rewrite qr_available_avail. cbn [q_queues q_proto]. lia. }
        rewrite <- HLn in En'.
        assert (Hrem : N.of_nat (length Pn') <= pc_records pc - (read + 1)) by (unfold a in Ek; lia).
        destruct (pending_prefix f (mkQr (q_proto q1) (q_streams q1) qs1) (pc_records pc) (read + 1) Pn' qn' s1' s2 l it2 En' Hk Hrem E2) as [tail Ht].
        assert (HIn : Forall inset (v :: Pn')).
        { inversion HI as [|? ? Hv HI']; subst. constructor; [exact Hv|].
          apply Forall_app in HI'. apply HI'. }
        destruct Hwf1 as [Hlen1 HF1].
        destruct (pop_raws_typed _ _ _ _ _ HF1 HPn0) as [HT _].
        assert (Hpd : q_proto q1 = proto_dtypes pc) by congruence.
        destruct (batch_views (v :: Pn') (q_proto q1) HT Hpd HIn) as [HLen [ptsn HVn]].
        destruct (Forall2_cons_inv _ _ _ _ HVn) as (p & rest & -> & Hvp & HVn').
        destruct (pop_points_view (Datatypes.S k) q1 q_r read [] (v :: Pn') qn' (p :: rest) HPn0 HLen HVn) as (pts0 & Hpp & Hm).
        destruct (pop_fronts_typed _ _ _ _ HF1 Epop) as [_ HF2].
        destruct (IH (mkQr (q_proto q1) (q_streams q1) qs1) (mkQr (q_proto q1) (q_streams q1) qn') Pn' rest (read + 1)
                     s1' s2 l it2) as (out & Hout & HVout).
        { repeat split; try reflexivity; try assumption; cbn [q_proto q_streams q_queues]; congruence. }
        { exact E2. }
        { inversion HI; subst. assumption. }
        exists (p :: out). split; [|constructor; assumption].
        assert (Hlt : read < pc_records pc) by lia.
        rewrite <- Ek in Hpp. unfold a in Hpp.
        rewrite (simple_collect_item f _ _ _ _ _ (simple_next_refill q_r read s s1' q1 pts0 _ p rest Hlt Hrefill Hpp Hm)).
        rewrite Hout. reflexivity.
      + (* a converted point is waiting: no file access on either side *)
        inversion HV as [|? p ? pts' Hvp HV']; subst. cbn [length pop_raws] in HP.
        destruct (pop_fronts (q_proto q_r) (q_queues q_r)) as [[vs qs1]| |] eqn:Epop; try discriminate.
        destruct (pop_raws (length P') _ qs1) as [[P1 q1]| |] eqn:E1; try discriminate.
        injection HP as -> -> HQ. cbn [length] in Hle.
        assert (Hav1 : 1 <= avail (q_proto q_r) (q_queues q_r)) by (rewrite <- qr_available_avail; lia).
        pose proof (avail_pop_fronts _ _ _ _ Hav1 Epop) as Hav.
        rewrite <- qr_available_avail in Hav, Hav1.
        assert (Hlt : read < pc_records pc) by lia.
        rewrite (raw_collect_item f _ s s _ v (raw_next_pending q_r _ read v qs1 s Hlt Hav1 Epop)) in H.
        destruct (grun step (raw_collect_st f log_size _ []) s) as [s2 [[l it2]| |]] eqn:E2; cbn [res_map fst snd] in H;
          try discriminate.
        injection H as <- <- <-. cbn [app] in HI. destruct Hwf as [Hlen0 HF0].
        destruct (pop_fronts_typed _ _ _ _ HF0 Epop) as [_ HF2].
        destruct (IH (mkQr (q_proto q_r) (q_streams q_r) qs1) q_s P' pts' (read + 1) s s2 l it2) as (out & Hout & HVout).
        { repeat split; try assumption; cbn [q_proto q_streams q_queues]; try congruence.
          rewrite qr_available_avail. cbn [q_queues q_proto]. lia. }
        { exact E2. }
        { inversion HI; subst. assumption. }
        exists (p :: out). split; [|constructor; assumption].
        rewrite (simple_collect_item f _ _ _ _ _ (simple_next_waiting q_s read p pts' s Hlt)).
        rewrite Hout. reflexivity.
  Qed.
End Sim.

(** * The theorems of C05 about the iteration *)
Section Top.
  Variables (fcos fsin fasin : binary64 -> binary64) (fatan2 : binary64 -> binary64 -> binary64).
  Context {S : Type} (step : pr_op -> S -> S * res pr_out).

  (** [raw_collect_st] is [raw_collect] that also returns the final iterator *)
  Lemma raw_collect_fst : forall f log_size rit acc s,
    grun step (raw_collect f log_size rit acc) s =
    let '(s', r) := grun step (raw_collect_st f log_size rit acc) s in (s', res_map fst r).
  Proof.
    induction f as [|f IH]; intros log_size rit acc s; cbn [raw_collect raw_collect_st]; [reflexivity|].
    rewrite !grun_bind. destruct (grun step (raw_next log_size rit) s) as [s1 [[rit' o']| |]]; try reflexivity.
    destruct o' as [|p]; [reflexivity|]. apply IH.
  Qed.

  Lemma raw_read_all_fst fuel log_size pc s :
    grun step (raw_read_all fuel log_size pc) s =
    let '(s', r) := grun step (raw_read_all_st fuel log_size pc) s in (s', res_map fst r).
  Proof.
    unfold raw_read_all, raw_read_all_st. rewrite !grun_bind.
    destruct (grun step (raw_new _ _ _) s) as [s1 [rit| |]]; try reflexivity. apply raw_collect_fst.
  Qed.

  Lemma simple_open_run pc o rgs s s1 q0 :
    grun step (qr_new (pc_file_offset pc) (pc_records pc) (proto_dtypes pc)) s = (s1, Ok q0) ->
    prepare_ranges pc = Ok rgs ->
    grun step (simple_open pc o) s = (s1, Ok (mk pc o rgs q0 0 [])).
  Proof.
    intros Hq Hrg. unfold simple_open, simple_new, mk.
    destruct (prepare_transform (pc_transform pc)) as [rot tr]. cbn [fst snd].
    rewrite grun_bind, grun_bind, Hq, grun_bind, grun_rlift, Hrg. cbn [grun]. destruct o. reflexivity.
  Qed.

  (** A failing constructor: the queue reader, or the ranges *)
  Lemma simple_open_qr_fails pc o s s1 r :
    grun step (qr_new (pc_file_offset pc) (pc_records pc) (proto_dtypes pc)) s = (s1, r) -> (forall q, r <> Ok q) ->
    exists r', grun step (simple_open pc o) s = (s1, r') /\ forall it, r' <> Ok it.
  Proof.
    intros Hq Hr. unfold simple_open, simple_new.
    destruct (prepare_transform (pc_transform pc)) as [rot tr].
    rewrite grun_bind, grun_bind, Hq. destruct r as [q| |]; [exfalso; eapply Hr; reflexivity| |];
      eexists; (split; [reflexivity|discriminate]).
  Qed.

  Theorem simple_is_view : forall pc o log_size fuel s s' raws rgs,
    grun step (raw_read_all fuel log_size pc) s = (s', Ok raws) ->
    prepare_ranges pc = Ok rgs ->
    index_records_are_integers pc = true ->
    Forall (fun raw => invalid_states_in_set pc raw = true) raws ->
    exists pts, grun step (simple_read_all fcos fsin fasin fatan2 fuel log_size pc o) s = (s', Ok pts) /\
                res_all (view fcos fsin fasin fatan2 pc o) raws = Ok pts.
  Proof.
    intros pc o log_size fuel s s' raws rgs Hraw0 Hrg Hint HI.
    rewrite raw_read_all_fst in Hraw0.
    destruct (grun step (raw_read_all_st fuel log_size pc) s) as [s0 [[raws0 itf]| |]] eqn:Hraw; cbn [res_map fst] in Hraw0;
      try discriminate.
    injection Hraw0 as -> ->.
    unfold raw_read_all_st in Hraw. apply grun_bind_ok in Hraw. destruct Hraw as (s1 & rit & Hnew & Hraw).
    unfold raw_new in Hnew. apply grun_bind_ok in Hnew. destruct Hnew as (s1' & q0 & Hq & Hnew).
    cbn [rret grun] in Hnew. injection Hnew as <- <-.
    destruct (qr_new_wf step _ _ _ _ _ _ Hq) as (Hwf & Hproto & Hqueues).
    destruct (sim fcos fsin fasin fatan2 step pc o rgs log_size Hrg Hint fuel q0 q0 [] [] 0 s1' s' raws itf) as (out & Hout & HV).
    - unfold related. split; [reflexivity|]. split; [reflexivity|]. split; [reflexivity|].
      split; [cbn [length]; lia|]. split; [constructor|]. split; assumption.
    - exact Hraw.
    - exact HI.
    - exists out. split; [|apply res_all_Forall2; exact HV].
      unfold simple_read_all. rewrite (grun_bind_step step _ _ _ _ _ (simple_open_run pc o rgs s s1' q0 Hq Hrg)).
      exact Hout.
  Qed.

  (** The simple iteration fails only for one of four reasons. *)
  Theorem simple_fails_only_if : forall pc o log_size fuel s s' e,
    grun step (simple_read_all fcos fsin fasin fatan2 fuel log_size pc o) s = (s', Err e) ->
    (forall raws, snd (grun step (raw_read_all fuel log_size pc) s) <> Ok raws)
    \/ (forall rgs, prepare_ranges pc <> Ok rgs)
    \/ index_records_are_integers pc = false
    \/ exists s'' raws, grun step (raw_read_all fuel log_size pc) s = (s'', Ok raws) /\
         Exists (fun raw => invalid_states_in_set pc raw = false) raws.
  Proof.
    intros pc o log_size fuel s s' e Hs.
    destruct (grun step (raw_read_all fuel log_size pc) s) as [s'' [raws|k|]] eqn:Hraw.
    2:{ left. intros raws. discriminate. }
    2:{ left. intros raws. discriminate. }
    right. destruct (prepare_ranges pc) as [rgs|k|] eqn:Hrg.
    2:{ left. discriminate. }
    2:{ left. discriminate. }
    right. destruct (index_records_are_integers pc) eqn:Hint; [|left; reflexivity].
    right. exists s'', raws. split; [reflexivity|].
    destruct (forallb (invalid_states_in_set pc) raws) eqn:Hall.
    - exfalso. rewrite forallb_forall in Hall.
      destruct (simple_is_view pc o log_size fuel s s'' raws rgs Hraw Hrg Hint) as (pts & Hpts & _).
      { apply Forall_forall. exact Hall. }
      rewrite Hpts in Hs. discriminate.
    - apply Exists_exists. clear -Hall. induction raws as [|x l IH]; [discriminate|].
      cbn [forallb] in Hall. destruct (invalid_states_in_set pc x) eqn:Ex.
      + destruct (IH Hall) as (y & Hy & Hb). exists y. split; [right; exact Hy|exact Hb].
      + exists x. split; [left; reflexivity|exact Ex].
  Qed.
End Top.
