(** Non-vacuity of [api_wellformed]: the program of Proofs/WapiFullExample.v,
    by computation.  The independent decoder accepts the file the model
    wrote, takes the descriptors from the file's own XML, and returns the
    metadata of the writer state, the points of both clouds and the two image
    blobs (the free-standing blob is not mentioned by the XML). *)
From Coq Require Import ZArith Bool.
From E57 Require Import Base.Prelude Base.Floats Model.Record Model.Meta Model.MetaFile Spec.XeMetaOk
  Spec.FileSpec Spec.FileSpecXml Model.WriterApi Model.WriterFull Proofs.WapiFullExample.
Open Scope N_scope.

Example ex_spec_wellformed : spec_wellformed_xml ex_pf64 ex_pf32 (fun a _ => a) ex_file = true.
Proof. vm_compute. reflexivity. Qed.

Example ex_spec_decode :
  match spec_decode_file_xml ex_pf64 ex_pf32 (fun a _ => a) ex_file with
  | Some (m, d) =>
      m = reader_view (fill_meta ex_fmt64 ex_fmt32 (ws_meta ex_state)) /\
      dec_items d = [CPoints [[D b1; D b2; D bh; VInteger 7]; [D bm3; D b1; D b2; VInteger 15]];
                     CPoints [[D b2; D bh; D bm3; VInteger 200]];
                     CBlob [1; 2; 3; 255; 0]; CBlob [9; 9; 9]]
  | None => False
  end.
Proof. vm_compute. split; reflexivity. Qed.

Lemma ex_spec_instance :
  spec_wellformed_xml ex_pf64 ex_pf32 (fun a _ => a) ex_file = true /\
  match spec_decode_file_xml ex_pf64 ex_pf32 (fun a _ => a) ex_file with
  | Some (m, d) =>
      m = reader_view (fill_meta ex_fmt64 ex_fmt32 (ws_meta ex_state)) /\
      dec_items d = [CPoints [[VDouble b1; VDouble b2; VDouble bh; VInteger 7]; [VDouble bm3; VDouble b1; VDouble b2; VInteger 15]];
                     CPoints [[VDouble b2; VDouble bh; VDouble bm3; VInteger 200]];
                     CBlob [1; 2; 3; 255; 0]; CBlob [9; 9; 9]]
  | None => False
  end.
Proof. split; [exact ex_spec_wellformed|exact ex_spec_decode]. Qed.
