(** Reader programs under an arbitrary interpretation of the page-layer
    operations.  [rrun] (paged reader model on a device) and [rrun_spec]
    (logical stream) are the two instances used elsewhere; what is proved about
    [grun] holds for both, for every reader state, device content and fault plan. *)
From E57 Require Import Base.Prelude Model.PagedReader Spec.PageSpec Model.Prog.

Section Generic.
  Context {S : Type} (step : pr_op -> S -> S * res pr_out).

  Fixpoint grun {A} (p : rprog A) (s : S) : S * res A :=
    match p with
    | RRet a => (s, Ok a)
    | RErr k => (s, Err k)
    | RPanic => (s, Panic)
    | ROp o k => let '(s1, r) := step o s in grun (k r) s1
    end.

  Lemma grun_bind {A C} (p : rprog A) (f : A -> rprog C) : forall s,
    grun (rbind p f) s =
    let '(s1, r) := grun p s in
    match r with
    | Ok a => grun (f a) s1
    | Err k => (s1, Err k)
    | Panic => (s1, Panic)
    end.
  Proof.
    induction p as [a|k| |o k IH]; intros s; cbn [rbind grun]; try reflexivity.
    destruct (step o s) as [s1 r]. apply IH.
  Qed.

  Lemma grun_bind_ok {A C} (p : rprog A) (f : A -> rprog C) s s' c :
    grun (rbind p f) s = (s', Ok c) ->
    exists s1 a, grun p s = (s1, Ok a) /\ grun (f a) s1 = (s', Ok c).
  Proof.
    rewrite grun_bind. destruct (grun p s) as [s1 [a|k|]]; intros H; try discriminate.
    exists s1, a. split; [reflexivity|exact H].
  Qed.

  Lemma grun_bind_step {A C} (p : rprog A) (f : A -> rprog C) s s1 a :
    grun p s = (s1, Ok a) -> grun (rbind p f) s = grun (f a) s1.
  Proof. intros H. rewrite grun_bind, H. reflexivity. Qed.

  Lemma grun_rlift {A} (r : res A) s : grun (rlift r) s = (s, r).
  Proof. destruct r; reflexivity. Qed.
End Generic.

Lemma rrun_is_grun {A} (p : rprog A) : forall s, rrun p s = grun pr_step p s.
Proof.
  induction p as [a|k| |o k IH]; intros s; cbn [rrun grun]; [reflexivity|reflexivity|reflexivity|].
  destruct (pr_step o s) as [s1 r]. apply IH.
Qed.

Lemma rrun_spec_is_grun {A} log (p : rprog A) : forall off, rrun_spec log p off = grun (lr_step log) p off.
Proof.
  induction p as [a|k| |o k IH]; intros off; cbn [rrun_spec grun]; [reflexivity|reflexivity|reflexivity|].
  destruct (lr_step log o off) as [off1 r]. apply IH.
Qed.
