(** C09, termination half, part 1: the fuelled loops that need no invariant of
    the paged reader - the raw [read_exact] loops over the device (any device,
    faulty or not) and the unpacking loop of bitpack.rs.  "The fuel never runs
    out" is stated as: any additional fuel gives the same result. *)
From E57 Require Import Base.Prelude Model.Crc Model.Device Model.PagedReader Model.BsRead Model.Record.
From E57 Require Import Proofs.PageSpecLemmas.
From Coq Require Import ZifyN ZifyNat ZifyBool.
Ltac Zify.zify_post_hook ::= Z.div_mod_to_equations.
Local Open Scope monad_scope.
Local Open Scope N_scope.

(** the measure step shared by all "read until [want] bytes" loops: a
    non-empty read with [want <> 0] leaves strictly less to read *)
Lemma want_step (want L : N) (f : nat) :
  want <> 0 -> L <> 0 -> (N.to_nat want < S f)%nat -> (N.to_nat (want - L) < f)%nat.
Proof. intros. lia. Qed.

(** * [pr_fill_loop]: [read_exact] of one raw page into the page buffer *)

Lemma pr_fill_loop_fuel_indep : forall (f1 f2 : nat) done want (s : pr),
  (N.to_nat want < f1)%nat -> (N.to_nat want < f2)%nat ->
  pr_fill_loop f1 done want s = pr_fill_loop f2 done want s.
Proof.
  induction f1 as [|f1 IH]; intros f2 done want s H1 H2; [lia|].
  destruct f2 as [|f2]; [lia|].
  cbn [pr_fill_loop].
  destruct (want =? 0) eqn:E0; [reflexivity|].
  unfold bind at 1 3.
  destruct (pr_lift (d_read want) s) as [s1 [got|k|]]; [|reflexivity|reflexivity].
  destruct got as [|b got]; [reflexivity|].
  unfold bind at 1 2.
  destruct (pr_set_buf _ s1) as [s2 [u|k|]]; [|reflexivity|reflexivity].
  assert (Hpos : len (b :: got) <> 0) by (apply len_nonnil; discriminate).
  assert (Hw : want <> 0) by lia.
  apply IH; apply want_step; assumption.
Qed.

Theorem fuel_pr_fill_loop : forall (extra : nat) done want (s : pr),
  pr_fill_loop (S (N.to_nat want) + extra) done want s = pr_fill_loop (S (N.to_nat want)) done want s.
Proof. intros. apply pr_fill_loop_fuel_indep; lia. Qed.

(** * [d_read_exact_loop]: [read_exact] on the raw device *)

Lemma d_read_exact_loop_fuel_indep : forall (f1 f2 : nat) want acc (d : dev),
  (N.to_nat want < f1)%nat -> (N.to_nat want < f2)%nat ->
  d_read_exact_loop f1 want acc d = d_read_exact_loop f2 want acc d.
Proof.
  induction f1 as [|f1 IH]; intros f2 want acc d H1 H2; [lia|].
  destruct f2 as [|f2]; [lia|].
  cbn [d_read_exact_loop].
  destruct (want =? 0) eqn:E0; [reflexivity|].
  unfold bind at 1 2.
  destruct (d_read want d) as [d1 [got|k|]]; [|reflexivity|reflexivity].
  destruct got as [|b got]; [reflexivity|].
  assert (Hpos : len (b :: got) <> 0) by (apply len_nonnil; discriminate).
  assert (Hw : want <> 0) by lia.
  apply IH; apply want_step; assumption.
Qed.

Theorem fuel_d_read_exact : forall (extra : nat) n (d : dev),
  d_read_exact_loop (S (N.to_nat n) + extra) n [] d = d_read_exact n d.
Proof. intros. unfold d_read_exact. apply d_read_exact_loop_fuel_indep; lia. Qed.

(** the same for the third loop of that family, [d_read_fill] (used by the writer's read-back) *)
Lemma d_read_fill_fuel_indep : forall (f1 f2 : nat) want acc (d : dev),
  (N.to_nat want < f1)%nat -> (N.to_nat want < f2)%nat ->
  d_read_fill f1 want acc d = d_read_fill f2 want acc d.
Proof.
  induction f1 as [|f1 IH]; intros f2 want acc d H1 H2; [lia|].
  destruct f2 as [|f2]; [lia|].
  cbn [d_read_fill].
  destruct (want =? 0) eqn:E0; [reflexivity|].
  unfold bind at 1 2.
  destruct (d_read want d) as [d1 [got|k|]]; [|reflexivity|reflexivity].
  destruct got as [|b got]; [reflexivity|].
  assert (Hpos : len (b :: got) <> 0) by (apply len_nonnil; discriminate).
  assert (Hw : want <> 0) by lia.
  apply IH; apply want_step; assumption.
Qed.

Theorem fuel_d_read_fill : forall (extra : nat) n acc (d : dev),
  d_read_fill (S (N.to_nat n) + extra) n acc d = d_read_fill (S (N.to_nat n)) n acc d.
Proof. intros. apply d_read_fill_fuel_indep; lia. Qed.

(** * [unpack_loop]: the [while let Some(..) = stream.extract(bits)] loops *)

Lemma div_sub_step a b (f : nat) :
  b <> 0 -> b <= a -> (N.to_nat (a / b) < S f)%nat -> (N.to_nat ((a - b) / b) < f)%nat.
Proof.
  intros Hb Hle Hf.
  assert (E : a / b = (a - b) / b + 1).
  { assert (Ea : a = (a - b) + 1 * b) by (clear - Hle; lia).
    rewrite Ea at 1. apply N.div_add. exact Hb. }
  rewrite E in Hf. clear E.
  set (q := (a - b) / b) in *. clearbody q. lia.
Qed.

Lemma unpack_loop_fuel_indep bits mk : bits <> 0 ->
  forall (f1 f2 : nat) (s : bsr) acc,
  br_off s <= 8 * len (br_buf s) ->
  (N.to_nat ((8 * len (br_buf s) - br_off s) / bits) < f1)%nat ->
  (N.to_nat ((8 * len (br_buf s) - br_off s) / bits) < f2)%nat ->
  unpack_loop f1 bits mk s acc = unpack_loop f2 bits mk s acc.
Proof.
  intros Hb.
  induction f1 as [|f1 IH]; intros f2 s acc Hoff H1 H2; [exfalso; exact (Nat.nlt_0_r _ H1)|].
  destruct f2 as [|f2]; [exfalso; exact (Nat.nlt_0_r _ H2)|].
  cbn [unpack_loop].
  unfold bsr_extract, bsr_available.
  destruct (len (br_buf s) * 8 <? br_off s) eqn:Ea; [reflexivity|].
  destruct (len (br_buf s) * 8 - br_off s <? bits) eqn:Eb; [reflexivity|].
  match goal with |- context [if ?c then Panic else _] => destruct c; [reflexivity|] end.
  match goal with |- context [if ?c then Panic else _] => destruct c; [reflexivity|] end.
  apply IH; cbn [br_buf br_off].
  - clear - Hoff Eb. lia.
  - replace (8 * len (br_buf s) - (br_off s + bits)) with (8 * len (br_buf s) - br_off s - bits) by (clear; lia).
    apply div_sub_step; [exact Hb| clear - Eb; lia | exact H1].
  - replace (8 * len (br_buf s) - (br_off s + bits)) with (8 * len (br_buf s) - br_off s - bits) by (clear; lia).
    apply div_sub_step; [exact Hb| clear - Eb; lia | exact H2].
Qed.

Lemma unpack_fuel_enough (s : bsr) bits : bits <> 0 ->
  (N.to_nat ((8 * len (br_buf s) - br_off s) / bits) < unpack_fuel s bits)%nat.
Proof.
  intros Hb. unfold unpack_fuel.
  assert (H : (8 * len (br_buf s) - br_off s) / bits <= len (br_buf s) * 8 / bits).
  { apply N.div_le_mono; [exact Hb|lia]. }
  set (x := (8 * len (br_buf s) - br_off s) / bits) in *.
  set (y := len (br_buf s) * 8 / bits) in *. clearbody x y. lia.
Qed.

Theorem fuel_unpack_loop : forall (extra : nat) bits mk (s : bsr) acc,
  bits <> 0 -> br_off s <= 8 * len (br_buf s) ->
  unpack_loop (unpack_fuel s bits + extra) bits mk s acc = unpack_loop (unpack_fuel s bits) bits mk s acc.
Proof.
  intros extra bits mk s acc Hb Hoff.
  pose proof (unpack_fuel_enough s bits Hb) as Hf.
  apply unpack_loop_fuel_indep; [exact Hb|exact Hoff| |exact Hf].
  clear - Hf. lia.
Qed.

(** * Concrete instances *)

(** a raw page of 8 bytes read from a device that holds 20 bytes, cursor at 0 *)
Definition ex_dev : dev := dev_init [1;2;3;4;5;6;7;8;9;10;11;12;13;14;15;16;17;18;19;20] None.
Definition ex_pr_raw : pr := mkPr ex_dev 8 20 8 2 0 None (zeros 8).

Example fuel_pr_fill_loop_ex :
  pr_fill_loop (S (N.to_nat 8) + 5) 0 8 ex_pr_raw = pr_fill_loop (S (N.to_nat 8)) 0 8 ex_pr_raw /\
  pr_buf (fst (pr_fill_loop (S (N.to_nat 8)) 0 8 ex_pr_raw)) = [1;2;3;4;5;6;7;8] /\
  snd (pr_fill_loop (S (N.to_nat 8)) 0 8 ex_pr_raw) = Ok tt.
Proof. split; [apply fuel_pr_fill_loop|split; vm_compute; reflexivity]. Qed.

(** the same on a device whose second operation fails *)
Example fuel_pr_fill_loop_ex_fault :
  let s := mkPr (dev_init [1;2;3;4;5;6] (Some 0)) 8 8 4 1 0 None (zeros 8) in
  pr_fill_loop (S (N.to_nat 8) + 3) 0 8 s = pr_fill_loop (S (N.to_nat 8)) 0 8 s /\
  snd (pr_fill_loop (S (N.to_nat 8)) 0 8 s) = Err EIo.
Proof. split; [apply fuel_pr_fill_loop|vm_compute; reflexivity]. Qed.

Example fuel_d_read_exact_ex :
  d_read_exact_loop (S (N.to_nat 12) + 7) 12 [] ex_dev = d_read_exact 12 ex_dev /\
  snd (d_read_exact 12 ex_dev) = Ok [1;2;3;4;5;6;7;8;9;10;11;12].
Proof. split; [apply fuel_d_read_exact|vm_compute; reflexivity]. Qed.

(** short device: the loop ends by UnexpectedEof, with any fuel *)
Example fuel_d_read_exact_ex_eof :
  d_read_exact_loop (S (N.to_nat 30) + 7) 30 [] ex_dev = d_read_exact 30 ex_dev /\
  snd (d_read_exact 30 ex_dev) = Err EIo.
Proof. split; [apply fuel_d_read_exact|vm_compute; reflexivity]. Qed.

(** three bytes = 24 bits, 5 bits already consumed, 7-bit values: two values fit *)
Definition ex_bsr : bsr := mkBsr [0xAB; 0xCD; 0xEF] 5.

Example fuel_unpack_loop_ex :
  unpack_loop (unpack_fuel ex_bsr 7 + 4) 7 (fun v => VInteger (Z.of_N v)) ex_bsr []
  = unpack_loop (unpack_fuel ex_bsr 7) 7 (fun v => VInteger (Z.of_N v)) ex_bsr [] /\
  res_map (fun x => len (snd x)) (unpack_loop (unpack_fuel ex_bsr 7) 7 (fun v => VInteger (Z.of_N v)) ex_bsr []) = Ok 2.
Proof.
  split; [apply fuel_unpack_loop; [discriminate|vm_compute; discriminate]|vm_compute; reflexivity].
Qed.

Print Assumptions fuel_pr_fill_loop.
Print Assumptions fuel_d_read_exact.
Print Assumptions fuel_d_read_fill.
Print Assumptions fuel_unpack_loop.
