(** Slice "xg": the abstract tree of a metadata value is a well-formed XML tree
    ([wf_doc] of Spec/XmlRender.v), so that the parser model reads every
    rendering of it back ([parse_render] of slice xmlp).

    [tree_of_wf] : writer_meta_ok m = true -> meta_xml_ok m = true -> wf_doc (tree_of m) = true *)
From Coq Require Import Decimal ZArith Lia.
From E57 Require Import Base.Prelude Model.Meta Model.MetaFile Model.XmlTree Model.XmlGen
  Spec.XmlRender Spec.MetaTree Spec.XgWriterOk Proofs.XgLemmas.
Require Import Coq.Strings.String.
Local Open Scope N_scope.

Local Notation "'B' s" := ltac:(let v := eval vm_compute in (bytes_of_string s%string) in exact v)
  (at level 0, s at level 0, only parsing).

Definition wf_children (sc : list xnsdecl) :=
  fix all (l : list xnode) : bool :=
    match l with [] => true | x :: r => wf_node (Some sc) x && all r end.

Lemma wf_node_elem : forall P nm attrs sc ch,
  wf_node P (XElem nm attrs sc ch) =
  ncname (xn_local nm) && scope_ok P sc
  && match elem_prefix sc (xn_ns nm) with Some _ => true | None => false end
  && forallb (attr_ok sc) attrs && distinct_attrs attrs
  && no_adjacent_text ch && wf_children sc ch.
Proof. reflexivity. Qed.

Definition decl_sum (sc : list xnsdecl) :=
  fix sum (l : list xnode) : N := match l with [] => 0 | x :: r => decl_count (Some sc) x + sum r end.

Lemma decl_count_elem : forall P nm attrs sc ch,
  decl_count P (XElem nm attrs sc ch) = len (or_default (own_decls P sc) []) + decl_sum sc ch.
Proof. reflexivity. Qed.

Lemma scope_eqb_refl' : forall sc, scope_eqb sc sc = true.
Proof.
  assert (Hx : forall x, xstr_eqb x x = true).
  { induction x as [|b r IH]; [reflexivity|]. cbn [xstr_eqb]. now rewrite N.eqb_refl, IH. }
  induction sc as [|d r IH]; [reflexivity|].
  cbn [scope_eqb]. rewrite IH. unfold decl_eqb. rewrite Hx.
  destruct (xns_prefix d); cbn [opt_str_eqb]; rewrite ?Hx; reflexivity.
Qed.

Lemma wf_children_forallb : forall sc l, wf_children sc l = forallb (wf_node (Some sc)) l.
Proof. intros sc l. induction l as [|x r IH]; [reflexivity|]. cbn [wf_children forallb]. now rewrite <- IH. Qed.

(** * strings *)
Lemma plain_chars_ok : forall v, forallb plain_byte v = true -> chars_ok v = true.
Proof.
  induction v as [|b r IH]; [reflexivity|].
  cbn [forallb]. intro H. apply andb_prop in H. destruct H as [Hb Hr].
  apply plain_byte_spec in Hb. destruct Hb as (Hlo & Hhi & _).
  cbn [chars_ok]. rewrite (IH Hr).
  destruct (N.ltb_spec b 256); [|lia]. destruct (N.ltb_spec b 32); [lia|].
  destruct (N.eqb_spec b 0xEF); [lia|]. reflexivity.
Qed.

Lemma plain_no_cr : forall v, forallb plain_byte v = true -> existsb (N.eqb 13) v = false.
Proof.
  induction v as [|b r IH]; [reflexivity|].
  cbn [forallb existsb]. intro H. apply andb_prop in H. destruct H as [Hb Hr].
  apply plain_byte_spec in Hb. destruct Hb as (Hlo & _).
  rewrite (IH Hr). destruct (N.eqb_spec 13 b); [lia|reflexivity].
Qed.

Lemma plain_text_ok : forall v, forallb plain_byte v = true -> text_ok v = true.
Proof. intros v H. unfold text_ok. now rewrite plain_chars_ok, plain_no_cr. Qed.

Lemma is_ok_find_app : forall {A} (p : A -> bool) l x r, p x = true -> find p (l ++ x :: r) <> None.
Proof.
  intros A p l x r Hx. induction l as [|y l IH]; cbn [app find].
  - rewrite Hx. discriminate.
  - destruct (p y); [discriminate|exact IH].
Qed.

Section Scope.
  Variable exts : list extension.
  Let sc := scope_of exts.
  Hypothesis Hscope : scope_ok (Some sc) sc = true.

  Definition NodeOk (n : xnode) : Prop := wf_node (Some sc) n = true /\ decl_count (Some sc) n = 0.
  Definition WF (n : xnode) : Prop := NodeOk n /\ is_text n = false.

  Lemma nodes_ok : forall ch, Forall NodeOk ch ->
    forallb (wf_node (Some sc)) ch = true /\ decl_sum sc ch = 0.
  Proof.
    induction 1 as [|c r [Hc Hd] _ [IH1 IH2]]; [split; reflexivity|].
    cbn [forallb decl_sum]. rewrite Hc, Hd, IH1. split; [reflexivity|]. exact IH2.
  Qed.

  Lemma e57_prefix : match elem_prefix sc (Some E57_URI) with Some _ => true | None => false end = true.
  Proof.
    unfold elem_prefix, sc, scope_of.
    destruct (find (fun d => xstr_eqb (xns_uri d) E57_URI) _) eqn:E; [reflexivity|].
    exfalso. revert E. apply is_ok_find_app. reflexivity.
  Qed.

  Definition attr_good (a : xattr) : Prop :=
    xn_ns (xa_name a) = None /\ ncname (xn_local (xa_name a)) = true /\
    xstr_eqb (xn_local (xa_name a)) S_XMLNS = false /\ chars_ok (xa_value a) = true.

  Lemma attrs_ok : forall attrs, Forall attr_good attrs -> forallb (attr_ok sc) attrs = true.
  Proof.
    intros attrs H. induction H as [|a r (Hns & Hn & Hx & Hv) _ IH]; [reflexivity|].
    cbn [forallb]. rewrite IH. unfold attr_ok. rewrite Hn, Hx, Hv, Hns. reflexivity.
  Qed.

  Lemma WF_elem : forall nm attrs ch,
    ncname (xn_local nm) = true ->
    match elem_prefix sc (xn_ns nm) with Some _ => true | None => false end = true ->
    Forall attr_good attrs -> distinct_attrs attrs = true ->
    no_adjacent_text ch = true -> Forall NodeOk ch ->
    WF (XElem nm attrs sc ch).
  Proof.
    intros nm attrs ch Hn Hp Ha Hd Hadj Hch. destruct (nodes_ok ch Hch) as [Hw Hs].
    split; [split|reflexivity].
    - rewrite wf_node_elem, Hn, Hscope, Hp, (attrs_ok attrs Ha), Hd, Hadj, wf_children_forallb, Hw. reflexivity.
    - rewrite decl_count_elem. cbn [own_decls]. fold sc. rewrite scope_eqb_refl'. cbn [or_default]. rewrite Hs. reflexivity.
  Qed.

  Lemma lines_ok : forall ch, Forall WF ch ->
    no_adjacent_text (lines ch) = true /\ Forall NodeOk (lines ch).
  Proof.
    intros ch H. unfold lines.
    assert (Hnl : NodeOk nl) by (split; reflexivity).
    assert (G : forall l, Forall WF l ->
              no_adjacent_text (nl :: flat_map (fun c => [c; nl]) l) = true /\
              Forall NodeOk (flat_map (fun c => [c; nl]) l)).
    { induction 1 as [|c r [Hc Ht] _ [IH1 IH2]]; [split; [reflexivity|constructor]|].
      cbn [flat_map app]. split.
      - cbn [no_adjacent_text]. cbn [no_adjacent_text] in IH1. rewrite Ht.
        cbn [is_text andb negb]. rewrite andb_false_r. cbn [negb andb].
        destruct (flat_map (fun c0 => [c0; nl]) r) eqn:E; [reflexivity|].
        exact IH1.
      - constructor; [exact Hc|]. constructor; [exact Hnl|exact IH2]. }
    destruct (G ch H) as [G1 G2]. split; [exact G1|].
    constructor; [exact Hnl|exact G2].
  Qed.

  Definition e57_name (name : xstr) : Prop := ncname name = true.

  Lemma WF_container : forall name attrs ch,
    ncname name = true -> Forall attr_good attrs -> distinct_attrs attrs = true ->
    Forall WF ch -> WF (el sc name attrs (lines ch)).
  Proof.
    intros name attrs ch Hn Ha Hd Hch. destruct (lines_ok ch Hch) as [H1 H2].
    apply WF_elem; [exact Hn|apply e57_prefix|exact Ha|exact Hd|exact H1|exact H2].
  Qed.

  Lemma WF_leaf : forall name attrs t,
    ncname name = true -> Forall attr_good attrs -> distinct_attrs attrs = true ->
    text_ok t = true -> WF (el sc name attrs [XText t]).
  Proof.
    intros name attrs t Hn Ha Hd Ht.
    apply WF_elem; [exact Hn|apply e57_prefix|exact Ha|exact Hd|reflexivity|].
    constructor; [|constructor]. split; [cbn [wf_node]; exact Ht|reflexivity].
  Qed.

  Lemma WF_empty : forall name attrs,
    ncname name = true -> Forall attr_good attrs -> distinct_attrs attrs = true -> WF (el sc name attrs []).
  Proof.
    intros name attrs Hn Ha Hd.
    apply WF_elem; [exact Hn|apply e57_prefix|exact Ha|exact Hd|reflexivity|constructor].
  Qed.

  Lemma good_ty : forall T, chars_ok T = true -> attr_good (ty T).
  Proof. intros T H. repeat split; try reflexivity. exact H. Qed.
  Lemma good_at : forall n v, ncname n = true -> xstr_eqb n S_XMLNS = false -> chars_ok v = true -> attr_good (at_ n v).
  Proof. intros n v Hn Hx Hv. repeat split; assumption. Qed.

  (* Forall attr_good [..]: leaves [chars_ok v = true] for the values that are not constants *)
  Ltac attrs := repeat first [ apply Forall_nil | apply Forall_cons ];
                try (apply good_ty; reflexivity);
                try (apply good_at; [reflexivity|reflexivity|try reflexivity]).

  (** ** leaves *)
  Lemma WF_string : forall name s, ncname name = true -> string_ok s = true -> WF (t_string sc name s).
  Proof. intros name s Hn Hs. unfold t_string. apply WF_leaf; auto. attrs. Qed.

  Lemma WF_float : forall name f, ncname name = true -> f64_ok f = true -> WF (t_float sc name f).
  Proof.
    intros name f Hn Hf. unfold t_float. apply WF_leaf; auto.
    - attrs.
    - apply plain_text_ok, plain_text_forall, Hf.
  Qed.

  Lemma dec_z_text_ok : forall z, text_ok (dec_z z) = true.
  Proof. intro z. rewrite dec_z_display. apply plain_text_ok, plain_text_forall, display_i_plain. Qed.
  Lemma dec_n_text_ok : forall n, text_ok (dec_n n) = true.
  Proof. intro n. rewrite dec_n_display. apply plain_text_ok, plain_text_forall, display_u_plain. Qed.
  Lemma dec_z_chars_ok : forall z, chars_ok (dec_z z) = true.
  Proof. intro z. rewrite dec_z_display. apply plain_chars_ok, plain_text_forall, display_i_plain. Qed.
  Lemma dec_n_chars_ok : forall n, chars_ok (dec_n n) = true.
  Proof. intro n. rewrite dec_n_display. apply plain_chars_ok, plain_text_forall, display_u_plain. Qed.
  Lemma f64_chars_ok : forall f, f64_ok f = true -> chars_ok (f64_text f) = true.
  Proof. intros f H. apply plain_chars_ok, plain_text_forall, H. Qed.
  Lemma f32_chars_ok : forall f, f32_ok f = true -> chars_ok (f32_text f) = true.
  Proof. intros f H. apply plain_chars_ok, plain_text_forall, H. Qed.

  Lemma WF_int : forall name z, ncname name = true -> WF (t_int sc name z).
  Proof.
    intros name z Hn. unfold t_int. apply WF_leaf; auto; [|apply dec_z_text_ok]. attrs.
  Qed.

  Lemma WF_uint : forall name n, ncname name = true -> WF (t_uint sc name n).
  Proof.
    intros name n Hn. unfold t_uint. apply WF_leaf; auto; [|apply dec_n_text_ok]. attrs.
  Qed.

  Lemma WF_struct : forall name ch, ncname name = true -> Forall WF ch -> WF (t_struct sc name ch).
  Proof.
    intros name ch Hn Hch. unfold t_struct. apply WF_container; auto. attrs.
  Qed.

  Lemma WF_vector : forall name h ch, ncname name = true -> Forall WF ch -> WF (t_vector sc name h ch).
  Proof.
    intros name h ch Hn Hch. unfold t_vector. apply WF_container; auto.
    destruct h; attrs.
  Qed.

  (** ** lists of children *)
  Lemma Forall_opt1 : forall {A} (f : A -> xnode) o, (forall x, o = Some x -> WF (f x)) -> Forall WF (opt1 f o).
  Proof. intros A f [x|] H; cbn [opt1]; [constructor; [auto|constructor]|constructor]. Qed.

  Lemma Forall_map : forall {A} (f : A -> xnode) l, (forall x, In x l -> WF (f x)) -> Forall WF (map f l).
  Proof.
    intros A f l H. induction l as [|x r IH]; [constructor|].
    cbn [map]. constructor; [apply H; left; reflexivity|]. apply IH. intros y Hy. apply H. right. exact Hy.
  Qed.

  Ltac fa :=
    repeat lazymatch goal with
      | |- Forall WF [] => apply Forall_nil
      | |- Forall WF (_ ++ _) => apply Forall_app; split
      | |- Forall WF (_ :: _) => apply Forall_cons
      | |- Forall WF (opt1 _ _) => apply Forall_opt1; intros ? ?
      | |- Forall WF (map _ _) => apply Forall_map; intros ? ?
      end.

  Lemma opt_ok_some' : forall {A} (p : A -> bool) o x, opt_ok p o = true -> o = Some x -> p x = true.
  Proof. intros A p o x H E. subst o. exact H. Qed.

  Ltac ok_some :=
    match goal with
    | Hs : ?o = Some ?x |- ?p ?x = true => apply (opt_ok_some' p o x); [assumption | exact Hs]
    end.
  Ltac side := first [reflexivity | assumption | ok_some].
  Ltac split_ok :=
    repeat match goal with
           | H : (_ && _) = true |- _ => apply andb_prop in H; destruct H
           end.

  Ltac wf :=
    lazymatch goal with
    | |- WF (t_string _ _ _) => apply WF_string; side
    | |- WF (t_float _ _ _) => apply WF_float; side
    | |- WF (t_int _ _ _) => apply WF_int; side
    | |- WF (t_uint _ _ _) => apply WF_uint; side
    | |- _ => idtac
    end.

  Lemma WF_date_time : forall name d, ncname name = true -> date_time_ok d = true -> WF (t_date_time sc name d).
  Proof.
    intros name d Hn Hd. unfold t_date_time. apply WF_struct; [exact Hn|]. fa; wf.
    apply WF_leaf; try reflexivity; [attrs|].
    destruct (dt_atomic d); reflexivity.
  Qed.

  Lemma WF_transform : forall name t, ncname name = true -> transform_ok t = true -> WF (t_transform sc name t).
  Proof.
    intros name t Hn Ht. unfold transform_ok in Ht. split_ok. unfold t_transform.
    apply WF_struct; [exact Hn|]. fa; (apply WF_struct; [reflexivity|]); fa; wf.
  Qed.

  Lemma WF_cartesian_bounds : forall b, cartesian_bounds_ok b = true -> WF (t_cartesian_bounds sc b).
  Proof.
    intros b Hb. unfold cartesian_bounds_ok in Hb. split_ok. unfold t_cartesian_bounds.
    apply WF_struct; [reflexivity|]. fa; wf.
  Qed.

  Lemma WF_spherical_bounds : forall b, spherical_bounds_ok b = true -> WF (t_spherical_bounds sc b).
  Proof.
    intros b Hb. unfold spherical_bounds_ok in Hb. split_ok. unfold t_spherical_bounds.
    apply WF_struct; [reflexivity|]. fa; wf.
  Qed.

  Lemma WF_index_bounds : forall b, WF (t_index_bounds sc b).
  Proof. intro b. unfold t_index_bounds. apply WF_struct; [reflexivity|]. fa; wf. Qed.

  Lemma WF_limit : forall name v, ncname name = true -> limit_ok v = true -> WF (t_limit sc name v).
  Proof.
    intros name v Hn Hv. destruct v as [f|f|z|z]; cbn [t_limit limit_ok] in *;
      (apply WF_leaf; [exact Hn|attrs|reflexivity|]).
    - apply plain_text_ok, plain_text_forall, Hv.
    - apply plain_text_ok, plain_text_forall, Hv.
    - apply dec_z_text_ok.
    - apply dec_z_text_ok.
  Qed.

  Lemma WF_intensity_limits : forall l, intensity_limits_ok l = true -> WF (t_intensity_limits sc l).
  Proof.
    intros l Hl. unfold intensity_limits_ok in Hl. split_ok. unfold t_intensity_limits.
    apply WF_struct; [reflexivity|]. fa; apply WF_limit; side.
  Qed.

  Lemma WF_color_limits : forall l, color_limits_ok l = true -> WF (t_color_limits sc l).
  Proof.
    intros l Hl. unfold color_limits_ok in Hl. split_ok. unfold t_color_limits.
    apply WF_struct; [reflexivity|]. fa; apply WF_limit; side.
  Qed.

  (** ** prototype records *)
  Lemma ext_uri_in_scope : forall ns u, ext_uri exts ns = Some u ->
    match elem_prefix sc (Some u) with Some _ => true | None => false end = true.
  Proof.
    intros ns u H. unfold ext_uri in H.
    destruct (find (fun e => xstr_eqb (e_namespace e) ns) exts) as [e|] eqn:E; [|discriminate].
    injection H as <-. apply find_some in E. destruct E as [Hin _].
    unfold elem_prefix, sc, scope_of.
    destruct (find (fun d => xstr_eqb (xns_uri d) (e_url e)) _) eqn:F; [reflexivity|].
    exfalso. apply in_split in Hin. destruct Hin as (l1 & l2 & ->).
    revert F. rewrite map_app. cbn [map]. rewrite <- app_assoc. cbn [app].
    apply is_ok_find_app. cbn [xns_uri].
    clear. induction (e_url e) as [|b r IH]; [reflexivity|]. cbn [xstr_eqb]. now rewrite N.eqb_refl.
  Qed.

  Lemma WF_record : forall r, record_xml_ok exts r = true -> data_type_ok (r_type r) = true -> WF (t_record sc exts r).
  Proof.
    intros [n t] Hr Ht. unfold record_xml_ok in Hr. cbn [r_name r_type] in *.
    assert (Hname : ncname (xn_local (record_xname exts n)) = true /\
                    match elem_prefix sc (xn_ns (record_xname exts n)) with Some _ => true | None => false end = true).
    { destruct n; try (split; [reflexivity|apply e57_prefix]).
      apply andb_prop in Hr. destruct Hr as [Hn Hu]. cbn [record_xname xn_local xn_ns].
      split; [exact Hn|]. destruct (ext_uri exts namespace) as [u|] eqn:Eu; [|discriminate].
      eapply ext_uri_in_scope. exact Eu. }
    destruct Hname as [Hn Hp].
    unfold t_record. cbn [r_name r_type].
    destruct t as [mn mx|mn mx|mn mx scale offset|mn mx]; cbn [data_type_ok] in Ht; split_ok.
    - apply WF_elem; auto.
      + destruct mn as [f1|], mx as [f2|]; cbn [opt_ok app] in *; attrs; now apply f32_chars_ok.
      + destruct mn, mx; reflexivity.
      + constructor; [|constructor]. split; [|reflexivity]. cbn [wf_node].
        destruct mn as [f1|], mx as [f2|]; cbn [sample32 sample64 opt_ok] in *; try reflexivity;
          try (apply plain_text_ok; now apply plain_text_forall);
          first [destruct (below_zero32 f2) | destruct (below_zero64 f2)]; try reflexivity;
          apply plain_text_ok; now apply plain_text_forall.
    - apply WF_elem; auto.
      + destruct mn as [f1|], mx as [f2|]; cbn [opt_ok app] in *; attrs; now apply f64_chars_ok.
      + destruct mn, mx; reflexivity.
      + constructor; [|constructor]. split; [|reflexivity]. cbn [wf_node].
        destruct mn as [f1|], mx as [f2|]; cbn [sample32 sample64 opt_ok] in *; try reflexivity;
          try (apply plain_text_ok; now apply plain_text_forall);
          first [destruct (below_zero32 f2) | destruct (below_zero64 f2)]; try reflexivity;
          apply plain_text_ok; now apply plain_text_forall.
    - apply WF_elem; auto.
      + attrs; first [apply dec_z_chars_ok | now apply f64_chars_ok].
      + constructor; [|constructor]. split; [apply dec_z_text_ok|reflexivity].
    - apply WF_elem; auto.
      + attrs; apply dec_z_chars_ok.
      + constructor; [|constructor]. split; [apply dec_z_text_ok|reflexivity].
  Qed.

  Lemma WF_points : forall pc,
    forallb (record_xml_ok exts) (pc_prototype pc) = true -> forallb (record_ok exts) (pc_prototype pc) = true ->
    WF (t_points sc exts pc).
  Proof.
    intros pc Hx Hr. unfold t_points. apply WF_container; try reflexivity.
    - attrs; apply dec_n_chars_ok.
    - fa. apply WF_struct; [reflexivity|]. fa.
      rewrite forallb_forall in Hx, Hr. apply WF_record; [auto|].
      specialize (Hr _ H). unfold record_ok in Hr. apply andb_prop in Hr. tauto.
  Qed.

  Lemma WF_pointcloud : forall pc, pointcloud_ok exts pc = true -> pointcloud_xml_ok exts pc = true ->
    WF (t_pointcloud sc exts pc).
  Proof.
    intros pc Hok Hx. unfold pointcloud_ok in Hok. unfold pointcloud_xml_ok, opt_string_ok in Hx. split_ok.
    unfold t_pointcloud. apply WF_struct; [reflexivity|]. fa; wf.
    - apply WF_vector; [reflexivity|]. fa. apply WF_string; [reflexivity|].
      match goal with Hg : opt_ok (forallb string_ok) (pc_original_guids pc) = true, Hs : pc_original_guids pc = Some ?l |- _ =>
        rewrite Hs in Hg; cbn [opt_ok] in Hg; rewrite forallb_forall in Hg; auto end.
    - apply WF_cartesian_bounds. side.
    - apply WF_spherical_bounds. side.
    - apply WF_index_bounds.
    - apply WF_color_limits. side.
    - apply WF_intensity_limits. side.
    - apply WF_transform; side.
    - apply WF_date_time; side.
    - apply WF_date_time; side.
    - apply WF_points; assumption.
  Qed.

  (** ** images *)
  Lemma WF_blob : forall name b, ncname name = true -> WF (t_blob sc name b).
  Proof.
    intros name b Hn. unfold t_blob. apply WF_empty; auto.
    attrs; apply dec_n_chars_ok.
  Qed.

  Lemma WF_image_blob : forall b, WF (t_image_blob sc b).
  Proof. intro b. unfold t_image_blob. destruct (ib_format b); apply WF_blob; reflexivity. Qed.

  Lemma WF_visual_reference : forall v, WF (t_visual_reference sc v).
  Proof.
    intro v. unfold t_visual_reference. apply WF_struct; [reflexivity|]. fa; wf;
      first [apply WF_image_blob | apply WF_blob; reflexivity].
  Qed.

  Lemma WF_projection : forall p, projection_ok p = true -> WF (t_projection sc p).
  Proof.
    intros [x|x|x] Hp; cbn [projection_ok t_projection] in *; split_ok;
      unfold t_pinhole, t_spherical_image, t_cylindrical_image;
      (apply WF_struct; [reflexivity|]); fa; wf; first [apply WF_image_blob | apply WF_blob; reflexivity].
  Qed.

  Lemma WF_image : forall i, image_ok i = true -> image_xml_ok i = true -> WF (t_image sc i).
  Proof.
    intros i Hok Hx. unfold image_ok in Hok. unfold image_xml_ok, opt_string_ok in Hx. split_ok.
    unfold t_image. apply WF_struct; [reflexivity|]. fa; wf.
    - apply WF_visual_reference.
    - apply WF_projection. side.
    - apply WF_transform; side.
    - apply WF_date_time; side.
  Qed.

  Lemma WF_root : forall m,
    fm_extensions m = exts ->
    opt_ok date_time_ok (rt_creation (fm_root m)) = true ->
    forallb (pointcloud_ok exts) (fm_pointclouds m) = true ->
    forallb image_ok (fm_images m) = true ->
    string_ok (rt_format (fm_root m)) = true -> string_ok (rt_guid (fm_root m)) = true ->
    opt_string_ok (rt_library_version (fm_root m)) = true ->
    opt_string_ok (rt_coordinate_metadata (fm_root m)) = true ->
    forallb (pointcloud_xml_ok exts) (fm_pointclouds m) = true ->
    forallb image_xml_ok (fm_images m) = true ->
    exists ch, t_root sc exts m = t_struct sc (B "e57Root") ch /\ Forall WF ch.
  Proof.
    intros m He Hcr Hpcs Himgs Hf Hg Hlv Hcm Hpx Hix. eexists. split; [reflexivity|].
    unfold opt_string_ok in *. cbv zeta. fa; wf.
    - apply WF_date_time; side.
    - apply WF_vector; [reflexivity|]. fa. rewrite forallb_forall in Hpcs, Hpx. apply WF_pointcloud; auto.
    - apply WF_vector; [reflexivity|]. fa. rewrite forallb_forall in Himgs, Hix. apply WF_image; auto.
  Qed.
End Scope.

(** * the document *)
Lemma forallb_app' : forall {A} (p : A -> bool) a b, forallb p (a ++ b) = forallb p a && forallb p b.
Proof. intros. apply forallb_app. Qed.

Lemma scope_of_ok : forall exts, extensions_ok exts = true ->
  scope_ok None (scope_of exts) = true /\ scope_ok (Some (scope_of exts)) (scope_of exts) = true /\
  len (scope_of exts) <= 65535.
Proof.
  intros exts H. unfold extensions_ok in H.
  apply andb_prop in H. destruct H as [H Hlen]. apply andb_prop in H. destruct H as [Hd Hp].
  assert (Hall : forallb decl_ok (scope_of exts) = true).
  { unfold scope_of. rewrite forallb_app.
    change (forallb decl_ok [mkXNs None E57_URI]) with true. rewrite andb_true_r.
    clear -Hd. induction exts as [|e r IH]; [reflexivity|].
    cbn [forallb map] in *. apply andb_prop in Hd. destruct Hd as [He Hr].
    unfold ext_decl in He. rewrite He, IH by exact Hr. reflexivity. }
  unfold scope_ok. rewrite Hall, Hp. cbn [own_decls]. rewrite scope_eqb_refl'. repeat split.
  apply N.ltb_lt in Hlen. unfold scope_of, len in *. rewrite app_length, map_length. cbn [List.length]. lia.
Qed.

Theorem tree_of_wf : forall m,
  writer_meta_ok m = true -> meta_xml_ok m = true -> wf_doc (tree_of m) = true.
Proof.
  intros m Hw Hx. unfold writer_meta_ok in Hw. unfold meta_xml_ok in Hx. cbv zeta in Hx.
  repeat match goal with H : (_ && _) = true |- _ => apply andb_prop in H; destruct H end.
  match goal with H : extensions_ok _ = true |- _ => destruct (scope_of_ok _ H) as (Hs0 & Hs1 & Hlen) end.
  destruct (WF_root (fm_extensions m) Hs1 m) as [ch [Hch Hwf]]; try assumption; try reflexivity.
  destruct (lines_ok (fm_extensions m) ch Hwf) as [Hadj Hnodes].
  destruct (nodes_ok (fm_extensions m) (lines ch) Hnodes) as [Hall Hsum].
  unfold wf_doc, tree_of. cbn [xd_children]. rewrite Hch. unfold t_struct, el.
  cbn [forallb is_text negb filter is_element List.length Nat.eqb fold_right andb].
  rewrite wf_node_elem, decl_count_elem.
  cbn [xn_local ename xn_ns own_decls or_default].
  rewrite Hs0, (e57_prefix (fm_extensions m)), Hadj, wf_children_forallb, Hall, Hsum.
  change (ncname (B "e57Root")) with true.
  cbn [andb]. rewrite N.add_0_r, N.add_0_r.
  change (forallb (attr_ok (scope_of (fm_extensions m))) [ty (B "Structure")] && distinct_attrs [ty (B "Structure")]) with true.
  cbn [andb]. apply N.leb_le. exact Hlen.
Qed.

Print Assumptions tree_of_wf.
