(** C09, memory held in the bit buffers of the packet reader
    (src/queue_reader.rs [byte_streams], src/bs_read.rs [ByteStreamReadBuffer]).

    What a bit buffer holds between two calls:
    - the buffer of a record of zero bit size is never appended to: it stays empty;
    - the buffer of any other record is trimmed at the next [append] only, so after a
      successful [advance] it still holds the bytes of the chunk appended by the last data
      packet, preceded by the bytes that held the fewer-than-one-value unread bits left by
      the packet before: at most (bit_size + 6) / 8 bytes (8 for a 64 bit record) plus one
      chunk; and fewer unread bits than one value.
    A chunk is bounded here by the number of bytes the [advance] that read it consumed
    ([m] below is the largest number of bytes a single [advance] has consumed so far); in the
    crate a chunk has at most 65535 bytes because its length is a u16 - the model reads the
    length as the little-endian number of two list elements, which the device model does not
    restrict to 0..255, so the constant is not available here.
    Nothing depends on the number of packets or the size of the file.
    (Before the repair of the crate the buffer of a zero-width record held every byte any
    data packet had delivered for it.) *)
From E57 Require Import Base.Prelude Model.Crc Model.Device Model.PagedReader Spec.PageReadSpec Model.Prog
  Model.BsRead Model.Record Model.QueueReader.
From E57 Require Import Proofs.PageSpecLemmas Proofs.QueueReaderLemmas Proofs.PagedReaderCache
  Proofs.ReaderProgSem Proofs.ProgTransfer Proofs.TotWp Proofs.TotQueueBits Proofs.TotQueueAdv
  Proofs.TotQueueMain.
From Coq Require Import ZifyN ZifyNat ZifyBool.
Ltac Zify.zify_post_hook ::= Z.div_mod_to_equations.
Open Scope N_scope.

(** * Definitions *)

(** the bit buffer [s] of a record of type [t]; [m] bounds the last chunk *)
Definition stream_bounded (m : N) (t : dtype) (s : bsr) : Prop :=
  if bit_size t =? 0 then br_buf s = [] /\ br_off s = 0
  else br_off s <= 8 * len (br_buf s) /\
       8 * len (br_buf s) - br_off s < bit_size t /\
       len (br_buf s) <= (bit_size t + 6) / 8 + m.

Definition streams_bounded (m : N) (q : qr) : Prop :=
  Forall2 (stream_bounded m) (q_proto q) (q_streams q).

(** between [read_streams] and [parse_streams]: the chunk has been appended, nothing decoded yet *)
Definition stream_appended (d : N) (t : dtype) (s : bsr) : Prop :=
  if bit_size t =? 0 then br_buf s = [] /\ br_off s = 0
  else br_off s <= 8 * len (br_buf s) /\ len (br_buf s) <= (bit_size t + 6) / 8 + d.

Lemma Forall2_impl {A B} (R1 R2 : A -> B -> Prop) : (forall a b, R1 a b -> R2 a b) ->
  forall la lb, Forall2 R1 la lb -> Forall2 R2 la lb.
Proof. intros H la lb HF. induction HF; constructor; auto. Qed.

Lemma stream_bounded_mono m m' t s : m <= m' -> stream_bounded m t s -> stream_bounded m' t s.
Proof.
  unfold stream_bounded. intros Hm. destruct (bit_size t =? 0); [auto|].
  intros (H1 & H2 & H3). split; [exact H1|]. split; [exact H2|]. lia.
Qed.

Lemma streams_bounded_mono m m' q : m <= m' -> streams_bounded m q -> streams_bounded m' q.
Proof.
  intros Hm. unfold streams_bounded. intros H. induction H; constructor; auto.
  eapply stream_bounded_mono; eassumption.
Qed.

Lemma stream_appended_mono d d' t s : d <= d' -> stream_appended d t s -> stream_appended d' t s.
Proof.
  unfold stream_appended. intros Hm. destruct (bit_size t =? 0); [auto|].
  intros (H1 & H2). split; [exact H1|]. lia.
Qed.

Lemma streams_bounded_new proto :
  streams_bounded 0 (mkQr proto (map (fun _ => bsr_new) proto) (map (fun _ => []) proto)).
Proof.
  unfold streams_bounded. cbn [q_proto q_streams].
  induction proto as [|t pr IH]; cbn [map]; constructor; [|exact IH].
  unfold stream_bounded, bsr_new. cbn [br_buf br_off].
  destruct (bit_size t =? 0) eqn:E; [split; reflexivity|].
  rewrite (@len_nil N). lia.
Qed.

(** * The bit buffer *)

Lemma append_held_arith L o B D : o <= 8 * L -> 8 * L - o < B ->
  o / 8 <= L /\ o - o / 8 * 8 <= 8 * (L - o / 8 + D) /\ L - o / 8 + D <= (B + 6) / 8 + D.
Proof. intros H1 H2. lia. Qed.

Lemma append_appended m t s data s' : (bit_size t =? 0) = false ->
  stream_bounded m t s -> bsr_append s data = Ok s' -> stream_appended (len data) t s'.
Proof.
  unfold stream_bounded, stream_appended, bsr_append. intros E. rewrite E.
  intros (H1 & H2 & _).
  destruct (append_held_arith _ _ _ (len data) H1 H2) as (A1 & A2 & A3).
  destruct (len (br_buf s) <? br_off s / 8) eqn:E1; [discriminate|].
  intros H. injection H as <-. cbn [br_buf br_off]. rewrite len_app, len_drop.
  split; [exact A2|exact A3].
Qed.

Lemma div_sub_one p b : b <> 0 -> b <= p -> (p - b) / b + 1 = p / b.
Proof.
  intros Hb Hp. replace p with ((p - b) + 1 * b) at 2 by lia.
  rewrite N.div_add by exact Hb. reflexivity.
Qed.

(** the unpack loop with enough fuel stops with fewer unread bits than one value, and does
    not touch the bytes *)
Lemma unpack_loop_tight : forall fuel bits mk s acc s' out, bits <> 0 ->
  (N.to_nat (pending s / bits) < fuel)%nat ->
  unpack_loop fuel bits mk s acc = Ok (s', out) ->
  br_buf s' = br_buf s /\ br_off s' <= 8 * len (br_buf s') /\ 8 * len (br_buf s') - br_off s' < bits.
Proof.
  induction fuel as [|f IH]; intros bits mk s acc s' out Hb Hf; [exfalso; exact (Nat.nlt_0_r _ Hf)|].
  cbn [unpack_loop]. unfold bsr_extract, bsr_available.
  destruct (len (br_buf s) * 8 <? br_off s) eqn:E0; [discriminate|].
  destruct (len (br_buf s) * 8 - br_off s <? bits) eqn:E1.
  - intros H. injection H as <- _. split; [reflexivity|]. lia.
  - cbv zeta. destruct (16 <? _); [discriminate|]. destruct (len (br_buf s) <? _); [discriminate|].
    intros H. apply IH in H; [|exact Hb|].
    + cbn [br_buf br_off] in H. exact H.
    + unfold pending in *. cbn [br_buf br_off].
      assert (Hp : bits <= 8 * len (br_buf s) - br_off s) by lia.
      pose proof (div_sub_one _ _ Hb Hp) as Hd.
      replace (8 * len (br_buf s) - (br_off s + bits)) with (8 * len (br_buf s) - br_off s - bits) by lia.
      set (X := (8 * len (br_buf s) - br_off s - bits) / bits) in *.
      set (Y := (8 * len (br_buf s) - br_off s) / bits) in *. clearbody X Y. lia.
Qed.

Lemma unpack_fuel_enough s bits : bits <> 0 -> (N.to_nat (pending s / bits) < unpack_fuel s bits)%nat.
Proof.
  intros Hb. unfold unpack_fuel, pending.
  assert (H : (8 * len (br_buf s) - br_off s) / bits <= (len (br_buf s) * 8) / bits)
    by (apply N.div_le_mono; [exact Hb|lia]).
  set (X := (8 * len (br_buf s) - br_off s) / bits) in *.
  set (Y := (len (br_buf s) * 8) / bits) in *. clearbody X Y. lia.
Qed.

Lemma unpack_ints_gen_tight mk mn mx s s' out : integer_bits mn mx <> 0 ->
  unpack_ints_gen mk mn mx s = Ok (s', out) ->
  br_buf s' = br_buf s /\ br_off s' <= 8 * len (br_buf s') /\
  8 * len (br_buf s') - br_off s' < integer_bits mn mx.
Proof.
  unfold unpack_ints_gen, integer_bits. intros Hnz.
  destruct (mx - mn <=? 0)%Z eqn:E; [discriminate|].
  destruct (0 <? mx - mn)%Z eqn:E2; [|lia].
  cbv zeta. intros H. eapply unpack_loop_tight; [|apply unpack_fuel_enough|exact H]; lia.
Qed.

Lemma unpack_type_tight t s s' out : bit_size t <> 0 -> unpack_type t s = Ok (s', out) ->
  br_buf s' = br_buf s /\ br_off s' <= 8 * len (br_buf s') /\
  8 * len (br_buf s') - br_off s' < bit_size t.
Proof.
  destruct t as [| |mn mx|mn mx]; cbn [bit_size unpack_type]; intros Hnz H.
  - unfold unpack_singles in H. eapply unpack_loop_tight; [|apply unpack_fuel_enough|exact H]; lia.
  - unfold unpack_doubles in H. eapply unpack_loop_tight; [|apply unpack_fuel_enough|exact H]; lia.
  - eapply unpack_ints_gen_tight; eassumption.
  - eapply unpack_ints_gen_tight; eassumption.
Qed.

(** * [parse_streams] *)

Lemma parse_streams_bounded d : forall proto streams queues ss qs,
  Forall2 (stream_appended d) proto streams -> length queues = length proto ->
  parse_streams proto streams queues = Ok (ss, qs) ->
  Forall2 (stream_bounded d) proto ss.
Proof.
  induction proto as [|t pr IH]; intros streams queues ss qs HF Hl H.
  - inversion HF; subst. cbn [parse_streams] in H. injection H as <- _. constructor.
  - inversion HF as [|? s ? sr Hs HF']; subst.
    destruct queues as [|q qr]; [discriminate|]. cbn [length] in Hl. injection Hl as Hl.
    cbn [parse_streams] in H.
    destruct (bit_size t =? 0) eqn:E.
    + destruct (parse_streams pr sr qr) as [[ss1 qs1]|k|] eqn:Ep; [|discriminate|discriminate].
      injection H as <- _. constructor; [|eapply IH; eassumption].
      unfold stream_appended in Hs. unfold stream_bounded. rewrite E in *. exact Hs.
    + destruct (unpack_type t s) as [[s1 vs]|k|] eqn:Eu; cbn [res_map] in H; [|discriminate|discriminate].
      destruct (parse_streams pr sr qr) as [[ss1 qs1]|k|] eqn:Ep; [|discriminate|discriminate].
      injection H as <- _. constructor; [|eapply IH; eassumption].
      apply unpack_type_tight in Eu; [|lia]. destruct Eu as (B1 & B2 & B3).
      unfold stream_appended in Hs. unfold stream_bounded. rewrite E in *.
      destruct Hs as [_ Hs]. rewrite B1 in *. split; [exact B2|]. split; [exact B3|exact Hs].
Qed.

(** * The walk through [qr_advance] *)

Section Walk.
  Variables ps ls : N.
  Let spec := gspec ps ls.

  Lemma wpp_read_streams_appended m : forall rproto sizes streams off,
    Forall2 (stream_bounded m) rproto streams -> length sizes = length streams ->
    wpp spec (read_streams rproto sizes streams)
        (fun ss o => off <= o /\ Forall2 (stream_appended (o - off)) rproto ss) off.
  Proof.
    induction rproto as [|t pr IH]; intros sizes streams off HF Hl.
    { cbn [read_streams wpp rret]. split; [lia|constructor]. }
    inversion HF as [|? st ? tr Hst HF']; subst.
    destruct sizes as [|sz sr]; [discriminate|]. cbn [length] in Hl. injection Hl as Hl.
    cbn [read_streams]. apply (wpp_rd_then ps ls). intros data o1 Hd Ho _.
    assert (Htail : forall st', stream_appended sz t st' ->
      wpp spec (rbind (read_streams pr sr tr) (fun r => rret (st' :: r)))
          (fun ss o => off <= o /\ Forall2 (stream_appended (o - off)) (t :: pr) ss) o1).
    { intros st' Ha. eapply wpp_bind_with; [apply (IH sr tr o1 HF' Hl)|].
      intros r o2 [A1 A2]. cbn [wpp rret]. split; [lia|]. constructor.
      - eapply stream_appended_mono; [|exact Ha]. lia.
      - revert A2. apply Forall2_impl. intros t1 s1. apply stream_appended_mono. lia. }
    destruct (bit_size t =? 0) eqn:E.
    - cbn [rret rbind]. apply Htail. unfold stream_bounded in Hst. unfold stream_appended.
      rewrite E in *. exact Hst.
    - destruct (bsr_append st data) as [st'|k|] eqn:Ea; cbn [rlift rbind]; [|exact I|exact I].
      apply Htail. rewrite <- Hd. eapply append_appended; eassumption.
  Qed.

  Lemma wpp_qr_advance_bounded m q off : qshape q -> streams_bounded m q ->
    wpp spec (qr_advance q)
        (fun q' o' => off <= o' /\ streams_bounded (N.max m (o' - off)) q') off.
  Proof.
    intros [L1 L2] Hb. unfold qr_advance.
    eapply wpp_bind_with; [apply (wpp_packet_header_read ps ls)|].
    intros h o1 [H1 H2].
    eapply wpp_bind_with with (R := fun q1 o2 => o1 <= o2 /\ streams_bounded (N.max m (o2 - o1)) q1).
    2: { intros q1 o2 (A1 & A2). apply (wpp_align_then ps ls). intros o3 B1 B2 B3 B4.
         cbn [wpp rret]. split; [lia|]. eapply streams_bounded_mono; [|exact A2]. lia. }
    destruct h as [pl|flag pl count|pl].
    - destruct (pl <? INDEX_HEADER_SIZE); [exact I|].
      apply (wpp_rd_then ps ls). intros l o2 _ Ho _. cbn [wpp rret].
      split; [lia|]. eapply streams_bounded_mono; [|exact Hb]. lia.
    - destruct (negb (count =? len (q_streams q))); [exact I|].
      eapply wpp_bind_with; [apply (wpp_read_sizes ps ls); exact H2|].
      intros sizes o2 (S1 & S2 & S3).
      eapply wpp_bind_with;
        [apply (wpp_read_streams_appended m (q_proto q) sizes (q_streams q) o2 Hb); congruence|].
      intros streams o3 (T1 & T2).
      destruct (negb (has_sized (q_proto q))); [exact I|].
      destruct (parse_streams (q_proto q) streams (q_queues q)) as [[ss qs]|k|] eqn:Ep;
        cbn [rlift rbind wpp rret]; try exact I.
      split; [lia|].
      pose proof (parse_streams_bounded _ _ _ _ _ _ T2 L2 Ep) as HB.
      unfold streams_bounded. cbn [q_proto q_streams].
      revert HB. apply Forall2_impl. intros t1 s1. apply stream_bounded_mono. lia.
    - destruct (pl <? IGNORED_HEADER_SIZE); [exact I|].
      apply (wpp_rd_then ps ls). intros l o2 _ Ho _. cbn [wpp rret].
      split; [lia|]. eapply streams_bounded_mono; [|exact Hb]. lia.
  Qed.
End Walk.

(** * On the paged reader *)

Theorem streams_bounded_qr_new : forall ps phys (s : pr) fo recs proto s' q,
  pr_inv ps phys s -> rrun (qr_new fo recs proto) s = (s', Ok q) -> streams_bounded 0 q.
Proof.
  intros ps phys s fo recs proto s' q I E.
  pose proof (wpp_rrun_ok ps phys _ _ s s' q I (wpp_qr_new ps (pr_log_size s) fo recs proto (pr_off s)) E) as Hq.
  cbv beta in Hq. subst q. apply streams_bounded_new.
Qed.

Theorem streams_bounded_advance : forall ps phys (s : pr) q s' q' m,
  pr_inv ps phys s -> qshape q -> streams_bounded m q ->
  rrun (qr_advance q) s = (s', Ok q') ->
  pr_off s <= pr_off s' /\ streams_bounded (N.max m (pr_off s' - pr_off s)) q'.
Proof.
  intros ps phys s q s' q' m I Hs Hb E.
  exact (wpp_rrun_ok ps phys _ _ s s' q' I
           (wpp_qr_advance_bounded ps (pr_log_size s) m q (pr_off s) Hs Hb) E).
Qed.

Theorem streams_bounded_pop : forall m q qs,
  streams_bounded m q -> streams_bounded m (mkQr (q_proto q) (q_streams q) qs).
Proof. intros m q qs H. exact H. Qed.

(** every reachable state of the packet reader: the bit buffers of records of zero width are
    empty; every other bit buffer holds fewer unread bits than one value, in at most
    (bit_size + 6) / 8 bytes of leftover plus the last chunk; [m], the bound of a chunk, is at
    most the number of bytes one [advance] consumed - and the next [advance] changes it to at
    most the maximum of [m] and what it consumes itself. *)
Theorem stream_buffers_bounded : forall ps phys off0 q s, qreach ps phys off0 q s ->
  exists m, m <= pr_off s - off0 /\
    Forall2 (fun t b =>
      if bit_size t =? 0 then br_buf b = [] /\ br_off b = 0
      else br_off b <= 8 * len (br_buf b) /\
           8 * len (br_buf b) - br_off b < bit_size t /\
           len (br_buf b) <= (bit_size t + 6) / 8 + m) (q_proto q) (q_streams q) /\
    forall s' q', rrun (qr_advance q) s = (s', Ok q') ->
      pr_off s <= pr_off s' /\
      Forall2 (fun t b =>
        if bit_size t =? 0 then br_buf b = [] /\ br_off b = 0
        else br_off b <= 8 * len (br_buf b) /\
             8 * len (br_buf b) - br_off b < bit_size t /\
             len (br_buf b) <= (bit_size t + 6) / 8 + N.max m (pr_off s' - pr_off s))
        (q_proto q') (q_streams q').
Proof.
  intros ps phys off0 q s H.
  assert (Hm : exists m, m <= pr_off s - off0 /\ off0 <= pr_off s /\ streams_bounded m q).
  { induction H as [s fo recs proto s' q I E Eo|q s q' s' H IH E|q s vs qs H IH E].
    - exists 0. split; [lia|]. split; [lia|]. eapply streams_bounded_qr_new; eassumption.
    - destruct IH as (m & Hm1 & Hm0 & Hm2). destruct (qreach_inv _ _ _ _ _ H) as (I & Hs & _).
      destruct (streams_bounded_advance ps phys s q s' q' m I Hs Hm2 E) as [Ho Hb].
      exists (N.max m (pr_off s' - pr_off s)). split; [lia|]. split; [lia|exact Hb].
    - destruct IH as (m & Hm1 & Hm0 & Hm2). exists m. split; [exact Hm1|]. split; [exact Hm0|exact Hm2]. }
  destruct Hm as (m & Hm1 & _ & Hm2). exists m. split; [exact Hm1|]. split; [exact Hm2|].
  intros s' q' E. destruct (qreach_inv _ _ _ _ _ H) as (I & Hs & _).
  exact (streams_bounded_advance ps phys s q s' q' m I Hs Hm2 E).
Qed.

(** the hypotheses are satisfiable, and the bound of the sized record is attained up to the
    leftover: the reachable state of [zero_width_no_values] (one data packet, 100 bytes for a
    1-bit record, three records of zero width) *)
Example stream_buffers_bounded_example :
  qreach 1024 amp_phys 80 amp_q1 amp_s2 /\
  map (fun b => len (br_buf b)) (q_streams amp_q1) = [100; 0; 0; 0] /\
  map br_off (q_streams amp_q1) = [800; 0; 0; 0] /\
  pr_off amp_s2 - pr_off amp_s1 = 116.
Proof. split; [exact amp_reach|]. vm_compute. repeat split; reflexivity. Qed.

Print Assumptions stream_buffers_bounded.
