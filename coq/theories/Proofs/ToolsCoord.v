(** C20, coordinates: what e57-from-xyz stores as a finite f32 comes out of the
    simple iterator (identity pose applied!) as the f64 with the same real
    value; only the sign of a zero is lost (-0 is delivered as +0: the pose
    is applied as 1*x + 0*y + 0*z + 0 even when it is the identity).
    Proved with Flocq's correctness theorems of the IEEE operations. *)
From Coq Require Import ZArith NArith Bool List Reals Lia Lra.
From Flocq Require Import Core Binary Bits.
From E57 Require Import Base.Prelude Base.Floats Model.Normalize Model.Tools.

Local Open Scope R_scope.
Definition is_zero64 (x : binary64) : bool := match x with B754_zero _ _ _ => true | _ => false end.
(** a zero becomes +0, everything else is unchanged *)
Definition pz64 (x : binary64) : binary64 := match x with B754_zero _ _ _ => B754_zero 53 1024 false | _ => x end.

Lemma f64_mul_zero_l : forall s (x : binary64), is_finite 53 1024 x = true ->
  f64_mul (B754_zero 53 1024 s) x = B754_zero 53 1024 (xorb s (Bsign 53 1024 x)).
Proof. intros s [sx|sx|sx pl H|sx m e H] Hf; try discriminate; reflexivity. Qed.

Lemma f64_add_zero_l : forall s (x : binary64), is_finite 53 1024 x = true ->
  f64_add (B754_zero 53 1024 s) x = match x with B754_zero _ _ sx => B754_zero 53 1024 (andb s sx) | _ => x end.
Proof. intros s [sx|sx|sx pl H|sx m e H] Hf; try discriminate; destruct s; try destruct sx; reflexivity. Qed.

Lemma f64_add_zero_r : forall s (x : binary64), is_finite 53 1024 x = true ->
  f64_add x (B754_zero 53 1024 s) = match x with B754_zero _ _ sx => B754_zero 53 1024 (andb sx s) | _ => x end.
Proof. intros s [sx|sx|sx pl H|sx m e H] Hf; try discriminate; destruct s; try destruct sx; reflexivity. Qed.

Lemma B2R_f64_one : B2R 53 1024 f64_one = 1.
Proof. vm_compute. lra. Qed.

Lemma f64_mul_one_l : forall x : binary64, is_finite 53 1024 x = true -> f64_mul f64_one x = x.
Proof.
  intros x Hf. unfold f64_mul, b64_mult.
  match goal with |- Bmult _ _ ?hp ?he ?nan _ _ _ = _ =>
    pose proof (Bmult_correct 53 1024 hp he nan mode_NE f64_one x) as H end.
  rewrite B2R_f64_one, Rmult_1_l in H.
  rewrite round_generic in H; [|auto with typeclass_instances|apply generic_format_B2R].
  rewrite Rlt_bool_true in H by apply abs_B2R_lt_emax.
  destruct H as (HR & HF & HS).
  rewrite Hf in HF. change (is_finite 53 1024 f64_one) with true in HF. cbn [andb] in HF.
  apply B2R_Bsign_inj.
  - exact HF.
  - exact Hf.
  - exact HR.
  - rewrite HS.
    + change (Bsign 53 1024 f64_one) with false. rewrite xorb_false_l. reflexivity.
    + match goal with |- is_nan _ _ ?r = false => destruct r; try reflexivity; discriminate HF end.
Qed.

Lemma rotation_default :
  prepare_rotation pose_default =
  mkRot f64_one f64_zero f64_zero f64_zero f64_one f64_zero f64_zero f64_zero f64_one.
Proof.
  assert (E : forall a b : binary64, B2FF 53 1024 a = B2FF 53 1024 b -> a = b) by (apply B2FF_inj).
  unfold prepare_rotation. cbn [q_w q_x q_y q_z pose_default].
  f_equal; apply E; vm_compute; reflexivity.
Qed.

Theorem transform_identity : forall x y z : binary64,
  is_finite 53 1024 x = true -> is_finite 53 1024 y = true -> is_finite 53 1024 z = true ->
  transform_xyz (prepare_rotation pose_default) pose_default x y z = (pz64 x, pz64 y, pz64 z).
Proof.
  intros x y z Hx Hy Hz. rewrite rotation_default. unfold transform_xyz.
  cbn [r0 r1 r2 r3 r4 r5 r6 r7 r8 t_x t_y t_z pose_default].
  change f64_zero with (B754_zero 53 1024 false).
  rewrite !f64_mul_one_l by assumption.
  rewrite !f64_mul_zero_l by assumption.
  destruct x as [sx|sx|sx px Px|sx mx ex Px]; try discriminate Hx;
  destruct y as [sy|sy|sy py Py|sy my ey Py]; try discriminate Hy;
  destruct z as [sz|sz|sz pz Pz|sz mz ez Pz]; try discriminate Hz;
  cbn [Bsign xorb pz64];
  repeat match goal with s : bool |- _ => destruct s end; reflexivity.
Qed.

(** every binary32 number is a binary64 number *)
Lemma format32_in_64 : forall r : R,
  generic_format radix2 (FLT_exp (3 - 128 - 24) 24) r -> generic_format radix2 (FLT_exp (3 - 1024 - 53) 53) r.
Proof.
  intros r. apply generic_inclusion_mag. intros _. unfold FLT_exp. lia.
Qed.

Lemma f64_of_f32_exact : forall x : binary32, is_finite 24 128 x = true ->
  is_finite 53 1024 (f64_of_f32 x) = true /\
  B2R 53 1024 (f64_of_f32 x) = B2R 24 128 x /\
  Bsign 53 1024 (f64_of_f32 x) = Bsign 24 128 x.
Proof.
  intros [s|s|s pl P|s m e P] Hf; try discriminate Hf.
  - repeat split.
  - unfold f64_of_f32.
    pose proof (binary_normalize_correct 53 1024 Hprec64 Hemax64 mode_NE (SpecFloat.cond_Zopp s (Zpos m)) e s) as H.
    set (x := B754_finite 24 128 s m e P) in *.
    assert (Ex : F2R (Float radix2 (SpecFloat.cond_Zopp s (Zpos m)) e) = B2R 24 128 x) by reflexivity.
    rewrite Ex in H.
    rewrite round_generic in H;
      [|auto with typeclass_instances|apply format32_in_64; apply (generic_format_B2R 24 128)].
    rewrite Rlt_bool_true in H.
    + destruct H as (HR & HF & HS). repeat split; try assumption.
      rewrite HS. unfold x. cbn [B2R Bsign].
      destruct s; cbn [SpecFloat.cond_Zopp].
      * rewrite Rcompare_Lt; [reflexivity|]. apply F2R_lt_0. reflexivity.
      * rewrite Rcompare_Gt; [reflexivity|]. apply F2R_gt_0. reflexivity.
    + eapply Rlt_trans; [apply (abs_B2R_lt_emax 24 128)|]. apply bpow_lt. reflexivity.
Qed.

Definition pz32 (x : binary32) : binary32 := match x with B754_zero _ _ _ => B754_zero 24 128 false | _ => x end.

Lemma finite_sign_compare32 : forall x : binary32, is_finite_strict 24 128 x = true ->
  match Rcompare (B2R 24 128 x) 0 with Eq => false | Lt => true | Gt => false end = Bsign 24 128 x.
Proof.
  intros [s|s|s pl P|s m e P] H; try discriminate H. cbn [B2R Bsign].
  destruct s; cbn [SpecFloat.cond_Zopp].
  - rewrite Rcompare_Lt; [reflexivity|]. apply F2R_lt_0. reflexivity.
  - rewrite Rcompare_Gt; [reflexivity|]. apply F2R_gt_0. reflexivity.
Qed.

(** reading the printed f64 back as f32 gives the f32 that was stored *)
Lemma f32_of_f64_of_f32 : forall x : binary32, is_finite 24 128 x = true ->
  f32_of_f64 (f64_of_f32 x) = x.
Proof.
  intros x Hf. destruct (f64_of_f32_exact x Hf) as (Yf & YR & YS).
  destruct x as [s|s|s pl P|s m e P]; try discriminate Hf; [reflexivity|].
  set (x := B754_finite 24 128 s m e P) in *.
  assert (Hnz : B2R 24 128 x <> 0).
  { unfold x. cbn [B2R]. destruct s; cbn [SpecFloat.cond_Zopp].
    - apply Rlt_not_eq. apply F2R_lt_0. reflexivity.
    - apply Rgt_not_eq. apply F2R_gt_0. reflexivity. }
  destruct (f64_of_f32 x) as [sy|sy|sy ply Py|sy my ey Py] eqn:Ey; try discriminate Yf.
  { cbn [B2R] in YR. congruence. }
  unfold f32_of_f64.
  pose proof (binary_normalize_correct 24 128 Hprec32 Hemax32 mode_NE (SpecFloat.cond_Zopp sy (Zpos my)) ey sy) as H.
  assert (Ex : F2R (Float radix2 (SpecFloat.cond_Zopp sy (Zpos my)) ey) = B2R 24 128 x) by (rewrite <- YR; reflexivity).
  rewrite Ex in H.
  rewrite round_generic in H; [|auto with typeclass_instances|apply (generic_format_B2R 24 128)].
  rewrite Rlt_bool_true in H by apply (abs_B2R_lt_emax 24 128).
  destruct H as (HR & HF & HS).
  apply B2R_Bsign_inj; try assumption.
  rewrite HS. rewrite <- (finite_sign_compare32 x eq_refl).
  destruct (Rcompare (B2R 24 128 x) 0) eqn:Ec; try reflexivity.
  apply Rcompare_Eq_inv in Ec. congruence.
Qed.

Lemma pz64_f64_of_f32 : forall x : binary32, is_finite 24 128 x = true ->
  is_finite 53 1024 (pz64 (f64_of_f32 x)) = true /\
  B2R 53 1024 (pz64 (f64_of_f32 x)) = B2R 24 128 x /\
  f32_of_f64 (pz64 (f64_of_f32 x)) = pz32 x.
Proof.
  intros x Hf. destruct (f64_of_f32_exact x Hf) as (Yf & YR & YS).
  pose proof (f32_of_f64_of_f32 x Hf) as Hrt.
  destruct x as [s|s|s pl P|s m e P]; try discriminate Hf.
  - repeat split.
  - destruct (f64_of_f32 (B754_finite 24 128 s m e P)) as [sy|sy|sy ply Py|sy my ey Py] eqn:Ey; try discriminate Yf.
    + cbn [f32_of_f64] in Hrt. discriminate Hrt.
    + cbn [pz64 pz32]. repeat split; assumption.
Qed.
