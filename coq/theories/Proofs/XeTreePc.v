(** Prototype records, the points element and [PointCloud::from_node] on the trees of Spec/MetaTree.v. *)
From Coq Require Import Strings.String.
From Coq Require Import List Bool NArith ZArith Lia.
From E57 Require Import Base.Prelude Model.Meta Model.MetaFile Model.XmlTree Model.XmlExtract
  Spec.MetaTree Spec.XeMetaOk Proofs.XeLemmas Proofs.XeExtRecords Proofs.XeTreeDec Proofs.XeTreeFind
  Proofs.XeTreeStruct.
Import ListNotations.

Local Notation "'B' s" := (ltac:(let v := eval vm_compute in (bytes_of_string s%string) in exact v))
  (at level 0, s at level 0, only parsing).

Lemma ofo_and {A} (p q : A -> bool) o : ofo p o = true -> ofo q o = true -> ofo (fun a => p a && q a) o = true.
Proof. destruct o as [a|]; cbn [ofo]; [intros H1 H2; rewrite H1, H2|]; reflexivity. Qed.

Lemma filter_lines_all p l :
  p nl = false -> (forall x, In x l -> p x = true) -> filter p (lines l) = l.
Proof.
  intros Hn H. unfold lines. cbn [filter]. rewrite Hn.
  induction l as [|x l IH]; [reflexivity|]. cbn [flat_map app filter].
  rewrite (H x (or_introl eq_refl)), Hn. f_equal. apply IH. intros y Hy. apply H. right. exact Hy.
Qed.

Lemma opt_node_of {A} (f : xnode -> res A) (g : A -> xnode) (ok : A -> bool) n nm o :
  find_child nm n = option_map g o -> ofo ok o = true -> (forall a, ok a = true -> f (g a) = Ok a) ->
  opt_node (find_child nm n) f = Ok o.
Proof.
  intros E H Hf. unfold opt_node. rewrite E. destruct o as [a|]; [|reflexivity].
  cbn [option_map opt_case ofo] in *. rewrite (Hf a H). reflexivity.
Qed.

Section Pc.
Variables pf64 pf32 : xstr -> option N.
Variable exts : list extension.
Let sc := scope_of exts.

(** * record.rs *)
Ltac dt_tac :=
  repeat (first
    [ progress eval_attrs
    | rewrite f32_parsed_ok by assumption
    | rewrite f64_parsed_ok by assumption
    | rewrite parse_i64_dec_z by (apply in_i64_spec; assumption)
    | progress cbn [invalid_err res_bind dflt]
    | progress eval_ifs ]).

Lemma data_type_of r :
  dtype_fo pf64 pf32 (r_type r) = true -> dtype_ok (r_type r) = true ->
  data_type_from_node pf64 pf32 (t_record sc exts r) = Ok (r_type r).
Proof.
  destruct r as [n d]. cbn [r_type]. intros Hf Hk.
  unfold t_record. cbn [r_type r_name].
  destruct d as [mn mx|mn mx|mn mx s o|mn mx]; cbn [dtype_fo dtype_ok] in *; split_and.
  - destruct mn as [a|], mx as [b|]; cbn [ofo] in *; unfold data_type_from_node, optional_attribute; dt_tac; reflexivity.
  - destruct mn as [a|], mx as [b|]; cbn [ofo] in *; unfold data_type_from_node, optional_attribute; dt_tac; reflexivity.
  - unfold data_type_from_node, optional_attribute. dt_tac.
    match goal with H : (mn <=? mx)%Z = true |- _ => apply Z.leb_le in H; rewrite (proj2 (Z.ltb_ge mx mn) H) end.
    dt_tac. reflexivity.
  - unfold data_type_from_node, optional_attribute. dt_tac.
    match goal with H : (mn <=? mx)%Z = true |- _ => apply Z.leb_le in H; rewrite (proj2 (Z.ltb_ge mx mn) H) end.
    reflexivity.
Qed.

Lemma t_record_shape r :
  exists attrs text, t_record sc exts r = XElem (record_xname exts (r_name r)) attrs sc [XText text].
Proof. unfold t_record. destruct (r_type r); eexists; eexists; reflexivity. Qed.

Lemma opt_xstr_eqb_eq o s : opt_xstr_eqb o s = true -> o = Some s.
Proof. destruct o as [x|]; cbn; [|discriminate]. intros H. apply xstr_eqb_eq in H. subst. reflexivity. Qed.

Lemma record_of r :
  record_ok exts r = true -> dtype_fo pf64 pf32 (r_type r) = true ->
  record_from_node pf64 pf32 (t_record sc exts r) = Ok r.
Proof.
  intros Hk Hf. unfold record_ok in Hk. apply andb_true_iff in Hk. destruct Hk as [Hn Hd].
  pose proof (data_type_of r Hf Hd) as Ht.
  destruct (t_record_shape r) as (attrs & text & E). rewrite E in *.
  destruct r as [n d]. cbn [r_name r_type] in *.
  destruct n; cbn [record_name_ok record_xname std_record_name] in *;
    try (unfold record_from_node; rewrite Ht; cbn [res_bind ename xn_ns xn_local]; eval_ifs;
         unfold record_name_of;
         match goal with |- context[find ?f record_name_table] =>
           let v := eval vm_compute in (find f record_name_table) in change (find f record_name_table) with v end;
         reflexivity).
  (* Unknown namespace name *)
  destruct (ext_uri exts namespace) as [u|] eqn:Eu; [|discriminate].
  apply andb_true_iff in Hn. destruct Hn as [Hp Hs].
  apply opt_xstr_eqb_eq in Hp.
  rewrite (record_unknown pf64 pf32 u namespace name attrs sc [XText text]).
  - rewrite Ht. reflexivity.
  - exact Hp.
  - left. exact Hs.
Qed.

Lemma records_of l :
  forallb (record_ok exts) l = true -> forallb (fun r => dtype_fo pf64 pf32 (r_type r)) l = true ->
  map_res (record_from_node pf64 pf32) (map (t_record sc exts) l) = Ok l.
Proof.
  induction l as [|r l IH]; cbn [forallb map map_res]; intros Hk Hf; [reflexivity|].
  apply andb_true_iff in Hk. destruct Hk as [Hk1 Hk2]. apply andb_true_iff in Hf. destruct Hf as [Hf1 Hf2].
  rewrite (record_of r Hk1 Hf1), (IH Hk2 Hf2). reflexivity.
Qed.

Lemma t_record_is_element r : is_element (t_record sc exts r) = true.
Proof. destruct (t_record_shape r) as (a & t & E). rewrite E. reflexivity. Qed.

Lemma prototype_of l :
  forallb (record_ok exts) l = true -> forallb (fun r => dtype_fo pf64 pf32 (r_type r)) l = true ->
  prototype_records pf64 pf32 (t_struct sc (B"prototype") (map (t_record sc exts) l)) = Ok l.
Proof.
  intros Hk Hf. unfold prototype_records, t_struct, el. cbn [children].
  rewrite filter_lines_all; [apply records_of; assumption|reflexivity|].
  intros x Hx. apply in_map_iff in Hx. destruct Hx as (r & <- & _). apply t_record_is_element.
Qed.

(** * pointcloud.rs *)
Lemma original_guids_vector nm l :
  original_guids_of (t_vector sc nm false (map (t_string sc (B"vectorChild")) l)) = l.
Proof.
  unfold original_guids_of, t_vector, el. cbn [children].
  rewrite filter_lines_all.
  - rewrite map_map. induction l as [|x l IH]; [reflexivity|]. cbn [map]. rewrite IH, opt_text_string. reflexivity.
  - reflexivity.
  - intros x Hx. apply in_map_iff in Hx. destruct Hx as (s & <- & _). reflexivity.
Qed.

Lemma original_guids_from_of n o :
  find_child (B"originalGuids") n =
    option_map (fun l => t_vector sc (B"originalGuids") false (map (t_string sc (B"vectorChild")) l)) o ->
  original_guids_from_node n = o.
Proof.
  intros E. unfold original_guids_from_node. rewrite E. destruct o as [l|]; [|reflexivity].
  cbn [option_map opt_case]. rewrite original_guids_vector. reflexivity.
Qed.

Lemma points_of pc :
  in_u64 (pc_file_offset pc) = true -> in_u64 (pc_records pc) = true ->
  forallb (record_ok exts) (pc_prototype pc) = true ->
  forallb (fun r => dtype_fo pf64 pf32 (r_type r)) (pc_prototype pc) = true ->
  points_from_node pf64 pf32 (t_pointcloud sc exts pc) =
    Ok (Z.of_N (pc_file_offset pc), Z.of_N (pc_records pc), pc_prototype pc).
Proof.
  intros Ho Hr Hk Hf. unfold points_from_node, req_node.
  assert (E : find_child_typed (B"points") (B"CompressedVector") (t_pointcloud sc exts pc) = Some (t_points sc exts pc))
    by (unfold t_pointcloud, t_struct; fc).
  rewrite E. cbn [opt_case]. unfold t_points at 1 2 3. eval_attrs.
  cbn [invalid_err res_bind].
  rewrite !parse_u64_dec_n by (apply in_u64_spec; assumption). cbn [invalid_err res_bind].
  assert (E2 : find_child_typed (B"prototype") (B"Structure") (t_points sc exts pc) =
               Some (t_struct sc (B"prototype") (map (t_record sc exts) (pc_prototype pc))))
    by (unfold t_points; fc).
  change (XElem (ename (B"points")) _ sc _) with (t_points sc exts pc).
  rewrite E2. cbn [opt_case]. rewrite (prototype_of _ Hk Hf). reflexivity.
Qed.

Ltac pc_find nm :=
  let E := fresh "E" in
  eassert (E : find_child nm (t_pointcloud sc exts _) = _) by (unfold t_pointcloud, t_struct; fc).

Lemma pointcloud_of pc :
  pc_ok exts pc = true -> pc_fo pf64 pf32 pc = true ->
  pointcloud_from_node pf64 pf32 (t_pointcloud sc exts pc) = Ok pc.
Proof.
  intros Hk Hf. unfold pc_ok in Hk. unfold pc_fo in Hf. split_and.
  unfold pointcloud_from_node.
  rewrite (points_of pc) by assumption.
  assert (Eog : original_guids_from_node (t_pointcloud sc exts pc) = pc_original_guids pc)
    by (apply original_guids_from_of; unfold t_pointcloud, t_struct; fc).
  rewrite Eog.
  assert (Ecb : opt_node (find_child (B"cartesianBounds") (t_pointcloud sc exts pc)) (cartesian_bounds_from_node pf64) = Ok (pc_cartesian_bounds pc))
    by (eapply (opt_node_of _ (t_cartesian_bounds sc) (cb_fo pf64)); [unfold t_pointcloud, t_struct; fc|assumption|apply cartesian_bounds_of]).
  assert (Esb : opt_node (find_child (B"sphericalBounds") (t_pointcloud sc exts pc)) (spherical_bounds_from_node pf64) = Ok (pc_spherical_bounds pc))
    by (eapply (opt_node_of _ (t_spherical_bounds sc) (sb_fo pf64)); [unfold t_pointcloud, t_struct; fc|assumption|apply spherical_bounds_of]).
  assert (Eib : opt_node (find_child (B"indexBounds") (t_pointcloud sc exts pc)) index_bounds_from_node = Ok (pc_index_bounds pc))
    by (eapply (opt_node_of _ (t_index_bounds sc) ib_ok); [unfold t_pointcloud, t_struct; fc|assumption|apply index_bounds_of]).
  assert (Eil : opt_node (find_child (B"intensityLimits") (t_pointcloud sc exts pc)) (intensity_limits_from_node pf64 pf32) = Ok (pc_intensity_limits pc)).
  { eapply (opt_node_of _ (t_intensity_limits sc) (fun l => il_fo pf64 pf32 l && il_ok l)); [unfold t_pointcloud, t_struct; fc|apply ofo_and; assumption|].
    intros a Ha. apply andb_true_iff in Ha. destruct Ha. apply intensity_limits_of; assumption. }
  assert (Ecl : opt_node (find_child (B"colorLimits") (t_pointcloud sc exts pc)) (color_limits_from_node pf64 pf32) = Ok (pc_color_limits pc)).
  { eapply (opt_node_of _ (t_color_limits sc) (fun l => cl_fo pf64 pf32 l && cl_ok l)); [unfold t_pointcloud, t_struct; fc|apply ofo_and; assumption|].
    intros a Ha. apply andb_true_iff in Ha. destruct Ha. apply color_limits_of; assumption. }
  rewrite Ecb, Esb, Eib, Eil, Ecl. clear Ecb Esb Eib Eil Ecl Eog.
  assert (Etr : opt_transform pf64 (t_pointcloud sc exts pc) (B"pose") = Ok (pc_transform pc))
    by (eapply (opt_transform_of sc pf64); [unfold t_pointcloud, t_struct; fc|assumption]).
  rewrite Etr. clear Etr.
  unfold t_pointcloud, t_struct.
  repeat step_string sc. repeat step_f64 sc pf64. repeat step_date_time sc pf64.
  cbn [res_bind]. rewrite !N2Z.id. destruct pc; reflexivity.
Qed.

End Pc.
