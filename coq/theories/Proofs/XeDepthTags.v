(** The depth scanner on the start tags of a rendering: names and blanks are skipped byte by
    byte, quoted attribute values as a whole, the byte in front of '>' is '/' exactly for the
    self-closing form. *)
From Coq Require Import List Bool NArith Lia ZArith ZifyN ZifyBool.
From E57 Require Import Base.Prelude Model.XmlTree Model.XmlDepth Spec.XmlRender Proofs.XeDepth Proofs.XeDepthPieces.
Import ListNotations.

(** bytes that may occur outside quotes in a start tag, other than the final "/" *)
Definition tb (b : N) : bool := negb ((b =? 34) || (b =? 39) || (b =? 62) || (b =? 47)).
Definition lastb (prev : N) (x : xstr) : N := fold_left (fun _ b => b) x prev.

Lemma scan_tag_plain x prev tail :
  forallb tb x = true -> scan_tag None prev (x ++ tail) = scan_tag None (lastb prev x) tail.
Proof.
  revert prev. induction x as [|b x IH]; intros prev H; [reflexivity|].
  cbn [forallb] in H. apply andb_true_iff in H. destruct H as [Hb Hx].
  cbn [app scan_tag lastb fold_left]. unfold tb in Hb.
  destruct (b =? 34), (b =? 39), (b =? 62); try discriminate Hb. cbn [orb]. apply IH. exact Hx.
Qed.

Lemma lastb_ok prev x : prev <> 47 -> forallb tb x = true -> lastb prev x <> 47.
Proof.
  revert prev. induction x as [|b x IH]; intros prev Hp H; [exact Hp|].
  cbn [forallb] in H. apply andb_true_iff in H. destruct H as [Hb Hx]. cbn [lastb fold_left].
  apply IH; [|exact Hx]. unfold tb in Hb. lia.
Qed.

Lemma scan_tag_quoted q v prev tail :
  q = 34 \/ q = 39 -> forallb (fun x => negb (x =? q)) v = true ->
  scan_tag None prev (q :: v ++ q :: tail) = scan_tag None q tail.
Proof.
  intros Hq Hv. cbn [scan_tag].
  assert (Eq : (q =? 34) || (q =? 39) = true) by (destruct Hq; subst; reflexivity).
  rewrite Eq. clear Eq.
  assert (G : forall pv, scan_tag (Some q) pv (v ++ q :: tail) = scan_tag None q tail).
  { induction v as [|b v IH]; intros pv.
    - cbn [app scan_tag]. rewrite N.eqb_refl. reflexivity.
    - cbn [forallb] in Hv. apply andb_true_iff in Hv. destruct Hv as [Hb Hv]. apply negb_true_iff in Hb.
      cbn [app scan_tag]. rewrite Hb. apply IH. exact Hv. }
  apply G.
Qed.

(** * Names *)
Lemma name_byte_tb b : name_byte b = true -> tb b = true.
Proof. unfold name_byte, name_start_byte, in_rng, tb. lia. Qed.

Lemma ncname_tb s : ncname s = true -> forallb tb s = true.
Proof.
  destruct s as [|b r]; [discriminate|]. cbn [ncname forallb]. intros H. apply andb_true_iff in H.
  destruct H as [Hb Hr]. apply andb_true_iff. split.
  - apply name_byte_tb. unfold name_byte. rewrite Hb. reflexivity.
  - rewrite forallb_forall in *. intros x Hx. apply name_byte_tb. auto.
Qed.

Lemma ncname_head s : ncname s = true -> exists b r, s = b :: r /\ name_start_byte b = true.
Proof. destruct s as [|b r]; [discriminate|]. cbn [ncname]. intros H. apply andb_true_iff in H. exists b, r. tauto. Qed.

Lemma blanks_tb w : forallb tb (blanks w) = true.
Proof.
  unfold blanks. induction w as [|b w IH]; [reflexivity|]. cbn [filter]. destruct (is_blank b) eqn:E; [|exact IH].
  cbn [forallb]. rewrite IH, andb_true_r. unfold is_blank, tb in *. lia.
Qed.
Lemma blanks1_tb w : forallb tb (blanks1 w) = true.
Proof. unfold blanks1. pose proof (blanks_tb w). destruct (blanks w); [reflexivity|assumption]. Qed.

Lemma blanks_no_gt w : forallb (fun b => negb (b =? 62)) (blanks w) = true.
Proof.
  unfold blanks. induction w as [|b w IH]; [reflexivity|]. cbn [filter]. destruct (is_blank b) eqn:E; [|exact IH].
  cbn [forallb]. rewrite IH, andb_true_r. unfold is_blank in *. lia.
Qed.

Lemma tb_no_gt x : forallb tb x = true -> forallb (fun b => negb (b =? 62)) x = true.
Proof.
  intros H. rewrite forallb_forall in *. intros b Hb. specialize (H b Hb). unfold tb in H. lia.
Qed.

(** the qualified name of a well-formed prefix and local name *)
Definition prefix_ok (p : option xstr) : bool := match p with Some s => ncname s | None => true end.

Lemma qname_tb p l : prefix_ok p = true -> ncname l = true -> forallb tb (qname p l) = true.
Proof.
  intros Hp Hl. unfold qname. destruct p as [s|]; [|apply ncname_tb; exact Hl].
  apply forallb_app'; [apply ncname_tb; exact Hp|]. cbn [forallb]. rewrite (ncname_tb l Hl). reflexivity.
Qed.

Lemma qname_head p l : prefix_ok p = true -> ncname l = true ->
  exists b r, qname p l = b :: r /\ name_start_byte b = true.
Proof.
  intros Hp Hl. unfold qname. destruct p as [s|]; [|apply ncname_head; exact Hl].
  destruct (ncname_head s Hp) as (b & r & -> & Hb). exists b, (r ++ 58 :: l). split; [reflexivity|exact Hb].
Qed.

(** * Attribute lists *)
Definition item_ok (sc : list xnsdecl) (it : item) : bool := forallb tb (item_name sc it).

Lemma scan_items ec sc l : forall i prev tail,
  prev <> 47 -> forallb (item_ok sc) l = true ->
  exists prev', prev' <> 47 /\
    scan_tag None prev (render_items ec sc i l ++ tail) = scan_tag None prev' tail.
Proof.
  induction l as [|it l IH]; intros i prev tail Hp Hl.
  - cbn [render_items]. exists (lastb prev (blanks (ec_ws_end ec))). split.
    + apply lastb_ok; [exact Hp|apply blanks_tb].
    + apply scan_tag_plain. apply blanks_tb.
  - cbn [forallb] in Hl. apply andb_true_iff in Hl. destruct Hl as [Hit Hl]. cbn [render_items].
    set (q := quote_byte (ec_quote ec i)).
    assert (Hq : q = 34 \/ q = 39) by (unfold q, quote_byte; destruct (ec_quote ec i); auto).
    destruct (IH (S i) q tail) as (prev' & Hp' & E); [destruct Hq; lia|exact Hl|].
    exists prev'. split; [exact Hp'|].
    replace ((blanks1 (ec_ws ec i) ++ item_name sc it ++ 61 :: q :: esc_bytes (attr_must q) (ec_ref ec i) 0%nat (item_value it) ++ q :: render_items ec sc (S i) l) ++ tail)
      with ((blanks1 (ec_ws ec i) ++ item_name sc it ++ [61]) ++ q :: esc_bytes (attr_must q) (ec_ref ec i) 0%nat (item_value it) ++ q :: (render_items ec sc (S i) l ++ tail))
      by (rewrite <- !app_assoc; cbn [app]; rewrite <- !app_assoc; reflexivity).
    rewrite scan_tag_plain.
    + rewrite scan_tag_quoted; [exact E|exact Hq|apply attr_no_quote; exact Hq].
    + apply forallb_app'; [apply blanks1_tb|]. apply forallb_app'; [exact Hit|reflexivity].
Qed.
