(** Start tags: the attribute loop of the parser model on what [render_items] writes, and
    the pieces of [parse_element_with] that do not involve the children. *)
From Coq Require Import Lia ZifyN ZifyNat ZifyBool.
From E57 Require Import Base.Prelude Model.XmlTree Model.XmlParse Spec.XmlRender
  Proofs.XmlpLex Proofs.XmlpEsc Proofs.XmlpFuel Proofs.XmlpNs.

Local Open Scope N_scope.

(** a result obtained with some fuel is the result with any sufficient fuel *)
Lemma parse_attrs_any_fuel : forall f s x, parse_attrs f s = POk x -> parse_attrs (S (length s)) s = POk x.
Proof.
  intros f s x H. destruct (Nat.le_ge_cases f (S (length s))) as [L|L].
  - exact (parse_attrs_ok_mono f _ s x H L).
  - assert (N := parse_attrs_fuel (S (length s)) s (Nat.lt_succ_diag_r _)).
    rewrite <- (parse_attrs_mono _ f s L N). exact H.
Qed.

(** the qualified name an item is written with *)
Definition item_pre (sc : list xnsdecl) (it : item) : option xstr :=
  match it with
  | ItAttr a => or_default (attr_prefix sc (xn_ns (xa_name a))) None
  | ItDecl d => match xns_prefix d with Some _ => Some S_XMLNS | None => None end
  end.
Definition item_local (it : item) : xstr :=
  match it with
  | ItAttr a => xn_local (xa_name a)
  | ItDecl d => match xns_prefix d with Some p => p | None => S_XMLNS end
  end.

Lemma item_name_qname : forall sc it, item_name sc it = qname (item_pre sc it) (item_local it).
Proof. intros sc [a|d]; cbn [item_name item_pre item_local]; [reflexivity|]. destruct (xns_prefix d); reflexivity. Qed.

Lemma raw_of_item_eq : forall sc it,
  raw_of_item sc it = mkRaw (prefix_str (item_pre sc it)) (item_local it) (item_value it).
Proof. intros sc [a|d]; cbn [raw_of_item item_pre item_local item_value]; [reflexivity|]. destruct (xns_prefix d); reflexivity. Qed.

Definition item_ok (sc : list xnsdecl) (it : item) : Prop :=
  match it with ItAttr a => attr_ok sc a = true | ItDecl d => decl_ok d = true end.

Lemma item_ok_names : forall sc it, forallb decl_ok sc = true -> distinct_prefixes sc = true -> item_ok sc it ->
  match item_pre sc it with Some p => ncname p = true | None => True end /\ ncname (item_local it) = true
  /\ chars_ok (item_value it) = true.
Proof.
  intros sc [a|d] Hok Hd H; cbn [item_ok item_pre item_local item_value] in *.
  - destruct (attr_prefix_facts sc a Hok Hd H) as (_ & _ & _ & F4).
    unfold attr_ok in H. apply andb_true_iff in H. destruct H as [H _]. apply andb_true_iff in H. destruct H as [H Hc].
    apply andb_true_iff in H. destruct H as [Hn _].
    repeat split; try assumption.
    destruct (attr_prefix sc (xn_ns (xa_name a))) as [[q|]|]; cbn [or_default]; try exact I. exact F4.
  - assert (Hc : chars_ok (xns_uri d) = true).
    { unfold decl_ok in H. repeat (apply andb_true_iff in H; destruct H as [H ?]). assumption. }
    destruct (xns_prefix d) as [p|] eqn:Ep.
    + destruct (decl_ok_prefix d p H Ep) as (N1 & _). repeat split; try assumption; reflexivity.
    + repeat split; try assumption; reflexivity.
Qed.

Lemma ncname_head : forall s, ncname s = true -> exists b r, s = b :: r /\ is_space b = false /\ b <> 47 /\ b <> 62 /\ b <> 60 /\ b <> 33 /\ b <> 63.
Proof.
  intros [|b r] H; [discriminate|]. exists b, r. split; [reflexivity|].
  cbn [ncname] in H. apply andb_true_iff in H. destruct H as [H _].
  unfold name_start_byte, XmlRender.in_rng in H. unfold is_space. repeat split; lia.
Qed.

Lemma qname_head : forall pre local, match pre with Some p => ncname p = true | None => True end -> ncname local = true ->
  exists b r, qname pre local = b :: r /\ is_space b = false /\ b <> 47 /\ b <> 62 /\ b <> 60 /\ b <> 33 /\ b <> 63.
Proof.
  intros [p|] local Hp Hl; cbn [qname].
  - destruct (ncname_head p Hp) as (b & r & E & F). exists b, (r ++ 58 :: local). rewrite E. split; [reflexivity | exact F].
  - apply ncname_head. exact Hl.
Qed.

Definition tag_end_bytes (e : tag_end) : xstr := match e with TEmpty => [47; 62] | TOpen => [62] end.

Lemma stops_name_blanks : forall w x rest, (x <? 128) = true -> is_name_ascii x = false -> stops_name (blanks w ++ x :: rest).
Proof.
  intros w x rest H1 H2. induction w as [|b w IH]; cbn [blanks filter app].
  - cbn. split; assumption.
  - destruct (is_blank b) eqn:E; [|exact IH]. cbn [app stops_name].
    unfold is_blank in E. unfold is_name_ascii, is_name_start_ascii, XmlParse.in_rng. split; lia.
Qed.

Lemma stops_name_blanks1 : forall w rest, stops_name (blanks1 w ++ rest).
Proof.
  intros w rest. destruct (blanks1_nonempty w) as (b & r & E & Hb & _). rewrite E. cbn [app stops_name].
  unfold is_space in Hb. unfold is_name_ascii, is_name_start_ascii, XmlParse.in_rng. split; lia.
Qed.

Lemma skip_spaces_tag_end : forall w e rest, skip_spaces (blanks w ++ tag_end_bytes e ++ rest) = tag_end_bytes e ++ rest.
Proof.
  intros. rewrite skip_spaces_blanks. apply skip_spaces_id. destruct e; cbn; reflexivity.
Qed.

Lemma quote_byte_cases : forall q, quote_byte q = 34 \/ quote_byte q = 39.
Proof. intros [|]; [left | right]; reflexivity. Qed.

(** the attribute loop reads back the items *)
Lemma parse_attrs_items : forall sc ec e rest items i,
  forallb decl_ok sc = true -> distinct_prefixes sc = true -> Forall (item_ok sc) items ->
  parse_attrs (S (length items)) (render_items ec sc i items ++ tag_end_bytes e ++ rest)
  = POk (map (raw_of_item sc) items, e, rest).
Proof.
  intros sc ec e rest items. induction items as [|it items IH]; intros i Hok Hd Hall.
  - cbn [render_items length map parse_attrs].
    rewrite skip_spaces_tag_end. destruct e; cbn [tag_end_bytes app]; reflexivity.
  - inversion Hall as [|? ? Hit Hrest]; subst.
    destruct (item_ok_names sc it Hok Hd Hit) as (Np & Nl & Nv).
    cbn [render_items length map]. rewrite item_name_qname.
    set (q := quote_byte (ec_quote ec i)).
    set (v := esc_bytes (attr_must q) (ec_ref ec i) 0%nat (item_value it)).
    set (TL := render_items ec sc (S i) items ++ tag_end_bytes e ++ rest).
    replace ((blanks1 (ec_ws ec i) ++ qname (item_pre sc it) (item_local it) ++ 61 :: q :: v ++ q :: render_items ec sc (S i) items)
             ++ tag_end_bytes e ++ rest)
      with (blanks1 (ec_ws ec i) ++ qname (item_pre sc it) (item_local it) ++ 61 :: q :: v ++ q :: TL).
    2:{ unfold TL. rewrite <- !app_assoc. cbn [app]. rewrite <- !app_assoc. reflexivity. }
    change (parse_attrs (S (S (length items))) ?s) with
      (let has_space := starts_with_space s in
       match skip_spaces s with
       | [] => PErr
       | b :: r =>
         if b =? 47 then match r with 62 :: r' => POk ([], TEmpty, r') | _ => PErr end
         else if b =? 62 then POk ([], TOpen, r)
         else if negb has_space then PErr
         else
           pbind (of_opt (scan_attribute (b :: r))) (fun '(p, l, v, rest) =>
           pbind (of_opt (normalize_attr v)) (fun v' =>
           pbind (parse_attrs (S (length items)) rest) (fun '(l', e, rest') =>
           POk (mkRaw p l v' :: l', e, rest'))))
       end).
    cbv zeta. rewrite starts_with_space_blanks1, skip_spaces_blanks1.
    destruct (qname_head (item_pre sc it) (item_local it) Np Nl) as (b & r & Eq & Hs & H47 & H62 & _).
    rewrite skip_spaces_id by (rewrite Eq; cbn; exact Hs).
    rewrite Eq. cbn [app]. apply N.eqb_neq in H47, H62. rewrite H47, H62. cbn [negb].
    change (b :: r ++ 61 :: q :: v ++ q :: TL) with ((b :: r) ++ 61 :: q :: v ++ q :: TL). rewrite <- Eq.
    assert (SA : scan_attribute (qname (item_pre sc it) (item_local it) ++ 61 :: q :: v ++ q :: TL)
                 = Some (prefix_str (item_pre sc it), item_local it, v, TL)).
    { unfold scan_attribute. rewrite (scan_qname_render _ _ _ Np Nl) by (cbn; split; reflexivity).
      unfold consume_eq. cbn [skip_spaces is_space]. change (is_space 61) with false. cbv iota.
      assert (Hq : is_space q = false) by (unfold q; destruct (ec_quote ec i); reflexivity).
      cbn [skip_spaces]. rewrite Hq.
      assert (Hq2 : (q =? 34) || (q =? 39) = true) by (unfold q; destruct (ec_quote ec i); reflexivity).
      rewrite Hq2. unfold v. rewrite (scan_attr_value_render q _ _ _ TL (quote_byte_cases _) Nv). reflexivity. }
    rewrite SA. cbn [of_opt pbind].
    unfold v. rewrite (normalize_attr_render q _ _ _ (quote_byte_cases _) Nv). cbn [of_opt pbind].
    unfold TL. rewrite (IH (S i) Hok Hd Hrest). cbn [pbind].
    rewrite raw_of_item_eq. reflexivity.
Qed.
