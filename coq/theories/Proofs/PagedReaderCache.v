(** R1 machinery: the invariant of the paged reader model over a fault-free
    device and the step-by-step equivalence with the cache-less validating reader. *)
From E57 Require Import Base.Prelude Model.Crc Model.Device Model.PagedReader Spec.PageSpec Spec.PageReadSpec.
From E57 Require Import Proofs.PageSpecLemmas.
From Coq Require Import ZifyN ZifyNat ZifyBool.
Ltac Zify.zify_post_hook ::= Z.div_mod_to_equations.
Local Open Scope monad_scope.

Record pr_inv (ps : N) (phys : list N) (s : pr) : Prop := mkInv {
  inv_fault : d_fault (pr_dev s) = None;
  inv_bytes : d_bytes (pr_dev s) = phys;
  inv_ps : pr_page_size s = ps;
  inv_ps4 : 4 < ps;
  inv_mod : len phys mod ps = 0;
  inv_nz : len phys <> 0;
  inv_pages : pr_pages s = len phys / ps;
  inv_phy : pr_phy_size s = len phys;
  inv_log : pr_log_size s = len phys / ps * (ps - 4);
  inv_buf : len (pr_buf s) = ps;
  inv_cache : forall p, pr_page_num s = Some p ->
      p < len phys / ps /\ pr_buf s = page_at ps phys p /\ page_ok ps (page_at ps phys p) = true
}.

Lemma pr_new_inv ps phys d1 s0 :
  pr_new ps (dev_init phys None) = (d1, Ok s0) -> pr_inv ps phys s0 /\ pr_off s0 = 0.
Proof.
  unfold pr_new, MAX_PAGE_SIZE, CHECKSUM_SIZE.
  destruct (1024 * 1024 <? ps) eqn:E1; [discriminate|].
  destruct (ps <=? 4) eqn:E2; [discriminate|].
  cbn.
  destruct (len phys =? 0) eqn:E3; [discriminate|].
  destruct (len phys mod ps =? 0) eqn:E4; cbn; [|discriminate].
  intros H. injection H as _ <-. split; [|reflexivity].
  constructor; cbn; try reflexivity; try lia.
  - apply len_zeros.
  - discriminate.
Qed.

Lemma len_page_at ps phys p : p < len phys / ps -> len (page_at ps phys p) = ps.
Proof.
  intros H. pose proof (page_in_range _ _ _ H).
  unfold page_at. rewrite len_slice. lia.
Qed.

(** The raw read of a whole page into the page buffer, on a fault-free device
    whose remaining bytes cover the request. *)
Lemma pr_fill_loop_whole fuel want s :
  d_fault (pr_dev s) = None -> want <> 0 ->
  d_cur (pr_dev s) + want <= len (d_bytes (pr_dev s)) ->
  len (pr_buf s) = want ->
  pr_fill_loop (S fuel) 0 want s =
  (mkPr (mkDev (d_bytes (pr_dev s)) (d_cur (pr_dev s) + want) (d_ops (pr_dev s) + 1) None
               (d_log (pr_dev s)))
        (pr_page_size s) (pr_phy_size s) (pr_log_size s) (pr_pages s) (pr_off s) (pr_page_num s)
        (slice (d_cur (pr_dev s)) want (d_bytes (pr_dev s))), Ok tt).
Proof.
  destruct s as [d psz phy lsz pages off pn buf].
  destruct d as [bytes cur ops fault lg].
  cbn [pr_dev d_fault d_cur d_bytes d_ops d_log pr_buf pr_page_size pr_phy_size pr_log_size
       pr_pages pr_off pr_page_num].
  intros -> Hw Hr Hb.
  cbn [pr_fill_loop].
  destruct (want =? 0) eqn:E0; [lia|].
  assert (Hg : len (slice cur want bytes) = want) by (rewrite len_slice; lia).
  unfold bind at 1. unfold pr_lift, d_read, tick, bind.
  cbn [pr_dev d_fault d_cur d_bytes d_ops d_log pr_buf pr_page_size pr_phy_size pr_log_size
       pr_pages pr_off pr_page_num set_cur].
  destruct (slice cur want bytes) as [|b got] eqn:Eg.
  { rewrite len_nil in Hg. lia. }
  rewrite <- Eg in Hg |- *.
  unfold pr_set_buf.
  cbn [pr_dev d_fault d_cur d_bytes d_ops d_log pr_buf pr_page_size pr_phy_size pr_log_size
       pr_pages pr_off pr_page_num set_cur].
  rewrite Hg.
  rewrite take_0, drop_all by lia.
  cbn [app]. rewrite app_nil_r.
  replace (want - want) with 0 by lia.
  destruct fuel; reflexivity.
Qed.

Ltac prcbn :=
  cbn [pr_dev d_fault d_cur d_bytes d_ops d_log pr_buf pr_page_size pr_phy_size pr_log_size
       pr_pages pr_off pr_page_num set_cur fst snd].
Ltac prcbn_in H :=
  cbn [pr_dev d_fault d_cur d_bytes d_ops d_log pr_buf pr_page_size pr_phy_size pr_log_size
       pr_pages pr_off pr_page_num set_cur fst snd] in H.

Lemma bind_ok {S A B} (m : M S A) (k : A -> M S B) s s1 a :
  m s = (s1, Ok a) -> bind m k s = k a s1.
Proof. unfold bind. intros ->. reflexivity. Qed.

Lemma bind_err {S A B} (m : M S A) (k : A -> M S B) s s1 e :
  m s = (s1, Err e) -> bind m k s = (s1, Err e).
Proof. unfold bind. intros ->. reflexivity. Qed.

(** Reading a page: succeeds exactly when the page validates; afterwards the
    cache describes that page, or is empty. *)
Lemma pr_read_page_spec ps phys s page :
  pr_inv ps phys s -> page < len phys / ps ->
  exists s', pr_read_page page s =
             (s', if page_ok ps (page_at ps phys page) then Ok tt else Err EIo)
    /\ pr_inv ps phys s' /\ pr_off s' = pr_off s
    /\ (page_ok ps (page_at ps phys page) = true -> pr_buf s' = page_at ps phys page).
Proof.
  intros I Hp.
  pose proof (page_in_range _ _ _ Hp) as Hr.
  destruct I as [If Ib Ips Ips4 Imod Inz Ipg Iphy Ilog Ibuf Icache].
  destruct s as [d psz phy lsz pages off pn buf].
  destruct d as [bytes cur ops fault lg].
  prcbn_in If. prcbn_in Ib. prcbn_in Ips. prcbn_in Ipg. prcbn_in Iphy. prcbn_in Ilog.
  prcbn_in Ibuf. prcbn_in Icache. subst fault bytes psz pages phy lsz.
  exists (mkPr (mkDev phys (page * ps + ps) (ops + 1 + 1) None lg) ps (len phys)
               (len phys / ps * (ps - 4)) (len phys / ps) off
               (if page_ok ps (page_at ps phys page) then Some page else None)
               (page_at ps phys page)).
  split.
  { unfold pr_read_page. prcbn.
    destruct (len phys / ps <=? page) eqn:E1; [lia|].
    rewrite (bind_ok _ _ _
      (mkPr (mkDev phys (page * ps) (ops + 1) None lg) ps (len phys) (len phys / ps * (ps - 4))
            (len phys / ps) off pn buf) (page * ps)) by reflexivity.
    erewrite bind_ok; [|apply pr_fill_loop_whole; prcbn; try reflexivity; lia].
    prcbn. unfold CHECKSUM_SIZE.
    change (slice (page * ps) ps phys) with (page_at ps phys page).
    unfold page_ok.
    destruct (list_eq_dec N.eq_dec (drop (ps - 4) (page_at ps phys page))
                (crc_bytes (take (ps - 4) (page_at ps phys page)))) as [Heq|Hne];
      reflexivity. }
  prcbn.
  split; [|split; [reflexivity|intros _; reflexivity]].
  constructor; prcbn; try reflexivity; try assumption.
  - apply len_page_at. assumption.
  - intros p Hpn.
    destruct (page_ok ps (page_at ps phys page)) eqn:Eok; [|discriminate].
    injection Hpn as <-. auto.
Qed.

Lemma pr_inv_set_off ps phys s o :
  pr_inv ps phys s ->
  pr_inv ps phys (mkPr (pr_dev s) (pr_page_size s) (pr_phy_size s) (pr_log_size s) (pr_pages s)
                       o (pr_page_num s) (pr_buf s)).
Proof. intros []; constructor; prcbn; assumption. Qed.

(** The cache lookup of [pr_read]: a hit is as good as a validated read. *)
Lemma pr_ensure_page_spec ps phys s page :
  pr_inv ps phys s -> page < len phys / ps ->
  exists s',
    (match pr_page_num s with
     | Some p => if p =? page then ret tt else pr_read_page page
     | None => pr_read_page page
     end) s = (s', if page_ok ps (page_at ps phys page) then Ok tt else Err EIo)
    /\ pr_inv ps phys s' /\ pr_off s' = pr_off s
    /\ (page_ok ps (page_at ps phys page) = true -> pr_buf s' = page_at ps phys page).
Proof.
  intros I Hp.
  destruct (pr_page_num s) as [p|] eqn:Epn; [|apply pr_read_page_spec; assumption].
  destruct (p =? page) eqn:Ep; [|apply pr_read_page_spec; assumption].
  apply N.eqb_eq in Ep. subst p.
  destruct (inv_cache _ _ _ I _ Epn) as (_ & Hb & Hok).
  exists s. rewrite Hok. auto.
Qed.

Lemma pr_read_spec ps phys s n :
  pr_inv ps phys s ->
  exists s', pr_read n s = (s', snd (gr_read ps phys n (pr_off s)))
    /\ pr_inv ps phys s' /\ pr_off s' = fst (gr_read ps phys n (pr_off s)).
Proof.
  intros I. unfold pr_read, gr_read, CHECKSUM_SIZE.
  rewrite (inv_ps _ _ _ I), (inv_pages _ _ _ I). cbv zeta.
  destruct (len phys / ps <=? pr_off s / (ps - 4)) eqn:E1.
  - exists s. auto.
  - destruct (pr_ensure_page_spec ps phys s (pr_off s / (ps - 4)) I)
      as (s1 & H1 & I1 & Ho1 & Hb1); [lia|].
    destruct (page_ok ps (page_at ps phys (pr_off s / (ps - 4)))) eqn:Eok.
    + exists (mkPr (pr_dev s1) (pr_page_size s1) (pr_phy_size s1) (pr_log_size s1) (pr_pages s1)
                   (pr_off s + N.min n (ps - 4 - pr_off s mod (ps - 4)))
                   (pr_page_num s1) (pr_buf s1)).
      split.
      { erewrite bind_ok by exact H1.
        unfold bind, pr_set_off, ret. rewrite Ho1. f_equal. f_equal.
        rewrite Hb1 by reflexivity. reflexivity. }
      prcbn. split; [apply pr_inv_set_off; assumption|reflexivity].
    + exists s1. split; [|auto].
      erewrite bind_err by exact H1. reflexivity.
Qed.

Lemma pr_read_exact_loop_spec ps phys : forall fuel want acc s,
  pr_inv ps phys s ->
  exists s', pr_read_exact_loop fuel want acc s
             = (s', snd (gr_read_exact_loop ps phys fuel want acc (pr_off s)))
    /\ pr_inv ps phys s'
    /\ pr_off s' = fst (gr_read_exact_loop ps phys fuel want acc (pr_off s)).
Proof.
  induction fuel as [|fuel IH]; intros want acc s I.
  - exists s. cbn. auto.
  - cbn [pr_read_exact_loop gr_read_exact_loop].
    destruct (want =? 0) eqn:E0; [exists s; cbn; auto|].
    destruct (pr_read_spec ps phys s want I) as (s1 & H1 & I1 & Ho1).
    unfold bind. rewrite H1.
    destruct (gr_read ps phys want (pr_off s)) as [off1 r] eqn:Eg.
    cbn [fst snd] in *.
    destruct r as [got|k|].
    + destruct got as [|b got].
      * exists s1. auto.
      * destruct (IH (want - len (b :: got)) (acc ++ b :: got) s1 I1) as (s2 & H2 & I2 & Ho2).
        rewrite Ho1 in *. exists s2. auto.
    + exists s1. auto.
    + exists s1. auto.
Qed.

Lemma pr_step_spec ps phys s o :
  pr_inv ps phys s ->
  exists s', pr_step o s = (s', snd (gr_step ps phys o (pr_off s)))
    /\ pr_inv ps phys s' /\ pr_off s' = fst (gr_step ps phys o (pr_off s)).
Proof.
  intros I. destruct o as [p|n|n|]; unfold pr_step, gr_step; cbv zeta.
  - unfold bind, pr_seek_physical, CHECKSUM_SIZE.
    rewrite (inv_phy _ _ _ I), (inv_ps _ _ _ I).
    destruct (len phys <=? p) eqn:E1.
    + exists s. auto.
    + eexists. split; [reflexivity|]. prcbn.
      split; [apply pr_inv_set_off; assumption|reflexivity].
  - destruct (pr_read_spec ps phys s n I) as (s1 & H1 & I1 & Ho1).
    unfold bind. rewrite H1.
    destruct (gr_read ps phys n (pr_off s)) as [off1 r].
    cbn [fst snd] in *.
    destruct r; cbn [res_map]; exists s1; auto.
  - unfold bind, pr_read_exact. rewrite (inv_log _ _ _ I).
    destruct (pr_read_exact_loop_spec ps phys
                (S (N.to_nat (N.min n (len phys / ps * (ps - 4))))) n [] s I)
      as (s1 & H1 & I1 & Ho1).
    rewrite H1.
    destruct (gr_read_exact_loop ps phys (S (N.to_nat (N.min n (len phys / ps * (ps - 4))))) n []
                (pr_off s)) as [off1 r].
    cbn [fst snd] in *.
    destruct r; cbn [res_map]; exists s1; auto.
  - unfold bind, pr_align. rewrite (inv_log _ _ _ I).
    destruct (pr_off s mod 4 =? 0) eqn:E1.
    + exists s. auto.
    + destruct (len phys / ps * (ps - 4) <? pr_off s + (4 - pr_off s mod 4)) eqn:E2.
      * exists s. auto.
      * eexists. split; [reflexivity|]. prcbn.
        split; [apply pr_inv_set_off; assumption|reflexivity].
Qed.

Lemma pr_run_spec ps phys : forall ops s,
  pr_inv ps phys s -> snd (pr_run ops s) = gr_run ps phys ops (pr_off s).
Proof.
  induction ops as [|o ops IH]; intros s I; [reflexivity|].
  cbn [pr_run gr_run].
  destruct (pr_step_spec ps phys s o I) as (s1 & H1 & I1 & Ho1).
  rewrite H1.
  destruct (gr_step ps phys o (pr_off s)) as [off1 x].
  cbn [fst snd] in *.
  specialize (IH s1 I1).
  destruct (pr_run ops s1) as [s2 xs].
  cbn [snd] in *. rewrite IH, Ho1. reflexivity.
Qed.
