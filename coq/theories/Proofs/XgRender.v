(** Slice "xg": the bytes of the writer are a rendering of the abstract tree.

    [gen_is_render] :  writer_meta_ok m = true -> gen_root m = Ok bs ->
                       bs = render writer_choices (tree_of m)

    Organisation: [RL n bs] says "node [n], rendered below an element with the
    root's scope, followed by a line feed, is [bs]"; [RLs] the same for a list
    of children laid out one per line.  One lemma per constructor function of
    Spec/MetaTree.v against the matching serialiser of Model/XmlGen.v. *)
From Coq Require Import Decimal ZArith Lia.
From E57 Require Import Base.Prelude Model.Meta Model.MetaFile Model.XmlTree Model.XmlGen
  Spec.XmlRender Spec.MetaTree Spec.XgWriterOk Proofs.XgLemmas.
Require Import Coq.Strings.String.
Local Open Scope N_scope.

Local Notation "'B' s" := ltac:(let v := eval vm_compute in (bytes_of_string s%string) in exact v)
  (at level 0, s at level 0, only parsing).
Local Notation W := writer_choices.

Ltac listnorm := repeat (progress (rewrite <- ?app_assoc; cbn [app])).

(** the children loop of [render_node], named *)
Definition render_children (c : render_choices) (path : list nat) (sc : list xnsdecl) (nm : xname) (attrs : list xattr) :=
  fix go (i : nat) (l : list xnode) : xstr :=
    match l with
    | [] => []
    | x :: r => render_node c (path ++ [i]) (Some sc) nm attrs x ++ go (S i) r
    end.

Lemma render_node_elem : forall c path P pn pa nm attrs sc ch,
  render_node c path P pn pa (XElem nm attrs sc ch) =
  let ec := rc_elem c path (XElem nm attrs sc ch) in
  let tag := qname (or_default (elem_prefix sc (xn_ns nm)) None) (xn_local nm) in
  let own := or_default (own_decls P sc) [] in
  60 :: tag ++ render_items ec sc 0%nat (merge_items (ec_merge ec) attrs own) ++
  (match ch with
   | [] => if ec_self_close ec then [47;62] else 62 :: 60 :: 47 :: tag ++ blanks (ec_ws_close ec) ++ [62]
   | _ => 62 :: render_children c path sc nm attrs 0%nat ch ++ 60 :: 47 :: tag ++ blanks (ec_ws_close ec) ++ [62]
   end).
Proof. reflexivity. Qed.

(** * start-tag items under the writer's choices *)
Definition item_bytes (sc : list xnsdecl) (it : item) : list N :=
  32 :: item_name sc it ++ 61 :: 34 :: wesc (item_value it) ++ [34].

Lemma writer_items : forall sc l i,
  render_items writer_elem_choice sc i l = flat_map (item_bytes sc) l.
Proof.
  intros sc l. induction l as [|it r IH]; intro i; [reflexivity|].
  cbn [render_items flat_map]. rewrite IH. unfold item_bytes, wesc.
  cbn [writer_elem_choice ec_ws ec_quote ec_ref quote_byte].
  change (blanks1 [32]) with [32]. listnorm. reflexivity.
Qed.

(** an attribute without namespace, as Model/XmlGen.v writes it *)
Definition plain_attr (a : xattr) : Prop :=
  xn_ns (xa_name a) = None /\ forallb plain_byte (xa_value a) = true.

Definition attr_bytes (a : xattr) : list N := attr (xn_local (xa_name a)) (xa_value a).

Lemma attr_item_bytes : forall sc a, plain_attr a -> item_bytes sc (ItAttr a) = attr_bytes a.
Proof.
  intros sc a [Hns Hv]. unfold item_bytes, attr_bytes, attr.
  cbn [item_name item_value]. rewrite Hns. cbn [attr_prefix or_default qname].
  rewrite wesc_plain by exact Hv. listnorm. reflexivity.
Qed.

Lemma attrs_item_bytes : forall sc attrs, Forall plain_attr attrs ->
  flat_map (item_bytes sc) (map ItAttr attrs) = flat_map attr_bytes attrs.
Proof.
  intros sc attrs H. induction H as [|a r Ha Hr IH]; [reflexivity|].
  cbn [map flat_map]. now rewrite attr_item_bytes, IH.
Qed.

Lemma scope_eqb_refl : forall sc, scope_eqb sc sc = true.
Proof.
  assert (Hx : forall x, xstr_eqb x x = true).
  { induction x as [|b r IH]; [reflexivity|]. cbn [xstr_eqb]. now rewrite N.eqb_refl, IH. }
  induction sc as [|d r IH]; [reflexivity|].
  cbn [scope_eqb]. rewrite IH. unfold decl_eqb. rewrite Hx.
  destruct (xns_prefix d); cbn [opt_str_eqb]; rewrite ?Hx; reflexivity.
Qed.

Lemma xstr_eqb_refl : forall x, xstr_eqb x x = true.
Proof. induction x as [|b r IH]; [reflexivity|]. cbn [xstr_eqb]. now rewrite N.eqb_refl, IH. Qed.

Lemma xstr_eqb_eq : forall x y, xstr_eqb x y = true -> x = y.
Proof.
  induction x as [|a r IH]; destruct y as [|b s]; cbn [xstr_eqb]; try discriminate; [reflexivity|].
  intro H. apply andb_prop in H. destruct H as [H1 H2]. apply N.eqb_eq in H1. f_equal; auto.
Qed.

Section Scope.
  Variable exts : list extension.
  Let sc := scope_of exts.
  Hypothesis He57 : elem_prefix sc (Some E57_URI) = Some None.

  (** the writer's text choice depends on the parent's attributes only *)
  Definition wtc (pa : list xattr) : text_choice := rc_text W [] no_name pa [].

  Lemma wtc_any : forall path pn pa t, rc_text W path pn pa t = wtc pa.
  Proof. reflexivity. Qed.

  Lemma wtc_type : forall T rest,
    wtc (ty T :: rest) = if xstr_eqb T S_STRING then TcCData else raw_choice.
  Proof. reflexivity. Qed.

  (** a non-root element in the root's scope *)
  Lemma render_elem_in_scope : forall path pn pa nm attrs ch pfx,
    elem_prefix sc (xn_ns nm) = Some pfx -> Forall plain_attr attrs ->
    render_node W path (Some sc) pn pa (XElem nm attrs sc ch) =
    60 :: qname pfx (xn_local nm) ++ flat_map attr_bytes attrs ++
    (match ch with
     | [] => [47;62]
     | _ => 62 :: render_children W path sc nm attrs 0%nat ch ++ 60 :: 47 :: qname pfx (xn_local nm) ++ [62]
     end).
  Proof.
    intros path pn pa nm attrs ch pfx Hp Ha.
    rewrite render_node_elem. cbv zeta.
    change (rc_elem W path (XElem nm attrs sc ch)) with writer_elem_choice.
    rewrite Hp. cbn [or_default own_decls]. rewrite scope_eqb_refl.
    cbn [or_default writer_elem_choice ec_merge ec_self_close ec_ws_close blanks filter merge_items map].
    rewrite app_nil_r, writer_items, attrs_item_bytes by exact Ha.
    destruct ch; reflexivity.
  Qed.

  Definition RL (n : xnode) (bs : list N) : Prop :=
    forall path pn pa, render_node W path (Some sc) pn pa n ++ LF = bs.

  (** children one per line below a parent [nm attrs] *)
  Definition RLs (nm : xname) (attrs : list xattr) (ch : list xnode) (bs : list N) : Prop :=
    forall path i, render_children W path sc nm attrs i (flat_map (fun c => [c; nl]) ch) = bs.

  Definition raw_parent (attrs : list xattr) : Prop := wtc attrs = raw_choice.

  Lemma render_nl : forall path pn pa, raw_parent pa -> render_node W path (Some sc) pn pa nl = LF.
  Proof.
    intros path pn pa H. unfold nl. cbn [render_node]. rewrite wtc_any, H. reflexivity.
  Qed.

  Lemma RLs_nil : forall nm attrs, RLs nm attrs [] [].
  Proof. intros nm attrs path i. reflexivity. Qed.

  Lemma RLs_cons : forall nm attrs c r g y,
    raw_parent attrs -> RL c g -> RLs nm attrs r y -> RLs nm attrs (c :: r) (g ++ y).
  Proof.
    intros nm attrs c r g y Hraw Hc Hr path i.
    cbn [flat_map app render_children].
    rewrite render_nl by exact Hraw.
    change ((fix go (i0 : nat) (l : list xnode) {struct l} : xstr :=
               match l with
               | [] => []
               | x :: r0 => render_node W (path ++ [i0]) (Some sc) nm attrs x ++ go (S i0) r0
               end) (S (S i)) (flat_map (fun c0 : xnode => [c0; nl]) r))
      with (render_children W path sc nm attrs (S (S i)) (flat_map (fun c0 : xnode => [c0; nl]) r)).
    rewrite Hr. rewrite <- (Hc (path ++ [i]) nm attrs). rewrite <- !app_assoc. reflexivity.
  Qed.

  Lemma RLs_app : forall nm attrs a b x y,
    raw_parent attrs -> RLs nm attrs a x -> RLs nm attrs b y -> RLs nm attrs (a ++ b) (x ++ y).
  Proof.
    intros nm attrs a b x y Hraw Ha Hb path i.
    rewrite flat_map_app.
    assert (Happ : forall l1 l2 j, render_children W path sc nm attrs j (l1 ++ l2) =
                   render_children W path sc nm attrs j l1 ++ render_children W path sc nm attrs (j + List.length l1)%nat l2).
    { induction l1 as [|n l1 IH]; intros l2 j.
      - cbn [app List.length]. now rewrite Nat.add_0_r.
      - cbn [app render_children List.length].
        change ((fix go (i0 : nat) (l : list xnode) {struct l} : xstr :=
               match l with
               | [] => []
               | x0 :: r0 => render_node W (path ++ [i0]) (Some sc) nm attrs x0 ++ go (S i0) r0
               end)) with (render_children W path sc nm attrs).
        rewrite IH. rewrite <- app_assoc.
        replace (j + S (List.length l1))%nat with (S j + List.length l1)%nat by lia. reflexivity. }
    rewrite Happ, Ha, Hb. reflexivity.
  Qed.

  Lemma RLs_one : forall nm attrs c g, raw_parent attrs -> RL c g -> RLs nm attrs [c] g.
  Proof.
    intros nm attrs c g Hraw Hc. rewrite <- (app_nil_r g). apply RLs_cons; auto using RLs_nil.
  Qed.

  Lemma RLs_opt : forall {A} nm attrs (f : A -> xnode) (g : A -> list N) o,
    raw_parent attrs -> (forall x, o = Some x -> RL (f x) (g x)) -> RLs nm attrs (opt1 f o) (opt_gen g o).
  Proof.
    intros A nm attrs f g o Hraw H. destruct o as [x|]; cbn [opt1 opt_gen]; [apply RLs_one; auto|apply RLs_nil].
  Qed.

  Lemma RLs_map : forall {A} nm attrs (f : A -> xnode) (g : A -> list N) l,
    raw_parent attrs -> (forall x, In x l -> RL (f x) (g x)) -> RLs nm attrs (map f l) (flat_map g l).
  Proof.
    intros A nm attrs f g l Hraw H. induction l as [|x r IH]; [apply RLs_nil|].
    cbn [map flat_map]. apply RLs_cons; [exact Hraw|apply H; left; reflexivity|].
    apply IH. intros y Hy. apply H. right. exact Hy.
  Qed.

  (** ** generic elements *)
  Lemma children_lines : forall nm attrs ch body path,
    raw_parent attrs -> RLs nm attrs ch body ->
    render_children W path sc nm attrs 0%nat (lines ch) = LF ++ body.
  Proof.
    intros nm attrs ch body path Hraw Hch. unfold lines. cbn [render_children].
    rewrite render_nl by exact Hraw.
    change ((fix go (i0 : nat) (l : list xnode) {struct l} : xstr :=
               match l with
               | [] => []
               | x0 :: r0 => render_node W (path ++ [i0]) (Some sc) nm attrs x0 ++ go (S i0) r0
               end)) with (render_children W path sc nm attrs).
    now rewrite Hch.
  Qed.

  Lemma RL_container : forall nm attrs ch body pfx,
    elem_prefix sc (xn_ns nm) = Some pfx -> Forall plain_attr attrs -> raw_parent attrs ->
    RLs nm attrs ch body ->
    RL (XElem nm attrs sc (lines ch))
       (open_tag (qname pfx (xn_local nm)) (flat_map attr_bytes attrs) ++ LF ++ body ++ close_tag (qname pfx (xn_local nm)) ++ LF).
  Proof.
    intros nm attrs ch body pfx Hp Ha Hraw Hch path pn pa.
    rewrite (render_elem_in_scope path pn pa nm attrs (lines ch) pfx Hp Ha).
    rewrite (children_lines nm attrs ch body path Hraw Hch).
    unfold lines, open_tag, close_tag. listnorm. reflexivity.
  Qed.

  Lemma RL_leaf : forall nm attrs text pfx,
    elem_prefix sc (xn_ns nm) = Some pfx -> Forall plain_attr attrs ->
    RL (XElem nm attrs sc [XText text])
       (open_tag (qname pfx (xn_local nm)) (flat_map attr_bytes attrs) ++ render_text (wtc attrs) text
          ++ close_tag (qname pfx (xn_local nm)) ++ LF).
  Proof.
    intros nm attrs text pfx Hp Ha path pn pa.
    rewrite (render_elem_in_scope path pn pa nm attrs [XText text] pfx Hp Ha).
    cbn [render_children render_node]. rewrite wtc_any.
    unfold open_tag, close_tag. listnorm. reflexivity.
  Qed.

  Lemma RL_empty : forall nm attrs pfx,
    elem_prefix sc (xn_ns nm) = Some pfx -> Forall plain_attr attrs ->
    RL (XElem nm attrs sc [])
       (B "<" ++ qname pfx (xn_local nm) ++ flat_map attr_bytes attrs ++ B "/>" ++ LF).
  Proof.
    intros nm attrs pfx Hp Ha path pn pa.
    rewrite (render_elem_in_scope path pn pa nm attrs [] pfx Hp Ha).
    listnorm. reflexivity.
  Qed.

  (** ** the E57 vocabulary *)
  Lemma RL_ext : forall n a b, RL n a -> a = b -> RL n b.
  Proof. intros n a b H E. now subst. Qed.

  Lemma RLs_ext : forall nm attrs ch a b, RLs nm attrs ch a -> a = b -> RLs nm attrs ch b.
  Proof. intros nm attrs ch a b H E. now subst. Qed.

  Lemma plain_ty : forall T, forallb plain_byte T = true -> plain_attr (ty T).
  Proof. intros T H. split; [reflexivity|exact H]. Qed.

  Lemma plain_at : forall n v, forallb plain_byte v = true -> plain_attr (at_ n v).
  Proof. intros n v H. split; [reflexivity|exact H]. Qed.

  Lemma RL_string : forall name s, RL (t_string sc name s) (gen_string name s).
  Proof.
    intros name s. unfold t_string, el.
    eapply RL_ext.
    - apply (RL_leaf (ename name) [ty (B "String")] s None He57). repeat constructor.
    - rewrite wtc_type. cbn [xstr_eqb]. rewrite text_cdata.
      unfold gen_string. cbn [qname ename xn_local]. listnorm. reflexivity.
  Qed.

  Lemma RL_float : forall name f, f64_ok f = true -> RL (t_float sc name f) (gen_float name f).
  Proof.
    intros name f Hf. unfold t_float, el.
    eapply RL_ext.
    - apply (RL_leaf (ename name) [ty (B "Float")] (f64_text f) None He57). repeat constructor.
    - rewrite wtc_type. cbn [xstr_eqb]. rewrite text_raw_plain by exact Hf.
      unfold gen_float. cbn [qname ename xn_local]. listnorm. reflexivity.
  Qed.

  Lemma RL_int : forall name z, RL (t_int sc name z) (gen_int name z).
  Proof.
    intros name z. unfold t_int, el.
    eapply RL_ext.
    - apply (RL_leaf (ename name) [ty (B "Integer")] (dec_z z) None He57). repeat constructor.
    - rewrite wtc_type. cbn [xstr_eqb]. rewrite dec_z_display, text_raw_plain by apply display_i_plain.
      unfold gen_int. cbn [qname ename xn_local]. listnorm. reflexivity.
  Qed.

  Lemma RL_uint : forall name n, RL (t_uint sc name n) (gen_uint name n).
  Proof.
    intros name n. unfold t_uint, el.
    eapply RL_ext.
    - apply (RL_leaf (ename name) [ty (B "Integer")] (dec_n n) None He57). repeat constructor.
    - rewrite wtc_type. cbn [xstr_eqb]. rewrite dec_n_display, text_raw_plain by apply display_u_plain.
      unfold gen_uint. cbn [qname ename xn_local]. listnorm. reflexivity.
  Qed.

  Definition STRUCT_ATTRS : list xattr := [ty (B "Structure")].

  Lemma RL_struct : forall name ch body,
    RLs (ename name) STRUCT_ATTRS ch body -> RL (t_struct sc name ch) (structure name body).
  Proof.
    intros name ch body H. unfold t_struct, el.
    eapply RL_ext.
    - apply (RL_container (ename name) STRUCT_ATTRS ch body None He57); [repeat constructor|reflexivity|exact H].
    - unfold structure. cbn [qname ename xn_local]. listnorm. reflexivity.
  Qed.

  Definition vector_attrs (hetero : bool) : list xattr :=
    [ty (B "Vector"); at_ (B "allowHeterogeneousChildren") (if hetero then B "1" else B "0")].

  Lemma RL_vector : forall name hetero ch body,
    RLs (ename name) (vector_attrs hetero) ch body ->
    RL (t_vector sc name hetero ch)
       (open_tag name (B " type=""Vector"" allowHeterogeneousChildren=""" ++ (if hetero then B "1" else B "0") ++ B """")
          ++ LF ++ body ++ close_tag name ++ LF).
  Proof.
    intros name hetero ch body H. unfold t_vector, el.
    eapply RL_ext.
    - apply (RL_container (ename name) (vector_attrs hetero) ch body None He57); [|destruct hetero; reflexivity|exact H].
      destruct hetero; repeat constructor.
    - cbn [qname ename xn_local]. destruct hetero; reflexivity.
  Qed.

  (* syntactic dispatch: no unification of a list pattern against [opt1 .. ++ ..] *)
  Ltac rls :=
    repeat lazymatch goal with
      | |- RLs _ _ [] [] => apply RLs_nil
      | |- RLs _ _ (_ ++ _) (_ ++ _) => apply RLs_app; [reflexivity| |]
      | |- RLs _ _ [_] _ => apply RLs_one; [reflexivity|]
      | |- RLs _ _ (_ :: _) (_ ++ _) => apply RLs_cons; [reflexivity| |]
      | |- RLs _ _ (opt1 _ _) (opt_gen _ _) => apply RLs_opt; [reflexivity|intros ? ?]
      | |- RLs _ _ (map _ _) (flat_map _ _) => apply RLs_map; [reflexivity|intros ? ?]
      end.

  Lemma opt_ok_some : forall {A} (p : A -> bool) o x, opt_ok p o = true -> o = Some x -> p x = true.
  Proof. intros A p o x H E. subst o. exact H. Qed.

  Ltac ok_some :=
    match goal with
    | Hs : ?o = Some ?x |- ?p ?x = true => apply (opt_ok_some p o x); [assumption | exact Hs]
    end.

  Ltac split_ok :=
    repeat match goal with
           | H : (_ && _) = true |- _ => apply andb_prop in H; destruct H
           end.

  Lemma RL_date_time : forall name d, date_time_ok d = true -> RL (t_date_time sc name d) (date_time_xml name d).
  Proof.
    intros name d Hd. unfold t_date_time, date_time_xml.
    apply RL_struct. rls.
    - apply (RL_float (B "dateTimeValue")). exact Hd.
    - unfold el. eapply RL_ext.
      + apply (RL_leaf (ename (B "isAtomicClockReferenced")) [ty (B "Integer")] _ None He57). repeat constructor.
      + unfold gen_flag. cbn [qname ename xn_local]. destruct (dt_atomic d); listnorm; reflexivity.
  Qed.

  Lemma RL_transform : forall name t, transform_ok t = true -> RL (t_transform sc name t) (transform_xml name t).
  Proof.
    intros name t Ht. unfold transform_ok in Ht. split_ok.
    unfold t_transform, transform_xml. cbv zeta.
    apply RL_struct. rls; apply RL_struct; rls; apply RL_float; assumption.
  Qed.

  Lemma RL_cartesian_bounds : forall b, cartesian_bounds_ok b = true ->
    RL (t_cartesian_bounds sc b) (cartesian_bounds_xml b).
  Proof.
    intros b Hb. unfold cartesian_bounds_ok in Hb. split_ok.
    unfold t_cartesian_bounds, cartesian_bounds_xml. apply RL_struct.
    rls; apply RL_float; ok_some.
  Qed.

  Lemma RL_spherical_bounds : forall b, spherical_bounds_ok b = true ->
    RL (t_spherical_bounds sc b) (spherical_bounds_xml b).
  Proof.
    intros b Hb. unfold spherical_bounds_ok in Hb. split_ok.
    unfold t_spherical_bounds, spherical_bounds_xml. apply RL_struct.
    rls; apply RL_float; ok_some.
  Qed.

  Lemma RL_index_bounds : forall b, RL (t_index_bounds sc b) (index_bounds_xml b).
  Proof.
    intro b. unfold t_index_bounds, index_bounds_xml. apply RL_struct.
    rls; apply RL_int.
  Qed.

  Lemma RL_limit : forall name v, limit_ok v = true -> RL (t_limit sc name v) (record_value_to_xml name v).
  Proof.
    intros name v Hv. destruct v as [f|f|z|z]; cbn [t_limit record_value_to_xml limit_ok] in *; unfold el.
    - eapply RL_ext.
      + apply (RL_leaf (ename name) [ty (B "Float"); at_ (B "precision") (B "single")] (f32_text f) None He57).
        repeat constructor.
      + rewrite wtc_type. cbn [xstr_eqb]. rewrite text_raw_plain by exact Hv. cbn [qname ename xn_local]. listnorm. reflexivity.
    - eapply RL_ext.
      + apply (RL_leaf (ename name) [ty (B "Float")] (f64_text f) None He57). repeat constructor.
      + rewrite wtc_type. cbn [xstr_eqb]. rewrite text_raw_plain by exact Hv. cbn [qname ename xn_local]. listnorm. reflexivity.
    - eapply RL_ext.
      + apply (RL_leaf (ename name) [ty (B "ScaledInteger")] (dec_z z) None He57). repeat constructor.
      + rewrite wtc_type. cbn [xstr_eqb]. rewrite dec_z_display, text_raw_plain by apply display_i_plain.
        cbn [qname ename xn_local]. listnorm. reflexivity.
    - eapply RL_ext.
      + apply (RL_leaf (ename name) [ty (B "Integer")] (dec_z z) None He57). repeat constructor.
      + rewrite wtc_type. cbn [xstr_eqb]. rewrite dec_z_display, text_raw_plain by apply display_i_plain.
        cbn [qname ename xn_local]. listnorm. reflexivity.
  Qed.

  Lemma RL_intensity_limits : forall l, intensity_limits_ok l = true ->
    RL (t_intensity_limits sc l) (intensity_limits_xml l).
  Proof.
    intros l Hl. unfold intensity_limits_ok in Hl. split_ok.
    unfold t_intensity_limits, intensity_limits_xml. apply RL_struct.
    rls; apply RL_limit; ok_some.
  Qed.

  Lemma RL_color_limits : forall l, color_limits_ok l = true ->
    RL (t_color_limits sc l) (color_limits_xml l).
  Proof.
    intros l Hl. unfold color_limits_ok in Hl. split_ok.
    unfold t_color_limits, color_limits_xml. apply RL_struct.
    rls; apply RL_limit; ok_some.
  Qed.

  Ltac side := first [assumption | ok_some].
  Ltac rl :=
    lazymatch goal with
    | |- RL (t_string _ _ _) _ => apply RL_string
    | |- RL (t_float _ _ _) _ => apply RL_float; side
    | |- RL (t_int _ _ _) _ => apply RL_int
    | |- RL (t_uint _ _ _) _ => apply RL_uint
    | |- RL (t_date_time _ _ _) _ => apply RL_date_time; side
    | |- RL (t_transform _ _ _) _ => apply RL_transform; side
    | |- RL (t_cartesian_bounds _ _) _ => apply RL_cartesian_bounds; side
    | |- RL (t_spherical_bounds _ _) _ => apply RL_spherical_bounds; side
    | |- RL (t_index_bounds _ _) _ => apply RL_index_bounds
    | |- _ => idtac
    end.

  Ltac fin := unfold attr_bytes, ty, at_, attr, open_tag, close_tag;
              cbn [flat_map xa_name xa_value xn_local qname ename]; listnorm; reflexivity.

  (** ** prototype records *)
  Lemma std_record_tag : forall n, std_record_name n = tag_name n.
  Proof. destruct n; reflexivity. Qed.

  Definition record_pfx (n : record_name) : option xstr :=
    match n with Unknown ns _ => Some ns | _ => None end.

  Lemma record_prefix : forall n, record_name_ok exts n = true ->
    elem_prefix sc (xn_ns (record_xname exts n)) = Some (record_pfx n) /\
    qname (record_pfx n) (xn_local (record_xname exts n)) = record_qname n.
  Proof.
    intros n Hn. destruct n; try (split; [exact He57|reflexivity]).
    cbn [record_name_ok] in Hn. cbn [record_xname xn_ns xn_local record_pfx].
    destruct (ext_uri exts namespace) as [u|] eqn:Eu; [|discriminate].
    unfold prefix_is in Hn. fold sc in Hn.
    destruct (elem_prefix sc (Some u)) as [q|] eqn:Eq; [|discriminate].
    destruct q as [q|]; cbn [opt_str_eqb] in Hn; [|discriminate].
    apply xstr_eqb_eq in Hn. subst q. split; [reflexivity|].
    unfold record_qname, qname. cbn [XmlGen.namespace tag_name]. listnorm. reflexivity.
  Qed.

  Lemma opt_ok_plain32 : forall o, opt_ok f32_ok o = true ->
    Forall plain_attr (match o with Some f => [at_ (B "minimum") (f32_text f)] | None => [] end).
  Proof.
    intros [f|] H; [|constructor]. repeat constructor. apply plain_text_forall. exact H.
  Qed.

  Lemma RL_record : forall r, record_ok exts r = true -> RL (t_record sc exts r) (record_xml r).
  Proof.
    intros [n t] Hr. unfold record_ok in Hr. cbn [r_name r_type] in Hr. split_ok.
    destruct (record_prefix n) as [Hp Hq]; [assumption|].
    unfold t_record, record_xml. cbn [r_name r_type]. rewrite <- Hq.
    destruct t as [mn mx|mn mx|mn mx scale offset|mn mx]; cbn [data_type_ok] in *; split_ok;
      cbn [serialize_record_type].
    - eapply RL_ext.
      + apply (RL_leaf _ _ _ _ Hp).
        destruct mn, mx; cbn [opt_ok] in *; repeat constructor; apply plain_text_forall; assumption.
      + cbn [app]. rewrite wtc_type. cbn [xstr_eqb].
        rewrite text_raw_plain by
          (destruct mn as [f1|], mx as [f2|]; cbn [sample32 sample64 opt_ok] in *;
           try assumption; try reflexivity;
           first [destruct (below_zero32 f2) | destruct (below_zero64 f2)]; first [assumption|reflexivity]).
        destruct mn, mx; cbn [opt_gen app]; fin.
    - eapply RL_ext.
      + apply (RL_leaf _ _ _ _ Hp).
        destruct mn, mx; cbn [opt_ok] in *; repeat constructor; apply plain_text_forall; assumption.
      + cbn [app]. rewrite wtc_type. cbn [xstr_eqb].
        rewrite text_raw_plain by
          (destruct mn as [f1|], mx as [f2|]; cbn [sample32 sample64 opt_ok] in *;
           try assumption; try reflexivity;
           first [destruct (below_zero32 f2) | destruct (below_zero64 f2)]; first [assumption|reflexivity]).
        destruct mn, mx; cbn [opt_gen app]; fin.
    - eapply RL_ext.
      + apply (RL_leaf _ _ _ _ Hp).
        repeat constructor; try (apply plain_text_forall; assumption);
          rewrite dec_z_display; apply plain_text_forall, display_i_plain.
      + rewrite wtc_type. cbn [xstr_eqb].
        rewrite !dec_z_display, text_raw_plain by apply display_i_plain.
        fin.
    - eapply RL_ext.
      + apply (RL_leaf _ _ _ _ Hp).
        repeat constructor; rewrite dec_z_display; apply plain_text_forall, display_i_plain.
      + rewrite wtc_type. cbn [xstr_eqb].
        rewrite !dec_z_display, text_raw_plain by apply display_i_plain.
        fin.
  Qed.

  Lemma RL_points : forall pc, forallb (record_ok exts) (pc_prototype pc) = true ->
    RL (t_points sc exts pc) (points_xml pc).
  Proof.
    intros pc Hp. unfold t_points, points_xml, el.
    eapply RL_ext.
    - eapply (RL_container (ename (B "points"))); [exact He57| | |].
      + repeat constructor; rewrite dec_n_display; apply plain_text_forall, display_u_plain.
      + reflexivity.
      + apply RLs_one; [reflexivity|]. apply RL_struct. apply RLs_map; [reflexivity|].
        intros r Hin. apply RL_record. rewrite forallb_forall in Hp. auto.
    - rewrite !dec_n_display. unfold structure. fin.
  Qed.

  (** ** Data3D *)
  Definition pointcloud_bytes (pc : pointcloud) : list N :=
    match pointcloud_xml pc with Ok b => b | _ => [] end.

  Lemma pointcloud_xml_ok : forall pc, pointcloud_xml pc = Ok (pointcloud_bytes pc).
  Proof. reflexivity. Qed.

  Lemma RL_pointcloud : forall pc, pointcloud_ok exts pc = true ->
    RL (t_pointcloud sc exts pc) (pointcloud_bytes pc).
  Proof.
    intros pc Hpc. unfold pointcloud_ok in Hpc. split_ok.
    unfold t_pointcloud, pointcloud_bytes, pointcloud_xml.
    apply RL_struct. rls; rl.
    - (* originalGuids *)
      unfold original_guids_xml. eapply RL_ext.
      + apply RL_vector. apply RLs_map; [reflexivity|]. intros g _. apply RL_string.
      + listnorm. reflexivity.
    - (* colour limits: written because complete *)
      assert (Hc : color_limits_ok x = true) by ok_some.
      pose proof Hc as Hc'. unfold color_limits_ok in Hc'. split_ok.
      match goal with Hx : color_limits_complete x = true |- _ => rewrite Hx end.
      apply RL_color_limits. exact Hc.
    - assert (Hc : intensity_limits_ok x = true) by ok_some.
      pose proof Hc as Hc'. unfold intensity_limits_ok in Hc'. split_ok.
      match goal with Hx : intensity_limits_complete x = true |- _ => rewrite Hx end.
      apply RL_intensity_limits. exact Hc.
    - apply RL_points. assumption.
  Qed.

  (** ** Image2D *)
  Lemma RL_blob : forall name b, RL (t_blob sc name b) (blob_xml name b).
  Proof.
    intros name b. unfold t_blob, blob_xml, el.
    eapply RL_ext.
    - apply (RL_empty (ename name) _ None He57).
      repeat constructor; rewrite dec_n_display; apply plain_text_forall, display_u_plain.
    - rewrite !dec_n_display. fin.
  Qed.

  Lemma RL_image_blob : forall b, RL (t_image_blob sc b) (image_blob_xml b).
  Proof. intro b. unfold t_image_blob, image_blob_xml. destruct (ib_format b); apply RL_blob. Qed.

  Lemma RL_visual_reference : forall v, RL (t_visual_reference sc v) (visual_reference_xml v).
  Proof.
    intro v. unfold t_visual_reference, visual_reference_xml. apply RL_struct.
    rls; rl; first [apply RL_image_blob | apply RL_blob].
  Qed.

  Lemma RL_projection : forall p, projection_ok p = true -> RL (t_projection sc p) (projection_xml p).
  Proof.
    intros [x|x|x] Hp; cbn [projection_ok t_projection projection_xml] in *; split_ok;
      unfold t_pinhole, pinhole_xml, t_spherical_image, spherical_image_xml, t_cylindrical_image, cylindrical_image_xml;
      apply RL_struct; rls; rl; first [apply RL_image_blob | apply RL_blob].
  Qed.

  Lemma RL_image : forall i, image_ok i = true -> RL (t_image sc i) (image_xml i).
  Proof.
    intros i Hi. unfold image_ok in Hi. split_ok.
    unfold t_image, image_xml. apply RL_struct.
    rls; rl.
    - apply RL_visual_reference.
    - apply RL_projection. ok_some.
  Qed.
End Scope.

(** * the root element and the document *)

Lemma decl_items : forall sc0 exts rest,
  flat_map (item_bytes sc0) (map ItDecl (map (fun e => mkXNs (Some (e_namespace e)) (e_url e)) exts)) ++ 32 :: rest =
  32 :: flat_map extension_xmlns exts ++ rest.
Proof.
  intros sc0 exts rest. induction exts as [|e r IH]; [reflexivity|].
  cbn [map flat_map]. rewrite <- app_assoc, IH.
  unfold item_bytes, extension_xmlns. cbn [item_name item_value xns_prefix xns_uri].
  rewrite wesc_url. unfold S_XMLNS. listnorm. reflexivity.
Qed.

Lemma prefix_is_eq : forall sc ns p, prefix_is sc ns p = true -> elem_prefix sc ns = Some p.
Proof.
  intros sc ns p H. unfold prefix_is in H. destruct (elem_prefix sc ns) as [q|]; [|discriminate].
  destruct q as [q|], p as [p|]; cbn [opt_str_eqb] in H; try discriminate; [|reflexivity].
  apply xstr_eqb_eq in H. now subst.
Qed.

Lemma render_root : forall exts ch body,
  elem_prefix (scope_of exts) (Some E57_URI) = Some None ->
  RLs exts (ename (B "e57Root")) STRUCT_ATTRS ch body ->
  render_node W [0%nat] None no_name [] (t_struct (scope_of exts) (B "e57Root") ch) =
  root_open exts ++ body ++ close_tag (B "e57Root").
Proof.
  intros exts ch body He57 Hch. unfold t_struct, el.
  rewrite render_node_elem. cbv zeta.
  change (rc_elem W [0%nat] (XElem (ename (B "e57Root")) [ty (B "Structure")] (scope_of exts) (lines ch)))
    with writer_elem_choice.
  cbn [xn_ns ename]. rewrite He57.
  cbn [or_default own_decls writer_elem_choice ec_merge ec_self_close ec_ws_close blanks filter merge_items map xn_local qname].
  rewrite writer_items.
  unfold STRUCT_ATTRS in Hch.
  rewrite (children_lines exts (ename (B "e57Root")) [ty (B "Structure")] ch body [0%nat]) by (reflexivity || exact Hch).
  unfold lines. unfold scope_of at 2. rewrite !map_app, !flat_map_app.
  cbn [flat_map app map].
  change (item_bytes (scope_of exts) (ItAttr (ty (B "Structure")))) with (B " type=""Structure""").
  change (item_bytes (scope_of exts) (ItDecl (mkXNs None E57_URI)) ++ [])
    with (32 :: B "xmlns=""http://www.astm.org/COMMIT/E57/2010-e57-v1.0""").
  rewrite <- !app_assoc. cbn [app].
  rewrite (decl_items (scope_of exts) exts).
  unfold root_open, close_tag, E57_NS. listnorm. reflexivity.
Qed.

Lemma pointclouds_xml_ok : forall l, pointclouds_xml l = Ok (flat_map pointcloud_bytes l).
Proof.
  induction l as [|pc r IH]; [reflexivity|].
  cbn [pointclouds_xml flat_map]. rewrite pointcloud_xml_ok, IH. reflexivity.
Qed.

(** the bytes of the children of e57Root, grouped per child *)
Definition root_body (m : file_meta) : list N :=
  let r := fm_root m in
  (gen_string (B "formatName") (rt_format r) ++
   gen_string (B "guid") (rt_guid r) ++
   gen_int (B "versionMajor") (rt_major_version r) ++
   gen_int (B "versionMinor") (rt_minor_version r)) ++
  opt_gen (gen_string (B "coordinateMetadata")) (rt_coordinate_metadata r) ++
  opt_gen (gen_string (B "e57LibraryVersion")) (rt_library_version r) ++
  opt_gen (date_time_xml (B "creationDateTime")) (rt_creation r) ++
  ((open_tag (B "data3D") (B " type=""Vector"" allowHeterogeneousChildren=""" ++ B "1" ++ B """")
      ++ LF ++ flat_map pointcloud_bytes (fm_pointclouds m) ++ close_tag (B "data3D") ++ LF) ++
   (open_tag (B "images2D") (B " type=""Vector"" allowHeterogeneousChildren=""" ++ B "1" ++ B """")
      ++ LF ++ flat_map image_xml (fm_images m) ++ close_tag (B "images2D") ++ LF)).

Lemma gen_root_bytes : forall m, rt_format (fm_root m) = STD_FORMAT_NAME -> rt_guid (fm_root m) <> [] ->
  gen_root m = Ok (XML_DECL ++ LF ++ root_open (fm_extensions m) ++ root_body m ++ close_tag (B "e57Root") ++ LF).
Proof.
  intros m Hf Hg. unfold gen_root, serialize_root.
  destruct (rt_guid (fm_root m)) as [|g0 gr] eqn:Eg; [congruence|].
  rewrite pointclouds_xml_ok. cbn [res_bind]. f_equal.
  unfold root_body. rewrite Hf, Eg.
  change (gen_string (B "formatName") STD_FORMAT_NAME)
    with (B "<formatName type=""String""><![CDATA[ASTM E57 3D Imaging Data File]]></formatName>" ++ LF).
  unfold VECTOR_ATTRS. rewrite <- !app_assoc. reflexivity.
Qed.

Lemma root_children : forall m,
  let exts := fm_extensions m in
  elem_prefix (scope_of exts) (Some E57_URI) = Some None ->
  opt_ok date_time_ok (rt_creation (fm_root m)) = true ->
  forallb (pointcloud_ok exts) (fm_pointclouds m) = true ->
  forallb image_ok (fm_images m) = true ->
  exists ch, t_root (scope_of exts) exts m = t_struct (scope_of exts) (B "e57Root") ch /\
             RLs exts (ename (B "e57Root")) STRUCT_ATTRS ch (root_body m).
Proof.
  intros m exts He57 Hcr Hpcs Himgs. eexists. split; [reflexivity|].
  unfold root_body. cbv zeta.
  repeat lazymatch goal with
    | |- RLs _ _ _ [] [] => apply RLs_nil
    | |- RLs _ _ _ (_ ++ _) (_ ++ _) => apply RLs_app; [reflexivity| |]
    | |- RLs _ _ _ [_] _ => apply RLs_one; [reflexivity|]
    | |- RLs _ _ _ (_ :: _) (_ ++ _) => apply RLs_cons; [reflexivity| |]
    | |- RLs _ _ _ (opt1 _ _) (opt_gen _ _) => apply RLs_opt; [reflexivity|intros ? ?]
    end;
    lazymatch goal with
    | |- RL _ (t_string _ _ _) _ => apply RL_string; exact He57
    | |- RL _ (t_int _ _ _) _ => apply RL_int; exact He57
    | |- _ => idtac
    end.
  - apply RL_date_time; [exact He57|]. eapply opt_ok_some; eassumption.
  - apply (RL_vector exts He57 (B "data3D") true). apply RLs_map; [reflexivity|].
    intros pc Hin. apply RL_pointcloud; [exact He57|]. rewrite forallb_forall in Hpcs. auto.
  - apply (RL_vector exts He57 (B "images2D") true). apply RLs_map; [reflexivity|].
    intros i Hin. apply RL_image; [exact He57|]. rewrite forallb_forall in Himgs. auto.
Qed.

(** ** the theorem *)
Theorem gen_is_render : forall m bs,
  writer_meta_ok m = true -> gen_root m = Ok bs -> bs = render writer_choices (tree_of m).
Proof.
  intros m bs Hok Hgen.
  unfold writer_meta_ok in Hok.
  repeat match goal with H : (_ && _) = true |- _ => apply andb_prop in H; destruct H end.
  match goal with H : xstr_eqb _ STD_FORMAT_NAME = true |- _ => apply xstr_eqb_eq in H; rename H into Hfmt end.
  match goal with H : prefix_is _ _ None = true |- _ => apply prefix_is_eq in H; rename H into He57 end.
  assert (Hguid : rt_guid (fm_root m) <> []).
  { intro E. unfold gen_root, serialize_root in Hgen. rewrite E in Hgen. discriminate. }
  assert (Hbs : bs = XML_DECL ++ LF ++ root_open (fm_extensions m) ++ root_body m ++ close_tag (B "e57Root") ++ LF).
  { rewrite (gen_root_bytes m Hfmt Hguid) in Hgen. congruence. }
  clear Hgen. subst bs.
  destruct (root_children m) as [ch [Hch Hrl]]; try assumption.
  pose proof (render_root (fm_extensions m) ch (root_body m) He57 Hrl) as Hr. clear Hrl.
  revert Hr. generalize (root_body m). intros rb Hr.
  unfold render, tree_of. cbn [xd_children rc_bom rc_decl writer_choices render_decl render_doc_nodes rc_doc_ws].
  change (blanks [10]) with [10].
  rewrite Hch, Hr.
  unfold XML_DECL, DECL_STD, root_open, close_tag, E57_NS, LF. listnorm. reflexivity.
Qed.

(** non-vacuity: a file with an extension, a point cloud (extension record, bounds, limits, pose,
    strings with markup and the CDATA end marker) and a spherical image satisfies the hypotheses *)
Example gen_is_render_applies :
  writer_meta_ok xg_example = true /\ exists bs, gen_root xg_example = Ok bs /\ bs = render writer_choices (tree_of xg_example).
Proof.
  split; [vm_compute; reflexivity|].
  destruct (gen_root xg_example) as [bs| |] eqn:E; try (vm_compute in E; discriminate).
  exists bs. split; [reflexivity|]. apply gen_is_render; [vm_compute; reflexivity|exact E].
Qed.

(** the digest the extracted code must reproduce (tools/props/c04.py, case XGSELF) *)
Example xg_example_digest :
  match gen_root xg_example with Ok b => xg_digest b | _ => (0, 0) end = (3141, 2242033640).
Proof. vm_compute. reflexivity. Qed.

Print Assumptions gen_is_render.
