From E57 Require Import Base.Prelude Model.Crc Model.Device Model.PagedWriter Spec.PageSpec.
Definition pw0 : pw := mkPw (mkDev [] 0 1 None []) 0 (zeros PAGE).
Definition res_eqb (a b : res N) : bool :=
  match a, b with Ok x, Ok y => x =? y | Err _, Err _ => true | Panic, Panic => true | _, _ => false end.
Fixpoint all2 (a b : list (res N)) : bool :=
  match a, b with [], [] => true | x::a, y::b => res_eqb x y && all2 a b | _, _ => false end.
Definition check (ops : list pw_op) : bool * bool * bool * N :=
  let m := pw_run ops pw0 in let sp := ls_run ops ls_init in
  let f := pw_flush (fst m) in
  (if list_eq_dec (fun a b : res N => ltac:(decide equality; try apply N.eq_dec; decide equality)) (snd m) (snd sp) then true else false,
   is_ok (snd f),
   if list_eq_dec N.eq_dec (d_bytes (pw_dev (fst f))) (paginate (ls_data (fst sp))) then true else false,
   len (d_bytes (pw_dev (fst f)))).
Definition w (n : N) := PwWrite (repeat 7 (N.to_nat n)).
Eval vm_compute in check [w 100; PwSeek 5000; w 10; PwFlush].
Eval vm_compute in check [w 1; PwSeek 1020; PwFlush].
Eval vm_compute in check [w 100; PwSeek 1024; PwPosition; w 3; PwSize; PwPosition].
Eval vm_compute in check [w 1019; PwAlign; PwPosition; PwSize; w 1; PwSeek 2048; w 2000; PwSeek 5; w 1020; PwAlign; PwSeek 1019; PwAlign; PwPosition;PwSize].
Eval vm_compute in check [w 1020; PwPosition; PwSize; PwSeek 1024; PwSeek 1025; PwSeek 0; w 3; PwSeek 1024; w 1; PwSeek 1023;PwSize].
Eval vm_compute in check [w 2040; PwSeek 1024; w 5; PwSeek 1; w 1019; w 1; PwSeek 2048; PwSeek 2048; PwAlign; w 0; PwSize; PwSeek 3072].
Eval vm_compute in check [PwSeek 0; PwSize; PwSeek 1; PwAlign; w 1; PwSeek 1024; PwSeek 1024; w 1021; PwSeek 2048; PwSeek 3072;PwSize].
