(** The 8192 unit syndromes of a page, tabulated by recurrence, and the finite
    facts about them (each a [vm_compute] over a visible bound of 8192 bit
    positions): all are 32-bit, all have odd parity, all are distinct.  Also the
    generic GF(2) tools: parity, linear independence from a dual certificate. *)
From Coq Require Import ZifyN ZifyNat ZifyBool.
From Coq Require Import Orders Sorting.Mergesort Sorting.Permutation.
From E57 Require Import Base.Prelude Model.Crc Spec.CrcSpec.
From E57 Require Import Proofs.CrcLinear Proofs.CrcSyndrome.
Ltac Zify.zify_post_hook ::= Z.div_mod_to_equations.

(** * Parity *)

Fixpoint ppar (p : positive) : bool :=
  match p with xH => true | xO q => ppar q | xI q => negb (ppar q) end.

Definition parity (n : N) : bool :=
  match n with N0 => false | Npos p => ppar p end.

Lemma parity_double n : parity (Pos.Ndouble n) = parity n.
Proof. destruct n; reflexivity. Qed.

Lemma parity_succ_double n : parity (Pos.Nsucc_double n) = negb (parity n).
Proof. destruct n; reflexivity. Qed.

Lemma ppar_lxor p : forall q, parity (Pos.lxor p q) = xorb (ppar p) (ppar q).
Proof.
  induction p as [p IH | p IH | ]; intros [q | q | ]; cbn [Pos.lxor ppar];
    rewrite ?parity_double, ?parity_succ_double, ?IH; cbn [parity ppar];
    try destruct (ppar p); try destruct (ppar q); reflexivity.
Qed.

Lemma parity_lxor a b : parity (N.lxor a b) = xorb (parity a) (parity b).
Proof.
  destruct a as [ | p], b as [ | q]; unfold N.lxor; cbn [parity].
  - reflexivity.
  - now rewrite xorb_false_l.
  - now rewrite xorb_false_r.
  - apply ppar_lxor.
Qed.

Lemma parity_nonzero a : parity a = true -> a <> 0.
Proof. intros H ->. discriminate. Qed.

(** * Linear independence from a dual certificate *)

(** If masks [M] are dual to the vectors [f 0 .. f (n-1)], every non-empty
    duplicate-free selection of vectors has a non-zero xor. *)
Lemma dual_orth (f : nat -> N) (m : N) (p : nat) (l : list nat) :
  (forall q, In q l -> parity (N.land m (f q)) = Nat.eqb p q) ->
  ~ In p l ->
  parity (N.land m (xors (map f l))) = false.
Proof.
  induction l as [ | q l IH]; intros Hd Hn; cbn [map xors fold_right].
  - rewrite N.land_0_r. reflexivity.
  - rewrite land_lxor_distr_l, parity_lxor.
    fold (xors (map f l)).
    rewrite IH.
    + rewrite Hd by (left; reflexivity).
      replace (Nat.eqb p q) with false; [ reflexivity | ].
      symmetry. apply Nat.eqb_neq. intros ->. apply Hn. left. reflexivity.
    + intros q' Hq'. apply Hd. right. exact Hq'.
    + intro Hp. apply Hn. right. exact Hp.
Qed.

Lemma dual_indep (f : nat -> N) (M : list N) (n : nat) :
  (forall p q, (p < n)%nat -> (q < n)%nat ->
               parity (N.land (nth p M 0) (f q)) = Nat.eqb p q) ->
  forall l : list nat, l <> [] -> NoDup l -> Forall (fun q => (q < n)%nat) l ->
  xors (map f l) <> 0.
Proof.
  intros Hd [ | p l] Hne Hnd Hl; [ congruence | ]. intro H0.
  inversion_clear Hnd as [ | ? ? Hp Hnd']. inversion_clear Hl as [ | ? ? Hpn Hl'].
  rewrite Forall_forall in Hl'.
  assert (parity (N.land (nth p M 0) (xors (map f (p :: l)))) = true) as A.
  { cbn [map xors fold_right]. fold (xors (map f l)).
    rewrite land_lxor_distr_l, parity_lxor.
    rewrite (dual_orth f (nth p M 0) p l).
    - rewrite Hd by assumption. rewrite Nat.eqb_refl. reflexivity.
    - intros q Hq. apply Hd; auto.
    - exact Hp. }
  rewrite H0, N.land_0_r in A. discriminate.
Qed.

(** * Duplicate-freeness by sorting *)

Module NOrder <: TotalLeBool.
  Definition t := N.
  Definition leb := N.leb.
  Theorem leb_total : forall a b, leb a b = true \/ leb b a = true.
  Proof. intros a b. unfold leb. rewrite !N.leb_le. lia. Qed.
End NOrder.
Module NSort := Sort NOrder.

Fixpoint sincr (l : list N) : bool :=
  match l with
  | a :: (b :: _) as t => (a <? b) && sincr t
  | _ => true
  end.

Lemma sincr_tail a l : sincr (a :: l) = true -> sincr l = true.
Proof.
  destruct l as [ | b l]; [ reflexivity | ].
  cbn [sincr]. intro H. apply andb_prop in H. apply H.
Qed.

Lemma sincr_forall l : forall a, sincr (a :: l) = true -> Forall (fun x => a < x) l.
Proof.
  induction l as [ | b l IH]; intros a H; [ constructor | ].
  cbn [sincr] in H. apply andb_prop in H. destruct H as [Hab Ht].
  apply N.ltb_lt in Hab. constructor; [ exact Hab | ].
  eapply Forall_impl; [ | apply IH; exact Ht ].
  cbn beta. intros x Hx. lia.
Qed.

Lemma sincr_nodup l : sincr l = true -> NoDup l.
Proof.
  induction l as [ | a l IH]; intro H; constructor.
  - intro Hin. pose proof (sincr_forall l a H) as F.
    rewrite Forall_forall in F. specialize (F a Hin). lia.
  - apply IH. eapply sincr_tail. exact H.
Qed.

Definition nodupb (l : list N) : bool := sincr (NSort.sort l).

Lemma nodupb_nodup l : nodupb l = true -> NoDup l.
Proof.
  intro H. apply sincr_nodup in H.
  eapply Permutation_NoDup; [ | exact H ].
  apply Permutation_sym, NSort.Permuted_sort.
Qed.

Lemma NoDup_map_inj {A B} (f : A -> B) l x y :
  NoDup (map f l) -> In x l -> In y l -> f x = f y -> x = y.
Proof.
  induction l as [ | a l IH]; cbn [map In]; intros ND Hx Hy E; [ contradiction | ].
  inversion_clear ND as [ | ? ? Hn ND'].
  destruct Hx as [-> | Hx], Hy as [-> | Hy].
  - reflexivity.
  - exfalso. apply Hn. rewrite E. apply in_map. exact Hy.
  - exfalso. apply Hn. rewrite <- E. apply in_map. exact Hx.
  - apply IH; assumption.
Qed.

Lemma NoDup_map_inj_in {A B} (f : A -> B) l :
  (forall x y, In x l -> In y l -> f x = f y -> x = y) -> NoDup l -> NoDup (map f l).
Proof.
  induction l as [ | a l IH]; intros Hinj ND; cbn [map]; [ constructor | ].
  inversion_clear ND as [ | ? ? Hn ND']. constructor.
  - intro Hin. apply in_map_iff in Hin. destruct Hin as (x & E & Hx).
    apply Hn. rewrite <- (Hinj x a); [ exact Hx | right; exact Hx | left; reflexivity | exact E ].
  - apply IH; [ | exact ND' ]. intros x y Hx Hy. apply Hinj; right; assumption.
Qed.

(** * The table *)

Fixpoint rows (n : nat) (row : list N) : list (list N) :=
  match n with O => [] | S k => row :: rows k (map crc_entry row) end.

Lemma rows_nth n : forall k row, (k < n)%nat -> nth k (rows n row) [] = map (iterE k) row.
Proof.
  induction n as [ | n IH]; intros k row H; [ lia | ].
  destruct k as [ | k]; cbn [rows nth].
  - rewrite <- (map_id row) at 1. apply map_ext. reflexivity.
  - rewrite IH by lia. rewrite map_map. apply map_ext. reflexivity.
Qed.

(** Row [k]: the syndromes of the eight bits (by bit number) of payload byte [1019 - k]. *)
Definition row0 : list N := map (fun b => crc_entry (2 ^ b)) [0; 1; 2; 3; 4; 5; 6; 7].
Definition syn_rows : list (list N) := rows 1020 row0.

Definition synd_fast (msb : bool) (i : N) : N :=
  if i <? 8160
  then nth (N.to_nat (bit_in_byte msb i)) (nth (1019 - N.to_nat (i / 8)) syn_rows []) 0
  else 2 ^ bit_in_byte msb i * 256 ^ (1023 - i / 8).

Lemma synd_fast_ok msb i : synd_fast msb i = synd msb i.
Proof.
  unfold synd_fast, synd. destruct (i <? 8160); [ | reflexivity ].
  unfold syn_rows. rewrite rows_nth by lia.
  set (k := (1019 - N.to_nat (i / 8))%nat).
  replace (nth (N.to_nat (bit_in_byte msb i)) (map (iterE k) row0) 0)
    with (nth (N.to_nat (bit_in_byte msb i)) (map (iterE k) row0) (iterE k 0))
    by (f_equal; apply iterE_0).
  rewrite map_nth. f_equal.
  pose proof (bit_in_byte_lt msb i) as Hb.
  set (b := bit_in_byte msb i) in *.
  assert (b = 0 \/ b = 1 \/ b = 2 \/ b = 3 \/ b = 4 \/ b = 5 \/ b = 6 \/ b = 7) as Hc by lia.
  clearbody b.
  repeat (destruct Hc as [-> | Hc]; [ reflexivity | ]). subst b. reflexivity.
Qed.

Definition idx (n : N) : list N := map N.of_nat (seq 0 (N.to_nat n)).

Lemma idx_in n i : i < n -> In i (idx n).
Proof.
  intro H. unfold idx. apply in_map_iff. exists (N.to_nat i). split.
  - apply N2Nat.id.
  - apply in_seq. lia.
Qed.

(** * Finite facts (8192 bit positions, both bit orders) *)

Lemma synd_all_lt msb :
  forallb (fun i => synd_fast msb i <? 4294967296) (idx 8192) = true.
Proof. destruct msb; vm_compute; reflexivity. Qed.

Lemma synd_all_odd msb :
  forallb (fun i => parity (synd_fast msb i)) (idx 8192) = true.
Proof. destruct msb; vm_compute; reflexivity. Qed.

Lemma synd_all_distinct msb :
  nodupb (map (synd_fast msb) (idx 8192)) = true.
Proof. destruct msb; vm_compute; reflexivity. Qed.

Lemma synd_lt msb i : i < 8192 -> synd msb i < 2 ^ 32.
Proof.
  intro H. pose proof (synd_all_lt msb) as A. rewrite forallb_forall in A.
  specialize (A i (idx_in 8192 i H)). rewrite synd_fast_ok in A.
  apply N.ltb_lt in A. exact A.
Qed.

Lemma synd_odd msb i : i < 8192 -> parity (synd msb i) = true.
Proof.
  intro H. pose proof (synd_all_odd msb) as A. rewrite forallb_forall in A.
  specialize (A i (idx_in 8192 i H)). rewrite synd_fast_ok in A. exact A.
Qed.

Lemma synd_inj msb i j : i < 8192 -> j < 8192 -> synd msb i = synd msb j -> i = j.
Proof.
  intros Hi Hj E. pose proof (nodupb_nodup _ (synd_all_distinct msb)) as ND.
  apply (NoDup_map_inj (synd_fast msb) (idx 8192)); auto using idx_in.
  rewrite !synd_fast_ok. exact E.
Qed.

(** * Xor of several 32-bit values *)

Lemma xors_lt l : Forall (fun v => v < 2 ^ 32) l -> xors l < 2 ^ 32.
Proof.
  induction 1 as [ | v l Hv _ IH]; cbn [xors fold_right].
  - reflexivity.
  - apply lxor_lt_pow2; assumption.
Qed.

Lemma xors_iterE t l : xors (map (iterE t) l) = iterE t (xors l).
Proof.
  induction l as [ | v l IH]; cbn [map xors fold_right].
  - symmetry. apply iterE_0.
  - rewrite iterE_lxor. f_equal. exact IH.
Qed.

Print Assumptions synd_lt.
Print Assumptions synd_odd.
Print Assumptions synd_inj.
