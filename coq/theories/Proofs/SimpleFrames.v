(** C05, frames: each of the six switches of the simple iterator changes only
    the aspect it documents.  Stated on the documented [view] (which the
    iterator delivers, Proofs/SimpleIterProofs.v): for two option vectors that
    differ at most in one switch, the points of the same raw values agree on
    every other field. *)
From Coq Require Import ZArith NArith Bool List Lia.
From Flocq Require Import Binary Bits.
From E57 Require Import Base.Prelude Base.Floats Model.Record Model.Meta Model.Normalize
  Model.SimpleIter Spec.SimpleSpec.
Local Open Scope res_scope.

(** two option vectors agree except possibly on ... *)
Definition same_but_s2c (o o' : opts) : Prop :=
  o_c2s o = o_c2s o' /\ o_i2c o = o_i2c o' /\ o_ni o = o_ni o' /\ o_nc o = o_nc o' /\ o_pose o = o_pose o'.
Definition same_but_c2s (o o' : opts) : Prop :=
  o_s2c o = o_s2c o' /\ o_i2c o = o_i2c o' /\ o_ni o = o_ni o' /\ o_nc o = o_nc o' /\ o_pose o = o_pose o'.
Definition same_but_i2c (o o' : opts) : Prop :=
  o_s2c o = o_s2c o' /\ o_c2s o = o_c2s o' /\ o_ni o = o_ni o' /\ o_nc o = o_nc o' /\ o_pose o = o_pose o'.
Definition same_but_ni (o o' : opts) : Prop :=
  o_s2c o = o_s2c o' /\ o_c2s o = o_c2s o' /\ o_i2c o = o_i2c o' /\ o_nc o = o_nc o' /\ o_pose o = o_pose o'.
Definition same_but_nc (o o' : opts) : Prop :=
  o_s2c o = o_s2c o' /\ o_c2s o = o_c2s o' /\ o_i2c o = o_i2c o' /\ o_ni o = o_ni o' /\ o_pose o = o_pose o'.
Definition same_but_pose (o o' : opts) : Prop :=
  o_s2c o = o_s2c o' /\ o_c2s o = o_c2s o' /\ o_i2c o = o_i2c o' /\ o_ni o = o_ni o' /\ o_nc o = o_nc o'.

Section Frames.
  Variables (fcos fsin fasin : binary64 -> binary64) (fatan2 : binary64 -> binary64 -> binary64).
  Variables (pc : pointcloud) (raw : list rvalue).
  Local Notation View := (view fcos fsin fasin fatan2 pc).

  Lemma view_inv o p : View o raw = Ok p ->
    exists c s col i,
      stored_cartesian pc raw = Ok c /\ stored_spherical pc raw = Ok s /\
      view_color_stored pc o raw = Ok col /\ view_intensity pc o raw = Ok i /\
      view_index pc raw RowIndex = Ok (p_row p) /\ view_index pc raw ColumnIndex = Ok (p_column p) /\
      p_cartesian p = view_cartesian fcos fsin pc o c s /\
      p_spherical p = view_spherical fasin fatan2 o c s /\
      p_color p = view_color o col i /\ p_intensity p = i.
  Proof.
    unfold view.
    destruct (stored_cartesian pc raw) as [c| |]; cbn [res_bind]; try discriminate.
    destruct (stored_spherical pc raw) as [s| |]; cbn [res_bind]; try discriminate.
    destruct (view_color_stored pc o raw) as [col| |]; cbn [res_bind]; try discriminate.
    destruct (view_intensity pc o raw) as [i| |]; cbn [res_bind]; try discriminate.
    destruct (view_index pc raw RowIndex) as [row| |]; cbn [res_bind]; try discriminate.
    destruct (view_index pc raw ColumnIndex) as [column| |]; cbn [res_bind]; try discriminate.
    intros H. injection H as <-. exists c, s, col, i. cbn [p_row p_column p_cartesian p_spherical p_color p_intensity].
    repeat split; reflexivity.
  Qed.

  Lemma color_stored_nc o o' : o_nc o = o_nc o' -> view_color_stored pc o raw = view_color_stored pc o' raw.
  Proof. intros H. unfold view_color_stored. rewrite H. reflexivity. Qed.
  Lemma intensity_ni o o' : o_ni o = o_ni o' -> view_intensity pc o raw = view_intensity pc o' raw.
  Proof. intros H. unfold view_intensity. rewrite H. reflexivity. Qed.

  Ltac open_views H H' :=
    apply view_inv in H; apply view_inv in H';
    destruct H as (c & s & col & i & Hc & Hs & Hcol & Hi & Hrow & Hcolumn & Ec & Es & Ecol & Ei);
    destruct H' as (c' & s' & col' & i' & Hc' & Hs' & Hcol' & Hi' & Hrow' & Hcolumn' & Ec' & Es' & Ecol' & Ei');
    rewrite Hc in Hc'; injection Hc' as <-; rewrite Hs in Hs'; injection Hs' as <-;
    rewrite Hrow in Hrow'; injection Hrow' as Hrow'; rewrite Hcolumn in Hcolumn'; injection Hcolumn' as Hcolumn'.

  (** spherical_to_cartesian changes only the Cartesian coordinates *)
  Theorem frame_s2c o o' p p' : same_but_s2c o o' -> View o raw = Ok p -> View o' raw = Ok p' ->
    p_spherical p = p_spherical p' /\ p_color p = p_color p' /\ p_intensity p = p_intensity p' /\
    p_row p = p_row p' /\ p_column p = p_column p'.
  Proof.
    intros (H1 & H2 & H3 & H4 & H5) H H'. open_views H H'.
    rewrite (color_stored_nc o o' H4) in Hcol. rewrite Hcol in Hcol'. injection Hcol' as <-.
    rewrite (intensity_ni o o' H3) in Hi. rewrite Hi in Hi'. injection Hi' as <-.
    rewrite Es, Es', Ecol, Ecol', Ei, Ei'. unfold view_spherical, view_color. rewrite H1, H2.
    repeat split; assumption || reflexivity.
  Qed.

  (** cartesian_to_spherical changes only the spherical coordinates *)
  Theorem frame_c2s o o' p p' : same_but_c2s o o' -> View o raw = Ok p -> View o' raw = Ok p' ->
    p_cartesian p = p_cartesian p' /\ p_color p = p_color p' /\ p_intensity p = p_intensity p' /\
    p_row p = p_row p' /\ p_column p = p_column p'.
  Proof.
    intros (H1 & H2 & H3 & H4 & H5) H H'. open_views H H'.
    rewrite (color_stored_nc o o' H4) in Hcol. rewrite Hcol in Hcol'. injection Hcol' as <-.
    rewrite (intensity_ni o o' H3) in Hi. rewrite Hi in Hi'. injection Hi' as <-.
    rewrite Ec, Ec', Ecol, Ecol', Ei, Ei'. unfold view_cartesian, view_color. rewrite H1, H2, H5.
    repeat split; assumption || reflexivity.
  Qed.

  (** intensity_to_color changes only the colour, and only when no colour is stored or it is flagged invalid *)
  Theorem frame_i2c o o' p p' : same_but_i2c o o' -> View o raw = Ok p -> View o' raw = Ok p' ->
    p_cartesian p = p_cartesian p' /\ p_spherical p = p_spherical p' /\ p_intensity p = p_intensity p' /\
    p_row p = p_row p' /\ p_column p = p_column p' /\
    (forall col, view_color_stored pc o raw = Ok (Some col) -> p_color p = Some col /\ p_color p' = Some col).
  Proof.
    intros (H1 & H2 & H3 & H4 & H5) H H'. open_views H H'.
    rewrite (color_stored_nc o o' H4) in Hcol. rewrite Hcol in Hcol'. injection Hcol' as <-.
    rewrite (intensity_ni o o' H3) in Hi. rewrite Hi in Hi'. injection Hi' as <-.
    rewrite Ec, Ec', Es, Es', Ei, Ei', Ecol, Ecol'. unfold view_cartesian, view_spherical. rewrite H1, H2, H5.
    repeat split; try assumption; try reflexivity;
      rewrite (color_stored_nc o o' H4), Hcol in H; injection H as ->; unfold view_color, converted_color;
      destruct (o_i2c o), (o_i2c o'); reflexivity.
  Qed.

  (** normalize_intensity changes only the intensity (and the grey derived from it when
      intensity_to_color is on and no colour is stored) *)
  Theorem frame_ni o o' p p' : same_but_ni o o' -> View o raw = Ok p -> View o' raw = Ok p' ->
    p_cartesian p = p_cartesian p' /\ p_spherical p = p_spherical p' /\
    p_row p = p_row p' /\ p_column p = p_column p' /\
    (o_i2c o = false -> p_color p = p_color p') /\
    (forall col, view_color_stored pc o raw = Ok (Some col) -> p_color p = p_color p').
  Proof.
    intros (H1 & H2 & H3 & H4 & H5) H H'. open_views H H'.
    rewrite (color_stored_nc o o' H4) in Hcol. rewrite Hcol in Hcol'. injection Hcol' as <-.
    rewrite Ec, Ec', Es, Es', Ecol, Ecol'. unfold view_cartesian, view_spherical. rewrite H1, H2, H5.
    repeat split; try assumption; try reflexivity.
    - intros Hf. unfold view_color. rewrite <- H3, Hf. reflexivity.
    - intros c0 Hc0. rewrite (color_stored_nc o o' H4), Hcol in Hc0. injection Hc0 as ->.
      unfold view_color, converted_color. rewrite <- H3. destruct (o_i2c o); reflexivity.
  Qed.

  (** normalize_color changes only the colour *)
  Theorem frame_nc o o' p p' : same_but_nc o o' -> View o raw = Ok p -> View o' raw = Ok p' ->
    p_cartesian p = p_cartesian p' /\ p_spherical p = p_spherical p' /\ p_intensity p = p_intensity p' /\
    p_row p = p_row p' /\ p_column p = p_column p'.
  Proof.
    intros (H1 & H2 & H3 & H4 & H5) H H'. open_views H H'.
    rewrite (intensity_ni o o' H4) in Hi. rewrite Hi in Hi'. injection Hi' as <-.
    rewrite Ec, Ec', Es, Es', Ei, Ei'. unfold view_cartesian, view_spherical. rewrite H1, H2, H5.
    repeat split; assumption || reflexivity.
  Qed.

  (** apply_pose changes only valid Cartesian coordinates *)
  Theorem frame_pose o o' p p' : same_but_pose o o' -> View o raw = Ok p -> View o' raw = Ok p' ->
    p_spherical p = p_spherical p' /\ p_color p = p_color p' /\ p_intensity p = p_intensity p' /\
    p_row p = p_row p' /\ p_column p = p_column p' /\
    match p_cartesian p with
    | CValid _ _ _ => exists x y z, p_cartesian p' = CValid x y z
    | c => p_cartesian p' = c
    end.
  Proof.
    intros (H1 & H2 & H3 & H4 & H5) H H'. open_views H H'.
    rewrite (color_stored_nc o o' H5) in Hcol. rewrite Hcol in Hcol'. injection Hcol' as <-.
    rewrite (intensity_ni o o' H4) in Hi. rewrite Hi in Hi'. injection Hi' as <-.
    rewrite Ec, Ec', Es, Es', Ecol, Ecol', Ei, Ei'. unfold view_spherical, view_color. rewrite H2, H3.
    repeat split; try assumption; try reflexivity.
    unfold view_cartesian. rewrite <- H1.
    set (c1 := if o_s2c o then converted_cartesian fcos fsin c s else c).
    destruct (o_pose o), (o_pose o'), c1; cbn [posed]; try reflexivity; eexists _, _, _; reflexivity.
  Qed.
End Frames.
