(** C08 for the XML layer: no extractor of Model/XmlExtract.v can panic, on ANY tree (any element
    names, attributes, texts, nesting) and for ARBITRARY float oracles (they may return any bit
    pattern - NaN, infinities - or refuse any text).  The only [Panic] of the model is
    [Document::root_element] on a document without a root element, which the parser never
    produces.  Numbers that are NaN / infinite / out of range are either returned (floats) or make
    the extractor return [Err] (integers that do not fit their type); nothing is converted with a
    checked operation. *)
From Coq Require Import List Bool NArith ZArith.
From E57 Require Import Base.Prelude Model.Meta Model.MetaFile Model.XmlTree Model.XmlExtract Proofs.XeLemmas.
Import ListNotations.

Definition np {A} (r : res A) : Prop := r <> Panic.

Lemma np_ok {A} (a : A) : np (Ok a).
Proof. discriminate. Qed.
Lemma np_err {A} k : np (@Err A k).
Proof. discriminate. Qed.
Lemma np_bind {A C} (x : res A) (k : A -> res C) : np x -> (forall a, np (k a)) -> np (res_bind x k).
Proof. intros Hx Hk. destruct x; cbn; [apply Hk|discriminate|contradiction]. Qed.
Lemma np_invalid {A} (o : option A) : np (invalid_err o).
Proof. destruct o; discriminate. Qed.
Lemma np_opt_case {A} o (f : xnode -> res A) d : (forall c, np (f c)) -> np d -> np (opt_case o f d).
Proof. intros Hf Hd. destruct o; cbn; auto. Qed.
Lemma np_map_res {A C} (f : A -> res C) l : (forall x, np (f x)) -> np (map_res f l).
Proof.
  intros H. induction l as [|x l IH]; cbn [map_res]; [apply np_ok|].
  apply np_bind; [apply H|]. intros y. apply np_bind; [exact IH|]. intros. apply np_ok.
Qed.

Create HintDb np.
#[export] Hint Resolve np_ok np_err np_invalid : np.

(** structural decomposition of a goal [np e] *)
Ltac np_step :=
  first
    [ solve [auto with np]
    | apply np_ok | apply np_err | apply np_invalid
    | apply np_bind; [|intros ?]
    | apply np_opt_case; [intros ?|]
    | apply np_map_res; intros ?
    | match goal with
      | |- np (if ?c then _ else _) => destruct c
      | |- np (match ?x with _ => _ end) => destruct x
      | |- np (let '(_, _) := ?x in _) => destruct x
      end
    | progress cbv zeta ].
Ltac np_tac := repeat np_step.

Section Total.
Variables pf64 pf32 : xstr -> option N.
Variable fdiv : N -> Z -> N.

Lemma np_check_type e c : np (check_type e c).
Proof. unfold check_type. np_tac. Qed.
Hint Resolve np_check_type : np.

Lemma np_opt_string n nm : np (opt_string n nm).
Proof. unfold opt_string, opt_bind. np_tac. Qed.
Hint Resolve np_opt_string : np.
Lemma np_req_string n nm : np (req_string n nm).
Proof. unfold req_string. np_tac. Qed.
Hint Resolve np_req_string : np.
Lemma np_opt_num {T} (parse : xstr -> option T) n nm e : np (opt_num parse n nm e).
Proof. unfold opt_num, opt_bind. np_tac. Qed.
Hint Resolve @np_opt_num : np.
Lemma np_opt_f64 n nm : np (opt_f64 pf64 n nm).
Proof. unfold opt_f64. np_tac. Qed.
Hint Resolve np_opt_f64 : np.
Lemma np_req_f64 n nm : np (req_f64 pf64 n nm).
Proof. unfold req_f64. np_tac. Qed.
Hint Resolve np_req_f64 : np.
Lemma np_opt_int p n nm : np (opt_int p n nm).
Proof. unfold opt_int. np_tac. Qed.
Hint Resolve np_opt_int : np.
Lemma np_req_int p n nm : np (req_int p n nm).
Proof. unfold req_int. np_tac. Qed.
Hint Resolve np_req_int : np.

Lemma np_date_time n : np (date_time_from_node pf64 n).
Proof. unfold date_time_from_node, req_node. np_tac. Qed.
Hint Resolve np_date_time : np.
Lemma np_opt_date_time n nm : np (opt_date_time pf64 n nm).
Proof. unfold opt_date_time, opt_bind. np_tac. Qed.
Hint Resolve np_opt_date_time : np.

Lemma np_translation n : np (translation_from_node pf64 n).
Proof. unfold translation_from_node. np_tac. Qed.
Lemma np_quaternion n : np (quaternion_from_node pf64 n).
Proof. unfold quaternion_from_node. np_tac. Qed.
Hint Resolve np_translation np_quaternion : np.
Lemma np_transform n : np (transform_from_node pf64 n).
Proof. unfold transform_from_node. np_tac. Qed.
Hint Resolve np_transform : np.
Lemma np_opt_transform n nm : np (opt_transform pf64 n nm).
Proof. unfold opt_transform, opt_node. np_tac. Qed.
Hint Resolve np_opt_transform : np.

Lemma np_cartesian_bounds n : np (cartesian_bounds_from_node pf64 n).
Proof. unfold cartesian_bounds_from_node. np_tac. Qed.
Lemma np_spherical_bounds n : np (spherical_bounds_from_node pf64 n).
Proof. unfold spherical_bounds_from_node. np_tac. Qed.
Lemma np_index_bounds n : np (index_bounds_from_node n).
Proof. unfold index_bounds_from_node. np_tac. Qed.
Hint Resolve np_cartesian_bounds np_spherical_bounds np_index_bounds : np.

Lemma np_extract_limit n nm : np (extract_limit pf64 pf32 n nm).
Proof. unfold extract_limit, opt_bind. np_tac. Qed.
Hint Resolve np_extract_limit : np.
Lemma np_intensity_limits n : np (intensity_limits_from_node pf64 pf32 n).
Proof. unfold intensity_limits_from_node. np_tac. Qed.
Lemma np_color_limits n : np (color_limits_from_node pf64 pf32 n).
Proof. unfold color_limits_from_node. np_tac. Qed.
Hint Resolve np_intensity_limits np_color_limits : np.

Lemma np_optional_attribute {T} (parse : xstr -> option T) n a : np (optional_attribute parse n a).
Proof. unfold optional_attribute. np_tac. Qed.
Hint Resolve @np_optional_attribute : np.
Lemma np_data_type n : np (data_type_from_node pf64 pf32 n).
Proof. unfold data_type_from_node. np_tac. Qed.
Hint Resolve np_data_type : np.
Lemma np_record n : np (record_from_node pf64 pf32 n).
Proof. unfold record_from_node. destruct n; np_tac. Qed.
Hint Resolve np_record : np.
Lemma np_prototype_records n : np (prototype_records pf64 pf32 n).
Proof. unfold prototype_records. np_tac. Qed.
Hint Resolve np_prototype_records : np.

Lemma np_blob n : np (blob_from_node n).
Proof. unfold blob_from_node. np_tac. Qed.
Hint Resolve np_blob : np.
Lemma np_blob_parent nm n : np (blob_from_parent_node nm n).
Proof. unfold blob_from_parent_node, opt_node. np_tac. Qed.
Hint Resolve np_blob_parent : np.

Lemma np_points n : np (points_from_node pf64 pf32 n).
Proof. unfold points_from_node, req_node. np_tac. Qed.
Hint Resolve np_points : np.
Lemma np_pointcloud n : np (pointcloud_from_node pf64 pf32 n).
Proof. unfold pointcloud_from_node, opt_node. np_tac. Qed.
Hint Resolve np_pointcloud : np.

Lemma np_image_blob n : np (image_blob_from_rep_node n).
Proof. unfold image_blob_from_rep_node. np_tac. Qed.
Hint Resolve np_image_blob : np.
Lemma np_visual_reference n : np (visual_reference_from_node n).
Proof. unfold visual_reference_from_node. np_tac. Qed.
Lemma np_pinhole n : np (pinhole_from_node pf64 n).
Proof. unfold pinhole_from_node. np_tac. Qed.
(** width = 0 makes the default pixel width 2*PI/0 = +infinity: a float division, no panic *)
Lemma np_spherical n : np (spherical_from_node pf64 fdiv n).
Proof. unfold spherical_from_node. np_tac. Qed.
Lemma np_cylindrical n : np (cylindrical_from_node pf64 n).
Proof. unfold cylindrical_from_node. np_tac. Qed.
Hint Resolve np_visual_reference np_pinhole np_spherical np_cylindrical : np.
Lemma np_projection n : np (projection_from_image_node pf64 fdiv n).
Proof. unfold projection_from_image_node. np_tac. Qed.
Hint Resolve np_projection : np.
Lemma np_image n : np (image_from_node pf64 fdiv n).
Proof. unfold image_from_node, opt_node. np_tac. Qed.
Hint Resolve np_image : np.

Lemma np_e57_root d : root_element d <> None -> np (e57_root d).
Proof. unfold e57_root. intros H. destruct (root_element d); [apply np_ok|contradiction]. Qed.

Lemma np_root d : root_element d <> None -> np (root_from_document pf64 d).
Proof. intros H. unfold root_from_document, req_node. apply np_bind; [apply np_e57_root; exact H|intros o]. np_tac. Qed.
Lemma np_pointclouds d : root_element d <> None -> np (pointclouds_from_document pf64 pf32 d).
Proof.
  intros H. unfold pointclouds_from_document, vec_from_document.
  apply np_bind; [apply np_e57_root; exact H|intros o]. np_tac.
Qed.
Lemma np_images d : root_element d <> None -> np (images_from_document pf64 fdiv d).
Proof.
  intros H. unfold images_from_document, vec_from_document.
  apply np_bind; [apply np_e57_root; exact H|intros o]. np_tac.
Qed.

Lemma np_extensions d : root_element d <> None -> np (extensions_from_document d).
Proof.
  unfold extensions_from_document, root_element. intros H.
  destruct (find is_element (xd_children d)) as [n|] eqn:E; [|contradiction].
  apply find_some in E. destruct E as [_ E]. destruct n; discriminate.
Qed.

Theorem extract_all_no_panic_proof d :
  root_element d <> None -> extract_all pf64 pf32 fdiv d <> Panic.
Proof.
  intros H. change (np (extract_all pf64 pf32 fdiv d)). unfold extract_all.
  apply np_bind; [apply np_root; exact H|intros r].
  apply np_bind; [apply np_pointclouds; exact H|intros pcs].
  apply np_bind; [apply np_images; exact H|intros ims].
  apply np_bind; [apply np_extensions; exact H|intros e]. apply np_ok.
Qed.

(** every tree is either read or rejected with an [Error] *)
Corollary extract_all_total d :
  root_element d <> None ->
  (exists m, extract_all pf64 pf32 fdiv d = Ok m) \/ (exists k, extract_all pf64 pf32 fdiv d = Err k).
Proof.
  intros H. pose proof (extract_all_no_panic_proof d H) as Hn.
  destruct (extract_all pf64 pf32 fdiv d) as [m|k|]; [left; eauto|right; eauto|contradiction].
Qed.

(** a document without root element (never produced by the parser) is the one case in which the
    model panics: [Document::root_element] is an [expect] *)
Lemma extract_all_no_root d : root_element d = None -> extract_all pf64 pf32 fdiv d = Panic.
Proof. intros H. unfold extract_all, root_from_document, e57_root. rewrite H. reflexivity. Qed.

End Total.
