(** Generic list facts about [len take drop slice overwrite zeros], read through
    [nthN] (N-indexed [nth] with default 0), and the structure of
    [paginate_n]: how a page is read out of, and written into, a paginated
    image.  Used by PagedWriterProofs.v. *)
From E57 Require Import Base.Prelude Model.Crc Model.Device Model.PagedWriter Spec.PageSpec.
From Coq Require Import ZifyN ZifyNat ZifyBool.
Ltac Zify.zify_post_hook ::= Z.div_mod_to_equations.

(** * Lengths *)

Lemma len_nil {A} : len (@nil A) = 0.
Proof. reflexivity. Qed.

Lemma len_cons {A} (x : A) l : len (x :: l) = len l + 1.
Proof. unfold len. cbn [length]. lia. Qed.

Lemma len_app {A} (a b : list A) : len (a ++ b) = len a + len b.
Proof. unfold len. rewrite app_length. lia. Qed.

Lemma len_take {A} n (l : list A) : len (take n l) = N.min n (len l).
Proof. unfold len, take. rewrite firstn_length. lia. Qed.

Lemma len_drop {A} n (l : list A) : len (drop n l) = len l - n.
Proof. unfold len, drop. rewrite skipn_length. lia. Qed.

Lemma len_slice {A} s n (l : list A) : len (slice s n l) = N.min n (len l - s).
Proof. unfold slice. rewrite len_take, len_drop. reflexivity. Qed.

Lemma len_zeros n : len (zeros n) = n.
Proof. unfold len, zeros. rewrite repeat_length. lia. Qed.

Lemma len_overwrite l pos bs : len (overwrite l pos bs) = N.max (len l) (pos + len bs).
Proof.
  unfold overwrite. rewrite !len_app, len_take, len_drop, !len_app, len_zeros. lia.
Qed.

Lemma len_0_nil {A} (l : list A) : len l = 0 -> l = [].
Proof. destruct l; [reflexivity|]. rewrite len_cons. lia. Qed.

Lemma len_pos_ne {A} (l : list A) : l <> [] -> 0 < len l.
Proof. destruct l; [congruence|]. rewrite len_cons. lia. Qed.

Lemma zeros_0 : zeros 0 = [].
Proof. reflexivity. Qed.

(** * take / drop over app *)

Lemma take_app_le {A} n (a c : list A) : n <= len a -> take n (a ++ c) = take n a.
Proof.
  unfold len, take. intros H. rewrite firstn_app.
  replace (N.to_nat n - length a)%nat with 0%nat by lia.
  cbn [firstn]. apply app_nil_r.
Qed.

Lemma drop_app_le {A} n (a c : list A) : n <= len a -> drop n (a ++ c) = drop n a ++ c.
Proof.
  unfold len, drop. intros H. rewrite skipn_app.
  replace (N.to_nat n - length a)%nat with 0%nat by lia.
  reflexivity.
Qed.

Lemma take_all {A} n (l : list A) : len l <= n -> take n l = l.
Proof. unfold len, take. intros H. apply firstn_all2. lia. Qed.

Lemma drop_all {A} n (l : list A) : len l <= n -> drop n l = [].
Proof. unfold len, drop. intros H. apply skipn_all2. lia. Qed.

Lemma take_app_exact {A} n (a c : list A) : n = len a -> take n (a ++ c) = a.
Proof. intros ->. rewrite take_app_le by lia. apply take_all. lia. Qed.

Lemma drop_app_exact {A} n (a c : list A) : n = len a -> drop n (a ++ c) = c.
Proof. intros ->. rewrite drop_app_le by lia. rewrite drop_all by lia. reflexivity. Qed.

Lemma drop_app_ge {A} n (a c : list A) : len a <= n -> drop n (a ++ c) = drop (n - len a) c.
Proof.
  unfold len, drop. intros H. rewrite skipn_app.
  rewrite skipn_all2 by lia. cbn [app]. f_equal. lia.
Qed.

Lemma take_drop_id {A} n (l : list A) : take n l ++ drop n l = l.
Proof. apply firstn_skipn. Qed.

Lemma drop_drop {A} n m (l : list A) : drop n (drop m l) = drop (m + n) l.
Proof.
  unfold drop. replace (N.to_nat (m + n)) with (N.to_nat m + N.to_nat n)%nat by lia.
  generalize (N.to_nat n) as a. generalize (N.to_nat m) as b. clear.
  induction b; intros a; cbn [skipn Nat.add]; [reflexivity|].
  destruct l; [destruct a; reflexivity|].
  revert a. generalize l. clear - A. induction b; intros l a; cbn [skipn Nat.add]; [reflexivity|].
  destruct l; [destruct a; reflexivity|]. apply IHb.
Qed.

(** * N-indexed nth with default 0 *)

Definition nthN (i : N) (l : list N) : N := nth (N.to_nat i) l 0.

Lemma nthN_default i l : len l <= i -> nthN i l = 0.
Proof. unfold nthN, len. intros H. apply nth_overflow. lia. Qed.

Lemma nthN_nil i : nthN i [] = 0.
Proof. apply nthN_default. rewrite len_nil. lia. Qed.

Lemma nthN_app i a b : nthN i (a ++ b) = if i <? len a then nthN i a else nthN (i - len a) b.
Proof.
  unfold nthN, len. destruct (N.ltb_spec i (N.of_nat (length a))) as [H|H].
  - rewrite app_nth1 by lia. reflexivity.
  - rewrite app_nth2 by lia. f_equal. lia.
Qed.

Lemma nthN_zeros i n : nthN i (zeros n) = 0.
Proof. unfold nthN, zeros. apply nth_repeat. Qed.

Lemma nthN_take i n l : nthN i (take n l) = if i <? n then nthN i l else 0.
Proof.
  destruct (N.ltb_spec i n) as [H|H].
  - rewrite <- (take_drop_id n l) at 2. rewrite nthN_app.
    destruct (N.ltb_spec i (len (take n l))) as [H1|H1]; [reflexivity|].
    rewrite len_take in H1.
    rewrite (nthN_default i (take n l)) by (rewrite len_take; lia).
    rewrite nthN_default; [reflexivity|]. rewrite len_drop, len_take. lia.
  - apply nthN_default. rewrite len_take. lia.
Qed.

Lemma nthN_drop i n l : nthN i (drop n l) = nthN (n + i) l.
Proof.
  destruct (N.le_gt_cases n (len l)) as [H|H].
  - rewrite <- (take_drop_id n l) at 2. rewrite nthN_app, len_take.
    destruct (N.ltb_spec (n + i) (N.min n (len l))) as [H1|H1]; [lia|].
    f_equal. lia.
  - rewrite drop_all by lia. rewrite nthN_nil. symmetry. apply nthN_default. lia.
Qed.

Lemma nthN_slice i s n l : nthN i (slice s n l) = if i <? n then nthN (s + i) l else 0.
Proof. unfold slice. rewrite nthN_take, nthN_drop. reflexivity. Qed.

Lemma nthN_pad i l k : nthN i (l ++ zeros k) = nthN i l.
Proof.
  rewrite nthN_app. destruct (N.ltb_spec i (len l)) as [H|H]; [reflexivity|].
  rewrite nthN_zeros. symmetry. apply nthN_default. lia.
Qed.

Lemma nthN_overwrite i l pos bs :
  nthN i (overwrite l pos bs) =
  if i <? pos then nthN i l
  else if i <? pos + len bs then nthN (i - pos) bs else nthN i l.
Proof.
  unfold overwrite.
  rewrite nthN_app, len_take, len_app, len_zeros, nthN_take, nthN_pad.
  destruct (N.ltb_spec i pos) as [H|H].
  - destruct (N.ltb_spec i (N.min pos (len l + (pos - len l)))) as [H1|H1]; [reflexivity|lia].
  - destruct (N.ltb_spec i (N.min pos (len l + (pos - len l)))) as [H1|H1]; [lia|].
    replace (N.min pos (len l + (pos - len l))) with pos by lia.
    rewrite nthN_app.
    destruct (N.ltb_spec (i - pos) (len bs)) as [H2|H2];
      destruct (N.ltb_spec i (pos + len bs)) as [H3|H3]; try lia; try reflexivity.
    rewrite nthN_drop, nthN_pad. f_equal. lia.
Qed.

Lemma list_ext (a b : list N) :
  len a = len b -> (forall i, i < len a -> nthN i a = nthN i b) -> a = b.
Proof.
  unfold len, nthN. intros Hl Hn.
  apply nth_ext with (d := 0) (d' := 0); [lia|].
  intros n Hlt. specialize (Hn (N.of_nat n)).
  rewrite Nat2N.id in Hn. apply Hn. lia.
Qed.

(** * overwrite: structural forms *)

Lemma overwrite_mid x y z y' :
  len y = len y' -> overwrite (x ++ y ++ z) (len x) y' = x ++ y' ++ z.
Proof.
  intros H. unfold overwrite.
  replace (len x - len (x ++ y ++ z)) with 0 by (rewrite !len_app; lia).
  rewrite zeros_0, app_nil_r.
  rewrite take_app_exact by reflexivity.
  rewrite drop_app_ge by lia.
  replace (len x + len y' - len x) with (len y) by lia.
  rewrite drop_app_exact by reflexivity. reflexivity.
Qed.

Lemma overwrite_end l y : overwrite l (len l) y = l ++ y.
Proof.
  unfold overwrite. replace (len l - len l) with 0 by lia.
  rewrite zeros_0, app_nil_r.
  rewrite take_all by lia. rewrite drop_all by lia. rewrite app_nil_r. reflexivity.
Qed.

Lemma overwrite_overwrite l pos a b :
  overwrite (overwrite l pos a) (pos + len a) b = overwrite l pos (a ++ b).
Proof.
  apply list_ext.
  - rewrite !len_overwrite, len_app. lia.
  - intros i _. rewrite !nthN_overwrite, nthN_app, len_app.
    destruct (N.ltb_spec i (pos + len a)); destruct (N.ltb_spec i pos);
      destruct (N.ltb_spec i (pos + len a + len b));
      destruct (N.ltb_spec i (pos + (len a + len b)));
      destruct (N.ltb_spec (i - pos) (len a)); try lia; try reflexivity.
    f_equal. lia.
Qed.

(** * CRC bytes and sealing *)

Lemma len_crc_bytes p : len (crc_bytes p) = 4.
Proof. unfold crc_bytes, be_bytes, len. rewrite rev_length. reflexivity. Qed.

Definition sealp (p : list N) : list N := p ++ crc_bytes p.

Lemma seal_sealp buf : seal buf = sealp (take 1020 buf).
Proof. reflexivity. Qed.

Lemma len_sealp p : len (sealp p) = len p + 4.
Proof. unfold sealp. rewrite len_app, len_crc_bytes. reflexivity. Qed.

Lemma sealp_ne p : sealp p <> [].
Proof. intros H. pose proof (len_sealp p) as L. rewrite H, len_nil in L. lia. Qed.

(** * Structure of paginate_n *)

Lemma paginate_n_cons m p c :
  len p = 1020 -> paginate_n (S m) (p ++ c) = sealp p ++ paginate_n m c.
Proof.
  intros H. cbn [paginate_n]. unfold PAYLOAD_SZ.
  rewrite take_app_exact by lia. rewrite drop_app_exact by lia.
  unfold sealp. rewrite <- app_assoc. reflexivity.
Qed.

Lemma paginate_n_app k m a c :
  len a = 1020 * N.of_nat k ->
  paginate_n (k + m) (a ++ c) = paginate_n k a ++ paginate_n m c.
Proof.
  revert a. induction k as [|k IH]; intros a H.
  - rewrite (len_0_nil a) by lia. reflexivity.
  - rewrite <- (take_drop_id 1020 a).
    rewrite <- app_assoc. cbn [Nat.add].
    rewrite !paginate_n_cons by (rewrite len_take; lia).
    rewrite IH by (rewrite len_drop; lia).
    rewrite <- app_assoc. reflexivity.
Qed.

Lemma paginate_n_len k a :
  len a = 1020 * N.of_nat k -> len (paginate_n k a) = 1024 * N.of_nat k.
Proof.
  revert a. induction k as [|k IH]; intros a H.
  - reflexivity.
  - rewrite <- (take_drop_id 1020 a).
    rewrite paginate_n_cons by (rewrite len_take; lia).
    rewrite len_app, len_sealp, len_take, IH by (rewrite len_drop; lia). lia.
Qed.

Lemma paginate_n_split k m a p c :
  len a = 1020 * N.of_nat k -> len p = 1020 ->
  paginate_n (k + S m) (a ++ p ++ c) = paginate_n k a ++ sealp p ++ paginate_n m c.
Proof.
  intros Ha Hp. rewrite paginate_n_app by assumption.
  rewrite paginate_n_cons by assumption. reflexivity.
Qed.

(** Decomposition of a padded logical stream around page [k]. *)
Lemma dl_split (dl : list N) k :
  dl = take (1020 * k) dl ++ slice (1020 * k) 1020 dl ++ drop (1020 * k + 1020) dl.
Proof.
  unfold slice. rewrite <- (drop_drop 1020 (1020 * k) dl).
  rewrite take_drop_id, take_drop_id. reflexivity.
Qed.

Section Pages.
  Variables (np k : N) (dl : list N).
  Hypothesis Hdl : len dl = 1020 * np.

  Lemma pag_len : len (paginate_n (N.to_nat np) dl) = 1024 * np.
  Proof. rewrite paginate_n_len; lia. Qed.

  Lemma pag_split : k < np ->
    paginate_n (N.to_nat np) dl =
    paginate_n (N.to_nat k) (take (1020 * k) dl) ++
    sealp (slice (1020 * k) 1020 dl) ++
    paginate_n (N.to_nat (np - k - 1)) (drop (1020 * k + 1020) dl).
  Proof.
    intros Hk. rewrite (dl_split dl k) at 1.
    replace (N.to_nat np) with (N.to_nat k + S (N.to_nat (np - k - 1)))%nat by lia.
    apply paginate_n_split.
    - rewrite len_take. lia.
    - rewrite len_slice. lia.
  Qed.

  Lemma pag_slice : k < np ->
    slice (1024 * k) 1024 (paginate_n (N.to_nat np) dl) = sealp (slice (1020 * k) 1020 dl).
  Proof.
    intros Hk. rewrite (pag_split Hk). unfold slice at 1.
    rewrite drop_app_exact by (rewrite paginate_n_len by (rewrite len_take; lia); lia).
    apply take_app_exact. rewrite len_sealp, len_slice. lia.
  Qed.

  Lemma pag_overwrite_in p : k < np -> len p = 1020 ->
    overwrite (paginate_n (N.to_nat np) dl) (1024 * k) (sealp p) =
    paginate_n (N.to_nat np) (overwrite dl (1020 * k) p).
  Proof.
    intros Hk Hp. rewrite (pag_split Hk).
    set (A := take (1020 * k) dl). set (P := slice (1020 * k) 1020 dl).
    set (C := drop (1020 * k + 1020) dl).
    assert (HA : len A = 1020 * k) by (unfold A; rewrite len_take; lia).
    assert (HP : len P = 1020) by (unfold P; rewrite len_slice; lia).
    replace (1024 * k) with (len (paginate_n (N.to_nat k) A))
      by (rewrite paginate_n_len by lia; lia).
    rewrite overwrite_mid by (rewrite !len_sealp; lia).
    rewrite (dl_split dl k) at 1. fold A P C.
    replace (1020 * k) with (len A) by assumption.
    rewrite overwrite_mid by lia.
    replace (N.to_nat np) with (N.to_nat k + S (N.to_nat (np - k - 1)))%nat by lia.
    symmetry. apply paginate_n_split; [lia | assumption].
  Qed.

  Lemma pag_overwrite_end p : len p = 1020 ->
    overwrite (paginate_n (N.to_nat np) dl) (1024 * np) (sealp p) =
    paginate_n (N.to_nat (np + 1)) (overwrite dl (1020 * np) p).
  Proof.
    intros Hp.
    replace (1024 * np) with (len (paginate_n (N.to_nat np) dl)) by apply pag_len.
    rewrite overwrite_end.
    replace (1020 * np) with (len dl) by assumption.
    rewrite overwrite_end.
    replace (N.to_nat (np + 1)) with (N.to_nat np + 1)%nat by lia.
    rewrite paginate_n_app by lia.
    f_equal. rewrite <- (app_nil_r p) at 2.
    rewrite paginate_n_cons by assumption. cbn [paginate_n]. rewrite app_nil_r. reflexivity.
  Qed.
End Pages.

(** A full padded stream that agrees with [data] everywhere is [pad_payload data]. *)
Lemma pad_payload_ext data dl :
  len dl = 1020 * pages_for (len data) ->
  (forall i, i < len dl -> nthN i dl = nthN i data) ->
  dl = pad_payload data.
Proof.
  intros Hl Hn. apply list_ext.
  - unfold pad_payload. rewrite len_app, len_zeros. unfold PAYLOAD_SZ.
    rewrite Hl. unfold pages_for, PAYLOAD_SZ. lia.
  - intros i Hi. unfold pad_payload. rewrite nthN_pad. apply Hn, Hi.
Qed.
