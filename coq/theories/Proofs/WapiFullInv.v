(** Whole writer, part 3 (dynamic): the invariant [meta_inv] - the metadata the
    state machine holds is of the kind the XML theorems accept - is kept by every
    call whose arguments are in the property's quantifier ([call_ok]: strings of
    XML characters, limits that are i64 values). *)
From Coq Require Import ZArith Lia Bool.
From Flocq Require Import Binary Bits.
From E57 Require Import Base.Prelude Base.Floats Spec.PageSpec Model.Prog Model.Record Model.PcWriter Model.FileBin
  Model.Meta Model.MetaFile Model.XmlTree Model.XmlGen Model.XmlExtract Spec.XmlRender Spec.MetaTree Spec.XgWriterOk
  Spec.XeMetaOk Model.WriterApi Model.WriterFull.
From E57 Require Import Proofs.ProgTransfer Proofs.WapiProg Proofs.WapiPc Proofs.WapiRules Proofs.WapiInv Proofs.WapiMain
  Proofs.WapiFullMeta.
From Coq Require Import ZifyN ZifyNat ZifyBool.
Open Scope N_scope.

(** * Arguments inside the property's quantifier *)
Definition pc_field_ok (f : pc_field) : Prop :=
  match f with
  | PfName v | PfDescription v | PfSensorVendor v | PfSensorModel v | PfSensorSerial v
  | PfSensorHwVersion v | PfSensorSwVersion v | PfSensorFwVersion v => opt_string_ok v = true
  | PfOriginalGuids v => opt_ok (forallb string_ok) v = true
  | PfIntensityLimits v => ofo il_ok v = true
  | PfColorLimits v => ofo cl_ok v = true
  | _ => True
  end.
Definition im_field_ok (f : im_field) : Prop :=
  match f with
  | IfName v | IfDescription v | IfPointcloudGuid v | IfSensorVendor v | IfSensorModel v | IfSensorSerial v =>
      string_ok v = true
  | _ => True
  end.
(** strings are made of characters XML can carry (no CR: XML turns it into LF); limits given by the
    caller are i64 values; the rest as [call_wf] *)
Definition call_ok (c : wcall) : Prop :=
  call_wf c /\
  match c with
  | NewWriter guid => string_ok guid = true
  | SetCoordinateMetadata v => opt_string_ok v = true
  | RegisterExtension ns url => chars_ok url = true
  | AddPointcloud guid proto => string_ok guid = true /\ forallb (fun r => float_bits_ok (r_type r)) proto = true
  | PcSet f => pc_field_ok f
  | AddImage guid => string_ok guid = true
  | ImSet f => im_field_ok f
  | _ => True
  end.

(** * The invariant *)
Definition desc_good (exts : list extension) (d : pointcloud) : Prop :=
  ext_validate_prototype (pc_prototype d) exts = Ok tt /\
  forallb (fun r => dtype_ok (r_type r)) (pc_prototype d) = true /\
  pc_strings d = true /\ ofo il_ok (pc_intensity_limits d) = true /\ ofo cl_ok (pc_color_limits d) = true /\
  proto_limits_good (pc_prototype d) = true.

Definition mm_i64 (m : mm Z) : Prop := ofo in_i64 (mm_lo m) = true /\ ofo in_i64 (mm_hi m) = true.
Definition rb_idx_ok (b : run_bounds) : Prop :=
  match rb_idx b with Some i => mm_i64 (ir_row i) /\ mm_i64 (ir_col i) /\ mm_i64 (ir_ret i) | None => True end.

Definition meta_inv (st : wstate) : Prop :=
  exts_good (ws_exts st) /\ root_good (ws_root st) /\
  Forall (pc_good (ws_exts st)) (ws_pcs st) /\
  forallb image_xml_ok (ws_imgs st) = true /\
  match ws_sub st with
  | SubNone => True
  | SubPc ps => desc_good (ws_exts st) (ps_desc ps) /\ pc_prototype (ps_desc ps) = ps_proto ps /\ rb_idx_ok (ps_bounds ps)
  | SubIm im _ => image_xml_ok im = true
  end.

Lemma std_format : rt_format root_default = STD_FORMAT_NAME.
Proof. reflexivity. Qed.

Lemma meta_inv_init : meta_inv ws_init.
Proof.
  split; [apply exts_good_nil|]. split; [|split; [constructor|split; [reflexivity|exact I]]].
  repeat split; reflexivity.
Qed.

(** * Pieces *)
Lemma desc_finish_fields d b off n :
  pc_prototype (desc_finish d b off n) = pc_prototype d /\
  pc_strings (desc_finish d b off n) = pc_strings d /\
  pc_intensity_limits (desc_finish d b off n) = pc_intensity_limits d /\
  pc_color_limits (desc_finish d b off n) = pc_color_limits d /\
  pc_index_bounds (desc_finish d b off n) = option_map idx_bounds_of (rb_idx b).
Proof. destruct d. cbn. repeat split; reflexivity. Qed.

Lemma finish_good exts d b off n : desc_good exts d -> rb_idx_ok b -> pc_good exts (desc_finish d b off n).
Proof.
  intros (H1 & H2 & H3 & H4 & H5) Hb.
  destruct (desc_finish_fields d b off n) as (F1 & F2 & F3 & F4 & F5).
  unfold pc_good. rewrite F1, F2, F3, F4, F5. repeat (split; [assumption|]).
  split; [|split; assumption].
  unfold rb_idx_ok in Hb. destruct (rb_idx b) as [i|]; [|reflexivity]. cbn [option_map ofo].
  destruct Hb as ((A1 & A2) & (B1 & B2) & (C1 & C2)).
  unfold ib_ok, idx_bounds_of. cbn [ib_row_min ib_row_max ib_column_min ib_column_max ib_return_min ib_return_max].
  rewrite A1, A2, B1, B2, C1, C2. reflexivity.
Qed.

Lemma desc_taken_good exts d : desc_good exts d -> desc_good exts (desc_taken d).
Proof.
  intros (H1 & H2 & H3 & _ & _ & H6). destruct d. cbn in *. unfold desc_good. cbn.
  split; [exact H1|]. split; [exact H2|]. split; [|split; [reflexivity|split; [reflexivity|exact H6]]].
  unfold pc_strings in *. cbn in *. repeat (apply andb_prop in H3 as [H3 ?]). rewrite H3. reflexivity.
Qed.

Lemma pc_set_good exts f d : pc_field_ok f -> desc_good exts d -> desc_good exts (pc_set f d).
Proof.
  intros Hf (H1 & H2 & H3 & H4 & H5). destruct d, f; unfold desc_good, pc_strings, pc_field_ok, opt_string_ok in *; cbn in *;
    rewrite ?andb_true_iff in *; intuition.
Qed.

Lemma accepted_dtype_ok proto : validate_prototype proto = Ok tt -> proto_i64 proto ->
  forallb (fun r => dtype_ok (r_type r)) proto = true.
Proof.
  intros H Hw. apply validate_prototype_ok in H.
  destruct H as (_ & _ & _ & _ & _ & _ & _ & _ & _ & _ & _ & _ & _ & _ & _ & _ & Hr & _).
  rewrite forallb_forall. intros p Hin. specialize (Hr p Hin). specialize (Hw p Hin).
  unfold dtype_ok, range_ok, in_i64 in *. unfold Record.in_i64, Record.I64_MIN, Record.I64_MAX in Hw.
  destruct (r_type p); try reflexivity; destruct Hw as [W1 W2]; lia.
Qed.

Lemma accepted_limits_good proto : validate_prototype proto = Ok tt ->
  forallb (fun r => float_bits_ok (r_type r)) proto = true -> proto_limits_good proto = true.
Proof.
  intros H Hb. apply validate_prototype_ok in H.
  destruct H as (_ & _ & _ & _ & _ & _ & _ & _ & _ & _ & _ & _ & _ & _ & _ & _ & _ & _ & _ & Hf).
  unfold proto_limits_good. rewrite forallb_forall in *. intros r Hr. unfold limits_good.
  rewrite (Hb r Hr), andb_true_r. apply float_limits_ok_iff. apply Hf. exact Hr.
Qed.

Lemma limits_of_type_ok t : dtype_ok t = true ->
  ofo lv_ok (fst (dtype_limits t)) = true /\ ofo lv_ok (snd (dtype_limits t)) = true.
Proof.
  destruct t as [mn mx|mn mx|mn mx s o|mn mx]; cbn [dtype_limits fst snd dtype_ok]; intros H.
  - destruct mn, mx; split; reflexivity.
  - destruct mn, mx; split; reflexivity.
  - cbn [ofo lv_ok]. apply andb_prop in H as [H _]. apply andb_prop in H as [Haq Hbq]. auto.
  - cbn [ofo lv_ok]. apply andb_prop in H as [H _]. apply andb_prop in H as [Haq Hbq]. auto.
Qed.

Lemma get_rec_in proto n r : get_rec proto n = Some r -> In r proto.
Proof. unfold get_rec. intros H. apply find_some in H as [H _]. exact H. Qed.

Lemma default_limits_ok proto cl : forallb (fun r => dtype_ok (r_type r)) proto = true ->
  default_color_limits proto = Ok cl ->
  ofo il_ok (default_intensity_limits proto) = true /\ ofo cl_ok cl = true.
Proof.
  intros Hd Hc. rewrite forallb_forall in Hd. split.
  - unfold default_intensity_limits. destruct (get_rec proto Intensity) as [r|] eqn:E; [|reflexivity].
    cbn [option_map ofo]. unfold intensity_limits_of, il_ok.
    destruct (limits_of_type_ok _ (Hd r (get_rec_in _ _ _ E))) as [Haq Hbq].
    destruct (dtype_limits (r_type r)) as [a b]. cbn [il_min il_max fst snd] in *. rewrite Haq, Hbq. reflexivity.
  - unfold default_color_limits in Hc. destruct (contains proto ColorRed); [|inversion Hc; reflexivity].
    destruct (get_rec proto ColorRed) as [r|] eqn:E1; [|discriminate].
    destruct (get_rec proto ColorGreen) as [g|] eqn:E2; [|discriminate].
    destruct (get_rec proto ColorBlue) as [b|] eqn:E3; [|discriminate].
    inversion Hc; subst. cbn [ofo]. unfold color_limits_of, cl_ok.
    destruct (limits_of_type_ok _ (Hd r (get_rec_in _ _ _ E1))) as [A1 B1].
    destruct (limits_of_type_ok _ (Hd g (get_rec_in _ _ _ E2))) as [A2 B2].
    destruct (limits_of_type_ok _ (Hd b (get_rec_in _ _ _ E3))) as [A3 B3].
    destruct (dtype_limits (r_type r)) as [a1 b1], (dtype_limits (r_type g)) as [a2 b2], (dtype_limits (r_type b)) as [a3 b3].
    cbn [cl_red_min cl_red_max cl_green_min cl_green_max cl_blue_min cl_blue_max fst snd] in *.
    rewrite A1, B1, A2, B2, A3, B3. reflexivity.
Qed.

Lemma bounds_new_idx proto : rb_idx_ok (bounds_new proto).
Proof.
  unfold rb_idx_ok, bounds_new. cbn [rb_idx]. destruct (_ || _); [|exact I].
  repeat split; reflexivity.
Qed.

(** the index bounds stay i64: every value that feeds them passed the range check of an i64 range *)
Lemma mm_upd_i64 x m : in_i64 x = true -> mm_i64 m -> mm_i64 (mm_upd_i x m).
Proof.
  intros Hx [Haq Hbq]. unfold mm_upd_i, mm_i64. cbn [mm_lo mm_hi]. split.
  - destruct (mm_lo m) as [c|]; cbn [update_min ofo] in *; [destruct (c >? x)%Z|]; assumption.
  - destruct (mm_hi m) as [c|]; cbn [update_max ofo] in *; [destruct (c <? x)%Z|]; assumption.
Qed.

Lemma update_one_idx p v b : dtype_ok (r_type p) = true ->
  values_ok [rec_dtype p] [v] = true -> rb_idx_ok b -> rb_idx_ok (fst (update_one p v b)).
Proof.
  intros Hd Hv Hb. unfold update_one. destruct (axis_of (r_name p)) as [[a|a]|]; [| |exact Hb].
  - destruct (to_f64 v (r_type p)); cbn [fst]; try exact Hb.
    destruct (fget a b); cbn [fst]; [|exact Hb]. unfold rb_idx_ok, fset in *. destruct a; exact Hb.
  - destruct (to_i64 v (r_type p)) as [x|k|] eqn:Et; cbn [fst]; try exact Hb.
    destruct (iget a b) as [m|] eqn:Eg; cbn [fst]; [|exact Hb].
    assert (Hx : in_i64 x = true).
    { destruct v; try discriminate. destruct (r_type p) eqn:Er; try discriminate. cbn in Et. inversion Et; subst.
      unfold rec_dtype in Hv. rewrite Er in Hv. cbn in Hv. cbn in Hd. unfold in_i64 in *. lia. }
    unfold rb_idx_ok, iset, iget in *. cbn [rb_idx]. destruct (rb_idx b) as [i|]; [|destruct a; discriminate].
    cbn [option_map] in *. destruct Hb as (R & C & T).
    destruct a; inversion Eg; subst; cbn [ir_row ir_col ir_ret]; (split; [|split]);
      first [assumption | apply mm_upd_i64; assumption].
Qed.

Lemma update_bounds_idx : forall proto vs b,
  forallb (fun r => dtype_ok (r_type r)) proto = true -> values_ok (proto_dtypes proto) vs = true ->
  rb_idx_ok b -> rb_idx_ok (fst (update_bounds proto vs b)).
Proof.
  induction proto as [|p pr IH]; intros vs b Hd Hv Hb; cbn [update_bounds]; [exact Hb|].
  destruct vs as [|v vr]; [exact Hb|].
  cbn [forallb] in Hd. apply andb_prop in Hd as [Hd1 Hd2].
  cbn [proto_dtypes map values_ok] in Hv. apply andb_prop in Hv as [Hv1 Hv2].
  assert (H1 : rb_idx_ok (fst (update_one p v b))).
  { apply update_one_idx; [exact Hd1| |exact Hb]. cbn [values_ok]. rewrite Hv1. reflexivity. }
  destruct (update_one p v b) as [b1 [[]|k|]]; cbn [fst] in *; try exact H1.
  apply IH; assumption.
Qed.

Lemma im_set_xml f im : im_field_ok f -> image_xml_ok im = true -> image_xml_ok (im_set f im) = true.
Proof.
  intros Hf H. destruct im, f; unfold image_xml_ok, im_field_ok, opt_string_ok, opt_ok in *; cbn in *;
    rewrite ?andb_true_iff in *; intuition.
Qed.
Lemma im_set_visual_xml v im : image_xml_ok (im_set_visual v im) = image_xml_ok im.
Proof. destruct im; reflexivity. Qed.
Lemma im_set_projection_xml p im : image_xml_ok (im_set_projection p im) = image_xml_ok im.
Proof. destruct im; reflexivity. Qed.

(** * The step *)
Section Step.
Variable gen_xml : file_meta -> res (list N).
Variable lib_version : xstring.
Hypothesis gen_xml_total : forall m, gen_xml m <> Panic.
Hypothesis lib_version_ok : string_ok lib_version = true.

Theorem meta_step : forall st l c l' st' r, ws_inv st l -> meta_inv st -> call_ok c ->
  wrun_spec (wapi_step gen_xml lib_version st c) l = (l', Ok (st', r)) -> meta_inv st'.
Proof.
  intros st l c l' st' r Hws Hm [Hwf Hok] Hrun.
  destruct (wapi_step_ok gen_xml lib_version gen_xml_total st l c Hws Hwf) as (l1 & st1 & r1 & Hrun1 & _ & _ & Herr).
  rewrite Hrun in Hrun1. inversion Hrun1; subst l1 st1 r1. clear Hrun1.
  (* a call that returned an error changed nothing *)
  assert (Hsame : forall k, r = CrErr k -> meta_inv st') by (intros k E; destruct (Herr k E) as [-> _]; exact Hm).
  pose proof Hm as Hm0.
  destruct Hm as (He & Hr & Hp & Hi & Hs). pose proof Hws as [Hlok Hsub].
  Ltac mk He Hr Hp Hi := split; [exact He|]; split; [exact Hr|]; split; [exact Hp|]; split; [exact Hi|].
  unfold wapi_step in Hrun. destruct (ws_open st) eqn:Eo; cbn [negb] in Hrun.
  2:{ destruct c; try (cbn [wret wrun_spec] in Hrun; inversion Hrun; subst; exact Hm0).
      rewrite run_bind, wrun_spec_wtry in Hrun.
      destruct (snd (wrun_spec writer_init l)); cbn [fst snd wret wrun_spec] in Hrun; inversion Hrun; subst;
        [|exact Hm0].
      split; [apply exts_good_nil|]. split; [|split; [constructor|split; [reflexivity|exact I]]].
      cbn [ws_root]. unfold root_good. cbn. repeat split; try reflexivity; assumption. }
  destruct (ws_sub st) as [|ps|im fin] eqn:Esub.
  - destruct c; try (cbn [wret wrun_spec] in Hrun; inversion Hrun; subst; exact Hm0).
    + (* SetCoordinateMetadata *)
      destruct (ws_root st) eqn:Er. cbn [wret wrun_spec] in Hrun. inversion Hrun; subst.
      destruct Hr as (R1 & R2 & R3 & R4 & R5). cbn in *.
      split; [exact He|]. split; [repeat split; assumption|]. split; [exact Hp|]. split; [exact Hi|exact I].
    + destruct (ws_root st) eqn:Er. cbn [wret wrun_spec] in Hrun. inversion Hrun; subst.
      destruct Hr as (R1 & R2 & R3 & R4 & R5). cbn in *.
      split; [exact He|]. split; [repeat split; assumption|]. split; [exact Hp|]. split; [exact Hi|exact I].
    + (* RegisterExtension *)
      destruct (validate_name ns >> validate_name_start ns >> validate_url url) as [[]|k|] eqn:Ev;
        [|cbn [wret wrun_spec] in Hrun; inversion Hrun; subst; apply (Hsame k eq_refl)|cbn in Hrun; inversion Hrun].
      apply seq_res_ok in Ev as [E1 Ev]. apply seq_res_ok in Ev as [E2 E3].
      destruct (url_registered (ws_exts st) url) eqn:Eu; [cbn [wret wrun_spec] in Hrun; inversion Hrun; subst; apply (Hsame _ eq_refl)|].
      destruct (ext_registered (ws_exts st) ns) eqn:En; [cbn [wret wrun_spec] in Hrun; inversion Hrun; subst; apply (Hsame _ eq_refl)|].
      cbn [wret wrun_spec] in Hrun. inversion Hrun; subst. unfold meta_inv; cbn [set_sub ws_exts ws_root ws_pcs ws_imgs ws_sub].
      split; [apply exts_good_snoc; assumption|]. split; [exact Hr|].
      split; [|split; [exact Hi|exact I]].
      rewrite Forall_forall in *. intros pc Hin. apply pc_good_mono. apply Hp. exact Hin.
    + (* AddBlob *)
      destruct (ws_finalized st); [cbn [wret wrun_spec] in Hrun; inversion Hrun; subst; exact Hm0|].
      rewrite run_bind, wrun_spec_wtry in Hrun.
      destruct (snd (wrun_spec (blob_write data) l)) as [[o n]|k|]; cbn [fst snd wret wrun_spec] in Hrun; inversion Hrun; subst;
        exact Hm0.
    + (* AddPointcloud *)
      destruct (ws_finalized st); [cbn [wret wrun_spec] in Hrun; inversion Hrun; subst; exact Hm0|].
      rewrite run_bind in Hrun.
      destruct (pc_new_step (ws_exts st) guid proto l Hlok Hwf)
        as [(k & H1)|(l2 & ps & H1 & _ & _ & _ & Hpp & Hev & Hv & _ & Hb & (cl & Hcl & Hd) & _)];
        rewrite H1 in Hrun; cbn [fst snd wret wrun_spec] in Hrun; inversion Hrun; subst.
      * exact Hm0.
      * unfold meta_inv; cbn [set_sub ws_exts ws_root ws_pcs ws_imgs ws_sub]. mk He Hr Hp Hi.
        pose proof (accepted_dtype_ok (ps_proto ps) Hv Hwf) as Hdt.
        destruct (default_limits_ok (ps_proto ps) cl Hdt Hcl) as [L1 L2].
        rewrite Hd, Hb. split; [|split; [reflexivity|apply bounds_new_idx]].
        destruct Hok as [Hok Hfb].
        unfold desc_good, desc_new, pc_strings. cbn. rewrite Hok.
        split; [exact Hev|]. split; [exact Hdt|]. split; [reflexivity|]. split; [assumption|]. split; [assumption|].
        apply accepted_limits_good; assumption.
    + (* AddImage *)
      destruct (ws_finalized st); [cbn [wret wrun_spec] in Hrun; inversion Hrun; subst; exact Hm0|].
      cbn [wret wrun_spec] in Hrun. inversion Hrun; subst. unfold meta_inv; cbn [set_sub ws_exts ws_root ws_pcs ws_imgs ws_sub].
      mk He Hr Hp Hi. unfold image_xml_ok, image_new. cbn. rewrite Hok. reflexivity.
    + (* Finalize *)
      destruct (ws_finalized st); [cbn [wret wrun_spec] in Hrun; inversion Hrun; subst; exact Hm0|].
      destruct (gen_xml (ws_meta st)) as [xml|k|]; [|cbn in Hrun; inversion Hrun; subst; exact Hm0|cbn in Hrun; inversion Hrun].
      rewrite run_bind, wrun_spec_wtry in Hrun.
      destruct (snd (wrun_spec (writer_finalize xml) l)); cbn [fst snd wret wrun_spec] in Hrun; inversion Hrun; subst;
        [|exact Hm0].
      unfold meta_inv; cbn [set_sub ws_exts ws_root ws_pcs ws_imgs ws_sub]. mk He Hr Hp Hi. exact I.
  - (* point cloud writer *)
    destruct Hs as (Hd & Hpr & Hbi).
    destruct c; try (cbn [wret wrun_spec] in Hrun; inversion Hrun; subst; exact Hm0).
    + (* PcSet *)
      cbn [wret wrun_spec] in Hrun. inversion Hrun; subst. unfold meta_inv; cbn [set_sub ws_exts ws_root ws_pcs ws_imgs ws_sub ps_desc ps_proto ps_bounds].
      mk He Hr Hp Hi.
      split; [apply pc_set_good; assumption|]. split; [|exact Hbi].
      rewrite <- Hpr. destruct (ps_desc ps), f; reflexivity.
    + (* PcAddPoint *)
      rewrite run_bind in Hrun.
      destruct (wrun_spec (pc_add_point values ps) l) as [la [[ps1 r0]|k|]] eqn:E1; cbn [fst snd wret wrun_spec] in Hrun;
        inversion Hrun; subst.
      assert (Hcase : r = CrOk \/ exists k, r = CrErr k).
      { clear - E1. unfold pc_add_point in E1.
        destruct (ps_finalized ps); [cbn in E1; inversion E1; eauto|].
        destruct (negb _); [cbn in E1; inversion E1; eauto|].
        destruct (update_bounds _ _ _) as [b1 [[]|k|]]; [|cbn in E1; inversion E1; eauto|cbn in E1; inversion E1].
        rewrite run_bind, wrun_spec_wtry in E1.
        destruct (snd (wrun_spec (pcw_add_point values (ps_w ps)) l)); cbn [fst snd wret wrun_spec] in E1; inversion E1; eauto. }
      destruct Hcase as [->|(k & ->)]; [|apply (Hsame _ eq_refl)].
      destruct (pc_add_point_ok_inv values ps l l' ps1 E1) as (_ & Hv & b1 & w' & Hub & -> & _).
      unfold meta_inv; cbn [set_sub ws_exts ws_root ws_pcs ws_imgs ws_sub ps_desc ps_proto ps_bounds]. mk He Hr Hp Hi.
      split; [exact Hd|]. split; [exact Hpr|].
      destruct Hsub as (Hwp & _). rewrite Hwp in Hv.
      destruct Hd as (_ & Hdt & _). rewrite Hpr in Hdt.
      pose proof (update_bounds_idx (ps_proto ps) values (ps_bounds ps) Hdt Hv Hbi) as Hb1.
      rewrite Hub in Hb1. exact Hb1.
    + (* PcFinalize *)
      destruct (pc_finalize_step ps l Hsub Hlok) as [(Hfin & H1)|(Hfin & Hcl & l2 & ps2 & d & H1 & _ & _ & _ & Hdd)];
        rewrite run_bind, H1 in Hrun; cbn [fst snd wret wrun_spec] in Hrun; inversion Hrun; subst.
      * apply (Hsame _ eq_refl).
      * unfold meta_inv; cbn [set_sub ws_exts ws_root ws_pcs ws_imgs ws_sub].
        split; [exact He|]. split; [exact Hr|].
        split; [apply Forall_app; split; [exact Hp|constructor; [apply finish_good; assumption|constructor]]|].
        split; [exact Hi|].
        unfold pc_finalize in H1. rewrite Hfin, Hcl in H1. cbn [negb] in H1. rewrite run_bind, wrun_spec_wtry in H1.
        destruct (snd (wrun_spec (pcw_finalize (ps_w ps)) l)) as [[[w2 off] cnt]|k|]; cbn [fst snd wret wrun_spec] in H1;
          inversion H1; subst. cbn [ps_desc ps_proto ps_bounds].
        split; [apply desc_taken_good; exact Hd|]. split; [destruct (ps_desc ps); cbn in *; exact Hpr|].
        unfold rb_idx_ok. cbn. exact I.
    + (* PcDrop *)
      cbn [wret wrun_spec] in Hrun. inversion Hrun; subst. unfold meta_inv; cbn [set_sub ws_exts ws_root ws_pcs ws_imgs ws_sub].
      mk He Hr Hp Hi. exact I.
  - (* image writer *)
    assert (Proj : forall data mask mk0,
      wrun_spec (im_add_projection st im fin data mask mk0) l = (l', Ok (st', r)) -> meta_inv st').
    { intros data mask mk0 H. unfold im_add_projection in H.
      destruct fin; [cbn [wret wrun_spec] in H; inversion H; subst; exact Hm0|].
      destruct (has_projection im); [cbn [wret wrun_spec] in H; inversion H; subst; exact Hm0|].
      rewrite run_bind, wrun_spec_wtry in H.
      destruct (snd (wrun_spec (im_blobs data mask) l)) as [[b m]|k|]; cbn [fst snd wret wrun_spec] in H; inversion H; subst;
        [|exact Hm0].
      unfold meta_inv; cbn [set_sub ws_exts ws_root ws_pcs ws_imgs ws_sub]. mk He Hr Hp Hi.
      rewrite im_set_projection_xml. exact Hs. }
    destruct c; try (cbn [wret wrun_spec] in Hrun; inversion Hrun; subst; exact Hm0); try (apply (Proj _ _ _ Hrun)).
    + cbn [wret wrun_spec] in Hrun. inversion Hrun; subst. unfold meta_inv; cbn [set_sub ws_exts ws_root ws_pcs ws_imgs ws_sub].
      mk He Hr Hp Hi. apply im_set_xml; assumption.
    + destruct fin; [cbn [wret wrun_spec] in Hrun; inversion Hrun; subst; exact Hm0|].
      rewrite run_bind, wrun_spec_wtry in Hrun.
      destruct (snd (wrun_spec (im_blobs data mask) l)) as [[b m]|k|]; cbn [fst snd wret wrun_spec] in Hrun; inversion Hrun; subst;
        [|exact Hm0].
      unfold meta_inv; cbn [set_sub ws_exts ws_root ws_pcs ws_imgs ws_sub]. mk He Hr Hp Hi.
      rewrite im_set_visual_xml. exact Hs.
    + (* ImFinalize *)
      destruct fin; [cbn [wret wrun_spec] in Hrun; inversion Hrun; subst; exact Hm0|].
      destruct (im_visual_reference im), (im_projection im); cbn [wret wrun_spec] in Hrun; inversion Hrun; subst;
        try exact Hm0;
        unfold meta_inv; cbn [set_sub ws_exts ws_root ws_pcs ws_imgs ws_sub]; (split; [exact He|]; split; [exact Hr|]; split; [exact Hp|];
          split; [rewrite forallb_app, Hi; cbn [forallb]; rewrite Hs; reflexivity|exact Hs]).
    + (* ImDrop *)
      cbn [wret wrun_spec] in Hrun. inversion Hrun; subst. unfold meta_inv; cbn [set_sub ws_exts ws_root ws_pcs ws_imgs ws_sub].
      mk He Hr Hp Hi. exact I.
Qed.

Theorem meta_run : forall calls st l l' st' rs, ws_inv st l -> meta_inv st -> Forall call_ok calls ->
  wrun_spec (wapi_run gen_xml lib_version st calls) l = (l', Ok (st', rs)) -> meta_inv st'.
Proof.
  induction calls as [|c r IH]; intros st l l' st' rs Hws Hm Hok Hrun.
  - cbn [wapi_run wret wrun_spec] in Hrun. inversion Hrun; subst. exact Hm.
  - inversion Hok as [|? ? Hc Hr]; subst. pose proof Hc as [Hwf _].
    destruct (wapi_step_ok gen_xml lib_version gen_xml_total st l c Hws Hwf) as (l1 & st1 & x & Hrun1 & Hws1 & _ & _).
    cbn [wapi_run] in Hrun. rewrite run_bind, Hrun1 in Hrun. cbn [fst snd] in Hrun. rewrite run_bind in Hrun.
    destruct (wrun_spec (wapi_run gen_xml lib_version st1 r) l1) as [l2 [[st2 xs]|k|]] eqn:E2; cbn [fst snd wret wrun_spec] in Hrun;
      inversion Hrun; subst.
    apply (IH st1 l1 l' st' xs Hws1 (meta_step _ _ _ _ _ _ Hws Hm Hc Hrun1) Hr E2).
Qed.
End Step.
