(** Whole writer, part 4: the composed theorem.  A complete program in which
    every call returned Ok leaves a file that the reader model opens, whose XML
    parses and extracts to exactly the descriptors the state machine holds, and
    from which every point cloud and every blob is read back exactly.
    Composition of: the program is [file_prog] (WapiFullProg), the binary round
    trip (FileRtMain.file_roundtrip), the metadata invariant (WapiFullInv), its
    translation into the XML theorems' hypotheses (WapiFullMeta), and the
    metadata round trip (C04Compose.metadata_roundtrip). *)
From Coq Require Import ZArith Lia Bool.
From E57 Require Import Base.Prelude Base.Floats Model.Crc Model.Device Model.PagedWriter Model.PagedReader
  Spec.PageSpec Model.Prog Model.Record Model.QueueReader Model.PcWriter Model.FileBin Model.ReaderOpen
  Model.Meta Model.MetaFile Model.XmlTree Model.XmlGen Model.XmlParse Model.XmlExtract Spec.XmlRender Spec.MetaTree
  Spec.XgWriterOk Spec.XeMetaOk Model.WriterApi Model.WriterFull.
From E57 Require Import Proofs.PageSpecLemmas Proofs.PagedWriterProofs Proofs.ProgTransfer Proofs.FileRtWriter Proofs.FileRtMain
  Proofs.XgTotal Proofs.C04Compose
  Proofs.WapiProg Proofs.WapiRules Proofs.WapiInv Proofs.WapiMain Proofs.WapiFullProg Proofs.WapiFullMeta Proofs.WapiFullInv.
From Coq Require Import ZifyN ZifyNat ZifyBool.
Open Scope N_scope.

(** an item is read back from the opened file: a blob by [blob_read] through its published
    descriptor, a point cloud by the raw iterator through (offset, record count, types), from
    every state the opened reader can be in *)
Definition reads_back (rs : pr) (i : FileBin.item) (o : FileBin.item_out) : Prop :=
  match i, o with
  | IBlob data, OBlob off l =>
      l = len data /\
      forall ops, snd (rrun (blob_read (pr_log_size rs) off l) (fst (pr_run ops rs))) = Ok data
  | IPc proto points, OPc off n =>
      n = len points /\
      forall ops fuel, (length points < fuel)%nat ->
        snd (rrun (rbind (raw_new off n proto) (fun it => raw_collect fuel (pr_log_size rs) it []))
                  (fst (pr_run ops rs))) = Ok points
  | _, _ => False
  end.

Section Full.
Variables fmt64 fmt32 : N -> xstring.
Variables pf64 pf32 : xstr -> option N.
Variable fdiv : N -> Z -> N.
Variable version : xstring.
(** Rust's Display / FromStr of floats, as far as they are used *)
Hypothesis plain64 : forall b, plain_text (fmt64 b) = true.
Hypothesis plain32 : forall b, plain_text (fmt32 b) = true.
Hypothesis back64 : forall b, pf64 (fmt64 b) = Some (canon64 b).
Hypothesis back32 : forall b, pf32 (fmt32 b) = Some (canon32 b).
Hypothesis version_ok : string_ok (lib_version_text version) = true.

Notation G := (gen_xml_full fmt64 fmt32).
Notation L := (lib_version_text version).

Lemma gen_full_total : forall m, G m <> Panic.
Proof.
  intros m. unfold gen_xml_full. destruct (gen_root_cases (fill_meta fmt64 fmt32 m)) as [[_ ->]|[_ (bs & ->)]]; discriminate.
Qed.

Theorem accepted_reads_back : forall guid tops s st rs,
  units tops ->
  Forall call_ok (NewWriter guid :: tops ++ [Finalize]) ->
  wrun (writer_run fmt64 fmt32 version (NewWriter guid :: tops ++ [Finalize])) pw0 = (s, Ok (st, rs)) ->
  Forall res_ok rs ->
  forallb pc_u64 (ws_pcs st) = true -> forallb im_ok (ws_imgs st) = true ->
  len (ws_exts st) < 65535 ->
  (forall xml, gen_root (fill_meta fmt64 fmt32 (ws_meta st)) = Ok xml -> len xml <= MAX_XML_SIZE) ->
  len (d_bytes (pw_dev (fst (pw_flush s)))) < 2 ^ 64 ->
  exists is os xml bl,
    explains tops is os (ws_pcs st) (ws_imgs st) bl /\
    gen_root (fill_meta fmt64 fmt32 (ws_meta st)) = Ok xml /\
    snd (pw_flush s) = Ok tt /\
    let f := d_bytes (pw_dev (fst (pw_flush s))) in
    all_pages_valid f = true /\
    exists rs0 h d',
      reader_open (dev_init f None) = (d', Ok (rs0, h, xml)) /\
      read_meta pf64 pf32 fdiv xml = Ok (reader_view (fill_meta fmt64 fmt32 (ws_meta st))) /\
      Forall2 (reads_back rs0) is os.
Proof.
  intros guid tops s st rs Hu Hcalls Hrun Hok Hu64 Himok Hext Hxmlsz Hfsz.
  set (calls := NewWriter guid :: tops ++ [Finalize]) in *.
  set (p := writer_run fmt64 fmt32 version calls) in *.
  (* device <-> logical stream *)
  destruct (wrun_image _ p) as (Hres & Hfl & Himg). rewrite Hrun in Hres, Hfl, Himg. cbn [fst snd] in Hres, Hfl, Himg.
  destruct (wrun_spec p ls_init) as [l r] eqn:Espec. cbn [fst snd] in Hres, Himg. subst r.
  (* the calls are values of their types *)
  assert (Hwf : Forall call_wf calls) by (rewrite Forall_forall in *; intros c Hc; apply (Hcalls c Hc)).
  assert (Hwft : Forall call_wf tops).
  { subst calls. apply Forall_inv_tail in Hwf. apply Forall_app in Hwf as [H _]. exact H. }
  (* the program *)
  destruct (complete_prog G L guid tops l st rs Hu Hwft Espec Hok)
    as (is & os & xml & bl & st1 & Hex & Hgen & Hmeta & _ & Hfp).
  rewrite <- Hmeta in Hgen. unfold gen_xml_full in Hgen.
  pose proof (explains_limits_complete _ _ _ _ _ _ Hex) as Hlc.
  (* the metadata *)
  pose proof (meta_run G L gen_full_total version_ok calls ws_init ls_init l st rs ws_inv_init meta_inv_init Hcalls Espec)
    as (He & Hr & Hp & Hi & _).
  destruct (meta_final fmt64 fmt32 plain64 plain32 (ws_meta st) He Hext Hr Hp Hi Hlc Hu64 Himok) as (M1 & M2 & M3).
  pose proof (float_oracle_fill fmt64 fmt32 pf64 pf32 back64 back32 (ws_meta st)) as M4.
  destruct (metadata_roundtrip pf64 pf32 fdiv _ xml M1 M2 M3 M4 Hgen) as (_ & Hparse & Hread).
  assert (Hne : xml <> []).
  { intros ->. assert (E : xml_parse [] = ParseErr) by (vm_compute; reflexivity). rewrite E in Hparse. discriminate. }
  (* the binary round trip of [file_prog is xml] *)
  assert (Hfin : final_stream is xml = l) by (unfold final_stream; rewrite Hfp; reflexivity).
  assert (Hlenf : len (d_bytes (pw_dev (fst (pw_flush s)))) = ls_phys_size l).
  { rewrite Himg, len_paginate. reflexivity. }
  destruct (file_roundtrip_xml is xml (explains_items_wf _ _ _ _ _ _ Hex) Hne (Hxmlsz xml Hgen))
    as (outs & s' & Hrun' & Hfl' & Hrest); [rewrite Hfin; lia|].
  cbv zeta in Hrest. destruct Hrest as (_ & _ & Hvalid & rs0 & h & d' & Hopen & _ & _ & _ & _ & _ & _ & _ & Hitems).
  (* same file, same outputs *)
  destruct (wrun_image _ (file_prog is xml)) as (Hres2 & _ & Himg2).
  rewrite Hrun', Hfp in Hres2, Himg2. cbn [fst snd] in Hres2, Himg2. inversion Hres2; subst outs.
  assert (Hsame : d_bytes (pw_dev (fst (pw_flush s'))) = d_bytes (pw_dev (fst (pw_flush s)))) by congruence.
  rewrite Hsame in Hvalid, Hopen.
  exists is, os, xml, bl. split; [exact Hex|]. split; [exact Hgen|]. split; [exact Hfl|]. cbv zeta.
  split; [exact Hvalid|]. exists rs0, h, d'. split; [exact Hopen|]. split; [exact Hread|].
  clear - Hitems. induction Hitems as [|i o is' os' Hio _ IH]; constructor; [|exact IH].
  destruct i, o; exact Hio.
Qed.

End Full.
