(** C15, part 4: the shape of the device write sequence of the whole writer program.
    Every write before the final header patch is a whole page whose page-0 instances carry zeros
    in the XML offset / length fields; if the program succeeds, the sequence ends with two
    identical writes of the final page 0 (the explicit flush of [finalize], the flush of Drop). *)
From E57 Require Import Base.Prelude Model.Crc Model.Device Model.PagedWriter Spec.PageSpec Model.Prog
  Model.PcWriter Model.FileBin Model.CrashImage.
From E57 Require Import Proofs.PagedWriterLemmas Proofs.PagedWriterProofs Proofs.ProgTransfer
  Proofs.CrashLog Proofs.CrashSafe.
From Coq Require Import ZifyN ZifyNat ZifyBool.
Ltac Zify.zify_post_hook ::= Z.div_mod_to_equations.
Local Open Scope monad_scope.

Local Arguments overwrite : simpl never.
Local Arguments seal : simpl never.
Local Arguments take : simpl never.
Local Arguments drop : simpl never.
Local Arguments slice : simpl never.
Local Arguments zeros : simpl never.
Local Arguments len : simpl never.
Local Arguments paginate_n : simpl never.
Local Arguments crc_bytes : simpl never.
Local Arguments pw_lift : simpl never.
Local Arguments pw_read_current_page : simpl never.
Local Arguments pw_physical_size : simpl never.
Local Arguments pw_physical_seek : simpl never.
Local Arguments pw_flush : simpl never.
Local Arguments pw_write_all : simpl never.

Definition hdr (pl xo xl : N) : list N := concat (header_fields pl xo xl).
Definition hdr0 : list N := hdr 0 0 0.

Lemma len_hdr pl xo xl : len (hdr pl xo xl) = 48.
Proof. reflexivity. Qed.

(** * Generalities *)

Lemma R_wrun A (p : wprog A) s l :
  R s l -> R (fst (wrun p s)) (fst (wrun_spec p l)) /\ snd (wrun p s) = snd (wrun_spec p l).
Proof.
  intros HR. destruct (wrun_R A p s l HR) as (Hres & ops & H1 & H2).
  split; [|exact Hres]. rewrite H1, H2. apply R_run. exact HR.
Qed.

Lemma fst_ignore_err {S A} (m : M S A) s : fst (ignore_err m s) = fst (m s).
Proof. unfold ignore_err. destruct (m s) as [s1 [a|e|]]; reflexivity. Qed.

Lemma replay_step o s : replay_ok (pw_dev s) -> replay_ok (pw_dev (fst (pw_step o s))).
Proof. apply (pinv_step replay_ok replay_meta replay_write). Qed.

Lemma replay_run A (p : wprog A) s : replay_ok (pw_dev s) -> replay_ok (pw_dev (fst (wrun p s))).
Proof. apply (pinv_wrun replay_ok replay_meta replay_write). Qed.

(** the logical stream only grows, and behind-the-header programs keep the first 48 bytes *)
Lemma ls_step_len o l : len (ls_data l) <= len (ls_data (fst (ls_step o l))).
Proof.
  destruct o as [wr|p| | | | ]; cbn [ls_step fst]; try lia.
  - destruct wr; cbn [ls_write ls_data]; [lia|rewrite len_overwrite; lia].
  - repeat match goal with |- context [if ?x then _ else _] => destruct x end; cbn [fst ls_data]; lia.
  - destruct (zeros _); cbn [ls_write ls_data]; [lia|rewrite len_overwrite; lia].
Qed.

Lemma ls_step_prefix o l j : 48 <= ls_pos l -> j < 48 ->
  nthN j (ls_data (fst (ls_step o l))) = nthN j (ls_data l).
Proof.
  intros Hp Hj.
  assert (Hw : forall bs, nthN j (ls_data (ls_write l bs)) = nthN j (ls_data l)).
  { intros bs. destruct bs; cbn [ls_write ls_data]; [reflexivity|].
    rewrite nthN_overwrite. destruct (N.ltb_spec j (ls_pos l)); [reflexivity|lia]. }
  destruct o as [wr|p| | | | ]; cbn [ls_step fst]; try reflexivity; try apply Hw.
  repeat match goal with |- context [if ?x then _ else _] => destruct x end; reflexivity.
Qed.

Lemma wsp_prefix A (p : wprog A) : forall l (Q : A -> lstream -> Prop), wsp p l Q ->
  len (ls_data l) <= len (ls_data (fst (wrun_spec p l))) /\
  forall j, j < 48 -> nthN j (ls_data (fst (wrun_spec p l))) = nthN j (ls_data l).
Proof.
  induction p as [a|k| |o k IH]; intros l Q H; cbn [wrun_spec fst]; try (split; [lia|reflexivity]).
  cbn [wsp] in H. destruct H as [Hp H].
  pose proof (ls_step_len o l) as Hl. pose proof (fun j => ls_step_prefix o l j Hp) as Hn.
  destruct (ls_step o l) as [l1 x]. cbn [fst snd] in *.
  destruct (IH x l1 Q H) as [Hl1 Hn1]. split; [lia|].
  intros j Hj. rewrite Hn1, Hn by assumption. reflexivity.
Qed.

(** * Small writes inside the page buffer do not reach the device *)

Lemma ls_write_app l a b : ls_write (ls_write l a) b = ls_write l (a ++ b).
Proof.
  destruct a as [|x a]; [reflexivity|].
  destruct b as [|y b]; [rewrite app_nil_r; reflexivity|].
  rewrite (ls_write_ne l (x :: a)) by discriminate.
  rewrite (ls_write_ne _ (y :: b)) by discriminate.
  rewrite (ls_write_ne l ((x :: a) ++ y :: b)) by discriminate.
  cbn [ls_data ls_pos]. rewrite overwrite_overwrite, len_app. f_equal. lia.
Qed.

Lemma wr_all_spec : forall chunks l,
  wrun_spec (wr_all chunks) l = (ls_write l (concat chunks), Ok tt).
Proof.
  induction chunks as [|c r IH]; intros l; cbn [wr_all concat]; [reflexivity|].
  cbn [wr w_write wop_ wbind wrun_spec ls_step wlift res_map]. rewrite IH, ls_write_app. reflexivity.
Qed.

Lemma small_write_keeps_log s l data :
  R s l -> ls_pos l mod 1020 + len data < 1020 ->
  d_log (pw_dev (fst (pw_step (PwWrite data) s))) = d_log (pw_dev s).
Proof.
  intros HR Hsmall. cbn [pw_step]. rewrite fst_bind_ret, fst_relabel.
  R_elim HR s l. cbn [ls_pos] in Hsmall. cbn [pw_dev d_log].
  destruct HR as [Hb Hdl Hc Hpg Hoff Hbuf Hpos Hbd Hdd Hpages].
  assert (Ho : off = pos mod 1020) by lia.
  unfold pw_write_all. destruct data as [|x r]; [reflexivity|].
  set (data := x :: r) in *.
  change (pw_write_all_loop (S (length data)) data) with
    (bind (pw_write data) (fun n => if n =? 0 then fail EIo else pw_write_all_loop (length data) (drop n data))).
  assert (Hlen : 0 < len data) by (unfold data; rewrite len_cons; lia).
  pose proof (v_write_part b c o lg off buf data ltac:(lia)) as V. cbv zeta in V.
  replace (N.min (len data) (1020 - off)) with (len data) in V by lia.
  specialize (V ltac:(lia)). unfold bind. rewrite V.
  destruct (N.eqb_spec (len data) 0) as [E|_]; [lia|].
  rewrite drop_all by lia.
  destruct (length data); reflexivity.
Qed.

Lemma wr_all_keeps_log : forall chunks s l,
  R s l -> ls_pos l mod 1020 + len (concat chunks) < 1020 ->
  d_log (pw_dev (fst (wrun (wr_all chunks) s))) = d_log (pw_dev s).
Proof.
  induction chunks as [|c r IH]; intros s l HR Hsmall; cbn [wr_all]; [reflexivity|].
  cbn [concat] in Hsmall. rewrite len_app in Hsmall.
  cbn [wr w_write wop_ wbind wrun].
  pose proof (small_write_keeps_log s l c HR ltac:(lia)) as Hk.
  destruct (R_step (PwWrite c) s l HR) as (s1 & V & HR1). rewrite V in Hk |- *. cbn [fst] in Hk.
  cbn [ls_step snd fst wlift res_map wbind] in *.
  rewrite (IH s1 (ls_write l c) HR1); [exact Hk|].
  rewrite ls_pos_write. lia.
Qed.

(** * Sealing *)

Lemma seal_idem buf : len buf = 1024 -> seal (seal buf) = seal buf.
Proof.
  intros Hb. rewrite !seal_sealp. unfold sealp at 2.
  rewrite take_app_exact by (rewrite len_take; lia). reflexivity.
Qed.

Lemma seal_crc buf : len buf = 1024 -> drop 1020 (seal buf) = crc_bytes (take 1020 (seal buf)).
Proof.
  intros Hb. rewrite seal_sealp. unfold sealp.
  rewrite drop_app_exact, take_app_exact by (rewrite len_take; lia). reflexivity.
Qed.

(** * [finalize] and Drop from any state behind the header *)

Section Finalize.
  Variables (s2 : pw) (l2 : lstream) (xml : list N).
  Hypothesis HR : R s2 l2.
  Hypothesis Hpos : 48 <= ls_pos l2.
  Hypothesis Hz : z2440 (ls_data l2).
  Hypothesis Hlog : log_ok (d_log (pw_dev s2)).
  Hypothesis Hrep : replay_ok (pw_dev s2).

  Let l4 := ls_write l2 xml.
  Let data4 := ls_data l4.
  Let xo := phys_of_log (ls_pos l2).
  Let pl := ls_phys_size l4.
  Let data7 := overwrite data4 0 (hdr pl xo (len xml)).

  Lemma finalize_shape :
    snd (wrun (writer_finalize xml) s2) = Ok tt /\
    exists lg6 P0,
      d_log (pw_dev (fst (pw_drop (fst (wrun (writer_finalize xml) s2))))) = (0, P0) :: (0, P0) :: lg6 /\
      log_ok lg6 /\
      apply_writes (rev lg6) = paginate data4 /\
      d_bytes (pw_dev (fst (pw_drop (fst (wrun (writer_finalize xml) s2))))) = paginate data7 /\
      len P0 = 1024 /\ (forall j, j < 1020 -> nthN j P0 = nthN j data7) /\
      drop 1020 P0 = crc_bytes (take 1020 P0).
  Proof.
    unfold writer_finalize. cbn [wbind w_position w_size wop wrun].
    (* physical_position *)
    destruct (R_step PwPosition s2 l2 HR) as (s3 & V3 & HR3). rewrite V3.
    destruct (log_ok_step PwPosition s2 l2 HR ltac:(lia) Hz Hlog) as [Hlog3 _].
    pose proof (replay_step PwPosition s2 Hrep) as Hrep3.
    rewrite V3 in Hlog3, Hrep3. cbn [fst] in Hlog3, Hrep3.
    cbn [ls_step fst snd wlift wbind wr w_write wop_ wrun] in *.
    (* write_all(xml) *)
    destruct (R_step (PwWrite xml) s3 l2 HR3) as (s4 & V4 & HR4). rewrite V4.
    destruct (log_ok_step (PwWrite xml) s3 l2 HR3 ltac:(lia) Hz Hlog3) as [Hlog4 Hz4].
    pose proof (replay_step (PwWrite xml) s3 Hrep3) as Hrep4.
    rewrite V4 in Hlog4, Hrep4. cbn [fst] in Hlog4, Hrep4.
    cbn [ls_step fst snd wlift res_map wbind wrun] in *. fold l4 in HR4, Hz4 |- *.
    assert (Hpos4 : 48 <= ls_pos l4) by (unfold l4; rewrite ls_pos_write; lia).
    (* physical_size *)
    destruct (R_step PwSize s4 l4 HR4) as (s5 & V5 & HR5). rewrite V5.
    destruct (log_ok_step PwSize s4 l4 HR4 ltac:(lia) Hz4 Hlog4) as [Hlog5 _].
    pose proof (replay_step PwSize s4 Hrep4) as Hrep5.
    rewrite V5 in Hlog5, Hrep5. cbn [fst] in Hlog5, Hrep5.
    cbn [ls_step fst snd wlift wbind w_seek wop_ wrun] in *. fold pl.
    (* physical_seek(0) *)
    destruct (R_step (PwSeek 0) s5 l4 HR5) as (s6 & V6 & HR6). rewrite V6.
    destruct (log_ok_step (PwSeek 0) s5 l4 HR5 ltac:(lia) Hz4 Hlog5) as [Hlog6 _].
    pose proof (replay_step (PwSeek 0) s5 Hrep5) as Hrep6.
    rewrite V6 in Hlog6, Hrep6. cbn [fst] in Hlog6, Hrep6.
    assert (Hacc : ls_step (PwSeek 0) l4 = (mkLs data4 0, Ok 0)).
    { cbn [ls_step]. destruct (ls_phys_size l4 <? 0) eqn:E1; [lia|].
      change (PAYLOAD_SZ <=? 0 mod PAGE_SZ) with false. cbv iota. reflexivity. }
    rewrite Hacc in HR6 |- *. cbn [fst snd wlift res_map wbind] in *.
    (* device bytes after the seek: the pagination of the stream *)
    assert (Hb6 : d_bytes (pw_dev s6) = paginate data4).
    { destruct (R_flush s5 l4 HR5) as (sf & Vf & _ & Hbf).
      assert (Hk : d_bytes (pw_dev (fst (pw_physical_seek 0 s5))) = d_bytes (pw_dev (fst (pw_flush s5)))).
      { destruct HR5 as (Hf5 & _). destruct s5 as [[b c o f lg] off buf]. cbn [pw_dev d_fault] in Hf5. subst f.
        rewrite bytes_seek. destruct (x_flush b c o lg off buf) as (o' & E). rewrite E. reflexivity. }
      rewrite Vf in Hk. cbn [fst] in Hk. rewrite Hbf in Hk.
      cbn [pw_step] in V6. unfold bind, ret in V6. rewrite Hacc in V6. cbn [snd] in V6.
      destruct (pw_physical_seek 0 s5) as [sx [[]|e|]] eqn:Es;
        [injection V6 as <-; exact Hk|discriminate V6|discriminate V6]. }
    (* the seven small writes of the header *)
    fold xo. rewrite wrun_bind.
    destruct (R_wrun _ (header_write pl xo (len xml)) s6 (mkLs data4 0) HR6) as [HR7 Hres7].
    unfold header_write in HR7, Hres7. rewrite wr_all_spec in HR7, Hres7. cbn [fst snd] in HR7, Hres7.
    fold (header_write pl xo (len xml)) in HR7, Hres7. fold (hdr pl xo (len xml)) in HR7.
    pose proof (wr_all_keeps_log (header_fields pl xo (len xml)) s6 (mkLs data4 0) HR6) as Hk7.
    fold (header_write pl xo (len xml)) in Hk7. fold (hdr pl xo (len xml)) in Hk7.
    rewrite len_hdr in Hk7. specialize (Hk7 ltac:(cbn [ls_pos]; lia)).
    pose proof (replay_run _ (header_write pl xo (len xml)) s6 Hrep6) as Hrep7.
    destruct (wrun (header_write pl xo (len xml)) s6) as [s7 r7]. cbn [fst snd] in *. subst r7.
    rewrite ls_write_ne in HR7 by discriminate. cbn [ls_data ls_pos] in HR7.
    fold data7 in HR7. rewrite len_hdr in HR7. change (0 + 48) with 48 in HR7.
    (* the explicit flush *)
    cbn [w_flush wop_ wrun].
    destruct (R_step PwFlush s7 (mkLs data7 48) HR7) as (s8 & V8 & HR8). rewrite V8.
    cbn [ls_step fst snd wlift res_map wrun] in *.
    split; [reflexivity|].
    (* what it wrote *)
    pose proof HR7 as (Hf7 & np & pg & dl & HI7).
    destruct s7 as [[b c o f lg] off buf].
    cbn [pw_dev d_fault d_bytes d_cur pw_off pw_buf ls_data ls_pos] in Hf7, HI7. subst f.
    cbn [pw_dev d_log d_bytes] in *.
    destruct HI7 as [Hb Hdl Hc Hpg Hoff Hbuf Hpos7 Hbd Hdd Hpages].
    assert (Hpg0 : pg = 0) by lia. assert (Hoff48 : off = 48) by lia. assert (Hc0 : c = 0) by lia.
    destruct (x_flush b c o lg off buf) as (o8 & E8).
    assert (Hs8 : s8 = St (overwrite b c (seal buf)) c o8 ((c, seal buf) :: lg) off (seal buf)).
    { cbn [pw_step] in V8. unfold bind, relabel, ret in V8. rewrite E8 in V8. cbn [res_relabel] in V8.
      unfold flush_log in V8. replace (0 <? off) with true in V8 by (symmetry; apply N.ltb_lt; lia).
      injection V8 as <-. reflexivity. }
    (* Drop *)
    unfold pw_drop. rewrite fst_ignore_err.
    destruct (R_flush s8 _ HR8) as (s9 & V9 & _ & Hb9). rewrite V9. cbn [fst]. cbn [ls_data] in Hb9.
    destruct (x_flush (overwrite b c (seal buf)) c o8 ((c, seal buf) :: lg) off (seal buf)) as (o9 & E9).
    rewrite Hs8, E9 in V9. injection V9 as <-.
    unfold flush_log. replace (0 <? off) with true by (symmetry; apply N.ltb_lt; lia).
    cbn [pw_dev d_log d_bytes] in *.
    rewrite seal_idem by exact Hbuf. subst c. subst pg. change (1024 * 0) with 0 in *.
    exists lg, (seal buf). split; [reflexivity|].
    rewrite Hk7. split; [exact Hlog6|].
    split; [rewrite <- Hb6; symmetry; exact Hrep6|].
    split.
    { replace (0 <? off) with true in Hb9 by (symmetry; apply N.ltb_lt; lia).
      rewrite seal_idem in Hb9 by exact Hbuf. exact Hb9. }
    split; [apply len_seal, Hbuf|].
    split; [|apply seal_crc, Hbuf].
    intros j Hj. rewrite nthN_seal by assumption. rewrite Hbd by exact Hj. f_equal; lia.
  Qed.
End Finalize.

(** * The whole program *)

Lemma init_spec : wrun_spec writer_init ls_init = (mkLs hdr0 48, Ok tt).
Proof. vm_compute. reflexivity. Qed.

Lemma init_run : snd (wrun writer_init pw0) = Ok tt /\ d_log (pw_dev (fst (wrun writer_init pw0))) = [].
Proof. vm_compute. split; reflexivity. Qed.

Lemma z2440_hdr0 : z2440 hdr0.
Proof.
  assert (H : forallb (fun j => nthN (N.of_nat j) hdr0 =? 0) (seq 24 16) = true) by (vm_compute; reflexivity).
  rewrite forallb_forall in H. intros j H1 H2.
  specialize (H (N.to_nat j)). rewrite N2Nat.id in H. apply N.eqb_eq, H, in_seq. lia.
Qed.

Lemma drop_log_ok s l :
  R s l -> z2440 (ls_data l) -> log_ok (d_log (pw_dev s)) -> log_ok (d_log (pw_dev (fst (pw_drop s)))).
Proof.
  intros HR Hz Hlg. unfold pw_drop. rewrite fst_ignore_err. R_elim HR s l.
  destruct (x_flush b c o lg off buf) as (o' & E). rewrite E. cbn [fst pw_dev d_log] in *.
  eapply log_ok_flush; eassumption.
Qed.

Lemma slice_overwrite_same data pos bs : slice pos (len bs) (overwrite data pos bs) = bs.
Proof.
  apply list_ext.
  - rewrite len_slice, len_overwrite. lia.
  - intros i Hi. rewrite len_slice, len_overwrite in Hi.
    rewrite nthN_slice, nthN_overwrite.
    destruct (N.ltb_spec i (len bs)); [|lia].
    destruct (N.ltb_spec (pos + i) pos); [lia|].
    destruct (N.ltb_spec (pos + i) (pos + len bs)); [|lia]. f_equal. lia.
Qed.

(** the state in which [finalize] starts, when the sections were written without error *)
Record before_finalize (is : list item) (s2 : pw) (l2 : lstream) : Prop := mkBF {
  bf_R : R s2 l2;
  bf_pos : 48 <= ls_pos l2;
  bf_z : z2440 (ls_data l2);
  bf_log : log_ok (d_log (pw_dev s2));
  bf_rep : replay_ok (pw_dev s2);
  bf_hdr : forall j, j < 48 -> nthN j (ls_data l2) = nthN j hdr0;
  bf_len : 48 <= len (ls_data l2)
}.

Lemma items_run is :
  let s1 := fst (wrun writer_init pw0) in
  let s2 := fst (wrun (items_write is) s1) in
  let l2 := fst (wrun_spec (items_write is) (mkLs hdr0 48)) in
  R s2 l2 /\ z2440 (ls_data l2) /\ log_ok (d_log (pw_dev s2)) /\ replay_ok (pw_dev s2) /\
  (forall outs, snd (wrun (items_write is) s1) = Ok outs -> before_finalize is s2 l2).
Proof.
  cbv zeta.
  destruct (R_wrun _ writer_init pw0 ls_init R_init) as [HR1 _]. rewrite init_spec in HR1. cbn [fst] in HR1.
  destruct init_run as [_ Hlg1].
  assert (Hrep1 : replay_ok (pw_dev (fst (wrun writer_init pw0)))) by (apply replay_run; reflexivity).
  set (s1 := fst (wrun writer_init pw0)) in *.
  assert (Hsp : wsp (items_write is) (mkLs hdr0 48) (fun _ l' => 48 <= ls_pos l')).
  { apply (wmono_items_write is); [cbn [ls_pos]; lia|]. intros a l' Hle _. cbn [ls_pos] in Hle. exact Hle. }
  destruct (log_ok_wrun _ (items_write is) s1 (mkLs hdr0 48) _ HR1 Hsp z2440_hdr0)
    as (HR2 & Hlg2 & Hz2 & Hres & HQ).
  { rewrite Hlg1. constructor. }
  destruct (wsp_prefix _ (items_write is) _ _ Hsp) as [Hlen Hpre]. cbn [ls_data] in Hlen, Hpre.
  pose proof (replay_run _ (items_write is) s1 Hrep1) as Hrep2.
  split; [exact HR2|]. split; [exact Hz2|]. split; [exact Hlg2|]. split; [exact Hrep2|].
  intros outs Hok. rewrite Hres in Hok. constructor; try assumption.
  exact (HQ outs Hok).
Qed.

(** the write sequence of a program [p] that ended with a successful [finalize] of [xml] *)
Definition gshape {A} (p : wprog A) (xml : list N) : Prop :=
  exists pre P0 data4 x,
    let pl := pages_for (len data4) * 1024 in
    let data7 := overwrite data4 0 (hdr pl (phys_of_log x) (len xml)) in
    trace_of p = pre ++ [(0, P0); (0, P0)] /\
    Forall entry_ok pre /\
    apply_writes pre = paginate data4 /\
    final_image p = paginate data7 /\
    len P0 = 1024 /\ (forall j, j < 1020 -> nthN j P0 = nthN j data7) /\
    drop 1020 P0 = crc_bytes (take 1020 P0) /\
    48 <= x /\ slice x (len xml) data4 = xml /\ (xml <> [] -> x + len xml <= len data4) /\
    (forall j, j < 48 -> nthN j data4 = nthN j hdr0) /\ 48 <= len data4 /\ z2440 data4.

Definition shape_ok (is : list item) (xml : list N) : Prop := gshape (crash_prog is xml) xml.

(** a program whose run ends in the state [finalize] leaves, started from a state behind the
    header, has that shape *)
Lemma gshape_of_finalize A (p : wprog A) s2 l2 xml :
  before_finalize [] s2 l2 ->
  fst (wrun p pw0) = fst (wrun (writer_finalize xml) s2) ->
  gshape p xml.
Proof.
  intros [HR Hpos Hz Hlog Hrep Hhdr Hlen] Hp.
  destruct (finalize_shape s2 l2 xml HR Hpos Hz Hlog Hrep)
    as (Hok & lg6 & P0 & Hd & Hlg6 & Hpre & Hfin & HlP & HnP & HcP).
  unfold gshape, trace_of, final_image, dev_after. rewrite pw_fresh_pw0, Hp.
  exists (rev lg6), P0, (ls_data (ls_write l2 xml)), (ls_pos l2). cbv zeta.
  rewrite Hd. cbn [rev]. rewrite <- app_assoc. cbn [app].
  split; [reflexivity|]. split; [apply Forall_rev, Hlg6|]. split; [exact Hpre|].
  split; [exact Hfin|]. split; [exact HlP|]. split; [exact HnP|]. split; [exact HcP|].
  split; [exact Hpos|].
  assert (Hx : forall j, j < 48 -> nthN j (ls_data (ls_write l2 xml)) = nthN j (ls_data l2)).
  { intros j Hj. destruct xml; cbn [ls_write ls_data]; [reflexivity|].
    rewrite nthN_overwrite. destruct (N.ltb_spec j (ls_pos l2)); [reflexivity|lia]. }
  split; [|split; [|split; [|split]]].
  + destruct xml as [|b r]; [reflexivity|]. cbn [ls_write ls_data]. apply slice_overwrite_same.
  + intros Hne. destruct xml as [|b r]; [congruence|]. cbn [ls_write ls_data]. rewrite len_overwrite. lia.
  + intros j Hj. rewrite Hx by exact Hj. apply Hhdr, Hj.
  + destruct xml as [|b r]; cbn [ls_write ls_data]; [exact Hlen|]. rewrite len_overwrite. lia.
  + apply z2440_ls_write; [lia|exact Hz].
Qed.

Theorem crash_trace_shape is xml :
  (snd (wrun (crash_prog is xml) pw_fresh) <> Ok tt /\ Forall entry_ok (trace_of (crash_prog is xml))) \/
  (snd (wrun (crash_prog is xml) pw_fresh) = Ok tt /\ shape_ok is xml).
Proof.
  destruct (items_run is) as (HR2 & Hz2 & Hlg2 & Hrep2 & Hbf). cbv zeta in *.
  destruct init_run as [Hi _].
  assert (E : wrun (crash_prog is xml) pw0 =
              let '(s1, r1) := wrun writer_init pw0 in
              match r1 with
              | Ok _ => let '(s2, r2) := wrun (items_write is) s1 in
                        match r2 with
                        | Ok _ => wrun (writer_finalize xml) s2
                        | Err k => (s2, Err k) | Panic => (s2, Panic)
                        end
              | Err k => (s1, Err k) | Panic => (s1, Panic)
              end).
  { unfold crash_prog. rewrite wrun_bind. destruct (wrun writer_init pw0) as [s1 [u|k|]]; try reflexivity.
    rewrite wrun_bind. reflexivity. }
  unfold shape_ok, trace_of, dev_after. rewrite pw_fresh_pw0.
  destruct (wrun writer_init pw0) as [s1 r1] eqn:E1. cbn [fst snd] in *. subst r1.
  destruct (wrun (items_write is) s1) as [s2 r2] eqn:E2. cbn [fst snd] in *.
  set (l2 := fst (wrun_spec (items_write is) (mkLs hdr0 48))) in *.
  destruct r2 as [outs|e|].
  - right. pose proof (Hbf outs eq_refl) as BF.
    destruct BF as [HR Hpos Hz Hlog Hrep Hhdr Hlen].
    destruct (finalize_shape s2 l2 xml HR Hpos Hz Hlog Hrep) as (Hok & _).
    split; [rewrite E; exact Hok|].
    apply (gshape_of_finalize _ _ s2 l2 xml); [constructor; assumption|]. rewrite E. reflexivity.
  - left. rewrite E. cbn [fst snd]. split; [discriminate|]. apply Forall_rev. eapply drop_log_ok; eassumption.
  - left. rewrite E. cbn [fst snd]. split; [discriminate|]. apply Forall_rev. eapply drop_log_ok; eassumption.
Qed.

(** the writer dropped without [finalize]: every write carries zeros in the XML fields *)
Theorem unfinalized_trace_ok is : Forall entry_ok (trace_of (unfinalized_prog is)).
Proof.
  destruct (items_run is) as (HR2 & Hz2 & Hlg2 & Hrep2 & _). cbv zeta in *.
  destruct init_run as [Hi _].
  unfold trace_of, dev_after. rewrite pw_fresh_pw0.
  unfold unfinalized_prog. rewrite wrun_bind.
  destruct (wrun writer_init pw0) as [s1 r1] eqn:E1. cbn [fst snd] in *. subst r1.
  rewrite wrun_bind.
  destruct (wrun (items_write is) s1) as [s2 r2] eqn:E2. cbn [fst snd] in *.
  apply Forall_rev.
  destruct r2 as [outs|e|]; cbn [wrun fst]; eapply drop_log_ok; eassumption.
Qed.

Print Assumptions crash_trace_shape.
Print Assumptions unfinalized_trace_ok.
