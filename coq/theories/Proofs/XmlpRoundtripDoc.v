(** The document level of the round trip and the main theorem [parse_render]. *)
From Coq Require Import Lia ZifyN ZifyNat ZifyBool.
From E57 Require Import Base.Prelude Model.XmlTree Model.XmlParse Spec.XmlRender
  Proofs.XmlpLex Proofs.XmlpEsc Proofs.XmlpFuel Proofs.XmlpNs Proofs.XmlpTag Proofs.XmlpContent
  Proofs.XmlpRoundtrip.

Local Open Scope N_scope.

Definition is_misc (n : xnode) : bool := match n with XComment _ | XPI _ _ => true | _ => false end.

Lemma doc_split : forall l,
  forallb (fun n => negb (is_text n)) l = true -> length (filter is_element l) = 1%nat ->
  exists pre root post, l = pre ++ root :: post /\ is_element root = true
    /\ forallb is_misc pre = true /\ forallb is_misc post = true.
Proof.
  induction l as [|x l IH]; intros Hnt Hone; [discriminate|].
  cbn [forallb] in Hnt. apply andb_true_iff in Hnt. destruct Hnt as [Hx Hl].
  cbn [filter] in Hone. destruct (is_element x) eqn:Ex.
  - exists [], x, l. repeat split; try assumption.
    cbn [length] in Hone. assert (Hz : filter is_element l = []) by (destruct (filter is_element l); [reflexivity | cbn in Hone; lia]).
    clear - Hl Hz. induction l as [|y l IH]; [reflexivity|]. cbn [forallb filter] in *.
    apply andb_true_iff in Hl. destruct Hl as [Hy Hl]. destruct (is_element y) eqn:Ey; [discriminate|].
    rewrite (IH Hl Hz). destruct y; try discriminate; reflexivity.
  - destruct (IH Hl Hone) as (pre & root & post & E & Hr & Hp & Hq).
    exists (x :: pre), root, post. repeat split; try assumption; [rewrite E; reflexivity|].
    cbn [forallb]. rewrite Hp. destruct x; try discriminate; reflexivity.
Qed.

(** the rendering of a list of document-level nodes, without the trailing blanks *)
Fixpoint render_doc_prefix (c : render_choices) (i : nat) (l : list xnode) : xstr :=
  match l with
  | [] => []
  | x :: r => blanks (rc_doc_ws c i) ++ render_node c [i] None no_name [] x ++ render_doc_prefix c (S i) r
  end.

Lemma render_doc_nodes_app : forall c a b i,
  render_doc_nodes c i (a ++ b) = render_doc_prefix c i a ++ render_doc_nodes c (i + length a) b.
Proof.
  intros c a. induction a as [|x a IH]; intros b i; cbn [app render_doc_nodes render_doc_prefix length].
  - rewrite Nat.add_0_r. reflexivity.
  - rewrite IH. rewrite <- !app_assoc. replace (S i + length a)%nat with (i + S (length a))%nat by lia. reflexivity.
Qed.

Lemma render_doc_nodes_all : forall c a i,
  render_doc_nodes c i a = render_doc_prefix c i a ++ blanks (rc_doc_ws c (i + length a)).
Proof. intros c a i. rewrite <- (app_nil_r a) at 1. rewrite render_doc_nodes_app. reflexivity. Qed.

Lemma parse_misc_S : forall f s,
  parse_misc (S f) s =
    let s1 := skip_spaces s in
    match strip_prefix s_comment_open s1 with
    | Some r =>
      pbind (of_opt (parse_comment r)) (fun '(c, rest) =>
      pbind (parse_misc f rest) (fun '(l, rest') => POk (c :: l, rest')))
    | None =>
      match strip_prefix s_pi_open s1 with
      | Some r =>
        pbind (of_opt (parse_pi r)) (fun '(p, rest) =>
        pbind (parse_misc f rest) (fun '(l, rest') => POk (p :: l, rest')))
      | None => POk ([], s1)
      end
    end.
Proof. reflexivity. Qed.

Lemma parse_misc_prefix : forall c a i T l' rest f,
  forallb is_misc a = true -> forallb (wf_node None) a = true ->
  parse_misc f T = POk (l', rest) ->
  parse_misc (length a + f) (render_doc_prefix c i a ++ T) = POk (a ++ l', rest).
Proof.
  intros c a. induction a as [|x a IH]; intros i T l' rest f Hm Hw H; [exact H|].
  cbn [forallb] in Hm, Hw. apply andb_true_iff in Hm. destruct Hm as [Hx Hm].
  apply andb_true_iff in Hw. destruct Hw as [Hwx Hw].
  cbn [length render_doc_prefix Nat.add]. rewrite parse_misc_S. cbv zeta.
  rewrite <- !app_assoc. rewrite skip_spaces_blanks.
  destruct x as [| | t | tg v]; try discriminate; cbn [render_node wf_node] in *.
  - unfold COMMENT_OPEN. cbn [app]. rewrite skip_spaces_id by (cbn; reflexivity).
    change (60 :: 33 :: 45 :: 45 :: ?x) with (s_comment_open ++ x). rewrite strip_prefix_app.
    rewrite <- !app_assoc. rewrite (parse_comment_render t _ Hwx). cbn [of_opt pbind].
    rewrite (IH (S i) T l' rest f Hm Hw H). reflexivity.
  - unfold PI_OPEN. cbn [app]. rewrite skip_spaces_id by (cbn; reflexivity).
    change (strip_prefix s_comment_open (60 :: 63 :: ?x)) with (@None (list N)). cbv iota.
    change (60 :: 63 :: ?x) with (s_pi_open ++ x). rewrite strip_prefix_app.
    rewrite <- !app_assoc. change (match v with Some v0 => 32 :: v0 | None => [] end) with (pi_body v).
    rewrite (parse_pi_render tg v _ Hwx). cbn [of_opt pbind].
    rewrite (IH (S i) T l' rest f Hm Hw H). reflexivity.
Qed.

Lemma misc_count : forall P n, is_misc n = true -> decl_count P n = 0.
Proof. intros P [| | |] H; try discriminate; reflexivity. Qed.

(** the first bytes of the document *)
Definition elem_body (c : render_choices) (path : list nat) (n : xnode) : xstr := tl (render_node c path None no_name [] n).

Lemma root_render : forall c path n, is_element n = true -> wf_node None n = true ->
  exists b r, render_node c path None no_name [] n = 60 :: b :: r /\ b <> 33 /\ b <> 63 /\ b <> 47.
Proof.
  intros c path [nm attrs sc ch| | |] He Hw; try discriminate.
  destruct (wf_elem_names _ _ _ _ _ Hw I) as (_ & Nl & pre & Ep & Np & _).
  rewrite render_elem_eq. cbv zeta. rewrite Ep. cbn [or_default].
  destruct (qname_head pre (xn_local nm) Np Nl) as (b & r & Eq & _ & H47 & _ & _ & H33 & H63).
  rewrite Eq. cbn [app]. eexists. eexists. split; [reflexivity|]. tauto.
Qed.

Lemma parse_misc_at_root : forall w b r, b <> 33 -> b <> 63 ->
  parse_misc 1 (blanks w ++ 60 :: b :: r) = POk ([], 60 :: b :: r).
Proof.
  intros w b r H33 H63. rewrite parse_misc_S. cbv zeta. rewrite skip_spaces_blanks.
  rewrite skip_spaces_id by (cbn; reflexivity).
  unfold s_comment_open, s_pi_open. cbn [strip_prefix]. change (60 =? 60) with true. cbv iota.
  apply N.eqb_neq in H33, H63. rewrite (N.eqb_sym 33), H33, (N.eqb_sym 63), H63. reflexivity.
Qed.

Lemma parse_misc_end : forall w, parse_misc 1 (blanks w) = POk ([], []).
Proof.
  intros w. rewrite parse_misc_S. cbv zeta.
  assert (E : skip_spaces (blanks w) = []) by (rewrite <- (app_nil_r (blanks w)); rewrite skip_spaces_blanks; reflexivity).
  rewrite E. reflexivity.
Qed.

(** nothing the renderer writes first can be mistaken for an XML declaration or a BOM *)
Lemma doc_nodes_head : forall c i l, l <> [] -> forallb (wf_node None) l = true ->
  forallb (fun n => negb (is_text n)) l = true ->
  starts_with s_decl_open (render_doc_nodes c i l) = false /\
  exists b r, render_doc_nodes c i l = b :: r /\ b <> 239.
Proof.
  intros c i [|x l] Hne Hw Hnt; [congruence|].
  cbn [forallb] in Hw, Hnt. apply andb_true_iff in Hw. destruct Hw as [Hwx _].
  apply andb_true_iff in Hnt. destruct Hnt as [Hx _].
  cbn [render_doc_nodes].
  destruct (blanks (rc_doc_ws c i)) as [|b0 bl] eqn:Eb.
  - cbn [app].
    destruct x as [nm attrs sc ch | t | t | tg v]; try discriminate.
    + destruct (root_render c [i] (XElem nm attrs sc ch) eq_refl Hwx) as (b & r & E & H33 & H63 & _).
      rewrite E. cbn [app]. split; [|eexists; eexists; split; [reflexivity | lia]].
      unfold starts_with, s_decl_open. cbn [strip_prefix]. change (60 =? 60) with true. cbv iota.
      apply N.eqb_neq in H63. rewrite (N.eqb_sym 63), H63. reflexivity.
    + cbn [render_node]. unfold COMMENT_OPEN. cbn [app]. split; [reflexivity|]. eexists; eexists; split; [reflexivity | lia].
    + cbn [render_node wf_node] in *. unfold PI_OPEN. cbn [app]. split; [|eexists; eexists; split; [reflexivity | lia]].
      unfold pi_ok in Hwx. apply andb_true_iff in Hwx. destruct Hwx as [Hwx _]. apply andb_true_iff in Hwx. destruct Hwx as [Hn Hx'].
      apply negb_true_iff in Hx'. apply xstr_eqb_neq in Hx'.
      rewrite <- !app_assoc.
      assert (N := not_xml_sp tg ((match v with Some v0 => 32 :: v0 | None => [] end) ++ PI_CLOSE ++ render_doc_nodes c (S i) l) Hn Hx').
      unfold starts_with in *. unfold s_decl_open. cbn [strip_prefix]. change (60 =? 60) with true. change (63 =? 63) with true. cbv iota.
      unfold s_xml_sp in N. cbn [strip_prefix] in N. apply N. destruct v; cbn; auto.
  - assert (Hb : is_blank b0 = true).
    { assert (In b0 (blanks (rc_doc_ws c i))) by (rewrite Eb; left; reflexivity).
      unfold blanks in H. apply filter_In in H. tauto. }
    cbn [app]. split.
    + unfold starts_with, s_decl_open. cbn [strip_prefix]. unfold is_blank in Hb.
      destruct (60 =? b0) eqn:E; [apply N.eqb_eq in E; subst b0; discriminate | reflexivity].
    + eexists; eexists; split; [reflexivity|]. unfold is_blank in Hb. lia.
Qed.

Lemma decl_std_parses : forall X, starts_with s_decl_open (DECL_STD ++ X) = true /\
  parse_declaration (skipn 5 (DECL_STD ++ X)) = Some X.
Proof. intros X. split; reflexivity. Qed.

(** * The theorem *)
Theorem parse_render : forall c d, wf_doc d = true -> xml_parse (render c d) = ParseOk d.
Proof.
  intros c [l] Hwf. unfold wf_doc in Hwf. cbn [xd_children] in Hwf.
  apply andb_true_iff in Hwf. destruct Hwf as [Hwf Hcnt]. apply andb_true_iff in Hwf. destruct Hwf as [Hwf Hone].
  apply andb_true_iff in Hwf. destruct Hwf as [Hw Hnt]. apply Nat.eqb_eq in Hone.
  destruct (doc_split l Hnt Hone) as (pre & root & post & El & Hroot & Hpre & Hpost).
  assert (Hw' : forallb (wf_node None) pre = true /\ wf_node None root = true /\ forallb (wf_node None) post = true).
  { rewrite El in Hw. rewrite forallb_app in Hw. cbn [forallb] in Hw. rewrite !andb_true_iff in Hw. tauto. }
  destruct Hw' as (Hwpre & Hwroot & Hwpost).
  set (k := length pre).
  (* the count *)
  assert (Hc : fold_right (fun n acc => decl_count None n + acc) 0 l = decl_count None root).
  { rewrite El. clear - Hpre Hpost.
    assert (G : forall a, forallb is_misc a = true -> forall z, fold_right (fun n acc => decl_count None n + acc) z a = z).
    { induction a as [|x a IH]; intros Ha z; [reflexivity|]. cbn [forallb fold_right] in *.
      apply andb_true_iff in Ha. destruct Ha as [Hx Ha]. rewrite (IH Ha), (misc_count None x Hx). lia. }
    rewrite fold_right_app. cbn [fold_right]. rewrite (G post Hpost). rewrite (G pre Hpre). lia. }
  rewrite Hc in Hcnt.
  (* shapes *)
  destruct (root_render c [k] root Hroot Hwroot) as (b & r & Er & H33 & H63 & H47).
  set (NODES := render_doc_nodes c 0%nat l).
  set (S3 := render_doc_nodes c (S k) post).
  assert (ENODES : NODES = render_doc_prefix c 0%nat pre ++ blanks (rc_doc_ws c k) ++ 60 :: b :: r ++ S3).
  { unfold NODES. rewrite El, render_doc_nodes_app. cbn [Nat.add render_doc_nodes]. fold k. rewrite Er. cbn [app].
    unfold S3. reflexivity. }
  (* the root element *)
  assert (Hel := element_ok root c [k] None no_name [] S3 Hwroot I).
  destruct root as [nm attrs sc ch| | |]; try discriminate. destruct Hel as [fe Hel].
  rewrite Er in Hel. cbn [tl] in Hel.
  (* the trailing nodes *)
  assert (Hpost3 : parse_misc (length post + 1) S3 = POk (post, [])).
  { unfold S3. rewrite render_doc_nodes_all.
    assert (Q := parse_misc_prefix c post (S k) _ [] [] 1%nat Hpost Hwpost (parse_misc_end (rc_doc_ws c (S k + length post)))).
    rewrite app_nil_r in Q. exact Q. }
  (* the leading nodes *)
  assert (Hpre1 : parse_misc (length pre + 1) NODES = POk (pre, 60 :: b :: r ++ S3)).
  { rewrite ENODES.
    assert (Q := parse_misc_prefix c pre 0%nat _ [] _ 1%nat Hpre Hwpre (parse_misc_at_root (rc_doc_ws c k) b (r ++ S3) H33 H63)).
    rewrite app_nil_r in Q. exact Q. }
  (* assemble with a large fuel, then move to the fuel xml_parse uses *)
  unfold xml_parse.
  set (bytes := render c (mkXDoc l)).
  set (F := (S (length bytes) + (length pre + 1) + fe + (length post + 1))%nat).
  rewrite <- (parse_document_any_fuel F bytes) by (unfold F; lia).
  assert (Hdoc : parse_document F bytes = POk (mkXDoc l, decl_count None (XElem nm attrs sc ch))).
  { assert (Hl_ne : l <> []) by (rewrite El; destruct pre; discriminate).
    destruct (doc_nodes_head c 0%nat l Hl_ne Hw Hnt) as (Hnd & b0 & r0 & E0 & Hb0). fold NODES in Hnd, E0.
    unfold parse_document.
    (* BOM and declaration *)
    assert (EB : match strip_prefix s_bom bytes with Some r1 => r1 | None => bytes end = render_decl (rc_decl c) ++ NODES).
    { unfold bytes, render. cbn [xd_children]. fold NODES.
      destruct (rc_bom c).
      - change BOM with s_bom. rewrite strip_prefix_app. reflexivity.
      - cbn [app]. destruct (rc_decl c); cbn [render_decl app].
        + rewrite E0. unfold s_bom. cbn [strip_prefix]. apply N.eqb_neq in Hb0. rewrite (N.eqb_sym 239), Hb0. reflexivity.
        + reflexivity. }
    cbv zeta. rewrite EB.
    assert (ED : (if starts_with s_decl_open (render_decl (rc_decl c) ++ NODES)
                  then of_opt (parse_declaration (skipn 5 (render_decl (rc_decl c) ++ NODES)))
                  else POk (render_decl (rc_decl c) ++ NODES)) = POk NODES).
    { destruct (rc_decl c); cbn [render_decl app].
      - rewrite Hnd. reflexivity.
      - destruct (decl_std_parses NODES) as [D1 D2]. rewrite D1, D2. reflexivity. }
    rewrite ED. cbn [pbind].
    rewrite (parse_misc_ok_mono _ F _ _ Hpre1) by (unfold F; lia). cbn [pbind].
    assert (Hdt : starts_with s_doctype (60 :: b :: r ++ S3) = false).
    { unfold starts_with, s_doctype. cbn [strip_prefix]. change (60 =? 60) with true. cbv iota.
      apply N.eqb_neq in H33. rewrite (N.eqb_sym 33), H33. reflexivity. }
    rewrite Hdt.
    change (b :: r ++ S3) with ((b :: r) ++ S3).
    assert (He' := parse_element_ok_mono fe F None _ _ Hel ltac:(unfold F; lia)). rewrite He'.
    cbn [pbind]. rewrite (parse_misc_ok_mono _ F _ _ Hpost3) by (unfold F; lia). cbn [pbind is_nil].
    rewrite El. reflexivity. }
  rewrite Hdoc. unfold DECL_LIMIT in Hcnt. unfold NS_LIMIT. rewrite Hcnt. reflexivity.
Qed.

(** the same through the crate's entry point (UTF-8 check first): the rendering of a tree whose
    strings are UTF-8 is UTF-8; that side condition is left to the caller as a hypothesis *)
Corollary xml_read_render : forall c d, wf_doc d = true ->
  forallb (fun b => b <? 256) (render c d) = true -> utf8_valid (render c d) = true ->
  xml_read (render c d) = XmlOk d.
Proof.
  intros c d Hwf Hb Hu. unfold xml_read. rewrite Hb, Hu. cbn [andb negb]. rewrite (parse_render c d Hwf). reflexivity.
Qed.
