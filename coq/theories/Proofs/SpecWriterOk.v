(** "The writer returned Ok" implies the conditions under which the file-level
    theorems are proved ([item_wf]), given only typing facts about the inputs:
    prototype entries are [type_ok] (bounds are i64 and min <= max - the latter
    is not checked by the crate, so it stays a hypothesis) and float values are
    bit patterns of their width. *)
From Coq Require Import ZArith Lia ZifyN ZifyNat ZifyBool.
From E57 Require Import Base.Prelude Spec.PageSpec Model.PagedWriter Model.Prog Model.BsWrite Model.Record
  Model.PcWriter Model.FileBin Spec.BitSpec Spec.FormatSpec.
From E57 Require Import Proofs.ProgTransfer Proofs.BitWidthProofs Proofs.PcWriterLemmas Proofs.FileRtWriter.
Ltac Zify.zify_post_hook ::= Z.div_mod_to_equations.
Open Scope N_scope.

(** * Typing facts *)

(** a float value is its bit pattern: below 2^32 / 2^64 *)
Definition value_repr (v : rvalue) : bool :=
  match v with VSingle x => x <? 2 ^ 32 | VDouble x => x <? 2 ^ 64 | _ => true end.

Definition item_typed (i : item) : bool :=
  match i with
  | IBlob _ => true
  | IPc proto points => forallb type_ok proto && forallb (forallb value_repr) points
  end.

(** * Inversion of Ok runs *)

Lemma wrun_spec_bind_ok_inv {A B} (p : wprog A) (f : A -> wprog B) l l' b :
  wrun_spec (wbind p f) l = (l', Ok b) ->
  exists l1 a, wrun_spec p l = (l1, Ok a) /\ wrun_spec (f a) l1 = (l', Ok b).
Proof.
  rewrite wrun_spec_bind. destruct (wrun_spec p l) as [l1 [a|k|]]; intros H; try discriminate H.
  exists l1, a. split; [reflexivity|exact H].
Qed.

Lemma wrun_spec_lift_ok_inv {A} (r : res A) l l' a :
  wrun_spec (wlift r) l = (l', Ok a) -> r = Ok a /\ l' = l.
Proof. rewrite pcw_wrun_spec_lift. intros H. inversion H. split; reflexivity. Qed.

Lemma wrun_spec_wret_ok_inv {A} (x : A) l l' a :
  wrun_spec (wret x) l = (l', Ok a) -> a = x /\ l' = l.
Proof. cbn [wret wrun_spec]. intros H. inversion H. split; reflexivity. Qed.

(** * The point-cloud writer *)

Lemma pcw_new_ok_inv proto l l' w :
  wrun_spec (pcw_new proto) l = (l', Ok w) ->
  (exists mpp, get_max_packet_points proto = Ok mpp) /\ w_proto w = proto.
Proof.
  unfold pcw_new. intros H.
  apply wrun_spec_bind_ok_inv in H as (l1 & mpp & H1 & H).
  apply wrun_spec_lift_ok_inv in H1 as [Hm _].
  apply wrun_spec_bind_ok_inv in H as (l2 & so & _ & H).
  apply wrun_spec_bind_ok_inv in H as (l3 & u & _ & H).
  apply wrun_spec_bind_ok_inv in H as (l4 & doff & _ & H).
  apply wrun_spec_wret_ok_inv in H as [-> _].
  split; [exists mpp; exact Hm|reflexivity].
Qed.

Lemma write_buffer_to_disk_ok_proto last w l l' w' :
  wrun_spec (write_buffer_to_disk last w) l = (l', Ok w') -> w_proto w' = w_proto w.
Proof.
  unfold write_buffer_to_disk. intros H.
  apply wrun_spec_bind_ok_inv in H as (l1 & [buffer streams] & _ & H).
  apply wrun_spec_bind_ok_inv in H as (l2 & sizes & _ & H).
  apply wrun_spec_bind_ok_inv in H as (l3 & w1 & H1 & H).
  apply wrun_spec_bind_ok_inv in H as (l4 & u & _ & H).
  apply wrun_spec_wret_ok_inv in H as [-> _].
  destruct (0 <? fold_left N.add sizes 0).
  - match type of H1 with context [if ?c then wfail _ else _] => destruct c end.
    + discriminate H1.
    + apply wrun_spec_bind_ok_inv in H1 as (l5 & u1 & _ & H1).
      apply wrun_spec_bind_ok_inv in H1 as (l6 & u2 & _ & H1).
      apply wrun_spec_bind_ok_inv in H1 as (l7 & [streams' datas] & _ & H1).
      apply wrun_spec_bind_ok_inv in H1 as (l8 & u3 & _ & H1).
      apply wrun_spec_wret_ok_inv in H1 as [-> _]. reflexivity.
  - apply wrun_spec_wret_ok_inv in H1 as [-> _]. reflexivity.
Qed.

Lemma pcw_add_point_ok_inv p w l l' w' :
  wrun_spec (pcw_add_point p w) l = (l', Ok w') ->
  values_ok (w_proto w) p = true /\ w_proto w' = w_proto w.
Proof.
  unfold pcw_add_point. intros H.
  destruct (values_ok (w_proto w) p); cbn [negb] in H; [|discriminate H].
  split; [reflexivity|].
  match type of H with context [if ?c then _ else _] => destruct c end.
  - apply write_buffer_to_disk_ok_proto in H. exact H.
  - apply wrun_spec_wret_ok_inv in H as [-> _]. reflexivity.
Qed.

Lemma add_points_ok_inv : forall points w l l' w',
  wrun_spec (add_points points w) l = (l', Ok w') ->
  forallb (values_ok (w_proto w)) points = true /\ w_proto w' = w_proto w.
Proof.
  induction points as [|p r IH]; intros w l l' w' H; cbn [add_points] in H.
  - apply wrun_spec_wret_ok_inv in H as [-> _]. split; reflexivity.
  - apply wrun_spec_bind_ok_inv in H as (l1 & w1 & H1 & H).
    apply pcw_add_point_ok_inv in H1 as [Hv Hp].
    apply IH in H as [Hr Hp']. rewrite Hp in Hr, Hp'.
    cbn [forallb]. rewrite Hv, Hr. split; [reflexivity|exact Hp'].
Qed.

(** * From the crate's checks to the format-level conditions *)

Lemma values_ok_point_ok : forall proto p,
  values_ok proto p = true -> forallb value_repr p = true -> point_ok proto p = true.
Proof.
  unfold point_ok.
  induction proto as [|t pr IH]; intros [|v vr] Hv Hr; cbn [values_ok] in Hv; try discriminate Hv.
  - reflexivity.
  - apply andb_prop in Hv as [Hv1 Hv2]. cbn [forallb] in Hr. apply andb_prop in Hr as [Hr1 Hr2].
    specialize (IH vr Hv2 Hr2). apply andb_prop in IH as [IH1 IH2].
    cbn [length combine forallb fst snd]. apply andb_true_intro. split.
    + exact IH1.
    + rewrite IH2, Bool.andb_true_r. unfold in_range.
      destruct t as [| |mn mx|mn mx], v as [x|x|i|i]; try discriminate Hv1;
        cbn [stored]; cbn [value_repr] in Hr1; try rewrite Hr1; try rewrite Hv1; reflexivity.
Qed.

Lemma fold_bits_zero : forall (proto : list dtype) a,
  existsb (fun t => 0 <? bit_size t) proto = false ->
  fold_left (fun a t => a + bit_size t) proto a = a.
Proof.
  induction proto as [|t pr IH]; intros a H; cbn [fold_left]; [reflexivity|].
  cbn [existsb] in H. apply Bool.orb_false_elim in H as [H1 H2].
  rewrite (IH _ H2). lia.
Qed.

Lemma existsb_bit_size_spec : forall proto,
  forallb type_ok proto = true ->
  existsb (fun t => 0 <? spec_bit_size t) proto = existsb (fun t => 0 <? bit_size t) proto.
Proof.
  induction proto as [|t pr IH]; intros H; [reflexivity|].
  cbn [forallb] in H. apply andb_prop in H as [H1 H2].
  cbn [existsb]. rewrite (IH H2), (bit_size_spec t H1). reflexivity.
Qed.

Lemma mpp_ok_some_bits proto mpp :
  get_max_packet_points proto = Ok mpp -> forallb type_ok proto = true ->
  existsb (fun t => 0 <? spec_bit_size t) proto = true.
Proof.
  intros Hm Ht. rewrite (existsb_bit_size_spec proto Ht).
  apply max_packet_points_facts in Hm as (_ & Hb & _).
  destruct (existsb (fun t => 0 <? bit_size t) proto) eqn:E; [reflexivity|].
  exfalso. apply Hb. unfold point_bits. apply fold_bits_zero. exact E.
Qed.

Lemma forallb_values_ok_point_ok proto : forall points,
  forallb (values_ok proto) points = true -> forallb (forallb value_repr) points = true ->
  forallb (point_ok proto) points = true.
Proof.
  induction points as [|p r IH]; intros Hv Hr; [reflexivity|].
  cbn [forallb] in *. apply andb_prop in Hv as [Hv1 Hv2]. apply andb_prop in Hr as [Hr1 Hr2].
  rewrite (values_ok_point_ok _ _ Hv1 Hr1), (IH Hv2 Hr2). reflexivity.
Qed.

(** * Items *)

Lemma item_write_ok_wf i l l' o :
  item_typed i = true -> wrun_spec (item_write i) l = (l', Ok o) -> item_wf i = true.
Proof.
  destruct i as [data|proto points]; intros Ht H; [reflexivity|].
  cbn [item_typed] in Ht. apply andb_prop in Ht as [Ht Hr].
  cbn [item_write] in H.
  apply wrun_spec_bind_ok_inv in H as (l1 & w & Hn & H).
  apply wrun_spec_bind_ok_inv in H as (l2 & w1 & Ha & _).
  apply pcw_new_ok_inv in Hn as [[mpp Hm] Hp].
  apply add_points_ok_inv in Ha as [Hv _]. rewrite Hp in Hv.
  cbn [item_wf]. unfold scene_ok. rewrite Hm, Ht.
  rewrite (forallb_values_ok_point_ok _ _ Hv Hr), (mpp_ok_some_bits _ _ Hm Ht). reflexivity.
Qed.

Theorem items_write_ok_wf : forall (is : list item) (l l' : lstream) (outs : list item_out),
  forallb item_typed is = true ->
  wrun_spec (items_write is) l = (l', Ok outs) -> forallb item_wf is = true.
Proof.
  induction is as [|i r IH]; intros l l' outs Ht H; [reflexivity|].
  cbn [forallb] in Ht. apply andb_prop in Ht as [Ht1 Ht2].
  cbn [items_write] in H.
  apply wrun_spec_bind_ok_inv in H as (l1 & o & H1 & H).
  apply wrun_spec_bind_ok_inv in H as (l2 & os & H2 & _).
  cbn [forallb]. rewrite (item_write_ok_wf _ _ _ _ Ht1 H1), (IH _ _ _ Ht2 H2). reflexivity.
Qed.

Theorem file_prog_ok_wf : forall (is : list item) (xml : list N) (l l' : lstream) (outs : list item_out),
  forallb item_typed is = true ->
  wrun_spec (file_prog is xml) l = (l', Ok outs) -> forallb item_wf is = true.
Proof.
  intros is xml l l' outs Ht H. unfold file_prog in H.
  apply wrun_spec_bind_ok_inv in H as (l1 & u & _ & H).
  apply wrun_spec_bind_ok_inv in H as (l2 & os & H2 & _).
  exact (items_write_ok_wf _ _ _ _ Ht H2).
Qed.

(** the hypotheses are satisfiable on a non-trivial input, and the writer does return Ok on it *)
Example file_prog_ok_wf_example :
  let is := [IBlob [1; 2; 3]; IPc [TInteger 0 1000; TSingle] [[VInteger 7; VSingle 5]; [VInteger 1000; VSingle 0]]] in
  forallb item_typed is = true /\
  exists l' outs, wrun_spec (file_prog is [60; 62]) ls_init = (l', Ok outs).
Proof. split; [reflexivity|]. eexists. eexists. vm_compute. reflexivity. Qed.

(** * The float typing hypothesis cannot be dropped *)

(** [VSingle (2^32)] is not a Rust value (an f32 has 32 bits): a model artefact,
    not a crate defect; the model's [values_ok] mirrors the crate, which has
    nothing to check on a float. *)
Example value_repr_needed : exists l' outs,
  wrun_spec (items_write [IPc [TSingle] [[VSingle (2 ^ 32)]]]) ls_init = (l', Ok outs) /\
  forallb item_wf [IPc [TSingle] [[VSingle (2 ^ 32)]]] = false.
Proof. eexists. eexists. split; [vm_compute; reflexivity|vm_compute; reflexivity]. Qed.

(** min <= max is not checked by the writer: without [type_ok] the writer can
    return Ok on an item that is not [item_wf] *)
Example type_ok_needed : exists l' outs,
  wrun_spec (items_write [IPc [TInteger 5 0; TSingle] []]) ls_init = (l', Ok outs) /\
  forallb item_wf [IPc [TInteger 5 0; TSingle] []] = false.
Proof. eexists. eexists. split; [vm_compute; reflexivity|vm_compute; reflexivity]. Qed.

Print Assumptions items_write_ok_wf.
Print Assumptions file_prog_ok_wf.
