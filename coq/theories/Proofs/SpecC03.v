(** C03, binary side, evaluated end to end on one file of the independent
    encoder: a blob of 1019 bytes with 8 bytes of extra padding, the XML in the
    middle, a point cloud with a 0-bit, an 11-bit, a 64-bit and a double record
    in a layout with an index packet first and last, an ignored packet, empty
    chunks, a data packet of empty chunks only and values straddling packets,
    8 bytes of padding, and an empty point cloud. *)
From E57 Require Import Base.Prelude Model.Device Model.PagedReader Model.Record Model.Prog
  Model.QueueReader Model.FileBin Model.ReaderOpen Spec.BitSpec Spec.PageSpec Spec.FormatSpec Spec.FileSpec.
From E57 Require Import Proofs.SpecReader.
Open Scope N_scope.

Definition read_entry (rs : pr) (s : fsection) (off : N) : res (list N) + res (list (list rvalue)) :=
  match s with
  | FBlob data _ => inl (snd (rrun (blob_read (pr_log_size rs) off (len data)) rs))
  | FPc proto points _ _ =>
      inr (snd (rrun (rbind (raw_new off (len points) proto)
                            (fun it => raw_collect (S (length points)) (pr_log_size rs) it [])) rs))
  | FXml => inl (Ok [])
  end.

Example spec_file_read_computed :
  let fl := SpecReadInstance.fl in let x := SpecReadInstance.xml in
  match reader_open (dev_init (spec_encode_file fl x) None) with
  | (_, Ok (rs, h, x')) =>
      x' = x /\ h = mkHeader 1 0 2048 1096 6 1024 /\
      spec_layout_offsets fl (len x) = [48; 1096; 1104; 1288] /\
      map (fun so => read_entry rs (fst so) (snd so)) (combine fl (spec_layout_offsets fl (len x)))
      = [inl (Ok SpecReadInstance.blob); inl (Ok []); inr (Ok SpecReadInstance.pts); inr (Ok [])]
  | _ => False
  end.
Proof. vm_compute. repeat split; reflexivity. Qed.
