(** Corollaries of the reader-program theorems in terms of reachable reader
    states: whatever ran before on the same reader (any program, failed or
    not), an operation that starts with an absolute seek returns what it
    returns on a freshly opened reader; and on an altered file it fails or
    returns the unaltered result. *)
From E57 Require Import Base.Prelude Model.Crc Model.Device Model.PagedReader Spec.PageReadSpec Model.Prog
  Model.Record Model.QueueReader Model.FileBin Model.ReaderOpen
  Proofs.PagedReaderCache Proofs.ReaderProgSem Proofs.ReaderProgStrict Proofs.ReaderProgAlter.

(** the three read operations of an open reader as single programs *)
Definition op_raw_all (fuel : nat) (log_size fo recs : N) (proto : list dtype) : rprog (list (list rvalue)) :=
  rbind (raw_new fo recs proto) (fun it => raw_collect fuel log_size it []).
Definition op_blob (log_size off ln : N) : rprog (list N) := blob_read log_size off ln.

Lemma op_raw_all_seeks fuel ls fo recs proto :
  exists k, op_raw_all fuel ls fo recs proto = ROp (PrSeek fo) k.
Proof. unfold op_raw_all, raw_new, qr_new, r_seek. cbn [rbind]. eexists. reflexivity. Qed.

Lemma op_blob_seeks ls off ln : exists k, op_blob ls off ln = ROp (PrSeek off) k.
Proof. unfold op_blob, blob_read, r_seek. cbn [rbind]. eexists. reflexivity. Qed.

Lemma strict_op_raw_all fuel ls fo recs proto : strict (op_raw_all fuel ls fo recs proto).
Proof. unfold op_raw_all. apply strict_bind; [apply strict_raw_new | intros; apply strict_raw_collect]. Qed.

Lemma strict_op_blob ls off ln : strict (op_blob ls off ln).
Proof. apply strict_blob_read. Qed.

Theorem history_independent_reachable :
  forall ps phys d1 s0 (B : Type) (q : rprog B) (A : Type) (x : N) (k : res pr_out -> rprog A),
  pr_new ps (dev_init phys None) = (d1, Ok s0) ->
  strict (ROp (PrSeek x) k) ->
  snd (rrun (ROp (PrSeek x) k) (fst (rrun q s0))) = snd (rrun (ROp (PrSeek x) k) s0).
Proof.
  intros ps phys d1 s0 B q A x k Hnew Hs.
  destruct (pr_new_inv ps phys d1 s0 Hnew) as [I0 _].
  apply (history_independent ps phys A x k); [ | exact I0 | exact Hs].
  apply rrun_preserves_inv. exact I0.
Qed.

Theorem raw_all_history_independent :
  forall ps phys d1 s0 (B : Type) (q : rprog B) fuel ls fo recs proto,
  pr_new ps (dev_init phys None) = (d1, Ok s0) ->
  snd (rrun (op_raw_all fuel ls fo recs proto) (fst (rrun q s0))) = snd (rrun (op_raw_all fuel ls fo recs proto) s0).
Proof.
  intros. destruct (op_raw_all_seeks fuel ls fo recs proto) as [k Hk].
  pose proof (strict_op_raw_all fuel ls fo recs proto) as Hs. rewrite Hk in *.
  eapply history_independent_reachable; eassumption.
Qed.

Theorem blob_history_independent :
  forall ps phys d1 s0 (B : Type) (q : rprog B) ls off ln,
  pr_new ps (dev_init phys None) = (d1, Ok s0) ->
  snd (rrun (op_blob ls off ln) (fst (rrun q s0))) = snd (rrun (op_blob ls off ln) s0).
Proof.
  intros. destruct (op_blob_seeks ls off ln) as [k Hk].
  pose proof (strict_op_blob ls off ln) as Hs. rewrite Hk in *.
  eapply history_independent_reachable; eassumption.
Qed.

(** alteration, for operations on reader states reached after any history *)
Theorem alteration_reachable :
  forall ps phys phys' d1 s0 d1' s0' (B : Type) (q q' : rprog B) (A : Type) (x : N) (k : res pr_out -> rprog A),
  pr_new ps (dev_init phys None) = (d1, Ok s0) ->
  pr_new ps (dev_init phys' None) = (d1', Ok s0') ->
  no_collision ps phys phys' ->
  strict (ROp (PrSeek x) k) ->
  (exists e, snd (rrun (ROp (PrSeek x) k) (fst (rrun q' s0'))) = Err e) \/
  snd (rrun (ROp (PrSeek x) k) (fst (rrun q' s0'))) = snd (rrun (ROp (PrSeek x) k) (fst (rrun q s0))).
Proof.
  intros ps phys phys' d1 s0 d1' s0' B q q' A x k Hnew Hnew' Hnc Hs.
  destruct (pr_new_inv ps phys d1 s0 Hnew) as [I0 _].
  destruct (pr_new_inv ps phys' d1' s0' Hnew') as [I0' _].
  rewrite (history_independent_reachable ps phys d1 s0 B q A x k Hnew Hs).
  rewrite (history_independent_reachable ps phys' d1' s0' B q' A x k Hnew' Hs).
  destruct (rrun_g_equiv ps phys A (ROp (PrSeek x) k) s0 I0) as [E _].
  destruct (rrun_g_equiv ps phys' A (ROp (PrSeek x) k) s0' I0') as [E' _].
  rewrite E, E'.
  assert (Hps : 4 < ps) by (apply (inv_ps4 ps phys s0 I0)).
  assert (Ho : pr_off s0' = pr_off s0).
  { destruct (pr_new_inv ps phys d1 s0 Hnew) as [_ O1].
    destruct (pr_new_inv ps phys' d1' s0' Hnew') as [_ O2]. congruence. }
  rewrite Ho.
  destruct (alteration_detected ps phys phys' A (ROp (PrSeek x) k) (pr_off s0) Hps Hs Hnc) as [He | [Heq _]].
  - left. exact He.
  - right. exact Heq.
Qed.

Print Assumptions history_independent_reachable.
Print Assumptions alteration_reachable.
