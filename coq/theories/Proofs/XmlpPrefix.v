(** A rendering cut before the end of its root element is not a document: the parser model
    accepts no prefix of [render c d] that ends before the final '>' of the root element's end
    tag.  (Property C15: a torn write leaves a proper prefix of the XML section.)
    Proof: a successful parse of an element does not depend on what follows the bytes it
    consumed (Proofs/XmlpExt.v); extended to the whole rendering, the root element parsed from
    the prefix would have to end where the rendering's root element ends. *)
From Coq Require Import Lia ZifyN ZifyNat ZifyBool.
From E57 Require Import Base.Prelude Model.XmlTree Model.XmlParse Spec.XmlRender
  Proofs.XmlpLex Proofs.XmlpFuel Proofs.XmlpRoundtrip Proofs.XmlpRoundtripDoc Proofs.XmlpFacts Proofs.XmlpPrefixBase Proofs.XmlpExt.

Local Open Scope N_scope.

(** [parse_document] after the byte order mark and the declaration *)
Definition parse_body (fuel : nat) (s1 : list N) : pres (xdoc * N) :=
  pbind (parse_misc fuel s1) (fun '(pre, s2) =>
  if starts_with s_doctype s2 then PErr else
  match s2 with
  | 60 :: r =>
    pbind (parse_element fuel None r) (fun '(root, cnt, s3) =>
    pbind (parse_misc fuel s3) (fun '(post, s4) =>
    if is_nil s4 then POk (mkXDoc (pre ++ root :: post), cnt) else PErr))
  | _ => PErr
  end).

Lemma parse_document_body : forall fuel bytes,
  parse_document fuel bytes =
    let s0 := match strip_prefix s_bom bytes with Some r => r | None => bytes end in
    pbind (if starts_with s_decl_open s0 then of_opt (parse_declaration (skipn 5 s0)) else POk s0) (parse_body fuel).
Proof. reflexivity. Qed.

Lemma scan_qname_head : forall s p l r, scan_qname s = Some (p, l, r) -> exists b s', s = b :: s' /\ b <> 33 /\ b <> 63.
Proof.
  intros [|b s'] p l r H.
  - vm_compute in H. discriminate.
  - exists b, s'. split; [reflexivity|]. split; intros E; subst b; unfold scan_qname in H; cbn [scan_name_run] in H.
    + change (33 <? 128) with true in H. change (is_name_ascii 33) with false in H. cbv iota in H.
      vm_compute in H. discriminate.
    + change (63 <? 128) with true in H. change (is_name_ascii 63) with false in H. cbv iota in H.
      vm_compute in H. discriminate.
Qed.

Lemma parse_element_head : forall f ps s x, parse_element f ps s = POk x -> exists b s', s = b :: s' /\ b <> 33 /\ b <> 63.
Proof.
  intros f ps s x H. unfold parse_element, parse_element_with in H.
  destruct (scan_qname s) as [[[p l] r]|] eqn:E; [|discriminate].
  exact (scan_qname_head s p l r E).
Qed.

Theorem parse_prefix_fails : forall c d p d',
  wf_doc d = true -> is_prefix p (render c d) -> cuts_root_element c d p -> xml_parse p <> ParseOk d'.
Proof.
  intros c d p d' Hwf Hpre Hcut Hok.
  destruct (doc_steps c d Hwf) as (pre & root & post & b & r & fe & El & Hmp & Hmq & Hr & Hrest).
  cbv zeta in Hrest. destruct Hrest as (ER & Hnd & (b0 & r0 & E0 & Hb0) & Hmisc & H33 & H63 & Helem & Htail).
  set (NODES := render_doc_nodes c 0%nat (xd_children d)) in *.
  set (S3 := render_doc_nodes c (S (length pre)) post) in *.
  set (PRO := (if rc_bom c then BOM else []) ++ render_decl (rc_decl c)).
  assert (ER' : render c d = PRO ++ NODES) by (rewrite ER; unfold PRO; rewrite <- app_assoc; reflexivity).
  unfold cuts_root_element in Hcut. rewrite Htail, ER' in Hcut. rewrite ER' in Hpre.
  destruct (is_prefix_app_cases p PRO NODES Hpre) as [(q & Ep & [x Ex]) | (Hp & Hl)].
  2:{ (* cut inside the prolog *)
      assert (N := prolog_prefixes (rc_bom c) (rc_decl c) (length p) Hl). fold PRO in N.
      rewrite <- (is_prefix_firstn p PRO Hp) in N. rewrite Hok in N. discriminate. }
  (* the prolog is complete: p = PRO ++ q, NODES = q ++ x *)
  unfold xml_parse in Hok.
  destruct (parse_document (S (length p)) p) as [[d0 cnt0]| |] eqn:PD; try discriminate. clear Hok.
  assert (PB : parse_body (S (length p)) q = POk (d0, cnt0)).
  { rewrite parse_document_body in PD. cbv zeta in PD.
    assert (EB : match strip_prefix s_bom p with Some r1 => r1 | None => p end = render_decl (rc_decl c) ++ q).
    { rewrite Ep. unfold PRO. destruct (rc_bom c).
      - rewrite <- !app_assoc. change BOM with s_bom. rewrite strip_prefix_app. reflexivity.
      - cbn [app]. destruct (rc_decl c); cbn [render_decl app]; [|reflexivity].
        destruct q as [|y q']; [reflexivity|].
        rewrite E0 in Ex. cbn [app] in Ex. injection Ex as Ey _. subst y.
        unfold s_bom. cbn [strip_prefix]. apply N.eqb_neq in Hb0. rewrite (N.eqb_sym 239), Hb0. reflexivity. }
    rewrite EB in PD.
    assert (ED : (if starts_with s_decl_open (render_decl (rc_decl c) ++ q)
                  then of_opt (parse_declaration (skipn 5 (render_decl (rc_decl c) ++ q)))
                  else POk (render_decl (rc_decl c) ++ q)) = POk q).
    { destruct (rc_decl c); cbn [render_decl app].
      - destruct (starts_with s_decl_open q) eqn:Es; [|reflexivity].
        assert (starts_with s_decl_open NODES = true) by (apply (starts_with_is_prefix _ q); [exact Es | exists x; exact Ex]).
        congruence.
      - destruct (decl_std_parses q) as [D1 D2]. rewrite D1, D2. reflexivity. }
    rewrite ED in PD. cbn [pbind] in PD. exact PD. }
  clear PD.
  (* take the successful parse of q apart *)
  unfold parse_body in PB.
  apply pbind_ok in PB. destruct PB as ([pre' s2'] & PM & PB).
  destruct (starts_with s_doctype s2'); [discriminate|].
  destruct s2' as [|h r']; [discriminate|].
  num_cases PB h.
  assert (PB' : pbind (parse_element (S (length p)) None r') (fun '(root0, cnt, s3) =>
                 pbind (parse_misc (S (length p)) s3) (fun '(post0, s4) =>
                 if is_nil s4 then POk (mkXDoc (pre' ++ root0 :: post0), cnt) else PErr)) = POk (d0, cnt0)) by exact PB.
  clear PB. apply pbind_ok in PB'. destruct PB' as ([[root' cnt'] s3'] & PE & _).
  destruct (parse_element_head _ _ _ _ PE) as (b' & r'' & Er' & Hb33 & Hb63). subst r'.
  (* a common fuel *)
  set (G := Nat.max (S (length p)) (Nat.max (length pre + 1) fe)).
  assert (PMg : parse_misc G q = POk (pre', 60 :: b' :: r'')) by (apply (parse_misc_ok_mono _ G _ _ PM); unfold G; lia).
  assert (PEg : parse_element G None (b' :: r'') = POk (root', cnt', s3')) by (apply (parse_element_ok_mono _ G _ _ _ PE); unfold G; lia).
  assert (KMg : parse_misc G NODES = POk (pre, 60 :: b :: r ++ S3)) by (apply (parse_misc_ok_mono _ G _ _ Hmisc); unfold G; lia).
  assert (KEg : parse_element G None ((b :: r) ++ S3) = POk (root, decl_count None root, S3)) by (apply (parse_element_ok_mono _ G _ _ _ Helem); unfold G; lia).
  (* extend the parse of the prefix to the whole rendering *)
  assert (XM := parse_misc_ext G q pre' b' r'' x PMg Hb33 Hb63). rewrite <- Ex in XM.
  rewrite KMg in XM. injection XM as Epre Eb Er.
  assert (XE := parse_element_ext G None (b' :: r'') root' cnt' s3' x PEg).
  change ((b' :: r'') ++ x) with (b' :: r'' ++ x) in XE. rewrite <- Eb, <- Er in XE.
  change (b :: r ++ S3) with ((b :: r) ++ S3) in XE. rewrite KEg in XE. injection XE as _ _ Es3.
  (* lengths *)
  assert (L1 : length S3 = (length s3' + length x)%nat) by (rewrite Es3, app_length; reflexivity).
  assert (L2 : length NODES = (length q + length x)%nat) by (rewrite Ex, app_length; reflexivity).
  rewrite Ep in Hcut. rewrite !app_length in Hcut. lia.
Qed.

(** * The writer's rendering *)
Definition root_is_last (d : xdoc) : bool :=
  match rev (xd_children d) with x :: _ => is_element x | [] => false end.

Lemma doc_tail_root_last : forall c d, wf_doc d = true -> root_is_last d = true ->
  doc_tail c d = blanks (rc_doc_ws c (length (xd_children d))).
Proof.
  intros c d Hwf Hlast.
  destruct (doc_steps c d Hwf) as (pre & root & post & b & r & fe & El & Hmp & Hmq & Hr & Hrest).
  cbv zeta in Hrest. destruct Hrest as (_ & _ & _ & _ & _ & _ & _ & Htail).
  rewrite Htail. unfold root_is_last in Hlast. rewrite El in *.
  destruct post as [|y post'] using rev_ind.
  - cbn [render_doc_nodes]. replace (length (pre ++ [root])) with (S (length pre)) by (rewrite app_length; cbn [length]; lia). reflexivity.
  - exfalso. clear IHpost'. rewrite forallb_app in Hmq. cbn [forallb] in Hmq. rewrite !andb_true_iff in Hmq.
    destruct Hmq as [_ [Hy _]].
    change (pre ++ root :: post' ++ [y]) with (pre ++ (root :: post') ++ [y]) in Hlast.
    rewrite app_assoc, rev_app_distr in Hlast. cbn [rev app] in Hlast.
    rewrite (misc_not_element y Hy) in Hlast. discriminate.
Qed.

(** every prefix of the writer's rendering that is at least 2 bytes short (the rendering ends
    with the root's end tag and one LF) is rejected, provided the root element is the last
    document-level node (the crate's writer writes nothing after it) *)
Corollary writer_prefix_fails : forall d p d',
  wf_doc d = true -> root_is_last d = true -> is_prefix p (render writer_choices d) ->
  (length p + 2 <= length (render writer_choices d))%nat -> xml_parse p <> ParseOk d'.
Proof.
  intros d p d' Hwf Hlast Hp Hlen. apply (parse_prefix_fails writer_choices d p d' Hwf Hp).
  unfold cuts_root_element. rewrite (doc_tail_root_last writer_choices d Hwf Hlast).
  assert (E : forall i, blanks (rc_doc_ws writer_choices i) = [10]) by reflexivity. rewrite E. cbn [length]. lia.
Qed.

(** without [root_is_last] the statement is false: a comment after the root element can be cut off *)
Definition ex_trailing : xdoc := mkXDoc [XElem (mkXName None [97]) [] [] []; XComment [99]].   (* <a/> <!--c--> *)
Example writer_prefix_needs_root_last :
  wf_doc ex_trailing = true /\
  let R := render writer_choices ex_trailing in
  let p := firstn (length R - 9) R in
  firstn (length p) R = p /\ (length p + 2 <= length R)%nat /\
  xml_parse p = ParseOk (mkXDoc [XElem (mkXName None [97]) [] [] []]).
Proof. vm_compute. repeat split; try reflexivity. repeat constructor. Qed.

(** the bytes the crash analysis hands over: the empty string and proper prefixes *)
Example ex_prefixes_rejected :
  forallb (fun k => not_ok (xml_parse (firstn k XmlpFacts.ex_bytes))) (seq 0 (length XmlpFacts.ex_bytes - 1)) = true.
Proof. vm_compute. reflexivity. Qed.
