(** Whole writer, part 5: the API-level form of C02.  The file left by a
    complete program in which every call returned Ok is accepted by the
    INDEPENDENT decoder of Spec/FileSpec.v with the descriptors taken from its
    own XML text (Spec/FileSpecXml.v), and that decoder returns the metadata the
    state machine holds and, for every descriptor the XML states, the points /
    bytes of the unit that [explains] ties it to.  Composition of
    [complete_prog] / the metadata invariant (Proofs/WapiFull*.v) with slice
    spec's [writer_file_wellformed_xml] (Proofs/SpecXml.v): its hypotheses
    [item_typed], [Hwf], [Hext] and [Hdesc] are discharged here. *)
From Coq Require Import ZArith Lia Bool Permutation.
From E57 Require Import Base.Prelude Base.Floats Model.Device Model.PagedWriter Spec.PageSpec Model.Prog Model.Record
  Model.PcWriter Model.FileBin Spec.BitSpec Spec.FormatSpec Spec.FileSpec
  Model.Meta Model.MetaFile Model.XmlTree Model.XmlGen Model.XmlParse Model.XmlExtract Spec.XmlRender Spec.MetaTree
  Spec.XgWriterOk Spec.XeMetaOk Spec.FileSpecXml Model.WriterApi Model.WriterFull.
From E57 Require Import Proofs.PagedWriterProofs Proofs.ProgTransfer Proofs.FileRtWriter Proofs.SpecWriter Proofs.SpecWriterOk
  Proofs.SpecXml Proofs.SpecProtoFinal Proofs.WapiFloatLimits Proofs.XgRender Proofs.XgWf Proofs.XgTotal Proofs.XeTreeMain
  Proofs.WapiProg Proofs.WapiInv Proofs.WapiMain Proofs.WapiFullProg Proofs.WapiFullMeta Proofs.WapiFullInv Proofs.WapiFull.
From Coq Require Import ZifyN ZifyNat ZifyBool.
Open Scope N_scope.

(** * Items that passed the writer are typed *)
Lemma point_ok_repr : forall proto p, point_ok proto p = true -> forallb value_repr p = true.
Proof.
  unfold point_ok. intros proto p H. apply andb_prop in H as [Hl Hf]. apply Nat.eqb_eq in Hl.
  revert p Hl Hf. induction proto as [|t pr IH]; intros [|v vr] Hl Hf; try discriminate; [reflexivity|].
  cbn [combine forallb fst snd] in Hf. apply andb_prop in Hf as [Hv Hr]. cbn [forallb].
  rewrite (IH vr) by (cbn [length] in Hl; try lia; exact Hr). rewrite andb_true_r.
  unfold in_range, stored in Hv. destruct t, v; try discriminate; cbn [value_repr]; try reflexivity.
  - destruct (bits <? 2 ^ 32); [reflexivity|discriminate].
  - destruct (bits <? 2 ^ 64); [reflexivity|discriminate].
Qed.

Lemma item_wf_typed i : item_wf i = true -> item_typed i = true.
Proof.
  destruct i as [data|proto points]; [reflexivity|]. cbn [item_wf item_typed]. intros H.
  apply andb_prop in H as [H _]. unfold scene_ok in H. apply andb_prop in H as [H _]. apply andb_prop in H as [Ht Hp].
  rewrite Ht. cbn [andb]. rewrite forallb_forall in *. intros p Hin. apply (point_ok_repr proto). apply Hp. exact Hin.
Qed.

Lemma items_wf_typed is : forallb item_wf is = true -> forallb item_typed is = true.
Proof.
  rewrite !forallb_forall. intros H i Hi. apply item_wf_typed. apply H. exact Hi.
Qed.

(** * Outputs have the kind of their items *)
Definition same_kind (i : FileBin.item) (o : item_out) : Prop :=
  match i, o with IBlob _, OBlob _ _ | IPc _ _, OPc _ _ => True | _, _ => False end.

Lemma items_write_kinds : forall is l l' os, wrun_spec (items_write is) l = (l', Ok os) -> Forall2 same_kind is os.
Proof.
  induction is as [|i r IH]; intros l l' os H.
  - cbn [items_write wret wrun_spec] in H. inversion H. constructor.
  - cbn [items_write] in H. rewrite run_bind in H.
    destruct (wrun_spec (item_write i) l) as [l1 [o|k|]] eqn:E1; cbn [fst snd] in H; try discriminate H.
    rewrite run_bind in H.
    destruct (wrun_spec (items_write r) l1) as [l2 [or|k|]] eqn:E2; cbn [fst snd wret wrun_spec] in H; try discriminate H.
    inversion H; subst. constructor; [|apply (IH _ _ _ E2)].
    destruct i; cbn [item_write] in E1; rewrite run_bind in E1.
    + destruct (wrun_spec (blob_write data) l) as [lx [[o0 n0]|k|]]; cbn [fst snd wret wrun_spec] in E1; inversion E1. exact I.
    + destruct (wrun_spec (pcw_new proto) l) as [lx [w|k|]]; cbn [fst snd] in E1; try discriminate E1.
      rewrite run_bind in E1.
      destruct (wrun_spec (add_points points w) lx) as [ly [w1|k|]]; cbn [fst snd] in E1; try discriminate E1.
      rewrite run_bind in E1.
      destruct (wrun_spec (pcw_finalize w1) ly) as [lz [[[w2 off] n]|k|]]; cbn [fst snd wret wrun_spec] in E1; inversion E1. exact I.
Qed.

Lemma file_prog_kinds is xml l os : wrun_spec (file_prog is xml) ls_init = (l, Ok os) -> Forall2 same_kind is os.
Proof.
  unfold file_prog. rewrite run_bind.
  destruct (wrun_spec writer_init ls_init) as [l0 [[]|k|]]; cbn [fst snd]; try discriminate.
  rewrite run_bind.
  destruct (wrun_spec (items_write is) l0) as [l1 [os1|k|]] eqn:E; cbn [fst snd]; try discriminate.
  rewrite run_bind.
  destruct (wrun_spec (writer_finalize xml) l1) as [l2 [[]|k|]]; cbn [fst snd wret wrun_spec]; try discriminate.
  intros H. inversion H; subst. apply (items_write_kinds _ _ _ _ E).
Qed.

Lemma item_descriptors_app : forall a oa b ob, Forall2 same_kind a oa ->
  item_descriptors (a ++ b) (oa ++ ob) = item_descriptors a oa ++ item_descriptors b ob.
Proof.
  induction 1 as [|i o a oa Hk _ IH]; [reflexivity|].
  destruct i, o; try destruct Hk; cbn [app item_descriptors]; rewrite IH; reflexivity.
Qed.

(** * The descriptors of an image are among those its blobs were published with *)
Definition blobs_d (im : image) : list descriptor := map blob_descriptor (image_blobs im).

Lemma im_set_blobs f im : blobs_d (im_set f im) = blobs_d im.
Proof. destruct im, f; reflexivity. Qed.

Definition vr_d (im : image) : list descriptor :=
  match im_visual_reference im with
  | Some v => map blob_descriptor (ib_data (vr_blob v) :: opt_list (vr_mask v))
  | None => []
  end.
Definition pr_d (im : image) : list descriptor :=
  map blob_descriptor
    match im_projection im with
    | Some (PPinhole p) => ib_data (ph_blob p) :: opt_list (ph_mask p)
    | Some (PSpherical s) => ib_data (si_blob s) :: opt_list (si_mask s)
    | Some (PCylindrical c) => ib_data (ci_blob c) :: opt_list (ci_mask c)
    | None => []
    end.
Lemma blobs_d_split im : blobs_d im = vr_d im ++ pr_d im.
Proof. unfold blobs_d, image_blobs, vr_d, pr_d. rewrite map_app. destruct (im_visual_reference im); reflexivity. Qed.

(** the outputs of one image call, as descriptors *)
Lemma take_blobs_spec data mask outs rest : Forall2 same_kind (IBlob data :: mask_items mask) outs ->
  exists b m, take_blobs mask (outs ++ rest) = (b, m, rest) /\
    item_descriptors (IBlob data :: mask_items mask) outs = map blob_descriptor (b :: opt_list m).
Proof.
  intros H. inversion H as [|i o a oa Hk Hr]; subst. destruct o as [off l|]; [|destruct Hk].
  destruct mask as [md|]; cbn [mask_items] in *.
  - inversion Hr as [|i2 o2 a2 oa2 Hk2 Hr2]; subst. inversion Hr2; subst. destruct o2 as [off2 l2|]; [|destruct Hk2].
    exists (mkBlob off l), (Some (mkBlob off2 l2)). split; reflexivity.
  - inversion Hr; subst. exists (mkBlob off l), None. split; reflexivity.
Qed.

Lemma perm_replace_front (A : Type) (newd old keep fin r' ID : list A) :
  Permutation (fin ++ r') ((newd ++ keep) ++ ID) ->
  Permutation (fin ++ r' ++ old) ((old ++ keep) ++ newd ++ ID).
Proof.
  intros H. rewrite app_assoc. eapply Permutation_trans; [apply Permutation_app_tail; exact H|].
  rewrite <- !app_assoc.
  (* newd ++ keep ++ ID ++ old  ~  old ++ keep ++ newd ++ ID *)
  eapply Permutation_trans; [apply Permutation_app_swap_app|].
  eapply Permutation_trans; [|apply Permutation_app_comm]. rewrite <- !app_assoc. reflexivity.
Qed.

Lemma perm_replace_back (A : Type) (newd old keep fin r' ID : list A) :
  Permutation (fin ++ r') ((keep ++ newd) ++ ID) ->
  Permutation (fin ++ r' ++ old) ((keep ++ old) ++ newd ++ ID).
Proof.
  intros H. rewrite app_assoc. eapply Permutation_trans; [apply Permutation_app_tail; exact H|].
  rewrite <- !app_assoc. apply Permutation_app_head.
  (* newd ++ ID ++ old ~ old ++ newd ++ ID *)
  eapply Permutation_trans; [|apply Permutation_app_comm]. rewrite <- !app_assoc. reflexivity.
Qed.

Lemma im_ref_perm : forall ibody outs im,
  Forall2 same_kind (flat_map im_call_items ibody) outs ->
  exists r, Permutation (blobs_d (im_ref ibody outs im) ++ r)
                        (blobs_d im ++ item_descriptors (flat_map im_call_items ibody) outs).
Proof.
  induction ibody as [|c ibody IH]; intros outs im Hk.
  - cbn [flat_map] in Hk. inversion Hk; subst. exists []. cbn [im_ref item_descriptors flat_map]. reflexivity.
  - cbn [flat_map] in Hk.
    assert (Skip : im_call_items c = [] -> (forall o, im_ref (c :: ibody) o im = im_ref ibody o im) ->
              exists r, Permutation (blobs_d (im_ref (c :: ibody) outs im) ++ r)
                                    (blobs_d im ++ item_descriptors (flat_map im_call_items (c :: ibody)) outs)).
    { intros E Hs. cbn [flat_map]. rewrite E in *. cbn [app] in *. rewrite Hs. apply IH. exact Hk. }
    assert (Vis : forall data mask mk,
              im_call_items c = IBlob data :: mask_items mask ->
              (forall o, im_ref (c :: ibody) o im = let '(b, m, o') := take_blobs mask o in im_ref ibody o' (mk b m)) ->
              (forall b m, (vr_d (mk b m) = map blob_descriptor (b :: opt_list m) /\ pr_d (mk b m) = pr_d im) \/
                           (pr_d (mk b m) = map blob_descriptor (b :: opt_list m) /\ vr_d (mk b m) = vr_d im)) ->
              exists r, Permutation (blobs_d (im_ref (c :: ibody) outs im) ++ r)
                                    (blobs_d im ++ item_descriptors (flat_map im_call_items (c :: ibody)) outs)).
    { intros data mask mk E Hs Hd. cbn [flat_map]. rewrite E in *.
      apply Forall2_app_inv_l in Hk as (o1 & o2 & Hk1 & Hk2 & ->).
      destruct (take_blobs_spec data mask o1 o2 Hk1) as (b & m & Ht & Hid).
      rewrite Hs, Ht. destruct (IH o2 (mk b m) Hk2) as (r' & Hp).
      rewrite item_descriptors_app by exact Hk1. rewrite Hid.
      rewrite (blobs_d_split im). rewrite (blobs_d_split (mk b m)) in Hp.
      destruct (Hd b m) as [[H1 H2]|[H1 H2]]; rewrite H1, H2 in Hp.
      - exists (r' ++ vr_d im). apply perm_replace_front. exact Hp.
      - exists (r' ++ pr_d im). apply perm_replace_back. exact Hp. }
    destruct c; try (apply Skip; [reflexivity|intros o; reflexivity]).
    + cbn [flat_map im_call_items app im_ref] in *. destruct (IH outs (im_set f im) Hk) as (r & Hp).
      exists r. rewrite im_set_blobs in Hp. exact Hp.
    + apply (Vis data mask (fun b m => im_set_visual (mkVisRef (mkImageBlob b fmt) m width height) im)); [reflexivity|intros o; reflexivity|].
      intros b m. left. destruct im; split; reflexivity.
    + apply (Vis data mask (fun b m => im_set_projection (PPinhole (mkPinhole (mkImageBlob b fmt) m (php_width props) (php_height props)
                 (php_focal_length props) (php_pixel_width props) (php_pixel_height props) (php_principal_x props) (php_principal_y props))) im));
        [reflexivity|intros o; reflexivity|]. intros b m. right. destruct im; split; reflexivity.
    + apply (Vis data mask (fun b m => im_set_projection (PSpherical (mkSphImg (mkImageBlob b fmt) m (spp_width props) (spp_height props)
                 (spp_pixel_width props) (spp_pixel_height props))) im));
        [reflexivity|intros o; reflexivity|]. intros b m. right. destruct im; split; reflexivity.
    + apply (Vis data mask (fun b m => im_set_projection (PCylindrical (mkCylImg (mkImageBlob b fmt) m (cyp_width props) (cyp_height props)
                 (cyp_radius props) (cyp_principal_y props) (cyp_pixel_width props) (cyp_pixel_height props))) im));
        [reflexivity|intros o; reflexivity|]. intros b m. right. destruct im; split; reflexivity.
Qed.

(** * The descriptors the metadata states are among those the items were published with *)
Definition state_descriptors (pcs : list pointcloud) (ims : list image) : list descriptor :=
  map pointcloud_descriptor pcs ++ flat_map blobs_d ims.

Lemma app_inj_length (A : Type) : forall (a c b d : list A), length a = length c -> a ++ b = c ++ d -> a = c /\ b = d.
Proof.
  induction a as [|x a IH]; intros [|y c] b d Hl H; try discriminate Hl.
  - split; [reflexivity|exact H].
  - cbn [app] in H. injection H as -> H. cbn [length] in Hl. destruct (IH c b d) as [-> ->]; [lia|exact H|]. split; reflexivity.
Qed.

Lemma same_kind_length a oa : Forall2 same_kind a oa -> length a = length oa.
Proof. induction 1; cbn [length]; congruence. Qed.

Lemma perm_im (A : Type) (P Bim F r rest IDa IDis : list A) :
  Permutation (Bim ++ r) IDa -> Permutation ((P ++ F) ++ rest) IDis ->
  Permutation ((P ++ Bim ++ F) ++ r ++ rest) (IDa ++ IDis).
Proof.
  intros H1 H2. eapply Permutation_trans; [|apply Permutation_app; [exact H1|exact H2]].
  rewrite <- !app_assoc. eapply Permutation_trans; [apply Permutation_app_swap_app|]. apply Permutation_app_head.
  eapply Permutation_trans; [|apply Permutation_app_comm]. rewrite <- !app_assoc.
  do 2 apply Permutation_app_head. apply Permutation_app_comm.
Qed.

Lemma explains_descriptors : forall tops is os pcs ims bl,
  explains tops is os pcs ims bl -> Forall2 same_kind is os ->
  exists rest, Permutation (state_descriptors pcs ims ++ rest) (item_descriptors is os).
Proof.
  induction 1 as [|c r is os pcs ims bl Hs _ IH|data off ln r is os pcs ims bl _ IH
                 |guid proto body off n pc r is os pcs ims bl _ _ _ _ Hpr Hoff Hn _ IH
                 |guid ibody iouts r is os pcs ims bl _ Hlen _ IH]; intros Hk.
  - exists []. reflexivity.
  - apply IH. exact Hk.
  - inversion Hk; subst. destruct IH as (rest & Hp); [assumption|].
    exists (DBlob off ln :: rest). cbn [item_descriptors]. apply Permutation_sym, Permutation_cons_app, Permutation_sym. exact Hp.
  - inversion Hk; subst. destruct IH as (rest & Hp); [assumption|].
    exists rest. cbn [item_descriptors]. unfold state_descriptors. cbn [map app].
    replace (pointcloud_descriptor pc) with (DPc (pc_file_offset pc) (pc_records pc) (proto_dtypes (pc_prototype pc))) by reflexivity.
    apply perm_skip. exact Hp.
  - apply Forall2_app_inv_l in Hk as (o1 & o2 & Hk1 & Hk2 & E).
    destruct (app_inj_length _ iouts o1 os o2) as [-> ->]; [rewrite Hlen; apply (same_kind_length _ _ Hk1)|exact E|].
    destruct (IH Hk2) as (rest & Hp). destruct (im_ref_perm ibody o1 (image_new guid) Hk1) as (r1 & Hp1).
    exists (r1 ++ rest). rewrite item_descriptors_app by exact Hk1. unfold state_descriptors. cbn [flat_map].
    apply perm_im; [exact Hp1|exact Hp].
Qed.

(** * Filling in the float texts does not touch the descriptors *)
Section Fill.
Variables fmt64 fmt32 : N -> xstring.

Lemma fill_type_dtype t : dtype_of (fill_type fmt64 fmt32 t) = dtype_of t.
Proof. destruct t; reflexivity. Qed.

Lemma fill_pc_descriptor pc : pointcloud_descriptor (fill_pc fmt64 fmt32 pc) = pointcloud_descriptor pc.
Proof.
  unfold pointcloud_descriptor. destruct pc; cbn. f_equal.
  rewrite map_map. apply map_ext. intros r. apply fill_type_dtype.
Qed.

Lemma fill_im_blobs im : image_blobs (fill_im fmt64 im) = image_blobs im.
Proof.
  unfold image_blobs. destruct im as [g v p]; cbn. f_equal.
  destruct p as [[x|x|x]|]; reflexivity.
Qed.

Lemma fill_meta_descriptors m :
  meta_descriptors (reader_view (fill_meta fmt64 fmt32 m)) = state_descriptors (fm_pointclouds m) (fm_images m).
Proof.
  unfold meta_descriptors, state_descriptors, reader_view, fill_meta. cbn [fm_pointclouds fm_images].
  rewrite map_map. f_equal.
  - apply map_ext. apply fill_pc_descriptor.
  - induction (fm_images m) as [|im r IH]; [reflexivity|]. cbn [map flat_map]. rewrite IH, fill_im_blobs. reflexivity.
Qed.
End Fill.

(** * The composed theorem *)
Section Spec.
Variables fmt64 fmt32 : N -> xstring.
Variables pf64 pf32 : xstr -> option N.
Variable fdiv : N -> Z -> N.
Variable version : xstring.
Hypothesis plain64 : forall b, plain_text (fmt64 b) = true.
Hypothesis plain32 : forall b, plain_text (fmt32 b) = true.
Hypothesis back64 : forall b, pf64 (fmt64 b) = Some (canon64 b).
Hypothesis back32 : forall b, pf32 (fmt32 b) = Some (canon32 b).
Hypothesis version_ok : string_ok (lib_version_text version) = true.
(** the float oracles read "0" as +0.0 (the sample value of a prototype element without limits) *)
Hypothesis zero64 : pf64 [48] = Some 0.
Hypothesis zero32 : pf32 [48] = Some 0.

Notation G := (gen_xml_full fmt64 fmt32).
Notation L := (lib_version_text version).

Theorem api_wellformed : forall guid tops s st rs,
  units tops ->
  Forall call_ok (NewWriter guid :: tops ++ [Finalize]) ->
  wrun (writer_run fmt64 fmt32 version (NewWriter guid :: tops ++ [Finalize])) pw0 = (s, Ok (st, rs)) ->
  Forall res_ok rs ->
  forallb pc_u64 (ws_pcs st) = true -> forallb im_ok (ws_imgs st) = true ->
  len (ws_exts st) < 65535 ->
  len (d_bytes (pw_dev (fst (pw_flush s)))) < 2 ^ 64 ->
  let f := d_bytes (pw_dev (fst (pw_flush s))) in
  let m' := reader_view (fill_meta fmt64 fmt32 (ws_meta st)) in
  spec_wellformed_xml pf64 pf32 fdiv f = true /\
  exists is os xml bl cs,
    explains tops is os (ws_pcs st) (ws_imgs st) bl /\
    gen_root (fill_meta fmt64 fmt32 (ws_meta st)) = Ok xml /\
    spec_decode_file_xml pf64 pf32 fdiv f = Some (m', mkDecoded xml cs) /\
    length cs = length (meta_descriptors m') /\
    forall d cnt, In (d, cnt) (combine (meta_descriptors m') cs) ->
                  In (d, cnt) (combine (item_descriptors is os) (map item_content is)).
Proof.
  intros guid tops s st rs Hu Hcalls Hrun Hok Hu64 Himok Hext Hfsz f m'.
  set (calls := NewWriter guid :: tops ++ [Finalize]) in *.
  set (p := writer_run fmt64 fmt32 version calls) in *.
  destruct (wrun_image _ p) as (Hres & _ & Himg). rewrite Hrun in Hres, Himg. cbn [fst snd] in Hres, Himg.
  destruct (wrun_spec p ls_init) as [l r] eqn:Espec. cbn [fst snd] in Hres, Himg. subst r.
  assert (Hwf : Forall call_wf calls) by (rewrite Forall_forall in *; intros c Hc; apply (Hcalls c Hc)).
  assert (Hwft : Forall call_wf tops).
  { subst calls. apply Forall_inv_tail in Hwf. apply Forall_app in Hwf as [H _]. exact H. }
  destruct (complete_prog G L guid tops l st rs Hu Hwft Espec Hok)
    as (is & os & xml & bl & st1 & Hex & Hgen & Hmeta & _ & Hfp).
  rewrite <- Hmeta in Hgen. unfold gen_xml_full in Hgen.
  pose proof (explains_limits_complete _ _ _ _ _ _ Hex) as Hlc.
  pose proof (meta_run G L (gen_full_total fmt64 fmt32) version_ok calls ws_init ls_init l st rs ws_inv_init meta_inv_init Hcalls Espec)
    as (He & Hr & Hp & Hi & _).
  destruct (meta_final fmt64 fmt32 plain64 plain32 (ws_meta st) He Hext Hr Hp Hi Hlc Hu64 Himok) as (M1 & M2 & M3).
  pose proof (float_oracle_fill fmt64 fmt32 pf64 pf32 back64 back32 (ws_meta st)) as M4.
  set (m := fill_meta fmt64 fmt32 (ws_meta st)) in *.
  pose proof (gen_is_render m xml M1 Hgen) as Hxml.
  (* the same file from [file_prog] on the paged device *)
  destruct (wrun (file_prog is xml) pw0) as [s' r'] eqn:Hrun'.
  destruct (wrun_image _ (file_prog is xml)) as (Hres2 & _ & Himg2).
  rewrite Hrun', Hfp in Hres2, Himg2. cbn [fst snd] in Hres2, Himg2. subst r'.
  assert (Hsame : d_bytes (pw_dev (fst (pw_flush s'))) = f) by (subst f; congruence).
  (* slice spec's hypotheses *)
  pose proof (file_prog_kinds is xml l os Hfp) as Hk.
  destruct (explains_descriptors _ _ _ _ _ _ Hex Hk) as (rest & Hperm).
  assert (Hdesc : Permutation (meta_descriptors m' ++ rest) (item_descriptors is os)).
  { subst m' m. rewrite fill_meta_descriptors. exact Hperm. }
  rewrite Hxml in Hrun'.
  pose proof (writer_file_wellformed_xml pf64 pf32 fdiv is os s' m m' writer_choices rest
                (items_wf_typed is (explains_items_wf _ _ _ _ _ _ Hex))
                (tree_of_wf m M1 M2) (extract_tree_of pf64 pf32 fdiv m M3 M4) Hdesc
                (tree_of_proto_values_ok pf64 pf32 m M3 M4 zero64 zero32 (meta_limits_ordered fmt64 fmt32 (ws_meta st) Hp))
                Hrun') as Hspec.
  cbv zeta in Hspec. rewrite Hsame in Hspec. rewrite <- Hxml in Hspec.
  destruct (Hspec Hfsz) as (Hw & cs & Hd & Hlen & Hin).
  split; [exact Hw|]. exists is, os, xml, bl, cs. repeat split; assumption.
Qed.

End Spec.

Print Assumptions api_wellformed.
