(** G1: the crate's table-driven CRC-32C ([Model.Crc]) computes the bit-serial
    CRC-32C of [Spec.CrcSpec] for every byte string.

    Method: the zero-input bit step [crc_bit_step] is GF(2)-linear, hence so
    is [crc_entry] (eight bit steps), and one table step is
    [crc_step s x = crc_entry (s xor (x land 255))] for *all* [s] and [x]
    (no range hypothesis).  The bit-serial processing of one byte is affine in
    the register with the same linear part, and its constant part is checked
    on the 256 byte values. *)
From Coq Require Import ZifyN ZifyNat ZifyBool.
From E57 Require Import Base.Prelude Model.Crc Spec.CrcSpec.
Ltac Zify.zify_post_hook ::= Z.div_mod_to_equations.

(** * Xor algebra *)

(** Decide an equation between xor-combinations of atoms, bit by bit. *)
Ltac xor_bits :=
  apply N.bits_inj; intro;
  repeat (rewrite N.lxor_spec || rewrite N.land_spec || rewrite N.bits_0);
  repeat match goal with
         | |- context [N.testbit ?a ?n] => destruct (N.testbit a n)
         end; reflexivity.

Lemma lxor_swap4 a b c d :
  N.lxor (N.lxor a b) (N.lxor c d) = N.lxor (N.lxor a c) (N.lxor b d).
Proof. xor_bits. Qed.

Lemma land_lxor_distr_r a b c :
  N.land (N.lxor a b) c = N.lxor (N.land a c) (N.land b c).
Proof. xor_bits. Qed.

Lemma land_lxor_distr_l a b c :
  N.land c (N.lxor a b) = N.lxor (N.land c a) (N.land c b).
Proof. xor_bits. Qed.

Lemma lxor_lt_pow2 a b n : a < 2 ^ n -> b < 2 ^ n -> N.lxor a b < 2 ^ n.
Proof.
  intros Ha Hb.
  rewrite <- (N.mod_small a (2 ^ n) Ha), <- (N.mod_small b (2 ^ n) Hb).
  rewrite <- !N.land_ones, <- land_lxor_distr_r, N.land_ones.
  apply N.mod_upper_bound. apply N.pow_nonzero. discriminate.
Qed.

Lemma land_255_mod x : N.land x 255 = x mod 256.
Proof. change 255 with (N.ones 8). rewrite N.land_ones. reflexivity. Qed.

Lemma land_255_lt x : N.land x 255 < 256.
Proof. rewrite land_255_mod. apply N.mod_upper_bound. discriminate. Qed.

Lemma land_255_small x : x < 256 -> N.land x 255 = x.
Proof. intro H. rewrite land_255_mod. apply N.mod_small, H. Qed.

(** * The zero-input bit step is linear *)

Definition pmask (b : bool) : N := if b then crc_poly_reflected else 0.

Lemma crc_bit_step_alt v : crc_bit_step v = N.lxor (v / 2) (pmask (N.odd v)).
Proof.
  unfold crc_bit_step, pmask. rewrite <- N.negb_odd.
  destruct (N.odd v); cbn [negb]; [reflexivity | now rewrite N.lxor_0_r].
Qed.

Lemma half_lxor a b : N.lxor a b / 2 = N.lxor (a / 2) (b / 2).
Proof. rewrite <- !N.div2_div, !N.div2_spec. apply N.shiftr_lxor. Qed.

Lemma pmask_xorb a b : pmask (xorb a b) = N.lxor (pmask a) (pmask b).
Proof. destruct a, b; vm_compute; reflexivity. Qed.

Lemma crc_bit_step_lxor a b :
  crc_bit_step (N.lxor a b) = N.lxor (crc_bit_step a) (crc_bit_step b).
Proof.
  rewrite !crc_bit_step_alt, Nxor_bit0, pmask_xorb, half_lxor.
  apply lxor_swap4.
Qed.

Lemma crc_bit_step_0 : crc_bit_step 0 = 0.
Proof. reflexivity. Qed.

Lemma crc_bit_step_double y : crc_bit_step (2 * y) = y.
Proof.
  rewrite crc_bit_step_alt.
  replace (N.odd (2 * y)) with false.
  - cbn [pmask]. rewrite N.lxor_0_r, N.mul_comm. apply N.div_mul. discriminate.
  - symmetry. rewrite N.odd_mul. reflexivity.
Qed.

Lemma crc_bit_step_lt v : v < 2 ^ 32 -> crc_bit_step v < 2 ^ 32.
Proof.
  intro H. rewrite crc_bit_step_alt. apply lxor_lt_pow2.
  - change (2 ^ 32) with 4294967296 in *. lia.
  - destruct (N.odd v); vm_compute; reflexivity.
Qed.

(** On 32-bit values the bit step has trivial kernel: an odd [v] leaves bit 31
    of the polynomial standing. *)
Lemma crc_bit_step_eq0 v : v < 2 ^ 32 -> crc_bit_step v = 0 -> v = 0.
Proof.
  intros Hv H. rewrite crc_bit_step_alt in H. apply N.lxor_eq in H.
  change (2 ^ 32) with 4294967296 in Hv.
  destruct (N.odd v) eqn:Ho; cbn [pmask] in H.
  - unfold crc_poly_reflected in H. lia.
  - assert (N.even v = true) as He by (rewrite <- N.negb_odd, Ho; reflexivity).
    apply N.even_spec in He. destruct He as [k Hk]. lia.
Qed.

(** * [crc_entry]: eight bit steps *)

Lemma crc_entry_lxor a b : crc_entry (N.lxor a b) = N.lxor (crc_entry a) (crc_entry b).
Proof. unfold crc_entry. rewrite !crc_bit_step_lxor. reflexivity. Qed.

Lemma crc_entry_0 : crc_entry 0 = 0.
Proof. reflexivity. Qed.

Lemma crc_entry_mul256 w : crc_entry (256 * w) = w.
Proof.
  replace (256 * w) with (2 * (2 * (2 * (2 * (2 * (2 * (2 * (2 * w)))))))) by lia.
  unfold crc_entry. rewrite !crc_bit_step_double. reflexivity.
Qed.

Lemma crc_entry_lt v : v < 2 ^ 32 -> crc_entry v < 2 ^ 32.
Proof. intro H. unfold crc_entry. repeat apply crc_bit_step_lt. exact H. Qed.

Lemma crc_entry_eq0 v : v < 2 ^ 32 -> crc_entry v = 0 -> v = 0.
Proof.
  intros Hv H. unfold crc_entry in H.
  repeat (apply crc_bit_step_eq0 in H; [ | repeat apply crc_bit_step_lt; exact Hv ]).
  exact H.
Qed.

(** * The table and one table step *)

Lemma crc_table_nth k : (k < 256)%nat -> nth k crc_table 0 = crc_entry (N.of_nat k).
Proof.
  intro H. unfold crc_table.
  change 0 with (crc_entry (N.of_nat 0)) at 1.
  rewrite (map_nth (fun i => crc_entry (N.of_nat i))), seq_nth by exact H.
  reflexivity.
Qed.

Lemma split_low8 v : v = N.lxor (N.land v 255) (256 * N.shiftr v 8).
Proof.
  apply N.bits_inj. intro n.
  rewrite N.lxor_spec, N.land_spec.
  change 255 with (N.ones 8). change 256 with (2 ^ 8).
  rewrite (N.mul_comm (2 ^ 8)), <- N.shiftl_mul_pow2.
  destruct (N.ltb_spec n 8) as [H | H].
  - rewrite N.ones_spec_low, N.shiftl_spec_low by exact H.
    now rewrite andb_true_r, xorb_false_r.
  - rewrite N.ones_spec_high, N.shiftl_spec_high' by exact H.
    rewrite N.shiftr_spec', andb_false_r, xorb_false_l.
    f_equal. lia.
Qed.

(** The closure body of [calculate], for every register and input value. *)
Theorem crc_step_entry s x : crc_step s x = crc_entry (N.lxor s (N.land x 255)).
Proof.
  unfold crc_step.
  rewrite crc_table_nth by (pose proof (land_255_lt (N.lxor s x)); lia).
  rewrite N2Nat.id.
  rewrite (split_low8 (N.lxor s (N.land x 255))), crc_entry_lxor, crc_entry_mul256.
  f_equal.
  - f_equal. rewrite !land_lxor_distr_r. f_equal.
    rewrite <- N.land_assoc. reflexivity.
  - rewrite N.shiftr_lxor.
    replace (N.shiftr (N.land x 255) 8) with 0; [ now rewrite N.lxor_0_r | ].
    symmetry. rewrite N.shiftr_div_pow2. apply N.div_small. apply land_255_lt.
Qed.

Lemma crc_step_lxor s t x e :
  crc_step (N.lxor s t) (N.lxor x e) = N.lxor (crc_step s x) (crc_step t e).
Proof.
  rewrite !crc_step_entry, <- crc_entry_lxor, land_lxor_distr_r.
  f_equal. apply lxor_swap4.
Qed.

Lemma crc_step_lt s x : s < 2 ^ 32 -> crc_step s x < 2 ^ 32.
Proof.
  intro H. rewrite crc_step_entry. apply crc_entry_lt, lxor_lt_pow2; [exact H | ].
  pose proof (land_255_lt x). change (2 ^ 32) with 4294967296. lia.
Qed.

Lemma crc_reg_lt l : forall s, s < 2 ^ 32 -> fold_left crc_step l s < 2 ^ 32.
Proof.
  induction l as [ | x l IH]; intros s H; cbn [fold_left]; [exact H | ].
  apply IH, crc_step_lt, H.
Qed.

Lemma crc32c_lt l : crc32c l < 2 ^ 32.
Proof.
  unfold crc32c. apply lxor_lt_pow2; [ apply crc_reg_lt | ]; vm_compute; reflexivity.
Qed.

(** * The bit-serial processing of one byte *)

Lemma bit_step_alt s b : bit_step s b = crc_bit_step (N.lxor s (N.b2n b)).
Proof.
  unfold bit_step, crc_bit_step, castagnoli_reflected.
  assert (N.lxor s (N.b2n b) = if b then N.lxor s 1 else s) as ->
    by (destruct b; cbn [N.b2n]; [reflexivity | apply N.lxor_0_r]).
  rewrite <- N.negb_odd.
  destruct (N.odd (if b then N.lxor s 1 else s)); reflexivity.
Qed.

Fixpoint bit_steps0 (n : nat) (s : N) : N :=
  match n with O => s | S k => bit_steps0 k (crc_bit_step s) end.

(** Affinity in the register: the linear part is [length bs] zero-input steps. *)
Lemma fold_bit_step_lxor bs : forall s t,
  fold_left bit_step bs (N.lxor s t)
  = N.lxor (bit_steps0 (length bs) s) (fold_left bit_step bs t).
Proof.
  induction bs as [ | b bs IH]; intros s t; cbn [fold_left length bit_steps0]; [reflexivity | ].
  rewrite <- IH. f_equal.
  rewrite !bit_step_alt, N.lxor_assoc. apply crc_bit_step_lxor.
Qed.

Lemma byte_bits_mod x : byte_bits x = byte_bits (x mod 256).
Proof.
  unfold byte_bits. cbn [map]. change 256 with (2 ^ 8).
  rewrite !N.mod_pow2_bits_low by reflexivity. reflexivity.
Qed.

(** The constant part, on the 256 byte values. *)
Lemma byte_bits_entry_all :
  forallb (fun k => fold_left bit_step (byte_bits (N.of_nat k)) 0 =? crc_entry (N.of_nat k))
          (seq 0 256) = true.
Proof. vm_compute. reflexivity. Qed.

Lemma byte_bits_entry y : y < 256 -> fold_left bit_step (byte_bits y) 0 = crc_entry y.
Proof.
  intro H. pose proof byte_bits_entry_all as A.
  rewrite forallb_forall in A. specialize (A (N.to_nat y)).
  rewrite N2Nat.id in A. apply N.eqb_eq, A, in_seq. lia.
Qed.

Theorem fold_byte_bits s x : fold_left bit_step (byte_bits x) s = crc_step s x.
Proof.
  rewrite crc_step_entry, crc_entry_lxor, land_255_mod.
  rewrite <- (N.lxor_0_r s) at 1.
  rewrite fold_bit_step_lxor, byte_bits_mod.
  rewrite byte_bits_entry by (apply N.mod_upper_bound; discriminate).
  reflexivity.
Qed.

Lemma fold_flat_map_bits l : forall s,
  fold_left bit_step (flat_map byte_bits l) s = fold_left crc_step l s.
Proof.
  induction l as [ | x l IH]; intro s; cbn [flat_map fold_left]; [reflexivity | ].
  rewrite fold_left_app, fold_byte_bits. apply IH.
Qed.

(** * G1 *)

Theorem crc32c_is_bitwise : forall l : list N, crc32c l = crc_bitwise l.
Proof.
  intro l. unfold crc32c, crc_bitwise. rewrite fold_flat_map_bits. reflexivity.
Qed.

Lemma crc_check_value : crc32c [49;50;51;52;53;54;55;56;57] = 0xE3069283.
Proof. vm_compute. reflexivity. Qed.

Print Assumptions crc32c_is_bitwise.
Print Assumptions crc_check_value.
