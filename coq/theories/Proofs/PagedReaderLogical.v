(** R2: on a well-formed image (the pagination of a logical stream that is a
    whole number of payloads) the cache-less validating reader returns the
    logical stream. *)
From E57 Require Import Base.Prelude Model.Crc Model.Device Model.PagedReader Spec.PageSpec Spec.PageReadSpec.
From E57 Require Import Proofs.PageSpecLemmas.
From Coq Require Import ZifyN ZifyNat ZifyBool.
Ltac Zify.zify_post_hook ::= Z.div_mod_to_equations.

Section Logical.
  Variable log : list N.
  Hypothesis Hnz : log <> [].
  Hypothesis Hmod : len log mod 1020 = 0.

  Let Hpad : pad_payload log = log.
  Proof. apply pad_payload_divisible, Hmod. Qed.

  Let Hpages : pages_for (len log) = len log / 1020.
  Proof. apply pages_for_divisible, Hmod. Qed.

  Let Hlen : len (paginate log) = len log / 1020 * 1024.
  Proof. rewrite len_paginate, Hpages. reflexivity. Qed.

  Let Hdiv : len (paginate log) / 1024 = len log / 1020.
  Proof. rewrite Hlen. lia. Qed.

  Lemma gr_read_log n off :
    gr_read 1024 (paginate log) n off =
    if len log <=? off then (off, Ok [])
    else (off + N.min n (1020 - off mod 1020),
          Ok (slice off (N.min n (1020 - off mod 1020)) log)).
  Proof.
    unfold gr_read. replace (1024 - 4) with 1020 by reflexivity.
    rewrite Hdiv. cbv zeta.
    destruct (len log / 1020 <=? off / 1020) eqn:E1;
      destruct (len log <=? off) eqn:E2; try lia; [reflexivity|].
    rewrite page_at_paginate by lia.
    rewrite Hpad.
    rewrite page_ok_sealed by (rewrite len_slice; lia).
    f_equal. f_equal.
    rewrite slice_app_l by (rewrite len_slice; lia).
    rewrite slice_slice by lia.
    f_equal. lia.
  Qed.

  Lemma gr_loop_log : forall fuel want acc off,
    (N.to_nat (N.min want (len log - off)) < fuel)%nat ->
    gr_read_exact_loop 1024 (paginate log) fuel want acc off =
    if want =? 0 then (off, Ok acc)
    else if off + want <=? len log then (off + want, Ok (acc ++ slice off want log))
    else (N.max off (len log), Err EIo).
  Proof.
    induction fuel as [|fuel IH]; intros want acc off Hf; [lia|].
    cbn [gr_read_exact_loop].
    destruct (want =? 0) eqn:E0; [reflexivity|].
    rewrite gr_read_log.
    destruct (len log <=? off) eqn:E1.
    - destruct (off + want <=? len log) eqn:E2; [lia|].
      f_equal. lia.
    - remember (N.min want (1020 - off mod 1020)) as k eqn:Ek.
      assert (Hk : len (slice off k log) = k) by (rewrite len_slice; lia).
      destruct (slice off k log) as [|b got] eqn:Eg.
      { rewrite len_nil in Hk. lia. }
      rewrite <- Eg in Hk |- *. rewrite Hk.
      rewrite IH by lia.
      destruct (want - k =? 0) eqn:E3.
      + assert (Hkw : k = want) by lia. rewrite <- Hkw.
        destruct (off + k <=? len log) eqn:E4; [reflexivity|lia].
      + destruct (off + k + (want - k) <=? len log) eqn:E4;
          destruct (off + want <=? len log) eqn:E5; try lia.
        * f_equal; [lia|]. f_equal. rewrite <- app_assoc. f_equal.
          replace want with (k + (want - k)) at 2 by lia.
          symmetry. apply slice_split.
        * f_equal. lia.
  Qed.

  Lemma gr_step_log o off : gr_step 1024 (paginate log) o off = lr_step log o off.
  Proof.
    destruct o as [p|n|n|]; unfold gr_step, lr_step; cbv zeta.
    - rewrite Hlen. unfold PAYLOAD_SZ, PAGE_SZ, log_of_phys.
      replace (p - p / 1024 * 4) with (p - 4 * (p / PAGE_SZ)) by (unfold PAGE_SZ; lia).
      reflexivity.
    - rewrite gr_read_log. unfold PAYLOAD_SZ.
      destruct (len log <=? off); reflexivity.
    - rewrite Hdiv. replace (1024 - 4) with 1020 by reflexivity.
      rewrite gr_loop_log by lia.
      destruct (n =? 0); [reflexivity|].
      destruct (off + n <=? len log); reflexivity.
    - rewrite Hdiv. replace (1024 - 4) with 1020 by reflexivity.
      replace (len log / 1020 * 1020) with (len log) by lia.
      reflexivity.
  Qed.

  Lemma gr_run_log : forall ops off, gr_run 1024 (paginate log) ops off = lr_run log ops off.
  Proof.
    induction ops as [|o ops IH]; intros off; [reflexivity|].
    cbn [gr_run lr_run]. rewrite gr_step_log.
    destruct (lr_step log o off) as [off1 x]. rewrite IH. reflexivity.
  Qed.
End Logical.
