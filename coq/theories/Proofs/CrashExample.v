(** C15: the statement evaluated by computation on a concrete program (a blob that crosses the
    first page boundary, a small point cloud, an XML text): ALL prefixes of the write sequence and,
    for the write in progress, ALL cut positions 0..1025 - 10 x 1026 crash images, each given to
    [reader_open].  This is an evaluation of the model independent of the proofs (it takes a few
    minutes), and shows that the hypotheses of the theorems are satisfiable. *)
From E57 Require Import Base.Prelude Model.Device Model.PagedWriter Model.PagedReader Model.Prog Model.Record
  Model.PcWriter Model.FileBin Model.ReaderOpen Model.CrashImage.
From E57 Require Import Proofs.CrashOpen Proofs.CrashMain.

Definition ex_xml : list N := [60; 97; 62; 104; 105; 60; 47; 97; 62; 10].          (* "<a>hi</a>\n" *)
Definition ex_blob : list N := map (fun i => N.of_nat (i mod 251)) (seq 0 990).
Definition ex_items : list item :=
  [IBlob ex_blob;
   IPc [TInteger 0 255; TDouble]
       [[VInteger 7; VDouble 1]; [VInteger 200; VDouble 2]; [VInteger 0; VDouble 3]]].
Definition ex_prog : wprog unit := crash_prog ex_items ex_xml.

(** the program completes; it issues nine page writes: page 0 when it fills, page 1 and page 0 by
    the flushes of the seeks back and forth (blob header, section header), page 1 with the XML,
    and page 0 twice at the end (the header patch, Drop) *)
Example ex_trace :
  snd (wrun ex_prog pw_fresh) = Ok tt /\
  map (fun w => (fst w, len (snd w))) (trace_of ex_prog) =
  [(0, 1024); (1024, 1024); (0, 1024); (1024, 1024); (1024, 1024); (1024, 1024); (1024, 1024);
   (0, 1024); (0, 1024)] /\
  len (final_image ex_prog) = 2048.
Proof. vm_compute. repeat split; reflexivity. Qed.

Definition list_eqb (a b : list N) : bool := if list_eq_dec N.eq_dec a b then true else false.

(** the statement of C15_accepted_is_complete and C15_before_finalize for one image *)
Definition image_okb (tr : list (N * list N)) (F xml : list N) (n cut : nat) : bool :=
  let img := crash_image tr n cut in
  match open_result img with
  | Panic => false
  | Err _ => true
  | Ok (_, _, x) =>
      (if (n + 2 <? length tr)%nat then list_eqb x [] else true) &&
      list_eqb x (take (len x) xml) &&
      (negb (list_eqb x xml) || list_eqb img F)
  end.

Definition all_images_okb {A} (p : wprog A) (xml : list N) : bool :=
  let tr := trace_of p in
  let F := final_image p in
  forallb (fun n => forallb (fun cut => image_okb tr F xml n cut) (seq 0 1026)) (seq 0 (S (length tr))).

(** every prefix, every cut *)
Example ex_all_images : all_images_okb ex_prog ex_xml = true.
Proof. vm_compute. reflexivity. Qed.

(** the images on which [reader_open] returns the whole XML: the final header write complete
    (n = 7, cut >= 1024) and everything after it - and each of them is the completed file *)
Definition whole_xml_points {A} (p : wprog A) (xml : list N) (cuts : list nat) : list (nat * nat) :=
  let tr := trace_of p in
  flat_map (fun n => flat_map (fun cut =>
     match open_result (crash_image tr n cut) with
     | Ok (_, _, x) => if list_eqb x xml then [(n, cut)] else []
     | _ => []
     end) cuts) (seq 0 (S (length tr))).

Example ex_whole_xml :
  whole_xml_points ex_prog ex_xml [0; 1; 39; 40; 1020; 1023; 1024; 1025]%nat =
  [(7, 1024); (7, 1025); (8, 0); (8, 1); (8, 39); (8, 40); (8, 1020); (8, 1023); (8, 1024); (8, 1025);
   (9, 0); (9, 1); (9, 39); (9, 40); (9, 1020); (9, 1023); (9, 1024); (9, 1025)]%nat.
Proof. vm_compute. reflexivity. Qed.

(** the hypotheses of the packaged theorem hold for this program *)
Example ex_theorem_applies : forall n cut : nat,
  match open_result (crash_image (trace_of ex_prog) n cut) with
  | Panic => False
  | Err _ => True
  | Ok (_, _, xr) =>
      (exists k, k <= len ex_xml /\ xr = take k ex_xml /\ (k = len ex_xml \/ k = 0 \/ k + 256 <= len ex_xml)) /\
      (xr = ex_xml -> crash_image (trace_of ex_prog) n cut = final_image ex_prog /\
                      snd (wrun ex_prog pw_fresh) = Ok tt)
  end.
Proof.
  apply accepted_is_complete; [discriminate|].
  destruct ex_trace as (_ & _ & E). change (len (final_image ex_prog) < 2 ^ 64). rewrite E. reflexivity.
Qed.

(** a writer dropped without finalize: the final device content is rejected *)
Example ex_unfinalized :
  is_err (open_result (final_image (unfinalized_prog ex_items))) = false /\
  (match open_result (final_image (unfinalized_prog ex_items)) with Ok (_, _, x) => x | _ => [1] end) = [].
Proof. vm_compute. split; reflexivity. Qed.
