(** B1: the model's [integer_bits] is the specified exact width. *)
From E57 Require Import Base.Prelude Model.BsWrite Model.BsRead Model.Record Spec.BitSpec.
From Coq Require Import ZifyN ZifyNat ZifyBool.
Ltac Zify.zify_post_hook ::= Z.div_mod_to_equations.
Open Scope N_scope.

Lemma find_seq_spec (f : nat -> bool) : forall n a,
  match find f (seq a n) with
  | Some w => f w = true /\ (a <= w < a + n)%nat /\ forall j, (a <= j < w)%nat -> f j = false
  | None => forall j, (a <= j < a + n)%nat -> f j = false
  end.
Proof.
  induction n; intros a; cbn [seq find].
  - intros; lia.
  - destruct (f a) eqn:E.
    + split; [assumption|split; [lia|intros; lia]].
    + specialize (IHn (S a)). destruct (find f (seq (S a) n)).
      * destruct IHn as (H1 & H2 & H3). split; [assumption|split; [lia|]].
        intros j Hj. destruct (Nat.eq_dec j a); [subst; assumption|apply H3; lia].
      * intros j Hj. destruct (Nat.eq_dec j a); [subst; assumption|apply IHn; lia].
Qed.

Lemma in_i64_bounds z : in_i64 z = true -> (- 9223372036854775808 <= z <= 9223372036854775807)%Z.
Proof.
  unfold in_i64, I64_MIN, I64_MAX.
  change (2 ^ 63)%Z with 9223372036854775808%Z. lia.
Qed.

Theorem spec_width_exact : forall mn mx : Z,
  in_i64 mn = true -> in_i64 mx = true -> (mn <= mx)%Z ->
  let w := spec_width mn mx in
  (mx - mn < 2 ^ Z.of_N w)%Z /\ (0 < w -> (2 ^ (Z.of_N w - 1) <= mx - mn)%Z) /\ w <= 64 /\ (w = 0 <-> mn = mx).
Proof.
  intros mn mx Hmn Hmx Hle.
  apply in_i64_bounds in Hmn. apply in_i64_bounds in Hmx.
  assert (Hr : (0 <= mx - mn < 2 ^ 64)%Z).
  { change (2 ^ 64)%Z with 18446744073709551616%Z. lia. }
  cbv zeta. unfold spec_width.
  pose proof (find_seq_spec (fun w => (mx - mn <? 2 ^ Z.of_nat w)%Z) 65 0) as H.
  destruct (find _ (seq 0 65)) as [w|].
  - destruct H as (H1 & H2 & H3).
    rewrite nat_N_Z.
    split; [lia|]. split; [|split; [lia|]].
    + intros Hw. specialize (H3 (w - 1)%nat ltac:(lia)).
      replace (Z.of_nat (w - 1)) with (Z.of_nat w - 1)%Z in H3 by lia. lia.
    + split.
      * intros Hw. assert (w = 0%nat) by lia. subst w.
        change (2 ^ Z.of_nat 0)%Z with 1%Z in H1. lia.
      * intros Heq. destruct w as [|w']; [reflexivity|].
        specialize (H3 0%nat ltac:(lia)).
        change (2 ^ Z.of_nat 0)%Z with 1%Z in H3. lia.
  - exfalso. specialize (H 64%nat ltac:(lia)).
    change (Z.of_nat 64) with 64%Z in H. lia.
Qed.

Theorem integer_bits_spec : forall mn mx : Z,
  in_i64 mn = true -> in_i64 mx = true -> (mn <= mx)%Z -> integer_bits mn mx = spec_width mn mx.
Proof.
  intros mn mx Hmn Hmx Hle.
  destruct (spec_width_exact mn mx Hmn Hmx Hle) as (Ha & Hb & Hc & Hd).
  set (w := spec_width mn mx) in *.
  unfold integer_bits. destruct (0 <? mx - mn)%Z eqn:E.
  - assert (Hw : 0 < w) by lia. specialize (Hb Hw).
    assert (Hl : N.log2 (Z.to_N (mx - mn)) = w - 1).
    { apply N.log2_unique; [lia|].
      replace (N.succ (w - 1)) with w by lia.
      replace (Z.of_N w - 1)%Z with (Z.of_N (w - 1)) in Hb by lia.
      split.
      - apply N2Z.inj_le. rewrite N2Z.inj_pow, Z2N.id by lia. exact Hb.
      - apply N2Z.inj_lt. rewrite N2Z.inj_pow, Z2N.id by lia. exact Ha. }
    rewrite Hl. lia.
  - lia.
Qed.

Lemma type_ok_int mn mx : (in_i64 mn && in_i64 mx && (mn <=? mx)%Z) = true ->
  in_i64 mn = true /\ in_i64 mx = true /\ (mn <= mx)%Z.
Proof. intros H. apply andb_prop in H as [H H3]. apply andb_prop in H as [H1 H2]. repeat split; auto. lia. Qed.

Lemma bit_size_spec : forall t, type_ok t = true -> bit_size t = spec_bit_size t.
Proof.
  intros [| |mn mx|mn mx] H; cbn [bit_size spec_bit_size type_ok] in *; try reflexivity;
    apply type_ok_int in H as (H1 & H2 & H3); apply integer_bits_spec; assumption.
Qed.

(** Consequences used by the codec proofs. *)
Lemma spec_bit_size_le64 t : type_ok t = true -> spec_bit_size t <= 64.
Proof.
  destruct t as [| |mn mx|mn mx]; cbn [spec_bit_size type_ok]; intros H; try lia;
    apply type_ok_int in H as (H1 & H2 & H3);
    destruct (spec_width_exact mn mx H1 H2 H3) as (_ & _ & Hc & _); exact Hc.
Qed.
