(** Real-number semantics of the float layer (Base/Floats.v): each operation,
    on finite arguments and in the absence of overflow, is the rounding to
    nearest even of the exact result (Flocq's correctness theorems restated
    for the names of Floats.v). *)
From Coq Require Import ZArith NArith Bool Reals Lra Lia.
From Flocq Require Import Core Binary Bits.
From E57 Require Import Base.Prelude Base.Floats.
Local Open Scope R_scope.

Notation fexp64 := (FLT_exp (-1074) 53).
Notation fexp32 := (FLT_exp (-149) 24).
Notation fmt64 := (generic_format radix2 fexp64).
Notation fmt32 := (generic_format radix2 fexp32).
Definition R64 (x : R) : R := round radix2 fexp64 ZnearestE x.
Definition R32 (x : R) : R := round radix2 fexp32 ZnearestE x.
Notation B2R64 := (B2R 53 1024).
Notation B2R32 := (B2R 24 128).
Notation fin64 := (is_finite 53 1024).
Notation fin32 := (is_finite 24 128).

Global Instance prec_gt_0_53 : Prec_gt_0 53 := Hprec64.
Global Instance prec_gt_0_24 : Prec_gt_0 24 := Hprec32.
Global Instance valid_fexp64 : Valid_exp fexp64 := FLT_exp_valid (-1074) 53.
Global Instance valid_fexp32 : Valid_exp fexp32 := FLT_exp_valid (-149) 24.

Lemma fmt64_B2R : forall x : binary64, fmt64 (B2R64 x).
Proof. intros x. exact (generic_format_B2R 53 1024 x). Qed.

Lemma fmt32_B2R : forall x : binary32, fmt32 (B2R32 x).
Proof. intros x. exact (generic_format_B2R 24 128 x). Qed.

(** ** Rounding: monotone, identity on the format *)
Lemma R64_le : forall x y, x <= y -> R64 x <= R64 y.
Proof. intros x y H. apply round_le; auto with typeclass_instances. Qed.
Lemma R32_le : forall x y, x <= y -> R32 x <= R32 y.
Proof. intros x y H. apply round_le; auto with typeclass_instances. Qed.
Lemma R64_id : forall x, fmt64 x -> R64 x = x.
Proof. intros x H. apply round_generic; auto with typeclass_instances. Qed.
Lemma R32_id : forall x, fmt32 x -> R32 x = x.
Proof. intros x H. apply round_generic; auto with typeclass_instances. Qed.
Lemma R64_0 : R64 0 = 0.
Proof. apply round_0; auto with typeclass_instances. Qed.
Lemma R32_0 : R32 0 = 0.
Proof. apply round_0; auto with typeclass_instances. Qed.
Lemma fmt64_R64 : forall x, fmt64 (R64 x).
Proof. intros x. apply generic_format_round; auto with typeclass_instances. Qed.
Lemma fmt32_R32 : forall x, fmt32 (R32 x).
Proof. intros x. apply generic_format_round; auto with typeclass_instances. Qed.

Lemma fmt64_bpow : forall e, (-1074 <= e)%Z -> fmt64 (bpow radix2 e).
Proof.
  intros e He. apply generic_format_bpow. unfold FLT_exp. lia.
Qed.
Lemma fmt32_bpow : forall e, (-149 <= e)%Z -> fmt32 (bpow radix2 e).
Proof.
  intros e He. apply generic_format_bpow. unfold FLT_exp. lia.
Qed.
Lemma fmt64_1 : fmt64 1.
Proof. exact (fmt64_bpow 0 ltac:(lia)). Qed.
Lemma fmt32_1 : fmt32 1.
Proof. exact (fmt32_bpow 0 ltac:(lia)). Qed.
Lemma R64_1 : R64 1 = 1.
Proof. apply R64_id, fmt64_1. Qed.
Lemma R32_1 : R32 1 = 1.
Proof. apply R32_id, fmt32_1. Qed.

Lemma R64_abs_le : forall x b, fmt64 b -> Rabs x <= b -> Rabs (R64 x) <= b.
Proof.
  intros x b Fb H. unfold R64. apply abs_round_le_generic; auto with typeclass_instances.
Qed.
Lemma R32_abs_le : forall x b, fmt32 b -> Rabs x <= b -> Rabs (R32 x) <= b.
Proof.
  intros x b Fb H. unfold R32. apply abs_round_le_generic; auto with typeclass_instances.
Qed.

(** ** Constants *)
Lemma f64_half_eq : exists H, f64_half = B754_finite 53 1024 false 4503599627370496 (-53) H.
Proof. eexists. vm_compute. reflexivity. Qed.
Lemma f64_zero_eq : f64_zero = B754_zero 53 1024 false.
Proof. vm_compute. reflexivity. Qed.
Lemma f32_zero_eq : f32_zero = B754_zero 24 128 false.
Proof. vm_compute. reflexivity. Qed.
Lemma f32_one_eq : exists H, f32_one = B754_finite 24 128 false 8388608 (-23) H.
Proof. eexists. vm_compute. reflexivity. Qed.

Lemma B2R_f64_half : B2R64 f64_half = / 2.
Proof.
  destruct f64_half_eq as [H E]. rewrite E. unfold B2R, F2R. cbn [Fnum Fexp cond_Zopp].
  change (bpow radix2 (-53)) with (/ IZR (Z.pow_pos 2 53)).
  replace (Z.pow_pos 2 53) with 9007199254740992%Z by reflexivity. lra.
Qed.
Lemma fin_f64_half : fin64 f64_half = true.
Proof. reflexivity. Qed.
Lemma B2R_f64_zero : B2R64 f64_zero = 0.
Proof. rewrite f64_zero_eq. reflexivity. Qed.
Lemma B2R_f32_one : B2R32 f32_one = 1.
Proof.
  destruct f32_one_eq as [H E]. rewrite E. unfold B2R, F2R. cbn [Fnum Fexp cond_Zopp].
  change (bpow radix2 (-23)) with (/ IZR (Z.pow_pos 2 23)).
  replace (Z.pow_pos 2 23) with 8388608%Z by reflexivity. lra.
Qed.

(** ** Sign and value *)
Lemma Bsign_true_le0 : forall x : binary64, fin64 x = true -> Bsign 53 1024 x = true -> B2R64 x <= 0.
Proof.
  intros [s|s|s pl H|s m e H] Hf Hs; simpl in *; try lra; try discriminate.
  subst s. apply Rlt_le. apply F2R_lt_0. simpl. lia.
Qed.
Lemma Bsign_false_ge0 : forall x : binary64, fin64 x = true -> Bsign 53 1024 x = false -> 0 <= B2R64 x.
Proof.
  intros [s|s|s pl H|s m e H] Hf Hs; simpl in *; try lra; try discriminate.
  subst s. apply Rlt_le. apply F2R_gt_0. simpl. lia.
Qed.
Lemma pos_Bsign_false : forall x : binary64, fin64 x = true -> 0 < B2R64 x -> Bsign 53 1024 x = false.
Proof.
  intros x Hf Hp. destruct (Bsign 53 1024 x) eqn:E; auto.
  apply Bsign_true_le0 in E; auto. lra.
Qed.

(** ** Comparisons on finite numbers *)
Lemma f64_compare_fin : forall a b : binary64, fin64 a = true -> fin64 b = true ->
  b64_compare a b = Some (Rcompare (B2R64 a) (B2R64 b)).
Proof. intros a b Ha Hb. apply Bcompare_correct; assumption. Qed.

Lemma f64_lt_fin : forall a b, fin64 a = true -> fin64 b = true -> f64_lt a b = Rlt_bool (B2R64 a) (B2R64 b).
Proof. intros a b Ha Hb. unfold f64_lt, Rlt_bool. rewrite f64_compare_fin by assumption. reflexivity. Qed.
Lemma f64_gt_fin : forall a b, fin64 a = true -> fin64 b = true -> f64_gt a b = Rlt_bool (B2R64 b) (B2R64 a).
Proof.
  intros a b Ha Hb. unfold f64_gt, Rlt_bool. rewrite f64_compare_fin by assumption.
  rewrite (Rcompare_sym (B2R64 b)). destruct (Rcompare (B2R64 a) (B2R64 b)); reflexivity.
Qed.
Lemma f64_le_fin : forall a b, fin64 a = true -> fin64 b = true -> f64_le a b = Rle_bool (B2R64 a) (B2R64 b).
Proof. intros a b Ha Hb. unfold f64_le, Rle_bool. rewrite f64_compare_fin by assumption. reflexivity. Qed.

(** ** Arithmetic without overflow *)
Lemma f64_sub_fin : forall a b : binary64, fin64 a = true -> fin64 b = true ->
  Rabs (R64 (B2R64 a - B2R64 b)) < bpow radix2 1024 ->
  B2R64 (f64_sub a b) = R64 (B2R64 a - B2R64 b) /\ fin64 (f64_sub a b) = true /\
  (B2R64 a - B2R64 b = 0 -> Bsign 53 1024 (f64_sub a b) = andb (Bsign 53 1024 a) (negb (Bsign 53 1024 b))).
Proof.
  intros a b Ha Hb Hov.
  generalize (Bminus_correct 53 1024 Hprec64 Hemax64 binop_nan_pl64 mode_NE a b Ha Hb).
  change (round radix2 (SpecFloat.fexp 53 1024) (BinarySingleNaN.round_mode mode_NE)) with R64.
  rewrite Rlt_bool_true by exact Hov.
  intros (H1 & H2 & H3). split; [exact H1|]. split; [exact H2|].
  intros Hz. change (f64_sub a b) with (Bminus 53 1024 Hprec64 Hemax64 binop_nan_pl64 mode_NE a b). rewrite H3. rewrite Hz, Rcompare_Eq by reflexivity. reflexivity.
Qed.

(** When the subtraction overflows the result is an infinity with the sign of [a]. *)
Lemma f64_sub_ovf : forall a b : binary64, fin64 a = true -> fin64 b = true ->
  ~ Rabs (R64 (B2R64 a - B2R64 b)) < bpow radix2 1024 ->
  f64_sub a b = B754_infinity 53 1024 (Bsign 53 1024 a) /\ Bsign 53 1024 a = negb (Bsign 53 1024 b).
Proof.
  intros a b Ha Hb Hov.
  generalize (Bminus_correct 53 1024 Hprec64 Hemax64 binop_nan_pl64 mode_NE a b Ha Hb).
  change (round radix2 (SpecFloat.fexp 53 1024) (BinarySingleNaN.round_mode mode_NE)) with R64.
  rewrite Rlt_bool_false by lra.
  intros (H1 & H2). split; [|exact H2].
  change (f64_sub a b) with (Bminus 53 1024 Hprec64 Hemax64 binop_nan_pl64 mode_NE a b).
  revert H1. generalize (Bminus 53 1024 Hprec64 Hemax64 binop_nan_pl64 mode_NE a b).
  intros r. unfold binary_overflow. simpl.
  destruct r as [s|s|s pl H|s m e H]; simpl; intros E; try discriminate; inversion E; reflexivity.
Qed.

Lemma f64_mul_fin : forall a b : binary64, fin64 a = true -> fin64 b = true ->
  Rabs (R64 (B2R64 a * B2R64 b)) < bpow radix2 1024 ->
  B2R64 (f64_mul a b) = R64 (B2R64 a * B2R64 b) /\ fin64 (f64_mul a b) = true.
Proof.
  intros a b Ha Hb Hov.
  generalize (Bmult_correct 53 1024 Hprec64 Hemax64 binop_nan_pl64 mode_NE a b).
  change (round radix2 (SpecFloat.fexp 53 1024) (BinarySingleNaN.round_mode mode_NE)) with R64.
  rewrite Rlt_bool_true by exact Hov. rewrite Ha, Hb.
  intros (H1 & H2 & _). split; assumption.
Qed.

Lemma f64_div_fin : forall a b : binary64, fin64 a = true -> B2R64 b <> 0 ->
  Rabs (R64 (B2R64 a / B2R64 b)) < bpow radix2 1024 ->
  B2R64 (f64_div a b) = R64 (B2R64 a / B2R64 b) /\ fin64 (f64_div a b) = true /\
  Bsign 53 1024 (f64_div a b) = xorb (Bsign 53 1024 a) (Bsign 53 1024 b).
Proof.
  intros a b Ha Hb Hov.
  generalize (Bdiv_correct 53 1024 Hprec64 Hemax64 binop_nan_pl64 mode_NE a b Hb).
  change (round radix2 (SpecFloat.fexp 53 1024) (BinarySingleNaN.round_mode mode_NE)) with R64.
  rewrite Rlt_bool_true by exact Hov. rewrite Ha.
  intros (H1 & H2 & H3). split; [exact H1|]. split; [exact H2|].
  apply H3. change (f64_div a b) with (Bdiv 53 1024 Hprec64 Hemax64 binop_nan_pl64 mode_NE a b) in *.
  destruct (Bdiv 53 1024 Hprec64 Hemax64 binop_nan_pl64 mode_NE a b); simpl in *; try reflexivity; discriminate.
Qed.

(** [x as f32] of a finite number that does not overflow binary32 *)
Lemma f32_of_f64_fin : forall x : binary64, fin64 x = true ->
  Rabs (R32 (B2R64 x)) < bpow radix2 128 ->
  B2R32 (f32_of_f64 x) = R32 (B2R64 x) /\ fin32 (f32_of_f64 x) = true /\
  (B2R64 x = 0 -> Bsign 24 128 (f32_of_f64 x) = Bsign 53 1024 x).
Proof.
  intros [s|s|s pl H|s m e H] Hf Hov; try discriminate.
  - simpl. rewrite R32_0. auto.
  - unfold f32_of_f64.
    generalize (binary_normalize_correct 24 128 Hprec32 Hemax32 mode_NE (SpecFloat.cond_Zopp s (Z.pos m)) e s).
    change (round radix2 (SpecFloat.fexp 24 128) (BinarySingleNaN.round_mode mode_NE)) with R32.
    change (F2R (Float radix2 (SpecFloat.cond_Zopp s (Z.pos m)) e)) with (B2R64 (B754_finite 53 1024 s m e H)).
    rewrite Rlt_bool_true by exact Hov.
    intros (H1 & H2 & H3). split; [exact H1|]. split; [exact H2|].
    intros Hz. rewrite H3, Hz, Rcompare_Eq by reflexivity. reflexivity.
Qed.
