(** C15 with the XML layer: a crash image that the FULL reader accepts ([reader_open], then the
    XML parser model on the bytes it returned) is the completed file.  [accepted_is_complete]
    (CrashMain.v) leaves three cases for the bytes returned, [take k xml] with k = len xml, k = 0 or
    k + 256 <= len xml; the parser rejects the empty text ([xml_parse_empty]) and every prefix of
    the writer's rendering that is at least two bytes short ([writer_prefix_fails], slice xmlp);
    the writer's XML is that rendering ([gen_is_render], [tree_of_wf], slice xg). *)
From E57 Require Import Base.Prelude Model.Device Model.PagedWriter Model.PagedReader Model.Prog
  Model.FileBin Model.ReaderOpen Model.CrashImage Model.Meta Model.MetaFile Model.XmlTree Model.XmlParse
  Model.XmlGen Model.XmlExtract Model.ReaderFull Spec.XmlRender Spec.MetaTree Spec.XgWriterOk.
From E57 Require Import Proofs.PagedWriterLemmas Proofs.CrashOpen Proofs.CrashMain
  Proofs.XgRender Proofs.XgWf Proofs.XmlpPrefixBase Proofs.XmlpPrefix Proofs.XmlpRoundtripDoc.
From E57 Require Import Proofs.XeTotalFull.
From Coq Require Import ZifyN ZifyNat ZifyBool.

(** the crate's writer writes nothing behind the root element *)
Lemma tree_of_root_last m : root_is_last (tree_of m) = true.
Proof. reflexivity. Qed.

Lemma len_length {A} (l : list A) : len l = N.of_nat (length l).
Proof. reflexivity. Qed.

Theorem accepted_is_complete_xml : forall (is : list FileBin.item) (m : file_meta) (xml : list N),
  writer_meta_ok m = true -> meta_xml_ok m = true -> gen_root m = Ok xml ->
  let p := crash_prog is xml in
  let tr := trace_of p in
  len (final_image p) < 2 ^ 64 ->
  forall (n cut : nat) s h x d',
  open_result (crash_image tr n cut) = Ok (s, h, x) -> xml_parse x = ParseOk d' ->
  x = xml /\ d' = tree_of m /\ crash_image tr n cut = final_image p /\ snd (wrun p pw_fresh) = Ok tt.
Proof.
  intros is m xml Hw Hx Hgen p tr Hsize n cut s h x d' Hopen Hparse.
  pose proof (gen_is_render m xml Hw Hgen) as Hr.
  pose proof (tree_of_wf m Hw Hx) as Hwf.
  pose proof (parse_render writer_choices (tree_of m) Hwf) as Hrt. rewrite <- Hr in Hrt.
  assert (Hne : xml <> []).
  { intros E. rewrite E, xml_parse_empty in Hrt. discriminate. }
  pose proof (accepted_is_complete is xml Hne Hsize n cut) as H. fold p tr in H.
  rewrite Hopen in H. destruct H as [(k & Hk & Hxk & Hcases) Hfull].
  assert (Hxx : x = xml).
  { destruct Hcases as [Hk1|[Hk0|Hgap]].
    - rewrite Hxk, Hk1. apply take_all. apply N.le_refl.
    - exfalso. rewrite Hxk, Hk0 in Hparse. change (take 0 xml) with (@nil N) in Hparse.
      rewrite xml_parse_empty in Hparse. discriminate.
    - exfalso. apply (writer_prefix_fails (tree_of m) x d' Hwf (tree_of_root_last m)); [| |exact Hparse].
      + exists (drop k xml). rewrite <- Hr, Hxk. symmetry. apply take_drop_id.
      + rewrite <- Hr.
        assert (Hl : len x = k) by (rewrite Hxk, len_take; lia).
        rewrite !len_length in *. lia. }
  destruct (Hfull Hxx) as [Himg Hok].
  rewrite Hxx, Hrt in Hparse. injection Hparse as <-.
  split; [exact Hxx|]. split; [reflexivity|]. split; [exact Himg|exact Hok].
Qed.

(** the same for the model of [E57Reader::new] as a whole (UTF-8 check, parser, extraction) *)
Corollary reader_new_accepts_only_complete :
  forall pf64 pf32 fdiv (is : list FileBin.item) (m : file_meta) (xml : list N),
  writer_meta_ok m = true -> meta_xml_ok m = true -> gen_root m = Ok xml ->
  let p := crash_prog is xml in
  let tr := trace_of p in
  len (final_image p) < 2 ^ 64 ->
  forall (n cut : nat) s h x m',
  snd (reader_new pf64 pf32 fdiv (dev_init (crash_image tr n cut) None)) = Ok (s, h, x, m') ->
  x = xml /\ crash_image tr n cut = final_image p /\ snd (wrun p pw_fresh) = Ok tt /\
  extract_all pf64 pf32 fdiv (tree_of m) = Ok m'.
Proof.
  intros pf64 pf32 fdiv is m xml Hw Hx Hgen p tr Hsize n cut s h x m' Hnew.
  pose proof (accepted_is_complete_xml is m xml Hw Hx Hgen Hsize n cut) as HA. fold p tr in HA.
  revert Hnew HA. unfold open_result. generalize (crash_image tr n cut) (final_image p) (snd (wrun p pw_fresh)).
  clear. intros img F res Hnew HA.
  unfold reader_new in Hnew.
  destruct (reader_open (dev_init img None)) as [d1 r].
  destruct r as [[[s0 h0] x0]|e|]; [|discriminate Hnew|discriminate Hnew].
  destruct (xml_meta pf64 pf32 fdiv x0) as [m0|e|] eqn:Em; [|discriminate Hnew|discriminate Hnew].
  cbn [snd] in Hnew. injection Hnew as -> -> -> ->.
  destruct (xml_meta_ok_inv _ _ _ _ _ Em) as (_ & _ & d' & Ep & Em').
  destruct (HA s h x d' eq_refl Ep) as (E1 & E2 & E3 & E4).
  subst d'. split; [exact E1|]. split; [exact E3|]. split; [exact E4|exact Em'].
Qed.

(** non-vacuity: the metadata example of slice xg (an extension, a point cloud, a spherical image;
    3141 bytes of XML) behind a small blob: the hypotheses hold, and the completed file itself is
    an image the full reader accepts *)
Definition cx_xml : list N := match gen_root xg_example with Ok b => b | _ => [] end.
Definition cx_items : list FileBin.item := [IBlob [1; 2; 3; 4; 5]].

Example cx_hypotheses :
  writer_meta_ok xg_example = true /\ meta_xml_ok xg_example = true /\ gen_root xg_example = Ok cx_xml /\
  len cx_xml = 3141 /\ len (final_image (crash_prog cx_items cx_xml)) = 4096.
Proof. vm_compute. repeat split; reflexivity. Qed.

Example cx_final_accepted :
  let tr := trace_of (crash_prog cx_items cx_xml) in
  match open_result (crash_image tr (length tr) 0) with
  | Ok (_, _, x) => xml_parse x
  | _ => ParseErr
  end = ParseOk (tree_of xg_example).
Proof. vm_compute. reflexivity. Qed.

Example cx_theorem_applies : forall (n cut : nat) s h x d',
  let tr := trace_of (crash_prog cx_items cx_xml) in
  open_result (crash_image tr n cut) = Ok (s, h, x) -> xml_parse x = ParseOk d' ->
  x = cx_xml /\ d' = tree_of xg_example /\ crash_image tr n cut = final_image (crash_prog cx_items cx_xml).
Proof.
  intros n cut s h x d' tr Ho Hp.
  destruct cx_hypotheses as (H1 & H2 & H3 & _ & H5).
  destruct (accepted_is_complete_xml cx_items xg_example cx_xml H1 H2 H3) with (n := n) (cut := cut) (s := s) (h := h) (x := x) (d' := d')
    as (E1 & E2 & E3 & _); auto.
  rewrite H5. reflexivity.
Qed.

Print Assumptions accepted_is_complete_xml.
Print Assumptions reader_new_accepts_only_complete.
