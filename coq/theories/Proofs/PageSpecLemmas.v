(** List/arithmetic helper lemmas for the page layer, and the facts about
    [paginate] (length, validity of every page, [strip_crc] inverse, padding). *)
From E57 Require Import Base.Prelude Model.Crc Model.Device Model.PagedReader Spec.PageSpec Spec.PageReadSpec.
From Coq Require Import ZifyN ZifyNat ZifyBool.
Ltac Zify.zify_post_hook ::= Z.div_mod_to_equations.

(** * [len], [take], [drop], [slice] *)

Lemma len_nil {A} : len (@nil A) = 0.
Proof. reflexivity. Qed.

Lemma len_app {A} (l1 l2 : list A) : len (l1 ++ l2) = len l1 + len l2.
Proof. unfold len. rewrite app_length. lia. Qed.

Lemma len_take {A} n (l : list A) : len (take n l) = N.min n (len l).
Proof. unfold len, take. rewrite firstn_length. lia. Qed.

Lemma len_drop {A} n (l : list A) : len (drop n l) = len l - n.
Proof. unfold len, drop. rewrite skipn_length. lia. Qed.

Lemma len_slice {A} s n (l : list A) : len (slice s n l) = N.min n (len l - s).
Proof. unfold slice. rewrite len_take, len_drop. reflexivity. Qed.

Lemma len_zeros n : len (zeros n) = n.
Proof. unfold len, zeros. rewrite repeat_length. lia. Qed.

Lemma len_0_nil {A} (l : list A) : len l = 0 -> l = [].
Proof. destruct l; [reflexivity|]. unfold len; cbn [length]. lia. Qed.

Lemma len_nonnil {A} (l : list A) : l <> [] -> len l <> 0.
Proof. intros H E. apply H, len_0_nil, E. Qed.

Lemma take_all {A} n (l : list A) : len l <= n -> take n l = l.
Proof. unfold len, take. intros H. apply firstn_all2. lia. Qed.

Lemma drop_all {A} n (l : list A) : len l <= n -> drop n l = [].
Proof. unfold len, drop. intros H. apply skipn_all2. lia. Qed.

Lemma take_0 {A} (l : list A) : take 0 l = [].
Proof. reflexivity. Qed.

Lemma drop_0 {A} (l : list A) : drop 0 l = l.
Proof. reflexivity. Qed.

Lemma take_app_le {A} n (l1 l2 : list A) : n <= len l1 -> take n (l1 ++ l2) = take n l1.
Proof.
  unfold len, take. intros H. rewrite firstn_app.
  replace (N.to_nat n - length l1)%nat with 0%nat by lia.
  cbn [firstn]. apply app_nil_r.
Qed.

Lemma take_app_ge {A} n (l1 l2 : list A) :
  len l1 <= n -> take n (l1 ++ l2) = l1 ++ take (n - len l1) l2.
Proof.
  unfold len, take. intros H. rewrite firstn_app.
  rewrite firstn_all2 by lia. f_equal. f_equal. lia.
Qed.

Lemma drop_app_le {A} n (l1 l2 : list A) : n <= len l1 -> drop n (l1 ++ l2) = drop n l1 ++ l2.
Proof.
  unfold len, drop. intros H. rewrite skipn_app.
  replace (N.to_nat n - length l1)%nat with 0%nat by lia.
  reflexivity.
Qed.

Lemma drop_app_ge {A} n (l1 l2 : list A) : len l1 <= n -> drop n (l1 ++ l2) = drop (n - len l1) l2.
Proof.
  unfold len, drop. intros H. rewrite skipn_app.
  rewrite skipn_all2 by lia. cbn [app]. f_equal. lia.
Qed.

Lemma skipn_skipn' {A} (a b : nat) (l : list A) : skipn a (skipn b l) = skipn (b + a) l.
Proof.
  revert l. induction b as [|b IH]; intros l; [reflexivity|].
  destruct l as [|x l]; cbn [skipn Nat.add].
  - destruct a; reflexivity.
  - apply IH.
Qed.

Lemma drop_drop {A} a b (l : list A) : drop a (drop b l) = drop (b + a) l.
Proof. unfold drop. rewrite skipn_skipn'. f_equal. lia. Qed.

Lemma take_take {A} a b (l : list A) : take a (take b l) = take (N.min a b) l.
Proof. unfold take. rewrite firstn_firstn. f_equal. lia. Qed.

Lemma drop_take {A} a m (l : list A) : drop a (take m l) = take (m - a) (drop a l).
Proof. unfold drop, take. rewrite skipn_firstn_comm. f_equal. lia. Qed.

Lemma take_split {A} a b (l : list A) : take (a + b) l = take a l ++ take b (drop a l).
Proof.
  unfold take, drop.
  rewrite <- (firstn_skipn (N.to_nat a) l) at 1.
  rewrite firstn_app.
  assert (Hl : (length (firstn (N.to_nat a) l) = Nat.min (N.to_nat a) (length l))%nat)
    by apply firstn_length.
  destruct (Nat.le_gt_cases (N.to_nat a) (length l)) as [Hle|Hgt].
  - rewrite firstn_all2 by lia. f_equal. f_equal. lia.
  - rewrite firstn_all2 by lia. f_equal.
    rewrite skipn_all2 by lia. rewrite !firstn_nil. reflexivity.
Qed.

Lemma slice_split {A} s a b (l : list A) : slice s (a + b) l = slice s a l ++ slice (s + a) b l.
Proof. unfold slice. rewrite take_split, drop_drop. reflexivity. Qed.

Lemma slice_slice {A} s m a n (l : list A) :
  a + n <= m -> slice a n (slice s m l) = slice (s + a) n l.
Proof.
  intros H. unfold slice. rewrite drop_take, take_take, drop_drop.
  f_equal. lia.
Qed.

Lemma slice_app_l {A} s n (l1 l2 : list A) :
  s + n <= len l1 -> slice s n (l1 ++ l2) = slice s n l1.
Proof.
  intros H. unfold slice. rewrite drop_app_le by lia.
  apply take_app_le. rewrite len_drop. lia.
Qed.

Lemma slice_0 {A} n (l : list A) : slice 0 n l = take n l.
Proof. reflexivity. Qed.

Lemma slice_len0 {A} s (l : list A) : slice s 0 l = [].
Proof. reflexivity. Qed.

Lemma slice_beyond {A} s n (l : list A) : len l <= s -> slice s n l = [].
Proof.
  intros H. unfold slice. rewrite drop_all by assumption.
  unfold take. apply firstn_nil.
Qed.

(** * Checksum bytes *)

Lemma len_crc_bytes l : len (crc_bytes l) = 4.
Proof. unfold crc_bytes, be_bytes, len. rewrite rev_length. reflexivity. Qed.

(** * Arithmetic on pages *)

Lemma page_in_range ps L p : p < L / ps -> p * ps + ps <= L.
Proof.
  intros H.
  assert (Hps : ps <> 0).
  { intros ->. destruct L; cbn in H; lia. }
  assert (H1 : (p + 1) * ps <= (L / ps) * ps) by (apply N.mul_le_mono_r; lia).
  pose proof (N.mul_div_le L ps Hps) as H2.
  lia.
Qed.

(** * [paginate_n] on a stream that is a whole number of payloads *)

Lemma len_paginate_n k d :
  N.of_nat k * 1020 <= len d -> len (paginate_n k d) = N.of_nat k * 1024.
Proof.
  revert d. induction k as [|k IH]; intros d H; [reflexivity|].
  cbn [paginate_n]. unfold PAYLOAD_SZ.
  rewrite !len_app, len_crc_bytes, len_take, IH by (rewrite len_drop; lia).
  lia.
Qed.

Lemma drop_paginate_n p k d :
  N.of_nat p * 1020 <= len d ->
  drop (N.of_nat p * 1024) (paginate_n (p + k) d) = paginate_n k (drop (N.of_nat p * 1020) d).
Proof.
  revert d. induction p as [|p IH]; intros d H.
  - reflexivity.
  - cbn [Nat.add paginate_n]. unfold PAYLOAD_SZ.
    rewrite app_assoc.
    rewrite drop_app_ge by (rewrite len_app, len_crc_bytes, len_take; lia).
    rewrite len_app, len_crc_bytes, len_take.
    replace (N.of_nat (S p) * 1024 - (N.min 1020 (len d) + 4)) with (N.of_nat p * 1024) by lia.
    rewrite IH by (rewrite len_drop; lia).
    rewrite drop_drop. f_equal. f_equal. lia.
Qed.

Lemma page_at_paginate_n k d p :
  N.of_nat k * 1020 <= len d -> p < N.of_nat k ->
  page_at 1024 (paginate_n k d) p
  = slice (p * 1020) 1020 d ++ crc_bytes (slice (p * 1020) 1020 d).
Proof.
  intros Hd Hp. unfold page_at, slice at 1.
  replace k with (N.to_nat p + S (k - S (N.to_nat p)))%nat by lia.
  replace p with (N.of_nat (N.to_nat p)) at 1 by lia.
  rewrite drop_paginate_n by lia.
  cbn [paginate_n]. unfold PAYLOAD_SZ.
  rewrite app_assoc.
  rewrite take_app_le, take_all.
  - unfold slice. rewrite N2Nat.id. reflexivity.
  - rewrite len_app, len_crc_bytes, len_take, len_drop. lia.
  - rewrite len_app, len_crc_bytes, len_take, len_drop. lia.
Qed.

Lemma page_ok_sealed pg : len pg = 1020 -> page_ok 1024 (pg ++ crc_bytes pg) = true.
Proof.
  intros H. unfold page_ok.
  replace (1024 - 4) with 1020 by reflexivity.
  rewrite drop_app_ge, take_app_le by lia.
  rewrite H. replace (1020 - 1020) with 0 by reflexivity.
  rewrite drop_0, take_all by lia.
  destruct (list_eq_dec N.eq_dec (crc_bytes pg) (crc_bytes pg)); congruence.
Qed.

Lemma strip_paginate_n k d :
  len d = N.of_nat k * 1020 -> strip_n k (paginate_n k d) = d.
Proof.
  revert d. induction k as [|k IH]; intros d H.
  - cbn. symmetry. apply len_0_nil. lia.
  - cbn [strip_n paginate_n]. unfold PAYLOAD_SZ, PAGE_SZ.
    rewrite take_app_le by (rewrite len_take; lia).
    rewrite take_take. replace (N.min 1020 1020) with 1020 by reflexivity.
    rewrite app_assoc.
    rewrite drop_app_ge by (rewrite len_app, len_crc_bytes, len_take; lia).
    rewrite len_app, len_crc_bytes, len_take.
    replace (1024 - (N.min 1020 (len d) + 4)) with 0 by lia.
    rewrite drop_0, IH by (rewrite len_drop; lia).
    unfold take, drop. apply firstn_skipn.
Qed.

(** * [pad_payload] and [paginate] *)

Lemma pages_for_ge l : l <= pages_for l * 1020.
Proof. unfold pages_for, PAYLOAD_SZ. lia. Qed.

Lemma pages_for_mult k : pages_for (k * 1020) = k.
Proof. unfold pages_for, PAYLOAD_SZ. lia. Qed.

Lemma pages_for_divisible l : l mod 1020 = 0 -> pages_for l = l / 1020.
Proof. unfold pages_for, PAYLOAD_SZ. lia. Qed.

Lemma len_pad_payload data : len (pad_payload data) = pages_for (len data) * 1020.
Proof.
  unfold pad_payload. rewrite len_app, len_zeros. unfold PAYLOAD_SZ.
  pose proof (pages_for_ge (len data)). lia.
Qed.

Lemma pad_payload_divisible data : len data mod 1020 = 0 -> pad_payload data = data.
Proof.
  intros H. unfold pad_payload. rewrite pages_for_divisible by assumption.
  unfold PAYLOAD_SZ.
  replace (len data / 1020 * 1020 - len data) with 0 by lia.
  apply app_nil_r.
Qed.

Lemma len_paginate : forall data, len (paginate data) = pages_for (len data) * 1024.
Proof.
  intros data. unfold paginate.
  rewrite len_paginate_n by (rewrite len_pad_payload; lia).
  lia.
Qed.

Lemma page_at_paginate data p :
  p < pages_for (len data) ->
  page_at 1024 (paginate data) p
  = slice (p * 1020) 1020 (pad_payload data) ++ crc_bytes (slice (p * 1020) 1020 (pad_payload data)).
Proof.
  intros H. unfold paginate.
  apply page_at_paginate_n; [rewrite len_pad_payload|]; lia.
Qed.

