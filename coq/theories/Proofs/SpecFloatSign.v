(** Sign of a float read off its bit pattern (used by the file specification's
    range checks): a pattern that is not a NaN and is not "below zero" by its
    bits denotes a float that is [>= +0].

    Route: [B2FF (b64_of_bits x) = binary_float_of_bits_aux 52 11 x] (Flocq's
    [B2FF_FF2B]); the result of [binary_float_of_bits_aux] is classified by the
    sign bit and the magnitude [x mod 2^63] ([aux_class64]); a comparison
    against [+0] and a self comparison only look at the constructor and the
    sign ([cmp_zero_B2FF], [cmp_self_B2FF]). *)
From Coq Require Import ZArith NArith Bool Lia ZifyN ZifyNat ZifyBool.
From Flocq Require Import Zaux Binary Bits.
From E57 Require Import Base.Prelude Base.Floats Spec.FileSpecXml.

Ltac Zify.zify_post_hook ::= Z.div_mod_to_equations.

(** * Definitions of the brief *)

(* "below zero" by bit pattern: sign bit set, magnitude in (0, inf] *)
Definition below_zero_bits64 (b : N) : bool :=
  (N.testbit b 63 && negb (b mod 2 ^ 63 =? 0) && (b mod 2 ^ 63 <=? 0x7ff0000000000000))%N.
Definition below_zero_bits32 (b : N) : bool :=
  (N.testbit b 31 && negb (b mod 2 ^ 31 =? 0) && (b mod 2 ^ 31 <=? 0x7f800000))%N.

(** * Comparisons only look at constructor and sign (any format) *)

Section Generic.
Variables prec emax : Z.

(** [+0 ? b] *)
Definition ff_cmp_zero (x : full_float) : option comparison :=
  match x with
  | F754_zero _ => Some Eq
  | F754_infinity s => Some (if s then Gt else Lt)
  | F754_nan _ _ => None
  | F754_finite s _ _ => Some (if s then Gt else Lt)
  end.

Lemma cmp_zero_B2FF : forall (b : binary_float prec emax),
  Bcompare prec emax (B754_zero prec emax false) b = ff_cmp_zero (B2FF prec emax b).
Proof. intros b; destruct b as [s|s|s pl H|s m e H]; reflexivity. Qed.

Definition ff_is_nan (x : full_float) : bool :=
  match x with F754_nan _ _ => true | _ => false end.

(** [b ? b] is [Some Eq] exactly when [b] is not a NaN *)
Lemma cmp_self_B2FF : forall (b : binary_float prec emax),
  Bcompare prec emax b b = if ff_is_nan (B2FF prec emax b) then None else Some Eq.
Proof.
  intros b; destruct b as [s|s|s pl H|s m e H]; try (destruct s; reflexivity).
  unfold Bcompare, BinarySingleNaN.Bcompare; cbn.
  rewrite Z.compare_refl, Pos.compare_cont_refl.
  destruct s; reflexivity.
Qed.
End Generic.

(** * Classification of [binary_float_of_bits_aux] by sign bit and magnitude *)

Local Open Scope Z_scope.

(** what a decoded value may be, given sign bit [s] and magnitude [mag]
    (the pattern without its sign bit); [inf] is the magnitude of infinity *)
Definition ff_class (inf : Z) (s : bool) (mag : Z) (x : full_float) : Prop :=
  match x with
  | F754_zero s' => s' = s /\ mag = 0
  | F754_infinity s' => s' = s /\ mag = inf
  | F754_nan _ _ => inf < mag
  | F754_finite s' _ _ => s' = s /\ 0 < mag < inf
  end.

Lemma aux_class64 : forall x, 0 <= x < 2 ^ 64 ->
  ff_class 0x7ff0000000000000 (2 ^ 63 <=? x) (x mod 2 ^ 63) (binary_float_of_bits_aux 52 11 x).
Proof.
  intros x Hx.
  unfold binary_float_of_bits_aux, split_bits.
  change (2 ^ 64) with 18446744073709551616 in Hx.
  change (2 ^ 63) with 9223372036854775808.
  change (2 ^ 52 * 2 ^ 11) with 9223372036854775808.
  change (2 ^ 52) with 4503599627370496.
  change (2 ^ 11 - 1) with 2047.
  change (2 ^ 11) with 2048.
  change (Z.leb 9223372036854775808 x) with (9223372036854775808 <=? x).
  case Zeq_bool_spec; intros He1.
  - destruct (x mod 4503599627370496) as [|p|p] eqn:Hm; cbn [ff_class]; lia.
  - case Zeq_bool_spec; intros He2.
    + destruct (x mod 4503599627370496) as [|p|p] eqn:Hm; cbn [ff_class]; lia.
    + destruct (x mod 4503599627370496 + 4503599627370496) as [|p|p] eqn:Hm;
        cbn [ff_class]; lia.
Qed.

Lemma aux_class32 : forall x, 0 <= x < 2 ^ 32 ->
  ff_class 0x7f800000 (2 ^ 31 <=? x) (x mod 2 ^ 31) (binary_float_of_bits_aux 23 8 x).
Proof.
  intros x Hx.
  unfold binary_float_of_bits_aux, split_bits.
  change (2 ^ 32) with 4294967296 in Hx.
  change (2 ^ 31) with 2147483648.
  change (2 ^ 23 * 2 ^ 8) with 2147483648.
  change (2 ^ 23) with 8388608.
  change (2 ^ 8 - 1) with 255.
  change (2 ^ 8) with 256.
  change (Z.leb 2147483648 x) with (2147483648 <=? x).
  case Zeq_bool_spec; intros He1.
  - destruct (x mod 8388608) as [|p|p] eqn:Hm; cbn [ff_class]; lia.
  - case Zeq_bool_spec; intros He2.
    + destruct (x mod 8388608) as [|p|p] eqn:Hm; cbn [ff_class]; lia.
    + destruct (x mod 8388608 + 8388608) as [|p|p] eqn:Hm; cbn [ff_class]; lia.
Qed.

(** * From [N] bit patterns to the decoded float *)

Local Open Scope N_scope.

Lemma B2FF_f64_of_bits : forall b, b < 2 ^ 64 ->
  B2FF 53 1024 (f64_of_bits b) = binary_float_of_bits_aux 52 11 (Z.of_N b).
Proof.
  intros b Hb. unfold f64_of_bits. rewrite N.mod_small by exact Hb.
  unfold b64_of_bits, binary_float_of_bits. apply B2FF_FF2B.
Qed.

Lemma B2FF_f32_of_bits : forall b, b < 2 ^ 32 ->
  B2FF 24 128 (f32_of_bits b) = binary_float_of_bits_aux 23 8 (Z.of_N b).
Proof.
  intros b Hb. unfold f32_of_bits. rewrite N.mod_small by exact Hb.
  unfold b32_of_bits, binary_float_of_bits. apply B2FF_FF2B.
Qed.

Lemma f64_of_bits_0 : f64_of_bits 0 = B754_zero 53 1024 false.
Proof. reflexivity. Qed.
Lemma f32_of_bits_0 : f32_of_bits 0 = B754_zero 24 128 false.
Proof. reflexivity. Qed.

Lemma testbit63_leb : forall b, b < 2 ^ 64 -> N.testbit b 63 = (2 ^ 63 <=? b).
Proof.
  intros b Hb. rewrite N.testbit_eqb.
  change (2 ^ 64) with 18446744073709551616 in Hb.
  change (2 ^ 63) with 9223372036854775808.
  lia.
Qed.

Lemma testbit31_leb : forall b, b < 2 ^ 32 -> N.testbit b 31 = (2 ^ 31 <=? b).
Proof.
  intros b Hb. rewrite N.testbit_eqb.
  change (2 ^ 32) with 4294967296 in Hb.
  change (2 ^ 31) with 2147483648.
  lia.
Qed.

(** the classification, stated on [N] patterns *)
Lemma f64_of_bits_class : forall b, b < 2 ^ 64 ->
  ff_class 0x7ff0000000000000 (N.testbit b 63) (Z.of_N (b mod 2 ^ 63))
           (B2FF 53 1024 (f64_of_bits b)).
Proof.
  intros b Hb. rewrite (B2FF_f64_of_bits b Hb), (testbit63_leb b Hb).
  assert (Hx : (0 <= Z.of_N b < 2 ^ 64)%Z).
  { change (2 ^ 64) with 18446744073709551616 in Hb.
    change (2 ^ 64)%Z with 18446744073709551616%Z. lia. }
  pose proof (aux_class64 (Z.of_N b) Hx) as Hc.
  replace (2 ^ 63 <=? b) with (2 ^ 63 <=? Z.of_N b)%Z.
  2:{ change (2 ^ 63) with 9223372036854775808.
      change (2 ^ 63)%Z with 9223372036854775808%Z. lia. }
  replace (Z.of_N (b mod 2 ^ 63)) with (Z.of_N b mod 2 ^ 63)%Z.
  2:{ rewrite N2Z.inj_mod. reflexivity. }
  exact Hc.
Qed.

Lemma f32_of_bits_class : forall b, b < 2 ^ 32 ->
  ff_class 0x7f800000 (N.testbit b 31) (Z.of_N (b mod 2 ^ 31))
           (B2FF 24 128 (f32_of_bits b)).
Proof.
  intros b Hb. rewrite (B2FF_f32_of_bits b Hb), (testbit31_leb b Hb).
  assert (Hx : (0 <= Z.of_N b < 2 ^ 32)%Z).
  { change (2 ^ 32) with 4294967296 in Hb.
    change (2 ^ 32)%Z with 4294967296%Z. lia. }
  pose proof (aux_class32 (Z.of_N b) Hx) as Hc.
  replace (2 ^ 31 <=? b) with (2 ^ 31 <=? Z.of_N b)%Z.
  2:{ change (2 ^ 31) with 2147483648.
      change (2 ^ 31)%Z with 2147483648%Z. lia. }
  replace (Z.of_N (b mod 2 ^ 31)) with (Z.of_N b mod 2 ^ 31)%Z.
  2:{ rewrite N2Z.inj_mod. reflexivity. }
  exact Hc.
Qed.

(** [le b b] says "not a NaN"; [le 0 b] is decided by constructor and sign *)
Lemma le64_self : forall b, le64 b b = negb (ff_is_nan (B2FF 53 1024 (f64_of_bits b))).
Proof.
  intros b. unfold le64, f64_le, b64_compare. rewrite cmp_self_B2FF.
  destruct (ff_is_nan _); reflexivity.
Qed.

Lemma le32_self : forall b, le32 b b = negb (ff_is_nan (B2FF 24 128 (f32_of_bits b))).
Proof.
  intros b. unfold le32, f32_le, b32_compare. rewrite cmp_self_B2FF.
  destruct (ff_is_nan _); reflexivity.
Qed.

Lemma le64_zero : forall b,
  le64 0 b = match ff_cmp_zero (B2FF 53 1024 (f64_of_bits b)) with
             | Some Lt | Some Eq => true | _ => false end.
Proof.
  intros b. unfold le64, f64_le, b64_compare.
  rewrite f64_of_bits_0, cmp_zero_B2FF. reflexivity.
Qed.

Lemma le32_zero : forall b,
  le32 0 b = match ff_cmp_zero (B2FF 24 128 (f32_of_bits b)) with
             | Some Lt | Some Eq => true | _ => false end.
Proof.
  intros b. unfold le32, f32_le, b32_compare.
  rewrite f32_of_bits_0, cmp_zero_B2FF. reflexivity.
Qed.

(** * The lemmas of the brief *)

(* a float that is not NaN (le b b) and not below zero by its bit pattern is >= +0 *)
Lemma not_below_zero64 : forall b,
  b < 2 ^ 64 -> le64 b b = true -> below_zero_bits64 b = false -> le64 0 b = true.
Proof.
  intros b Hb Hself Hbz.
  rewrite le64_self in Hself. rewrite le64_zero.
  pose proof (f64_of_bits_class b Hb) as Hc.
  unfold below_zero_bits64 in Hbz.
  change (2 ^ 63) with 9223372036854775808 in *.
  set (t := N.testbit b 63) in *; clearbody t.
  destruct (B2FF 53 1024 (f64_of_bits b)) as [s|s|s pl|s m e];
    cbn [ff_class ff_cmp_zero ff_is_nan negb] in *;
    try discriminate Hself; try reflexivity;
    destruct s; try reflexivity; exfalso;
    try (destruct Hc as [Hs Hm]; subst t; cbn [andb] in Hbz); lia.
Qed.

Lemma not_below_zero32 : forall b,
  b < 2 ^ 32 -> le32 b b = true -> below_zero_bits32 b = false -> le32 0 b = true.
Proof.
  intros b Hb Hself Hbz.
  rewrite le32_self in Hself. rewrite le32_zero.
  pose proof (f32_of_bits_class b Hb) as Hc.
  unfold below_zero_bits32 in Hbz.
  change (2 ^ 31) with 2147483648 in *.
  set (t := N.testbit b 31) in *; clearbody t.
  destruct (B2FF 24 128 (f32_of_bits b)) as [s|s|s pl|s m e];
    cbn [ff_class ff_cmp_zero ff_is_nan negb] in *;
    try discriminate Hself; try reflexivity;
    destruct s; try reflexivity; exfalso;
    try (destruct Hc as [Hs Hm]; subst t; cbn [andb] in Hbz); lia.
Qed.

(** the other branch: below zero by bits and not a NaN is *not* [>= +0]
    (so the bit test decides the sign exactly on non-NaN patterns) *)
Lemma below_zero64_not_ge : forall b,
  b < 2 ^ 64 -> below_zero_bits64 b = true -> le64 0 b = false.
Proof.
  intros b Hb Hbz.
  rewrite le64_zero.
  pose proof (f64_of_bits_class b Hb) as Hc.
  unfold below_zero_bits64 in Hbz.
  change (2 ^ 63) with 9223372036854775808 in *.
  set (t := N.testbit b 63) in *; clearbody t.
  destruct (B2FF 53 1024 (f64_of_bits b)) as [s|s|s pl|s m e];
    cbn [ff_class ff_cmp_zero] in *; try reflexivity;
    destruct s; try reflexivity; exfalso;
    try (destruct Hc as [Hs Hm]; subst t; cbn [andb] in Hbz); lia.
Qed.

Lemma below_zero32_not_ge : forall b,
  b < 2 ^ 32 -> below_zero_bits32 b = true -> le32 0 b = false.
Proof.
  intros b Hb Hbz.
  rewrite le32_zero.
  pose proof (f32_of_bits_class b Hb) as Hc.
  unfold below_zero_bits32 in Hbz.
  change (2 ^ 31) with 2147483648 in *.
  set (t := N.testbit b 31) in *; clearbody t.
  destruct (B2FF 24 128 (f32_of_bits b)) as [s|s|s pl|s m e];
    cbn [ff_class ff_cmp_zero] in *; try reflexivity;
    destruct s; try reflexivity; exfalso;
    try (destruct Hc as [Hs Hm]; subst t; cbn [andb] in Hbz); lia.
Qed.

(** below zero by bits implies not a NaN *)
Lemma below_zero64_not_nan : forall b,
  b < 2 ^ 64 -> below_zero_bits64 b = true -> le64 b b = true.
Proof.
  intros b Hb Hbz.
  rewrite le64_self.
  pose proof (f64_of_bits_class b Hb) as Hc.
  unfold below_zero_bits64 in Hbz.
  change (2 ^ 63) with 9223372036854775808 in *.
  set (t := N.testbit b 63) in *; clearbody t.
  destruct (B2FF 53 1024 (f64_of_bits b)) as [s|s|s pl|s m e];
    cbn [ff_class ff_is_nan negb] in *; try reflexivity; exfalso;
    destruct t; cbn [andb] in Hbz; [lia | discriminate Hbz].
Qed.

Lemma below_zero32_not_nan : forall b,
  b < 2 ^ 32 -> below_zero_bits32 b = true -> le32 b b = true.
Proof.
  intros b Hb Hbz.
  rewrite le32_self.
  pose proof (f32_of_bits_class b Hb) as Hc.
  unfold below_zero_bits32 in Hbz.
  change (2 ^ 31) with 2147483648 in *.
  set (t := N.testbit b 31) in *; clearbody t.
  destruct (B2FF 24 128 (f32_of_bits b)) as [s|s|s pl|s m e];
    cbn [ff_class ff_is_nan negb] in *; try reflexivity; exfalso;
    destruct t; cbn [andb] in Hbz; [lia | discriminate Hbz].
Qed.

(** * Hypotheses are satisfiable on non-trivial inputs *)

(* -0.0: sign bit set, not below zero, [>= +0] *)
Example not_below_zero64_ex_negzero :
  let b := 0x8000000000000000 in
  b < 2 ^ 64 /\ le64 b b = true /\ below_zero_bits64 b = false /\ le64 0 b = true.
Proof. vm_compute. repeat split; reflexivity. Qed.
(* 1.0 and +inf *)
Example not_below_zero64_ex_one :
  let b := 0x3ff0000000000000 in
  b < 2 ^ 64 /\ le64 b b = true /\ below_zero_bits64 b = false /\ le64 0 b = true.
Proof. vm_compute. repeat split; reflexivity. Qed.
Example not_below_zero64_ex_inf :
  let b := 0x7ff0000000000000 in
  b < 2 ^ 64 /\ le64 b b = true /\ below_zero_bits64 b = false /\ le64 0 b = true.
Proof. vm_compute. repeat split; reflexivity. Qed.
(* the hypotheses are needed: a negative NaN is not below zero by bits, yet not [>= 0] *)
Example not_below_zero64_needs_self :
  let b := 0xfff8000000000000 in
  below_zero_bits64 b = false /\ le64 b b = false /\ le64 0 b = false.
Proof. vm_compute. repeat split; reflexivity. Qed.
(* -inf and the smallest negative subnormal are below zero *)
Example below_zero64_ex :
  below_zero_bits64 0xfff0000000000000 = true /\ le64 0 0xfff0000000000000 = false /\
  below_zero_bits64 0x8000000000000001 = true /\ le64 0 0x8000000000000001 = false.
Proof. vm_compute. repeat split; reflexivity. Qed.
Example not_below_zero32_ex_negzero :
  let b := 0x80000000 in
  b < 2 ^ 32 /\ le32 b b = true /\ below_zero_bits32 b = false /\ le32 0 b = true.
Proof. vm_compute. repeat split; reflexivity. Qed.
Example not_below_zero32_ex_one :
  let b := 0x3f800000 in
  b < 2 ^ 32 /\ le32 b b = true /\ below_zero_bits32 b = false /\ le32 0 b = true.
Proof. vm_compute. repeat split; reflexivity. Qed.
Example below_zero32_ex :
  below_zero_bits32 0xff800000 = true /\ le32 0 0xff800000 = false /\
  below_zero_bits32 0x80000001 = true /\ le32 0 0x80000001 = false.
Proof. vm_compute. repeat split; reflexivity. Qed.

Print Assumptions not_below_zero64.
Print Assumptions not_below_zero32.
