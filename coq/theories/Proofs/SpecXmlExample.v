(** The hypotheses of the XML corollaries are satisfiable: a blob of 1019
    bytes referenced by an image, a point cloud with a 0-bit, an 11-bit and a
    64-bit record; the metadata states what the binary writer published.  No
    float occurs in this metadata, so the float oracles can be anything. *)
From Coq Require Import Permutation.
From E57 Require Import Base.Prelude Model.Device Model.PagedWriter Model.Record Model.Prog
  Model.QueueReader Model.PcWriter Model.FileBin Model.Meta Model.MetaFile Model.XmlTree
  Model.XmlParse Model.XmlExtract Spec.FileSpec Spec.FileSpecXml Spec.XmlRender Spec.MetaTree.
From E57 Require Import Proofs.PagedWriterProofs Proofs.FileRtWriter Proofs.SpecWriter Proofs.SpecWriterOk Proofs.SpecXml.
Open Scope N_scope.

Module XmlInstance.
  Definition pf : xstr -> option N := fun _ => None.
  Definition fd : N -> Z -> N := fun _ _ => 0.
  Definition proto : list dtype := [TInteger 5 5; TInteger 0 2047; TInteger (- 2 ^ 63) (2 ^ 63 - 1)].
  Definition pts : list (list rvalue) :=
    [[VInteger 5; VInteger 0; VInteger (- 2 ^ 63)]; [VInteger 5; VInteger 2047; VInteger (2 ^ 63 - 1)];
     [VInteger 5; VInteger 1234; VInteger (-1)]].
  Definition blob : list N := map (fun i => N.of_nat i mod 256) (seq 0 1019).
  Definition items : list FileBin.item := [IBlob blob; IPc proto pts].
  Definition outs : list item_out := [OBlob 48 1019; OPc 1088 3].
  Definition none_pc (guid : xstring) (off n : N) (p : list record) : pointcloud :=
    mkPointCloud (Some guid) off n p None None None None None None None None None None None
                 None None None None None None None None None.
  Definition meta : file_meta :=
    mkFileMeta
      (mkRoot STD_FORMAT_NAME [103; 117; 105; 100] 1 0 None None None) []
      [none_pc [112; 99] 1088 3
         [mkRecord CartesianX (DInteger 5 5); mkRecord CartesianY (DInteger 0 2047);
          mkRecord CartesianZ (DInteger (- 2 ^ 63) (2 ^ 63 - 1))]]
      [mkImage (Some [105]) (Some (mkVisRef (mkImageBlob (mkBlob 48 1019) Png) None 3 2))
               None None None None None None None None None].
  (* what the reader's extractors make of the tree (at the time of writing the crate reads the minor
     version from the element versionMajor - reported - so this differs from [meta] in that field) *)
  Definition meta' : file_meta :=
    match extract_all pf pf fd (tree_of meta) with Ok m => m | _ => meta end.
  Definition xml (c : render_choices) : list N := render c (tree_of meta).
  Definition run (c : render_choices) := wrun (file_prog items (xml c)) pw0.
  Definition file (c : render_choices) : list N := d_bytes (pw_dev (fst (pw_flush (fst (run c))))).
End XmlInstance.

Import XmlInstance.

Example meta_tree_wf : wf_doc (tree_of meta) = true.
Proof. vm_compute. reflexivity. Qed.

Example meta_tree_extracts : extract_all pf pf fd (tree_of meta) = Ok meta'.
Proof. vm_compute. reflexivity. Qed.

Example meta_descriptors_published :
  Permutation (meta_descriptors meta') (item_descriptors items outs).
Proof. vm_compute. apply perm_swap. Qed.

(** the corollary applies, with the writer's own rendering choices *)
Example writer_file_wellformed_xml_instance :
  spec_wellformed_xml pf pf fd (file writer_choices) = true /\
  exists cs,
    spec_decode_file_xml pf pf fd (file writer_choices) = Some (meta', mkDecoded (xml writer_choices) cs) /\
    length cs = length (meta_descriptors meta') /\
    forall d cnt, In (d, cnt) (combine (meta_descriptors meta') cs) ->
                  In (d, cnt) (combine (item_descriptors items outs) (map item_content items)).
Proof.
  assert (Hrun : wrun (file_prog items (xml writer_choices)) pw0 = (fst (run writer_choices), Ok outs))
    by (vm_compute; reflexivity).
  apply (writer_file_wellformed_xml pf pf fd items outs (fst (run writer_choices)) meta meta' writer_choices []).
  - vm_compute. reflexivity.
  - exact meta_tree_wf.
  - exact meta_tree_extracts.
  - rewrite app_nil_r. exact meta_descriptors_published.
  - vm_compute. reflexivity.
  - exact Hrun.
  - vm_compute. reflexivity.
Qed.

(** the same, evaluated: the XML of the writer model's file parses, extracts, and the file is
    well formed with the descriptors the XML states *)
Example writer_file_xml_computed :
  len (file writer_choices) = 3072 /\
  xml_meta pf pf fd (file_xml (file writer_choices)) = Some meta' /\
  spec_wellformed_xml pf pf fd (file writer_choices) = true.
Proof. split; [vm_compute; reflexivity|]. split; vm_compute; reflexivity. Qed.

(** * C03: the same tree in two renderings, read from files of the independent encoder *)
From E57 Require Import Model.PagedReader Model.ReaderOpen Spec.BitSpec Spec.PageSpec Spec.FormatSpec Proofs.PagedReaderCache.

Module RenderInstance.
  (* single quotes, hexadecimal character references, blanks inside tags, no declaration, a BOM,
     empty elements as start + end tag, character data escaped instead of CDATA *)
  Definition other_elem_choice : elem_choice :=
    mkEC [false; true] (fun _ => QSingle) (fun _ _ _ => RsHex) (fun _ => [32; 10; 9]) [32] [9] false.
  Definition other_choices : render_choices :=
    mkRC true DeclNone (fun _ => [32; 13; 10]) (fun _ _ => other_elem_choice)
         (fun _ _ _ _ => TcEscaped (fun _ _ => RsDec)).
  Definition s1 := spec_stream_bytes (nth 1 proto TSingle) (column 1 pts).
  Definition s2 := spec_stream_bytes (nth 2 proto TSingle) (column 2 pts).
  Definition lay : layout :=
    [SIndex 16; SData [[]; take 2 s1; take 9 s2]; SIgnored 8; SData [[]; drop 2 s1; drop 9 s2]; SIndex 20].
  (* blob at 48 (1019 bytes, then 8 bytes of padding), the vector at logical 1092 = physical 1096, XML last *)
  Definition fl : file_layout := [FBlob blob 8; FPc proto pts lay 8; FXml].
  Definition meta2 : file_meta :=
    mkFileMeta (fm_root meta) []
      [none_pc [112; 99] 1096 3 (pc_prototype (hd (none_pc [] 0 0 []) (fm_pointclouds meta)))]
      (fm_images meta).
  Definition meta2' : file_meta :=
    match extract_all pf pf fd (tree_of meta2) with Ok m => m | _ => meta2 end.
End RenderInstance.
Import RenderInstance.

Example renderings_differ :
  render writer_choices (tree_of meta2) <> render other_choices (tree_of meta2).
Proof. vm_compute. discriminate. Qed.

Example spec_file_read_any_rendering_instance : forall c, c = writer_choices \/ c = other_choices ->
  let x := render c (tree_of meta2) in
  let f := spec_encode_file fl x in
  exists rs d',
    reader_open (dev_init f None)
    = (d', Ok (rs, mkHeader 1 0 (len f) (phys_of_log (xml_start 48 fl (len x))) (len x) 1024, x)) /\
    pr_inv 1024 f rs /\
    xml_parse x = ParseOk (tree_of meta2) /\
    xml_meta pf pf fd x = Some meta2' /\
    forall d, In d (meta_descriptors meta2') ->
      exists cnt, In (d, cnt) (combine (layout_descriptors 48 fl (len x)) (layout_contents fl)) /\
                  desc_reads rs d cnt.
Proof.
  intros c Hc. cbv zeta.
  apply (spec_file_read_any_rendering pf pf fd fl (tree_of meta2) meta2' c).
  - vm_compute. reflexivity.
  - vm_compute. reflexivity.
  - vm_compute. reflexivity.
  - destruct Hc as [-> | ->]; vm_compute; apply perm_swap.
  - destruct Hc as [-> | ->]; vm_compute; discriminate.
  - destruct Hc as [-> | ->]; vm_compute; reflexivity.
Qed.

Print Assumptions writer_file_wellformed_xml_instance.
Print Assumptions spec_file_read_any_rendering_instance.
