(** C09, termination half, part 3: the iterator of pc_reader_raw.rs.
    [next] returns None once [read >= records]; each delivered item advances
    [read] by one and leaves [records] alone; hence a driver never obtains more
    than [records] points, and [records - read + 1] calls of [next] always
    reach [Done] or an error - on EVERY reader state and device (no invariant). *)
From E57 Require Import Base.Prelude Model.Crc Model.Device Model.PagedWriter Model.PagedReader
  Spec.PageSpec Model.Prog Model.Record Model.QueueReader Model.PcWriter
  Model.FileBin Model.ReaderOpen Spec.FormatSpec.
From E57 Require Import Proofs.PageSpecLemmas Proofs.ProgTransfer Proofs.ReaderSessions.
From E57 Require Import Proofs.PagedWriterProofs Proofs.FileRtWriter Proofs.FileRtReader Proofs.FileRtMain
  Proofs.FileRtExample.
From Coq Require Import ZifyN ZifyNat ZifyBool.
Local Open Scope N_scope.

(** * Iteration count *)

Theorem count_raw_next : forall ls it,
  (ri_records it <=? ri_read it) = true -> raw_next ls it = RRet (it, Done).
Proof. intros ls it H. unfold raw_next. rewrite H. reflexivity. Qed.

Theorem count_raw_next_item : forall (s : pr) ls it s' it' p,
  rrun (raw_next ls it) s = (s', Ok (it', Item p)) ->
  ri_read it < ri_records it /\ ri_read it' = ri_read it + 1 /\ ri_records it' = ri_records it.
Proof.
  intros s ls it s' it' p. unfold raw_next, rret, rfail.
  destruct (ri_records it <=? ri_read it) eqn:E.
  - cbn [rrun]. intros H. discriminate.
  - rewrite rrun_bind.
    destruct (rrun (refill (refill_fuel ls) (ri_q it)) s) as [s1 [q|k|]]; try discriminate.
    destruct (pop_fronts (q_proto q) (q_queues q)) as [[vs qs]|k|]; cbn [rrun]; intros H; try discriminate.
    injection H as _ <- _. cbn [ri_read ri_records]. lia.
Qed.

Lemma len_snoc {A} (l : list A) (x : A) : len (l ++ [x]) = len l + 1.
Proof. rewrite len_app. reflexivity. Qed.

Theorem count_raw_collect : forall fuel (s : pr) ls it acc s' pts,
  rrun (raw_collect fuel ls it acc) s = (s', Ok pts) ->
  len pts + ri_read it <= len acc + N.max (ri_records it) (ri_read it).
Proof.
  induction fuel as [|f IH]; intros s ls it acc s' pts; cbn [raw_collect].
  - unfold rfail. cbn [rrun]. discriminate.
  - rewrite rrun_bind.
    destruct (rrun (raw_next ls it) s) as [s1 [[it1 o]|k|]] eqn:En; try discriminate.
    destruct o as [|p].
    + unfold rret. cbn [rrun]. intros H. injection H as _ <-. lia.
    + intros H. apply IH in H. apply count_raw_next_item in En.
      destruct En as (A1 & A2 & A3). rewrite len_snoc, A2, A3 in H. lia.
Qed.

Lemma raw_new_fields (s : pr) fo recs proto s1 it :
  rrun (raw_new fo recs proto) s = (s1, Ok it) -> ri_records it = recs /\ ri_read it = 0.
Proof.
  unfold raw_new. rewrite rrun_bind.
  destruct (rrun (qr_new fo recs proto) s) as [s2 [q|k|]]; try discriminate.
  unfold rret. cbn [rrun]. intros H. injection H as _ <-. split; reflexivity.
Qed.

(** the driver never obtains more points than the record count it was opened with *)
Theorem count_raw_all : forall fuel (s : pr) ls fo recs proto s' pts,
  rrun (op_raw_all fuel ls fo recs proto) s = (s', Ok pts) -> len pts <= recs.
Proof.
  intros fuel s ls fo recs proto s' pts. unfold op_raw_all. rewrite rrun_bind.
  destruct (rrun (raw_new fo recs proto) s) as [s1 [it|k|]] eqn:En; try discriminate.
  intros H. apply count_raw_collect in H.
  destruct (raw_new_fields _ _ _ _ _ _ En) as [A1 A2].
  rewrite A1, A2 in H. change (len (@nil (list rvalue))) with 0 in H. lia.
Qed.

(** * Fuel of the driver loop *)

Lemma raw_collect_fuel_indep ls : forall (f1 f2 : nat) (s : pr) it acc,
  (N.to_nat (ri_records it - ri_read it) < f1)%nat ->
  (N.to_nat (ri_records it - ri_read it) < f2)%nat ->
  rrun (raw_collect f1 ls it acc) s = rrun (raw_collect f2 ls it acc) s.
Proof.
  induction f1 as [|f1 IH]; intros f2 s it acc H1 H2; [lia|].
  destruct f2 as [|f2]; [lia|].
  cbn [raw_collect]. rewrite !rrun_bind.
  destruct (rrun (raw_next ls it) s) as [s1 [[it1 o]|k|]] eqn:En; try reflexivity.
  destruct o as [|p]; [reflexivity|].
  apply count_raw_next_item in En. destruct En as (A1 & A2 & A3).
  apply IH; rewrite A2, A3; lia.
Qed.

Theorem fuel_raw_collect : forall (extra : nat) (s : pr) ls it acc,
  rrun (raw_collect (S (N.to_nat (ri_records it - ri_read it)) + extra) ls it acc) s
  = rrun (raw_collect (S (N.to_nat (ri_records it - ri_read it))) ls it acc) s.
Proof. intros. apply raw_collect_fuel_indep; lia. Qed.

(** * Concrete instances: the two-page file of [FileRtExample] (three points at
    section offset 48, then a blob, then one point at 1176) *)

Definition ex_rs : pr :=
  match snd (reader_open (dev_init (file_of FileInstance.items FileInstance.xml) None)) with
  | Ok x => fst (fst x)
  | _ => mkPr (dev_init [] None) 0 0 0 0 0 None []
  end.
Definition ex_open (recs : N) : pr * raw_iter :=
  let x := rrun (raw_new 48 recs FileInstance.proto) ex_rs in
  (fst x, match snd x with Ok it => it | _ => mkRaw (mkQr [] [] []) 0 0 end).

Example count_raw_next_ex :
  let it := mkRaw (ri_q (snd (ex_open 3))) 3 3 in
  raw_next (pr_log_size ex_rs) it = RRet (it, Done).
Proof. cbv zeta. apply count_raw_next. reflexivity. Qed.

Example count_raw_next_item_ex :
  let s1 := fst (ex_open 3) in let it := snd (ex_open 3) in
  exists s' it' p, rrun (raw_next (pr_log_size ex_rs) it) s1 = (s', Ok (it', Item p)) /\
    p = [VInteger 5; VInteger 0; VInteger (- 2 ^ 63)] /\
    ri_read it < ri_records it /\ ri_read it' = ri_read it + 1 /\ ri_records it' = ri_records it.
Proof.
  cbv zeta.
  assert (Hs : match rrun (raw_next (pr_log_size ex_rs) (snd (ex_open 3))) (fst (ex_open 3)) with
               | (_, Ok (_, Item p)) => p = [VInteger 5; VInteger 0; VInteger (- 2 ^ 63)]
               | _ => False
               end) by (vm_compute; reflexivity).
  destruct (rrun (raw_next (pr_log_size ex_rs) (snd (ex_open 3))) (fst (ex_open 3)))
    as [s' [[it' [|p]]|k|]] eqn:En; try contradiction.
  exists s', it', p. split; [reflexivity|]. split; [exact Hs|].
  eapply count_raw_next_item. exact En.
Qed.

Example count_raw_all_ex :
  snd (rrun (op_raw_all 10 (pr_log_size ex_rs) 48 3 FileInstance.proto) ex_rs) = Ok FileInstance.pts1 /\
  len FileInstance.pts1 <= 3.
Proof.
  split; [vm_compute; reflexivity|].
  destruct (rrun (op_raw_all 10 (pr_log_size ex_rs) 48 3 FileInstance.proto) ex_rs) as [s' r] eqn:E.
  assert (Hr : r = Ok FileInstance.pts1).
  { change r with (snd (s', r)). rewrite <- E. vm_compute. reflexivity. }
  subst r. eapply count_raw_all. exact E.
Qed.

(** a truncated count (2 of the 3 points): exactly 2 are delivered *)
Example count_raw_all_ex_short :
  res_map len (snd (rrun (op_raw_all 10 (pr_log_size ex_rs) 48 2 FileInstance.proto) ex_rs)) = Ok 2.
Proof. vm_compute. reflexivity. Qed.

Example fuel_raw_collect_ex :
  let s1 := fst (ex_open 3) in let it := snd (ex_open 3) in
  rrun (raw_collect (S (N.to_nat (ri_records it - ri_read it)) + 6) (pr_log_size ex_rs) it []) s1
  = rrun (raw_collect (S (N.to_nat (ri_records it - ri_read it))) (pr_log_size ex_rs) it []) s1 /\
  snd (rrun (raw_collect (S (N.to_nat (ri_records it - ri_read it))) (pr_log_size ex_rs) it []) s1)
  = Ok FileInstance.pts1.
Proof. cbv zeta. split; [apply fuel_raw_collect|vm_compute; reflexivity]. Qed.

(** a record count larger than what the section holds (5 declared, 3 present):
    the loop ends by an error of [next], again with any fuel *)
Example fuel_raw_collect_ex_err :
  let s1 := fst (ex_open 5) in let it := snd (ex_open 5) in
  rrun (raw_collect (S (N.to_nat (ri_records it - ri_read it)) + 6) (pr_log_size ex_rs) it []) s1
  = rrun (raw_collect (S (N.to_nat (ri_records it - ri_read it))) (pr_log_size ex_rs) it []) s1 /\
  is_err (snd (rrun (raw_collect (S (N.to_nat (ri_records it - ri_read it))) (pr_log_size ex_rs) it []) s1))
  = true.
Proof. cbv zeta. split; [apply fuel_raw_collect|vm_compute; reflexivity]. Qed.

Print Assumptions count_raw_next.
Print Assumptions count_raw_next_item.
Print Assumptions count_raw_collect.
Print Assumptions count_raw_all.
Print Assumptions fuel_raw_collect.
