(** C09, termination half, part 2: the fuelled loops over the paged reader
    ([read_exact], the copy loop of [Blob::read], the page loop of
    [validate_crc]) get enough fuel, for every reader state that satisfies
    [pr_inv] (every state reachable on a fault-free device): any additional
    fuel gives the same result AND the same final reader state. *)
From E57 Require Import Base.Prelude Model.Crc Model.Device Model.PagedReader Spec.PageReadSpec Model.Prog
  Model.Record Model.QueueReader Model.FileBin.
From E57 Require Import Proofs.PageSpecLemmas Proofs.PagedReaderCache Proofs.ReaderProgSem Proofs.TotWp.
From Coq Require Import ZifyN ZifyNat ZifyBool.
Ltac Zify.zify_post_hook ::= Z.div_mod_to_equations.
Local Open Scope N_scope.

(** what one [read] call does on a state satisfying the invariant: the
    successor state satisfies it again, has the same logical size, and the
    offset/length facts of [gr_read_spec] hold *)
Lemma pr_read_facts ps phys (s : pr) n : pr_inv ps phys s ->
  exists s1 r, pr_read n s = (s1, r) /\ pr_inv ps phys s1 /\ pr_log_size s1 = pr_log_size s /\
    pr_pages s1 = pr_pages s /\
    match r with
    | Ok l => pr_off s1 = pr_off s + len l /\ len l <= n /\
              (l <> [] -> pr_off s1 <= pr_log_size s /\ len l = N.min n ((ps - 4) - pr_off s mod (ps - 4)))
    | Err _ => True
    | Panic => False
    end.
Proof.
  intros I.
  destruct (pr_read_spec ps phys s n I) as (s1 & H1 & I1 & Ho1).
  destruct (gr_read ps phys n (pr_off s)) as [off1 r] eqn:Eg. cbn [fst snd] in *.
  pose proof (gr_read_spec ps phys (inv_ps4 _ _ _ I) (inv_mod _ _ _ I) n (pr_off s) off1 r Eg) as Hs.
  exists s1, r. split; [exact H1|]. split; [exact I1|].
  split; [rewrite (inv_log _ _ _ I), (inv_log _ _ _ I1); reflexivity|].
  split; [rewrite (inv_pages _ _ _ I), (inv_pages _ _ _ I1); reflexivity|].
  destruct r as [l|k|]; [|exact Logic.I|exact Hs].
  rewrite (inv_log _ _ _ I), Ho1.
  destruct Hs as (A1 & A2 & _ & A4). auto.
Qed.

(** * [pr_read_exact_loop] *)

Lemma pr_read_exact_loop_fuel_indep ps phys : forall (f1 f2 : nat) want acc (s : pr),
  pr_inv ps phys s ->
  (N.to_nat (N.min want (pr_log_size s - pr_off s)) < f1)%nat ->
  (N.to_nat (N.min want (pr_log_size s - pr_off s)) < f2)%nat ->
  pr_read_exact_loop f1 want acc s = pr_read_exact_loop f2 want acc s.
Proof.
  induction f1 as [|f1 IH]; intros f2 want acc s I H1 H2; [lia|].
  destruct f2 as [|f2]; [lia|].
  cbn [pr_read_exact_loop].
  destruct (want =? 0) eqn:E0; [reflexivity|].
  destruct (pr_read_facts ps phys s want I) as (s1 & r & Hr & I1 & Hls & _ & Hs).
  unfold bind. rewrite Hr.
  destruct r as [got|k|]; [|reflexivity|reflexivity].
  destruct got as [|b got]; [reflexivity|].
  destruct Hs as (Ho1 & Hle & Hne).
  destruct Hne as [Hin _]; [discriminate|].
  assert (Hpos : len (b :: got) <> 0) by (apply len_nonnil; discriminate).
  apply IH; [exact I1| |]; rewrite Hls;
    apply (fuel_step want (len (b :: got)) (pr_log_size s) (pr_off s) (pr_off s1)); assumption.
Qed.

Theorem fuel_pr_read_exact : forall ps phys (s : pr) (extra : nat) n, pr_inv ps phys s ->
  pr_read_exact_loop (S (N.to_nat (N.min n (pr_log_size s))) + extra) n [] s = pr_read_exact n s.
Proof.
  intros ps phys s extra n I. unfold pr_read_exact.
  apply (pr_read_exact_loop_fuel_indep ps phys); [exact I| |]; lia.
Qed.

(** * [copy_loop] *)

Lemma rrun_r_read_bind {B} e n (f : list N -> rprog B) (s : pr) :
  rrun (rbind (r_read e n) f) s =
  let '(s1, r) := pr_read n s in
  match r with
  | Ok l => rrun (f l) s1
  | Err _ => (s1, Err e)
  | Panic => (s1, Panic)
  end.
Proof.
  unfold r_read. cbn [rbind rrun pr_step]. unfold bind.
  destruct (pr_read n s) as [s1 [l|k|]]; reflexivity.
Qed.

Lemma copy_loop_fuel_indep ps phys : forall (f1 f2 : nat) want acc (s : pr),
  pr_inv ps phys s ->
  (N.to_nat (N.min want (pr_log_size s - pr_off s)) < f1)%nat ->
  (N.to_nat (N.min want (pr_log_size s - pr_off s)) < f2)%nat ->
  rrun (copy_loop f1 want acc) s = rrun (copy_loop f2 want acc) s.
Proof.
  induction f1 as [|f1 IH]; intros f2 want acc s I H1 H2; [lia|].
  destruct f2 as [|f2]; [lia|].
  cbn [copy_loop].
  destruct (want =? 0) eqn:E0; [reflexivity|].
  rewrite !rrun_r_read_bind.
  destruct (pr_read_facts ps phys s (N.min want 8192) I) as (s1 & r & Hr & I1 & Hls & _ & Hs).
  rewrite Hr.
  destruct r as [got|k|]; [|reflexivity|reflexivity].
  destruct got as [|b got]; [reflexivity|].
  destruct Hs as (Ho1 & Hle & Hne).
  destruct Hne as [Hin _]; [discriminate|].
  assert (Hpos : len (b :: got) <> 0) by (apply len_nonnil; discriminate).
  assert (Hle' : len (b :: got) <= want) by (clear - Hle; lia).
  apply IH; [exact I1| |]; rewrite Hls;
    apply (fuel_step want (len (b :: got)) (pr_log_size s) (pr_off s) (pr_off s1)); assumption.
Qed.

Theorem fuel_copy_loop : forall ps phys (s : pr) (extra : nat) want, pr_inv ps phys s ->
  rrun (copy_loop (S (N.to_nat (N.min want (pr_log_size s))) + extra) want []) s
  = rrun (copy_loop (S (N.to_nat (N.min want (pr_log_size s)))) want []) s.
Proof.
  intros ps phys s extra want I.
  apply (copy_loop_fuel_indep ps phys); [exact I| |]; lia.
Qed.

(** * [validate_loop] *)

(** a read with a buffer of at least one payload goes to the next page boundary *)
Lemma next_page a b : 0 < b -> (a + (b - a mod b)) / b = a / b + 1.
Proof.
  intros Hb.
  pose proof (N.div_mod a b ltac:(lia)) as E. pose proof (N.mod_lt a b ltac:(lia)) as Hr.
  set (q := a / b) in *. set (r := a mod b) in *. clearbody q r.
  assert (Ea : a + (b - r) = (q + 1) * b) by (clear - E Hr; nia).
  rewrite Ea. apply N.div_mul. lia.
Qed.

Lemma page_lt a b P : 0 < b -> a + (b - a mod b) <= P * b -> a / b < P.
Proof.
  intros Hb H.
  pose proof (N.div_mod a b ltac:(lia)) as E. pose proof (N.mod_lt a b ltac:(lia)) as Hr.
  set (q := a / b) in *. set (r := a mod b) in *. clearbody q r.
  assert (Ea : a + (b - r) = (q + 1) * b) by (clear - E Hr; nia).
  rewrite Ea in H. clear - H Hb. nia.
Qed.

Lemma pages_step (P q q1 : N) (f : nat) :
  q1 = q + 1 -> q < P -> (N.to_nat (P - q) < S f)%nat -> (N.to_nat (P - q1) < f)%nat.
Proof. intros. lia. Qed.

Lemma validate_loop_fuel_indep ps phys : forall (f1 f2 : nat) (s : pr),
  pr_inv ps phys s ->
  (N.to_nat (pr_pages s - pr_off s / (ps - 4)) < f1)%nat ->
  (N.to_nat (pr_pages s - pr_off s / (ps - 4)) < f2)%nat ->
  rrun (validate_loop f1 ps) s = rrun (validate_loop f2 ps) s.
Proof.
  induction f1 as [|f1 IH]; intros f2 s I H1 H2; [exfalso; exact (Nat.nlt_0_r _ H1)|].
  destruct f2 as [|f2]; [exfalso; exact (Nat.nlt_0_r _ H2)|].
  cbn [validate_loop].
  rewrite !rrun_r_read_bind.
  destruct (pr_read_facts ps phys s ps I) as (s1 & r & Hr & I1 & Hls & Hpg & Hs).
  rewrite Hr.
  destruct r as [got|k|]; [|reflexivity|reflexivity].
  destruct got as [|b got]; [reflexivity|].
  destruct Hs as (Ho1 & Hle & Hne).
  destruct Hne as [Hin Hlen]; [discriminate|].
  pose proof (inv_ps4 _ _ _ I) as Hps4.
  assert (Hb : 0 < ps - 4) by (clear - Hps4; lia).
  pose proof (N.mod_lt (pr_off s) (ps - 4) ltac:(clear - Hb; lia)) as Hm.
  assert (Ho2 : pr_off s1 = pr_off s + ((ps - 4) - pr_off s mod (ps - 4))).
  { rewrite Ho1, Hlen. clear - Hps4 Hm.
    set (m := pr_off s mod (ps - 4)) in *. clearbody m. lia. }
  assert (Hq1 : pr_off s1 / (ps - 4) = pr_off s / (ps - 4) + 1).
  { rewrite Ho2. apply next_page. exact Hb. }
  assert (Hq : pr_off s / (ps - 4) < pr_pages s).
  { apply page_lt; [exact Hb|]. rewrite <- Ho2.
    rewrite (inv_pages _ _ _ I). rewrite (inv_log _ _ _ I) in Hin. exact Hin. }
  apply IH; [exact I1| |]; rewrite Hpg;
    apply (pages_step (pr_pages s) (pr_off s / (ps - 4)) (pr_off s1 / (ps - 4))); assumption.
Qed.

(** no hypothesis on the offset is needed: the bound [pages + 1] covers offset 0 *)
Theorem fuel_validate_loop : forall ps phys (s : pr) (extra : nat), pr_inv ps phys s ->
  rrun (validate_loop (S (S (N.to_nat (pr_pages s))) + extra) ps) s
  = rrun (validate_loop (S (S (N.to_nat (pr_pages s)))) ps) s.
Proof.
  intros ps phys s extra I.
  assert (H : pr_pages s - pr_off s / (ps - 4) <= pr_pages s) by apply N.le_sub_l.
  apply (validate_loop_fuel_indep ps phys); [exact I| |];
    set (x := pr_pages s - pr_off s / (ps - 4)) in *; clearbody x; lia.
Qed.

(** * Concrete instances: a two-page device with page size 8 (payload 4) *)

Definition ex_phys : list N :=
  [1;2;3;4] ++ crc_bytes [1;2;3;4] ++ [5;6;7;8] ++ crc_bytes [5;6;7;8].
Definition ex_s0 : pr :=
  match snd (pr_new 8 (dev_init ex_phys None)) with
  | Ok s => s
  | _ => mkPr (dev_init [] None) 0 0 0 0 0 None []
  end.

Lemma ex_s0_inv : pr_inv 8 ex_phys ex_s0.
Proof.
  apply (pr_new_inv 8 ex_phys (fst (pr_new 8 (dev_init ex_phys None))) ex_s0).
  vm_compute. reflexivity.
Qed.

(** a state in the middle of the first page, reached by reading 3 bytes *)
Definition ex_s1 : pr := fst (rrun (r_read_exact 3) ex_s0).
Lemma ex_s1_inv : pr_inv 8 ex_phys ex_s1.
Proof. apply rrun_preserves_inv. exact ex_s0_inv. Qed.

Example fuel_pr_read_exact_ex :
  pr_read_exact_loop (S (N.to_nat (N.min 4 (pr_log_size ex_s1))) + 9) 4 [] ex_s1 = pr_read_exact 4 ex_s1 /\
  snd (pr_read_exact 4 ex_s1) = Ok [4;5;6;7] /\ pr_off (fst (pr_read_exact 4 ex_s1)) = 7.
Proof.
  split; [apply (fuel_pr_read_exact 8 ex_phys); exact ex_s1_inv|split; vm_compute; reflexivity].
Qed.

(** asking for more than the file holds: UnexpectedEof with any fuel *)
Example fuel_pr_read_exact_ex_eof :
  pr_read_exact_loop (S (N.to_nat (N.min 100 (pr_log_size ex_s1))) + 9) 100 [] ex_s1 = pr_read_exact 100 ex_s1 /\
  snd (pr_read_exact 100 ex_s1) = Err EIo.
Proof.
  split; [apply (fuel_pr_read_exact 8 ex_phys); exact ex_s1_inv|vm_compute; reflexivity].
Qed.

Example fuel_copy_loop_ex :
  rrun (copy_loop (S (N.to_nat (N.min 100 (pr_log_size ex_s1))) + 6) 100 []) ex_s1
  = rrun (copy_loop (S (N.to_nat (N.min 100 (pr_log_size ex_s1)))) 100 []) ex_s1 /\
  snd (rrun (copy_loop (S (N.to_nat (N.min 100 (pr_log_size ex_s1)))) 100 []) ex_s1) = Ok [4;5;6;7;8].
Proof.
  split; [apply (fuel_copy_loop 8 ex_phys); exact ex_s1_inv|vm_compute; reflexivity].
Qed.

Example fuel_validate_loop_ex :
  rrun (validate_loop (S (S (N.to_nat (pr_pages ex_s0))) + 4) 8) ex_s0
  = rrun (validate_loop (S (S (N.to_nat (pr_pages ex_s0)))) 8) ex_s0 /\
  snd (rrun (validate_loop (S (S (N.to_nat (pr_pages ex_s0)))) 8) ex_s0) = Ok tt /\
  pr_off (fst (rrun (validate_loop (S (S (N.to_nat (pr_pages ex_s0)))) 8) ex_s0)) = 8.
Proof.
  split; [apply (fuel_validate_loop 8 ex_phys); exact ex_s0_inv|repeat split; vm_compute; reflexivity].
Qed.

Print Assumptions fuel_pr_read_exact.
Print Assumptions fuel_copy_loop.
Print Assumptions fuel_validate_loop.
