(** Writer API, part 8: the CONVERSE of [accepted_is_representable] (C10_rejects):
    a call that the documentation allows in the state it is made in returns Ok.
    Part A: the model's validators accept everything the specification-side
    predicates of Proofs/WapiRules.v describe.  One predicate had to be
    strengthened: the capacity check of the writer reserves one byte per record
    and a safety margin of 500 bytes on top of "one point fits a packet"
    ([fits_packet]), so prototypes between the two bounds are rejected although
    they follow every documented rule ([packet_margin], [fits_packet_not_enough]).
    Part B: the step and run theorems on the state machine.  Part C: the whole
    writer on the fault-free paged device, and the end-to-end corollary. *)
From Coq Require Import ZArith Lia Bool.
From Flocq Require Import Binary Bits.
From E57 Require Import Base.Prelude Base.Floats Spec.PageSpec Model.Device Model.PagedWriter Model.Prog Model.BsWrite
  Model.Record Model.PcWriter Model.FileBin Spec.BitSpec Model.Meta Model.MetaFile Model.XmlGen Model.WriterApi Model.WriterFull.
From E57 Require Import Proofs.PagedWriterLemmas Proofs.PagedWriterProofs Proofs.ProgTransfer Proofs.PcWriterLemmas
  Proofs.PcWriterProofs Proofs.XgTotal Proofs.WapiProg Proofs.WapiPc Proofs.WapiRules Proofs.WapiInv Proofs.WapiMain Proofs.WapiFullProg.
From Coq Require Import ZifyN ZifyNat ZifyBool.
Ltac Zify.zify_post_hook ::= Z.div_mod_to_equations.
Open Scope N_scope.

(** * A. The validators are complete for the documented rules *)

Lemma ascii_lower_inv x y : ascii_lower x = y -> x = y \/ (x + 32 = y /\ 65 <= x <= 90).
Proof. unfold ascii_lower. destruct ((65 <=? x) && (x <=? 90)) eqn:E; intros <-; [right|left]; lia. Qed.

Lemma validate_name_complete s : name_wf s -> validate_name s = Ok tt.
Proof.
  intros (Hne & Hx & Hc). unfold validate_name. destruct s as [|c r]; [contradiction|].
  destruct (starts_with_xml (c :: r)) eqn:Ex.
  { exfalso. apply Hx. destruct r as [|b [|d r']]; try discriminate. cbn [starts_with_xml] in Ex.
    apply andb_prop in Ex as [Ex E3]. apply andb_prop in Ex as [E1 E2]. apply N.eqb_eq in E1, E2, E3.
    apply ascii_lower_inv in E1, E2, E3. exists c, b, d, r'. split; [reflexivity|]. lia. }
  replace (forallb name_char (c :: r)) with true; [reflexivity|]. symmetry. apply forallb_forall. intros b Hb.
  rewrite Forall_forall in Hc. specialize (Hc b Hb). unfold allowed_char in Hc. unfold name_char, is_alnum. lia.
Qed.

Lemma validate_name_start_complete s : name_start_ok s -> validate_name_start s = Ok tt.
Proof.
  intros H. unfold validate_name_start. destruct s as [|c r]; [reflexivity|]. specialize (H c r eq_refl).
  destruct ((48 <=? c) && (c <=? 57) || (c =? 45)) eqn:E; [exfalso; lia|reflexivity].
Qed.

Lemma ext_registered_complete exts ns : registered exts ns -> ext_registered exts ns = true.
Proof.
  intros (url & Hin). unfold ext_registered. apply existsb_exists. exists (mkExtension ns url).
  split; [exact Hin|apply xs_eqb_eq; reflexivity].
Qed.

Lemma ext_registered_not exts ns : ~ registered exts ns -> ext_registered exts ns = false.
Proof.
  intros H. destruct (ext_registered exts ns) eqn:E; [|reflexivity]. exfalso. apply H, ext_registered_ok, E.
Qed.

Lemma url_registered_not exts url : ~ (exists ns, In (mkExtension ns url) exts) -> url_registered exts url = false.
Proof.
  intros H. destruct (url_registered exts url) eqn:E; [|reflexivity]. exfalso. apply H.
  unfold url_registered in E. apply existsb_exists in E as (e & Hin & He). apply xs_eqb_eq in He.
  destruct e as [n u]. cbn in He. subst u. exists n. exact Hin.
Qed.

Lemma xs_eqb_neq a b : a <> b -> xs_eqb a b = false.
Proof. intros H. destruct (xs_eqb a b) eqn:E; [|reflexivity]. apply xs_eqb_eq in E. contradiction. Qed.

Lemma validate_url_complete url : url <> URL_XML -> url <> URL_XMLNS -> url <> [] -> url <> URL_E57 ->
  validate_url url = Ok tt.
Proof.
  intros H1 H2 H3 H4. unfold validate_url. rewrite (xs_eqb_neq _ _ H1), (xs_eqb_neq _ _ H2). cbn [orb].
  destruct url; [contradiction|]. rewrite (xs_eqb_neq _ _ H4). reflexivity.
Qed.

Lemma ext_validate_prototype_complete exts : forall proto,
  (forall ns name t, In (mkRecord (Unknown ns name) t) proto ->
     name_wf ns /\ name_wf name /\ name_start_ok name /\ registered exts ns) ->
  ext_validate_prototype proto exts = Ok tt.
Proof.
  induction proto as [|p r IH]; intros H; [reflexivity|]. cbn [ext_validate_prototype].
  assert (Hr : ext_validate_prototype r exts = Ok tt).
  { apply IH. intros ns name t Hin. apply (H ns name t). right. exact Hin. }
  destruct p as [n t]. cbn [r_name]. destruct n; try exact Hr.
  destruct (H namespace name t (or_introl eq_refl)) as (H1 & H2 & H3 & H4).
  rewrite (validate_name_complete _ H1), (validate_name_complete _ H2), (validate_name_start_complete _ H3),
    (ext_registered_complete _ _ H4). exact Hr.
Qed.

(** ** the prototype rules *)

Lemma count3_complete proto a b c : all_or_none3 proto a b c ->
  (negb (count3 proto a b c =? 0) && negb (count3 proto a b c =? 3)) = false.
Proof.
  unfold all_or_none3, count3. rewrite <- !contains_has. intros [(H1 & H2 & H3)|(H1 & H2 & H3)].
  - rewrite H1, H2, H3. reflexivity.
  - destruct (contains proto a); [exfalso; apply H1; reflexivity|].
    destruct (contains proto b); [exfalso; apply H2; reflexivity|].
    destruct (contains proto c); [exfalso; apply H3; reflexivity|]. reflexivity.
Qed.

Lemma get_rec_has proto n r : get_rec proto n = Some r -> has proto n.
Proof.
  intros H. destruct (contains proto n) eqn:E; [apply contains_has; exact E|].
  apply contains_false, get_rec_none in E. congruence.
Qed.

Lemma validate_flag_complete proto flag companion hi :
  flag_rule proto flag companion hi -> validate_flag proto flag companion hi = Ok tt.
Proof.
  unfold flag_rule, validate_flag. intros H. destruct (get_rec proto flag) as [r|] eqn:E; [|reflexivity].
  destruct (H (get_rec_has _ _ _ E)) as (Hc & Hf). apply contains_has in Hc. rewrite Hc. cbn [negb].
  destruct (get_rec_first _ _ _ E) as (_ & Hf'). rewrite (first_type_unique _ _ _ _ Hf' Hf).
  cbn [is_integer_range]. rewrite !Z.eqb_refl. reflexivity.
Qed.

Lemma integer_if_present_complete proto n : integer_rule proto n -> integer_if_present proto n = Ok tt.
Proof.
  unfold integer_rule, integer_if_present. intros H. destruct (get_rec proto n) as [r|] eqn:E; [|reflexivity].
  destruct (get_rec_first _ _ _ E) as (_ & Hf). destruct (H _ Hf) as (mn & mx & ->). reflexivity.
Qed.

Lemma not_integer_if_present_complete proto n : not_integer_rule proto n -> not_integer_if_present proto n = Ok tt.
Proof.
  unfold not_integer_rule, not_integer_if_present. intros H. destruct (get_rec proto n) as [r|] eqn:E; [|reflexivity].
  destruct (get_rec_first _ _ _ E) as (_ & Hf). specialize (H _ Hf).
  destruct (r_type r) as [| | |mn mx]; try reflexivity. exfalso. apply (H mn mx). reflexivity.
Qed.

Lemma NoDup_nodup_names : forall proto, NoDup (map r_name proto) -> nodup_names proto = true.
Proof.
  induction proto as [|p r IH]; intros H; [reflexivity|]. cbn [map] in H. inversion H as [|? ? Hn Hr]; subst.
  cbn [nodup_names]. rewrite (IH Hr), andb_true_r.
  destruct (contains r (r_name p)) eqn:E; [|reflexivity]. exfalso. apply Hn.
  apply contains_has in E as (t & Hin). apply in_map_iff. exists (mkRecord (r_name p) t). split; [reflexivity|exact Hin].
Qed.

Lemma validate_prototype_complete exts proto : representable_prototype exts proto -> validate_prototype proto = Ok tt.
Proof.
  intros (R1 & R2 & R3 & R4 & R5 & R6 & R7 & R8 & R9 & R10 & R11 & R12 & R13 & R14 & R15 & R16 & R17 & R18 & _ & _ & R21).
  unfold validate_prototype, validate_cartesian, validate_spherical, validate_color, validate_return. cbv zeta.
  rewrite (count3_complete _ _ _ _ R1), (count3_complete _ _ _ _ R2), (count3_complete _ _ _ _ R3).
  rewrite (validate_flag_complete _ _ _ _ R6), (validate_flag_complete _ _ _ _ R7), (validate_flag_complete _ _ _ _ R8),
    (validate_flag_complete _ _ _ _ R9), (validate_flag_complete _ _ _ _ R10).
  rewrite (not_integer_if_present_complete _ _ R11), (not_integer_if_present_complete _ _ R12).
  rewrite (integer_if_present_complete _ _ R13), (integer_if_present_complete _ _ R14),
    (integer_if_present_complete _ _ R15), (integer_if_present_complete _ _ R16).
  rewrite (NoDup_nodup_names _ R18).
  assert (Hc : (negb (contains proto CartesianX) && negb (contains proto SphericalAzimuth)) = false).
  { destruct R4 as [H|H]; apply contains_has in H; rewrite H; [reflexivity|apply andb_false_r]. }
  assert (Hx : xorb (contains proto ReturnCount) (contains proto ReturnIndex) = false).
  { destruct (contains proto ReturnCount) eqn:E1, (contains proto ReturnIndex) eqn:E2; try reflexivity; exfalso.
    - apply contains_has in E1. apply contains_false in E2. tauto.
    - apply contains_false in E1. apply contains_has in E2. tauto. }
  assert (Hr : forallb (fun p => range_nonempty (r_type p)) proto = true).
  { apply forallb_forall. intros p Hp. specialize (R17 p Hp). unfold range_ok in R17. unfold range_nonempty.
    destruct (r_type p); try reflexivity; lia. }
  assert (Hfl : forallb (fun p => float_limits_ok (r_type p)) proto = true).
  { apply forallb_forall. intros p Hp. apply float_limits_ok_iff. apply R21. exact Hp. }
  rewrite Hc, Hx, Hr, Hfl. reflexivity.
Qed.

(** ** capacity: what [get_max_packet_points] demands, as a statement about one point.
    6 bytes packet header, two bytes per record, ONE MORE BYTE PER RECORD, A MARGIN OF 500
    BYTES, and the bits of the point rounded up to bytes, within the u16 packet length *)
Definition packet_margin (proto : list record) : Prop :=
  0 < point_bits_of proto /\
  6 + 2 * len proto + len proto + 500 + (point_bits_of proto + 7) / 8 <= 65535.

Lemma packet_margin_fits proto : packet_margin proto -> fits_packet proto.
Proof. unfold packet_margin, fits_packet. intros [H1 H2]. split; [exact H1|]. lia. Qed.

Lemma packet_margin_iff proto : packet_margin proto <-> exists mpp, get_max_packet_points (proto_dtypes proto) = Ok mpp.
Proof.
  unfold packet_margin, point_bits_of, get_max_packet_points. cbv zeta.
  fold (point_bits (proto_dtypes proto)). rewrite len_proto_dtypes.
  unfold DATA_HEADER_SIZE, SAFETY_MARGIN, U16_MAX.
  set (pb := point_bits (proto_dtypes proto)). set (n := len proto). split.
  - intros [H1 H2]. destruct (pb =? 0) eqn:E0; [lia|].
    destruct (65535 <? 6 + n * 2 + n + 500) eqn:E1; [lia|].
    destruct ((65535 - (6 + n * 2 + n + 500)) * 8 / pb =? 0) eqn:E2; [|eauto].
    exfalso. apply N.eqb_eq in E2. apply N.div_small_iff in E2; lia.
  - intros (mpp & H). destruct (pb =? 0) eqn:E0; [discriminate|].
    destruct (65535 <? 6 + n * 2 + n + 500) eqn:E1; [discriminate|].
    destruct ((65535 - (6 + n * 2 + n + 500)) * 8 / pb =? 0) eqn:E2; [discriminate|].
    apply N.eqb_neq in E2. rewrite N.div_small_iff in E2 by lia. lia.
Qed.

(** ** values *)
Lemma representable_values_ok : forall proto vs,
  representable_point proto vs -> values_ok (proto_dtypes proto) vs = true.
Proof.
  unfold representable_point. induction 1 as [|p v pr vr Hv _ IH]; [reflexivity|].
  cbn [proto_dtypes map values_ok]. fold (proto_dtypes pr). rewrite IH, andb_true_r.
  unfold rec_dtype, representable_value in *.
  destruct (r_type p); cbn [dtype_of]; destruct Hv as (x & Hx); try (subst v; reflexivity);
    destruct Hx as [-> Hx]; lia.
Qed.

(** the margin is what decides: a prototype that passes the rule checks and fails the capacity
    check is refused (used by the witness in Proofs/WapiAcceptWitness.v) *)
Lemma capacity_rejected gen_xml lib_version st guid proto l k :
  ws_open st = true -> ws_sub st = SubNone -> ws_finalized st = false ->
  ext_validate_prototype proto (ws_exts st) = Ok tt -> validate_prototype proto = Ok tt ->
  get_max_packet_points (proto_dtypes proto) = Err k ->
  wrun_spec (wapi_step gen_xml lib_version st (AddPointcloud guid proto)) l = (l, Ok (st, CrErr k)).
Proof.
  intros Ho Hs Hf E1 E2 E3. unfold wapi_step. rewrite Ho, Hs, Hf. cbn [negb].
  rewrite run_bind, wrun_spec_wtry. unfold pc_new.
  rewrite run_bind, run_wlift, E1. cbn [fst snd]. rewrite run_bind, run_wlift, E2. cbn [fst snd].
  rewrite run_bind. unfold pcw_new. rewrite E3. cbn [wlift wbind wrun_spec fst snd wret]. reflexivity.
Qed.

(** * B. The state machine *)

(** the borrow state: which calls the compiler lets through next (the model answers
    [CrNoCompile] to all others) *)
Inductive bstate := BClosed | BTop | BPc | BIm.
Definition bstate_of (st : wstate) : bstate :=
  if ws_open st then match ws_sub st with SubNone => BTop | SubPc _ => BPc | SubIm _ _ => BIm end else BClosed.
Definition bnext (k : bstate) (c : wcall) : option bstate :=
  match k, c with
  | BClosed, NewWriter _ => Some BTop
  | BTop, SetCoordinateMetadata _ | BTop, SetCreation _ | BTop, RegisterExtension _ _ | BTop, AddBlob _
  | BTop, Finalize => Some BTop
  | BTop, AddPointcloud _ _ => Some BPc
  | BTop, AddImage _ => Some BIm
  | BPc, PcSet _ | BPc, PcAddPoint _ | BPc, PcFinalize => Some BPc
  | BPc, PcDrop => Some BTop
  | BIm, ImSet _ | BIm, ImAddVisualReference _ _ _ _ _ | BIm, ImAddPinhole _ _ _ _ | BIm, ImAddSpherical _ _ _ _
  | BIm, ImAddCylindrical _ _ _ _ | BIm, ImFinalize => Some BIm
  | BIm, ImDrop => Some BTop
  | _, _ => None
  end.
(** a program that compiles *)
Fixpoint borrow_ok (k : bstate) (calls : list wcall) : Prop :=
  match calls with
  | [] => True
  | c :: r => match bnext k c with Some k' => borrow_ok k' r | None => False end
  end.

(** [representable_call] and the two conditions it does not state: the margin of the capacity
    check, and a non-empty file GUID ([serialize_root] refuses an empty one at [finalize]) *)
Definition acceptable_call (st : wstate) (c : wcall) : Prop :=
  representable_call st c /\
  match c with
  | AddPointcloud _ proto => packet_margin proto
  | NewWriter guid => guid <> []
  | _ => True
  end.

Definition guid_inv (st : wstate) : Prop := ws_open st = true -> rt_guid (ws_root st) <> [].

Lemma units_borrow : forall tops, units tops -> forall rest, borrow_ok BTop rest -> borrow_ok BTop (tops ++ rest).
Proof.
  induction 1 as [|c r Hc _ IH|data r _ IH|guid proto body r Hb _ _ IH|guid ibody r Hb _ IH]; intros rest Hr.
  - exact Hr.
  - cbn [app borrow_ok]. destruct c; try (destruct Hc; fail); cbn [bnext]; apply IH; exact Hr.
  - cbn [app borrow_ok bnext]. apply IH. exact Hr.
  - cbn [app borrow_ok bnext]. rewrite <- app_assoc.
    induction Hb as [|c body Hc _ IHb].
    + cbn [app borrow_ok bnext]. apply IH. exact Hr.
    + cbn [app borrow_ok]. destruct c; try (destruct Hc; fail); cbn [bnext]; exact IHb.
  - cbn [app borrow_ok bnext]. rewrite <- app_assoc.
    induction Hb as [|c ibody Hc _ IHb].
    + cbn [app borrow_ok bnext]. apply IH. exact Hr.
    + cbn [app borrow_ok]. destruct c; try (destruct Hc; fail); cbn [bnext]; exact IHb.
Qed.

Lemma complete_borrow guid tops : units tops -> borrow_ok BClosed (NewWriter guid :: tops ++ [Finalize]).
Proof. intros H. cbn [borrow_ok bnext]. apply units_borrow; [exact H|exact I]. Qed.

(** ** The metadata side of the state machine as a pure function
    What an ACCEPTED call does to root, extensions, finished point clouds and the open point
    cloud writer, without the stream: file offsets are 0, the points added so far are kept
    (ghost); an open image writer keeps its image with blob offsets 0 and the bytes handed to it
    (ghost).  [accept_step] below shows that the real
    state follows it ([absr]); Proofs/WapiCopy.v computes with it. *)
Record apc := mkApc {
  ap_proto : list record; ap_bounds : run_bounds; ap_desc : pointcloud; ap_fin : bool;
  ap_cil : bool; ap_ccl : bool; ap_pts : list (list rvalue) }.
(** the bytes handed to the image writer for one representation: data and optional mask (ghost) *)
Definition rep_bytes : Type := (list N * option (list N))%type.
Definition im_ghost : Type := (option rep_bytes * option rep_bytes)%type.   (* visual reference, projection *)
Inductive asub := ANone | APc (p : apc) | AIm (im : image) (fin : bool) (g : im_ghost).
Record astate := mkAs {
  a_root : root; a_exts : list extension; a_pcs : list (pointcloud * list (list rvalue));
  a_imgs : list (image * im_ghost);
  a_sub : asub; a_fin : bool }.

Definition cl_of (proto : list record) : option color_limits :=
  match default_color_limits proto with Ok cl => cl | _ => None end.
Definition set_asub (a : astate) (s : asub) : astate := mkAs (a_root a) (a_exts a) (a_pcs a) (a_imgs a) s (a_fin a).
Definition pc_no_off (pc : pointcloud) : pointcloud :=
  let 'mkPointCloud guid _ recs proto og name desc cb sb ib il cl tr as_ ae sv sm ss hw sw fw te hu ap := pc in
  mkPointCloud guid 0 recs proto og name desc cb sb ib il cl tr as_ ae sv sm ss hw sw fw te hu ap.

(** images with the file offsets of their blobs erased *)
Definition blob_no_off (b : blob) : blob := mkBlob 0 (b_length b).
Definition ablob (d : list N) : blob := mkBlob 0 (len d).
Definition ib_no_off (b : image_blob) : image_blob := mkImageBlob (blob_no_off (ib_data b)) (ib_format b).
Definition vr_no_off (v : visual_reference) : visual_reference :=
  mkVisRef (ib_no_off (vr_blob v)) (option_map blob_no_off (vr_mask v)) (vr_width v) (vr_height v).
Definition proj_no_off (p : projection) : projection :=
  match p with
  | PPinhole x => PPinhole (mkPinhole (ib_no_off (ph_blob x)) (option_map blob_no_off (ph_mask x)) (ph_width x) (ph_height x)
                              (ph_focal_length x) (ph_pixel_width x) (ph_pixel_height x) (ph_principal_x x) (ph_principal_y x))
  | PSpherical x => PSpherical (mkSphImg (ib_no_off (si_blob x)) (option_map blob_no_off (si_mask x)) (si_width x) (si_height x)
                                  (si_pixel_width x) (si_pixel_height x))
  | PCylindrical x => PCylindrical (mkCylImg (ib_no_off (ci_blob x)) (option_map blob_no_off (ci_mask x)) (ci_width x) (ci_height x)
                                      (ci_radius x) (ci_principal_y x) (ci_pixel_width x) (ci_pixel_height x))
  end.
Definition im_no_off (i : image) : image :=
  mkImage (im_guid i) (option_map vr_no_off (im_visual_reference i)) (option_map proj_no_off (im_projection i))
          (im_transform i) (im_pointcloud_guid i) (im_name i) (im_description i) (im_acquisition i)
          (im_sensor_vendor i) (im_sensor_model i) (im_sensor_serial i).

Definition aproj (c : wcall) : option projection :=
  match c with
  | ImAddPinhole fmt data p mask =>
      Some (PPinhole (mkPinhole (mkImageBlob (ablob data) fmt) (option_map ablob mask) (php_width p) (php_height p)
                        (php_focal_length p) (php_pixel_width p) (php_pixel_height p) (php_principal_x p) (php_principal_y p)))
  | ImAddSpherical fmt data p mask =>
      Some (PSpherical (mkSphImg (mkImageBlob (ablob data) fmt) (option_map ablob mask) (spp_width p) (spp_height p)
                          (spp_pixel_width p) (spp_pixel_height p)))
  | ImAddCylindrical fmt data p mask =>
      Some (PCylindrical (mkCylImg (mkImageBlob (ablob data) fmt) (option_map ablob mask) (cyp_width p) (cyp_height p)
                            (cyp_radius p) (cyp_principal_y p) (cyp_pixel_width p) (cyp_pixel_height p)))
  | _ => None
  end.
Definition call_bytes (c : wcall) : rep_bytes :=
  match c with
  | ImAddVisualReference _ data _ _ mask | ImAddPinhole _ data _ mask | ImAddSpherical _ data _ mask
  | ImAddCylindrical _ data _ mask => (data, mask)
  | _ => ([], None)
  end.

Definition astep (lv : xstring) (a : astate) (c : wcall) : astate :=
  match c with
  | NewWriter guid => mkAs (mkRoot (rt_format root_default) guid 1 0 (Some lv) None None) [] [] [] ANone false
  | SetCoordinateMetadata v =>
      let 'mkRoot f g ma mi l cr _ := a_root a in
      mkAs (mkRoot f g ma mi l cr v) (a_exts a) (a_pcs a) (a_imgs a) (a_sub a) (a_fin a)
  | SetCreation v =>
      let 'mkRoot f g ma mi l _ cm := a_root a in
      mkAs (mkRoot f g ma mi l v cm) (a_exts a) (a_pcs a) (a_imgs a) (a_sub a) (a_fin a)
  | RegisterExtension ns url => mkAs (a_root a) (a_exts a ++ [mkExtension ns url]) (a_pcs a) (a_imgs a) (a_sub a) (a_fin a)
  | AddPointcloud guid proto =>
      set_asub a (APc (mkApc proto (bounds_new proto)
                         (desc_new guid proto (default_intensity_limits proto) (cl_of proto)) false false false []))
  | PcSet f =>
      match a_sub a with
      | APc p => set_asub a (APc (mkApc (ap_proto p) (ap_bounds p) (pc_set f (ap_desc p)) (ap_fin p)
                                    (match f with PfIntensityLimits _ => true | _ => ap_cil p end)
                                    (match f with PfColorLimits _ => true | _ => ap_ccl p end) (ap_pts p)))
      | _ => a
      end
  | PcAddPoint vs =>
      match a_sub a with
      | APc p => set_asub a (APc (mkApc (ap_proto p) (fst (update_bounds (ap_proto p) vs (ap_bounds p))) (ap_desc p)
                                    (ap_fin p) (ap_cil p) (ap_ccl p) (ap_pts p ++ [vs])))
      | _ => a
      end
  | PcFinalize =>
      match a_sub a with
      | APc p => mkAs (a_root a) (a_exts a)
                   (a_pcs a ++ [(desc_finish (ap_desc p) (ap_bounds p) 0 (len (ap_pts p)), ap_pts p)]) (a_imgs a)
                   (APc (mkApc (ap_proto p) (mkRb None None None) (desc_taken (ap_desc p)) true (ap_cil p) (ap_ccl p)
                           (ap_pts p))) (a_fin a)
      | _ => a
      end
  | PcDrop | ImDrop => set_asub a ANone
  | AddImage guid => set_asub a (AIm (image_new guid) false (None, None))
  | ImSet f => match a_sub a with AIm im fin g => set_asub a (AIm (im_set f im) fin g) | _ => a end
  | ImAddVisualReference fmt data w h mask =>
      match a_sub a with
      | AIm im fin g =>
          set_asub a (AIm (im_set_visual (mkVisRef (mkImageBlob (ablob data) fmt) (option_map ablob mask) w h) im) false
                          (Some (data, mask), snd g))
      | _ => a
      end
  | ImAddPinhole _ _ _ _ | ImAddSpherical _ _ _ _ | ImAddCylindrical _ _ _ _ =>
      match a_sub a, aproj c with
      | AIm im fin g, Some p => set_asub a (AIm (im_set_projection p im) false (fst g, Some (call_bytes c)))
      | _, _ => a
      end
  | ImFinalize =>
      match a_sub a with
      | AIm im fin g => mkAs (a_root a) (a_exts a) (a_pcs a) (a_imgs a ++ [(im, g)]) (AIm im true g) (a_fin a)
      | _ => a
      end
  | Finalize => mkAs (a_root a) (a_exts a) (a_pcs a) (a_imgs a) (a_sub a) true
  | AddBlob _ => a
  end.
Fixpoint arun (lv : xstring) (a : astate) (calls : list wcall) : astate :=
  match calls with [] => a | c :: r => arun lv (astep lv a c) r end.
Definition a_init : astate := mkAs root_default [] [] [] ANone false.

(** the real state follows the abstract one *)
Definition absr (st : wstate) (a : astate) : Prop :=
  ws_root st = a_root a /\ ws_exts st = a_exts a /\ map pc_no_off (ws_pcs st) = map fst (a_pcs a) /\
  map im_no_off (ws_imgs st) = map fst (a_imgs a) /\
  ws_finalized st = a_fin a /\
  match ws_sub st, a_sub a with
  | SubNone, ANone => True
  | SubPc ps, APc p =>
      ps_proto ps = ap_proto p /\ ps_bounds ps = ap_bounds p /\ ps_desc ps = ap_desc p /\
      ps_finalized ps = ap_fin p /\ ps_custom_il ps = ap_cil p /\ ps_custom_cl ps = ap_ccl p /\
      (ap_fin p = false -> w_point_count (ps_w ps) = len (ap_pts p))
  | SubIm im fin, AIm aim afin _ => im_no_off im = aim /\ fin = afin
  | _, _ => False
  end.

Definition abs_of (st : wstate) : astate :=
  mkAs (ws_root st) (ws_exts st) (map (fun pc => (pc_no_off pc, [])) (ws_pcs st))
    (map (fun im => (im_no_off im, (None, None))) (ws_imgs st))
    (match ws_sub st with
     | SubNone => ANone
     | SubPc ps => APc (mkApc (ps_proto ps) (ps_bounds ps) (ps_desc ps) (ps_finalized ps) (ps_custom_il ps) (ps_custom_cl ps)
                          (repeat [] (N.to_nat (w_point_count (ps_w ps)))))
     | SubIm im fin => AIm (im_no_off im) fin (None, None)
     end) (ws_finalized st).
Lemma absr_abs_of st : absr st (abs_of st).
Proof.
  unfold absr, abs_of. cbn [a_root a_exts a_pcs a_imgs a_fin a_sub]. split; [reflexivity|]. split; [reflexivity|].
  split; [rewrite map_map; reflexivity|]. split; [rewrite map_map; reflexivity|]. split; [reflexivity|].
  destruct (ws_sub st) as [|ps|]; try exact I; [|split; reflexivity].
  cbn [ap_proto ap_bounds ap_desc ap_fin ap_cil ap_ccl ap_pts]. repeat (split; [reflexivity|]). intros _.
  unfold len. rewrite repeat_length. lia.
Qed.
Lemma absr_init : absr ws_init a_init.
Proof. repeat split. Qed.

Lemma pc_no_off_finish d b off n : pc_no_off (desc_finish d b off n) = desc_finish d b 0 n.
Proof. destruct d. reflexivity. Qed.

Lemma im_no_off_set f im : im_no_off (im_set f im) = im_set f (im_no_off im).
Proof. destruct im, f; reflexivity. Qed.
Lemma im_no_off_visual v im : im_no_off (im_set_visual v im) = im_set_visual (vr_no_off v) (im_no_off im).
Proof. destruct im; reflexivity. Qed.
Lemma im_no_off_projection p im : im_no_off (im_set_projection p im) = im_set_projection (proj_no_off p) (im_no_off im).
Proof. destruct im; reflexivity. Qed.
Lemma im_no_off_proj_none im : im_projection (im_no_off im) = None <-> im_projection im = None.
Proof. destruct im as [g v [p|]]; cbn; split; intros H; try discriminate H; reflexivity. Qed.
Lemma im_no_off_vis_none im : im_visual_reference (im_no_off im) = None <-> im_visual_reference im = None.
Proof. destruct im as [g [v|]]; cbn; split; intros H; try discriminate H; reflexivity. Qed.

(** the blobs of an image call: written, with the lengths of the data *)
Lemma im_blobs_run_len data mask l : ls_ok l ->
  exists l' b m, wrun_spec (im_blobs data mask) l = (l', Ok (b, m)) /\ ls_ok l' /\ ls_le l l' /\
    blob_no_off b = ablob data /\ option_map blob_no_off m = option_map ablob mask.
Proof.
  intros Hok. unfold im_blobs.
  destruct (blob_write_run data l Hok) as (l1 & H1 & Hok1 & Hle1).
  rewrite run_bind, H1. cbn [fst snd].
  destruct mask as [md|].
  - destruct (blob_write_run md l1 Hok1) as (l2 & H2 & Hok2 & Hle2).
    rewrite run_bind, run_bind, H2. cbn [fst snd wret wrun_spec].
    eexists l2, _, _. split; [reflexivity|]. split; [exact Hok2|]. split; [apply (ls_le_trans _ _ _ Hle1 Hle2)|].
    split; reflexivity.
  - rewrite run_bind. cbn [wret wrun_spec fst snd].
    eexists l1, _, _. split; [reflexivity|]. split; [exact Hok1|]. split; [exact Hle1|]. split; reflexivity.
Qed.

Section Accept.
Variable gen_xml : file_meta -> res (list N).
Variable lib_version : xstring.
(** [serialize_root] fails only on an empty GUID (Proofs/XgTotal.v: [gen_root_cases]) *)
Hypothesis gen_xml_ok : forall m, rt_guid (fm_root m) <> [] -> exists xml, gen_xml m = Ok xml.

Notation step := (wapi_step gen_xml lib_version).
Notation run := (wapi_run gen_xml lib_version).

Lemma bstate_open st k : bstate_of st = k -> k <> BClosed -> ws_open st = true.
Proof. unfold bstate_of. destruct (ws_open st); [reflexivity|]. intros <- H. contradiction. Qed.

Notation astp := (astep lib_version).

Theorem accept_step_abs : forall st l c k' a, ws_inv st l -> guid_inv st -> call_wf c ->
  bnext (bstate_of st) c = Some k' -> acceptable_call st c -> absr st a ->
  exists l' st' r, wrun_spec (step st c) l = (l', Ok (st', r)) /\ res_ok r /\
    ws_inv st' l' /\ ls_le l l' /\ guid_inv st' /\ bstate_of st' = k' /\ absr st' (astp a c).
Proof.
  intros st l c k' a Hinv Hg Hwf Hb [Hrep Hextra] Habs. pose proof Hinv as [Hok Hs].
  destruct Habs as (Ar & Ae & Ap & Ai & Af & Asub).
  unfold wapi_step, bstate_of in *. unfold guid_inv in Hg. destruct (ws_open st) eqn:Eo; cbn [negb].
  2:{ destruct c; try discriminate Hb. cbn [bnext] in Hb. inversion Hb; subst k'.
      rewrite run_bind, wrun_spec_wtry. destruct (writer_init_run l Hok) as (H1 & H2 & H3).
      destruct (wrun_spec writer_init l) as [l1 r1]. cbn [fst snd] in *. subst r1. cbn [fst snd wret wrun_spec].
      eexists l1, _, CrOk. split; [reflexivity|]. split; [exact I|]. split; [split; [exact H2|exact I]|].
      split; [exact H3|]. split; [intros _; cbn; exact Hextra|]. split; [reflexivity|]. repeat split. }
  specialize (Hg eq_refl). unfold representable_call in Hrep.
  destruct (ws_sub st) as [|ps|im fin] eqn:Esub.
  - (* top level *)
    destruct (a_sub a) eqn:Easub; try contradiction.
    destruct c; try discriminate Hb; cbn [bnext] in Hb; inversion Hb; subst k'; clear Hb.
    + destruct (ws_root st) eqn:Er. cbn [wret wrun_spec]. eexists l, _, CrOk. split; [reflexivity|]. split; [exact I|].
      split; [split; [exact Hok|exact I]|]. split; [apply ls_le_refl|]. split; [intros _; exact Hg|]. split; [reflexivity|].
      unfold absr, astep. rewrite <- Ar. cbn. rewrite Easub. auto 12.
    + destruct (ws_root st) eqn:Er. cbn [wret wrun_spec]. eexists l, _, CrOk. split; [reflexivity|]. split; [exact I|].
      split; [split; [exact Hok|exact I]|]. split; [apply ls_le_refl|]. split; [intros _; exact Hg|]. split; [reflexivity|].
      unfold absr, astep. rewrite <- Ar. cbn. rewrite Easub. auto 12.
    + (* RegisterExtension *)
      destruct Hrep as (N1 & N2 & U1 & U2 & U3 & U4 & Hn & Hu).
      rewrite (validate_name_complete _ N1), (validate_name_start_complete _ N2), (validate_url_complete _ U1 U2 U3 U4).
      cbn [seq_res]. rewrite (url_registered_not _ _ Hu), (ext_registered_not _ _ Hn). cbn [wret wrun_spec].
      eexists l, _, CrOk. split; [reflexivity|]. split; [exact I|].
      split; [split; [exact Hok|exact I]|]. split; [apply ls_le_refl|]. split; [intros _; exact Hg|]. split; [reflexivity|].
      unfold absr, astep. cbn. rewrite Easub, Ae. auto 12.
    + (* AddBlob *)
      rewrite Hrep. rewrite run_bind, wrun_spec_wtry.
      destruct (blob_write_run data l Hok) as (l' & Hrun & Hok' & Hle). rewrite Hrun. cbn [fst snd wret wrun_spec].
      eexists l', st, _. split; [reflexivity|]. split; [exact I|]. split; [split; [exact Hok'|rewrite Esub; exact I]|].
      split; [exact Hle|]. split; [intros _; exact Hg|]. split; [rewrite Eo, Esub; reflexivity|].
      unfold absr, astep. rewrite Esub, Easub. auto 12.
    + (* AddPointcloud *)
      destruct Hrep as [Hf Hrp]. rewrite Hf. cbn [call_wf] in Hwf.
      pose proof (validate_prototype_complete _ _ Hrp) as E2.
      assert (E1 : ext_validate_prototype proto (ws_exts st) = Ok tt).
      { apply ext_validate_prototype_complete.
        destruct Hrp as (_ & _ & _ & _ & _ & _ & _ & _ & _ & _ & _ & _ & _ & _ & _ & _ & _ & _ & H & _). exact H. }
      destruct (proj1 (packet_margin_iff proto) Hextra) as (mpp & E3).
      rewrite run_bind, wrun_spec_wtry. unfold pc_new.
      rewrite run_bind, run_wlift, E1. cbn [fst snd]. rewrite run_bind, run_wlift, E2. cbn [fst snd]. rewrite run_bind.
      destruct (pcw_new_live (proto_dtypes proto) mpp l E3 (accepted_type_ok proto E2 Hwf) Hok)
        as (l' & w & Hrun & Hlive & Hok' & Hle & Hp & _ & Hcnt).
      rewrite Hrun. cbn [fst snd]. rewrite run_bind, run_wlift. cbn [fst snd].
      destruct (accepted_color_limits proto E2) as (cl & Hcl). rewrite Hcl. cbn [wret wrun_spec fst snd].
      eexists l', _, CrOk. split; [reflexivity|]. split; [exact I|]. split.
      { split; [exact Hok'|]. cbn [set_sub ws_sub]. split; [exact Hp|]. right. split; [reflexivity|].
        split; [exact Hlive|]. split; [apply bounds_new_cover; exact E2|apply accepted_idx_typed; exact E2]. }
      split; [exact Hle|]. split; [intros _; exact Hg|]. split; [cbn [set_sub ws_open ws_sub]; rewrite Eo; reflexivity|].
      unfold absr, astep, cl_of. rewrite Hcl. cbn. rewrite Hcnt. auto 12.
    + (* AddImage *)
      rewrite Hrep. cbn [wret wrun_spec]. eexists l, _, CrOk. split; [reflexivity|]. split; [exact I|].
      split; [split; [exact Hok|exact I]|]. split; [apply ls_le_refl|]. split; [intros _; exact Hg|].
      split; [cbn [set_sub ws_open ws_sub]; rewrite Eo; reflexivity|]. unfold absr, astep. cbn. auto 12.
    + (* Finalize *)
      rewrite Hrep. destruct (gen_xml_ok (ws_meta st) Hg) as (xml & Hx). rewrite Hx.
      rewrite run_bind, wrun_spec_wtry. destruct (writer_finalize_run xml l Hok) as (l' & Hrun & Hok' & Hle).
      rewrite Hrun. cbn [fst snd wret wrun_spec].
      eexists l', _, CrOk. split; [reflexivity|]. split; [exact I|]. split; [split; [exact Hok'|exact I]|].
      split; [exact Hle|]. split; [intros _; exact Hg|]. split; [reflexivity|].
      unfold absr, astep. cbn. rewrite Easub. auto 12.
  - (* point cloud writer *)
    destruct (a_sub a) as [|p|] eqn:Easub; try contradiction.
    destruct Asub as (Bp & Bb & Bd & Bf & Bi & Bc & Bn).
    destruct c; try discriminate Hb; cbn [bnext] in Hb; inversion Hb; subst k'; clear Hb.
    + (* PcSet *)
      cbn [wret wrun_spec]. eexists l, _, CrOk. split; [reflexivity|]. split; [exact I|].
      split; [split; [exact Hok|cbn [set_sub ws_sub]; exact Hs]|]. split; [apply ls_le_refl|].
      split; [intros _; exact Hg|]. split; [cbn [set_sub ws_open ws_sub]; rewrite Eo; reflexivity|].
      unfold absr, astep. rewrite Easub. cbn. rewrite Bp, Bb, Bd, Bf, Bi, Bc. auto 12.
    + (* PcAddPoint *)
      destruct Hrep as [Hfin Hrp]. destruct Hs as (Hp & [Hf|(_ & Hlive & Hcov & Hit)]); [congruence|].
      cbn [call_wf] in Hwf. pose proof (representable_values_ok _ _ Hrp) as Ev. rewrite <- Hp in Ev.
      rewrite run_bind. unfold pc_add_point. rewrite Hfin, Ev. cbn [negb].
      pose proof (update_bounds_shape (ps_proto ps) values (ps_bounds ps)) as Hsh.
      assert (Hbd : snd (update_bounds (ps_proto ps) values (ps_bounds ps)) = Ok tt).
      { apply update_bounds_ok; [rewrite <- Hp; exact Ev|exact Hcov|exact Hit]. }
      destruct (update_bounds (ps_proto ps) values (ps_bounds ps)) as [b1 r] eqn:Eb. cbn [fst snd] in *. subst r.
      rewrite run_bind, wrun_spec_wtry.
      destruct (add_point_live values (ps_w ps) l Hlive Hok Ev Hwf) as (l' & w' & Hrun & Hlive' & Hok' & Hle & Hp' & _ & Hcnt).
      rewrite Hrun. cbn [fst snd wret wrun_spec].
      eexists l', _, CrOk. split; [reflexivity|]. split; [exact I|]. split.
      { split; [exact Hok'|]. cbn [set_sub ws_sub]. split; [cbn [ps_w ps_proto]; congruence|]. right.
        split; [reflexivity|]. split; [exact Hlive'|]. cbn [ps_proto ps_bounds].
        split; [apply (cover_shape _ _ _ Hsh Hcov)|exact Hit]. }
      split; [exact Hle|]. split; [intros _; exact Hg|]. split; [cbn [set_sub ws_open ws_sub]; rewrite Eo; reflexivity|].
      unfold absr, astep. rewrite Easub. cbn. rewrite <- Bp, <- Bb, Eb, <- Bd, <- Bi, <- Bc, <- Bf, Hfin. cbn [fst].
      repeat match goal with |- _ /\ _ => split end; try reflexivity; auto.
      intros _. rewrite Hcnt, len_app, Bn by congruence. reflexivity.
    + (* PcFinalize *)
      destruct Hrep as [Hfin Hcl]. destruct Hs as (Hp & [Hf|(_ & Hlive & Hcov & Hit)]); [congruence|].
      rewrite run_bind. unfold pc_finalize. rewrite Hfin, Hcl. cbn [negb]. rewrite run_bind, wrun_spec_wtry.
      destruct (finalize_live (ps_w ps) l Hlive Hok) as (l' & w2 & Hrun & Hdone & Hok' & Hle & Hp2 & _).
      rewrite Hrun. cbn [fst snd wret wrun_spec].
      eexists l', _, CrOk. split; [reflexivity|]. split; [exact I|]. split.
      { split; [exact Hok'|]. cbn [ws_sub]. split; [cbn [ps_w ps_proto]; congruence|]. left. reflexivity. }
      split; [exact Hle|]. split; [intros _; exact Hg|]. split; [reflexivity|].
      unfold absr, astep. rewrite Easub. cbn. rewrite !map_app, Ap. cbn [map fst]. rewrite pc_no_off_finish.
      rewrite (Bn (eq_trans (eq_sym Bf) Hfin)), Bd, Bb, Bp, Bi, Bc.
      repeat match goal with |- _ /\ _ => split end; try reflexivity; auto. intros H; discriminate H.
    + (* PcDrop *)
      cbn [wret wrun_spec]. eexists l, _, CrOk. split; [reflexivity|]. split; [exact I|].
      split; [split; [exact Hok|exact I]|]. split; [apply ls_le_refl|]. split; [intros _; exact Hg|].
      split; [cbn [set_sub ws_open ws_sub]; rewrite Eo; reflexivity|]. unfold absr, astep. cbn. auto 12.
  - (* image writer *)
    destruct (a_sub a) as [| |aim afin ag] eqn:Easub; try contradiction. destruct Asub as [Bi Bf]. subst afin aim.
    assert (Proj : forall c0 data mask mk pa, fin = false -> im_projection im = None ->
              aproj c0 = Some pa -> call_bytes c0 = (data, mask) ->
              (forall b m, blob_no_off b = ablob data -> option_map blob_no_off m = option_map ablob mask ->
                           proj_no_off (mk b m) = pa) ->
              astp a c0 = set_asub a (AIm (im_set_projection pa (im_no_off im)) false (fst ag, Some (data, mask))) ->
              exists l' st' r, wrun_spec (im_add_projection st im fin data mask mk) l = (l', Ok (st', r)) /\ res_ok r /\
                ws_inv st' l' /\ ls_le l l' /\ (ws_open st' = true -> rt_guid (ws_root st') <> []) /\
                (if ws_open st' then match ws_sub st' with SubNone => BTop | SubPc _ => BPc | SubIm _ _ => BIm end
                 else BClosed) = BIm /\ absr st' (astp a c0)).
    { intros c0 data mask mk pa -> Hpn Hap Hcb Hmk Hst. unfold im_add_projection, has_projection. rewrite Hpn.
      rewrite run_bind, wrun_spec_wtry. destruct (im_blobs_run_len data mask l Hok) as (l' & b & m & Hrun & Hok' & Hle & Eb & Em).
      rewrite Hrun. cbn [fst snd wret wrun_spec].
      eexists l', _, CrOk. split; [reflexivity|]. split; [exact I|]. split; [split; [exact Hok'|exact I]|].
      split; [exact Hle|]. split; [intros _; exact Hg|]. split; [cbn [set_sub ws_open ws_sub]; rewrite Eo; reflexivity|].
      rewrite Hst. unfold absr, set_asub. cbn. rewrite im_no_off_projection, (Hmk b m Eb Em). auto 10. }
    destruct c; try discriminate Hb; cbn [bnext] in Hb; inversion Hb; subst k'; clear Hb.
    + (* ImSet *)
      cbn [wret wrun_spec]. eexists l, _, CrOk. split; [reflexivity|]. split; [exact I|].
      split; [split; [exact Hok|exact I]|]. split; [apply ls_le_refl|]. split; [intros _; exact Hg|].
      split; [cbn [set_sub ws_open ws_sub]; rewrite Eo; reflexivity|].
      unfold absr, astep. rewrite Easub. unfold set_asub. cbn. rewrite im_no_off_set. auto 10.
    + (* visual reference *)
      subst fin. rewrite run_bind, wrun_spec_wtry.
      destruct (im_blobs_run_len data mask l Hok) as (l' & b & m & Hrun & Hok' & Hle & Eb & Em).
      rewrite Hrun. cbn [fst snd wret wrun_spec].
      eexists l', _, CrOk. split; [reflexivity|]. split; [exact I|]. split; [split; [exact Hok'|exact I]|].
      split; [exact Hle|]. split; [intros _; exact Hg|]. split; [cbn [set_sub ws_open ws_sub]; rewrite Eo; reflexivity|].
      unfold absr, astep. rewrite Easub. unfold set_asub. cbn. rewrite im_no_off_visual. unfold vr_no_off, ib_no_off. cbn.
      rewrite Eb, Em. auto 10.
    + destruct Hrep as [Hf Hp]. eapply (Proj (ImAddPinhole fmt data props mask)); try eassumption; try reflexivity.
      * intros b m Eb Em. unfold proj_no_off, ib_no_off. cbn. rewrite Eb, Em. reflexivity.
      * cbn [astep aproj call_bytes]. rewrite Easub. reflexivity.
    + destruct Hrep as [Hf Hp]. eapply (Proj (ImAddSpherical fmt data props mask)); try eassumption; try reflexivity.
      * intros b m Eb Em. unfold proj_no_off, ib_no_off. cbn. rewrite Eb, Em. reflexivity.
      * cbn [astep aproj call_bytes]. rewrite Easub. reflexivity.
    + destruct Hrep as [Hf Hp]. eapply (Proj (ImAddCylindrical fmt data props mask)); try eassumption; try reflexivity.
      * intros b m Eb Em. unfold proj_no_off, ib_no_off. cbn. rewrite Eb, Em. reflexivity.
      * cbn [astep aproj call_bytes]. rewrite Easub. reflexivity.
    + (* ImFinalize *)
      destruct Hrep as [-> Hany].
      assert (exists l' st' r,
        wrun_spec (match im_visual_reference im, im_projection im with
                   | None, None => wret (st, CrErr EInvalid)
                   | _, _ => wret (mkWs true (ws_root st) (ws_exts st) (ws_pcs st) (ws_imgs st ++ [im]) (SubIm im true)
                                        (ws_finalized st), CrOk)
                   end) l = (l', Ok (st', r)) /\ res_ok r /\ ws_inv st' l' /\ ls_le l l' /\
        (ws_open st' = true -> rt_guid (ws_root st') <> []) /\
        (if ws_open st' then match ws_sub st' with SubNone => BTop | SubPc _ => BPc | SubIm _ _ => BIm end
         else BClosed) = BIm /\ absr st' (astp a ImFinalize)) as G.
      { assert (Hab : absr (mkWs true (ws_root st) (ws_exts st) (ws_pcs st) (ws_imgs st ++ [im]) (SubIm im true) (ws_finalized st))
                        (astp a ImFinalize)).
        { unfold absr, astep. rewrite Easub. cbn. rewrite !map_app, Ai. cbn. auto 10. }
        destruct (im_visual_reference im), (im_projection im); try (destruct Hany as [H|H]; contradiction (H eq_refl));
          cbn [wret wrun_spec]; (eexists l, _, CrOk; split; [reflexivity|]; split; [exact I|];
            split; [split; [exact Hok|exact I]|]; split; [apply ls_le_refl|]; split; [intros _; exact Hg|];
            split; [reflexivity|exact Hab]). }
      exact G.
    + (* ImDrop *)
      cbn [wret wrun_spec]. eexists l, _, CrOk. split; [reflexivity|]. split; [exact I|].
      split; [split; [exact Hok|exact I]|]. split; [apply ls_le_refl|]. split; [intros _; exact Hg|].
      split; [cbn [set_sub ws_open ws_sub]; rewrite Eo; reflexivity|]. unfold absr, astep, set_asub. cbn. auto 10.
Qed.

Theorem accept_step : forall st l c k', ws_inv st l -> guid_inv st -> call_wf c ->
  bnext (bstate_of st) c = Some k' -> acceptable_call st c ->
  exists l' st' r, wrun_spec (step st c) l = (l', Ok (st', r)) /\ res_ok r /\
    ws_inv st' l' /\ ls_le l l' /\ guid_inv st' /\ bstate_of st' = k'.
Proof.
  intros st l c k' Hinv Hg Hwf Hb Ha.
  destruct (accept_step_abs st l c k' (abs_of st) Hinv Hg Hwf Hb Ha (absr_abs_of st))
    as (l' & st' & r & H1 & H2 & H3 & H4 & H5 & H6 & _).
  exists l', st', r. auto 7.
Qed.

(** every call is acceptable in the state it is issued in: the state the machine is in after
    the calls before it (on the logical stream, from [st], [l]) *)
Fixpoint acceptable_calls (st : wstate) (l : lstream) (calls : list wcall) : Prop :=
  match calls with
  | [] => True
  | c :: r => acceptable_call st c /\
      match wrun_spec (step st c) l with
      | (l', Ok (st', _)) => acceptable_calls st' l' r
      | _ => True
      end
  end.

Theorem accept_run : forall calls st l, ws_inv st l -> guid_inv st -> Forall call_wf calls ->
  borrow_ok (bstate_of st) calls -> acceptable_calls st l calls ->
  exists l' st' rs, wrun_spec (run st calls) l = (l', Ok (st', rs)) /\ Forall res_ok rs /\
    ws_inv st' l' /\ ls_le l l'.
Proof.
  induction calls as [|c r IH]; intros st l Hinv Hg Hwf Hb Ha.
  - cbn [wapi_run wret wrun_spec]. exists l, st, []. split; [reflexivity|]. split; [constructor|].
    split; [exact Hinv|apply ls_le_refl].
  - inversion Hwf as [|? ? Hc Hr]; subst. cbn [borrow_ok] in Hb. destruct (bnext (bstate_of st) c) as [k'|] eqn:Ek; [|destruct Hb].
    cbn [acceptable_calls] in Ha. destruct Ha as [Ha1 Ha2].
    destruct (accept_step st l c k' Hinv Hg Hc Ek Ha1) as (l1 & st1 & x & Hrun1 & Hx & Hinv1 & Hle1 & Hg1 & Hk1).
    rewrite Hrun1 in Ha2. rewrite <- Hk1 in Hb.
    destruct (IH st1 l1 Hinv1 Hg1 Hr Hb Ha2) as (l2 & st2 & xs & Hrun2 & Hxs & Hinv2 & Hle2).
    cbn [wapi_run]. rewrite run_bind, Hrun1. cbn [fst snd]. rewrite run_bind, Hrun2. cbn [fst snd wret wrun_spec].
    exists l2, st2, (x :: xs). split; [reflexivity|]. split; [constructor; assumption|]. split; [exact Hinv2|].
    apply (ls_le_trans _ _ _ Hle1 Hle2).
Qed.

Theorem accept_run_abs : forall calls st l a, ws_inv st l -> guid_inv st -> Forall call_wf calls ->
  borrow_ok (bstate_of st) calls -> acceptable_calls st l calls -> absr st a ->
  exists l' st' rs, wrun_spec (run st calls) l = (l', Ok (st', rs)) /\ Forall res_ok rs /\
    ws_inv st' l' /\ guid_inv st' /\ absr st' (arun lib_version a calls).
Proof.
  induction calls as [|c r IH]; intros st l a Hinv Hg Hwf Hb Ha Habs.
  - cbn [wapi_run wret wrun_spec arun]. exists l, st, []. split; [reflexivity|]. split; [constructor|]. auto.
  - inversion Hwf as [|? ? Hc Hr]; subst. cbn [borrow_ok] in Hb. destruct (bnext (bstate_of st) c) as [k'|] eqn:Ek; [|destruct Hb].
    cbn [acceptable_calls] in Ha. destruct Ha as [Ha1 Ha2].
    destruct (accept_step_abs st l c k' a Hinv Hg Hc Ek Ha1 Habs) as (l1 & st1 & x & Hrun1 & Hx & Hinv1 & Hle1 & Hg1 & Hk1 & Habs1).
    rewrite Hrun1 in Ha2. rewrite <- Hk1 in Hb.
    destruct (IH st1 l1 _ Hinv1 Hg1 Hr Hb Ha2 Habs1) as (l2 & st2 & xs & Hrun2 & Hxs & Hinv2 & Hg2 & Habs2).
    cbn [wapi_run arun]. rewrite run_bind, Hrun1. cbn [fst snd]. rewrite run_bind, Hrun2. cbn [fst snd wret wrun_spec].
    exists l2, st2, (x :: xs). split; [reflexivity|]. split; [constructor; assumption|]. auto.
Qed.

End Accept.

(** * C. The whole writer on the fault-free paged device *)

Section Whole.
Variables fmt64 fmt32 : N -> xstring.
Variable version : xstring.
Notation G := (gen_xml_full fmt64 fmt32).
Notation L := (lib_version_text version).

Lemma gen_full_ok : forall m, rt_guid (fm_root m) <> [] -> exists xml, G m = Ok xml.
Proof.
  intros m H. unfold gen_xml_full. apply gen_total. destruct m as [r e p i]. destruct r. exact H.
Qed.

(** Any program that compiles: if every call is acceptable in the state it is issued
    in, every call returns Ok, on the paged device ([pw0]: empty, fault-free) as on the
    logical stream, and the flush of [Drop] succeeds.  No size hypothesis: the model's offsets
    are unbounded naturals and neither the crate nor the model checks them; that offsets, counts and the
    file length stay below 2^64 is a hypothesis of the read-back ([api_roundtrip]). *)
Theorem api_accepts : forall calls,
  Forall call_wf calls -> borrow_ok BClosed calls ->
  acceptable_calls G L ws_init ls_init calls ->
  exists s st rs,
    wrun (writer_run fmt64 fmt32 version calls) pw0 = (s, Ok (st, rs)) /\
    Forall res_ok rs /\ length rs = length calls /\ snd (pw_flush s) = Ok tt.
Proof.
  intros calls Hwf Hb Ha.
  destruct (accept_run G L gen_full_ok calls ws_init ls_init ws_inv_init) as (l & st & rs & Hrun & Hok & _ & _);
    [intros H; discriminate H|exact Hwf|exact Hb|exact Ha|].
  destruct (wrun_image _ (writer_run fmt64 fmt32 version calls)) as (Hres & Hfl & _).
  unfold writer_run in *. rewrite Hrun in Hres. cbn [snd] in Hres.
  destruct (wrun (wapi_run G L ws_init calls) pw0) as [s r] eqn:E. cbn [fst snd] in *. subst r.
  exists s, st, rs. split; [reflexivity|]. split; [exact Hok|]. split; [|exact Hfl].
  clear - Hrun. revert Hrun. generalize ws_init ls_init. revert st rs l.
  induction calls as [|c r IH]; intros st rs l s0 l0 H.
  - cbn [wapi_run wret wrun_spec] in H. inversion H. reflexivity.
  - destruct (run_cons _ _ _ _ _ _ _ _ _ H) as (l1 & s1 & r1 & rs1 & _ & H2 & ->). cbn [length]. f_equal.
    apply (IH _ _ _ _ _ H2).
Qed.

(** the same, with the abstract state the final state follows (used by Proofs/WapiCopy.v) *)
Theorem api_accepts_abs : forall calls,
  Forall call_wf calls -> borrow_ok BClosed calls ->
  acceptable_calls G L ws_init ls_init calls ->
  exists s st rs l,
    wrun (writer_run fmt64 fmt32 version calls) pw0 = (s, Ok (st, rs)) /\
    wrun_spec (writer_run fmt64 fmt32 version calls) ls_init = (l, Ok (st, rs)) /\
    Forall res_ok rs /\ ws_inv st l /\ absr st (arun L a_init calls).
Proof.
  intros calls Hwf Hb Ha.
  destruct (accept_run_abs G L gen_full_ok calls ws_init ls_init a_init ws_inv_init) as (l & st & rs & Hrun & Hok & Hinv & _ & Habs);
    [intros H; discriminate H|exact Hwf|exact Hb|exact Ha|exact absr_init|].
  destruct (wrun_image _ (writer_run fmt64 fmt32 version calls)) as (Hres & _ & _).
  unfold writer_run in *. rewrite Hrun in Hres. cbn [snd] in Hres.
  destruct (wrun (wapi_run G L ws_init calls) pw0) as [s r] eqn:E. cbn [fst snd] in *. subst r.
  exists s, st, rs, l. auto.
Qed.

Theorem api_accepts_units : forall guid tops,
  units tops -> Forall call_wf tops ->
  acceptable_calls G L ws_init ls_init (NewWriter guid :: tops ++ [Finalize]) ->
  exists s st rs,
    wrun (writer_run fmt64 fmt32 version (NewWriter guid :: tops ++ [Finalize])) pw0 = (s, Ok (st, rs)) /\
    Forall res_ok rs /\ snd (pw_flush s) = Ok tt.
Proof.
  intros guid tops Hu Hwf Ha.
  destruct (api_accepts (NewWriter guid :: tops ++ [Finalize])) as (s & st & rs & H1 & H2 & _ & H3).
  - constructor; [exact I|]. apply Forall_app. split; [exact Hwf|]. constructor; [exact I|constructor].
  - apply complete_borrow. exact Hu.
  - exact Ha.
  - exists s, st, rs. auto.
Qed.

End Whole.

(** * The end-to-end corollary: acceptable complete program -> the file opens and everything reads back *)
From E57 Require Import Model.PagedReader Model.QueueReader Model.ReaderOpen Model.XmlTree Model.XmlParse Model.XmlExtract
  Spec.XgWriterOk Spec.XeMetaOk Proofs.C04Compose Proofs.WapiFullMeta Proofs.WapiFullInv Proofs.WapiFull.

Section Roundtrip.
Variables fmt64 fmt32 : N -> xstring.
Variables pf64 pf32 : xstr -> option N.
Variable fdiv : N -> Z -> N.
Variable version : xstring.
Hypothesis plain64 : forall b, plain_text (fmt64 b) = true.
Hypothesis plain32 : forall b, plain_text (fmt32 b) = true.
Hypothesis back64 : forall b, pf64 (fmt64 b) = Some (canon64 b).
Hypothesis back32 : forall b, pf32 (fmt32 b) = Some (canon32 b).
Hypothesis version_ok : string_ok (lib_version_text version) = true.

Theorem api_roundtrip : forall guid tops,
  units tops ->
  Forall call_ok (NewWriter guid :: tops ++ [Finalize]) ->
  acceptable_calls (gen_xml_full fmt64 fmt32) (lib_version_text version) ws_init ls_init
    (NewWriter guid :: tops ++ [Finalize]) ->
  exists s st rs,
    wrun (writer_run fmt64 fmt32 version (NewWriter guid :: tops ++ [Finalize])) pw0 = (s, Ok (st, rs)) /\
    Forall res_ok rs /\
    (forallb pc_u64 (ws_pcs st) = true -> forallb im_ok (ws_imgs st) = true ->
     len (ws_exts st) < 65535 ->
     (forall xml, gen_root (fill_meta fmt64 fmt32 (ws_meta st)) = Ok xml -> len xml <= MAX_XML_SIZE) ->
     len (d_bytes (pw_dev (fst (pw_flush s)))) < 2 ^ 64 ->
     exists is os xml bl,
       explains tops is os (ws_pcs st) (ws_imgs st) bl /\
       gen_root (fill_meta fmt64 fmt32 (ws_meta st)) = Ok xml /\
       snd (pw_flush s) = Ok tt /\
       let f := d_bytes (pw_dev (fst (pw_flush s))) in
       all_pages_valid f = true /\
       exists rs0 h d',
         reader_open (dev_init f None) = (d', Ok (rs0, h, xml)) /\
         read_meta pf64 pf32 fdiv xml = Ok (reader_view (fill_meta fmt64 fmt32 (ws_meta st))) /\
         Forall2 (reads_back rs0) is os).
Proof.
  intros guid tops Hu Hcalls Ha.
  assert (Hwft : Forall call_wf tops).
  { apply Forall_inv_tail in Hcalls. apply Forall_app in Hcalls as [H _]. rewrite Forall_forall in *.
    intros c Hc. apply (H c Hc). }
  destruct (api_accepts_units fmt64 fmt32 version guid tops Hu Hwft Ha) as (s & st & rs & Hrun & Hok & _).
  exists s, st, rs. split; [exact Hrun|]. split; [exact Hok|]. intros Hu64 Him Hext Hxml Hsz.
  apply (accepted_reads_back fmt64 fmt32 pf64 pf32 fdiv version plain64 plain32 back64 back32 version_ok
           guid tops s st rs Hu Hcalls Hrun Hok Hu64 Him Hext Hxml Hsz).
Qed.

End Roundtrip.

Print Assumptions accept_step.
Print Assumptions api_accepts.
Print Assumptions api_roundtrip.
