(** The raw point iterator returns exactly the encoded points for every legal
    layout of the section. *)
From E57 Require Import Base.Prelude Spec.PageSpec Model.PagedReader Model.Prog Model.BsRead
  Model.Record Model.QueueReader Spec.BitSpec Spec.FormatSpec.
From E57 Require Import Proofs.BitLemmas Proofs.BitWidthProofs Proofs.BitReadProofs
  Proofs.BitCodecProofs Proofs.QueueReaderLemmas Proofs.QueueReaderPacket Proofs.QueueReaderDecode.
From Coq Require Import ZifyN ZifyNat ZifyBool.
Ltac Zify.zify_post_hook ::= Z.div_mod_to_equations.
Open Scope N_scope.

(** * From the index-based specification to parallel lists *)

Definition cols_of (n : nat) (points : list (list rvalue)) : list (list rvalue) :=
  map (fun i => column i points) (seq 0 n).
Definition futs_of (n : nat) (l : layout) : list (list N) :=
  map (fun i => concat (record_chunks i l)) (seq 0 n).

Lemma cols_of_length n points : length (cols_of n points) = n.
Proof. unfold cols_of. rewrite map_length, seq_length. reflexivity. Qed.

Lemma futs_of_length n l : length (futs_of n l) = n.
Proof. unfold futs_of. rewrite map_length, seq_length. reflexivity. Qed.

Lemma cols_of_nth n points i : (i < n)%nat -> nth i (cols_of n points) [] = column i points.
Proof.
  intros H. unfold cols_of. rewrite nth_map_seq. destruct (i <? n)%nat eqn:E; [reflexivity|lia].
Qed.

Lemma futs_of_nth n l i : (i < n)%nat -> nth i (futs_of n l) [] = concat (record_chunks i l).
Proof.
  intros H. unfold futs_of. rewrite nth_map_seq. destruct (i <? n)%nat eqn:E; [reflexivity|lia].
Qed.

Lemma futs_data n chunks rest : length chunks = n ->
  Forall3 (fun f c f' => f = c ++ f') (futs_of n (SData chunks :: rest)) chunks (futs_of n rest).
Proof.
  intros Hn. apply (Forall3_nth _ [] [] [] n); try apply futs_of_length; try exact Hn.
  intros i Hi. rewrite !futs_of_nth by exact Hi. reflexivity.
Qed.

Lemma futs_index n total rest : futs_of n (SIndex total :: rest) = futs_of n rest.
Proof. reflexivity. Qed.

Lemma futs_ignored n total rest : futs_of n (SIgnored total :: rest) = futs_of n rest.
Proof. reflexivity. Qed.

Lemma futs_nil n : Forall (fun f => f = []) (futs_of n []).
Proof.
  apply Forall_forall. intros f Hf. unfold futs_of in Hf. apply in_map_iff in Hf as (i & <- & _).
  reflexivity.
Qed.

Lemma cols_of_len n points :
  Forall (fun c => length c = length points) (cols_of n points).
Proof.
  apply Forall_forall. intros c Hc. unfold cols_of in Hc. apply in_map_iff in Hc as (i & <- & _).
  unfold column. apply map_length.
Qed.

Lemma all_nat_spec f : forall n, all_nat n f = true -> forall i, (i < n)%nat -> f i = true.
Proof.
  induction n; intros H i Hi; [lia|]. cbn [all_nat] in H. apply andb_prop in H as [H1 H2].
  destruct (Nat.eq_dec i n) as [->|Hne]; [exact H1|apply IHn; [exact H2|lia]].
Qed.

Lemma point_ok_spec proto p : point_ok proto p = true ->
  length p = length proto /\
  forall i, (i < length proto)%nat -> in_range (nth i proto TSingle) (nth i p (VInteger 0)) = true.
Proof.
  unfold point_ok. intros H. apply andb_prop in H as [H1 H2]. apply Nat.eqb_eq in H1.
  split; [exact H1|]. intros i Hi. rewrite forallb_forall in H2.
  specialize (H2 (nth i (combine proto p) (TSingle, VInteger 0))).
  rewrite combine_nth in H2 by lia. apply H2. rewrite <- combine_nth by lia.
  apply nth_In. rewrite combine_length. lia.
Qed.

Lemma scene_ok_spec proto points : scene_ok proto points = true ->
  Forall (fun t => type_ok t = true) proto /\
  Forall (fun p => point_ok proto p = true) points /\
  existsb sized proto = true.
Proof.
  unfold scene_ok. intros H. apply andb_prop in H as [H H3]. apply andb_prop in H as [H1 H2].
  split; [apply Forall_forall; rewrite forallb_forall in H1; exact H1|].
  split; [apply Forall_forall; rewrite forallb_forall in H2; exact H2|exact H3].
Qed.

Lemma legal_spec proto points lay : legal proto points lay = true ->
  Forall (fun p => packet_ok (length proto) p = true) lay /\
  forall i, (i < length proto)%nat ->
    concat (record_chunks i lay) = spec_stream_bytes (nth i proto TSingle) (column i points).
Proof.
  unfold legal. intros H. apply andb_prop in H as [H1 H2].
  split; [apply Forall_forall; rewrite forallb_forall in H1; exact H1|].
  intros i Hi. pose proof (all_nat_spec _ _ H2 i Hi) as H. cbv beta in H.
  destruct (list_eq_dec N.eq_dec _ _) as [E|E]; [exact E|discriminate].
Qed.

Lemma initial_lists proto points lay :
  scene_ok proto points = true -> legal proto points lay = true ->
  Forall3 (fun t c f => type_ok t = true /\ Forall (fun v => in_range t v = true) c /\
                        f = spec_stream_bytes t c)
          proto (cols_of (length proto) points) (futs_of (length proto) lay).
Proof.
  intros Hs Hl. apply scene_ok_spec in Hs as (Ht & Hp & _). apply legal_spec in Hl as (_ & Hl).
  apply (Forall3_nth _ TSingle [] [] (length proto));
    [reflexivity|apply cols_of_length|apply futs_of_length|].
  intros i Hi. rewrite cols_of_nth, futs_of_nth by exact Hi. split; [|split].
  - rewrite Forall_forall in Ht. apply Ht. apply nth_In. exact Hi.
  - unfold column. apply Forall_map. revert Hp. apply Forall_impl. intros p Hp.
    apply point_ok_spec in Hp as [_ Hp]. apply Hp. exact Hi.
  - apply Hl. exact Hi.
Qed.

Lemma Forall2_nth_elim {A B} (R : A -> B -> Prop) da db : forall la lb, Forall2 R la lb ->
  forall i, (i < length la)%nat -> R (nth i la da) (nth i lb db).
Proof.
  induction 1 as [|a b la lb Hab HF IH]; intros i Hi; cbn [length] in Hi; [lia|].
  destruct i; cbn [nth]; [exact Hab|apply IH; lia].
Qed.

Lemma popped_point proto points k vs :
  Forall (fun p => point_ok proto p = true) points -> (k < length points)%nat ->
  Forall2 (fun c v => v = nth k c (VInteger 0)) (cols_of (length proto) points) vs ->
  vs = nth k points [].
Proof.
  intros Hp Hk HF.
  assert (Hpk : point_ok proto (nth k points []) = true).
  { rewrite Forall_forall in Hp. apply Hp. apply nth_In. exact Hk. }
  apply point_ok_spec in Hpk as [Hlen _].
  pose proof (Forall2_length_ _ _ _ HF) as HL. rewrite cols_of_length in HL.
  apply (nth_ext _ _ (VInteger 0) (VInteger 0)); [lia|].
  intros i Hi.
  pose proof (Forall2_nth_elim _ [] (VInteger 0) _ _ HF i) as H.
  rewrite cols_of_length in H. specialize (H ltac:(lia)).
  rewrite cols_of_nth in H by lia. rewrite H. unfold column.
  rewrite (nth_indep _ (VInteger 0) (nth i [] (VInteger 0))) by (rewrite map_length; exact Hk).
  rewrite (map_nth (fun p => nth i p (VInteger 0)) points [] k). reflexivity.
Qed.

Lemma firstn_S_nth {A} (d : A) : forall k l, (k < length l)%nat ->
  firstn (S k) l = firstn k l ++ [nth k l d].
Proof.
  induction k; intros l H; destruct l as [|x l]; cbn [length] in H; try lia.
  - reflexivity.
  - cbn [firstn nth app] in *. rewrite <- IHk by lia. reflexivity.
Qed.

Lemma Forall2_Forall_r {A B} (R : A -> B -> Prop) (P : A -> Prop) (Q : B -> Prop) :
  (forall a b, R a b -> P a -> Q b) -> forall la lb, Forall2 R la lb -> Forall P la -> Forall Q lb.
Proof.
  intros H la lb HF. induction HF as [|a b la lb Hab HF IH]; intros HP; [constructor|].
  inversion HP; subst. constructor; eauto.
Qed.

(** * The iteration *)

Section Iter.
Variables (proto : list dtype) (points : list (list rvalue)) (log post : list N).
Hypothesis Hscene : scene_ok proto points = true.

Local Notation n := (length proto).
Local Notation cols := (cols_of (length proto) points).

(** [k] points have been returned, [rest] are the packets not yet read, the
    cursor is at the first of them. *)
Definition st_inv (k : nat) (rest : layout) (off : N) (q : qr) : Prop :=
  exists ss qs, q = mkQr proto ss qs /\
    cur log off (section_body rest ++ post) /\ off mod 4 = 0 /\
    Forall (fun p => packet_ok n p = true) rest /\
    inv5 true k proto cols (futs_of n rest) ss qs.

Lemma advance_ok k p rest off q : st_inv k (p :: rest) off q ->
  exists off' q', runs log (qr_advance q) off off' q' /\ st_inv k rest off' q'.
Proof.
  intros (ss & qs & -> & Hc & Hoff & Hok & Hi).
  inversion Hok as [|? ? Hp Hrest]; subst.
  rewrite section_body_cons, <- app_assoc in Hc.
  destruct (scene_ok_spec _ _ Hscene) as (Hty & _ & Hex).
  destruct p as [chunks|total|total].
  - destruct (packet_ok_data _ _ Hp) as (Hn & _ & _ & _ & Hbok).
    destruct (inv5_append _ _ _ _ _ _ _ Hi chunks _ (futs_data n chunks rest Hn) Hbok)
      as (ss1 & HF & Hi1).
    destruct (inv5_parse _ _ _ _ _ _ Hi1) as (ss2 & qs2 & Hp2 & Hi2).
    assert (Hhs : has_sized proto = true) by (rewrite (has_sized_sized proto Hty); exact Hex).
    destruct (advance_data log off (mkQr proto ss qs) chunks (section_body rest ++ post)
                ss1 ss2 qs2 Hoff Hp Hc HF Hhs Hp2) as [Hr Hc'].
    cbn [q_proto] in Hr.
    exists (off + data_packet_len chunks), (mkQr proto ss2 qs2). split; [exact Hr|].
    exists ss2, qs2. split; [reflexivity|]. split; [exact Hc'|].
    split; [pose proof (data_packet_len_mod4 chunks); lia|]. split; [exact Hrest|exact Hi2].
  - destruct (advance_index log off (mkQr proto ss qs) total _ Hoff Hp Hc) as [Hr Hc'].
    exists (off + total), (mkQr proto ss qs). split; [exact Hr|].
    exists ss, qs. split; [reflexivity|]. split; [exact Hc'|].
    split; [apply packet_ok_index in Hp; lia|]. split; [exact Hrest|exact Hi].
  - destruct (advance_ignored log off (mkQr proto ss qs) total _ Hoff Hp Hc) as [Hr Hc'].
    exists (off + total), (mkQr proto ss qs). split; [exact Hr|].
    exists ss, qs. split; [reflexivity|]. split; [exact Hc'|].
    split; [apply packet_ok_ignored in Hp; lia|]. split; [exact Hrest|exact Hi].
Qed.

(** [available] is a lower bound of the queues of the records of non-zero
    width and the length of one of them. *)
Lemma st_avail k rest off q : st_inv k rest off q ->
  sized_ge (qr_available q) proto (q_queues q) /\ attained (qr_available q) proto (q_queues q).
Proof.
  intros (ss & qs & -> & _ & _ & _ & Hi). cbn [q_queues].
  destruct (scene_ok_spec _ _ Hscene) as (Hty & _ & Hex).
  destruct (inv5_length _ _ _ _ _ _ _ Hi) as (_ & _ & _ & Hl).
  apply avail_spec; assumption.
Qed.

Lemma cols_lt k : (k < length points)%nat -> Forall (fun c => (k < length c)%nat) cols.
Proof.
  intros Hk. pose proof (cols_of_len n points) as H. revert H. apply Forall_impl.
  intros c ->. exact Hk.
Qed.

Lemma refill_ok : forall rest fuel k off q,
  st_inv k rest off q -> (k < length points)%nat -> (length rest < fuel)%nat ->
  exists rest' off' q', runs log (refill fuel q) off off' q' /\ st_inv k rest' off' q' /\
                        1 <= qr_available q'.
Proof.
  induction rest as [|p rest IH]; intros fuel k off q Hst Hk Hfuel;
    (destruct fuel as [|f]; [lia|]); cbn [refill]; destruct (qr_available q <? 1) eqn:E.
  - exfalso. destruct (st_avail _ _ _ _ Hst) as [_ Hatt].
    destruct Hst as (ss & qs & -> & _ & _ & _ & Hi). cbn [q_queues] in Hatt.
    pose proof (inv5_progress _ _ _ _ _ _ Hi (futs_nil n) (cols_lt k Hk)) as HF.
    apply (attained_nonzero _ _ _ Hatt HF). lia.
  - exists [], off, q. split; [apply runs_ret|]. split; [exact Hst|lia].
  - destruct (advance_ok _ _ _ _ _ Hst) as (off1 & q1 & Hr1 & Hst1).
    destruct (IH f k off1 q1 Hst1 Hk ltac:(cbn [length] in Hfuel; lia))
      as (rest' & off' & q' & Hr2 & Hst' & Hav).
    exists rest', off', q'. split; [|split; assumption].
    eapply runs_bind; [exact Hr1|exact Hr2].
  - exists (p :: rest), off, q. split; [apply runs_ret|]. split; [exact Hst|lia].
Qed.

Lemma pop_ok k rest off q : st_inv k rest off q -> 1 <= qr_available q ->
  (k < length points)%nat ->
  exists qs', pop_fronts (q_proto q) (q_queues q) = Ok (nth k points [], qs') /\
              st_inv (S k) rest off (mkQr (q_proto q) (q_streams q) qs').
Proof.
  intros Hst Hav Hk. destruct (st_avail _ _ _ _ Hst) as [Hge _].
  destruct Hst as (ss & qs & -> & Hc & Hoff & Hok & Hi).
  destruct (scene_ok_spec _ _ Hscene) as (_ & Hpts & _).
  cbn [q_queues q_proto q_streams] in *.
  pose proof (sized_ge_nonempty _ _ (sized_ge_le _ 1 _ _ Hav Hge)) as Hne.
  destruct (inv5_pop _ _ _ _ _ _ _ Hi (cols_lt k Hk) Hne) as (vs & qs' & Hp & Hi' & HF1).
  pose proof (popped_point proto points k vs Hpts Hk HF1) as ->.
  exists qs'. split; [exact Hp|].
  exists ss, qs'. split; [reflexivity|]. split; [exact Hc|]. split; [exact Hoff|].
  split; [exact Hok|exact Hi'].
Qed.

Lemma fuel_enough k rest off q : st_inv k rest off q -> (length rest < refill_fuel (len log))%nat.
Proof.
  intros (ss & qs & _ & Hc & _ & Hok & _).
  pose proof (cur_len _ _ _ Hc) as HL. rewrite qlen_app in HL.
  destruct (qlen_section_body _ _ Hok) as [H4 _].
  unfold refill_fuel. unfold len in *. lia.
Qed.

Lemma raw_next_item k rest off q : st_inv k rest off q -> (k < length points)%nat ->
  exists rest' off' q',
    runs log (raw_next (len log) (mkRaw q (len points) (N.of_nat k))) off off'
         (mkRaw q' (len points) (N.of_nat (S k)), Item (nth k points [])) /\
    st_inv (S k) rest' off' q'.
Proof.
  intros Hst Hk.
  destruct (refill_ok rest _ k off q Hst Hk (fuel_enough _ _ _ _ Hst))
    as (rest' & off' & q1 & Hr & Hst1 & Hav).
  destruct (pop_ok _ _ _ _ Hst1 Hav Hk) as (qs' & Hp & Hst2).
  exists rest', off', (mkQr (q_proto q1) (q_streams q1) qs'). split; [|exact Hst2].
  unfold raw_next. cbn [ri_records ri_read ri_q].
  destruct (len points <=? N.of_nat k) eqn:E; [unfold len in E; lia|].
  eapply runs_bind; [exact Hr|]. rewrite Hp.
  replace (N.of_nat (S k)) with (N.of_nat k + 1) by lia. apply runs_ret.
Qed.

Lemma raw_next_done off q :
  runs log (raw_next (len log) (mkRaw q (len points) (N.of_nat (length points)))) off off
       (mkRaw q (len points) (N.of_nat (length points)), Done).
Proof.
  unfold raw_next. cbn [ri_records ri_read].
  destruct (len points <=? N.of_nat (length points)) eqn:E; [apply runs_ret|unfold len in E; lia].
Qed.

Lemma collect_ok : forall d k fuel rest off q,
  st_inv k rest off q -> (k + d = length points)%nat -> (d < fuel)%nat ->
  exists off', runs log (raw_collect fuel (len log) (mkRaw q (len points) (N.of_nat k))
                           (firstn k points)) off off' points.
Proof.
  induction d as [|d IH]; intros k fuel rest off q Hst Hd Hfuel;
    (destruct fuel as [|f]; [lia|]); cbn [raw_collect].
  - assert (k = length points) by lia. subst k.
    exists off. eapply runs_bind; [apply raw_next_done|]. cbv beta iota.
    rewrite firstn_all. apply runs_ret.
  - assert (Hk : (k < length points)%nat) by lia.
    destruct (raw_next_item _ _ _ _ Hst Hk) as (rest' & off1 & q' & Hr & Hst').
    destruct (IH (S k) f rest' off1 q' Hst' ltac:(lia) ltac:(lia)) as (off' & Hr').
    exists off'. eapply runs_bind; [exact Hr|]. cbv beta iota.
    rewrite <- (firstn_S_nth [] k points Hk). exact Hr'.
Qed.

End Iter.

(** * The theorem

    Two hypotheses were added at the end of the list as first stated, both
    necessary: the logical stream is a whole number of 1020-byte payloads (the
    logical reader rejects every seek into a trailing partial payload; with
    [pre = [9;9;9;9]] and [post = [1]] the result is [Err ERead]), and the
    physical size fits the 8-byte data offset field of the section header. *)
Theorem qr_decodes_any_layout :
  forall (proto : list dtype) (points : list (list rvalue)) (lay : layout) (pre post log : list N) (fuel : nat),
  scene_ok proto points = true -> legal proto points lay = true ->
  log = pre ++ encode_section (phys_of_log (len pre + 32)) lay ++ post ->
  len pre mod 4 = 0 -> post <> [] ->
  (length points < fuel)%nat ->
  len log mod 1020 = 0 -> phys_of_log (len log) < 2 ^ 64 ->
  snd (rrun_spec log (rbind (raw_new (phys_of_log (len pre)) (len points) proto)
                            (fun it => raw_collect fuel (len log) it [])) 0) = Ok points.
Proof.
  intros proto points lay pre post log fuel Hscene Hlegal Hlog Hpre Hpost Hfuel Hmod Hsz.
  destruct (legal_spec _ _ _ Hlegal) as [Hok _].
  destruct (raw_new_runs log pre lay post (length proto) (len points) proto Hlog Hpost Hok Hmod Hsz)
    as [Hr0 Hc0].
  set (q0 := mkQr proto (map (fun _ => bsr_new) proto) (map (fun _ => []) proto)) in *.
  assert (Hst : st_inv proto points log post 0 lay (len pre + 32) q0).
  { eexists _, _. split; [reflexivity|]. split; [exact Hc0|]. split; [lia|]. split; [exact Hok|].
    apply inv5_init; apply initial_lists; assumption. }
  destruct (collect_ok proto points log post Hscene (length points) 0 fuel lay _ q0 Hst
              ltac:(lia) Hfuel) as (off' & Hr).
  cbn [firstn] in Hr. change (N.of_nat 0) with 0 in Hr.
  pose proof (runs_bind _ _ (fun it => raw_collect fuel (len log) it []) _ _ _ _ _ Hr0 Hr) as H.
  unfold runs in H. rewrite H. reflexivity.
Qed.

(** An empty point cloud: no seek to the data offset is made, so nothing need
    follow the section ([post] may be empty and the section may end exactly at
    the end of the stream); neither the prototype nor the alignment of the
    section matter, and the packets of the layout (index, ignored, data
    packets of empty chunks) are not read. *)
Theorem qr_decodes_empty :
  forall (proto : list dtype) (lay : layout) (pre post log : list N) (fuel : nat),
  legal proto [] lay = true ->
  log = pre ++ encode_section (phys_of_log (len pre + 32)) lay ++ post ->
  (0 < fuel)%nat ->
  len log mod 1020 = 0 -> phys_of_log (len log) < 2 ^ 64 ->
  snd (rrun_spec log (rbind (raw_new (phys_of_log (len pre)) (len (@nil (list rvalue))) proto)
                            (fun it => raw_collect fuel (len log) it [])) 0) = Ok [].
Proof.
  intros proto lay pre post log fuel Hlegal Hlog Hfuel Hmod Hsz.
  destruct (legal_spec _ _ _ Hlegal) as [Hok _].
  destruct (raw_new_runs_gen log pre lay post (length proto) (len (@nil (list rvalue))) proto Hlog
              (or_introl eq_refl) Hok Hmod Hsz) as [Hr0 _].
  destruct fuel as [|f]; [lia|].
  assert (Hr : runs log (raw_collect (S f) (len log)
                 (mkRaw (mkQr proto (map (fun _ => bsr_new) proto) (map (fun _ => []) proto))
                        (len (@nil (list rvalue))) 0) []) (len pre + 32) (len pre + 32) []).
  { cbn [raw_collect]. unfold raw_next. cbn [ri_records ri_read].
    change (len (@nil (list rvalue)) <=? 0) with true. cbv iota. cbn [rbind]. apply runs_ret. }
  pose proof (runs_bind _ _ (fun it => raw_collect (S f) (len log) it []) _ _ _ _ _ Hr0 Hr) as H.
  unfold runs in H. rewrite H. reflexivity.
Qed.

(** ** Instances, by computation

    A prototype with a zero-width record, three points, and a layout with
    index and ignored packets between the data packets, empty chunks, a data
    packet of empty chunks only, values straddling packets, and a record whose
    bytes all arrive in the last data packet. *)
Module QrInstance.
  Definition proto := [TSingle; TInteger 0 7; TInteger 5 5; TDouble].
  Definition points :=
    [[VSingle 1; VInteger 3; VInteger 5; VDouble 77]; [VSingle 2; VInteger 7; VInteger 5; VDouble 78];
     [VSingle 3; VInteger 1; VInteger 5; VDouble 79]].
  Definition s0 := spec_stream_bytes TSingle (column 0 points).
  Definition s1 := spec_stream_bytes (TInteger 0 7) (column 1 points).
  Definition s3 := spec_stream_bytes TDouble (column 3 points).
  Definition lay : layout :=
    [SIndex 16; SData [take 5 s0; []; []; take 3 s3]; SIgnored 4; SData [[]; []; []; []]; SIgnored 8;
     SData [drop 5 s0; s1; []; drop 3 s3]; SIndex 20].
  Definition log_of (pre post : list N) : list N :=
    pre ++ encode_section (phys_of_log (len pre + 32)) lay ++ post.
  Definition run (pre post : list N) : res (list (list rvalue)) :=
    let log := log_of pre post in
    snd (rrun_spec log (rbind (raw_new (phys_of_log (len pre)) (len points) proto)
                              (fun it => raw_collect 4 (len log) it [])) 0).
End QrInstance.

(** The hypotheses of the theorem are satisfiable (section across a page boundary). *)
Example qr_decodes_any_layout_instance :
  QrInstance.run (repeat 9 1000%nat) (repeat 7 876%nat) = Ok QrInstance.points.
Proof.
  unfold QrInstance.run. cbv zeta.
  apply (qr_decodes_any_layout QrInstance.proto QrInstance.points QrInstance.lay
           (repeat 9 1000%nat) (repeat 7 876%nat)); try (vm_compute; reflexivity).
  discriminate.
Qed.

(** Without [len log mod 1020 = 0] the statement is false: all other
    hypotheses hold and every seek is rejected. *)
Example qr_decodes_any_layout_needs_whole_payloads :
  let pre := [9; 9; 9; 9] in let post := [1] in
  scene_ok QrInstance.proto QrInstance.points = true /\
  legal QrInstance.proto QrInstance.points QrInstance.lay = true /\
  len pre mod 4 = 0 /\ post <> [] /\ len (QrInstance.log_of pre post) = 169 /\
  QrInstance.run pre post = Err ERead.
Proof.
  cbv zeta. repeat split; try (vm_compute; reflexivity). discriminate.
Qed.

(** The empty point cloud: the section (header, an index packet, a data packet
    of empty chunks, an ignored packet) ends exactly at the end of the stream. *)
Module QrEmpty.
  Definition lay : layout := [SIndex 16; SData [[]; []; []; []]; SIgnored 8].
  Definition pre : list N := repeat 9 948%nat.
  Definition log : list N := pre ++ encode_section (phys_of_log (len pre + 32)) lay ++ [].
  Definition run (records : N) : res (list (list rvalue)) :=
    snd (rrun_spec log (rbind (raw_new (phys_of_log (len pre)) records QrInstance.proto)
                              (fun it => raw_collect 1 (len log) it [])) 0).
End QrEmpty.

Example qr_decodes_empty_instance :
  len QrEmpty.log = 1020 /\ QrEmpty.run 0 = Ok [].
Proof.
  split; [vm_compute; reflexivity|].
  apply (qr_decodes_empty QrInstance.proto QrEmpty.lay QrEmpty.pre []); vm_compute; reflexivity.
Qed.

(** A section without packets at the very end of the stream: its data offset
    is the end of the stream, a seek there is rejected.  With no records the
    seek is not made and the (empty) result is returned; claiming one record
    makes the same stream fail. *)
Example qr_decodes_empty_no_packets :
  let pre := repeat 9 988%nat in
  let log := pre ++ encode_section (phys_of_log (len pre + 32)) [] ++ [] in
  let run records :=
    snd (rrun_spec log (rbind (raw_new (phys_of_log (len pre)) records QrInstance.proto)
                              (fun it => raw_collect 1 (len log) it [])) 0) in
  len log = 1020 /\ run 0 = Ok [] /\ run 1 = Err ERead.
Proof.
  cbv zeta. split; [vm_compute; reflexivity|]. split; [|vm_compute; reflexivity].
  apply (qr_decodes_empty QrInstance.proto [] (repeat 9 988%nat) []); vm_compute; reflexivity.
Qed.

Print Assumptions qr_decodes_any_layout.
Print Assumptions qr_decodes_empty.
